import WK.Proofs.C39_kv
/-
  C39 — Hash-slot migration neither loses nor duplicates metadata writes.

  Theorems about `Src.write / Src.fence / Src.writes / Tgt.applyDelta /
  Tgt.deliverAll / Tgt.importSnapshot / Tgt.write`, the definitions the driver
  executes against two real slot FSMs.  `applyOne` is "put key value" (class PA).

  The unconditional "no loss" statement is FALSE of the code for deliveries that
  reorder two deltas touching the same key (the target dedupes by (source slot,
  source index) only, it does not order): kept as `c39_no_loss_reorder_counterexample`
  next to `c39_no_loss` (deltas delivered in source order, any replays).
-/
namespace WK.C39

/-! ## 1. a forwarded delta takes effect exactly once -/

theorem applied_mono (t : Tgt) (d : Delta) (x : Nat) (h : x ∈ t.applied) : x ∈ (t.applyDelta d).applied := by
  unfold Tgt.applyDelta
  split
  · exact h
  · exact List.mem_cons_of_mem _ h

theorem applied_self (t : Tgt) (d : Delta) : d.idx ∈ (t.applyDelta d).applied := by
  unfold Tgt.applyDelta
  split
  · rename_i h
    simp at h
    exact h
  · exact List.mem_cons_self

theorem applied_mono_all (ds : List Delta) (t : Tgt) (x : Nat) (h : x ∈ t.applied) : x ∈ (t.deliverAll ds).applied := by
  induction ds generalizing t with
  | nil => exact h
  | cons d rest ih =>
    simp only [Tgt.deliverAll, List.foldl]
    exact ih _ (applied_mono t d x h)

theorem applyDelta_recorded (t : Tgt) (d : Delta) (h : d.idx ∈ t.applied) : t.applyDelta d = t := by
  unfold Tgt.applyDelta
  have : t.applied.any (· == d.idx) = true := by simp; exact h
  simp [this]

/-- a delta whose replay key is recorded is a no-op; a fresh one writes its effect and its record
    in the same step -/
theorem c39_delta_step (t : Tgt) (d : Delta) :
    (d.idx ∈ t.applied → t.applyDelta d = t) ∧
    (d.idx ∉ t.applied → (t.applyDelta d).applied = d.idx :: t.applied ∧
       (t.applyDelta d).data = (match d.cmd with | some (k, v) => put k v t.data | none => t.data)) := by
  constructor
  · exact applyDelta_recorded t d
  · intro h
    unfold Tgt.applyDelta
    have : t.applied.any (· == d.idx) = false := by
      cases hx : t.applied.any (· == d.idx) with
      | false => rfl
      | true => simp at hx; exact absurd hx h
    simp only [this]
    exact ⟨rfl, rfl⟩

/-- **Exactly once across replays.**  After ANY sequence of deliveries that contained a delta with
    source index `i`, delivering a delta with that index again — in the same batch, later, after a
    restart (the record is durable: `Tgt` has no volatile part) — changes nothing. -/
theorem c39_delta_once (t : Tgt) (ds : List Delta) (d : Delta) (h : ∃ d0 ∈ ds, d0.idx = d.idx) :
    (t.deliverAll ds).applyDelta d = t.deliverAll ds := by
  apply applyDelta_recorded
  obtain ⟨d0, hmem, hidx⟩ := h
  rw [← hidx]
  clear hidx d
  induction ds generalizing t with
  | nil => cases hmem
  | cons x rest ih =>
    simp only [Tgt.deliverAll, List.foldl]
    rcases List.mem_cons.mp hmem with rfl | hm
    · exact applied_mono_all rest _ _ (applied_self t d0)
    · exact ih _ hm

/-- non-vacuity: a replayed write delta after a newer write to the same key does not resurrect the old value -/
example : get (((({} : Tgt).applyDelta ⟨1, some (1, 10)⟩).applyDelta ⟨2, some (1, 20)⟩).applyDelta ⟨1, some (1, 10)⟩).data 1 = some 20 := by
  decide

/-! ## 2. no accepted write is lost -/

def Src.open (s : Src) : Prop := s.owned = true ∧ s.fenced = false

theorem write_unstarted (s : Src) (k v : Nat) (ho : s.open) (hs : s.started = false) :
    s.write k v = ({ s with idx := s.idx + 1, data := put k v s.data }, "ok", none) := by
  obtain ⟨h1, h2⟩ := ho
  simp [Src.write, Src.fenced] at h2 ⊢
  simp [h1, hs, Src.fenced, h2]

theorem fenced_keep (s : Src) (m : MState) (hf : s.fenced = false) (hm : m = s.loadOrCreate) : m.fence = 0 := by
  unfold Src.fenced at hf
  unfold Src.loadOrCreate at hm
  cases hst : s.st with
  | none => rw [hst] at hm; simp at hm; rw [hm]
  | some m0 => rw [hst] at hf hm; simp at hf hm; rw [hm]; exact hf

theorem write_eq_started (s : Src) (k v : Nat) (ho : s.open) (hs : s.started = true) :
    s.write k v =
      ({ s with idx := s.idx + 1, data := put k v s.data, outbox := s.outbox ++ [s.idx + 1],
                st := some { s.loadOrCreate with phase := 1, lastOutbox := max s.loadOrCreate.lastOutbox (s.idx + 1) } },
       "ok", some ⟨s.idx + 1, some (k, v)⟩) := by
  obtain ⟨h1, h2⟩ := ho
  cases s with
  | mk data owned started idx outbox st =>
    simp only at h1 hs
    subst h1 hs
    cases st with
    | none => simp [Src.write, Src.fenced, Src.loadOrCreate]
    | some m =>
      simp [Src.fenced] at h2
      simp [Src.write, Src.fenced, Src.loadOrCreate, h2]

theorem write_started (s : Src) (k v : Nat) (ho : s.open) (hs : s.started = true) :
    (s.write k v).1.data = put k v s.data ∧ (s.write k v).1.open ∧ (s.write k v).1.started = true ∧
    (s.write k v).1.idx = s.idx + 1 ∧ (s.write k v).2.1 = "ok" ∧
    (s.write k v).2.2 = some ⟨s.idx + 1, some (k, v)⟩ ∧ (s.idx + 1) ∈ (s.write k v).1.outbox := by
  have hf := fenced_keep s s.loadOrCreate ho.2 rfl
  rw [write_eq_started s k v ho hs]
  refine ⟨rfl, ⟨ho.1, ?_⟩, hs, rfl, rfl, rfl, ?_⟩
  · simp [Src.fenced, hf]
  · simp

/-- a run of accepted writes -/
theorem writes_spec (ws : List (Nat × Nat)) (s : Src) (ho : s.open) :
    (s.writes ws).1.data = putAll ws s.data ∧ (s.writes ws).1.open ∧ (s.writes ws).1.started = s.started ∧
    (s.writes ws).1.idx = s.idx + ws.length ∧
    (s.started = false → (s.writes ws).2 = []) ∧
    (s.started = true → (s.writes ws).2.filterMap (·.cmd) = ws ∧
        (∀ d ∈ (s.writes ws).2, s.idx < d.idx) ∧ (s.writes ws).2.Pairwise (fun a b => a.idx < b.idx)) := by
  induction ws generalizing s with
  | nil =>
    simp [Src.writes, putAll]
    exact ho
  | cons w rest ih =>
    obtain ⟨k, v⟩ := w
    cases hs : s.started with
    | false =>
      have hw := write_unstarted s k v ho hs
      have ho' : ({ s with idx := s.idx + 1, data := put k v s.data } : Src).open := ⟨ho.1, ho.2⟩
      have this := ih { s with idx := s.idx + 1, data := put k v s.data } ho'
      have hs' : ({ s with idx := s.idx + 1, data := put k v s.data } : Src).started = false := hs
      simp only [Src.writes, hw]
      refine ⟨?_, this.2.1, ?_, ?_, ?_, ?_⟩
      · rw [this.1]; simp [putAll]
      · rw [this.2.2.1]; exact hs
      · rw [this.2.2.2.1]; simp; omega
      · intro _; simp [this.2.2.2.2.1 hs']
      · intro h; cases h
    | true =>
      have hw := write_started s k v ho hs
      obtain ⟨hd, hopen, hst, hidx, _, hdelta, _⟩ := hw
      have := ih (s.write k v).1 hopen
      simp only [Src.writes]
      rw [hdelta]
      rw [hst] at this
      refine ⟨?_, this.2.1, this.2.2.1, ?_, ?_, ?_⟩
      · rw [this.1, hd]; simp [putAll]
      · rw [this.2.2.2.1, hidx]; simp; omega
      · intro h; cases h
      · intro _
        have hr := this.2.2.2.2.2 rfl
        refine ⟨?_, ?_, ?_⟩
        · simp [hr.1]
        · intro d hmem
          simp at hmem
          rcases hmem with rfl | hmem
          · simp
          · have := hr.2.1 d hmem; rw [hidx] at this; omega
        · simp only [List.singleton_append]
          rw [List.pairwise_cons]
          refine ⟨?_, hr.2.2⟩
          intro d hmem
          have := hr.2.1 d hmem
          rw [hidx] at this
          exact this

/-- delivering fresh, pairwise distinct deltas applies each of their writes, in order -/
theorem deliverAll_fresh (ds : List Delta) (t : Tgt)
    (hfresh : ∀ d ∈ ds, d.idx ∉ t.applied) (hdist : ds.Pairwise (fun a b => a.idx < b.idx)) :
    (t.deliverAll ds).data = putAll (ds.filterMap (·.cmd)) t.data := by
  induction ds generalizing t with
  | nil => rfl
  | cons d rest ih =>
    simp only [Tgt.deliverAll, List.foldl]
    have hd := (c39_delta_step t d).2 (hfresh d List.mem_cons_self)
    rw [List.pairwise_cons] at hdist
    have := ih (t.applyDelta d) (by
      intro x hx
      rw [hd.1]
      intro hmem
      rcases List.mem_cons.mp hmem with h | h
      · have := hdist.1 x hx; omega
      · exact hfresh x (List.mem_cons_of_mem _ hx) h) hdist.2
    simp only [Tgt.deliverAll] at this
    rw [this, hd.2]
    cases hc : d.cmd with
    | none => simp [hc]
    | some kv => obtain ⟨k, v⟩ := kv; simp [hc, putAll]

/-- **No loss (deltas delivered in source order).**  Writes `ws0` before forwarding starts, `ws1`
    between the start of forwarding and the snapshot, `ws2` after the snapshot; the target imports
    the snapshot and then receives every forwarded delta in source order.  Then the target holds,
    for every key, exactly what the source holds — every accepted write is in the snapshot or in
    the outbox, replaying the overlap `ws1` is harmless.  (Replays of any delta, at any later
    point, change nothing: `c39_delta_once`.) -/
theorem c39_no_loss (ws0 ws1 ws2 : List (Nat × Nat)) :
    let s1 := (({} : Src).writes ws0).1
    let r2 := ({ s1 with started := true } : Src).writes ws1
    let t1 := ({} : Tgt).importSnapshot r2.1
    let r3 := r2.1.writes ws2
    let t2 := t1.deliverAll (r2.2 ++ r3.2)
    ∀ k, get t2.data k = get r3.1.data k := by
  intro s1 r2 t1 r3 t2 k
  have h0 : ({} : Src).open := ⟨rfl, rfl⟩
  have w0 := writes_spec ws0 {} h0
  have ho1 : ({ s1 with started := true } : Src).open := w0.2.1
  have w1 := writes_spec ws1 { s1 with started := true } ho1
  have w2 := writes_spec ws2 r2.1 w1.2.1
  have hst2 : r2.1.started = true := w1.2.2.1
  have d1 := w1.2.2.2.2.2 rfl
  have d2 := w2.2.2.2.2.2 hst2
  -- all forwarded deltas: strictly increasing indices
  have hpw : (r2.2 ++ r3.2).Pairwise (fun a b => a.idx < b.idx) := by
    rw [List.pairwise_append]
    refine ⟨d1.2.2, d2.2.2, ?_⟩
    intro a ha b hb
    have hb' := d2.2.1 b hb
    -- every index of the first run is ≤ the source index after it
    have ha' : a.idx ≤ r2.1.idx := by
      have hidx := w1.2.2.2.1
      have : ∀ (ws : List (Nat × Nat)) (s : Src), s.open → s.started = true →
          ∀ d ∈ (s.writes ws).2, d.idx ≤ (s.writes ws).1.idx := by
        intro ws
        induction ws with
        | nil => intro s _ _ d hd; simp [Src.writes] at hd
        | cons w rest ih =>
          intro s ho hs d hd
          obtain ⟨k', v'⟩ := w
          have hw := write_started s k' v' ho hs
          obtain ⟨_, hopen, hst, hidx', _, hdelta, _⟩ := hw
          simp only [Src.writes] at hd ⊢
          rw [hdelta] at hd
          simp at hd
          have hspec := writes_spec rest (s.write k' v').1 hopen
          rcases hd with rfl | hd
          · rw [hspec.2.2.2.1, hidx']; simp
          · exact ih _ hopen hst d hd
      exact this ws1 _ ho1 rfl a ha
    omega
  have hfresh : ∀ d ∈ r2.2 ++ r3.2, d.idx ∉ t1.applied := by
    intro d _ h; cases h
  have ht2 : t2.data = putAll ((r2.2 ++ r3.2).filterMap (·.cmd)) t1.data := deliverAll_fresh _ t1 hfresh hpw
  rw [ht2, List.filterMap_append, d1.1, d2.1]
  show get (putAll (ws1 ++ ws2) r2.1.data) k = get r3.1.data k
  rw [w2.1]
  have hL := get_putAll (ws1 ++ ws2) r2.1.data k
  have hR := get_putAll ws2 r2.1.data k
  have hX : get r2.1.data k = (match lastWrite ws1 k with | some v => some v | none => get s1.data k) := by
    rw [w1.1]; exact get_putAll ws1 _ k
  rw [hL, hR, lastWrite_append, hX]
  cases lastWrite ws2 k with
  | some v => rfl
  | none =>
    cases lastWrite ws1 k with
    | some v => rfl
    | none => rfl

/-- non-vacuity: conflicting writes in all three stages -/
example :
    let s1 := (({} : Src).writes [(1, 1), (2, 2)]).1
    let r2 := ({ s1 with started := true } : Src).writes [(1, 3)]
    let r3 := r2.1.writes [(1, 5), (3, 6)]
    let t2 := (({} : Tgt).importSnapshot r2.1).deliverAll (r2.2 ++ r3.2)
    sameOn [1, 2, 3, 4] t2.data r3.1.data = true ∧ get t2.data 1 = some 5 ∧ t2.applied.length = 3 := by
  decide

/-- The unconditional statement is false of the code: the target does not order deltas.  Two
    forwarded writes to the same key delivered newest-first leave the OLDER value on the target,
    although every delta was delivered and applied exactly once.  (Reproduced on the real FSMs:
    corpus/C39/findings.ops.) -/
theorem c39_no_loss_reorder_counterexample :
    let r := ({ started := true } : Src).writes [(1, 1), (1, 2)]
    let t := (({} : Tgt).importSnapshot r.1).deliverAll r.2.reverse
    get r.1.data 1 = some 2 ∧ get t.data 1 = some 1 ∧ t.applied.length = 2 := by
  decide

/-! ## 3. every accepted write is in the outbox while forwarding is on; fence and non-owners refuse -/

theorem c39_accepted_write_outboxed (s : Src) (k v : Nat) (ho : s.open) (hs : s.started = true) :
    (s.write k v).2.2 = some ⟨s.idx + 1, some (k, v)⟩ ∧ (s.idx + 1) ∈ (s.write k v).1.outbox :=
  ⟨(write_started s k v ho hs).2.2.2.2.2.1, (write_started s k v ho hs).2.2.2.2.2.2⟩

/-- a slot that does not own the hash slot refuses an ordinary write: nothing applied, nothing forwarded -/
theorem c39_non_owner_refuses (s : Src) (t : Tgt) (k v : Nat) :
    (s.owned = false → (s.write k v).1.data = s.data ∧ (s.write k v).1.outbox = s.outbox ∧
        (s.write k v).2.1 = "err:invalid" ∧ (s.write k v).2.2 = none) ∧
    (t.owned = false → t.write k v = (t, "err:invalid")) := by
  constructor
  · intro h; simp [Src.write, h]
  · intro h; simp [Tgt.write, h]

/-- after the fence the source refuses ordinary writes for the hash slot -/
theorem c39_fenced_refuses (s : Src) (k v : Nat) (ho : s.owned = true) (hf : s.fenced = true) :
    (s.write k v).1.data = s.data ∧ (s.write k v).2.1 = "fenced" ∧ (s.write k v).2.2 = none := by
  cases s with
  | mk data owned started idx outbox st =>
    simp only at ho
    subst ho
    cases st with
    | none => simp [Src.fenced] at hf
    | some m =>
      simp [Src.fenced] at hf
      simp [Src.write, Src.fenced, hf]

/-- the fence is itself forwarded as the last delta and makes the source fenced -/
theorem c39_fence_forwarded (s : Src) (ho : s.open) (hs : s.started = true) :
    (s.fence).1.fenced = true ∧ (s.fence).2.2 = some ⟨s.idx + 1, none⟩ ∧ (s.idx + 1) ∈ (s.fence).1.outbox := by
  obtain ⟨h1, h2⟩ := ho
  cases s with
  | mk data owned started idx outbox st =>
    simp only at h1 hs
    subst h1 hs
    cases st with
    | none => simp [Src.fence, Src.fenced, Src.loadOrCreate]
    | some m =>
      simp [Src.fenced] at h2
      simp [Src.fence, Src.fenced, Src.loadOrCreate, h2]

example : (({ started := true } : Src).fence).1.fenced = true := by decide

end WK.C39

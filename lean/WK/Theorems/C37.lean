import WK.Proofs.C37_pool
import WK.Proofs.C37_wq
import WK.Proofs.C37_mb
import WK.Proofs.C37_drain
import WK.Proofs.C37_wgwindow
/-
  C37 — Work queues run each accepted task exactly once.

  Theorems about the LTS models of `WK/Model/C37.lean`, for ANY number of submitters
  (threads are indexed by `Nat`), any number of workers/shards/drain instances and
  ANY interleaving (`…Reach` = every state reachable by any step sequence).  The
  statements are the `Bool` predicates of `WK/Spec/C37.lean` — the same functions the
  driver evaluates on the logs of the real queues — applied to the model's log.

  close_waits is a safety statement here: in every reachable state whose log contains
  `Close returned nil`, every task whose Submit returned nil (now or later) had left
  its handler (or had its cancellation hook run) before that event.

  Three protocols did NOT satisfy it before their repairs (commits 63edb0069, 4488b79d4, ff82f924c).
  The models the driver's judge corresponds to are the protocols AS CODED NOW; close_waits is proved
  for all four queues, and the decided counter-schedule of each old protocol is kept as documentation:
    * ShardedMailbox   `c37_mailbox_close_waits`          / `c37_mailbox_pre_fix_counterexample`
    * BoundedPool      `c37_boundedpool_close_waits`      / `c37_boundedpool_pre_fix_counterexample`
    * BoundedBatchPool `c37_batchpool_close_waits`, `c37_batchpool_cancel_close_waits`
                                                          / `c37_batchpool_cancel_pre_fix_counterexample`
    * BoundedWorkerQueue `c37_workerqueue_close_waits`

  Reduction note (mailbox): the locked region of SubmitHash (`closed` checks, full check,
  enqueue, `scheduled` edge, `wg.Add`) is one step.  Everything that can interleave with it
  either needs the same `shard.mu` (finishShardDrain, nextItem's empty check, Close's
  per-shard flag) or commutes with it (`m.closed.Store`, receives from the shard channel,
  other shards), so no behaviour is lost.
-/
namespace WK.C37

/-! ## Pool: BoundedPool, BoundedBatchPool -/

/-- exactly once (safety half): no task is run twice / cancelled twice / run and cancelled;
    what ran or was cancelled had been admitted, by a Submit that was called. -/
theorem c37_pool_exactly_once (cfg : PoolCfg) {s : Pool} (r : PoolReach cfg s) :
    atMostOnce s.log = true ∧ ranWereSubmitted s.log = true ∧ ∀ t ∈ fin s.log, t ∈ enqs s.log := by
  have h := r.inv
  refine ⟨by simpa [atMostOnce] using h.finNodup, ?_, ?_⟩
  · simp only [ranWereSubmitted, List.all_eq_true, List.contains_iff_mem]
    intro t ht
    rw [h.subIff]
    intro hp
    have := h.locNone t (Or.inl hp)
    rcases (h.finIff t).mp ht with h' | h' | h' <;> rw [this] at h' <;> cases h'
  · intro t ht
    rw [h.enqIff]
    intro hn
    rcases (h.finIff t).mp ht with h' | h' | h' <;> rw [hn] at h' <;> cases h'

example : PoolReach cfgBatchPool Pool.init := .init

/-- a task whose Submit returned an error never runs and is never cancelled -/
theorem c37_pool_rejected_never_run (cfg : PoolCfg) {s : Pool} (r : PoolReach cfg s) :
    rejectedNeverRun s.log = true := by
  have h := r.inv
  simp only [rejectedNeverRun, List.all_eq_true, Bool.not_eq_true', List.contains_eq_mem, decide_eq_false_iff_not]
  intro t ht hf
  have hp := (h.rejIff t).mp ht
  have := h.locNone t (Or.inr (Or.inr (Or.inr (Or.inr hp))))
  rcases (h.finIff t).mp hf with h' | h' | h' <;> rw [this] at h' <;> cases h'

/-- close waits, for every configuration with the admission lock (and, under
    cancel-on-close, with the dispatcher repair) -/
theorem c37_pool_close_waits (cfg : PoolCfg) (hc : cfg.Sound) {s : Pool} (r : PoolReach cfg s) :
    closeWaits s.log = true := by
  have h := r.inv
  have hs := r.invS hc
  by_cases hin : closeOk ∈ s.log
  · simp only [closeWaits, Bool.or_eq_true, Bool.not_eq_true', List.all_eq_true, List.contains_eq_mem,
      decide_eq_true_eq, decide_eq_false_iff_not]
    right
    intro t ht
    have hp := (h.accIff t).mp ht
    exact hs.waited hin t (h.locSome t (Or.inr hp))
  · simp [closeWaits, hin]

/-- BoundedBatchPool as coded (default close) waits -/
theorem c37_batchpool_close_waits {s : Pool} (r : PoolReach cfgBatchPool s) : closeWaits s.log = true :=
  c37_pool_close_waits _ ⟨rfl, by simp [cfgBatchPool]⟩ r

/-- BoundedPool as coded (admission lock) waits -/
theorem c37_boundedpool_close_waits {s : Pool} (r : PoolReach cfgBoundedPool s) :
    closeWaits s.log = true :=
  c37_pool_close_waits _ ⟨rfl, by simp [cfgBoundedPool]⟩ r

/-- BoundedBatchPool as coded with CancelAcceptedOnClose waits (every accepted item ran or was cancelled) -/
theorem c37_batchpool_cancel_close_waits {s : Pool} (r : PoolReach cfgBatchPoolCancel s) :
    closeWaits s.log = true :=
  c37_pool_close_waits _ ⟨rfl, fun _ => rfl⟩ r

/-- any number of further steps -/
inductive PoolSteps (cfg : PoolCfg) : Pool → Pool → Prop
  | refl (s : Pool) : PoolSteps cfg s s
  | tail {s s' s'' : Pool} : PoolSteps cfg s s' → PoolStep cfg s' s'' → PoolSteps cfg s s''

/-- once the dispatcher has exited and the executor is idle nothing is ever run or cancelled again -/
def PoolStuck (s : Pool) : Prop :=
  s.d = .exit ∧ ∀ t, s.loc t ≠ .inflight ∧ s.loc t ≠ .running ∧ s.loc t ≠ .held

theorem PoolStuck.step {cfg : PoolCfg} {s s' : Pool} (h : PoolStuck s) (st : PoolStep cfg s s') :
    PoolStuck s' ∧ fin s'.log = fin s.log := by
  obtain ⟨h1, h2⟩ := h
  unfold PoolStuck
  cases st <;> simp_all [upd_apply, closeOk] <;> grind

theorem PoolStuck.steps {cfg : PoolCfg} {s s' : Pool} (h : PoolStuck s) (st : PoolSteps cfg s s') :
    PoolStuck s' ∧ fin s'.log = fin s.log := by
  induction st with
  | refl => exact ⟨h, rfl⟩
  | tail _ st ih =>
    obtain ⟨h', e⟩ := ih
    obtain ⟨h'', e'⟩ := h'.step st
    exact ⟨h'', e'.trans e⟩

/-- BoundedPool BEFORE ITS REPAIR: a Submit that passed the closed check before Close, and reaches its
    final select after Close returned nil, may take the `queue <- task` branch; the task is
    admitted (Submit returns nil) and is never run, in no continuation.  The judge classifies
    the log as the narrow known finding. -/
theorem c37_boundedpool_pre_fix_counterexample :
    ∃ s, PoolReach cfgBoundedPoolPreFix s ∧ closeWaits s.log = false ∧ 0 ∈ accs s.log ∧
      (∀ s', PoolSteps cfgBoundedPoolPreFix s s' → 0 ∉ fin s'.log) := by
  have r0 := PoolReach.init (cfg := cfgBoundedPoolPreFix)
  have r1 := r0.step (PoolStep.subCheck _ 0 rfl rfl)
  have r2 := r1.step (PoolStep.cStoreN _ rfl rfl)
  have r3 := r2.step (PoolStep.cStop _ rfl)
  have r4 := r3.step (PoolStep.cUnlock _ rfl)
  have r5 := r4.step (PoolStep.dStop _ rfl rfl)
  have r6 := r5.step (PoolStep.dDrainEmpty _ rfl (fun t => by simp only [Pool.init, upd_apply]; grind))
  have r7 := r6.step (PoolStep.cRet _ rfl rfl (fun t => by simp only [Pool.init, upd_apply]; grind))
  have r8 := r7.step (PoolStep.subEnq _ 0 rfl)
  have r9 := r8.step (PoolStep.subRet _ 0 rfl)
  refine ⟨_, r9, by decide, by decide, ?_⟩
  intro s' st
  obtain ⟨_, e⟩ := PoolStuck.steps (by exact ⟨rfl, fun t => by simp only [Pool.init, upd_apply]; grind⟩) st
  rw [e]
  decide

/-- BoundedBatchPool BEFORE ITS REPAIR with CancelAcceptedOnClose: when `submitToExecutor` gives up
    because Close started (executor saturated), the dispatcher cancels the batch in hand and
    returns; the rest of the queue is neither run nor cancelled, and Close returns nil. -/
theorem c37_batchpool_cancel_pre_fix_counterexample :
    ∃ s, PoolReach cfgBatchPoolCancelPreFix s ∧ closeWaits s.log = false ∧ 1 ∈ accs s.log ∧
      (∀ s', PoolSteps cfgBatchPoolCancelPreFix s s' → 1 ∉ fin s'.log) := by
  have r0 := PoolReach.init (cfg := cfgBatchPoolCancelPreFix)
  -- two submitters are admitted
  have r1 := r0.step (PoolStep.subCheck _ 0 rfl rfl)
  have r2 := r1.step (PoolStep.subRLock _ 0 rfl rfl rfl)
  have r3 := r2.step (PoolStep.subRecheck _ 0 rfl rfl)
  have r4 := r3.step (PoolStep.subEnq _ 0 rfl)
  have r5 := r4.step (PoolStep.subRet _ 0 rfl)
  have r6 := r5.step (PoolStep.subCheck _ 1 rfl rfl)
  have r7 := r6.step (PoolStep.subRLock _ 1 rfl rfl rfl)
  have r8 := r7.step (PoolStep.subRecheck _ 1 rfl rfl)
  have r9 := r8.step (PoolStep.subEnq _ 1 rfl)
  have r10 := r9.step (PoolStep.subRet _ 1 rfl)
  -- the dispatcher takes task 0 and finds the executor saturated; Close starts
  have r11 := r10.step (PoolStep.dRecv _ 0 rfl rfl)
  have r12 := r11.step (PoolStep.cLock _ rfl rfl (fun t => by simp only [Pool.init, upd_apply]; grind [holdsR]))
  have r13 := r12.step (PoolStep.cStoreL _ rfl rfl)
  have r14 := r13.step (PoolStep.cStop _ rfl)
  have r15 := r14.step (PoolStep.cUnlock _ rfl)
  -- submitToExecutor gives up: cancel the batch in hand, return
  have r16 := r15.step (PoolStep.dCancelGiveUp _ rfl rfl rfl)
  have r17 := r16.step (PoolStep.dCancelHeld _ 0 (Or.inr rfl) rfl)
  have r18 := r17.step (PoolStep.dCancelDoneX _ rfl (fun t => by simp only [Pool.init, upd_apply]; grind))
  have r19 := r18.step (PoolStep.cRet _ rfl rfl (fun t => by simp only [Pool.init, upd_apply]; grind))
  refine ⟨_, r19, by decide, by decide, ?_⟩
  intro s' st
  obtain ⟨_, e⟩ := PoolStuck.steps (by exact ⟨rfl, fun t => by simp only [Pool.init, upd_apply]; grind⟩) st
  rw [e]
  decide

/-! ## BoundedWorkerQueue -/

theorem c37_workerqueue_exactly_once (nw : Nat) {s : WQ} (r : WQReach nw s) :
    atMostOnce s.log = true ∧ ranWereSubmitted s.log = true ∧ ∀ t ∈ fin s.log, t ∈ enqs s.log := by
  have h := r.inv
  refine ⟨by simpa [atMostOnce] using h.finNodup, ?_, ?_⟩
  · simp only [ranWereSubmitted, List.all_eq_true, List.contains_iff_mem]
    intro t ht
    rw [h.subIff]
    intro hp
    have := h.locNone t (Or.inl hp)
    rcases (h.finIff t).mp ht with h' | h' <;> rw [this] at h' <;> cases h'
  · intro t ht
    rw [h.enqIff]
    intro hn
    rcases (h.finIff t).mp ht with h' | h' <;> rw [hn] at h' <;> cases h'

theorem c37_workerqueue_rejected_never_run (nw : Nat) {s : WQ} (r : WQReach nw s) :
    rejectedNeverRun s.log = true := by
  have h := r.inv
  simp only [rejectedNeverRun, List.all_eq_true, Bool.not_eq_true', List.contains_eq_mem, decide_eq_false_iff_not]
  intro t ht hf
  have hp := (h.rejIff t).mp ht
  have := h.locNone t (Or.inr hp)
  rcases (h.finIff t).mp hf with h' | h' <;> rw [this] at h' <;> cases h'

/-- the worker queue as coded waits (admission and close share one mutex); needs ≥ 1 worker,
    which `NewBoundedWorkerQueue` enforces -/
theorem c37_workerqueue_close_waits (nw : Nat) (hnw : 0 < nw) {s : WQ} (r : WQReach nw s) :
    closeWaits s.log = true := by
  have h := r.inv
  have hw := r.waited hnw
  by_cases hin : closeOk ∈ s.log
  · simp only [closeWaits, Bool.or_eq_true, Bool.not_eq_true', List.all_eq_true, List.contains_eq_mem,
      decide_eq_true_eq, decide_eq_false_iff_not]
    right
    intro t ht
    have hp := (h.accIff t).mp ht
    exact Or.inl (hw hin t (h.locSome t (Or.inr hp)))
  · simp [closeWaits, hin]

example : WQReach 2 WQ.init := .init


/-! ## ShardedMailbox -/

theorem fin_eq_runs_of_noCancel : ∀ l : List Ev, cancels l = [] → fin l = runs l
  | [], _ => rfl
  | e :: l, h => by
    cases e <;> simp_all [fin_eq_runs_of_noCancel l]

/-- FIFO core: for every shard, what has been handed to the handler, then what the drain holds in
    hand, then the queue, is exactly the admission sequence of that shard. -/
theorem MBInv.custody {cfg : MBCfg} {s : MB} (h : MBInv cfg s) (sd : Nat) :
    ∃ rest, enqsSh cfg sd s.log = runsSh cfg sd s.log ++ rest := by
  cases hs : s.scheduled sd
  · exact ⟨_, h.custodyIdle sd hs⟩
  · obtain ⟨i, hi, hg⟩ := h.schedG sd hs
    have := h.custodyLive i hi
    rw [hg, List.append_assoc] at this
    exact ⟨_, this⟩

/-- a shard processes its items in admission order: the sequence handed to the handler is a
    prefix of the sequence admitted (any number of shards, submitters and drain instances) -/
theorem c37_shard_fifo (cfg : MBCfg) {s : MB} (r : MBReach cfg s) (sd : Nat) :
    runsSh cfg sd s.log <+: enqsSh cfg sd s.log := by
  obtain ⟨rest, h⟩ := r.inv.custody sd
  exact ⟨rest, h.symm⟩

theorem MBInv.runsSh_nodup {cfg : MBCfg} {s : MB} (h : MBInv cfg s) (sd : Nat) : (runsSh cfg sd s.log).Nodup := by
  obtain ⟨rest, hc⟩ := h.custody sd
  have : (enqsSh cfg sd s.log).Nodup := h.enqNodup.filter _
  rw [hc] at this
  exact (List.nodup_append.mp this).1

theorem MBInv.runs_nodup {cfg : MBCfg} {s : MB} (h : MBInv cfg s) : (runs s.log).Nodup := by
  rw [List.nodup_iff_count]
  intro a
  have := List.nodup_iff_count.mp (h.runsSh_nodup (cfg.sh a)) a
  rw [runsSh, List.count_filter (by simp)] at this
  exact this

theorem MBInv.run_enq {cfg : MBCfg} {s : MB} (h : MBInv cfg s) (t : Nat) (ht : t ∈ runs s.log) : t ∈ enqs s.log := by
  obtain ⟨rest, hc⟩ := h.custody (cfg.sh t)
  have h1 : t ∈ runsSh cfg (cfg.sh t) s.log := by simp [runsSh, ht]
  have h2 : t ∈ enqsSh cfg (cfg.sh t) s.log := by rw [hc]; exact List.mem_append_left _ h1
  exact (List.mem_filter.mp h2).1

theorem c37_mailbox_exactly_once (cfg : MBCfg) {s : MB} (r : MBReach cfg s) :
    atMostOnce s.log = true ∧ ranWereSubmitted s.log = true ∧ ∀ t ∈ fin s.log, t ∈ enqs s.log := by
  have h := r.inv
  have hf := fin_eq_runs_of_noCancel s.log h.noCancel
  refine ⟨by simpa [atMostOnce, hf] using h.runs_nodup, ?_, ?_⟩
  · simp only [ranWereSubmitted, List.all_eq_true, List.contains_iff_mem, hf]
    intro t ht
    rw [h.subIff]
    intro hp
    have := (h.enqIff t).mp (h.run_enq t ht)
    rw [hp] at this
    rcases this with h' | h' <;> cases h'
  · intro t ht
    rw [hf] at ht
    exact h.run_enq t ht

theorem c37_mailbox_rejected_never_run (cfg : MBCfg) {s : MB} (r : MBReach cfg s) :
    rejectedNeverRun s.log = true := by
  have h := r.inv
  have hf := fin_eq_runs_of_noCancel s.log h.noCancel
  simp only [rejectedNeverRun, List.all_eq_true, Bool.not_eq_true', List.contains_eq_mem, decide_eq_false_iff_not, hf]
  intro t ht hr
  have hp := (h.rejIff t).mp ht
  have := (h.enqIff t).mp (h.run_enq t hr)
  rw [hp] at this
  rcases this with h' | h' <;> cases h'

/-- the scheduled flag admits at most one drain per shard: two live drain goroutine instances
    (from their invocation until finishShardDrain un-schedules the shard) never share a shard -/
theorem c37_single_drain_per_shard (cfg : MBCfg) {s : MB} (r : MBReach cfg s) (i j : Nat)
    (hi : (s.g i).live = true) (hj : (s.g j).live = true) (hs : s.gs i = s.gs j) : i = j := by
  refine r.inv.gUnique i j ?_ ?_ hs
  · intro h; rw [h] at hi; cases hi
  · intro h; rw [h] at hj; cases hj

/-- … and the judge's log-level clause: in every model log no shard has two handler batches open -/
theorem c37_single_drain_log (cfg : MBCfg) {s : MB} (r : MBReach cfg s) : singleDrain s.log = true := by
  obtain ⟨act, h, _⟩ := r.drainInv
  simp [singleDrain, h]

/-- the mailbox as coded (finishShardDrain re-schedules while the context is alive) waits -/
theorem c37_mailbox_close_waits (cfg : MBCfg) (hr : cfg.repaired = true) {s : MB} (r : MBReach cfg s) :
    closeWaits s.log = true := by
  have h := r.inv
  have hw := r.waited hr
  by_cases hin : closeOk ∈ s.log
  · simp only [closeWaits, Bool.or_eq_true, Bool.not_eq_true', List.all_eq_true, List.contains_eq_mem,
      decide_eq_true_eq, decide_eq_false_iff_not]
    right
    intro t ht
    have hp := (h.accIff t).mp ht
    exact Or.inl (hw hin t ((h.enqIff t).mpr (Or.inr hp)))
  · simp [closeWaits, hin]

/-- one shard, protocol before the repair -/
def cfgMailbox1PreFix : MBCfg := { nsh := 1, cap := 4, sh := fun _ => 0, repaired := false }

example : MBReach { cfgMailbox1PreFix with repaired := true } MB.init := .init

inductive MBSteps (cfg : MBCfg) : MB → MB → Prop
  | refl (s : MB) : MBSteps cfg s s
  | tail {s s' s'' : MB} : MBSteps cfg s s' → MBStep cfg s' s'' → MBSteps cfg s s''

/-- after Close, with no live drain instance, nothing is ever handed to the handler again -/
def MBStuck (s : MB) : Prop := s.closedM = true ∧ ∀ i, s.g i = .dead

theorem MBStuck.step {cfg : MBCfg} {s s' : MB} (h : MBStuck s) (st : MBStep cfg s s') :
    MBStuck s' ∧ runs s'.log = runs s.log := by
  obtain ⟨h1, h2⟩ := h
  unfold MBStuck
  cases st <;> simp_all [closeOk]

theorem MBStuck.steps {cfg : MBCfg} {s s' : MB} (h : MBStuck s) (st : MBSteps cfg s s') :
    MBStuck s' ∧ runs s'.log = runs s.log := by
  induction st with
  | refl => exact ⟨h, rfl⟩
  | tail _ st ih =>
    obtain ⟨h', e⟩ := ih
    obtain ⟨h'', e'⟩ := h'.step st
    exact ⟨h'', e'.trans e⟩

/-- ShardedMailbox BEFORE ITS REPAIR (DESIGN §8.2): the drain's final empty check, then Submit(1) is
    admitted (the shard is still scheduled, so no drain is invoked), then Close sets its flags,
    then finishShardDrain refuses to re-schedule because the mailbox is closed and calls
    wg.Done(); Close returns nil; task 1 is never run, in no continuation. -/
theorem c37_mailbox_pre_fix_counterexample :
    ∃ s, MBReach cfgMailbox1PreFix s ∧ closeWaits s.log = false ∧ 1 ∈ accs s.log ∧
      (∀ s', MBSteps cfgMailbox1PreFix s s' → 1 ∉ runs s'.log) := by
  have r0 := MBReach.init (cfg := cfgMailbox1PreFix)
  have r1 := r0.step (MBStep.subCheck _ 0 rfl rfl)
  have r2 := r1.step (MBStep.subEnqSched _ 0 rfl rfl rfl (by decide) rfl)
  have r3 := r2.step (MBStep.subRet _ 0 rfl)
  have r4 := r3.step (MBStep.gStart _ 0 rfl)
  have r5 := r4.step (MBStep.gTake _ 0 0 [] rfl rfl)
  have r6 := r5.step (MBStep.gHandle _ 0 [0] rfl)
  have r7 := r6.step (MBStep.gHandled _ 0 [0] rfl)
  have r8 := r7.step (MBStep.gEmpty _ 0 rfl rfl)              -- the drain's final empty check
  have r9 := r8.step (MBStep.subCheck _ 1 rfl rfl)
  have r10 := r9.step (MBStep.subEnq _ 1 rfl rfl rfl (by decide) rfl)   -- admitted in the window
  have r11 := r10.step (MBStep.subRet _ 1 rfl)
  have r12 := r11.step (MBStep.cStore _ rfl)
  have r13 := r12.step (MBStep.cShard _ 0 rfl (by decide))
  have r14 := r13.step (MBStep.gFinishDone _ 0 rfl (Or.inr rfl))  -- queue non-empty, but closed
  have r15 := r14.step (MBStep.wgDone _ 0 (by decide))
  have r16 := r15.step (MBStep.cRet _ rfl rfl)
  refine ⟨_, r16, by decide, by decide, ?_⟩
  intro s' st
  obtain ⟨_, e⟩ := MBStuck.steps (by exact ⟨rfl, fun i => by simp only [MB.init, upd_apply]; grind⟩) st
  rw [e]
  decide

end WK.C37

import WK.Theorems.C18
/-
  C18 — the "every batch partition, with restarts" lift of `c18_batch_append`.
-/
namespace WK.C18
open WK.Gen.C18

variable {β κ : Type} (handler : State β → Nat → κ → Proposal β) (valid : State β → Bool)

/-- apply the batch `b`, then the batches `rest` one after the other; before each
    further batch the process may be restarted from the state file (`true`) -/
def applyBatches (empty : State β) (sm : SM β) (b : List (Entry κ)) : List (Bool × List (Entry κ)) → SM β × List Result
  | [] => applyBatch loopFacts handler valid sm b
  | (restartFirst, b2) :: rest =>
    let r := applyBatch loopFacts handler valid sm b
    let sm1 := if restartFirst then restart empty r.1 else r.1
    let r' := applyBatches empty sm1 b2 rest
    (r'.1, r.2 ++ r'.2)

theorem applyBatch_coherent (empty : State β) (sm : SM β) (es : List (Entry κ)) (h : Coherent empty sm) :
    Coherent empty (applyBatch loopFacts handler valid sm es).1 := by
  simp only [applyBatch]
  split
  · exact h
  · rename_i hne; exact Or.inl ⟨hne, rfl⟩

theorem restart_coherent (empty : State β) (sm : SM β) (h : Coherent empty sm) : restart empty sm = sm := by
  obtain ⟨p, f⟩ := sm
  rcases h with ⟨_, hf⟩ | ⟨hp, hf⟩
  · simp only at hf; simp [restart, hf]
  · simp only at hf hp; simp [restart, hf, hp]

theorem applyBatch_initialised (sm : SM β) (es : List (Entry κ)) (h : sm.published.rev ≠ 0) :
    (applyBatch loopFacts handler valid sm es).1.published.rev ≠ 0 := by
  have hne := M.run_rev_ne_zero (mutate handler valid) (c18_mutate_contract handler valid) sm.published es sm.published [] h
  rw [applyBatch_eq]
  simp only [applyBatchM]
  split
  · exact h
  · exact hne

/-- **Every batch partition, with restarts, is transparent**: for a committed
    (strictly increasing) log — or any log once the machine is initialised — cut
    into ANY sequence of batches, with a restart from the state file before any of
    them, the final state machine (published state and state file) and the
    concatenated per-entry results are exactly those of applying the whole log in
    ONE batch (hence also of applying it one entry at a time). -/
theorem c18_partition_transparent (hpre : PreInitStrong handler) (empty : State β)
    (rest : List (Bool × List (Entry κ))) : ∀ (sm : SM β) (b : List (Entry κ)), Coherent empty sm →
    (sm.published.rev ≠ 0 ∨ StrictIdx (b ++ (rest.map (·.2)).flatten)) →
    applyBatches handler valid empty sm b rest = applyBatch loopFacts handler valid sm (b ++ (rest.map (·.2)).flatten) := by
  induction rest with
  | nil => intro sm b _ _; simp [applyBatches]
  | cons x rest ih =>
    intro sm b hco h
    obtain ⟨rf, b2⟩ := x
    simp only [applyBatches, List.map_cons, List.flatten_cons]
    have hco1 := applyBatch_coherent handler valid empty sm b hco
    have hsm1 : (if rf then restart empty (applyBatch loopFacts handler valid sm b).1 else (applyBatch loopFacts handler valid sm b).1) =
        (applyBatch loopFacts handler valid sm b).1 := by
      cases rf
      · rfl
      · simp [restart_coherent empty _ hco1]
    rw [hsm1]
    have h1 : (applyBatch loopFacts handler valid sm b).1.published.rev ≠ 0 ∨ StrictIdx (b2 ++ (rest.map (·.2)).flatten) := by
      rcases h with h | h
      · exact Or.inl (applyBatch_initialised handler valid sm b h)
      · exact Or.inr (List.pairwise_append.mp h).2.1
    rw [ih _ b2 hco1 h1]
    have hba := c18_batch_append handler valid hpre sm b (b2 ++ (rest.map (·.2)).flatten) h
    exact Prod.ext hba.1 hba.2

/-- non-vacuity: a 4-entry log from an uninitialised, coherent machine, cut as
    [2] [1 (after a restart)] [1], ends as the single batch does -/
example :
    let handler : State Nat → Nat → Nat → Proposal Nat := fun s _ c => if c = 0 then (if s.rev = 0 then .init 7 else .noop "no_change") else (if s.rev = 0 then .reject "invalid_command" else .change (s.body + c))
    let valid : State Nat → Bool := fun s => decide (s.body < 100)
    let sm : SM Nat := { published := ⟨0, 0, 0⟩, file := none }
    Coherent (⟨0, 0, 0⟩ : State Nat) sm ∧
    applyBatches handler valid ⟨0, 0, 0⟩ sm [⟨2, 1⟩, ⟨5, 0⟩] [(true, [⟨6, 1⟩]), (false, [⟨9, 200⟩])] =
      applyBatch loopFacts handler valid sm [⟨2, 1⟩, ⟨5, 0⟩, ⟨6, 1⟩, ⟨9, 200⟩] ∧
    (applyBatch loopFacts handler valid sm [⟨2, 1⟩, ⟨5, 0⟩, ⟨6, 1⟩, ⟨9, 200⟩]).1.published = ⟨2, 9, 8⟩ := by
  refine ⟨Or.inr ⟨rfl, rfl⟩, by decide, by decide⟩

end WK.C18

import WK.Spec.C19
import WK.Gen.C19
namespace WK.C19
open WK.Gen.C19

theorem take_cases {α} (l : List α) (k : Nat) : ∃ m, m ≤ l.length ∧ l.take k = l.take m := by
  refine ⟨min k l.length, Nat.min_le_right _ _, ?_⟩
  by_cases h : k ≤ l.length
  · rw [Nat.min_eq_left h]
  · rw [Nat.min_eq_right (by omega), List.take_of_length_le (by omega), List.take_of_length_le (by omega)]

theorem c19_atomic : AtomicSave saveOps := by
  intro fs old t new k c hst ht hfresh
  obtain ⟨hp, hlt, hold⟩ := hst
  obtain ⟨m, hm, hk⟩ := take_cases saveOps k
  unfold crashedAt
  rw [hk]
  simp only [saveOps, List.length] at hm
  sorry
end WK.C19

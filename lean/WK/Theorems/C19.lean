import WK.Spec.C19
import WK.Gen.C19
import WK.Proofs.C19_inv
/-
  C19 — Controller state file is replaced atomically.

  `WK.Gen.C19.saveOps` is the ordered list of file-system calls the extractor
  reads out of `(*Store).Save` on every run; all theorems below are about THAT
  list, executed on the POSIX-lite model of `WK.Model.C19`.  Dropping
  `tmp.Sync()`, renaming before syncing, or dropping `syncDir` changes the list
  and these proofs stop checking; `WK.C19.crashVerdict` (run by the driver on the
  same list) then prints the crash point and the crash choice that tears the file,
  and `c19_exhibit_sound` says such a print-out is a real counterexample.

  Parameters, never axioms: `decode`/`encode`/checksum `C` of the state codec.
-/
namespace WK.C19
open WK.Gen.C19

theorem crashInode_synced (c : Nat) (b : Bytes) : crashInode c ⟨b, b.length⟩ = ⟨b, b.length⟩ := by
  simp [crashInode, Nat.max_eq_left (Nat.min_le_right c b.length)]

theorem take_cases {α} (l : List α) (k : Nat) : ∃ m, m ≤ l.length ∧ l.take k = l.take m ∧ (l.length ≤ k → m = l.length) := by
  refine ⟨min k l.length, Nat.min_le_right _ _, ?_, ?_⟩
  · by_cases h : k ≤ l.length
    · rw [Nat.min_eq_left h]
    · rw [Nat.min_eq_right (by omega), List.take_of_length_le (by omega), List.take_of_length_le (by omega)]
  · intro h; exact Nat.min_eq_right h

theorem stable_elim {fs : FS} {old : Option Bytes} (h : Stable fs old) (P : Prop)
    (h1 : ∀ (i : Ino) (b : Bytes), fs.durable pathName = some i → i ≠ fs.next → fs.inodes i = ⟨b, b.length⟩ → old = some b → P)
    (h2 : fs.durable pathName = none → old = none → P) : P := by
  obtain ⟨_, hlt, hold⟩ := h
  cases old with
  | none => exact h2 hold rfl
  | some b =>
    obtain ⟨i, hi, hib⟩ := hold
    exact h1 i b hi (Nat.ne_of_lt (hlt _ _ hi)) hib rfl

/-- Core symbolic execution: after the first `m` calls of the generated list and
    a crash with ANY choice `(j, cut)`, the on-disk directory maps the state file
    to a fully synced inode holding the old or the new bytes; after all calls,
    the new bytes. -/
theorem crashed_path (m : Nat) (hm : m ≤ saveOps.length) (fs : FS) (old : Option Bytes) (t : Name) (new : Bytes)
    (j : Nat) (cut : Ino → Nat) (hst : Stable fs old) (ht : t ≠ pathName) :
    (PathHolds (crash ⟨j, cut⟩ (run t new (saveOps.take m) (fs, {})).1) old ∨
     PathHolds (crash ⟨j, cut⟩ (run t new (saveOps.take m) (fs, {})).1) (some new)) ∧
    (m = saveOps.length → PathHolds (crash ⟨j, cut⟩ (run t new (saveOps.take m) (fs, {})).1) (some new)) := by
  have ht' : pathName ≠ t := fun h => ht h.symm
  have hp := hst.1
  simp only [saveOps, List.length_cons, List.length_nil] at hm
  apply stable_elim hst
  · intro i b hi hne hib ho
    subst ho
    rcases m with _|_|_|_|_|_|_|_|_|_|_|_|m <;> try omega
    all_goals (rcases j with _|_|_|j <;>
      simp [PathHolds, saveOps, run, exec, hp, resolve, setInode, crash, FS.view, applyDirOp, ht', hi, hne, hib, crashInode_synced])
  · intro hi ho
    subst ho
    rcases m with _|_|_|_|_|_|_|_|_|_|_|_|m <;> try omega
    all_goals (rcases j with _|_|_|j <;>
      simp [PathHolds, saveOps, run, exec, hp, resolve, setInode, crash, FS.view, applyDirOp, ht', hi, crashInode_synced])

theorem read_of_pathHolds {fs : FS} {v : Option Bytes} (hp : fs.pending = []) (h : PathHolds fs v) :
    fs.read pathName = v := by
  cases v with
  | none => simp [FS.read, FS.view, hp, PathHolds] at *; simp [h]
  | some b =>
    obtain ⟨i, hi, hib⟩ := h
    simp [FS.read, FS.view, hp, hi, hib]

theorem stable_inoInv {fs : FS} {old : Option Bytes} (h : Stable fs old) : InoInv fs :=
  ⟨h.2.1, by simp [h.1]⟩

/-- `Stable` is re-established by the crash, for the old or the new contents. -/
theorem c19_stable_step (fs : FS) (old : Option Bytes) (t : Name) (new : Bytes) (k : Nat) (c : CrashChoice)
    (hst : Stable fs old) (ht : t ≠ pathName) :
    (Stable (crashedAt saveOps t new k c fs) old ∨ Stable (crashedAt saveOps t new k c fs) (some new)) ∧
    (saveOps.length ≤ k → Stable (crashedAt saveOps t new k c fs) (some new)) := by
  obtain ⟨m, hm, hk, hfull⟩ := take_cases saveOps k
  obtain ⟨j, cut⟩ := c
  have hb : DirBelow (crashedAt saveOps t new k ⟨j, cut⟩ fs).durable (crashedAt saveOps t new k ⟨j, cut⟩ fs).next :=
    crash_below _ _ (run_inoInv t new _ (fs, {}) (stable_inoInv hst))
  have hcore := crashed_path m hm fs old t new j cut hst ht
  unfold crashedAt at *
  rw [hk] at hb ⊢
  refine ⟨?_, ?_⟩
  · rcases hcore.1 with h | h
    · exact Or.inl ⟨rfl, hb, h⟩
    · exact Or.inr ⟨rfl, hb, h⟩
  · intro hlen
    exact ⟨rfl, hb, hcore.2 (hfull hlen)⟩

/-- **Atomicity** of the generated call list: for every quiescent file system,
    every temp name, every new contents, every crash point `k` and every crash
    choice, the state file reads as the complete old or the complete new bytes. -/
theorem c19_atomic : AtomicSave saveOps := by
  intro fs old t new k c hst ht
  rcases (c19_stable_step fs old t new k c hst ht).1 with h | h
  · exact Or.inl (read_of_pathHolds h.1 h.2.2)
  · exact Or.inr (read_of_pathHolds h.1 h.2.2)

/-- **Durability**: after the last call no crash choice loses the new bytes. -/
theorem c19_durable : DurableSave saveOps := by
  intro fs old t new k c hst ht hk
  have h := (c19_stable_step fs old t new k c hst ht).2 hk
  exact read_of_pathHolds h.1 h.2.2

/-- One interrupted or completed save attempt. -/
structure Attempt where
  t : Name
  new : Bytes
  k : Nat
  c : CrashChoice

def attempt (fs : FS) (a : Attempt) : FS := crashedAt saveOps a.t a.new a.k a.c fs

/-- **Histories**: after any sequence of save attempts, each cut short by a crash
    at an arbitrary point with an arbitrary choice (or completed), the file system is
    again quiescent and the state file holds the initial contents or the bytes of
    one of the attempts. -/
theorem c19_history (as : List Attempt) : ∀ (fs : FS) (old : Option Bytes), Stable fs old →
    (∀ a ∈ as, a.t ≠ pathName) →
    ∃ v, Stable (as.foldl attempt fs) v ∧ (v = old ∨ ∃ a ∈ as, v = some a.new) := by
  induction as with
  | nil => intro fs old h _; exact ⟨old, h, Or.inl rfl⟩
  | cons a rest ih =>
    intro fs old h hn
    have hstep := (c19_stable_step fs old a.t a.new a.k a.c h (hn a (by simp))).1
    have hrest : ∀ x ∈ rest, x.t ≠ pathName := fun x hx => hn x (by simp [hx])
    rcases hstep with h1 | h1
    · obtain ⟨v, hv, hor⟩ := ih _ old h1 hrest
      refine ⟨v, hv, ?_⟩
      rcases hor with e | ⟨x, hx, e⟩
      · exact Or.inl e
      · exact Or.inr ⟨x, by simp [hx], e⟩
    · obtain ⟨v, hv, hor⟩ := ih _ (some a.new) h1 hrest
      refine ⟨v, hv, ?_⟩
      rcases hor with e | ⟨x, hx, e⟩
      · exact Or.inr ⟨a, by simp, e⟩
      · exact Or.inr ⟨x, by simp [hx], e⟩

/-- ... and if the last attempt ran to completion the file holds exactly its bytes. -/
theorem c19_history_last (as : List Attempt) (a : Attempt) (fs : FS) (old : Option Bytes) (h : Stable fs old)
    (hn : ∀ x ∈ as ++ [a], x.t ≠ pathName) (hk : saveOps.length ≤ a.k) :
    ((as ++ [a]).foldl attempt fs).read pathName = some a.new := by
  obtain ⟨v, hv, _⟩ := c19_history as fs old h (fun x hx => hn x (by simp [hx]))
  rw [List.foldl_append]
  simp only [List.foldl_cons, List.foldl_nil]
  have := (c19_stable_step _ v a.t a.new a.k a.c hv (hn a (by simp))).2 hk
  exact read_of_pathHolds this.1 this.2.2

/-- **No torn read while Save runs / process kill**: without power loss (a
    process kill at any point, or a concurrent reader) the state file reads as the
    complete old or the complete new bytes after every prefix of the call list. -/
theorem c19_live_atomic (fs : FS) (old : Option Bytes) (t : Name) (new : Bytes) (k : Nat)
    (hst : Stable fs old) (ht : t ≠ pathName) :
    (run t new (saveOps.take k) (fs, {})).1.read pathName = old ∨
    (run t new (saveOps.take k) (fs, {})).1.read pathName = some new := by
  obtain ⟨m, hm, hk, _⟩ := take_cases saveOps k
  rw [hk]
  have ht' : pathName ≠ t := fun h => ht h.symm
  have hp := hst.1
  simp only [saveOps, List.length_cons, List.length_nil] at hm
  apply stable_elim hst
  · intro i b hi hne hib ho
    subst ho
    rcases m with _|_|_|_|_|_|_|_|_|_|_|_|m <;> try omega
    all_goals simp [saveOps, run, exec, hp, resolve, setInode, FS.read, FS.view, applyDirOp, ht', hi, hne, hib]
  · intro hi ho
    subst ho
    rcases m with _|_|_|_|_|_|_|_|_|_|_|_|m <;> try omega
    all_goals simp [saveOps, run, exec, hp, resolve, setInode, FS.read, FS.view, applyDirOp, ht', hi]

/-- **Failed saves**: if call number `k` fails, `Save` runs its deferred cleanup
    and returns; a crash at that moment (any choice) still leaves old or new. -/
theorem c19_abort_atomic (fs : FS) (old : Option Bytes) (t : Name) (new : Bytes) (k : Nat) (c : CrashChoice)
    (hst : Stable fs old) (ht : t ≠ pathName) :
    (crash c (abortAt t new deferredRemove saveOps k fs).1).read pathName = old ∨
    (crash c (abortAt t new deferredRemove saveOps k fs).1).read pathName = some new := by
  obtain ⟨m, hm, hk, _⟩ := take_cases saveOps k
  obtain ⟨j, cut⟩ := c
  unfold abortAt
  rw [hk]
  have ht' : pathName ≠ t := fun h => ht h.symm
  have hp := hst.1
  simp only [saveOps, List.length_cons, List.length_nil] at hm
  apply stable_elim hst
  · intro i b hi hne hib ho
    subst ho
    rcases m with _|_|_|_|_|_|_|_|_|_|_|_|m <;> try omega
    all_goals (rcases j with _|_|_|_|j <;>
      simp [saveOps, deferredRemove, cleanupOps, run, exec, hp, resolve, setInode, crash, FS.read, FS.view, applyDirOp, ht', hi, hne, hib, crashInode_synced])
  · intro hi ho
    subst ho
    rcases m with _|_|_|_|_|_|_|_|_|_|_|_|m <;> try omega
    all_goals (rcases j with _|_|_|_|j <;>
      simp [saveOps, deferredRemove, cleanupOps, run, exec, hp, resolve, setInode, crash, FS.read, FS.view, applyDirOp, ht', hi, crashInode_synced])

/-! ### Load = decode ∘ read, with the codec abstract -/

/-- `(*Store).Load` as the extractor found it: it reads `s.path` and returns what
    `state.Decode` makes of exactly those bytes (`decodesPath` is the regenerated
    fact `Gen.loadDecodesPath`; if the shape is lost nothing is claimed: `none`). -/
def loadModel {σ : Type} (decodesPath : Bool) (decode : Bytes → Option σ) (fs : FS) : Option (Option σ) :=
  if decodesPath then some ((fs.read pathName).bind decode) else none

/-- **The property**: with a codec that round-trips (`decode (encode s) = some s`),
    `Load` after a crash at any point of `Save new` with any crash choice returns the
    previous state or the new state, and the new state once `Save` has returned. -/
theorem c19_load_old_or_new {σ : Type} (decode : Bytes → Option σ) (encode : σ → Bytes)
    (hrt : ∀ s, decode (encode s) = some s)
    (fs : FS) (old new : σ) (t : Name) (k : Nat) (c : CrashChoice)
    (hst : Stable fs (some (encode old))) (ht : t ≠ pathName) :
    (loadModel loadDecodesPath decode (crashedAt saveOps t (encode new) k c fs) = some (some old) ∨
     loadModel loadDecodesPath decode (crashedAt saveOps t (encode new) k c fs) = some (some new)) ∧
    (saveOps.length ≤ k →
     loadModel loadDecodesPath decode (crashedAt saveOps t (encode new) k c fs) = some (some new)) := by
  refine ⟨?_, ?_⟩
  · rcases c19_atomic fs _ t (encode new) k c hst ht with h | h
    · left; simp [loadModel, loadDecodesPath, h, hrt]
    · right; simp [loadModel, loadDecodesPath, h, hrt]
  · intro hk
    have h := c19_durable fs _ t (encode new) k c hst ht hk
    simp [loadModel, loadDecodesPath, h, hrt]

/-- `state.Decode` as a function of an abstract parser and checksum: parse the
    document into (payload, stored checksum), recompute `C` over the canonical
    payload, accept iff equal. -/
def decodeModel {σ κ : Type} [DecidableEq κ] (parse : Bytes → Option (σ × κ)) (C : σ → κ) (b : Bytes) : Option σ :=
  match parse b with
  | none => none
  | some (s, c) => if c = C s then some s else none

/-- **Corruption is rejected or is a checksum collision**: if the damaged file
    `b'` is accepted and yields a state different from the one that was saved with
    checksum `c`, then either the stored checksum field was changed too, or `C`
    collides on the two states. -/
theorem c19_corrupt_rejected {σ κ : Type} [DecidableEq κ] (parse : Bytes → Option (σ × κ)) (C : σ → κ)
    (s : σ) (b' : Bytes) (s' : σ) (c' : κ)
    (hp' : parse b' = some (s', c')) (hacc : decodeModel parse C b' = some s') (hne : s' ≠ s) :
    c' ≠ C s ∨ (C s' = C s ∧ s' ≠ s) := by
  simp only [decodeModel, hp'] at hacc
  by_cases hc : c' = C s
  · right
    refine ⟨?_, hne⟩
    by_cases h : c' = C s'
    · rw [← h, hc]
    · simp [h] at hacc
  · exact Or.inl hc

/-! ### the driver's exhibit is a real counterexample -/

theorem stable_fs0 (old : Option Bytes) : Stable (fs0 old) old := by
  cases old with
  | none => exact ⟨rfl, by intro n i h; simp [fs0] at h, rfl⟩
  | some b =>
    refine ⟨rfl, ?_, ⟨0, by simp [fs0], by simp [fs0]⟩⟩
    intro n i h
    simp only [fs0] at h
    split at h
    · cases h; exact Nat.zero_lt_one
    · cases h

/-- If the driver's crash enumeration reports a torn state for a call list, that
    call list is not an atomic save (so the print-out `crash point / journal
    prefix / data cut` is a genuine failing crash choice, for ANY call list). -/
theorem exhibit_from (fs : FS) (hst : Stable fs old) (ops : List Op) (new : Bytes) (w : Nat × Nat × Nat)
    (h : findTornFrom fs ops old new = some w) : ¬ AtomicSave ops := by
  intro hat
  obtain ⟨k, _, hk⟩ := List.exists_of_findSome?_eq_some h
  obtain ⟨⟨j, n⟩, _, hjn⟩ := List.exists_of_findSome?_eq_some hk
  have := hat fs old 1 new k (uniformChoice j n) hst (by decide)
  simp only [crashedAt] at this
  simp only at hjn
  split at hjn
  · cases hjn
  · rename_i hno; exact hno this

theorem exhibit_lost_from (fs : FS) (old : Option Bytes) (hst : Stable fs old) (ops : List Op) (new : Bytes) (w : Nat × Nat)
    (h : findLostFrom fs ops new = some w) : ¬ DurableSave ops := by
  intro hd
  unfold findLostFrom at h
  obtain ⟨⟨j, n⟩, _, hjn⟩ := List.exists_of_findSome?_eq_some h
  have := hd fs old 1 new ops.length (uniformChoice j n) hst (by decide) (Nat.le_refl _)
  simp only [crashedAt, List.take_length] at this
  simp only at hjn
  split at hjn
  · cases hjn
  · rename_i hno; exact hno this

/-- If the driver's crash enumeration reports a torn state for a call list, that
    call list is not an atomic save (so the print-out `crash point / journal
    prefix / data cut` is a genuine failing crash choice, for ANY call list). -/
theorem c19_exhibit_sound (ops : List Op) (old : Option Bytes) (new : Bytes) (w : Nat × Nat × Nat)
    (h : findTorn ops old new = some w) : ¬ AtomicSave ops :=
  exhibit_from (fs0 old) (stable_fs0 old) ops new w h

theorem c19_exhibit_sound_durable (ops : List Op) (old : Option Bytes) (new : Bytes) (w : Nat × Nat)
    (h : findLost ops old new = some w) : ¬ DurableSave ops :=
  exhibit_lost_from (fs0 old) old (stable_fs0 old) ops new w h

/-- a quiescent file system with a stale temp file under the temp name is `Stable` -/
theorem stable_fs0Stale (old : Option Bytes) (stale : Bytes) : Stable (fs0Stale old stale) old := by
  have hb := stable_fs0 old
  refine ⟨rfl, ?_, ?_⟩
  · intro n i h
    simp only [fs0Stale] at h ⊢
    split at h
    · cases h; exact Nat.lt_succ_self _
    · exact Nat.lt_succ_of_lt (hb.2.1 n i h)
  · cases old with
    | none => simp [PathHolds, fs0Stale, fs0, pathName]
    | some b => exact ⟨0, by simp [fs0Stale, fs0, pathName], by simp [fs0Stale, fs0]⟩

/-- **The stale-temp-file exhibits are real counterexamples too**: the initial
    state "a temp file of an earlier crashed save already exists under the temp
    name, with old contents" is a legitimate quiescent state, so a verdict
    `stale-temp-file-…` refutes atomicity / durability of the call list. -/
theorem c19_exhibit_sound_stale (ops : List Op) (old : Option Bytes) (new : Bytes) :
    (∀ w, findTornStale ops old new = some w → ¬ AtomicSave ops) ∧
    (∀ w, findLostStale ops old new = some w → ¬ DurableSave ops) := by
  refine ⟨fun w h => ?_, fun w h => ?_⟩
  · obtain ⟨st, _, hst⟩ := List.exists_of_findSome?_eq_some h
    exact exhibit_from (fs0Stale old st) (stable_fs0Stale old st) ops new w hst
  · obtain ⟨st, _, hst⟩ := List.exists_of_findSome?_eq_some h
    exact exhibit_lost_from (fs0Stale old st) old (stable_fs0Stale old st) ops new w hst

/-- **A deterministic temp name opened without `O_EXCL`/`O_TRUNC` is exhibited**:
    for the call list `OpenFile(fixed name) ; Write ; Sync ; Close ; Rename ; syncDir`
    the driver's judge prints a stale-temp verdict (the old tail of the stale temp
    file survives under the state file's name), with `O_TRUNC` it does not, and the
    call list regenerated from store.go (`os.CreateTemp`: a fresh name and inode)
    passes on the same initial states — which is what `c19_atomic` proves for ALL
    quiescent file systems, stale temp files under any name included. -/
theorem c19_stale_temp_exhibited :
    crashVerdict [.openFixed false, .write true, .fsync, .close, .hook, .rename .tmp .path, .setKeep, .fsyncDir] (some [1]) [2, 3]
      = "viol:stale-temp-file-leaves-neither-old-nor-new:after-6-calls:journal-prefix-1:data-cut-0" ∧
    crashVerdict [.openFixed true, .write true, .fsync, .close, .hook, .rename .tmp .path, .setKeep, .fsyncDir] (some [1]) [2, 3] = "ok" ∧
    crashVerdict saveOps (some [1]) [2, 3] = "ok" ∧
    findTornStale saveOps (some [1]) [2, 3] = none ∧ findLostStale saveOps (some [1]) [2, 3] = none := by
  decide

/-! ### non-vacuity -/

/-- the hypotheses of the theorems are satisfiable: a concrete quiescent file system -/
example : Stable (fs0 (some [1, 2, 3])) (some [1, 2, 3]) := stable_fs0 _
example : Stable (fs0 none) none := stable_fs0 _

/-- the crash adversary is not toothless: the same list WITHOUT `tmp.Sync()` is torn
    (crash after the rename reached the disk, none of the data did) ... -/
example : findTorn [.createTemp, .write true, .close, .rename .tmp .path, .setKeep, .fsyncDir] (some [1]) [2, 3]
    = some (4, 2, 0) := by decide
/-- ... renaming before syncing is torn ... -/
example : findTorn [.createTemp, .write true, .rename .tmp .path, .fsync, .close, .setKeep, .fsyncDir] (some [1]) [2, 3]
    = some (3, 2, 0) := by decide
/-- ... and without `syncDir` a completed save can be lost. -/
example : findLost [.createTemp, .write true, .fsync, .close, .rename .tmp .path, .setKeep] (some [1]) [2, 3]
    = some (0, 0) := by decide
/-- the generated list itself passes the executable judge on a concrete instance -/
example : crashVerdict saveOps (some [1]) [2, 3] = "ok" := by decide
/-- a save attempt that is torn in the middle of a history still leaves a loadable file -/
example : ((([⟨1, [7], 3, ⟨1, fun _ => 0⟩⟩, ⟨2, [8, 9], 100, ⟨0, fun _ => 0⟩⟩] : List Attempt).foldl attempt (fs0 (some [5]))).read pathName)
    = some [8, 9] := by decide
/-- the checksum lemma's hypotheses are satisfiable: a one-byte document whose
    checksum is the byte itself; a damaged document with a stale checksum is rejected -/
example : decodeModel (fun b => match b with | [x, c] => some (x, c) | _ => none) (fun (x : UInt8) => x) [3, 3] = some 3 := by decide
example : decodeModel (fun b => match b with | [x, c] => some (x, c) | _ => none) (fun (x : UInt8) => x) [4, 3] = none := by decide

end WK.C19

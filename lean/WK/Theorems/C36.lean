import WK.Spec.C36
import WK.Proofs.C36_Stages
import WK.Gen.C36
import WK.Proofs.C36_GenPins
/-
  C36 — Send permission decisions are consistent across paths.

  About `WK.C36.perSend` (App.Send → checkSendPermission) and `WK.C36.batch`
  (App.SendBatch → check{Group,Person}SendPermissionsBatch + evaluate…ReadPlan),
  the definitions `Driver/C36.lean` runs against the real code.  Quantifier: ALL
  configurations, ALL stores (arbitrary functions: any channel flags, memberships,
  deny/allow lists, read failures), ALL commands of every channel type.

  The unrestricted statement `∀ facts, batch = perSend` is FALSE of the code
  (and therefore of the model): see `c36_paths_disagree_*`.  It is proved under
  two named hypotheses (`_partial`), and the negation is proved on witnesses that
  the harness replays on the implementation (corpus/C36/findings.ops).
-/
namespace WK.C36
open WK WK.C35

local macro "nonok" : tactic => `(tactic| simp [ok, sysErr, rSuccess, rSystemError, rDisband, rBan, rSendBan, rInBlacklist, rSubscriberNotExist, rNotInWhitelist, rChannelNotExist, rNotAllowSend])

/-- production wiring: the batch store is only ever installed together with the
    permission store (internal/app/wiring.go: both are the same ChannelMetadataStore) -/
def WF (cfg : Cfg) : Prop := cfg.hasBatch = true → cfg.hasPerm = true

/-- the (reason, error) pair of an outcome -/
def Outcome.re (o : Outcome) : RE := (o.reason, o.err)

theorem finish_re (r : RE) (d : Bytes) : (finish r d).re = r := by
  obtain ⟨a, e⟩ := r
  unfold finish Outcome.re
  by_cases h1 : e = .none
  · subst h1
    by_cases h2 : a = rSuccess
    · subst h2; simp
    · simp [h2]
  · simp [h1]

theorem finish_delivered (r : RE) (d : Bytes) : (finish r d).delivered.isSome = (r == ok) := by
  obtain ⟨a, e⟩ := r
  unfold finish
  by_cases h1 : e = .none
  · subst h1
    by_cases h2 : a = rSuccess
    · subst h2; simp [ok]
    · simp [h2, ok]
  · simp [h1, ok]

/-- the sequential decision of `checkSendPermission` once the permission channel id is known -/
def seqDecision (cfg : Cfg) (st : Store) (cmd : Cmd) (id : Bytes) : RE :=
  if !cfg.hasPerm then ok
  else if cfg.isSystem cmd.sender then terminal st id cmd.chanType
  else if !(senderCheck st cmd.sender).isOk then senderCheck st cmd.sender
  else if cfg.isSystemDevice cmd then terminal st id cmd.chanType
  else typeSwitch cfg st id cmd.chanType cmd.sender

/-- `perSend` = preprocessing (`prep`) + `seqDecision` + delivery to the re-suffixed id -/
theorem perSend_eq (cfg : Cfg) (st : Store) (cmd : Cmd) :
    perSend cfg st cmd =
      match prep cmd with
      | .free => finish ok cmd.chanId
      | .invalid => ⟨0, .invalidPerson, none⟩
      | .id id w => finish (seqDecision cfg st cmd id) (if w then toCmd id else id) := by
  unfold perSend prep seqDecision
  by_cases h0 : (cmd.requestScoped || (decide (cmd.scopedN > 0) && cmd.chanId.isEmpty)) = true
  · simp [h0]
  · simp only [h0, Bool.false_eq_true, if_false]
    by_cases hp : cmd.chanType = tPerson ∧ cmd.normalize = true
    · simp only [hp, and_self, if_true]
      cases normalizePerson cmd.sender (fromCmd cmd.chanId).1 with
      | none => rfl
      | some id2 =>
        simp only
        cases cfg.hasPerm <;> simp
        cases cfg.isSystem cmd.sender <;> simp
        cases (senderCheck st cmd.sender).isOk <;> simp
        cases cfg.isSystemDevice cmd <;> simp
    · simp only [hp, if_false]
      cases cfg.hasPerm <;> simp
      cases cfg.isSystem cmd.sender <;> simp
      cases (senderCheck st cmd.sender).isOk <;> simp
      cases cfg.isSystemDevice cmd <;> simp

/-! ### 1. the two paths agree -/

theorem evalGroup_eq (cfg : Cfg) (st : Store) (cmd : Cmd) (hp : cfg.hasPerm = true)
    (ht : cmd.chanType = tGroup) :
    evalGroup cfg st cmd = seqDecision cfg st cmd (fromCmd cmd.chanId).1 := by
  unfold evalGroup seqDecision
  simp only [hp, Bool.not_true, Bool.false_eq_true, if_false]
  cases hs : cfg.isSystem cmd.sender
  · simp only [Bool.false_eq_true, if_false, Bool.false_or]
    rw [batchSender_eq]
    cases hok : (senderCheck st cmd.sender).isOk
    · simp
    · simp only [if_true, Bool.not_true, Bool.false_eq_true, if_false]
      cases hd : cfg.isSystemDevice cmd
      · simp only [Bool.false_eq_true, if_false, Bool.not_false, if_true]
        unfold typeSwitch
        have : cmd.chanType ≠ tPerson := by rw [ht]; decide
        simp only [this, if_false, ht, if_true]
        unfold groupCheck
        cases st.chan (fromCmd cmd.chanId).1 tGroup with
        | notFound => rfl
        | err => rfl
        | found a b c d => simp [evalGroupTail_eq, tGroup, tPerson]
      · simp only [if_true, Bool.not_true, Bool.false_eq_true, if_false]
        unfold terminal
        cases st.chan (fromCmd cmd.chanId).1 cmd.chanType with
        | notFound => rfl
        | err => rfl
        | found a b c d => rfl
  · simp only [if_true, Bool.true_or, Bool.not_true, Bool.false_eq_true, if_false]
    unfold terminal
    cases st.chan (fromCmd cmd.chanId).1 cmd.chanType with
    | notFound => rfl
    | err => rfl
    | found a b c d => rfl

/-- **Paths agree** (decision, reason, error class and delivered channel id) for
    every configuration, store and command — provided (a) the permission channel id
    does not still end in `____cmd` after one strip and (b) a person id that was not
    normalised decodes.  Both exclusions are real: see the two theorems below. -/
theorem c36_paths_agree_partial (cfg : Cfg) (st : Store) (cmd : Cmd) (hwf : WF cfg)
    (hres : residualSuffix cmd = false) (hmal : malformedPerson cmd = false) :
    batch cfg st cmd = perSend cfg st cmd := by
  unfold batch
  by_cases hb : (cfg.hasBatch && !cmd.requestScoped && cmd.scopedN == 0) = true
  · simp only [hb, if_true]
    simp only [Bool.and_eq_true, Bool.not_eq_true', beq_iff_eq] at hb
    obtain ⟨⟨hbt, hrs⟩, hsc⟩ := hb
    have hp := hwf hbt
    have hfree : (cmd.requestScoped || (decide (cmd.scopedN > 0) && cmd.chanId.isEmpty)) = false := by
      simp [hrs, hsc]
    by_cases hg : cmd.chanType = tGroup
    · simp only [hg, if_true]
      rw [perSend_eq]
      have hnp : ¬ (cmd.chanType = tPerson ∧ cmd.normalize = true) := by
        rw [hg]; intro h; exact absurd h.1 (by decide)
      have hprep : prep cmd = .id (fromCmd cmd.chanId).1 (fromCmd cmd.chanId).2 := by
        unfold prep; simp only [hfree, Bool.false_eq_true, if_false, hnp]
      have hr : isCmd (fromCmd cmd.chanId).1 = false := by
        unfold residualSuffix at hres; rw [hprep] at hres; exact hres
      rw [hprep]
      simp only
      rw [reapply_restores cmd.chanId hr]
      unfold batchGroup
      rw [evalGroup_eq cfg st cmd hp hg]
    · simp only [hg, if_false]
      by_cases hpt : cmd.chanType = tPerson
      · simp only [hpt, if_true]
        rw [perSend_eq]
        unfold batchPerson prep
        simp only [hfree, Bool.false_eq_true, if_false, hpt, true_and]
        cases hn : cmd.normalize
        · -- not normalised: id2 = stripped id
          simp only [Bool.false_eq_true, if_false]
          have hprep : prep cmd = .id (fromCmd cmd.chanId).1 (fromCmd cmd.chanId).2 := by
            unfold prep; simp [hfree, hn]
          have hr : isCmd (fromCmd cmd.chanId).1 = false := by
            unfold residualSuffix at hres; rw [hprep] at hres; exact hres
          have hdec : ∃ l r, decodePerson (fromCmd cmd.chanId).1 = some (l, r) := by
            unfold malformedPerson at hmal; rw [hprep] at hmal
            simp only [hpt, decide_true, Bool.true_and] at hmal
            cases hd : decodePerson (fromCmd cmd.chanId).1 with
            | none => rw [hd] at hmal; simp at hmal
            | some p => exact ⟨p.1, p.2, rfl⟩
          obtain ⟨l, r, hdec⟩ := hdec
          rw [pid_eq _ _ hr]
          unfold seqDecision
          simp only [hp, Bool.not_true, Bool.false_eq_true, if_false, hpt]
          cases cfg.isSystem cmd.sender
          · simp only [Bool.false_eq_true, if_false]
            cases cfg.isSystemDevice cmd
            · simp only [Bool.false_eq_true, if_false, hdec]
              rw [batchSender_eq]
              cases hok : (senderCheck st cmd.sender).isOk
              · simp
              · simp only [if_true, Bool.not_true, Bool.false_eq_true, if_false]
                rw [batchTerminal_eq]
                unfold typeSwitch personCheck
                simp only [if_true, hdec]
                cases (terminal st (fromCmd cmd.chanId).1 tPerson).isOk
                · simp
                · simp [evalPersonTail_eq]
            · simp only [if_true]
              rw [batchSender_eq, terminal_getD]
              cases (senderCheck st cmd.sender).isOk <;> simp
          · simp only [if_true]
            rw [terminal_getD]
        · -- normalised
          simp only [if_true]
          cases hnorm : normalizePerson cmd.sender (fromCmd cmd.chanId).1 with
          | none => rfl
          | some id2 =>
            simp only
            have hprep : prep cmd = .id id2 (fromCmd cmd.chanId).2 := by
              unfold prep; simp [hfree, hn, hpt, hnorm]
            have hr : isCmd id2 = false := by
              unfold residualSuffix at hres; rw [hprep] at hres; exact hres
            have hdec : ∃ l r, decodePerson id2 = some (l, r) := by
              unfold malformedPerson at hmal; rw [hprep] at hmal
              simp only [hpt, decide_true, Bool.true_and] at hmal
              cases hd : decodePerson id2 with
              | none => rw [hd] at hmal; simp at hmal
              | some p => exact ⟨p.1, p.2, rfl⟩
            obtain ⟨l, r, hdec⟩ := hdec
            rw [pid_eq _ _ hr]
            unfold seqDecision
            simp only [hp, Bool.not_true, Bool.false_eq_true, if_false, hpt]
            cases cfg.isSystem cmd.sender
            · simp only [Bool.false_eq_true, if_false]
              cases cfg.isSystemDevice cmd
              · simp only [Bool.false_eq_true, if_false, hdec]
                rw [batchSender_eq]
                cases hok : (senderCheck st cmd.sender).isOk
                · simp
                · simp only [if_true, Bool.not_true, Bool.false_eq_true, if_false]
                  rw [batchTerminal_eq]
                  unfold typeSwitch personCheck
                  simp only [if_true, hdec]
                  cases (terminal st id2 tPerson).isOk
                  · simp
                  · simp [evalPersonTail_eq]
              · simp only [if_true]
                rw [batchSender_eq, terminal_getD]
                cases (senderCheck st cmd.sender).isOk <;> simp
            · simp only [if_true]
              rw [terminal_getD]
      · simp [hpt]
  · simp [hb]


/-! witnesses: the unrestricted statement is false (replayed on the real code by corpus/C36/findings.ops) -/


/-- facts: receiver `u2` has put the sender `bot____cmd` on its deny list; nothing else exists -/
def wStore1 : Store where
  chan _ _ := .notFound
  contains k id _ uid := .val (k == .deny && id == ([0x75, 0x32] : Bytes) && uid == ([0x62, 0x6f, 0x74, 0x5f, 0x5f, 0x5f, 0x5f, 0x63, 0x6d, 0x64] : Bytes))
  hasAny _ _ _ := .val false

def wCfg : Cfg := { hasPerm := true, hasBatch := true, sys := none, systemDevice := [], whitelist := false }

def wCmd1 : Cmd := { sender := ([0x62, 0x6f, 0x74, 0x5f, 0x5f, 0x5f, 0x5f, 0x63, 0x6d, 0x64] : Bytes), device := ([0x64, 0x31] : Bytes), chanId := ([0x75, 0x32] : Bytes), chanType := tPerson,
                     normalize := true, requestScoped := false, scopedN := 0 }

set_option maxRecDepth 100000 in
/-- **Residual command suffix — the paths disagree.**  A sender whose UID ends in
    `____cmd` and is on the receiver's deny list is refused by the per-send path
    (InBlacklist) but ACCEPTED by the batched path, which strips the suffix a second
    time and consults the deny list of a different user (`bot`). -/
theorem c36_paths_disagree_residual_suffix :
    perSend wCfg wStore1 wCmd1 = ⟨rInBlacklist, .none, none⟩ ∧
    batch wCfg wStore1 wCmd1 = ⟨rSuccess, .none, some ([0x75, 0x32, 0x40, 0x62, 0x6f, 0x74, 0x5f, 0x5f, 0x5f, 0x5f, 0x63, 0x6d, 0x64] : Bytes)⟩ ∧
    residualSuffix wCmd1 = true := by
  refine ⟨by decide, by decide, by decide⟩

/-- facts: the sender `u1` is send-banned -/
def wStore2 : Store where
  chan id _ := if id == ([0x75, 0x31] : Bytes) then .found false false true false else .notFound
  contains _ _ _ _ := .val false
  hasAny _ _ _ := .val false

def wCmd2 : Cmd := { sender := ([0x75, 0x31] : Bytes), device := ([0x64, 0x31] : Bytes), chanId := ([0x61, 0x62, 0x63] : Bytes), chanType := tPerson,
                     normalize := false, requestScoped := false, scopedN := 0 }

/-- **Malformed person id without normalisation — the reasons disagree.**  The
    per-send path reports SendBan (sender and terminal checks run before the decode),
    the batched path reports the decode error first. -/
theorem c36_paths_disagree_malformed_person :
    perSend wCfg wStore2 wCmd2 = ⟨rSendBan, .none, none⟩ ∧
    batch wCfg wStore2 wCmd2 = ⟨rSuccess, .invalidPerson, none⟩ ∧
    residualSuffix wCmd2 = false ∧ malformedPerson wCmd2 = true := by
  refine ⟨by decide, by decide, by decide, by decide⟩

-- non-vacuity of c36_paths_agree_partial: an ordinary group send meets all hypotheses
def wCmd3 : Cmd := { sender := ([0x75, 0x31] : Bytes), device := ([0x64, 0x31] : Bytes), chanId := ([0x67, 0x31] : Bytes), chanType := tGroup,
                     normalize := false, requestScoped := false, scopedN := 0 }
example : batch wCfg wStore2 wCmd3 = perSend wCfg wStore2 wCmd3 :=
  c36_paths_agree_partial _ _ _ (fun _ => rfl) (by decide) (by decide)
example : perSend wCfg wStore2 wCmd3 = ⟨rSendBan, .none, none⟩ := by decide

/-! ### 2. fixed precedence -/

theorem seqDecision_rules (cfg : Cfg) (st : Store) (cmd : Cmd) (id : Bytes) :
    seqDecision cfg st cmd id = firstTrue (allRules false cfg st cmd id) := by
  unfold seqDecision allRules
  cases cfg.hasPerm
  · simp [firstTrue]
  · simp only [Bool.not_true, Bool.false_eq_true, if_false]
    cases cfg.isSystem cmd.sender
    · simp only [Bool.false_eq_true, if_false]
      rw [firstTrue_append, ← (sender_rules st cmd.sender).1]
      have h2 := (sender_rules st cmd.sender).2
      cases hok : (senderCheck st cmd.sender).isOk
      · rw [hok] at h2
        have : (senderRules st cmd.sender).any (·.cond) = true := by
          cases h : (senderRules st cmd.sender).any (·.cond) <;> simp_all
        simp [this]
      · rw [hok] at h2
        have : (senderRules st cmd.sender).any (·.cond) = false := by
          cases h : (senderRules st cmd.sender).any (·.cond) <;> simp_all
        simp only [this, Bool.not_true, Bool.false_eq_true, if_false]
        cases cfg.isSystemDevice cmd
        · simp only [Bool.false_eq_true, if_false]
          exact type_rules cfg st id cmd.chanType cmd.sender
        · simp only [if_true]
          exact (terminal_rules st id cmd.chanType).1
    · simp only [if_true]
      exact (terminal_rules st id cmd.chanType).1

/-- **Fixed precedence**: for every configuration, store and command the
    (reason, error) of the per-send path is the FIRST rule that holds in the fixed
    list `allRules` (code order): store failure of a read before the reason that
    read decides; sender SendBan first for non-system senders; then the terminal
    Disband rule; then the type-specific rules (deny → member → allow …). -/
theorem c36_precedence (cfg : Cfg) (st : Store) (cmd : Cmd) :
    (perSend cfg st cmd).re = specDecision false cfg st cmd := by
  rw [perSend_eq]
  unfold specDecision
  cases prep cmd with
  | free => exact finish_re _ _
  | invalid => rfl
  | id id w => simp only; rw [finish_re, seqDecision_rules]

example : (perSend wCfg wStore2 wCmd3).re = (rSendBan, .none) := by decide

/-- the same for the batched path, under the hypotheses of `c36_paths_agree_partial` -/
theorem c36_precedence_batch_partial (cfg : Cfg) (st : Store) (cmd : Cmd) (hwf : WF cfg)
    (hres : residualSuffix cmd = false) (hmal : malformedPerson cmd = false) :
    (batch cfg st cmd).re = specDecision false cfg st cmd := by
  rw [c36_paths_agree_partial cfg st cmd hwf hres hmal]; exact c36_precedence cfg st cmd

theorem group_order_irrelevant (st : Store) (id : Bytes) (ty : Nat) (uid : Bytes)
    (h : ((st.chan id ty).ban && (st.chan id ty).disband) = false) :
    firstTrue (groupRules true st id ty uid) = firstTrue (groupRules false st id ty uid) := by
  unfold groupRules
  cases hc : st.chan id ty with
  | notFound => simp [firstTrue, ChanRes.isErr, ChanRes.isNotFound]
  | err => simp [firstTrue, ChanRes.isErr]
  | found a b' c d =>
    rw [hc] at h
    simp only [ChanRes.ban, ChanRes.disband] at h
    cases a <;> cases b' <;> simp_all [firstTrue, ChanRes.isErr, ChanRes.isNotFound, ChanRes.ban, ChanRes.disband]

/-- **"Disbanded channels first"** — the order the property asks for (Disband ahead
    of the other channel-state reasons, `specDecision true`) coincides with the
    code's order for every fact record EXCEPT a group that is both banned and
    disbanded (there the code answers Ban: `c36_group_ban_outranks_disband`). -/
theorem c36_precedence_disband_first_partial (cfg : Cfg) (st : Store) (cmd : Cmd)
    (h : banAndDisband st cmd = false) :
    specDecision true cfg st cmd = specDecision false cfg st cmd := by
  unfold specDecision
  cases hp : prep cmd with
  | free => rfl
  | invalid => rfl
  | id id w =>
    simp only
    unfold banAndDisband at h
    rw [hp] at h
    unfold allRules
    cases cfg.hasPerm <;> simp only [Bool.not_false, Bool.not_true, if_true, Bool.false_eq_true, if_false]
    cases cfg.isSystem cmd.sender <;> simp only [if_true, Bool.false_eq_true, if_false]
    cases cfg.isSystemDevice cmd <;> simp only [if_true, Bool.false_eq_true, if_false]
    rw [firstTrue_append, firstTrue_append]
    congr 1
    unfold typeRules
    by_cases h1 : cmd.chanType = tPerson
    · simp [h1]
    · simp only [h1, if_false]
      by_cases h2 : cmd.chanType = tGroup
      · simp only [h2, if_true]
        apply group_order_irrelevant
        simpa [h2] using h
      · simp [h2]

def wStore4 : Store where
  chan id _ := if id == ([0x67, 0x31] : Bytes) then .found true true false false else .notFound
  contains k _ _ _ := .val (k == .members)
  hasAny _ _ _ := .val false

/-- the exception, on a witness: banned AND disbanded group, ordinary member —
    both paths answer Ban, the "Disband first" list answers Disband -/
theorem c36_group_ban_outranks_disband :
    (perSend wCfg wStore4 wCmd3).re = (rBan, .none) ∧ (batch wCfg wStore4 wCmd3).re = (rBan, .none) ∧
    specDecision true wCfg wStore4 wCmd3 = (rDisband, .none) ∧ banAndDisband wStore4 wCmd3 = true := by
  refine ⟨by decide, by decide, by decide, by decide⟩

/-! ### 3. system senders bypass exactly the non-terminal checks -/

/-- a system UID sender is decided by the terminal rules alone: read failure, then
    Disband, otherwise success — no sender ban, membership, deny/allow list, ban. -/
theorem c36_system_bypass (cfg : Cfg) (st : Store) (cmd : Cmd) (id : Bytes) (w : Bool)
    (hp : cfg.hasPerm = true) (hs : cfg.isSystem cmd.sender = true) (hprep : prep cmd = .id id w) :
    (perSend cfg st cmd).re = terminal st id cmd.chanType ∧
    ((st.chan id cmd.chanType).disband = true → (perSend cfg st cmd).re = (rDisband, .none)) ∧
    ((st.chan id cmd.chanType).disband = false → (st.chan id cmd.chanType).isErr = false →
        (perSend cfg st cmd).delivered = some (if w then toCmd id else id)) := by
  have hre : (perSend cfg st cmd).re = terminal st id cmd.chanType := by
    rw [perSend_eq, hprep]; simp only; rw [finish_re]; unfold seqDecision; simp [hp, hs]
  refine ⟨hre, ?_, ?_⟩
  · intro hd
    rw [hre]; unfold terminal
    cases hc : st.chan id cmd.chanType with
    | notFound => rw [hc] at hd; simp [ChanRes.disband] at hd
    | err => rw [hc] at hd; simp [ChanRes.disband] at hd
    | found a b' c d => rw [hc] at hd; simp only [ChanRes.disband] at hd; simp [hd]
  · intro hd he
    rw [perSend_eq, hprep]
    simp only
    have : seqDecision cfg st cmd id = ok := by
      unfold seqDecision; simp only [hp, hs, Bool.not_true, Bool.false_eq_true, if_false, if_true]
      unfold terminal
      cases hc : st.chan id cmd.chanType with
      | notFound => rfl
      | err => rw [hc] at he; simp [ChanRes.isErr] at he
      | found a b' c d => rw [hc] at hd; simp only [ChanRes.disband] at hd; simp [hd]
    rw [this]; rfl

/-- a trusted system DEVICE additionally keeps the sender SendBan check, nothing else -/
theorem c36_system_device_bypass (cfg : Cfg) (st : Store) (cmd : Cmd) (id : Bytes) (w : Bool)
    (hp : cfg.hasPerm = true) (hs : cfg.isSystem cmd.sender = false) (hd : cfg.isSystemDevice cmd = true)
    (hprep : prep cmd = .id id w) :
    (perSend cfg st cmd).re = firstTrue (senderRules st cmd.sender ++ terminalRules st id cmd.chanType) := by
  rw [perSend_eq, hprep]; simp only; rw [finish_re, seqDecision_rules]
  unfold allRules; simp [hp, hs, hd]

def wCfgSys : Cfg := { wCfg with sys := some [([0x75, 0x31] : Bytes)] }
example : (perSend wCfgSys wStore4 wCmd3).re = (rDisband, .none) :=
  (c36_system_bypass wCfgSys wStore4 wCmd3 ([0x67, 0x31] : Bytes) false rfl (by decide) (by decide)).2.1 (by decide)

/-! ### disbanded channels never accept a send -/

theorem firstTrue_ok_no_rule (rs : List Rule) (hall : ∀ r ∈ rs, r.res ≠ ok) (h : firstTrue rs = ok) :
    ∀ r ∈ rs, r.cond = false := by
  induction rs with
  | nil => intro r hr; cases hr
  | cons x xs ih =>
    unfold firstTrue at h
    by_cases hc : x.cond = true
    · simp only [hc, if_true] at h
      exact absurd h (hall x List.mem_cons_self)
    · simp only [hc, Bool.false_eq_true, if_false] at h
      intro r hr
      rcases List.mem_cons.mp hr with rfl | hr
      · simpa using hc
      · exact ih (fun r hr => hall r (List.mem_cons_of_mem _ hr)) h r hr

/-- every rule list puts the Disband rule of the permission channel somewhere -/
theorem disband_rule_mem (cfg : Cfg) (st : Store) (cmd : Cmd) (id : Bytes) (hp : cfg.hasPerm = true) :
    ∃ r ∈ allRules false cfg st cmd id, r.cond = (st.chan id cmd.chanType).disband := by
  unfold allRules
  simp only [hp, Bool.not_true, Bool.false_eq_true, if_false]
  have hterm : ∃ r ∈ terminalRules st id cmd.chanType, r.cond = (st.chan id cmd.chanType).disband :=
    ⟨⟨(st.chan id cmd.chanType).disband, (rDisband, .none)⟩, by simp [terminalRules], rfl⟩
  cases cfg.isSystem cmd.sender
  · simp only [Bool.false_eq_true, if_false]
    suffices ∃ r ∈ (if cfg.isSystemDevice cmd = true then terminalRules st id cmd.chanType
        else typeRules false cfg st id cmd.chanType cmd.sender), r.cond = (st.chan id cmd.chanType).disband by
      obtain ⟨r, hr, hc⟩ := this
      exact ⟨r, List.mem_append_right _ hr, hc⟩
    cases cfg.isSystemDevice cmd
    · simp only [Bool.false_eq_true, if_false]
      unfold typeRules
      by_cases h1 : cmd.chanType = tPerson
      · simp only [h1, if_true]
        obtain ⟨r, hr, hc⟩ := hterm
        rw [h1] at hr hc
        exact ⟨r, by unfold personRules; exact List.mem_append_left _ hr, hc⟩
      · simp only [h1, if_false]
        by_cases h2 : cmd.chanType = tGroup
        · simp only [h2, if_true]
          exact ⟨⟨(st.chan id tGroup).disband, (rDisband, .none)⟩, by simp [groupRules], rfl⟩
        · simp only [h2, if_false]
          by_cases h3 : cmd.chanType = tAgent
          · simp only [h3, if_true]
            obtain ⟨r, hr, hc⟩ := hterm
            rw [h3] at hr hc
            exact ⟨r, by unfold agentRules; exact List.mem_append_left _ hr, hc⟩
          · simp only [h3, if_false]
            by_cases h4 : cmd.chanType = tVisitors
            · simp only [h4, if_true]
              obtain ⟨r, hr, hc⟩ := hterm
              rw [h4] at hr hc
              exact ⟨r, by unfold visitorsRules; exact List.mem_append_left _ hr, hc⟩
            · simp only [h4, if_false]; exact hterm
    · simp only [if_true]; exact hterm
  · simp only [if_true]; exact hterm

theorem rules_nonok (cfg : Cfg) (st : Store) (cmd : Cmd) (id : Bytes) :
    ∀ r ∈ allRules false cfg st cmd id, r.res ≠ ok := by
  have hT : ∀ ty, ∀ r ∈ terminalRules st id ty, r.res ≠ ok := by
    intro ty r hr; simp [terminalRules] at hr; rcases hr with rfl | rfl <;> nonok
  have hC : ∀ i ty u, ∀ r ∈ commonRules st i ty u, r.res ≠ ok := by
    intro i ty u r hr; simp [commonRules] at hr
    rcases hr with rfl | rfl | rfl | rfl | rfl | rfl | rfl <;> nonok
  unfold allRules
  cases cfg.hasPerm
  · intro r hr; simp at hr
  · simp only [Bool.not_true, Bool.false_eq_true, if_false]
    cases cfg.isSystem cmd.sender
    · simp only [Bool.false_eq_true, if_false]
      intro r hr
      rcases List.mem_append.mp hr with hr | hr
      · simp [senderRules] at hr; rcases hr with rfl | rfl <;> nonok
      · cases hd : cfg.isSystemDevice cmd
        · rw [hd] at hr
          simp only [Bool.false_eq_true, if_false] at hr
          unfold typeRules at hr
          by_cases h1 : cmd.chanType = tPerson
          · simp only [h1, if_true] at hr
            unfold personRules at hr
            rcases List.mem_append.mp hr with hr | hr
            · exact hT _ r hr
            · cases hdec : decodePerson id with
              | none => rw [hdec] at hr; simp at hr; subst hr; nonok
              | some p =>
                rw [hdec] at hr; simp at hr
                rcases hr with rfl | rfl | rfl | rfl | rfl <;> nonok
          · simp only [h1, if_false] at hr
            by_cases h2 : cmd.chanType = tGroup
            · simp only [h2, if_true] at hr
              unfold groupRules at hr
              simp only [Bool.false_eq_true, if_false, List.cons_append, List.nil_append, List.mem_cons] at hr
              rcases hr with rfl | rfl | rfl | rfl | hr
              · nonok
              · nonok
              · nonok
              · nonok
              · exact hC _ _ _ r hr
            · simp only [h2, if_false] at hr
              by_cases h3 : cmd.chanType = tAgent
              · simp only [h3, if_true] at hr
                unfold agentRules at hr
                rcases List.mem_append.mp hr with hr | hr
                · exact hT _ r hr
                · cases hdec : decodeAgent id with
                  | none => rw [hdec] at hr; simp at hr; subst hr; nonok
                  | some p => rw [hdec] at hr; simp at hr; subst hr; nonok
              · simp only [h3, if_false] at hr
                by_cases h4 : cmd.chanType = tVisitors
                · simp only [h4, if_true] at hr
                  unfold visitorsRules at hr
                  rcases List.mem_append.mp hr with hr | hr
                  · exact hT _ r hr
                  · by_cases he : (cmd.sender == id) = true
                    · simp [he] at hr
                    · simp only [he, Bool.false_eq_true, if_false] at hr; exact hC _ _ _ r hr
                · simp only [h4, if_false] at hr; exact hT _ r hr
        · rw [hd] at hr; simp only [if_true] at hr; exact hT _ r hr
    · simp only [if_true]; exact hT _

/-- **A disbanded channel never accepts a send** — any channel type, any sender
    (system UID, system device, ordinary), any other facts: nothing is delivered. -/
theorem c36_disband_never_delivers (cfg : Cfg) (st : Store) (cmd : Cmd) (id : Bytes) (w : Bool)
    (hp : cfg.hasPerm = true) (hprep : prep cmd = .id id w)
    (hd : (st.chan id cmd.chanType).disband = true) :
    (perSend cfg st cmd).delivered = none := by
  rw [perSend_eq, hprep]
  simp only
  have hne : seqDecision cfg st cmd id ≠ ok := by
    intro hok
    rw [seqDecision_rules] at hok
    obtain ⟨r, hr, hc⟩ := disband_rule_mem cfg st cmd id hp
    have := firstTrue_ok_no_rule _ (rules_nonok cfg st cmd id) hok r hr
    rw [hc, hd] at this
    exact absurd this (by decide)
  have h := finish_delivered (seqDecision cfg st cmd id) (if w then toCmd id else id)
  have : (seqDecision cfg st cmd id == ok) = false := by simpa using hne
  rw [this] at h
  cases hdv : (finish (seqDecision cfg st cmd id) (if w then toCmd id else id)).delivered with
  | none => rfl
  | some x => rw [hdv] at h; simp at h

example : (perSend wCfg wStore4 wCmd3).delivered = none :=
  c36_disband_never_delivers wCfg wStore4 wCmd3 ([0x67, 0x31] : Bytes) false rfl (by decide) (by decide)

/-! ### the judge accepts every model outcome outside the characterised exceptions -/

theorem perSend_delivered_iff (cfg : Cfg) (st : Store) (cmd : Cmd) :
    (perSend cfg st cmd).delivered.isSome =
      ((perSend cfg st cmd).reason == rSuccess && (perSend cfg st cmd).err == .none) := by
  rw [perSend_eq]
  cases prep cmd with
  | free => rfl
  | invalid => rfl
  | id id w =>
    simp only
    generalize seqDecision cfg st cmd id = x
    obtain ⟨a, e⟩ := x
    unfold finish
    by_cases h1 : e = .none
    · subst h1
      by_cases h2 : a = rSuccess
      · subst h2; simp
      · simp [h2]
    · simp [h1]

theorem c36_judge_model_ok (cfg : Cfg) (st : Store) (cmd : Cmd) (hwf : WF cfg)
    (hres : residualSuffix cmd = false) (hmal : malformedPerson cmd = false)
    (hbd : banAndDisband st cmd = false) :
    judgeOne cfg st cmd (perSend cfg st cmd) (batch cfg st cmd) = "ok" := by
  unfold judgeOne
  rw [c36_paths_agree_partial cfg st cmd hwf hres hmal]
  have h1 := perSend_delivered_iff cfg st cmd
  have h2 : ((perSend cfg st cmd).reason, (perSend cfg st cmd).err) = specDecision true cfg st cmd := by
    rw [c36_precedence_disband_first_partial cfg st cmd hbd]; exact c36_precedence cfg st cmd
  simp [h1, h2]


/-! ## T tie: the ordered exits regenerated from permission.go / permission_batch.go / send.go -/

/-- reason identifiers → codes via the regenerated constant table; `0` is the literal -/
def codeOf (name : String) : Option Nat :=
  if name = "0" then some 0 else Gen.C36.reasonCodes.lookup name

/-- business-reason order of a list of reason codes: drop Success / SystemError, merge repeats -/
def normReasons : List Nat → List Nat
  | [] => []
  | x :: xs =>
    let r := normReasons xs
    if x = rSuccess ∨ x = rSystemError then r
    else match r with
      | y :: _ => if x = y then r else x :: r
      | [] => [x]

def genOrder (names : List String) : Option (List Nat) := (names.mapM codeOf).map normReasons

def ruleOrder (rs : List Rule) : List Nat := normReasons (rs.map (·.res.1))

/-- the model's reason codes are the Go constants -/
theorem c36_gen_reason_codes :
    codeOf "ReasonSuccess" = some rSuccess ∧ codeOf "ReasonChannelNotExist" = some rChannelNotExist ∧
    codeOf "ReasonSystemError" = some rSystemError ∧ codeOf "ReasonSubscriberNotExist" = some rSubscriberNotExist ∧
    codeOf "ReasonInBlacklist" = some rInBlacklist ∧ codeOf "ReasonNotAllowSend" = some rNotAllowSend ∧
    codeOf "ReasonNotInWhitelist" = some rNotInWhitelist ∧ codeOf "ReasonBan" = some rBan ∧
    codeOf "ReasonDisband" = some rDisband ∧ codeOf "ReasonSendBan" = some rSendBan := by decide

theorem c36_gen_channel_types :
    Gen.C36.channelTypes.lookup "channelTypePerson" = some tPerson ∧ Gen.C36.channelTypes.lookup "channelTypeGroup" = some tGroup ∧
    Gen.C36.channelTypes.lookup "channelTypeCustomerService" = some tCustomerService ∧
    Gen.C36.channelTypes.lookup "channelTypeInfo" = some tInfo ∧ Gen.C36.channelTypes.lookup "channelTypeVisitors" = some tVisitors ∧
    Gen.C36.channelTypes.lookup "channelTypeAgent" = some tAgent := by decide

theorem c36_gen_reasons_terminal (st : Store) (id : Bytes) (ty : Nat) :
    genOrder Gen.C36.checkTerminalChannelPermissionReasons = some (ruleOrder (terminalRules st id ty)) := by
  have : ruleOrder (terminalRules st id ty) = [rDisband] := by simp [ruleOrder, terminalRules, normReasons, sysErr, rSystemError, rSuccess, rDisband]
  rw [this]; decide

theorem c36_gen_reasons_sender (st : Store) (uid : Bytes) :
    genOrder Gen.C36.checkSenderSendPermissionReasons = some (ruleOrder (senderRules st uid)) := by
  have : ruleOrder (senderRules st uid) = [rSendBan] := by simp [ruleOrder, senderRules, normReasons, sysErr, rSystemError, rSuccess, rSendBan]
  rw [this]; decide

theorem ruleOrder_common (st : Store) (id : Bytes) (ty : Nat) (uid : Bytes) :
    (commonRules st id ty uid).map (·.res.1) = [5, 8, 5, 7, 5, 5, 10] := by
  simp [commonRules, sysErr, rSystemError, rInBlacklist, rSubscriberNotExist, rNotInWhitelist]

theorem c36_gen_reasons_common (st : Store) (id : Bytes) (ty : Nat) (uid : Bytes) :
    genOrder Gen.C36.checkCommonMemberPermissionReasons = some (ruleOrder (commonRules st id ty uid)) := by
  unfold ruleOrder; rw [ruleOrder_common]; decide

/-- group: existence, Ban, Disband (the CODE's order), then the common member rules -/
theorem c36_gen_reasons_group (st : Store) (id : Bytes) (ty : Nat) (uid : Bytes) :
    (do let a ← genOrder Gen.C36.checkGroupSendPermissionReasons
        let b ← genOrder Gen.C36.checkCommonMemberPermissionReasons
        pure (a ++ b)) = some (ruleOrder (groupRules false st id ty uid)) := by
  have : (groupRules false st id ty uid).map (·.res.1) = [5, 3, 11, 12, 5, 8, 5, 7, 5, 5, 10] := by
    simp [groupRules, ruleOrder_common, sysErr, rSystemError, rChannelNotExist, rBan, rDisband]
  unfold ruleOrder; rw [this]; decide

/-- person: terminal rules come from checkSendPermission's switch; the person check adds deny → allow/stranger -/
theorem c36_gen_reasons_person (cfg : Cfg) (st : Store) (uid : Bytes) :
    (do let a ← genOrder Gen.C36.checkTerminalChannelPermissionReasons
        let b ← genOrder Gen.C36.checkPersonSendPermissionReasons
        pure (a ++ b)) = some (ruleOrder (personRules cfg st [0x61, 0x40, 0x62] uid)) := by
  have hd : decodePerson [0x61, 0x40, 0x62] = some ([0x61], [0x62]) := by decide
  have : (personRules cfg st [0x61, 0x40, 0x62] uid).map (·.res.1) = [5, 12, 5, 8, 5, 5, 10] := by
    simp [personRules, hd, terminalRules, sysErr, rSystemError, rDisband, rInBlacklist, rNotInWhitelist]
  unfold ruleOrder; rw [this]; decide

theorem c36_gen_reasons_agent (st : Store) (uid : Bytes) :
    (do let a ← genOrder Gen.C36.checkTerminalChannelPermissionReasons
        let b ← genOrder Gen.C36.checkAgentSendPermissionReasons
        pure (a ++ b)) = some (ruleOrder (agentRules st [0x61, 0x40, 0x62] uid)) := by
  have hd : decodeAgent [0x61, 0x40, 0x62] = some ([0x61], [0x62]) := by decide
  have : (agentRules st [0x61, 0x40, 0x62] uid).map (·.res.1) = [5, 12, 9] := by
    simp [agentRules, hd, terminalRules, sysErr, rSystemError, rDisband, rNotAllowSend]
  unfold ruleOrder; rw [this]; decide

/-- batched group evaluator: sender rules, existence, the trusted branch (= terminal rules), then the group rules -/
theorem c36_gen_reasons_eval_group (st : Store) (id uid : Bytes) (ty : Nat) :
    genOrder Gen.C36.evaluateGroupPermissionReadPlanReasons =
      some (normReasons ((senderRules st uid).map (·.res.1) ++ [rChannelNotExist] ++ (terminalRules st id ty).map (·.res.1)
        ++ ((groupRules false st id ty uid).drop 2).map (·.res.1))) := by
  have h1 : (senderRules st uid).map (·.res.1) = [5, 13] := by simp [senderRules, sysErr, rSystemError, rSendBan]
  have h2 : (terminalRules st id ty).map (·.res.1) = [5, 12] := by simp [terminalRules, sysErr, rSystemError, rDisband]
  have h3 : ((groupRules false st id ty uid).drop 2).map (·.res.1) = [11, 12, 5, 8, 5, 7, 5, 5, 10] := by
    simp [groupRules, ruleOrder_common, rBan, rDisband]
  rw [h1, h2, h3]; decide

/-- batched person evaluator: sender rules, then exactly the person rule list -/
theorem c36_gen_reasons_eval_person (cfg : Cfg) (st : Store) (uid : Bytes) :
    genOrder Gen.C36.evaluatePersonPermissionReadPlanReasons =
      some (ruleOrder (senderRules st uid ++ personRules cfg st [0x61, 0x40, 0x62] uid)) := by
  have hd : decodePerson [0x61, 0x40, 0x62] = some ([0x61], [0x62]) := by decide
  have : (senderRules st uid ++ personRules cfg st [0x61, 0x40, 0x62] uid).map (·.res.1) = [5, 13, 5, 12, 5, 8, 5, 5, 10] := by
    simp [senderRules, personRules, hd, terminalRules, sysErr, rSystemError, rSendBan, rDisband, rInBlacklist, rNotInWhitelist]
  unfold ruleOrder; rw [this]; decide

theorem c36_gen_order_checkSendPermission : Gen.C36.checkSendPermission = Pinned.checkSendPermission := rfl
theorem c36_gen_order_terminal : Gen.C36.checkTerminalChannelPermission = Pinned.checkTerminalChannelPermission := rfl
theorem c36_gen_order_sender : Gen.C36.checkSenderSendPermission = Pinned.checkSenderSendPermission := rfl
theorem c36_gen_order_group : Gen.C36.checkGroupSendPermission = Pinned.checkGroupSendPermission := rfl
theorem c36_gen_order_common : Gen.C36.checkCommonMemberPermission = Pinned.checkCommonMemberPermission := rfl
theorem c36_gen_order_agent : Gen.C36.checkAgentSendPermission = Pinned.checkAgentSendPermission := rfl
theorem c36_gen_order_visitors : Gen.C36.checkVisitorsSendPermission = Pinned.checkVisitorsSendPermission := rfl
theorem c36_gen_order_person : Gen.C36.checkPersonSendPermission = Pinned.checkPersonSendPermission := rfl
theorem c36_gen_order_eval_group : Gen.C36.evaluateGroupPermissionReadPlan = Pinned.evaluateGroupPermissionReadPlan := rfl
theorem c36_gen_order_eval_person : Gen.C36.evaluatePersonPermissionReadPlan = Pinned.evaluatePersonPermissionReadPlan := rfl
theorem c36_gen_order_plan_group :
    Gen.C36.checkGroupSendPermissionsBatch = Pinned.checkGroupSendPermissionsBatch ∧
    Gen.C36.checkGroupSendPermissionsBatchReads = Pinned.checkGroupSendPermissionsBatchReads := ⟨rfl, rfl⟩
theorem c36_gen_order_plan_person :
    Gen.C36.checkPersonSendPermissionsBatch = Pinned.checkPersonSendPermissionsBatch ∧
    Gen.C36.checkPersonSendPermissionsBatchReads = Pinned.checkPersonSendPermissionsBatchReads := ⟨rfl, rfl⟩
theorem c36_gen_order_eligibility :
    Gen.C36.batchEligibility = Pinned.batchEligibility ∧ Gen.C36.newBatchStore = Pinned.newBatchStore := ⟨rfl, rfl⟩


-- non-vacuity: the regenerated tables are non-empty and evaluate
example : genOrder Gen.C36.checkGroupSendPermissionReasons = some [rChannelNotExist, rBan, rDisband] := by decide
example : genOrder Gen.C36.checkCommonMemberPermissionReasons = some [rInBlacklist, rSubscriberNotExist, rNotInWhitelist] := by decide
example : genOrder Gen.C36.evaluatePersonPermissionReadPlanReasons = some [rSendBan, rDisband, rInBlacklist, rNotInWhitelist] := by decide
example : Gen.C36.checkSendPermission.length = 21 ∧ Gen.C36.evaluateGroupPermissionReadPlan.length = 34 := by decide
example : Gen.C36.batchEligibility.length = 2 := by decide

end WK.C36

import WK.Gen.C38
import WK.Model.C38
import WK.Proofs.C38_GenPins
/-
  C38 — T tie.  `WK.Gen.C38` is regenerated from /repo's working tree on every
  run (extract/c38.go).  The theorems below are stated ABOUT the generated
  definitions:
   * c38_gen_order_*      the ordered exits of the five functions that make up
                          VerifyPublishedArchive equal the committed shape the model
                          `WK.C38.verify` was written against (guards, their order, the
                          SlotReference that is recomputed and compared, loops);
   * c38_gen_fail_closed  in each of the five functions every return but the last
                          returns a non-nil error and the last one is the only success
                          (no early "ok" exit: `verify` is a conjunction);
   * c38_gen_slot_count   DefaultHashSlotCount = 256, the `nslots` the harness / driver
                          judge with (`ok slots=256`);
   * c38_gen_verify_slots the model's verify, instantiated with the GENERATED slot count,
                          forces exactly that many Slot references, position = Hash Slot.
-/
namespace WK.C38

/-- every return but the last fails, the last one succeeds -/
def onlyLastSucceeds : List Bool → Bool
  | [] => false
  | [b] => b
  | b :: rest => !b && onlyLastSucceeds rest

theorem onlyLastSucceeds_iff (l : List Bool) :
    onlyLastSucceeds l = true ↔ ∃ n, l = List.replicate n false ++ [true] := by
  induction l with
  | nil => simp [onlyLastSucceeds]
  | cons b rest ih =>
    cases rest with
    | nil =>
      constructor
      · intro h; exact ⟨0, by simpa [onlyLastSucceeds] using h⟩
      · rintro ⟨n, hn⟩
        cases n with
        | zero => simpa [onlyLastSucceeds] using hn
        | succ n => simp [List.replicate_succ] at hn
    | cons c rest' =>
      simp only [onlyLastSucceeds, Bool.and_eq_true, Bool.not_eq_true'] at ih ⊢
      constructor
      · rintro ⟨hb, h⟩
        obtain ⟨n, hn⟩ := ih.1 h
        exact ⟨n + 1, by simp [List.replicate_succ, hb, hn]⟩
      · rintro ⟨n, hn⟩
        cases n with
        | zero => simp at hn
        | succ n =>
          simp only [List.replicate_succ, List.cons_append, List.cons.injEq] at hn
          exact ⟨hn.1, ih.2 ⟨n, hn.2⟩⟩

theorem c38_gen_order_verify : Gen.C38.verifyPublishedArchive = Pinned.verifyPublishedArchive := rfl
theorem c38_gen_order_metadata : Gen.C38.loadPublishedArchiveMetadata = Pinned.loadPublishedArchiveMetadata := rfl
theorem c38_gen_order_slot_reference : Gen.C38.loadStoredSlotReference = Pinned.loadStoredSlotReference := rfl
theorem c38_gen_order_slot_at_key : Gen.C38.loadStoredSlotAtKey = Pinned.loadStoredSlotAtKey := rfl
theorem c38_gen_order_read_object : Gen.C38.readStoredObject = Pinned.readStoredObject := rfl

/-- FAIL CLOSED (T): in each of the five generated exit lists every return but the last carries an error -/
theorem c38_gen_fail_closed :
    ∀ l ∈ [Gen.C38.verifyPublishedArchiveReturns, Gen.C38.loadPublishedArchiveMetadataReturns,
           Gen.C38.loadStoredSlotReferenceReturns, Gen.C38.loadStoredSlotAtKeyReturns,
           Gen.C38.readStoredObjectReturns],
      ∃ n, l = List.replicate n false ++ [true] := by
  intro l hl
  apply (onlyLastSucceeds_iff l).1
  revert l
  decide

-- non-vacuity: the generated lists are non-empty and have the failing exits the model's conjuncts stand for
example : Gen.C38.loadStoredSlotAtKeyReturns.length = 7 ∧ Gen.C38.loadPublishedArchiveMetadataReturns.length = 9 := by decide
example : onlyLastSucceeds [false, true, true] = false := by decide

theorem c38_gen_slot_count : Gen.C38.hashSlotCount = 256 := rfl

/-- the model's verify with the GENERATED slot count: a verifying archive lists exactly
    `DefaultHashSlotCount` Slot references and reference `j` is Hash Slot `j` -/
theorem c38_gen_verify_slots (c : Codec) (id : Nat) (r : Repo)
    (hv : verify c Gen.C38.hashSlotCount id r = true) :
    ∃ mb m, r.manifest = some mb ∧ c.decM mb = some m ∧ m.slots.length = 256 ∧
      ∀ j (hj : j < m.slots.length), j < 256 ∧ m.slots[j].slot = j := by
  unfold verify at hv
  cases hm : r.manifest with
  | none => simp [hm] at hv
  | some mb =>
    cases hk : r.marker with
    | none => simp [hm, hk] at hv
    | some mk =>
      cases hd : c.decM mb with
      | none => simp [hm, hk, hd] at hv
      | some m =>
        simp only [hm, hk, hd, Bool.and_eq_true, beq_iff_eq, Bool.not_eq_true'] at hv
        obtain ⟨_, _, ⟨_, hlen⟩, hs⟩ := hv
        have hlen' : m.slots.length = 256 := hlen
        refine ⟨mb, m, rfl, hd, hlen', ?_⟩
        intro j hj
        refine ⟨by omega, ?_⟩
        have : ∀ (l : List SlotRef) (k : Nat), slotsOk c r k l = true →
            ∀ j (h : j < l.length), l[j].slot = k + j := by
          intro l
          induction l with
          | nil => intro k _ j h; exact absurd h (Nat.not_lt_zero _)
          | cons ref rest ih =>
            intro k hs j h
            unfold slotsOk at hs
            simp only [Bool.and_eq_true] at hs
            cases j with
            | zero =>
              have h1 := hs.1
              unfold slotOk at h1
              simp only [Bool.and_eq_true, beq_iff_eq] at h1
              simpa using h1.1
            | succ j =>
              have := ih (k + 1) hs.2 j (by simpa using h)
              simp only [List.getElem_cons_succ]
              omega
        simpa using this m.slots 0 hs j hj

end WK.C38

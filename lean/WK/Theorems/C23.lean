import WK.Proofs.C23_Feed
/-
  C23 — Client stream decoding is robust to arbitrary bytes and splits.

  Theorems about `WK.C23.adapterDecode` (= `Adapter.Decode`) and `WK.C23.feed`
  (= the gateway's inbound-buffer discipline) over the C22 codec model — the
  definitions `Driver/C23.lean` executes against the real adapter on every run.
  `sv` is the session's negotiated-version value (any uint8; 0/unset = latest).
-/
namespace WK.C23
open WK.C22

/-! ## totality: arbitrary bytes -/

/-- For ARBITRARY input bytes and any version the adapter never reaches the
    unguarded `data[0]` (no panic), and whatever it returns is framed sanely:
    it never claims more bytes than it was given, every frame accounts for at
    least one consumed byte, and "no progress" and "no frames" coincide. An
    error carries no frames and no progress by construction (`AllRes.err`). -/
theorem c23_total (sv : Nat) (inp : Bytes) :
    adapterDecode sv inp ≠ .panic ∧
    ∀ fs c, adapterDecode sv inp = .ok fs c → c ≤ inp.length ∧ fs.length ≤ c ∧ (c = 0 ↔ fs = []) := by
  unfold adapterDecode
  split
  · refine ⟨by simp, ?_⟩
    intro fs c h
    simp only [AllRes.ok.injEq] at h
    obtain ⟨rfl, rfl⟩ := h
    simp
  · refine ⟨decodeLoop_no_panic _ _ _, ?_⟩
    intro fs c h
    obtain ⟨h1, h2, h3⟩ := decodeLoop_bounds _ _ _ _ _ h
    refine ⟨h1, h2, ?_, h3⟩
    intro hc
    subst hc
    exact List.eq_nil_of_length_eq_zero (by omega)

example : adapterDecode 0 [0x13, 0xFF, 0xFF, 0xFF, 0xFF] = .err := by decide      -- oversize length
example : adapterDecode 3 [0x80, 0x70, 0x31, 0x05] = .ok [.pong {}, .ping {}] 2 := by decide
example : adapterDecode 6 [] = .ok [] 0 := by decide

/-! ## streams of frames -/

/-- **Stream concatenation**: decoding the concatenation of the encodings of any
    list of in-limit frames returns exactly those (normalised) frames, in order,
    and consumes the whole input. -/
theorem c23_stream (sv : Nat) (fs : List Frame) (h : ∀ f ∈ fs, WithinLimits (effVersion sv) f) :
    adapterDecode sv (encAll (effVersion sv) fs) =
      .ok (fs.map (norm (effVersion sv))) (encAll (effVersion sv) fs).length := by
  unfold adapterDecode
  split
  · rename_i hemp
    cases fs with
    | nil => simp [encAll]
    | cons f fs' =>
      exfalso
      have := encOf_pos _ f (h f (by simp))
      simp [encAll] at hemp
      rw [hemp.1] at this
      simp at this
  · have := decodeLoop_frames (effVersion sv) fs [] (encAll (effVersion sv) fs).length h
      (length_le_encAll _ fs h) (Or.inl rfl)
    simpa using this

/-- **No progress on a partial frame** (codec level): a strict prefix of an
    in-limit frame's encoding makes `DecodeFrame` answer "need more data". -/
theorem c23_no_progress_on_partial (v : Nat) (f : Frame) (hw : WithinLimits v f) (p q : Bytes)
    (hpq : encOf v f = p ++ q) (hq : q ≠ []) (hp : p ≠ []) : decodeFrame v p = .need := by
  rcases partial_stalls v f hw p q hpq hq with h | h
  · exact absurd h hp
  · exact h

/-- … and at adapter level: complete frames followed by a strict prefix of one more
    frame yield exactly the complete frames; the partial frame is neither reported
    nor consumed nor an error. -/
theorem c23_stream_partial (sv : Nat) (fs : List Frame) (f : Frame) (p q : Bytes)
    (h : ∀ g ∈ fs, WithinLimits (effVersion sv) g) (hw : WithinLimits (effVersion sv) f)
    (hpq : encOf (effVersion sv) f = p ++ q) (hq : q ≠ []) :
    adapterDecode sv (encAll (effVersion sv) fs ++ p) =
      .ok (fs.map (norm (effVersion sv))) (encAll (effVersion sv) fs).length := by
  have hst := partial_stalls _ f hw p q hpq hq
  unfold adapterDecode
  split
  · rename_i hemp
    simp at hemp
    cases fs with
    | nil => simp [encAll]
    | cons g fs' =>
      exfalso
      have := encOf_pos _ g (h g (by simp))
      simp [encAll] at hemp
      rw [hemp.1.1] at this
      simp at this
  · apply decodeLoop_frames _ fs p _ h _ hst
    have := length_le_encAll _ fs h
    simp; omega

/-- non-vacuity: a RECVACK cut after 5 of its 18 bytes behind a complete PING -/
example : adapterDecode 6 ([0x70] ++ [0x68, 16, 0, 0, 0]) = .ok [.ping {}] 1 := by decide


/-! ## arbitrary chunk splits (the gateway's inbound buffer) -/

/-- a partial head that already contains its whole remaining stream is empty -/
theorem partialHead_full (v : Nat) (q : Bytes) (h : List Frame) (hw : ∀ f ∈ h, WithinLimits v f)
    (hp : PartialHead v q h) (hq : q = encAll v h) : h = [] ∧ q = [] := by
  cases h with
  | nil => exact ⟨rfl, by simpa using hq⟩
  | cons f0 h' =>
    exfalso
    have hpos := encOf_pos v f0 (hw f0 (by simp))
    have hl := congrArg List.length hq
    simp only [encAll_cons, List.length_append] at hl
    rcases hp with rfl | ⟨f, fs3, q', e, he, hq'⟩
    · simp only [List.length_nil] at hl; omega
    · simp only [List.cons.injEq] at e
      obtain ⟨rfl, _⟩ := e
      have h2 := congrArg List.length he
      have h3 : 0 < q'.length := List.length_pos_iff.mpr hq'
      simp only [List.length_append] at h2
      omega

/-- **Split invariance.**  Deliver the concatenated encodings of any list of in-limit
    frames to the gateway in ANY chunking (any number of chunks, any sizes, empty
    chunks included): exactly the original frames are dispatched, in order, nothing
    is left in the buffer and the session is not closed. -/
theorem c23_split_invariant (sv : Nat) (fs : List Frame) (chunks : List Bytes)
    (h : ∀ f ∈ fs, WithinLimits (effVersion sv) f)
    (hcat : chunks.flatten = encAll (effVersion sv) fs) :
    feed sv chunks = { buf := [], out := fs.map (norm (effVersion sv)), closed := false, panicked := false } := by
  obtain ⟨g, hh, q, e1, e2, e3, e4⟩ :=
    feed_from sv chunks {} fs [] rfl (Or.inl rfl) h (by simp [hcat])
  have hwh : ∀ f ∈ hh, WithinLimits (effVersion sv) f := fun f hf => h f (by simp [e1, hf])
  obtain ⟨rfl, rfl⟩ := partialHead_full _ q hh hwh e4 (by simpa using e3)
  simp only [List.append_nil] at e1
  subst e1
  simpa [feed] using e2

/-- **Split invariance with an incomplete last frame.**  If the delivered bytes end
    in a strict prefix `p` of one more frame, every chunking dispatches exactly the
    complete frames and keeps exactly `p` buffered: no progress on the partial
    frame, no error, no matter where the chunk boundaries fall. -/
theorem c23_split_partial (sv : Nat) (fs : List Frame) (f : Frame) (p p' : Bytes) (chunks : List Bytes)
    (h : ∀ g ∈ fs, WithinLimits (effVersion sv) g) (hw : WithinLimits (effVersion sv) f)
    (hpp : encOf (effVersion sv) f = p ++ p') (hp' : p' ≠ [])
    (hcat : chunks.flatten = encAll (effVersion sv) fs ++ p) :
    feed sv chunks = { buf := p, out := fs.map (norm (effVersion sv)), closed := false, panicked := false } := by
  have hall : ∀ g ∈ fs ++ [f], WithinLimits (effVersion sv) g := by
    intro g hg
    simp only [List.mem_append, List.mem_singleton] at hg
    rcases hg with hg | rfl
    · exact h g hg
    · exact hw
  obtain ⟨g, hh, q, e1, e2, e3, e4⟩ :=
    feed_from sv chunks {} (fs ++ [f]) p' rfl (Or.inl rfl) hall
      (by simp [hcat, encAll_append, hpp, List.append_assoc])
  -- the remaining frames `hh` are not empty (p' is still missing) …
  have hne : hh ≠ [] := by
    rintro rfl
    simp only [encAll_nil, List.append_eq_nil_iff] at e3
    exact hp' e3.2
  -- … so `g` is a prefix of `fs`
  obtain ⟨d, rfl, rfl⟩ : ∃ d, fs = g ++ d ∧ hh = d ++ [f] := by
    rw [List.append_eq_append_iff] at e1
    rcases e1 with ⟨a', h1, h2⟩ | ⟨c', h1, h2⟩
    · have hl := congrArg List.length h2
      have : 0 < hh.length := List.length_pos_iff.mpr hne
      simp only [List.length_append, List.length_cons, List.length_nil] at hl
      have ha : a' = [] := List.eq_nil_of_length_eq_zero (by omega)
      subst ha
      exact ⟨[], by simpa using h1.symm, by simpa using h2.symm⟩
    · exact ⟨c', h1, h2⟩
  have hq : q = encAll (effVersion sv) d ++ p := by
    rw [encAll_append, encAll_cons, encAll_nil, List.append_nil, hpp, ← List.append_assoc] at e3
    exact List.append_cancel_right e3
  -- the buffered tail is a partial head, so no complete frame can be left in it
  have hd : d = [] := by
    cases d with
    | nil => rfl
    | cons f0 d' =>
      exfalso
      have hpos := encOf_pos _ f0 (h f0 (by simp))
      have hl := congrArg List.length hq
      simp only [encAll_cons, List.length_append] at hl
      rcases e4 with rfl | ⟨f1, fs3, q', e, he, hq'⟩
      · simp only [List.length_nil] at hl; omega
      · simp only [List.cons_append, List.cons.injEq] at e
        obtain ⟨rfl, _⟩ := e
        have h2 := congrArg List.length he
        have h3 : 0 < q'.length := List.length_pos_iff.mpr hq'
        simp only [List.length_append] at h2
        omega
  subst hd
  simp only [encAll_nil, List.nil_append] at hq
  subst hq
  simpa [feed] using e2

/-- Corollary in the property's own words: any two chunkings of the same valid stream
    leave the gateway in the same state. -/
theorem c23_chunking_irrelevant (sv : Nat) (fs : List Frame) (c1 c2 : List Bytes)
    (h : ∀ f ∈ fs, WithinLimits (effVersion sv) f)
    (h1 : c1.flatten = encAll (effVersion sv) fs) (h2 : c2.flatten = encAll (effVersion sv) fs) :
    feed sv c1 = feed sv c2 := by
  rw [c23_split_invariant sv fs c1 h h1, c23_split_invariant sv fs c2 h h2]

/-- non-vacuity: PING + RECVACK(v6) delivered as 3 chunks cutting the header, the varint and the body -/
example : (feed 6 [[0x70, 0x68], [16, 0, 0, 0], [0, 0, 0, 0, 9, 0, 0, 0, 0, 0, 0, 0, 7]]).out =
    [.ping {}, .recvack { dup := true } { messageID := 9, messageSeq := 7 }] := by decide

/-! ## arbitrary bytes, arbitrary chunkings -/

/-- a closed session ignores every further chunk -/
theorem foldl_feedChunk_closed (sv : Nat) (chunks : List Bytes) (st : Inbound) (h : st.closed = true) :
    chunks.foldl (feedChunk sv) st = st := by
  induction chunks with
  | nil => rfl
  | cons c cs ih => simp [List.foldl_cons, feedChunk, h, ih]

/-- **After a close nothing more is dispatched**: for arbitrary bytes and any chunking, once
    the inbound path has closed the session (protocol error), every later chunk leaves the
    dispatched frames, the buffer and the closed flag untouched. -/
theorem c23_no_dispatch_after_close (sv : Nat) (before after : List Bytes)
    (h : (feed sv before).closed = true) : feed sv (before ++ after) = feed sv before := by
  unfold feed at *
  rw [List.foldl_append]
  exact foldl_feedChunk_closed sv after _ h

theorem drain_buf_le (sv : Nat) : ∀ (fuel : Nat) (st : Inbound), (drain sv fuel st).buf.length ≤ st.buf.length := by
  intro fuel
  induction fuel with
  | zero => intro st; simp [drain]
  | succ k ih =>
    intro st
    simp only [drain]
    split
    · simp
    · simp
    · rename_i fs c _
      split
      · simp
      · have := ih { st with buf := st.buf.drop c, out := st.out ++ fs }
        simp only [List.length_drop] at this
        omega

theorem feedChunk_buf_le (sv : Nat) (st : Inbound) (c : Bytes) :
    (feedChunk sv st c).buf.length ≤ st.buf.length + c.length := by
  unfold feedChunk
  split
  · omega
  · have := drain_buf_le sv ((st.buf ++ c).length + 1) { st with buf := st.buf ++ c }
    simpa using this

/-- **Residual-buffer bound**: for arbitrary bytes and any chunking the gateway never buffers
    more than it was given (on top of what was already buffered). -/
theorem c23_residual_buffer_bound (sv : Nat) (chunks : List Bytes) :
    (feed sv chunks).buf.length ≤ chunks.flatten.length := by
  suffices h : ∀ (cs : List Bytes) (st : Inbound),
      (cs.foldl (feedChunk sv) st).buf.length ≤ st.buf.length + cs.flatten.length by
    simpa [feed] using h chunks {}
  intro cs
  induction cs with
  | nil => intro st; simp
  | cons c cs ih =>
    intro st
    have h1 := feedChunk_buf_le sv st c
    have h2 := ih (feedChunk sv st c)
    simp only [List.foldl_cons, List.flatten_cons, List.length_append]
    omega

example : (feed 6 [[0x68, 16, 0], [0, 0]]).buf.length = 5 ∧ (feed 6 [[0x13, 0xFF, 0xFF, 0xFF, 0xFF], [0x70]]).closed = true ∧
    (feed 6 [[0x13, 0xFF, 0xFF, 0xFF, 0xFF], [0x70]]).out = [] := by decide

/-! ## chunking of arbitrary byte streams -/

theorem decLenF_append : ∀ (k m off acc : Nat) (d x : Bytes) (r : Nat × Nat),
    decLenF k m off acc d = some r → decLenF k m off acc (d ++ x) = some r := by
  intro k
  induction k with
  | zero => intro m off acc d x r h; simpa [decLenF] using h
  | succ k ih =>
    intro m off acc d x r h
    cases d with
    | nil => simp [decLenF] at h
    | cons a t =>
      simp only [decLenF, List.cons_append] at h ⊢
      split
      · rename_i hc; simpa [hc] using h
      · rename_i hc; simp only [hc, if_false] at h; exact ih _ _ _ t x r h

theorem decodeHeader_append (b0 : UInt8) (rest x : Bytes) (r : Nat × Flags × Nat × Nat)
    (h : decodeHeader b0 rest = some r) : decodeHeader b0 (rest ++ x) = some r := by
  simp only [decodeHeader] at h ⊢
  by_cases hc : typeOfByte b0 ≠ 7 ∧ typeOfByte b0 ≠ 8
  · rw [if_pos hc] at h ⊢
    cases hl : decLen rest with
    | none => simp [hl] at h
    | some p =>
      have h2 : decLen (rest ++ x) = some p := decLenF_append 4 0 0 0 rest x p hl
      rw [hl] at h; rw [h2]; exact h
  · rw [if_neg hc] at h ⊢; exact h

/-- a frame decoded from a prefix is the frame decoded from any extension -/
theorem decodeFrame_mono (v : Nat) (d x : Bytes) (f : Frame) (n : Nat)
    (h : decodeFrame v d = .ok f n) : decodeFrame v (d ++ x) = .ok f n := by
  cases d with
  | nil => simp [decodeFrame] at h
  | cons b0 rest =>
    simp only [decodeFrame, List.cons_append] at h ⊢
    cases hh : decodeHeader b0 rest with
    | none => simp [hh] at h
    | some r =>
      obtain ⟨ft, fl, rl, rll⟩ := r
      have hh' := decodeHeader_append b0 rest x _ hh
      simp only [hh, hh'] at h ⊢
      by_cases c0 : ft = 0
      · rw [if_pos c0] at h; cases h
      · rw [if_neg c0] at h ⊢
        by_cases c7 : ft = 7
        · rw [if_pos c7] at h ⊢; exact h
        · rw [if_neg c7] at h ⊢
          by_cases c8 : ft = 8
          · rw [if_pos c8] at h ⊢; exact h
          · rw [if_neg c8] at h ⊢
            by_cases cm : rl > maxRemainingLength
            · rw [if_pos cm] at h; cases h
            · rw [if_neg cm] at h ⊢
              by_cases cl : (b0 :: rest).length < rl + 1 + rll
              · rw [if_pos cl] at h; cases h
              · have cl' : ¬ (b0 :: (rest ++ x)).length < rl + 1 + rll := by
                  simp only [List.length_cons, List.length_append] at cl ⊢; omega
                have hb : (List.drop (1 + rll) (b0 :: (rest ++ x))).take rl =
                    (List.drop (1 + rll) (b0 :: rest)).take rl := by
                  rw [← List.cons_append, List.drop_append_of_le_length (by simp only [List.length_cons] at cl ⊢; omega)]
                  rw [List.take_append_of_le_length (by simp only [List.length_drop, List.length_cons] at cl ⊢; omega)]
                rw [if_neg cl] at h
                rw [if_neg cl', hb]
                exact h


/-- fuel beyond the input length is irrelevant -/
theorem decodeLoop_fuel (v : Nat) : ∀ (f1 f2 : Nat) (rem : Bytes), rem.length ≤ f1 → rem.length ≤ f2 →
    decodeLoop v f1 rem = decodeLoop v f2 rem := by
  intro f1
  induction f1 with
  | zero =>
    intro f2 rem h1 _
    have : rem = [] := List.eq_nil_of_length_eq_zero (by omega)
    subst this
    cases f2 <;> simp [decodeLoop]
  | succ k ih =>
    intro f2 rem h1 h2
    cases rem with
    | nil => cases f2 <;> simp [decodeLoop]
    | cons b r =>
      obtain ⟨k2, rfl⟩ : ∃ k2, f2 = k2 + 1 := ⟨f2 - 1, by simp only [List.length_cons] at h2; omega⟩
      simp only [decodeLoop]
      cases hd : decodeFrame v (b :: r) with
      | ok f n =>
        simp only
        by_cases hn : n = 0
        · simp [hn]
        · simp only [hn, if_false]
          have hb := c22_decode_bounds v _ _ _ hd
          rw [ih k2 ((b :: r).drop n) (by simp only [List.length_drop, List.length_cons] at h1 ⊢; omega)
            (by simp only [List.length_drop, List.length_cons] at h2 ⊢; omega)]
      | _ => rfl

/-- the adapter loop with its canonical fuel -/
def loopC (v : Nat) (S : Bytes) : AllRes := decodeLoop v S.length S

theorem adapterDecode_eq (sv : Nat) (S : Bytes) : adapterDecode sv S = loopC (effVersion sv) S := by
  unfold adapterDecode loopC
  cases S with
  | nil => simp [decodeLoop]
  | cons b r => simp

def glue (fs : List Frame) (c : Nat) : AllRes → AllRes
  | .ok fs2 c2 => .ok (fs ++ fs2) (c + c2)
  | r => r

theorem glue_nil (r : AllRes) : glue [] 0 r = r := by cases r <;> simp [glue]

/-- the loop on an extended input first reproduces the frames of the shorter input and then
    continues on what that run had left, followed by the extension -/
theorem loop_extend (v : Nat) : ∀ (n : Nat) (S x : Bytes) (fs : List Frame) (c : Nat), S.length ≤ n →
    loopC v S = .ok fs c → loopC v (S ++ x) = glue fs c (loopC v (S.drop c ++ x)) := by
  intro n
  induction n with
  | zero =>
    intro S x fs c hl h
    have : S = [] := List.eq_nil_of_length_eq_zero (by omega)
    subst this
    simp only [loopC, decodeLoop, List.length_nil, AllRes.ok.injEq] at h
    obtain ⟨rfl, rfl⟩ := h
    simp [glue_nil]
  | succ k ih =>
    intro S x fs c hl h
    cases S with
    | nil =>
      simp only [loopC, decodeLoop, List.length_nil, AllRes.ok.injEq] at h
      obtain ⟨rfl, rfl⟩ := h
      simp [glue_nil]
    | cons b r =>
      simp only [loopC, List.length_cons, decodeLoop] at h
      cases hd : decodeFrame v (b :: r) with
      | panic => simp [hd] at h
      | err => simp [hd] at h
      | need =>
        simp only [hd, AllRes.ok.injEq] at h
        obtain ⟨rfl, rfl⟩ := h
        simp [glue_nil]
      | ok f m =>
        simp only [hd] at h
        by_cases hm : m = 0
        · simp only [hm, if_true, AllRes.ok.injEq] at h
          obtain ⟨rfl, rfl⟩ := h
          simp [glue_nil]
        · simp only [hm, if_false] at h
          have hb := c22_decode_bounds v _ _ _ hd
          have hmono := decodeFrame_mono v (b :: r) x f m hd
          -- the inner run on what follows the first frame
          have hin : decodeLoop v r.length ((b :: r).drop m) = loopC v ((b :: r).drop m) := by
            unfold loopC
            exact decodeLoop_fuel v _ _ _ (by simp only [List.length_drop, List.length_cons]; omega) (Nat.le_refl _)
          rw [hin] at h
          cases hl2 : loopC v ((b :: r).drop m) with
          | panic => simp [hl2] at h
          | err => simp [hl2] at h
          | ok fs' c' =>
            simp only [hl2, AllRes.ok.injEq] at h
            obtain ⟨rfl, rfl⟩ := h
            have hih := ih ((b :: r).drop m) x fs' c'
              (by simp only [List.length_drop, List.length_cons] at hl ⊢; omega) hl2
            -- unfold one step of the extended run
            have hmono' : decodeFrame v (b :: (r ++ x)) = .ok f m := by simpa using hmono
            have hfuel := decodeLoop_fuel v (r ++ x).length ((b :: (r ++ x)).drop m).length ((b :: (r ++ x)).drop m)
              (by simp only [List.length_drop, List.length_append, List.length_cons]; omega) (Nat.le_refl _)
            have hstep : loopC v ((b :: r) ++ x) = glue [f] m (loopC v (((b :: r) ++ x).drop m)) := by
              unfold loopC
              simp only [List.cons_append, List.length_cons, decodeLoop, hmono', hm, if_false, hfuel]
              cases decodeLoop v ((b :: (r ++ x)).drop m).length ((b :: (r ++ x)).drop m) <;> simp [glue]
            rw [hstep, List.drop_append_of_le_length (by omega), hih]
            have hd2 : ((b :: r).drop m).drop c' = (b :: r).drop (m + c') := by rw [List.drop_drop]
            rw [hd2]
            cases loopC v ((b :: r).drop (m + c') ++ x) <;> simp [glue, Nat.add_assoc]


theorem loop_stall (v : Nat) (S : Bytes) (fs : List Frame) (c : Nat) (h : loopC v S = .ok fs c) :
    loopC v (S.drop c) = .ok [] 0 := by
  have := loop_extend v S.length S [] fs c (Nat.le_refl _) h
  simp only [List.append_nil] at this
  rw [h] at this
  cases hr : loopC v (S.drop c) with
  | ok fs2 c2 =>
    rw [hr] at this
    simp only [glue, AllRes.ok.injEq] at this
    obtain ⟨h1, h2⟩ := this
    have : fs2 = [] := by simpa using h1
    subst this
    have : c2 = 0 := by omega
    subst this
    rfl
  | err => rw [hr] at this; simp [glue] at this
  | panic => rw [hr] at this; simp [glue] at this

theorem drain_ok (sv : Nat) (st : Inbound) (fuel : Nat) (fs : List Frame) (c : Nat)
    (h : loopC (effVersion sv) st.buf = .ok fs c) (hf : 2 ≤ fuel) :
    drain sv fuel st = { st with buf := st.buf.drop c, out := st.out ++ fs } := by
  obtain ⟨k, rfl⟩ : ∃ k, fuel = k + 2 := ⟨fuel - 2, by omega⟩
  have hd : adapterDecode sv st.buf = .ok fs c := by rw [adapterDecode_eq]; exact h
  simp only [drain, hd]
  by_cases hc : c = 0
  · subst hc
    have : fs = [] := ((c23_total sv st.buf).2 fs 0 hd).2.2.1 rfl
    subst this
    cases st; simp
  · rw [if_neg hc]
    have hs := loop_stall _ _ _ _ h
    have hd2 : adapterDecode sv (st.buf.drop c) = .ok [] 0 := by rw [adapterDecode_eq]; exact hs
    simp only [hd2, if_true]

/-- the state after any chunking of any byte stream that does not end closed -/
theorem feed_general (sv : Nat) : ∀ (chunks : List Bytes) (st : Inbound),
    st.closed = false → loopC (effVersion sv) st.buf = .ok [] 0 →
    (chunks.foldl (feedChunk sv) st).closed = false →
    ∃ fs c, loopC (effVersion sv) (st.buf ++ chunks.flatten) = .ok fs c ∧
      chunks.foldl (feedChunk sv) st =
        { st with buf := (st.buf ++ chunks.flatten).drop c, out := st.out ++ fs } := by
  intro chunks
  induction chunks with
  | nil =>
    intro st _ hst _
    refine ⟨[], 0, by simpa using hst, ?_⟩
    cases st; simp
  | cons ch cs ih =>
    intro st hcl hst hfin
    simp only [List.foldl_cons] at hfin ⊢
    have hfc : feedChunk sv st ch = drain sv ((st.buf ++ ch).length + 1) { st with buf := st.buf ++ ch } := by
      simp [feedChunk, hcl]
    cases hl : loopC (effVersion sv) (st.buf ++ ch) with
    | ok fs1 c1 =>
      by_cases he : st.buf ++ ch = []
      · -- nothing buffered, empty chunk
        have hb : st.buf = [] := (List.append_eq_nil_iff.mp he).1
        have hc : ch = [] := (List.append_eq_nil_iff.mp he).2
        have h1 : feedChunk sv st ch = st := by
          rw [hfc, he]
          simp only [List.length_nil, drain]
          have : adapterDecode sv ({ st with buf := [] } : Inbound).buf = .ok [] 0 := by simp [adapterDecode]
          simp only [this, if_true]
          cases st; simp_all
        rw [h1] at hfin ⊢
        obtain ⟨fs, c, e1, e2⟩ := ih st hcl hst hfin
        exact ⟨fs, c, by simpa [hc] using e1, by simpa [hc] using e2⟩
      · have hlen : 2 ≤ (st.buf ++ ch).length + 1 := by
          have : 0 < (st.buf ++ ch).length := List.length_pos_iff.mpr he
          omega
        have h1 : feedChunk sv st ch = { st with buf := (st.buf ++ ch).drop c1, out := st.out ++ fs1 } := by
          rw [hfc, drain_ok sv _ _ fs1 c1 hl hlen]
        rw [h1] at hfin ⊢
        have hbound : c1 ≤ (st.buf ++ ch).length := by
          have := (c23_total sv (st.buf ++ ch)).2 fs1 c1 (by rw [adapterDecode_eq]; exact hl)
          exact this.1
        obtain ⟨fs2, c2, e1, e2⟩ := ih { st with buf := (st.buf ++ ch).drop c1, out := st.out ++ fs1 } hcl
          (loop_stall _ _ _ _ hl) hfin
        refine ⟨fs1 ++ fs2, c1 + c2, ?_, ?_⟩
        · have := loop_extend (effVersion sv) _ (st.buf ++ ch) cs.flatten fs1 c1 (Nat.le_refl _) hl
          simp only at e1
          rw [e1] at this
          simpa [glue, List.append_assoc] using this
        · rw [e2]
          simp only [List.flatten_cons, List.append_assoc]
          congr 1
          rw [← List.append_assoc, ← List.drop_drop, List.drop_append_of_le_length hbound]
    | err =>
      exfalso
      have h1 : (feedChunk sv st ch).closed = true := by
        rw [hfc]
        have : adapterDecode sv (st.buf ++ ch) = .err := by rw [adapterDecode_eq]; exact hl
        simp [drain, this]
      rw [foldl_feedChunk_closed sv cs _ h1, h1] at hfin
      cases hfin
    | panic =>
      exfalso
      have := (c23_total sv (st.buf ++ ch)).1
      rw [adapterDecode_eq] at this
      exact this hl

/-- **Chunking is irrelevant — arbitrary bytes.**  Take ANY byte stream and ANY way of cutting
    it into chunks (any number of cut points, empty chunks allowed).  If the chunked
    delivery does not end in a closed session, the gateway ends in exactly the state of
    the single-chunk delivery: same frames dispatched in the same order, same residual
    buffer. -/
theorem c23_chunking_irrelevant_any (sv : Nat) (chunks : List Bytes)
    (h : (feed sv chunks).closed = false) : feed sv chunks = feed sv [chunks.flatten] := by
  have hinit : loopC (effVersion sv) ({} : Inbound).buf = .ok [] 0 := by simp [loopC, decodeLoop]
  obtain ⟨fs, c, e1, e2⟩ := feed_general sv chunks {} rfl hinit h
  simp only [List.nil_append] at e1 e2
  -- the single-chunk run reaches the same state
  have hsingle : (feed sv [chunks.flatten]).closed = false := by
    simp only [feed, List.foldl_cons, List.foldl_nil, feedChunk]
    by_cases he : chunks.flatten = []
    · simp [he, drain, adapterDecode]
    · have hlen : 2 ≤ (([] : Bytes) ++ chunks.flatten).length + 1 := by
        have : 0 < chunks.flatten.length := List.length_pos_iff.mpr he
        simp only [List.nil_append]; omega
      simp only [Bool.false_eq_true, if_false]
      rw [drain_ok sv _ _ fs c (by simpa using e1) hlen]
  obtain ⟨fs', c', e1', e2'⟩ := feed_general sv [chunks.flatten] {} rfl hinit hsingle
  simp only [List.nil_append, List.flatten_cons, List.flatten_nil, List.append_nil] at e1' e2'
  rw [e1] at e1'
  simp only [AllRes.ok.injEq] at e1'
  obtain ⟨rfl, rfl⟩ := e1'
  simp only [feed]
  rw [e2, e2']

/-- non-vacuity: a stream that is NOT a sequence of valid frames (a PING, then a type-0 byte the
    decoder waits on forever) — three chunks and one chunk end in the same, non-closed state -/
example : (feed 3 [[0x70], [0x05], [0x80]]).closed = false ∧
    feed 3 [[0x70], [0x05], [0x80]] = feed 3 [[0x70, 0x05, 0x80]] := by decide

end WK.C23

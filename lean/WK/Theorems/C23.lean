import WK.Spec.C22
import WK.Model.C23
namespace WK.C23
end WK.C23

import WK.Proofs.C23_Loop
/-
  C23 — Client stream decoding is robust to arbitrary bytes and splits.

  Theorems about `WK.C23.adapterDecode` (= `Adapter.Decode`) and `WK.C23.feed`
  (= the gateway's inbound-buffer discipline) over the C22 codec model — the
  definitions `Driver/C23.lean` executes against the real adapter on every run.
  `sv` is the session's negotiated-version value (any uint8; 0/unset = latest).
-/
namespace WK.C23
open WK.C22

/-! ## totality: arbitrary bytes -/

/-- For ARBITRARY input bytes and any version the adapter never reaches the
    unguarded `data[0]` (no panic), and whatever it returns is framed sanely:
    it never claims more bytes than it was given, every frame accounts for at
    least one consumed byte, and "no progress" and "no frames" coincide. An
    error carries no frames and no progress by construction (`AllRes.err`). -/
theorem c23_total (sv : Nat) (inp : Bytes) :
    adapterDecode sv inp ≠ .panic ∧
    ∀ fs c, adapterDecode sv inp = .ok fs c → c ≤ inp.length ∧ fs.length ≤ c ∧ (c = 0 ↔ fs = []) := by
  unfold adapterDecode
  split
  · refine ⟨by simp, ?_⟩
    intro fs c h
    simp only [AllRes.ok.injEq] at h
    obtain ⟨rfl, rfl⟩ := h
    simp
  · refine ⟨decodeLoop_no_panic _ _ _, ?_⟩
    intro fs c h
    obtain ⟨h1, h2, h3⟩ := decodeLoop_bounds _ _ _ _ _ h
    refine ⟨h1, h2, ?_, h3⟩
    intro hc
    subst hc
    exact List.eq_nil_of_length_eq_zero (by omega)

example : adapterDecode 0 [0x13, 0xFF, 0xFF, 0xFF, 0xFF] = .err := by decide      -- oversize length
example : adapterDecode 3 [0x80, 0x70, 0x31, 0x05] = .ok [.pong {}, .ping {}] 2 := by decide
example : adapterDecode 6 [] = .ok [] 0 := by decide

/-! ## streams of frames -/

/-- **Stream concatenation**: decoding the concatenation of the encodings of any
    list of in-limit frames returns exactly those (normalised) frames, in order,
    and consumes the whole input. -/
theorem c23_stream (sv : Nat) (fs : List Frame) (h : ∀ f ∈ fs, WithinLimits (effVersion sv) f) :
    adapterDecode sv (encAll (effVersion sv) fs) =
      .ok (fs.map (norm (effVersion sv))) (encAll (effVersion sv) fs).length := by
  unfold adapterDecode
  split
  · rename_i hemp
    cases fs with
    | nil => simp [encAll]
    | cons f fs' =>
      exfalso
      have := encOf_pos _ f (h f (by simp))
      simp [encAll] at hemp
      rw [hemp.1] at this
      simp at this
  · have := decodeLoop_frames (effVersion sv) fs [] (encAll (effVersion sv) fs).length h
      (length_le_encAll _ fs h) (Or.inl rfl)
    simpa using this

/-- **No progress on a partial frame** (codec level): a strict prefix of an
    in-limit frame's encoding makes `DecodeFrame` answer "need more data". -/
theorem c23_no_progress_on_partial (v : Nat) (f : Frame) (hw : WithinLimits v f) (p q : Bytes)
    (hpq : encOf v f = p ++ q) (hq : q ≠ []) (hp : p ≠ []) : decodeFrame v p = .need := by
  rcases partial_stalls v f hw p q hpq hq with h | h
  · exact absurd h hp
  · exact h

/-- … and at adapter level: complete frames followed by a strict prefix of one more
    frame yield exactly the complete frames; the partial frame is neither reported
    nor consumed nor an error. -/
theorem c23_stream_partial (sv : Nat) (fs : List Frame) (f : Frame) (p q : Bytes)
    (h : ∀ g ∈ fs, WithinLimits (effVersion sv) g) (hw : WithinLimits (effVersion sv) f)
    (hpq : encOf (effVersion sv) f = p ++ q) (hq : q ≠ []) :
    adapterDecode sv (encAll (effVersion sv) fs ++ p) =
      .ok (fs.map (norm (effVersion sv))) (encAll (effVersion sv) fs).length := by
  have hst := partial_stalls _ f hw p q hpq hq
  unfold adapterDecode
  split
  · rename_i hemp
    simp at hemp
    cases fs with
    | nil => simp [encAll]
    | cons g fs' =>
      exfalso
      have := encOf_pos _ g (h g (by simp))
      simp [encAll] at hemp
      rw [hemp.1.1] at this
      simp at this
  · apply decodeLoop_frames _ fs p _ h _ hst
    have := length_le_encAll _ fs h
    simp; omega

/-- non-vacuity: a RECVACK cut after 5 of its 18 bytes behind a complete PING -/
example : adapterDecode 6 ([0x70] ++ [0x68, 16, 0, 0, 0]) = .ok [.ping {}] 1 := by decide

end WK.C23

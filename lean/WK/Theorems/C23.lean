import WK.Proofs.C23_Feed
/-
  C23 — Client stream decoding is robust to arbitrary bytes and splits.

  Theorems about `WK.C23.adapterDecode` (= `Adapter.Decode`) and `WK.C23.feed`
  (= the gateway's inbound-buffer discipline) over the C22 codec model — the
  definitions `Driver/C23.lean` executes against the real adapter on every run.
  `sv` is the session's negotiated-version value (any uint8; 0/unset = latest).
-/
namespace WK.C23
open WK.C22

/-! ## totality: arbitrary bytes -/

/-- For ARBITRARY input bytes and any version the adapter never reaches the
    unguarded `data[0]` (no panic), and whatever it returns is framed sanely:
    it never claims more bytes than it was given, every frame accounts for at
    least one consumed byte, and "no progress" and "no frames" coincide. An
    error carries no frames and no progress by construction (`AllRes.err`). -/
theorem c23_total (sv : Nat) (inp : Bytes) :
    adapterDecode sv inp ≠ .panic ∧
    ∀ fs c, adapterDecode sv inp = .ok fs c → c ≤ inp.length ∧ fs.length ≤ c ∧ (c = 0 ↔ fs = []) := by
  unfold adapterDecode
  split
  · refine ⟨by simp, ?_⟩
    intro fs c h
    simp only [AllRes.ok.injEq] at h
    obtain ⟨rfl, rfl⟩ := h
    simp
  · refine ⟨decodeLoop_no_panic _ _ _, ?_⟩
    intro fs c h
    obtain ⟨h1, h2, h3⟩ := decodeLoop_bounds _ _ _ _ _ h
    refine ⟨h1, h2, ?_, h3⟩
    intro hc
    subst hc
    exact List.eq_nil_of_length_eq_zero (by omega)

example : adapterDecode 0 [0x13, 0xFF, 0xFF, 0xFF, 0xFF] = .err := by decide      -- oversize length
example : adapterDecode 3 [0x80, 0x70, 0x31, 0x05] = .ok [.pong {}, .ping {}] 2 := by decide
example : adapterDecode 6 [] = .ok [] 0 := by decide

/-! ## streams of frames -/

/-- **Stream concatenation**: decoding the concatenation of the encodings of any
    list of in-limit frames returns exactly those (normalised) frames, in order,
    and consumes the whole input. -/
theorem c23_stream (sv : Nat) (fs : List Frame) (h : ∀ f ∈ fs, WithinLimits (effVersion sv) f) :
    adapterDecode sv (encAll (effVersion sv) fs) =
      .ok (fs.map (norm (effVersion sv))) (encAll (effVersion sv) fs).length := by
  unfold adapterDecode
  split
  · rename_i hemp
    cases fs with
    | nil => simp [encAll]
    | cons f fs' =>
      exfalso
      have := encOf_pos _ f (h f (by simp))
      simp [encAll] at hemp
      rw [hemp.1] at this
      simp at this
  · have := decodeLoop_frames (effVersion sv) fs [] (encAll (effVersion sv) fs).length h
      (length_le_encAll _ fs h) (Or.inl rfl)
    simpa using this

/-- **No progress on a partial frame** (codec level): a strict prefix of an
    in-limit frame's encoding makes `DecodeFrame` answer "need more data". -/
theorem c23_no_progress_on_partial (v : Nat) (f : Frame) (hw : WithinLimits v f) (p q : Bytes)
    (hpq : encOf v f = p ++ q) (hq : q ≠ []) (hp : p ≠ []) : decodeFrame v p = .need := by
  rcases partial_stalls v f hw p q hpq hq with h | h
  · exact absurd h hp
  · exact h

/-- … and at adapter level: complete frames followed by a strict prefix of one more
    frame yield exactly the complete frames; the partial frame is neither reported
    nor consumed nor an error. -/
theorem c23_stream_partial (sv : Nat) (fs : List Frame) (f : Frame) (p q : Bytes)
    (h : ∀ g ∈ fs, WithinLimits (effVersion sv) g) (hw : WithinLimits (effVersion sv) f)
    (hpq : encOf (effVersion sv) f = p ++ q) (hq : q ≠ []) :
    adapterDecode sv (encAll (effVersion sv) fs ++ p) =
      .ok (fs.map (norm (effVersion sv))) (encAll (effVersion sv) fs).length := by
  have hst := partial_stalls _ f hw p q hpq hq
  unfold adapterDecode
  split
  · rename_i hemp
    simp at hemp
    cases fs with
    | nil => simp [encAll]
    | cons g fs' =>
      exfalso
      have := encOf_pos _ g (h g (by simp))
      simp [encAll] at hemp
      rw [hemp.1.1] at this
      simp at this
  · apply decodeLoop_frames _ fs p _ h _ hst
    have := length_le_encAll _ fs h
    simp; omega

/-- non-vacuity: a RECVACK cut after 5 of its 18 bytes behind a complete PING -/
example : adapterDecode 6 ([0x70] ++ [0x68, 16, 0, 0, 0]) = .ok [.ping {}] 1 := by decide


/-! ## arbitrary chunk splits (the gateway's inbound buffer) -/

/-- a partial head that already contains its whole remaining stream is empty -/
theorem partialHead_full (v : Nat) (q : Bytes) (h : List Frame) (hw : ∀ f ∈ h, WithinLimits v f)
    (hp : PartialHead v q h) (hq : q = encAll v h) : h = [] ∧ q = [] := by
  cases h with
  | nil => exact ⟨rfl, by simpa using hq⟩
  | cons f0 h' =>
    exfalso
    have hpos := encOf_pos v f0 (hw f0 (by simp))
    have hl := congrArg List.length hq
    simp only [encAll_cons, List.length_append] at hl
    rcases hp with rfl | ⟨f, fs3, q', e, he, hq'⟩
    · simp only [List.length_nil] at hl; omega
    · simp only [List.cons.injEq] at e
      obtain ⟨rfl, _⟩ := e
      have h2 := congrArg List.length he
      have h3 : 0 < q'.length := List.length_pos_iff.mpr hq'
      simp only [List.length_append] at h2
      omega

/-- **Split invariance.**  Deliver the concatenated encodings of any list of in-limit
    frames to the gateway in ANY chunking (any number of chunks, any sizes, empty
    chunks included): exactly the original frames are dispatched, in order, nothing
    is left in the buffer and the session is not closed. -/
theorem c23_split_invariant (sv : Nat) (fs : List Frame) (chunks : List Bytes)
    (h : ∀ f ∈ fs, WithinLimits (effVersion sv) f)
    (hcat : chunks.flatten = encAll (effVersion sv) fs) :
    feed sv chunks = { buf := [], out := fs.map (norm (effVersion sv)), closed := false, panicked := false } := by
  obtain ⟨g, hh, q, e1, e2, e3, e4⟩ :=
    feed_from sv chunks {} fs [] rfl (Or.inl rfl) h (by simp [hcat])
  have hwh : ∀ f ∈ hh, WithinLimits (effVersion sv) f := fun f hf => h f (by simp [e1, hf])
  obtain ⟨rfl, rfl⟩ := partialHead_full _ q hh hwh e4 (by simpa using e3)
  simp only [List.append_nil] at e1
  subst e1
  simpa [feed] using e2

/-- **Split invariance with an incomplete last frame.**  If the delivered bytes end
    in a strict prefix `p` of one more frame, every chunking dispatches exactly the
    complete frames and keeps exactly `p` buffered: no progress on the partial
    frame, no error, no matter where the chunk boundaries fall. -/
theorem c23_split_partial (sv : Nat) (fs : List Frame) (f : Frame) (p p' : Bytes) (chunks : List Bytes)
    (h : ∀ g ∈ fs, WithinLimits (effVersion sv) g) (hw : WithinLimits (effVersion sv) f)
    (hpp : encOf (effVersion sv) f = p ++ p') (hp' : p' ≠ [])
    (hcat : chunks.flatten = encAll (effVersion sv) fs ++ p) :
    feed sv chunks = { buf := p, out := fs.map (norm (effVersion sv)), closed := false, panicked := false } := by
  have hall : ∀ g ∈ fs ++ [f], WithinLimits (effVersion sv) g := by
    intro g hg
    simp only [List.mem_append, List.mem_singleton] at hg
    rcases hg with hg | rfl
    · exact h g hg
    · exact hw
  obtain ⟨g, hh, q, e1, e2, e3, e4⟩ :=
    feed_from sv chunks {} (fs ++ [f]) p' rfl (Or.inl rfl) hall
      (by simp [hcat, encAll_append, hpp, List.append_assoc])
  -- the remaining frames `hh` are not empty (p' is still missing) …
  have hne : hh ≠ [] := by
    rintro rfl
    simp only [encAll_nil, List.append_eq_nil_iff] at e3
    exact hp' e3.2
  -- … so `g` is a prefix of `fs`
  obtain ⟨d, rfl, rfl⟩ : ∃ d, fs = g ++ d ∧ hh = d ++ [f] := by
    rw [List.append_eq_append_iff] at e1
    rcases e1 with ⟨a', h1, h2⟩ | ⟨c', h1, h2⟩
    · have hl := congrArg List.length h2
      have : 0 < hh.length := List.length_pos_iff.mpr hne
      simp only [List.length_append, List.length_cons, List.length_nil] at hl
      have ha : a' = [] := List.eq_nil_of_length_eq_zero (by omega)
      subst ha
      exact ⟨[], by simpa using h1.symm, by simpa using h2.symm⟩
    · exact ⟨c', h1, h2⟩
  have hq : q = encAll (effVersion sv) d ++ p := by
    rw [encAll_append, encAll_cons, encAll_nil, List.append_nil, hpp, ← List.append_assoc] at e3
    exact List.append_cancel_right e3
  -- the buffered tail is a partial head, so no complete frame can be left in it
  have hd : d = [] := by
    cases d with
    | nil => rfl
    | cons f0 d' =>
      exfalso
      have hpos := encOf_pos _ f0 (h f0 (by simp))
      have hl := congrArg List.length hq
      simp only [encAll_cons, List.length_append] at hl
      rcases e4 with rfl | ⟨f1, fs3, q', e, he, hq'⟩
      · simp only [List.length_nil] at hl; omega
      · simp only [List.cons_append, List.cons.injEq] at e
        obtain ⟨rfl, _⟩ := e
        have h2 := congrArg List.length he
        have h3 : 0 < q'.length := List.length_pos_iff.mpr hq'
        simp only [List.length_append] at h2
        omega
  subst hd
  simp only [encAll_nil, List.nil_append] at hq
  subst hq
  simpa [feed] using e2

/-- Corollary in the property's own words: any two chunkings of the same valid stream
    leave the gateway in the same state. -/
theorem c23_chunking_irrelevant (sv : Nat) (fs : List Frame) (c1 c2 : List Bytes)
    (h : ∀ f ∈ fs, WithinLimits (effVersion sv) f)
    (h1 : c1.flatten = encAll (effVersion sv) fs) (h2 : c2.flatten = encAll (effVersion sv) fs) :
    feed sv c1 = feed sv c2 := by
  rw [c23_split_invariant sv fs c1 h h1, c23_split_invariant sv fs c2 h h2]

/-- non-vacuity: PING + RECVACK(v6) delivered as 3 chunks cutting the header, the varint and the body -/
example : (feed 6 [[0x70, 0x68], [16, 0, 0, 0], [0, 0, 0, 0, 9, 0, 0, 0, 0, 0, 0, 0, 7]]).out =
    [.ping {}, .recvack { dup := true } { messageID := 9, messageSeq := 7 }] := by decide

end WK.C23

import WK.Model.C27_Exchange
import WK.Theorems.C27
/-
  C27 — the replication exchange batch envelope and the probe request item
  (pkg/channel/replication/codec.go), fully modelled in WK/Model/C27_Exchange.lean
  and tied to DecodeExchangeBatch / EncodeExchangeBatch by the `xb` ops.

  Round-trip (RT) and truncation (TR) laws are proved once per primitive and
  composed field by field; the registered statements are at the end.
-/
namespace WK.C27

/-- round-trip law of a parser w.r.t. an encoder on the values satisfying `ok` -/
def RT {α : Type} (p : P α) (e : α → Bytes) (ok : α → Prop) : Prop :=
  ∀ a rest, ok a → p (e a ++ rest) = some (a, (e a).length)

/-- truncation law: every strict prefix of an encoding is rejected -/
def TR {α : Type} (p : P α) (e : α → Bytes) (ok : α → Prop) : Prop :=
  ∀ a j, ok a → j < (e a).length → p ((e a).take j) = none

theorem andThen_RT {α β : Type} {p : P α} {q : P β} {e1 : α → Bytes} {e2 : β → Bytes} {ok1 : α → Prop} {ok2 : β → Prop}
    (h1 : RT p e1 ok1) (h2 : RT q e2 ok2) :
    RT (p.andThen q) (fun x => e1 x.1 ++ e2 x.2) (fun x => ok1 x.1 ∧ ok2 x.2) := by
  intro ⟨a, b⟩ rest ⟨ha, hb⟩
  simp only [P.andThen]
  rw [List.append_assoc, h1 a _ ha]
  simp only [List.drop_left]
  rw [h2 b rest hb]
  simp [List.length_append]

theorem andThen_TR {α β : Type} {p : P α} {q : P β} {e1 : α → Bytes} {e2 : β → Bytes} {ok1 : α → Prop} {ok2 : β → Prop}
    (h1 : RT p e1 ok1) (t1 : TR p e1 ok1) (t2 : TR q e2 ok2) :
    TR (p.andThen q) (fun x => e1 x.1 ++ e2 x.2) (fun x => ok1 x.1 ∧ ok2 x.2) := by
  intro ⟨a, b⟩ j ⟨ha, hb⟩ hj
  simp only [List.length_append] at hj
  simp only [P.andThen]
  by_cases hlt : j < (e1 a).length
  · rw [List.take_append_of_le_length (by omega), t1 a j ha hlt]
  · have : (e1 a ++ e2 b).take j = e1 a ++ (e2 b).take (j - (e1 a).length) := by
      rw [List.take_append, List.take_of_length_le (by omega)]
    rw [this, h1 a _ ha]
    simp only [List.drop_left]
    rw [t2 b _ hb (by omega)]

theorem guard_RT {α : Type} {p : P α} {e : α → Bytes} {ok : α → Prop} (g : α → Bool) (h : RT p e ok) :
    RT (p.guard g) e (fun a => ok a ∧ g a = true) := by
  intro a rest ⟨ha, hg⟩
  simp [P.guard, h a rest ha, hg]

theorem guard_TR {α : Type} {p : P α} {e : α → Bytes} {ok : α → Prop} (g : α → Bool) (h : TR p e ok) :
    TR (p.guard g) e (fun a => ok a ∧ g a = true) := by
  intro a j ⟨ha, _⟩ hj
  simp [P.guard, h a j ha hj]

theorem map_RT {α β : Type} {p : P α} {e : α → Bytes} {ok : α → Prop} (f : α → β) (g : β → α)
    (hfg : ∀ b, f (g b) = b) (h : RT p e ok) : RT (p.map f) (fun b => e (g b)) (fun b => ok (g b)) := by
  intro b rest hb
  simp [P.map, h (g b) rest hb, hfg]

theorem map_TR {α β : Type} {p : P α} {e : α → Bytes} {ok : α → Prop} (f : α → β) (g : β → α)
    (h : TR p e ok) : TR (p.map f) (fun b => e (g b)) (fun b => ok (g b)) := by
  intro b j hb hj
  simp [P.map, h (g b) j hb hj]

theorem rep_RT {α : Type} {p : P α} {e : α → Bytes} {ok : α → Prop} (h : RT p e ok) :
    ∀ (l : List α) rest, (∀ a ∈ l, ok a) → P.rep p l.length (l.flatMap e ++ rest) = some (l, (l.flatMap e).length) := by
  intro l
  induction l with
  | nil => intro rest _; simp [P.rep]
  | cons a as ih =>
    intro rest hall
    simp only [List.length_cons, P.rep, List.flatMap_cons, List.append_assoc]
    rw [h a _ (hall a (by simp))]
    simp only [List.drop_left]
    rw [ih rest (fun x hx => hall x (by simp [hx]))]
    simp [List.length_append]

theorem rep_TR {α : Type} {p : P α} {e : α → Bytes} {ok : α → Prop} (h : RT p e ok) (t : TR p e ok) :
    ∀ (l : List α) j, (∀ a ∈ l, ok a) → j < (l.flatMap e).length → P.rep p l.length ((l.flatMap e).take j) = none := by
  intro l
  induction l with
  | nil => intro j _ hj; simp at hj
  | cons a as ih =>
    intro j hall hj
    simp only [List.flatMap_cons, List.length_append] at hj
    simp only [List.length_cons, P.rep, List.flatMap_cons]
    by_cases hlt : j < (e a).length
    · rw [List.take_append_of_le_length (by omega), t a j (hall a (by simp)) hlt]
    · have : (e a ++ as.flatMap e).take j = e a ++ (as.flatMap e).take (j - (e a).length) := by
        rw [List.take_append, List.take_of_length_le (by omega)]
      rw [this, h a _ (hall a (by simp))]
      simp only [List.drop_left]
      rw [ih _ (fun x hx => hall x (by simp [hx])) (by omega)]

/-! ### leaves -/

theorem uvarint_RT : RT pUvarint putUvarint (fun x => x < 2 ^ 64) :=
  fun a rest h => c27_uvarint_roundtrip a rest h

theorem uvarint_TR : TR pUvarint putUvarint (fun x => x < 2 ^ 64) :=
  fun a j _ hj => c27_uvarint_truncation a j hj

theorem byte_RT : RT pByte (fun b => [b]) (fun _ => True) := by
  intro a rest _; simp [pByte, cByte]

theorem byte_TR : TR pByte (fun b => [b]) (fun _ => True) := by
  intro a j _ hj
  have : j = 0 := by simpa using hj
  subst this; simp [pByte, cByte]

theorem bytes_RT : RT pBytes putBytes (fun b => b.length ≤ maxExchangeBatchBytes) :=
  fun a rest h => c27_bytes_roundtrip a rest h

theorem bytes_TR : TR pBytes putBytes (fun b => b.length ≤ maxExchangeBatchBytes) := by
  intro a j h hj
  exact c27_bytes_truncation a j (by unfold maxExchangeBatchBytes at h; omega) hj

/-- **slicecount round trip** for every count 0..maximum, and the nil slice -/
theorem c27_slicecount_roundtrip (count maximum : Nat) (rest : Bytes) (hc : count ≤ maximum) (hm : maximum ≤ maxInt) :
    cSliceCount (putSliceCount count false ++ rest) maximum = some (count, false, (putSliceCount count false).length) ∧
    cSliceCount (putSliceCount count true ++ rest) maximum = some (0, true, (putSliceCount count true).length) := by
  unfold maxInt at hm
  constructor
  · unfold cSliceCount putSliceCount
    simp only [Bool.false_eq_true, if_false]
    rw [c27_uvarint_roundtrip (count + 1) rest (by omega)]
    have h1 : ¬ (count + 1 = 0) := by omega
    have h2 : ¬ (count > maximum ∨ count > maxInt) := by unfold maxInt; omega
    simp only [h1, if_false, Nat.add_sub_cancel, h2]
  · unfold cSliceCount putSliceCount
    simp only [if_true]
    rw [c27_uvarint_roundtrip 0 rest (by omega)]
    simp

/-- a count above the declared maximum is refused -/
theorem c27_slicecount_rejects_above (count maximum : Nat) (rest : Bytes) (hc : maximum < count) (h64 : count + 1 < 2 ^ 64) :
    cSliceCount (putSliceCount count false ++ rest) maximum = none := by
  unfold cSliceCount putSliceCount
  simp only [Bool.false_eq_true, if_false]
  rw [c27_uvarint_roundtrip (count + 1) rest h64]
  have h1 : ¬ (count + 1 = 0) := by omega
  have h2 : (count + 1 - 1 > maximum ∨ count + 1 - 1 > maxInt) := by left; omega
  simp only [h1, h2, if_false, if_true]

/-- **count round trip** for every count 0..maximum, refusal above -/
theorem c27_count_roundtrip (count maximum : Nat) (rest : Bytes) (h64 : count < 2 ^ 64) :
    (count ≤ maximum → count ≤ maxInt → cCount (putUvarint count ++ rest) maximum = some (count, (putUvarint count).length)) ∧
    (maximum < count → cCount (putUvarint count ++ rest) maximum = none) := by
  unfold cCount
  rw [c27_uvarint_roundtrip count rest h64]
  constructor
  · intro h1 h2
    have : ¬ (count > maximum ∨ count > maxInt) := by omega
    simp only [this, if_false]
  · intro h1
    have : (count > maximum ∨ count > maxInt) := by left; omega
    simp only [this, if_true]

def idxOK (maximum : Nat) : Option (List Nat) → Prop
  | none => True
  | some l => l.length ≤ maximum ∧ ∀ x ∈ l, x < 2 ^ 64

theorem slice_RT (maximum : Nat) (hm : maximum ≤ maxInt) :
    RT (pUvarint.slice maximum) encIndexes (idxOK maximum) := by
  intro a rest ha
  cases a with
  | none =>
    simp only [P.slice, encIndexes]
    rw [(c27_slicecount_roundtrip 0 maximum rest (by omega) hm).2]
  | some l =>
    obtain ⟨hl, hx⟩ := ha
    simp only [P.slice, encIndexes, List.append_assoc]
    rw [(c27_slicecount_roundtrip l.length maximum _ hl hm).1]
    simp only [List.drop_left]
    rw [rep_RT uvarint_RT l rest hx]
    simp [List.length_append]

theorem slice_TR (maximum : Nat) (hm : maximum ≤ maxInt) :
    TR (pUvarint.slice maximum) encIndexes (idxOK maximum) := by
  intro a j ha hj
  cases a with
  | none =>
    simp only [P.slice, encIndexes, putSliceCount, if_true] at hj ⊢
    unfold cSliceCount
    rw [c27_uvarint_truncation 0 j hj]
  | some l =>
    obtain ⟨hl, hx⟩ := ha
    simp only [encIndexes, List.length_append] at hj
    simp only [P.slice, encIndexes]
    by_cases hlt : j < (putSliceCount l.length false).length
    · rw [List.take_append_of_le_length (by omega)]
      unfold cSliceCount putSliceCount at *
      simp only [Bool.false_eq_true, if_false] at hlt ⊢
      rw [c27_uvarint_truncation _ j hlt]
    · have : (putSliceCount l.length false ++ l.flatMap putUvarint).take j
          = putSliceCount l.length false ++ (l.flatMap putUvarint).take (j - (putSliceCount l.length false).length) := by
        rw [List.take_append, List.take_of_length_le (by omega)]
      rw [this, (c27_slicecount_roundtrip l.length maximum _ hl hm).1]
      simp only [List.drop_left]
      rw [rep_TR uvarint_RT uvarint_TR l _ hx (by omega)]

/-! ### compositions: probe request, item, batch -/

theorem RT_of {α : Type} {p : P α} {e e' : α → Bytes} {ok ok' : α → Prop} (h : RT p e ok)
    (he : ∀ a, e' a = e a) (hok : ∀ a, ok' a → ok a) : RT p e' ok' := by
  intro a rest ha; rw [he a]; exact h a rest (hok a ha)

theorem TR_of {α : Type} {p : P α} {e e' : α → Bytes} {ok ok' : α → Prop} (h : TR p e ok)
    (he : ∀ a, e' a = e a) (hok : ∀ a, ok' a → ok a) : TR p e' ok' := by
  intro a j ha hj; rw [he a] at hj ⊢; exact h a j (hok a ha) hj

/-- the Go field types / the frame bound -/
def ProbeReq.wf (r : ProbeReq) : Prop :=
  r.key.length ≤ maxExchangeBatchBytes ∧ r.cid.length ≤ maxExchangeBatchBytes ∧ r.leader < 2 ^ 64 ∧ r.follower < 2 ^ 64 ∧
  idxOK maxProbeIndexes r.indexes

def unProbe (r : ProbeReq) : Bytes × Bytes × UInt8 × Nat × Nat × Option (List Nat) :=
  (r.key, r.cid, r.typ, r.leader, r.follower, r.indexes)

theorem maxProbe_le : maxProbeIndexes ≤ maxInt := by unfold maxProbeIndexes maxInt; omega

theorem probeRaw_RT : RT pProbeRaw encProbe ProbeReq.wf := by
  have h := map_RT (fun x => (⟨x.1, x.2.1, x.2.2.1, x.2.2.2.1, x.2.2.2.2.1, x.2.2.2.2.2⟩ : ProbeReq)) unProbe
    (fun b => by cases b; rfl)
    (andThen_RT bytes_RT (andThen_RT bytes_RT (andThen_RT byte_RT (andThen_RT uvarint_RT
      (andThen_RT uvarint_RT (slice_RT maxProbeIndexes maxProbe_le))))))
  exact RT_of h (fun a => rfl) (fun a ⟨h1, h2, h3, h4, h5⟩ => ⟨h1, h2, trivial, h3, h4, h5⟩)

theorem probeRaw_TR : TR pProbeRaw encProbe ProbeReq.wf := by
  have h := map_TR (fun x => (⟨x.1, x.2.1, x.2.2.1, x.2.2.2.1, x.2.2.2.2.1, x.2.2.2.2.2⟩ : ProbeReq)) unProbe
    (andThen_TR bytes_RT bytes_TR (andThen_TR bytes_RT bytes_TR (andThen_TR byte_RT byte_TR (andThen_TR uvarint_RT uvarint_TR
      (andThen_TR uvarint_RT uvarint_TR (slice_TR maxProbeIndexes maxProbe_le))))))
  exact TR_of h (fun a => rfl) (fun a ⟨h1, h2, h3, h4, h5⟩ => ⟨h1, h2, trivial, h3, h4, h5⟩)

def probeOK (r : ProbeReq) : Prop := r.wf ∧ r.valid = true

/-- **probe request round trip** (appendProbeRequest / probeRequest + Valid) -/
theorem c27_probe_roundtrip (r : ProbeReq) (rest : Bytes) (h : probeOK r) :
    pProbe (encProbe r ++ rest) = some (r, (encProbe r).length) :=
  guard_RT ProbeReq.valid probeRaw_RT r rest h

/-- **probe request: every strict prefix is rejected** -/
theorem c27_probe_truncation (r : ProbeReq) (j : Nat) (h : probeOK r) (hj : j < (encProbe r).length) :
    pProbe ((encProbe r).take j) = none :=
  guard_TR ProbeReq.valid probeRaw_TR r j h hj

def itemOK (it : XItem) : Prop := it.requestID < 2 ^ 64 ∧ it.requestID ≠ 0 ∧ probeOK it.probe

theorem item_RT : RT pItem encItem itemOK := by
  have h := map_RT (fun x : Nat × UInt8 × ProbeReq => (⟨x.1, x.2.2⟩ : XItem)) (fun it => (it.requestID, kindProbe, it.probe))
    (fun b => by cases b; rfl)
    (andThen_RT (guard_RT (· != 0) uvarint_RT) (andThen_RT (guard_RT (· == kindProbe) byte_RT)
      (guard_RT ProbeReq.valid probeRaw_RT)))
  exact RT_of h (fun a => rfl) (fun a ⟨h1, h2, h3⟩ => ⟨⟨h1, by simpa using h2⟩, ⟨trivial, by simp⟩, h3⟩)

theorem item_TR : TR pItem encItem itemOK := by
  have h := map_TR (fun x : Nat × UInt8 × ProbeReq => (⟨x.1, x.2.2⟩ : XItem)) (fun it => (it.requestID, kindProbe, it.probe))
    (andThen_TR (guard_RT (· != 0) uvarint_RT) (guard_TR (· != 0) uvarint_TR)
      (andThen_TR (guard_RT (· == kindProbe) byte_RT) (guard_TR (· == kindProbe) byte_TR) (guard_TR ProbeReq.valid probeRaw_TR)))
  exact TR_of h (fun a => rfl) (fun a ⟨h1, h2, h3⟩ => ⟨⟨h1, by simpa using h2⟩, ⟨trivial, by simp⟩, h3⟩)

def encItems (l : List XItem) : Bytes := putUvarint l.length ++ l.flatMap encItem

def itemsOK (l : List XItem) : Prop := l.length ≠ 0 ∧ l.length ≤ maxBatchItems ∧ ∀ it ∈ l, itemOK it

theorem items_RT : RT pItems encItems itemsOK := by
  intro l rest ⟨h0, hmax, hall⟩
  have h64 : l.length < 2 ^ 64 := by unfold maxBatchItems at hmax; omega
  have hmi : l.length ≤ maxInt := by unfold maxBatchItems at hmax; unfold maxInt; omega
  simp only [pItems, encItems, List.append_assoc]
  rw [(c27_count_roundtrip l.length maxBatchItems _ h64).1 hmax hmi]
  simp only [h0, if_false, List.drop_left]
  rw [rep_RT item_RT l rest hall]
  simp [List.length_append]

theorem items_TR : TR pItems encItems itemsOK := by
  intro l j ⟨h0, hmax, hall⟩ hj
  have h64 : l.length < 2 ^ 64 := by unfold maxBatchItems at hmax; omega
  have hmi : l.length ≤ maxInt := by unfold maxBatchItems at hmax; unfold maxInt; omega
  simp only [encItems, List.length_append] at hj
  simp only [pItems, encItems]
  by_cases hlt : j < (putUvarint l.length).length
  · rw [List.take_append_of_le_length (by omega)]
    unfold cCount
    rw [c27_uvarint_truncation _ j hlt]
  · have : (putUvarint l.length ++ l.flatMap encItem).take j
        = putUvarint l.length ++ (l.flatMap encItem).take (j - (putUvarint l.length).length) := by
      rw [List.take_append, List.take_of_length_le (by omega)]
    rw [this, (c27_count_roundtrip l.length maxBatchItems _ h64).1 hmax hmi]
    simp only [h0, if_false, List.drop_left]
    rw [rep_TR item_RT item_TR l _ hall (by omega)]

def batchOK (b : XBatch) : Prop := b.priority = 0 ∧ itemsOK b.items

theorem batch_enc_eq (b : XBatch) : encBatchBytes b = putUvarint exchangeVersion ++ ([b.priority] ++ encItems b.items) := rfl

theorem batch_RT : RT pBatch encBatchBytes batchOK := by
  have h := map_RT (fun x : Nat × UInt8 × List XItem => (⟨x.2.1, x.2.2⟩ : XBatch)) (fun b => (exchangeVersion, b.priority, b.items))
    (fun b => by cases b; rfl)
    (andThen_RT (guard_RT (· == exchangeVersion) uvarint_RT) (andThen_RT (guard_RT (· == (0 : UInt8)) byte_RT) items_RT))
  exact RT_of h (fun a => rfl) (fun a ⟨h1, h2⟩ =>
    ⟨⟨by unfold exchangeVersion; omega, by simp⟩, ⟨trivial, by simp [h1]⟩, h2⟩)

theorem batch_TR : TR pBatch encBatchBytes batchOK := by
  have h := map_TR (fun x : Nat × UInt8 × List XItem => (⟨x.2.1, x.2.2⟩ : XBatch)) (fun b => (exchangeVersion, b.priority, b.items))
    (andThen_TR (guard_RT (· == exchangeVersion) uvarint_RT) (guard_TR (· == exchangeVersion) uvarint_TR)
      (andThen_TR (guard_RT (· == (0 : UInt8)) byte_RT) (guard_TR (· == (0 : UInt8)) byte_TR) items_TR))
  exact TR_of h (fun a => rfl) (fun a ⟨h1, h2⟩ =>
    ⟨⟨by unfold exchangeVersion; omega, by simp⟩, ⟨trivial, by simp [h1]⟩, h2⟩)

/-! ### the registered statements about encBatch / decBatch -/

def XBatch.wf (b : XBatch) : Prop := ∀ it ∈ b.items, it.probe.wf

theorem valid_batchOK (b : XBatch) (hv : b.valid = true) (hw : b.wf) : batchOK b := by
  unfold XBatch.valid at hv
  simp only [Bool.and_eq_true, beq_iff_eq, decide_eq_true_eq, List.all_eq_true, bne_iff_ne] at hv
  obtain ⟨⟨⟨hp, h0⟩, hmax⟩, hall⟩ := hv
  refine ⟨hp, h0, hmax, fun it hit => ?_⟩
  obtain ⟨⟨hid, h64⟩, hval⟩ := hall it hit
  exact ⟨h64, hid, hw it hit, hval⟩

theorem encBatch_some (b : XBatch) (bytes : Bytes) (he : encBatch b = some bytes) :
    b.valid = true ∧ bytes = encBatchBytes b ∧ bytes.length ≤ maxExchangeBatchBytes := by
  unfold encBatch at he
  split at he
  · rename_i h
    simp only [Bool.and_eq_true, decide_eq_true_eq] at h
    simp only [Option.some.injEq] at he
    subst he; exact ⟨h.1, rfl, h.2⟩
  · cases he

theorem encBatchBytes_pos (b : XBatch) : 0 < (encBatchBytes b).length := by
  rw [batch_enc_eq]; simp only [List.length_append, List.length_cons]; omega

/-- **exchange batch round trip**: what EncodeExchangeBatch emits for a (foreground, probe-item)
    batch, DecodeExchangeBatch reads back as the same batch -/
theorem c27_batch_roundtrip (b : XBatch) (bytes : Bytes) (hw : b.wf) (he : encBatch b = some bytes) :
    decBatch bytes = some b := by
  obtain ⟨hv, rfl, hlen⟩ := encBatch_some b bytes he
  have hok := valid_batchOK b hv hw
  have hpos := encBatchBytes_pos b
  have hrt := batch_RT b [] hok
  simp only [List.append_nil] at hrt
  unfold decBatch
  have hc : ¬ ((encBatchBytes b).length = 0 ∨ (encBatchBytes b).length > maxExchangeBatchBytes) := by omega
  rw [if_neg hc]
  simp [P.eof, hrt]

/-- **exchange batch: every strict prefix of an encoding is rejected** -/
theorem c27_batch_truncation (b : XBatch) (bytes : Bytes) (k : Nat) (hw : b.wf) (he : encBatch b = some bytes)
    (hk : k < bytes.length) : decBatch (bytes.take k) = none := by
  obtain ⟨hv, rfl, hlen⟩ := encBatch_some b bytes he
  have hok := valid_batchOK b hv hw
  unfold decBatch
  split
  · rfl
  · simp [P.eof, batch_TR b k hok hk]

/-- **exchange batch: trailing bytes after a complete encoding are rejected** -/
theorem c27_batch_trailing_rejected (b : XBatch) (bytes rest : Bytes) (hw : b.wf) (he : encBatch b = some bytes)
    (hr : rest ≠ []) : decBatch (bytes ++ rest) = none := by
  obtain ⟨hv, rfl, hlen⟩ := encBatch_some b bytes he
  have hok := valid_batchOK b hv hw
  unfold decBatch
  split
  · rfl
  · have hne : ¬ ((encBatchBytes b).length = (encBatchBytes b ++ rest).length) := by
      have : 0 < rest.length := List.length_pos_iff.mpr hr
      simp only [List.length_append]; omega
    simp [P.eof, batch_RT b rest hok, hr]

theorem rep_inv {α : Type} (p : P α) (Q : α → Prop) (hQ : ∀ d a n, p d = some (a, n) → Q a) :
    ∀ k d l m, P.rep p k d = some (l, m) → l.length = k ∧ ∀ a ∈ l, Q a := by
  intro k
  induction k with
  | zero => intro d l m h; simp [P.rep] at h; obtain ⟨rfl, _⟩ := h; simp
  | succ k ih =>
    intro d l m h
    simp only [P.rep] at h
    split at h
    · cases h
    · rename_i a n hp
      split at h
      · cases h
      · rename_i as m' hr
        simp only [Option.some.injEq, Prod.mk.injEq] at h
        obtain ⟨rfl, _⟩ := h
        obtain ⟨hl, hall⟩ := ih _ _ _ hr
        refine ⟨by simp [hl], fun x hx => ?_⟩
        rcases List.mem_cons.mp hx with rfl | hx
        · exact hQ _ _ _ hp
        · exact hall x hx

theorem pItem_inv (d : Bytes) (it : XItem) (n : Nat) (h : pItem d = some (it, n)) :
    it.requestID ≠ 0 ∧ it.probe.valid = true := by
  simp only [pItem, P.map, P.andThen, P.guard, pProbe] at h
  split at h
  · rename_i x n1 hx
    split at hx
    · cases hx
    · rename_i a k ha
      split at ha
      · rename_i a1 n2 hu
        split at ha
        · rename_i hne
          simp only [Option.some.injEq, Prod.mk.injEq] at ha
          obtain ⟨rfl, rfl⟩ := ha
          split at hx
          · cases hx
          · rename_i y m hy
            split at hy
            · cases hy
            · rename_i kb n3 hkb
              split at hy
              · cases hy
              · rename_i pr n4 hpr
                simp only [Option.some.injEq, Prod.mk.injEq] at hy hx
                obtain ⟨rfl, rfl⟩ := hy
                obtain ⟨rfl, rfl⟩ := hx
                simp only [Option.some.injEq, Prod.mk.injEq] at h
                obtain ⟨rfl, _⟩ := h
                refine ⟨by simpa using hne, ?_⟩
                split at hpr
                · rename_i r0 n5 hr0
                  split at hpr
                  · rename_i hval
                    simp only [Option.some.injEq, Prod.mk.injEq] at hpr
                    obtain ⟨rfl, _⟩ := hpr
                    exact hval
                  · cases hpr
                · cases hpr
        · cases ha
      · cases ha
  · cases h

theorem pItems_inv (d : Bytes) (l : List XItem) (n : Nat) (h : pItems d = some (l, n)) :
    l.length ≠ 0 ∧ l.length ≤ maxBatchItems ∧ ∀ it ∈ l, it.requestID ≠ 0 ∧ it.probe.valid = true := by
  simp only [pItems] at h
  split at h
  · cases h
  · rename_i cnt m hc
    split at h
    · cases h
    · rename_i h0
      split at h
      · cases h
      · rename_i its k hr
        simp only [Option.some.injEq, Prod.mk.injEq] at h
        obtain ⟨rfl, _⟩ := h
        obtain ⟨hl, hall⟩ := rep_inv pItem (fun it => it.requestID ≠ 0 ∧ it.probe.valid = true) pItem_inv _ _ _ _ hr
        have hmax := (c27_count_bounded d maxBatchItems cnt m false).1 hc
        exact ⟨by omega, by omega, hall⟩

/-- **exchange batch: bounded_alloc** — an accepted batch has 1..256 items, every item a non-zero
    request id and a request that passes `Valid()` (so at most 256 probe indexes), whatever the input -/
theorem c27_batch_bounded (d : Bytes) (b : XBatch) (h : decBatch d = some b) :
    d.length ≤ maxExchangeBatchBytes ∧ b.items.length ≠ 0 ∧ b.items.length ≤ maxBatchItems ∧
    ∀ it ∈ b.items, it.requestID ≠ 0 ∧ it.probe.valid = true ∧
      (∀ l, it.probe.indexes = some l → l.length ≤ maxProbeIndexes) := by
  unfold decBatch at h
  split at h
  · cases h
  · rename_i hlen
    simp only [P.eof, pBatch, P.map, P.andThen] at h
    split at h
    · rename_i x n hx
      split at hx
      · rename_i y m hy
        split at hy
        · cases hy
        · rename_i v n1 hv
          split at hy
          · cases hy
          · rename_i z n2 hz
            split at hz
            · cases hz
            · rename_i pb n3 hpb
              split at hz
              · cases hz
              · rename_i its n4 hits
                simp only [Option.some.injEq, Prod.mk.injEq] at hz hy hx
                obtain ⟨rfl, rfl⟩ := hz
                obtain ⟨rfl, rfl⟩ := hy
                obtain ⟨rfl, rfl⟩ := hx
                split at h
                · simp only [Option.some.injEq] at h
                  subst h
                  obtain ⟨h0, hmax, hall⟩ := pItems_inv _ _ _ hits
                  refine ⟨by omega, h0, hmax, fun it hit => ?_⟩
                  obtain ⟨hid, hval⟩ := hall it hit
                  refine ⟨hid, hval, fun l hl => ?_⟩
                  unfold ProbeReq.valid at hval
                  rw [hl] at hval
                  simp only [Bool.and_eq_true, decide_eq_true_eq] at hval
                  exact hval.2.1.1
                · cases h
      · cases hx
    · cases h

-- non-vacuity: a two-item foreground batch, the second with exactly 3 indexes
def demoBatch : XBatch :=
  ⟨0, [⟨7, ⟨[1], [2], 9, 1, 2, none⟩⟩, ⟨8, ⟨[3, 4], [5], 0, 10, 11, some [5, 6, 7]⟩⟩]⟩

example : demoBatch.valid = true := by decide
example : demoBatch.wf := by
  intro it hit
  simp [demoBatch] at hit
  rcases hit with rfl | rfl <;> refine ⟨?_, ?_, ?_, ?_, ?_⟩ <;> simp [maxExchangeBatchBytes, idxOK, maxProbeIndexes]
example : probeOK ⟨[1], [2], 9, 1, 2, some [4, 5]⟩ := by
  refine ⟨⟨?_, ?_, ?_, ?_, ?_⟩, by decide⟩ <;> simp [maxExchangeBatchBytes, idxOK, maxProbeIndexes]
example : cSliceCount (putSliceCount 256 false) 256 = some (256, false, (putSliceCount 256 false).length) := by
  have := (c27_slicecount_roundtrip 256 256 [] (by omega) (by unfold maxInt; omega)).1
  simpa using this
example : cSliceCount (putSliceCount 257 false) 256 = none := by
  have := c27_slicecount_rejects_above 257 256 [] (by omega) (by omega)
  simpa using this
example : decBatch [3, 1, 1, 7, 2] = none := by decide

/-! ### encoder / decoder symmetry -/

theorem guard_inv {α : Type} (p : P α) (g : α → Bool) (d : Bytes) (a : α) (n : Nat)
    (h : p.guard g d = some (a, n)) : g a = true := by
  simp only [P.guard] at h
  split at h
  · split at h
    · rename_i hg; simp only [Option.some.injEq, Prod.mk.injEq] at h; obtain ⟨rfl, _⟩ := h; exact hg
    · cases h
  · cases h

theorem decBatch_priority (d : Bytes) (b : XBatch) (h : decBatch d = some b) : b.priority = 0 := by
  unfold decBatch at h
  split at h
  · cases h
  · simp only [P.eof, pBatch, P.map, P.andThen] at h
    split at h
    · rename_i x n hx
      split at hx
      · rename_i y m hy
        split at hy
        · cases hy
        · rename_i v n1 hv
          split at hy
          · cases hy
          · rename_i z n2 hz
            split at hz
            · cases hz
            · rename_i pb n3 hpb
              split at hz
              · cases hz
              · rename_i its n4 hits
                simp only [Option.some.injEq, Prod.mk.injEq] at hz hy hx
                obtain ⟨rfl, rfl⟩ := hz
                obtain ⟨rfl, rfl⟩ := hy
                obtain ⟨rfl, rfl⟩ := hx
                split at h
                · simp only [Option.some.injEq] at h
                  subst h
                  have := guard_inv pByte (· == (0 : UInt8)) _ _ _ hpb
                  simpa using this
                · cases h
      · cases hx
    · cases h

/-- **encode/decode symmetry** of the exchange batch envelope (probe items):
    (1) whatever the encoder emits the decoder accepts, as the same batch;
    (2) hence the encoder never emits a frame the decoder would refuse;
    (3) conversely whatever the decoder accepts passes every per-batch and per-item check the
        encoder applies (foreground priority, 1..256 items, non-zero request ids, `Valid()` probe
        requests with at most 256 indexes) and is within the 4 MiB frame bound. -/
theorem c27_encode_decode_symmetry :
    (∀ (b : XBatch) (bytes : Bytes), b.wf → encBatch b = some bytes → decBatch bytes = some b) ∧
    (∀ (b : XBatch) (bytes : Bytes), b.wf → decBatch bytes = none → encBatch b ≠ some bytes) ∧
    (∀ (d : Bytes) (b : XBatch), decBatch d = some b →
      b.priority = 0 ∧ b.items.length ≠ 0 ∧ b.items.length ≤ maxBatchItems ∧ d.length ≤ maxExchangeBatchBytes ∧
      ∀ it ∈ b.items, it.requestID ≠ 0 ∧ it.probe.valid = true) := by
  refine ⟨fun b bytes hw he => c27_batch_roundtrip b bytes hw he, ?_, ?_⟩
  · intro b bytes hw hd he
    rw [c27_batch_roundtrip b bytes hw he] at hd
    cases hd
  · intro d b h
    obtain ⟨h1, h2, h3, h4⟩ := c27_batch_bounded d b h
    exact ⟨decBatch_priority d b h, h2, h3, h1, fun it hit => ⟨(h4 it hit).1, (h4 it hit).2.1⟩⟩

example : decBatch [3, 1, 1, 7, 2] = none ∧ encBatch demoBatch ≠ some [3, 1, 1, 7, 2] := by
  refine ⟨by decide, c27_encode_decode_symmetry.2.1 demoBatch _ ?_ (by decide)⟩
  intro it hit
  simp [demoBatch] at hit
  rcases hit with rfl | rfl <;> refine ⟨?_, ?_, ?_, ?_, ?_⟩ <;> simp [maxExchangeBatchBytes, idxOK, maxProbeIndexes]

end WK.C27

import WK.Spec.C40
/-
  C40 — Message event projection is monotonic and fail-closed.
  Statements are about `WK.C40.append` / `appendAll` / `nstep` — the definitions the driver
  runs against the real meta store, slot FSM and leader stream cache.
-/
namespace WK.C40

/-! ### association lists -/

theorem aget_aput_same {κ α : Type} [DecidableEq κ] (k : κ) (v : α) (l : List (κ × α)) :
    aget k (aput k v l) = some v := by
  induction l with
  | nil => simp [aput, aget]
  | cons h t ih =>
    obtain ⟨k', v'⟩ := h
    by_cases hk : k' = k <;> simp [aput, aget, hk, ih]

theorem aget_aput_other {κ α : Type} [DecidableEq κ] (k k' : κ) (v : α) (l : List (κ × α)) (h : k' ≠ k) :
    aget k' (aput k v l) = aget k' l := by
  induction l with
  | nil => simp [aput, aget]; intro e; exact absurd e.symm h
  | cons hd t ih =>
    obtain ⟨k2, v2⟩ := hd
    by_cases hk : k2 = k
    · subst hk
      have : ¬ k2 = k' := fun e => h e.symm
      simp [aput, aget, this]
    · by_cases hk' : k2 = k'
      · subst hk'; simp [aput, aget, hk]
      · simp [aput, aget, hk, hk', ih]

/-! ### one append -/

/-- does the reducer apply `ev` on this lane? -/
def fresh (lane : Option Lane) (ev : Event) : Prop :=
  match lane with
  | some l => ¬ (l.lastId = ev.id ∨ l.status.terminal = true)
  | none => True

instance (lane : Option Lane) (ev : Event) : Decidable (fresh lane ev) := by
  unfold fresh; cases lane <;> exact inferInstance

theorem reduce_not_fresh (lane : Option Lane) (c : Option (Nat × Int)) (ev : Event) (h : ¬ fresh lane ev) :
    (reduce lane c ev).2.2.1 = false := by
  cases lane with
  | none => simp [fresh] at h
  | some l => simp only [fresh, Classical.not_not] at h; simp [reduce, h]

theorem reduce_fresh (lane : Option Lane) (c : Option (Nat × Int)) (ev : Event) (h : fresh lane ev) :
    let r := reduce lane c ev
    r.2.2.1 = true ∧ r.1.seq = (c.getD (0, 0)).1 + 1 ∧ r.2.1.1 = (c.getD (0, 0)).1 + 1 ∧
    r.2.2.2.seq = (c.getD (0, 0)).1 + 1 ∧ r.2.2.2.key = ev.key ∧ r.1.lastId = ev.id ∧ r.2.2.2.status = r.1.status := by
  cases lane with
  | none => simp [reduce, resultOf]
  | some l => simp only [fresh] at h; simp [reduce, h, resultOf]

/-- the three possible outcomes of `append` -/
theorem append_cases (db : DB) (ev : Event) :
    (∃ ap, aget (ev.msg, ev.id) db.applied = some ap ∧
        append db ev = (db, fromApplied ev ap (aget (ev.msg, ap.key) db.lanes))) ∨
    (aget (ev.msg, ev.id) db.applied = none ∧ ¬ fresh (aget (ev.msg, ev.key) db.lanes) ev ∧ (append db ev).1 = db) ∨
    (aget (ev.msg, ev.id) db.applied = none ∧ fresh (aget (ev.msg, ev.key) db.lanes) ev ∧
      (append db ev).1 =
        { lanes := aput (ev.msg, ev.key) (reduce (aget (ev.msg, ev.key) db.lanes) (aget ev.msg db.cursors) ev).1 db.lanes,
          cursors := aput ev.msg (reduce (aget (ev.msg, ev.key) db.lanes) (aget ev.msg db.cursors) ev).2.1 db.cursors,
          applied := aput (ev.msg, ev.id)
            ⟨(reduce (aget (ev.msg, ev.key) db.lanes) (aget ev.msg db.cursors) ev).2.2.2.key,
             (reduce (aget (ev.msg, ev.key) db.lanes) (aget ev.msg db.cursors) ev).2.2.2.seq,
             (reduce (aget (ev.msg, ev.key) db.lanes) (aget ev.msg db.cursors) ev).2.2.2.status, ev.upd⟩ db.applied } ∧
      (append db ev).2 = (reduce (aget (ev.msg, ev.key) db.lanes) (aget ev.msg db.cursors) ev).2.2.2) := by
  cases ha : aget (ev.msg, ev.id) db.applied with
  | some ap => left; exact ⟨ap, rfl, by simp [append, ha]⟩
  | none =>
    right
    by_cases hf : fresh (aget (ev.msg, ev.key) db.lanes) ev
    · right
      have hd := (reduce_fresh (aget (ev.msg, ev.key) db.lanes) (aget ev.msg db.cursors) ev hf).1
      refine ⟨rfl, hf, ?_, ?_⟩ <;> simp [append, ha, hd]
    · left
      have hd := reduce_not_fresh (aget (ev.msg, ev.key) db.lanes) (aget ev.msg db.cursors) ev hf
      exact ⟨rfl, hf, by simp [append, ha, hd]⟩

/-- what every append preserves -/
structure Ext (db db' : DB) : Prop where
  cur_le : ∀ m, cur db m ≤ cur db' m
  terminal : ∀ m k l, aget (m, k) db.lanes = some l → l.status.terminal = true → aget (m, k) db'.lanes = some l
  applied : ∀ x ap, aget x db.applied = some ap → aget x db'.applied = some ap
  lane_seq : ∀ m k l, aget (m, k) db.lanes = some l → ∃ l', aget (m, k) db'.lanes = some l' ∧ l.seq ≤ l'.seq

theorem Ext.refl (db : DB) : Ext db db :=
  ⟨fun _ => Nat.le_refl _, fun _ _ _ h _ => h, fun _ _ h => h, fun _ _ l h => ⟨l, h, Nat.le_refl _⟩⟩

theorem Ext.trans {a b c : DB} (h1 : Ext a b) (h2 : Ext b c) : Ext a c :=
  ⟨fun m => Nat.le_trans (h1.cur_le m) (h2.cur_le m),
   fun m k l h ht => h2.terminal m k l (h1.terminal m k l h ht) ht,
   fun x ap h => h2.applied x ap (h1.applied x ap h),
   fun m k l h => by
     obtain ⟨l1, hl1, h11⟩ := h1.lane_seq m k l h
     obtain ⟨l2, hl2, h22⟩ := h2.lane_seq m k l1 hl1
     exact ⟨l2, hl2, Nat.le_trans h11 h22⟩⟩

/-- every lane's sequence number is at most the message's cursor -/
def Bounded (db : DB) : Prop := ∀ m k l, aget (m, k) db.lanes = some l → l.seq ≤ cur db m

theorem cur_aput (db : DB) (m m' : MsgKey) (c : Nat × Int) :
    ((aget m' (aput m c db.cursors)).map (·.1)).getD 0 = if m' = m then c.1 else cur db m' := by
  by_cases h : m' = m
  · subst h; simp [aget_aput_same]
  · simp [aget_aput_other _ _ _ _ h, h, cur]

theorem append_ext (db : DB) (ev : Event) (hb : Bounded db) :
    Ext db (append db ev).1 ∧ Bounded (append db ev).1 := by
  rcases append_cases db ev with ⟨ap, _, h⟩ | ⟨_, _, h⟩ | ⟨ha, hf, h, _⟩
  · rw [h]; exact ⟨Ext.refl db, hb⟩
  · rw [h]; exact ⟨Ext.refl db, hb⟩
  · have hr := reduce_fresh (aget (ev.msg, ev.key) db.lanes) (aget ev.msg db.cursors) ev hf
    simp only at hr
    have hc : (aget ev.msg db.cursors).getD (0, 0) = (cur db ev.msg, ((aget ev.msg db.cursors).getD (0, 0)).2) := by
      unfold cur; cases aget ev.msg db.cursors <;> rfl
    have hcur : ((aget ev.msg db.cursors).getD (0, 0)).1 = cur db ev.msg := by rw [hc]
    rw [h]
    constructor
    · constructor
      · intro m
        show cur db m ≤ ((aget m (aput ev.msg _ db.cursors)).map (·.1)).getD 0
        rw [cur_aput]
        split
        · next hm => subst hm; rw [hr.2.2.1, hcur]; omega
        · exact Nat.le_refl _
      · intro m k l hl ht
        show aget (m, k) (aput (ev.msg, ev.key) _ db.lanes) = some l
        by_cases hk : (m, k) = (ev.msg, ev.key)
        · exfalso
          rw [hk] at hl
          rw [hl] at hf
          simp only [fresh] at hf
          exact hf (Or.inr ht)
        · rw [aget_aput_other _ _ _ _ hk]; exact hl
      · intro x ap hx
        show aget x (aput (ev.msg, ev.id) _ db.applied) = some ap
        by_cases hk : x = (ev.msg, ev.id)
        · rw [hk, ha] at hx; cases hx
        · rw [aget_aput_other _ _ _ _ hk]; exact hx
      · intro m k l hl
        show ∃ l', aget (m, k) (aput (ev.msg, ev.key) _ db.lanes) = some l' ∧ _
        by_cases hk : (m, k) = (ev.msg, ev.key)
        · rw [hk, aget_aput_same]
          refine ⟨_, rfl, ?_⟩
          rw [hr.2.1, hcur]
          have := hb m k l hl
          have hm : m = ev.msg := (Prod.mk.inj hk).1
          rw [hm] at this
          omega
        · rw [aget_aput_other _ _ _ _ hk]; exact ⟨l, hl, Nat.le_refl _⟩
    · intro m k l hl
      show l.seq ≤ ((aget m (aput ev.msg _ db.cursors)).map (·.1)).getD 0
      rw [cur_aput]
      change aget (m, k) (aput (ev.msg, ev.key) _ db.lanes) = some l at hl
      by_cases hk : (m, k) = (ev.msg, ev.key)
      · rw [hk, aget_aput_same] at hl
        cases hl
        have hm : m = ev.msg := (Prod.mk.inj hk).1
        simp only [hm, if_true]
        rw [hr.2.1, hr.2.2.1]; exact Nat.le_refl _
      · rw [aget_aput_other _ _ _ _ hk] at hl
        have := hb m k l hl
        split
        · next hm => subst hm; rw [hr.2.2.1, hcur]; omega
        · exact this

theorem appendAll_ext (evs : List Event) (db : DB) (hb : Bounded db) :
    Ext db (appendAll db evs).1 ∧ Bounded (appendAll db evs).1 := by
  induction evs generalizing db with
  | nil => exact ⟨Ext.refl db, hb⟩
  | cons e r ih =>
    have h1 := append_ext db e hb
    have h2 := ih (append db e).1 h1.2
    simp only [appendAll]
    exact ⟨Ext.trans h1.1 h2.1, h2.2⟩

theorem appendAll_single (db : DB) (e : Event) : (appendAll db [e]).1 = (append db e).1 := by
  simp [appendAll]

/-- every node-level operation changes the durable tables only by a sequence of appends -/
theorem nexec_db (n : Node) (op : NOp) : ∃ evs, (nexec n op).db = (appendAll n.db evs).1 := by
  cases op with
  | lose => exact ⟨[], rfl⟩
  | rt r => exact ⟨[], rfl⟩
  | cap c => exact ⟨[], rfl⟩
  | ev r =>
    simp only [nexec, tstep]
    cases normalize r with
    | none => exact ⟨[], rfl⟩
    | some e => exact ⟨[e], (appendAll_single _ _).symm⟩
  | bt rs =>
    simp only [nexec, tbatch]
    cases rs.mapM normalize with
    | none => exact ⟨[], rfl⟩
    | some es => exact ⟨es, rfl⟩
  | nd r =>
    simp only [nexec, nstepP]
    split
    · exact ⟨[], rfl⟩
    simp only [nstep]
    cases normalize r with
    | none => exact ⟨[], rfl⟩
    | some e =>
      simp only
      cases hl : n.leads e.msg.ch with
      | false => exact ⟨[], by simp [appendAll]⟩
      | true =>
      simp only [Bool.not_true, Bool.false_eq_true, if_false]
      cases hty : e.ty <;> simp only
      case finish =>
        split
        · exact ⟨[], rfl⟩
        · exact ⟨_, rfl⟩
      case open_ => cases admitSession n.cache n.cap e.msg <;> exact ⟨[], rfl⟩
      case delta => cases admitSession n.cache n.cap e.msg <;> exact ⟨[], rfl⟩
      case snapshot => cases admitSession n.cache n.cap e.msg <;> exact ⟨[], rfl⟩
      all_goals exact ⟨[_], (appendAll_single _ _).symm⟩

theorem nrun_ext (h : List NOp) (n : Node) (hb : Bounded n.db) :
    Ext n.db (nrun n h).db ∧ Bounded (nrun n h).db := by
  induction h generalizing n with
  | nil => exact ⟨Ext.refl _, hb⟩
  | cons op r ih =>
    obtain ⟨evs, he⟩ := nexec_db n op
    have h1 := appendAll_ext evs n.db hb
    rw [← he] at h1
    have h2 := ih (nexec n op) h1.2
    exact ⟨Ext.trans h1.1 h2.1, h2.2⟩

theorem bounded_empty : Bounded ({} : DB) := by
  intro m k l h; simp [aget] at h

/-! ## the four properties -/

/-- **c40_seq_mono.**  (a) One append either leaves the tables unchanged or — exactly when the
    event id is new for the message and its lane is neither terminal nor already at this id —
    raises the message's durable event sequence by exactly one and gives that number to the lane
    and to the result.  (b) Along every history of node-level appends, direct appends, batches and
    cache losses, from any state whose lanes are bounded by their cursor (in particular from the
    empty store), no message's sequence ever decreases, no lane's sequence decreases, and lanes
    stay bounded by the cursor. -/
theorem c40_seq_mono :
    (∀ (db : DB) (ev : Event),
      ((aget (ev.msg, ev.id) db.applied = none ∧ fresh (aget (ev.msg, ev.key) db.lanes) ev) →
        cur (append db ev).1 ev.msg = cur db ev.msg + 1 ∧ (append db ev).2.seq = cur db ev.msg + 1 ∧
        ∃ l, aget (ev.msg, ev.key) (append db ev).1.lanes = some l ∧ l.seq = cur db ev.msg + 1 ∧ l.lastId = ev.id) ∧
      (¬ (aget (ev.msg, ev.id) db.applied = none ∧ fresh (aget (ev.msg, ev.key) db.lanes) ev) →
        (append db ev).1 = db)) ∧
    (∀ (h : List NOp) (n : Node), Bounded n.db →
      (∀ m, cur n.db m ≤ cur (nrun n h).db m) ∧
      (∀ m k l, aget (m, k) n.db.lanes = some l → ∃ l', aget (m, k) (nrun n h).db.lanes = some l' ∧ l.seq ≤ l'.seq) ∧
      Bounded (nrun n h).db) := by
  refine ⟨fun db ev => ⟨?_, ?_⟩, fun h n hb => ?_⟩
  · rintro ⟨ha, hf⟩
    rcases append_cases db ev with ⟨ap, h1, _⟩ | ⟨_, h1, _⟩ | ⟨_, _, h, h2⟩
    · rw [ha] at h1; cases h1
    · exact absurd hf h1
    · have hr := reduce_fresh (aget (ev.msg, ev.key) db.lanes) (aget ev.msg db.cursors) ev hf
      simp only at hr
      have hcur : ((aget ev.msg db.cursors).getD (0, 0)).1 = cur db ev.msg := by
        unfold cur; cases aget ev.msg db.cursors <;> rfl
      rw [h, h2]
      refine ⟨?_, by rw [hr.2.2.2.1, hcur], _, aget_aput_same _ _ _, by rw [hr.2.1, hcur], hr.2.2.2.2.2.1⟩
      show ((aget ev.msg (aput ev.msg _ db.cursors)).map (·.1)).getD 0 = _
      rw [cur_aput]; simp [hr.2.2.1, hcur]
  · intro hn
    rcases append_cases db ev with ⟨ap, _, h⟩ | ⟨_, _, h⟩ | ⟨ha, hf, _, _⟩
    · rw [h]
    · exact h
    · exact absurd ⟨ha, hf⟩ hn
  · have := nrun_ext h n hb
    exact ⟨this.1.cur_le, this.1.lane_seq, this.2⟩

example :
    let ev : Event := ⟨⟨[103], 2, [109]⟩, [101, 49], keyDefault, .delta, visPublic, 1, {}, 2⟩
    cur (append {} ev).1 ev.msg = 1 ∧ cur (append (append {} ev).1 { ev with id := [101, 50] }).1 ev.msg = 2 ∧
      cur (append (append {} ev).1 ev).1 ev.msg = 1 := by decide

/-- **c40_terminal_once.**  A lane that is closed, errored or cancelled keeps every field
    (status, sequence, last event, snapshot, end reason, error) under any further history of
    node-level appends, direct appends, batches and cache losses. -/
theorem c40_terminal_once (h : List NOp) (n : Node) (hb : Bounded n.db) (m : MsgKey) (k : Bytes) (l : Lane)
    (hl : aget (m, k) n.db.lanes = some l) (ht : l.status.terminal = true) :
    aget (m, k) (nrun n h).db.lanes = some l :=
  (nrun_ext h n hb).1.terminal m k l hl ht

example :
    let ev : Event := ⟨⟨[103], 2, [109]⟩, [101, 49], keyDefault, .close, visPublic, 1, {}, 2⟩
    let n : Node := { db := (append {} ev).1 }
    (aget (ev.msg, ev.key) n.db.lanes).map (·.status) = some .closed ∧
    aget (ev.msg, ev.key) (nrun n [.ev ⟨[103], 2, [109], [101, 50], keyDefault, tyDelta, [], 5, {}, 6⟩, .lose,
      .nd ⟨[103], 2, [109], [101, 51], keyDefault, tyCancel, [], 5, {}, 6⟩]).db.lanes
      = aget (ev.msg, ev.key) n.db.lanes := by decide

/-- **c40_replay_same_result.**  Once an event id has been applied for a message, any later
    append carrying that id for that message — whatever its other fields, after any history in
    between — leaves the tables unchanged and reports the lane, sequence number and status of the
    first application. -/
theorem c40_replay_same_result (db : DB) (ev : Event)
    (ha : aget (ev.msg, ev.id) db.applied = none) (hf : fresh (aget (ev.msg, ev.key) db.lanes) ev)
    (hb : Bounded db) (h : List NOp) (cache : List (MsgKey × Session)) (ev' : Event)
    (hm : ev'.msg = ev.msg) (hid : ev'.id = ev.id) :
    let db2 := (nrun { db := (append db ev).1, cache := cache } h).db
    (append db2 ev').1 = db2 ∧ (append db2 ev').2.triple = (append db ev).2.triple := by
  intro db2
  -- the applied row written by the first application
  have hrow : aget (ev.msg, ev.id) (append db ev).1.applied =
      some ⟨(append db ev).2.key, (append db ev).2.seq, (append db ev).2.status, ev.upd⟩ := by
    rcases append_cases db ev with ⟨ap, h1, _⟩ | ⟨_, h1, _⟩ | ⟨_, _, h1, h2⟩
    · rw [ha] at h1; cases h1
    · exact absurd hf h1
    · rw [h1, h2]; exact aget_aput_same _ _ _
  have hb1 := (append_ext db ev hb).2
  have hext := (nrun_ext h { db := (append db ev).1, cache := cache } hb1).1
  have hrow2 := hext.applied _ _ hrow
  rcases append_cases db2 ev' with ⟨ap, h1, h2⟩ | ⟨h1, _, _⟩ | ⟨h1, _, _, _⟩
  · rw [hm, hid] at h1
    have : ap = ⟨(append db ev).2.key, (append db ev).2.seq, (append db ev).2.status, ev.upd⟩ := by
      have := h1.symm.trans hrow2
      exact Option.some.inj this
    rw [h2]
    refine ⟨rfl, ?_⟩
    simp [Result.triple, fromApplied, this]
  · rw [hm, hid] at h1
    have := h1.symm.trans hrow2; cases this
  · rw [hm, hid] at h1
    have := h1.symm.trans hrow2; cases this

example :
    let ev : Event := ⟨⟨[103], 2, [109]⟩, [101, 49], [97], .delta, visPublic, 1, {}, 2⟩
    let db1 := (append {} ev).1
    let db2 := (append db1 { ev with id := [101, 50], ty := .close }).1
    (append db2 { ev with key := [122, 122], ty := .error }).2.triple = ([97], 1, Status.open_) := by decide

/-- **c40_finish_fail_closed.**  (a) On the leader, a finish whose message has no open lane in
    the stream cache and whose payload carries no snapshot is refused with the cache-miss error
    and changes nothing — neither the durable tables nor the cache; in particular this is the
    outcome of every such finish right after the cache was lost.  (b) When a finish is accepted,
    the durable write is the cached open lanes' flush closes followed by the finish event, in one
    ordered batch; every flushed lane whose flush id is new and which is not durably terminal
    ends closed, carrying the cached snapshot unless the finish payload brings its own. -/
theorem c40_finish_fail_closed :
    (∀ (n : Node) (r : RawEvent) (ev : Event), normalize r = some ev → ev.ty = .finish → n.leads ev.msg.ch = true →
      openStates n.cache ev.msg = [] → hasSnapshot ev.pl = false →
      nstep n r = (n, .cachemiss, none)) ∧
    (∀ (n : Node) (r : RawEvent) (ev : Event), normalize r = some ev → ev.ty = .finish → n.leads ev.msg.ch = true →
      hasSnapshot ev.pl = false → nstep (loseCache n) r = (loseCache n, .cachemiss, none)) ∧
    (∀ (n : Node) (r : RawEvent) (ev : Event), normalize r = some ev → ev.ty = .finish → n.leads ev.msg.ch = true →
      ¬ (openStates n.cache ev.msg = [] ∧ hasSnapshot ev.pl = false) →
      (nstep n r).1.db = (appendAll n.db ((openStates n.cache ev.msg).map (flushEvent ev) ++ [ev])).1 ∧
      (nstep n r).2.1 = .ok) ∧
    (∀ (db : DB) (fin : Event) (kl : Bytes × Lane),
      aget (fin.msg, (flushEvent fin kl).id) db.applied = none →
      fresh (aget (fin.msg, kl.1) db.lanes) (flushEvent fin kl) →
      ∃ l, aget (fin.msg, kl.1) (append db (flushEvent fin kl)).1.lanes = some l ∧ l.status = .closed ∧
        (kl.2.snap ≠ .none → (termOf fin.pl).1 = .none → snapIsJSON kl.2.snap = true → l.snap = kl.2.snap)) := by
  refine ⟨?_, ?_, ?_, ?_⟩
  · intro n r ev hn hty hl ho hs
    simp [nstep, hn, hty, hl, ho, hs]
  · intro n r ev hn hty hl hs
    have hl' : (loseCache n).leads ev.msg.ch = true := hl
    have ho : openStates (loseCache n).cache ev.msg = [] := by simp [loseCache, openStates, aget]
    simp [nstep, hn, hty, hl', hs, ho]
  · intro n r ev hn hty hl hno
    have : (List.isEmpty (openStates n.cache ev.msg) && !hasSnapshot ev.pl) = false := by
      cases ho : openStates n.cache ev.msg with
      | nil =>
        cases hs : hasSnapshot ev.pl with
        | false => exact absurd ⟨ho, hs⟩ hno
        | true => simp
      | cons a t => simp
    simp only [nstep, hn, hty, this, hl, Bool.not_true, Bool.false_eq_true, if_false]
    cases appendAll n.db ((openStates n.cache ev.msg).map (flushEvent ev) ++ [ev]) with
    | mk db' rs => simp
  · intro db fin kl ha hf
    have hmsg : (flushEvent fin kl).msg = fin.msg := rfl
    have hkey : (flushEvent fin kl).key = kl.1 := rfl
    rcases append_cases db (flushEvent fin kl) with ⟨ap, h1, _⟩ | ⟨_, h1, _⟩ | ⟨_, _, h, _⟩
    · rw [hmsg, ha] at h1; cases h1
    · rw [hmsg, hkey] at h1; exact absurd hf h1
    · rw [h]
      refine ⟨_, by rw [hmsg, hkey]; exact aget_aput_same _ _ _, ?_, ?_⟩
      · cases hl : aget (fin.msg, kl.1) db.lanes with
        | none => simp [reduce, flushEvent]
        | some l0 =>
          rw [hl] at hf
          simp only [fresh] at hf
          have hf' : ¬ (l0.lastId = fin.id ++ (flushInfix ++ kl.1) ∨ l0.status.terminal = true) := by
            simpa [flushEvent] using hf
          simp [reduce, flushEvent, hf']
      · intro hsn hpl hj
        have hterm : (termOf (flushEvent fin kl).pl).1 = kl.2.snap := by
          simp only [flushEvent, mergeTerminal, hsn, if_false, hj, if_true, termOf]
          simp only [termOf] at hpl
          cases hp : fin.pl.term with
          | none => simp
          | some t => rw [hp] at hpl; simp at hpl; simp [hpl]
        cases hl : aget (fin.msg, kl.1) db.lanes with
        | none =>
          have : (flushEvent fin kl).ty = .close := rfl
          simp [reduce, this, hterm, hsn]
        | some l0 =>
          rw [hl] at hf
          simp only [fresh] at hf
          have : (flushEvent fin kl).ty = .close := rfl
          have hid : (flushEvent fin kl).id = fin.id ++ flushInfix ++ kl.1 := rfl
          simp [reduce, this, hterm, hsn, hf]

/-- non-vacuity: (a) after a cache loss the finish is refused and nothing is written;
    (b) with the cache intact the same finish closes the cached lane with its text. -/
example :
    let d : RawEvent := ⟨[103], 2, [109], [101, 49], [97], tyDelta, [], 1,
      { delta := some ([104, 105]), view := .text [], term := some (.none, 0, []), empty := false }, 2⟩
    let f : RawEvent := ⟨[103], 2, [109], [101, 50], [], tyFinish, [], 3, {}, 4⟩
    let n1 := (nstep {} d).1
    (nstep (loseCache n1) f).2.1 = .cachemiss ∧ (nstep (loseCache n1) f).1.db.lanes = [] ∧
    (nstep n1 f).2.1 = .ok ∧
    (aget (⟨[103], 2, [109]⟩, [97]) (nstep n1 f).1.db.lanes).map (fun l => (l.status, l.snap))
      = some (.closed, .text ([104, 105])) := by decide

end WK.C40

import WK.Proofs.C41_inv
import WK.Proofs.C41_paths
/-
  C41 — Stopping the send pipeline never drops accepted sends.

  Theorems about the admission/stop LTS of `WK/Model/C41.lean` (any number of submitters and
  Stop callers, all interleavings); the statements are the `Bool` predicates of
  `WK/Spec/C41.lean` on the model's log, plus their state form.
-/
namespace WK.C41

/-- after `stopping` was set under the write lock no send is admitted (log form), and while a
    Stop caller holds the write lock no submitter is inside the admission region (state form) -/
theorem c41_no_admission_after_stop {s : G} (r : GReach s) :
    noAdmissionAfterStopSet s.log = true ∧
    (s.stopping = true → ∀ t, s.sub t ≠ .slot → ∀ s', GStep s s' → s'.sub t ≠ .slot) := by
  refine ⟨r.inv.admOrder, ?_⟩
  intro hs t ht s' st
  cases st <;> simp only [updS] <;> grind

example : ∃ s, GReach s ∧ s.stopping = true ∧ s.sub 0 = .admitted := by
  have r0 := GReach.init
  have r1 := r0.step (GStep.rlock _ 0 rfl (fun k => by simp [G.init]))
  have r2 := r1.step (GStep.acquire _ 0 rfl rfl rfl)
  have r3 := r2.step (GStep.runlock _ 0 rfl)
  have r4 := r3.step (GStep.stopLock _ 0 rfl rfl (fun t => by simp only [G.init, updS, SPc.reads]; grind) (fun k => by simp [G.init]))
  have r5 := r4.step (GStep.stopSet _ 0 rfl)
  exact ⟨_, r5, rfl, rfl⟩

theorem takeWhile_append_of_any {p : Ev → Bool} : ∀ {l : List Ev} (r : List Ev), l.any p = true →
    (l ++ r).takeWhile (fun e => !p e) = l.takeWhile (fun e => !p e)
  | [], _, h => by simp at h
  | e :: l, r, h => by
    cases hp : p e with
    | true => simp [List.takeWhile_cons, hp]
    | false =>
      have : l.any p = true := by simpa [hp] using h
      simp [List.takeWhile_cons, hp, takeWhile_append_of_any r this]

theorem takeWhile_of_not_any {p : Ev → Bool} : ∀ {l : List Ev}, l.any p = false → l.takeWhile (fun e => !p e) = l
  | [], _ => rfl
  | e :: l, h => by
    have h' : p e = false ∧ l.any p = false := by simpa using h
    simp [List.takeWhile_cons, h'.1, takeWhile_of_not_any h'.2]

/-- stable part of the quiescence statement -/
def TermAtStop (s : G) : Prop :=
  s.log.any isStopOk = true → ∀ t, t ∈ adms s.log → t ∈ terms (s.log.takeWhile fun e => !isStopOk e)

theorem GStep.log_mono {s s' : G} (st : GStep s s') : ∃ r, s'.log = s.log ++ r := by
  cases st <;> first | exact ⟨_, rfl⟩ | exact ⟨[], by simp⟩

theorem GStep.adm_stable {s s' : G} (h : GInv s) (st : GStep s s') (hs : s.stopped = true) (t : Nat) :
    t ∈ adms s'.log → t ∈ adms s.log := by
  have hst := h.notStopping
  cases st <;> simp only [adms_append, adms, List.filterMap_cons, List.filterMap_nil, List.mem_append] <;> grind

theorem GStep.stopOk_new {s s' : G} (h : GInv s) (st : GStep s s') (hn : s.log.any isStopOk = false)
    (hin : s'.log.any isStopOk = true) :
    s.stopped = true ∧ ∃ r, s'.log = s.log ++ r ∧ adms r = [] ∧ (r.takeWhile fun e => !isStopOk e).all (fun e => !isStopOk e) ∧
      ((s.log ++ r).takeWhile fun e => !isStopOk e) = s.log ++ (r.takeWhile fun e => !isStopOk e) := by
  have hd := h.finDone
  cases st <;> simp_all [isStopOk, adms, List.takeWhile_append, takeWhile_of_not_any hn]
  all_goals grind

theorem TermAtStop.step {s s' : G} (h : GInv s) (hw : TermAtStop s) (st : GStep s s') : TermAtStop s' := by
  intro hin t ht
  cases hold : s.log.any isStopOk with
  | true =>
    obtain ⟨r, hr⟩ := st.log_mono
    rw [hr, takeWhile_append_of_any r hold]
    exact hw hold t (st.adm_stable h (h.stopOkLog hold) t ht)
  | false =>
    obtain ⟨hstopped, r, hr, hadm, _, htw⟩ := st.stopOk_new h hold hin
    rw [hr, htw, terms_append]
    rw [hr, adms_append, hadm, List.append_nil] at ht
    refine List.mem_append_left _ ?_
    rw [h.termIff]
    rcases (h.admIff t).mp ht with hslot | hterm
    · have := h.cancelledNoSlot (h.finDone.2.1.mp hstopped) t
      rw [this] at hslot; cases hslot
    · exact hterm

theorem GReach.termAtStop {s : G} (r : GReach s) : TermAtStop s := by
  induction r with
  | init => intro h; simp [G.init] at h
  | step r st ih => exact ih.step r.inv st

/-- quiescence: once the drain finished (`stopped`) no admitted send is pending; and once any Stop
    call returned nil every admitted send had reached its terminal result before that -/
theorem c41_all_admitted_terminal {s : G} (r : GReach s) :
    (s.stopped = true → ∀ t, s.sub t ≠ .slot ∧ s.sub t ≠ .admitted) ∧ allTerminalAtStop s.log = true := by
  constructor
  · intro hs t
    have := r.inv.cancelledNoSlot (r.inv.finDone.2.1.mp hs) t
    constructor <;> intro h' <;> rw [h'] at this <;> simp [SPc.holdsSlot] at this
  · have hw := r.termAtStop
    cases hany : s.log.any isStopOk with
    | false => simp [allTerminalAtStop, hany]
    | true =>
      simp only [allTerminalAtStop, hany, Bool.not_true, Bool.false_or, List.all_eq_true, List.contains_iff_mem]
      intro t ht
      exact hw hany t ht

/-- a Stop whose caller deadline expires leaves the drain running: no future is ever completed
    with a cancellation (the runtime context is cancelled only after the drain), in every reachable
    state — in particular after any number of `stopDeadline` steps -/
theorem c41_deadline_does_not_cancel {s : G} (r : GReach s) :
    noCancellation s.log = true ∧ (∀ t, s.sub t ≠ .terminal true) ∧
    (s.cancelled = true → ∀ t, (s.sub t).holdsSlot = false) := by
  refine ⟨?_, r.inv.noCancelTerm, r.inv.cancelledNoSlot⟩
  induction r with
  | init => rfl
  | step r st ih =>
    have h := r.inv
    have hc := h.cancelledNoSlot
    cases st <;> simp_all [noCancellation, SPc.holdsSlot]
    case completeCancelled t ha hcan =>
      have := hc t; rw [ha] at this; simp at this

-- non-vacuity: a Stop caller gives up on its deadline, the admitted send still completes normally,
-- a later Stop returns nil
example : ∃ s, GReach s ∧ s.stp 0 = .returned false ∧ s.stp 1 = .returned true ∧ s.sub 0 = .terminal false := by
  have r0 := GReach.init
  have r1 := r0.step (GStep.rlock _ 0 rfl (fun k => by simp [G.init]))
  have r2 := r1.step (GStep.acquire _ 0 rfl rfl rfl)
  have r3 := r2.step (GStep.runlock _ 0 rfl)
  have r4 := r3.step (GStep.stopLock _ 0 rfl rfl (fun t => by simp only [G.init, updS, SPc.reads]; grind) (fun k => by simp [G.init]))
  have r5 := r4.step (GStep.stopSet _ 0 rfl)
  have r6 := r5.step (GStep.stopDeadline _ 0 rfl)
  have r7 := r6.step (GStep.complete _ 0 rfl)
  have r8 := r7.step (GStep.finish _ rfl (fun t => by simp only [G.init, updS, SPc.holdsSlot]; grind))
  have r9 := r8.step (GStep.stopFast _ 1 rfl rfl)
  exact ⟨_, r9, rfl, rfl, rfl⟩

end WK.C41

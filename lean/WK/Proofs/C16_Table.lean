import WK.Proofs.C16_Row
/-
  C16 — the keyed tables are pointwise lifts of the per-row transitions
  (frame lemmas), and the activation index stays consistent with the rows.
-/
namespace WK.C16

/-! ### association lists -/

theorem get_put_same {α : Type} (k : Key) (v : α) (l : List (Key × α)) : get k (put k v l) = some v := by
  induction l with
  | nil => simp [put, get]
  | cons h t ih =>
    obtain ⟨k', v'⟩ := h
    by_cases hk : k' = k <;> simp [put, get, hk, ih]

theorem get_put_other {α : Type} (k k' : Key) (v : α) (l : List (Key × α)) (h : k' ≠ k) :
    get k' (put k v l) = get k' l := by
  induction l with
  | nil => simp [put, get]; intro e; exact absurd e.symm h
  | cons hd t ih =>
    obtain ⟨k2, v2⟩ := hd
    by_cases hk : k2 = k
    · subst hk
      have : ¬ k2 = k' := fun e => h e.symm
      simp [put, get, this]
    · by_cases hk' : k2 = k'
      · subst hk'; simp [put, get, hk]
      · simp [put, get, hk, hk', ih]

theorem get_del_same {α : Type} (k : Key) (l : List (Key × α)) : get k (del k l) = none := by
  induction l with
  | nil => simp [del, get]
  | cons h t ih =>
    obtain ⟨k', v'⟩ := h
    by_cases hk : k' = k <;> simp [del, get, hk, ih]

theorem get_del_other {α : Type} (k k' : Key) (l : List (Key × α)) (h : k' ≠ k) :
    get k' (del k l) = get k' l := by
  induction l with
  | nil => simp [del, get]
  | cons hd t ih =>
    obtain ⟨k2, v2⟩ := hd
    by_cases hk : k2 = k
    · subst hk
      have : ¬ k2 = k' := fun e => h e.symm
      simp [del, get, this, ih]
    · by_cases hk' : k2 = k'
      · subst hk'; simp [del, get, hk]
      · simp [del, get, hk, hk', ih]

/-! ### frame lemmas: what one operation does to the row at key `k` -/

/-- the row transition an applied op induces at key `k` of the ordinary table -/
def rowAfter (prev : Option Row) (op : Op) (k : Key) : Option Row :=
  if op.isCmd = false ∧ op.key = k then
    match rowStep prev op with
    | none => prev
    | some r => r
  else prev

def crowAfter (prev : Option CRow) (op : Op) (k : Key) : Option CRow :=
  if op.isCmd = true ∧ op.key = k then
    match crowStep prev op with
    | none => prev
    | some r => r
  else prev

theorem applyOp_rows (st : St) (op : Op) (k : Key) :
    get k (applyOp st op).1.rows = rowAfter (get k st.rows) op k := by
  unfold applyOp rowAfter
  by_cases hc : op.isCmd = true
  · simp only [hc, if_true]
    have : ¬ (true = false ∧ op.key = k) := by simp
    simp only [this, if_false]
    cases crowStep (get op.key st.cmd) op with
    | none => rfl
    | some r =>
      cases r with
      | none => rfl
      | some r => simp only; split <;> rfl
  · have hc' : op.isCmd = false := by simpa using hc
    simp only [hc', Bool.false_eq_true, if_false]
    by_cases hk : op.key = k
    · subst hk
      simp only [true_and, if_true]
      cases hr : rowStep (get op.key st.rows) op with
      | none => rfl
      | some r =>
        cases r with
        | none => simp [unstage, get_del_same]
        | some r =>
          simp only
          split
          · next h => simp [h]
          · simp [stage, get_put_same]
    · have hk' : k ≠ op.key := fun e => hk e.symm
      simp only [hk, and_false, if_false]
      cases hr : rowStep (get op.key st.rows) op with
      | none => rfl
      | some r =>
        cases r with
        | none => simp [unstage, get_del_other _ _ _ hk']
        | some r =>
          simp only
          split
          · rfl
          · simp [stage, get_put_other _ _ _ _ hk']

theorem applyOp_cmd (st : St) (op : Op) (k : Key) :
    get k (applyOp st op).1.cmd = crowAfter (get k st.cmd) op k := by
  unfold applyOp crowAfter
  by_cases hc : op.isCmd = true
  · simp only [hc, if_true, true_and]
    by_cases hk : op.key = k
    · subst hk
      simp only [if_true]
      cases hr : crowStep (get op.key st.cmd) op with
      | none => rfl
      | some r =>
        cases r with
        | none =>
          -- a CMD op never deletes a row
          cases hg : get op.key st.cmd with
          | none => simp
          | some a =>
            rw [hg] at hr
            obtain ⟨b, hb⟩ := crowStep_some a op
            rw [hb] at hr; cases hr
        | some r =>
          simp only
          split
          · next h => simp [h]
          · simp [get_put_same]
    · have hk' : k ≠ op.key := fun e => hk e.symm
      simp only [hk, if_false]
      cases hr : crowStep (get op.key st.cmd) op with
      | none => rfl
      | some r =>
        cases r with
        | none => rfl
        | some r =>
          simp only
          split
          · rfl
          · simp [get_put_other _ _ _ _ hk']
  · have hc' : op.isCmd = false := by simpa using hc
    simp only [hc', Bool.false_eq_true, if_false, false_and]
    cases rowStep (get op.key st.rows) op with
    | none => rfl
    | some r =>
      cases r with
      | none => simp [unstage]
      | some r => simp only; split <;> simp [stage]

/-! ### order facts about index keys -/

theorem idxLt_irrefl (a : IdxE) : ¬ idxLt a a := by
  unfold idxLt; omega

theorem idxLt_trans {a b c : IdxE} (h1 : idxLt a b) (h2 : idxLt b c) : idxLt a c := by
  unfold idxLt at *; omega

theorem idxLt_asymm {a b : IdxE} (h1 : idxLt a b) : ¬ idxLt b a := by
  unfold idxLt at *; omega

theorem idxLt_total (a b : IdxE) : idxLt a b ∨ a = b ∨ idxLt b a := by
  obtain ⟨a1, a2, a3, a4, a5⟩ := a
  obtain ⟨b1, b2, b3, b4, b5⟩ := b
  simp only [idxLt, IdxE.mk.injEq]
  omega

theorem mem_idxInsert (x e : IdxE) (l : List IdxE) : e ∈ idxInsert x l ↔ e = x ∨ e ∈ l := by
  induction l with
  | nil => simp [idxInsert]
  | cons h t ih =>
    unfold idxInsert
    split
    · simp
    · split
      · next hx => subst hx; simp
      · simp [ih]
        constructor
        · rintro (h1 | h1 | h1) <;> simp [h1]
        · rintro (h1 | h1 | h1) <;> simp [h1]

theorem sorted_idxInsert (x : IdxE) (l : List IdxE) (h : l.Pairwise idxLt) :
    (idxInsert x l).Pairwise idxLt := by
  induction l with
  | nil => simp [idxInsert]
  | cons hd t ih =>
    have ht := (List.pairwise_cons.mp h)
    unfold idxInsert
    split
    · next hlt =>
      apply List.pairwise_cons.mpr
      refine ⟨?_, h⟩
      intro e he
      rcases List.mem_cons.mp he with he | he
      · subst he; exact hlt
      · exact idxLt_trans hlt (ht.1 e he)
    · split
      · exact h
      · next h1 h2 =>
        have hlt : idxLt hd x := by
          rcases idxLt_total x hd with h3 | h3 | h3
          · exact absurd h3 h1
          · exact absurd h3 h2
          · exact h3
        apply List.pairwise_cons.mpr
        refine ⟨?_, ih ht.2⟩
        intro e he
        rcases (mem_idxInsert x e t).mp he with he | he
        · subst he; exact hlt
        · exact ht.1 e he

theorem mem_idxErase (x e : IdxE) (l : List IdxE) : e ∈ idxErase x l ↔ e ∈ l ∧ e ≠ x := by
  simp [idxErase]

theorem sorted_idxErase (x : IdxE) (l : List IdxE) (h : l.Pairwise idxLt) :
    (idxErase x l).Pairwise idxLt := List.Pairwise.filter _ h

/-! ### index consistency -/

/-- The activation index and the rows agree: the index is strictly ordered by key,
    an entry is present iff the row it points to exists and (re)produces that entry,
    and every indexed channel id is non-empty. -/
structure Inv (st : St) : Prop where
  sorted : st.idx.Pairwise idxLt
  mem : ∀ e, e ∈ st.idx ↔ passes st.rows e = true
  chpos : ∀ e, e ∈ st.idx → 1 < e.ch

theorem entry_key (k : Key) (r : Row) : (entry k r).key = k := by
  cases k; rfl

theorem passes_iff (rows : List (Key × Row)) (e : IdxE) :
    passes rows e = true ↔ ∃ r, get e.key rows = some r ∧ entry e.key r = e := by
  unfold passes
  cases get e.key rows with
  | none => simp
  | some r => simp

theorem entry_eq_key {k : Key} {r : Row} {e : IdxE} (h : entry k r = e) : e.key = k := by
  subst h; exact entry_key k r

theorem inv_init : Inv {} := ⟨by simp, by intro e; simp [passes, get], by simp⟩

theorem stage_inv (st : St) (k : Key) (r : Row) (hi : Inv st) (hk : 1 < k.ch) :
    Inv (stage st k (get k st.rows) r) := by
  constructor
  · -- sorted
    unfold stage
    apply sorted_idxInsert
    cases get k st.rows with
    | none => exact hi.sorted
    | some e => exact sorted_idxErase _ _ hi.sorted
  · intro e
    have hnew : (stage st k (get k st.rows) r).rows = put k r st.rows := rfl
    rw [passes_iff, hnew]
    have hidx : e ∈ (stage st k (get k st.rows) r).idx ↔
        e = entry k r ∨ (e ∈ st.idx ∧ ∀ o, get k st.rows = some o → e ≠ entry k o) := by
      unfold stage
      simp only
      rw [mem_idxInsert]
      cases hg : get k st.rows with
      | none => simp
      | some o => simp [mem_idxErase]
    rw [hidx]
    by_cases hek : e.key = k
    · rw [hek, get_put_same]
      constructor
      · rintro (h1 | ⟨h1, h2⟩)
        · exact ⟨r, rfl, h1.symm⟩
        · exfalso
          obtain ⟨o, ho, heo⟩ := (passes_iff _ _).mp ((hi.mem e).mp h1)
          rw [hek] at ho heo
          exact h2 o ho heo.symm
      · rintro ⟨r', hr', he'⟩
        left
        cases hr'; exact he'.symm
    · rw [get_put_other _ _ _ _ hek]
      constructor
      · rintro (h1 | ⟨h1, _⟩)
        · exfalso; apply hek; rw [h1]; exact entry_key k r
        · exact (passes_iff _ _).mp ((hi.mem e).mp h1)
      · intro h
        right
        refine ⟨(hi.mem e).mpr ((passes_iff _ _).mpr h), ?_⟩
        intro o _ heq
        apply hek; rw [heq]; exact entry_key k o
  · intro e he
    have : e = entry k r ∨ e ∈ st.idx := by
      unfold stage at he
      simp only at he
      rcases (mem_idxInsert _ _ _).mp he with h | h
      · exact Or.inl h
      · right
        cases hg : get k st.rows with
        | none => rw [hg] at h; exact h
        | some o => rw [hg] at h; exact ((mem_idxErase _ _ _).mp h).1
    rcases this with h | h
    · subst h; exact hk
    · exact hi.chpos e h

theorem unstage_inv (st : St) (k : Key) (hi : Inv st) : Inv (unstage st k (get k st.rows)) := by
  have hsub : ∀ e, e ∈ (unstage st k (get k st.rows)).idx ↔
      (e ∈ st.idx ∧ ∀ o, get k st.rows = some o → e ≠ entry k o) := by
    intro e
    unfold unstage
    simp only
    cases hg : get k st.rows with
    | none => simp
    | some o => simp [mem_idxErase]
  constructor
  · unfold unstage
    simp only
    cases get k st.rows with
    | none => exact hi.sorted
    | some e => exact sorted_idxErase _ _ hi.sorted
  · intro e
    have hnew : (unstage st k (get k st.rows)).rows = del k st.rows := rfl
    rw [passes_iff, hnew, hsub]
    by_cases hek : e.key = k
    · rw [hek, get_del_same]
      constructor
      · rintro ⟨h1, h2⟩
        exfalso
        obtain ⟨o, ho, heo⟩ := (passes_iff _ _).mp ((hi.mem e).mp h1)
        rw [hek] at ho heo
        exact h2 o ho heo.symm
      · rintro ⟨r', hr', _⟩; cases hr'
    · rw [get_del_other _ _ _ hek]
      constructor
      · rintro ⟨h1, _⟩
        exact (passes_iff _ _).mp ((hi.mem e).mp h1)
      · intro h
        refine ⟨(hi.mem e).mpr ((passes_iff _ _).mpr h), ?_⟩
        intro o _ heq
        apply hek; rw [heq]; exact entry_key k o
  · intro e he
    exact hi.chpos e ((hsub e).mp he).1

theorem valid_chpos (op : Op) (h : op.valid = true) : 1 < op.key.ch := by
  cases op <;> simp [Op.valid, validKey, validId, Op.key] at h ⊢ <;> omega

/-- every applied (validated) operation replaces the index entry together with the row -/
theorem applyOp_inv (st : St) (op : Op) (hi : Inv st) (hv : op.valid = true) : Inv (applyOp st op).1 := by
  unfold applyOp
  by_cases hc : op.isCmd = true
  · simp only [hc, if_true]
    cases crowStep (get op.key st.cmd) op with
    | none => exact hi
    | some r =>
      cases r with
      | none => exact hi
      | some r =>
        simp only
        split
        · exact hi
        · exact ⟨hi.sorted, hi.mem, hi.chpos⟩
  · have hc' : op.isCmd = false := by simpa using hc
    simp only [hc', Bool.false_eq_true, if_false]
    cases rowStep (get op.key st.rows) op with
    | none => exact hi
    | some r =>
      cases r with
      | none => exact unstage_inv st op.key hi
      | some r =>
        simp only
        split
        · exact hi
        · exact stage_inv st op.key r hi (valid_chpos op hv)

theorem step_inv (st : St) (op : Op) (hi : Inv st) : Inv (step st op).1 := by
  unfold step
  split
  · next h => exact applyOp_inv st op hi h
  · exact hi

theorem applyAll_inv (ops : List Op) (st : St) (hi : Inv st) (hv : ops.all Op.valid = true) :
    Inv (applyAll st ops).1 := by
  induction ops generalizing st with
  | nil => exact hi
  | cons o r ih =>
    simp only [List.all_cons, Bool.and_eq_true] at hv
    unfold applyAll
    have h1 := applyOp_inv st o hi hv.1
    cases ha : applyOp st o with
    | mk st' e =>
      rw [ha] at h1
      cases e with
      | ok => exact ih st' h1 hv.2
      | notfound => exact hi
      | invalid => exact hi

theorem batchStep_inv (st : St) (ops : List Op) (hi : Inv st) : Inv (batchStep st ops).1 := by
  unfold batchStep
  split
  · next hv =>
    have h := applyAll_inv ops st hi hv
    cases ha : applyAll st ops with
    | mk st' e =>
      rw [ha] at h
      cases e <;> first | exact h | exact hi
  · exact hi

end WK.C16

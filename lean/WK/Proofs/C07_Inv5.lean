import WK.Proofs.C07_Inv4
/-
  C07 — `Inv` is preserved by appends and follower applies.
-/
namespace WK.C07

theorem chanInv_leo (ch : Chan) (h : ChanInv ch) (l : Nat) (hl : l = recoverLEO ch) :
    ChanInv { ch with leoC := some l } :=
  ⟨h.uniq, h.nodup, h.nz, h.noHoles, (fun l' e => by simp only [Option.some.injEq] at e; rw [← e, hl]; rfl), h.retOK, h.iidx, h.sidx, h.cidx⟩

theorem chanInv_noleo (ch : Chan) (h : ChanInv ch) : ChanInv { ch with leoC := none } :=
  ⟨h.uniq, h.nodup, h.nz, h.noHoles, (fun l' e => by cases e), h.retOK, h.iidx, h.sidx, h.cidx⟩

theorem loadLEO_val (ch : Chan) (h : ChanInv ch) : (loadLEO ch).1 = recoverLEO ch := by
  unfold loadLEO
  cases hl : ch.leoC with
  | none => rfl
  | some l => exact h.cache l hl

theorem loadLEO_chan (ch : Chan) : (loadLEO ch).2 = ch ∨ (loadLEO ch).2 = { ch with leoC := some (recoverLEO ch) } := by
  unfold loadLEO
  cases ch.leoC with
  | none => right; rfl
  | some l => left; rfl

theorem loadLEO_inv (ch : Chan) (h : ChanInv ch) : ChanInv (loadLEO ch).2 := by
  rcases loadLEO_chan ch with e | e <;> rw [e]
  · exact h
  · exact chanInv_leo ch h _ rfl

theorem loadLEO_fields (ch : Chan) :
    (loadLEO ch).2.rows = ch.rows ∧ (loadLEO ch).2.ret = ch.ret ∧ (loadLEO ch).2.ck = ch.ck ∧
    (loadLEO ch).2.iidx = ch.iidx ∧ (loadLEO ch).2.leoC = some (loadLEO ch).1 := by
  unfold loadLEO
  cases h : ch.leoC <;> simp [h]

theorem gagree_set (st : Store) (c : Nat) (ch' : Chan) (hc : c < st.chans.length) (hr : ch'.rows = (st.chan c).rows)
    (hg : GAgree st) : GAgree (st.setChan c ch') := by
  intro id c' s
  rw [set_gidx, hg id c' s]
  by_cases e : c' = c
  · subst e; rw [chan_set_self _ _ _ hc, hr]
  · rw [chan_set_ne _ _ _ _ e]

theorem inv_assemble (st st' : Store) (c : Nat) (hi : Inv st) (hlen : st'.chans.length = st.chans.length)
    (hother : ∀ c', c' ≠ c → st'.chan c' = st.chan c') (hc : ChanInv (st'.chan c)) (hg : GAgree st') : Inv st' :=
  ⟨hlen.trans hi.len, fun c' => by
    by_cases e : c' = c
    · subst e; exact hc
    · rw [hother c' e]; exact hi.chan c', hg⟩

/-- replacing a channel by one with the same rows -/
theorem inv_set (st : Store) (c : Nat) (ch' : Chan) (hi : Inv st) (hc : c < numChan)
    (hr : ch'.rows = (st.chan c).rows) (hch : ChanInv ch') : Inv (st.setChan c ch') := by
  have hc' : c < st.chans.length := by rw [hi.len]; exact hc
  refine inv_assemble st _ c hi (set_len _ _ _) (fun c' e => chan_set_ne _ _ _ _ e) ?_ (gagree_set st c ch' hc' hr hi.gidx)
  rw [chan_set_self _ _ _ hc']; exact hch

theorem inv_load (st : Store) (c : Nat) (hi : Inv st) (hc : c < numChan) : Inv (st.setChan c (loadLEO (st.chan c)).2) :=
  inv_set st c _ hi hc (loadLEO_fields _).1 (loadLEO_inv _ (hi.chan c))

/-- the caller contracts under which an append / follower apply keeps the indexes exact
    (allocator-fresh ids outside strict mode, leader-validated keys in trusted mode) -/
def SafeBatch (st : Store) (c mode : Nat) (recs : List Rec) : Prop :=
  c < numChan ∧
  (mode ≠ 0 → ∀ rc ∈ recs, alookup rc.id st.gidx = none) ∧
  (mode = 2 → ∀ rc ∈ recs, rc.frm ≠ [] → rc.cmn ≠ [] → alookup (rc.cmn, rc.frm) (st.chan c).iidx = none)

/-- staging an accepted batch on top of a store whose channel `c` has its LEO loaded -/
theorem stage_batch_inv (st : Store) (c mode : Nat) (recs : List Rec) (new : List Row) (ck : Option Ckpt)
    (hi : Inv st) (hs : SafeBatch st c mode recs) (hl : (st.chan c).leoC = some (recoverLEO (st.chan c)))
    (hb : BatchOK st c mode (recoverLEO (st.chan c) + 1) recs.length recs {} new) (hne : new ≠ []) :
    let st2 := new.foldl (stageRow c) st
    let st3 := match ck with | some k => st2.setChan c { st2.chan c with ck := some k } | none => st2
    Inv (setLeoC st3 c (recoverLEO (st.chan c) + new.length)) := by
  intro st2 st3
  have hc : c < st.chans.length := by rw [hi.len]; exact hs.1
  have CI := hi.chan c
  generalize hleo : recoverLEO (st.chan c) = leo at *
  have oldLe : ∀ x ∈ (st.chan c).rows, x.seq ≤ leo := fun x hx => hleo ▸ le_recoverLEO _ x hx
  -- every new row is fresh
  have hfresh : ∀ r ∈ new, FreshRow st c r := by
    intro r hr
    have hlo := hb.lo r hr
    obtain ⟨rc, hrc, e1, e2, e3⟩ := hb.src r hr
    refine ⟨?_, ?_, ?_⟩
    · by_cases hm : mode = 0
      · rcases hb.strict hm r hr with e | e
        · exact e
        · obtain ⟨x, hx, _, ex⟩ := (hi.gidx r.id c r.seq).mp e
          have := oldLe x hx; omega
      · rw [e1]; exact hs.2.1 hm rc hrc
    · intro k1 k2
      by_cases hm : mode = 2
      · rw [e2, e3]; exact hs.2.2 hm rc hrc (e2 ▸ k1) (e3 ▸ k2)
      · rcases hb.idem hm r hr ⟨k1, k2⟩ with e | ⟨id, h, e⟩
        · exact e
        · obtain ⟨x, hx, _, _, _, _, ev⟩ := (CI.iidx r.cmn r.frm _).mp e
          simp only [Prod.mk.injEq] at ev
          have := oldLe x hx; omega
    · intro x hx; have := oldLe x hx; omega
  obtain ⟨I2, F2, R2⟩ := stage_fold c new st hc ⟨hi.gidx, CI.iidx, CI.sidx, CI.cidx, CI.uniq⟩ hfresh hb.apart
  have hc2 : c < st2.chans.length := by rw [F2.len]; exact hc
  -- st3: optional checkpoint, rows and indexes untouched
  have h3 : st3.chans.length = st.chans.length ∧ (st3.chan c).rows = (st.chan c).rows ++ new ∧
      (st3.chan c).ret = (st.chan c).ret ∧ (∀ c', c' ≠ c → st3.chan c' = st.chan c') ∧ Idx st3 c := by
    cases ck with
    | none => exact ⟨F2.len, R2, F2.ret, F2.other, I2⟩
    | some k =>
      show (st2.setChan c _).chans.length = _ ∧ _
      have e := chan_set_self st2 c { st2.chan c with ck := some k } hc2
      refine ⟨by rw [set_len, F2.len], by rw [e]; exact R2, by rw [e]; exact F2.ret,
        fun c' hne' => by rw [chan_set_ne _ _ _ _ hne', F2.other c' hne'], ?_⟩
      refine ⟨gagree_set st2 c _ hc2 rfl I2.g, ?_, ?_, ?_, ?_⟩ <;> rw [e]
      · exact I2.i
      · exact I2.s
      · exact I2.cc
      · exact I2.u
  obtain ⟨l3, r3, ret3, o3, I3⟩ := h3
  have hc3 : c < st3.chans.length := by rw [l3]; exact hc
  unfold setLeoC
  refine inv_assemble st _ c hi (by rw [set_len, l3]) (fun c' e => by rw [chan_set_ne _ _ _ _ e, o3 c' e]) ?_
    (gagree_set st3 c _ hc3 rfl I3.g)
  rw [chan_set_self _ _ _ hc3]
  have hn : new.length = recs.length := hb.len
  have hpos : 0 < new.length := List.length_pos_iff.mpr hne
  have retEq : retMax (st3.chan c) = retMax (st.chan c) := by unfold retMax; rw [ret3]
  have floorEq : floorOf (st3.chan c) = floorOf (st.chan c) := by unfold floorOf; rw [ret3]
  have retLe : retMax (st.chan c) ≤ leo := by rw [← hleo, recoverLEO_eq]; exact Nat.le_max_right _ _
  have newLEO : recoverLEO (st3.chan c) = leo + new.length := by
    apply recoverLEO_of
    · intro x hx
      rw [r3] at hx
      rcases List.mem_append.mp hx with hx | hx
      · have := oldLe x hx; omega
      · have := hb.lo x hx; omega
    · rw [retEq]; omega
    · left
      obtain ⟨x, hx, ex⟩ := hb.cover (leo + new.length) (by omega) (by omega)
      exact ⟨x, by rw [r3]; exact List.mem_append_right _ hx, ex⟩
  refine ⟨I3.u, ?_, ?_, ?_, ?_, ?_, I3.i, I3.s, I3.cc⟩
  · show (st3.chan c).rows.Pairwise _
    rw [r3, List.pairwise_append]
    refine ⟨CI.nodup, hb.apart.imp (fun h => h.2.1), ?_⟩
    intro a ha b hb'
    have := oldLe a ha; have := hb.lo b hb'; omega
  · intro x hx
    change x ∈ (st3.chan c).rows at hx
    rw [r3] at hx
    rcases List.mem_append.mp hx with hx | hx
    · exact CI.nz x hx
    · exact ⟨hb.nz x hx, by have := hb.lo x hx; omega⟩
  · intro s h1 h2
    change floorOf (st3.chan c) < s at h1
    change s ≤ recoverLEO (st3.chan c) at h2
    show ∃ r ∈ (st3.chan c).rows, r.seq = s
    rw [floorEq] at h1; rw [newLEO] at h2; rw [r3]
    by_cases hs' : s ≤ leo
    · obtain ⟨x, hx, ex⟩ := CI.noHoles s h1 (by rw [hleo]; exact hs')
      exact ⟨x, List.mem_append_left _ hx, ex⟩
    · obtain ⟨x, hx, ex⟩ := hb.cover s (by omega) (by omega)
      exact ⟨x, List.mem_append_right _ hx, ex⟩
  · intro l' e
    simp only [Option.some.injEq] at e
    show l' = recoverLEO (st3.chan c)
    rw [newLEO, ← e]
  · show floorOf (st3.chan c) ≤ retMax (st3.chan c)
    rw [floorEq, retEq]; exact CI.retOK

end WK.C07

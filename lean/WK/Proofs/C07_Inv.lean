import WK.Model.C07
/-
  C07 — the store invariant `Inv` and the lemmas needed to show that every
  operation of `WK.C07.step` preserves it (see WK.Theorems.C07 for the
  registered statements).
-/
namespace WK.C07

/-! ### association lists -/

theorem alookup_adel {κ ν} [DecidableEq κ] (k k' : κ) (l : List (κ × ν)) :
    alookup k' (adel k l) = if k = k' then none else alookup k' l := by
  induction l with
  | nil => simp [adel, alookup]
  | cons a t ih =>
    obtain ⟨ka, va⟩ := a
    unfold adel at ih ⊢
    by_cases h : ka = k
    · subst h
      simp only [List.filter_cons, ne_eq, not_true_eq_false, decide_false, Bool.false_eq_true, if_false]
      rw [ih]
      by_cases h2 : ka = k'
      · simp [h2]
      · simp [h2, alookup]
    · have : (decide ((ka, va).1 ≠ k)) = true := by simp [h]
      simp only [List.filter_cons, this, if_true]
      unfold alookup
      by_cases h2 : ka = k'
      · subst h2
        have hk : ¬ k = ka := fun e => h e.symm
        simp [hk]
      · simp only [h2, if_false]; exact ih

theorem alookup_aput {κ ν} [DecidableEq κ] (k k' : κ) (v : ν) (l : List (κ × ν)) :
    alookup k' (aput k v l) = if k = k' then some v else alookup k' l := by
  unfold aput
  show (if k = k' then some v else alookup k' (adel k l)) = _
  by_cases h : k = k'
  · simp [h]
  · simp [h, alookup_adel]

/-! ### maxSeq is the supremum of the row sequences -/

theorem foldmax_ge_init (rows : List Row) (m : Nat) :
    m ≤ rows.foldl (fun m r => if r.seq > m then r.seq else m) m := by
  induction rows generalizing m with
  | nil => exact Nat.le_refl _
  | cons a t ih =>
    simp only [List.foldl_cons]
    by_cases h : a.seq > m
    · rw [if_pos h]; exact Nat.le_trans (Nat.le_of_lt h) (ih _)
    · rw [if_neg h]; exact ih _

theorem foldmax_ge_mem (rows : List Row) (m : Nat) (r : Row) (hr : r ∈ rows) :
    r.seq ≤ rows.foldl (fun m r => if r.seq > m then r.seq else m) m := by
  induction rows generalizing m with
  | nil => cases hr
  | cons a t ih =>
    simp only [List.foldl_cons]
    rcases List.mem_cons.mp hr with e | e
    · subst e
      by_cases h : r.seq > m
      · rw [if_pos h]; exact foldmax_ge_init t _
      · rw [if_neg h]; exact Nat.le_trans (Nat.le_of_not_lt h) (foldmax_ge_init t _)
    · exact ih _ e

theorem foldmax_le (rows : List Row) (m b : Nat) (hm : m ≤ b) (hb : ∀ r ∈ rows, r.seq ≤ b) :
    rows.foldl (fun m r => if r.seq > m then r.seq else m) m ≤ b := by
  induction rows generalizing m with
  | nil => exact hm
  | cons a t ih =>
    simp only [List.foldl_cons]
    apply ih
    · by_cases h : a.seq > m
      · rw [if_pos h]; exact hb a List.mem_cons_self
      · rw [if_neg h]; exact hm
    · intro r hr; exact hb r (List.mem_cons_of_mem _ hr)

theorem le_maxSeq (rows : List Row) (r : Row) (hr : r ∈ rows) : r.seq ≤ maxSeq rows := foldmax_ge_mem rows 0 r hr
theorem maxSeq_le (rows : List Row) (b : Nat) (hb : ∀ r ∈ rows, r.seq ≤ b) : maxSeq rows ≤ b :=
  foldmax_le rows 0 b (Nat.zero_le _) hb

def retMax (ch : Chan) : Nat := match ch.ret with | some r => r.max | none => 0
def floorOf (ch : Chan) : Nat := match ch.ret with | some r => r.loc | none => 0

theorem recoverLEO_eq (ch : Chan) : recoverLEO ch = Nat.max (maxSeq ch.rows) (retMax ch) := by
  unfold recoverLEO retMax
  cases ch.ret with
  | none => simp [Nat.max_def]
  | some r => dsimp only; simp only [Nat.max_def]; split <;> split <;> omega

theorem le_recoverLEO (ch : Chan) (r : Row) (hr : r ∈ ch.rows) : r.seq ≤ recoverLEO ch := by
  rw [recoverLEO_eq]; exact Nat.le_trans (le_maxSeq _ _ hr) (Nat.le_max_left _ _)

/-- the supremum characterisation used to recompute the LEO after a mutation -/
theorem recoverLEO_of (ch : Chan) (l : Nat) (hub : ∀ r ∈ ch.rows, r.seq ≤ l) (hm : retMax ch ≤ l)
    (hatt : (∃ r ∈ ch.rows, r.seq = l) ∨ retMax ch = l) : recoverLEO ch = l := by
  rw [recoverLEO_eq]
  have h1 := maxSeq_le ch.rows l hub
  apply Nat.le_antisymm (Nat.max_le.mpr ⟨h1, hm⟩)
  rcases hatt with ⟨r, hr, e⟩ | e
  · exact Nat.le_trans (e ▸ le_maxSeq _ _ hr) (Nat.le_max_left _ _)
  · exact e ▸ Nat.le_max_right _ _

/-! ### scans -/

theorem scanGo_nolimit (l acc : List Row) (t : Nat) (r : List Row) (h : scanGo 0 0 l acc t = .ok r) :
    r = acc.reverse ++ l := by
  induction l generalizing acc t with
  | nil => simp only [scanGo, Except.ok.injEq] at h; simp [← h]
  | cons a rest ih =>
    unfold scanGo at h
    split at h
    · cases h
    · simp only [gt_iff_lt, Nat.lt_irrefl, false_and, if_false, ge_iff_le] at h
      have := ih _ _ h
      rw [this]; simp

theorem scanGo_subset (limit mb : Nat) (l acc : List Row) (t : Nat) (r : List Row) (h : scanGo limit mb l acc t = .ok r) :
    ∀ x ∈ r, x ∈ acc ∨ x ∈ l := by
  induction l generalizing acc t with
  | nil => simp only [scanGo, Except.ok.injEq] at h; intro x hx; rw [← h] at hx; exact Or.inl (List.mem_reverse.mp hx)
  | cons a rest ih =>
    unfold scanGo at h
    split at h
    · cases h
    · split at h
      · simp only [Except.ok.injEq] at h; intro x hx; rw [← h] at hx; exact Or.inl (List.mem_reverse.mp hx)
      · dsimp only at h
        split at h
        · simp only [Except.ok.injEq] at h
          intro x hx; rw [← h] at hx
          rcases List.mem_cons.mp (List.mem_reverse.mp hx) with e | e
          · exact Or.inr (e ▸ List.mem_cons_self)
          · exact Or.inl e
        · intro x hx
          rcases ih _ _ h x hx with e | e
          · rcases List.mem_cons.mp e with e | e
            · exact Or.inr (e ▸ List.mem_cons_self)
            · exact Or.inl e
          · exact Or.inr (List.mem_cons_of_mem _ e)

theorem mem_window (rows : List Row) (f m : Nat) (x : Row) :
    x ∈ window rows f m ↔ x ∈ rows ∧ f ≤ x.seq ∧ (m = 0 ∨ x.seq ≤ m) := by
  unfold window; simp [List.mem_filter]


/-! ### the invariant -/

def GAgree (st : Store) : Prop :=
  ∀ id c s, alookup id st.gidx = some (c, s) ↔ ∃ r ∈ (st.chan c).rows, r.id = id ∧ r.seq = s
def IAgree (ch : Chan) : Prop :=
  ∀ cmn frm v, alookup (cmn, frm) ch.iidx = some v ↔
    ∃ r ∈ ch.rows, r.cmn = cmn ∧ r.frm = frm ∧ frm ≠ [] ∧ cmn ≠ [] ∧ v = (r.seq, r.id, r.hash)
def SAgree (ch : Chan) : Prop :=
  ∀ frm s id, alookup (frm, s) ch.sidx = some id ↔ ∃ r ∈ ch.rows, r.frm = frm ∧ frm ≠ [] ∧ r.seq = s ∧ r.id = id
def CAgree (ch : Chan) : Prop :=
  ∀ cmn s, alookup (cmn, s) ch.cidx = some () ↔ ∃ r ∈ ch.rows, r.cmn = cmn ∧ cmn ≠ [] ∧ r.frm = [] ∧ r.seq = s
def SeqUnique (rows : List Row) : Prop := ∀ a ∈ rows, ∀ b ∈ rows, a.seq = b.seq → a = b

/-- per-channel part: unique sequences, non-zero ids, no hole between the logical
    retention floor and the log end, cached LEO = recovered LEO, retention state sane,
    and the three per-channel indexes agree with the rows in both directions -/
structure ChanInv (ch : Chan) : Prop where
  uniq : SeqUnique ch.rows
  nodup : ch.rows.Pairwise (fun a b => a.seq ≠ b.seq)
  nz : ∀ r ∈ ch.rows, r.id ≠ 0 ∧ r.seq ≠ 0
  noHoles : ∀ s, floorOf ch < s → s ≤ recoverLEO ch → ∃ r ∈ ch.rows, r.seq = s
  cache : ∀ l, ch.leoC = some l → l = recoverLEO ch
  retOK : floorOf ch ≤ retMax ch
  iidx : IAgree ch
  sidx : SAgree ch
  cidx : CAgree ch

structure Inv (st : Store) : Prop where
  len : st.chans.length = numChan
  chan : ∀ c, ChanInv (st.chan c)
  gidx : GAgree st

/-! ### basic store lemmas -/

theorem chan_set_self (st : Store) (c : Nat) (ch : Chan) (hc : c < st.chans.length) : (st.setChan c ch).chan c = ch := by
  unfold Store.setChan Store.chan
  simp [List.getD_eq_getElem?_getD, hc]

theorem chan_set_ne (st : Store) (c c' : Nat) (ch : Chan) (h : c' ≠ c) : (st.setChan c ch).chan c' = st.chan c' := by
  unfold Store.setChan Store.chan
  simp only [List.getD_eq_getElem?_getD]
  rw [List.getElem?_set_ne (Ne.symm h)]

theorem set_len (st : Store) (c : Nat) (ch : Chan) : (st.setChan c ch).chans.length = st.chans.length := by
  unfold Store.setChan; simp

theorem set_gidx (st : Store) (c : Nat) (ch : Chan) : (st.setChan c ch).gidx = st.gidx := rfl

/-- what `stageRow` does, component by component -/
theorem stageRow_spec (c : Nat) (st : Store) (row : Row) (hc : c < st.chans.length) :
    ((stageRow c st row).chan c).rows = (st.chan c).rows ++ [row] ∧
    ((stageRow c st row).chan c).cidx =
      (if row.cmn ≠ [] ∧ row.frm = [] then aput (row.cmn, row.seq) () (st.chan c).cidx else (st.chan c).cidx) ∧
    ((stageRow c st row).chan c).iidx =
      (if row.frm ≠ [] ∧ row.cmn ≠ [] then aput (row.cmn, row.frm) (row.seq, row.id, row.hash) (st.chan c).iidx else (st.chan c).iidx) ∧
    ((stageRow c st row).chan c).sidx =
      (if row.frm ≠ [] then aput (row.frm, row.seq) row.id (st.chan c).sidx else (st.chan c).sidx) ∧
    ((stageRow c st row).chan c).ret = (st.chan c).ret ∧ ((stageRow c st row).chan c).ck = (st.chan c).ck ∧
    ((stageRow c st row).chan c).leoC = (st.chan c).leoC ∧
    (stageRow c st row).gidx = aput row.id (c, row.seq) st.gidx ∧
    (stageRow c st row).chans.length = st.chans.length ∧
    (∀ c', c' ≠ c → (stageRow c st row).chan c' = st.chan c') := by
  unfold stageRow
  dsimp only
  have e : ∀ ch : Chan, (({ (st.setChan c ch) with gidx := aput row.id (c, row.seq) st.gidx } : Store).chan c) = ch :=
    fun ch => chan_set_self st c ch hc
  refine ⟨?_, ?_, ?_, ?_, ?_, ?_, ?_, rfl, set_len _ _ _, ?_⟩
  · rw [e]; split <;> split <;> split <;> rfl
  · rw [e]; split <;> split <;> split <;> simp_all
  · rw [e]; split <;> split <;> split <;> simp_all
  · rw [e]; split <;> split <;> split <;> simp_all
  · rw [e]; split <;> split <;> split <;> rfl
  · rw [e]; split <;> split <;> split <;> rfl
  · rw [e]; split <;> split <;> split <;> rfl
  · intro c' h; exact chan_set_ne _ _ _ _ h

/-- what `deleteRow` does, component by component -/
theorem deleteRow_spec (c : Nat) (st : Store) (row : Row) (hc : c < st.chans.length) :
    ((deleteRow c st row).chan c).rows = (st.chan c).rows.filter (fun r => r.seq ≠ row.seq) ∧
    ((deleteRow c st row).chan c).cidx =
      (if row.cmn ≠ [] ∧ row.frm = [] then adel (row.cmn, row.seq) (st.chan c).cidx else (st.chan c).cidx) ∧
    ((deleteRow c st row).chan c).iidx =
      (if row.frm ≠ [] ∧ row.cmn ≠ [] then adel (row.cmn, row.frm) (st.chan c).iidx else (st.chan c).iidx) ∧
    ((deleteRow c st row).chan c).sidx =
      (if row.frm ≠ [] then adel (row.frm, row.seq) (st.chan c).sidx else (st.chan c).sidx) ∧
    ((deleteRow c st row).chan c).ret = (st.chan c).ret ∧ ((deleteRow c st row).chan c).ck = (st.chan c).ck ∧
    ((deleteRow c st row).chan c).leoC = (st.chan c).leoC ∧
    (deleteRow c st row).gidx = (if row.id ≠ 0 then adel row.id st.gidx else st.gidx) ∧
    (deleteRow c st row).chans.length = st.chans.length ∧
    (∀ c', c' ≠ c → (deleteRow c st row).chan c' = st.chan c') := by
  unfold deleteRow
  dsimp only
  by_cases hid : row.id ≠ 0
  · simp only [if_pos hid]
    have e : ∀ ch : Chan, (({ (st.setChan c ch) with gidx := adel row.id (st.setChan c ch).gidx } : Store).chan c) = ch :=
      fun ch => chan_set_self st c ch hc
    refine ⟨?_, ?_, ?_, ?_, ?_, ?_, ?_, rfl, set_len _ _ _, ?_⟩
    · rw [e]; split <;> split <;> split <;> rfl
    · rw [e]; split <;> split <;> split <;> simp_all
    · rw [e]; split <;> split <;> split <;> simp_all
    · rw [e]; split <;> split <;> split <;> simp_all
    · rw [e]; split <;> split <;> split <;> rfl
    · rw [e]; split <;> split <;> split <;> rfl
    · rw [e]; split <;> split <;> split <;> rfl
    · intro c' h; exact chan_set_ne _ _ _ _ h
  · simp only [if_neg hid]
    have e : ∀ ch : Chan, ((st.setChan c ch).chan c) = ch := fun ch => chan_set_self st c ch hc
    refine ⟨?_, ?_, ?_, ?_, ?_, ?_, ?_, rfl, set_len _ _ _, ?_⟩
    · rw [e]; split <;> split <;> split <;> rfl
    · rw [e]; split <;> split <;> split <;> simp_all
    · rw [e]; split <;> split <;> split <;> simp_all
    · rw [e]; split <;> split <;> split <;> simp_all
    · rw [e]; split <;> split <;> split <;> rfl
    · rw [e]; split <;> split <;> split <;> rfl
    · rw [e]; split <;> split <;> split <;> rfl
    · intro c' h; exact chan_set_ne _ _ _ _ h

end WK.C07

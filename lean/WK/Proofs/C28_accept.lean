import WK.Spec.C28
/-
  C28 — soundness of the trace acceptor (the judge the driver runs): a trace
  accepted for session `s` satisfies the property predicates of `WK/Spec/C28.lean`.
-/
namespace WK.C28

/-- what the acceptor state knows about the prefix it has consumed -/
structure AInv (s : Nat) (a : Acc) (pre : List Ev) : Prop where
  hsent : a.sent = sentOf s pre
  hacks : acksOf s pre = a.sent.take a.acnt
  hle : a.acnt ≤ a.sent.length
  hnd : a.sent.Nodup
  hpush : (pushesOf s pre).Pairwise (· < ·) ∧ ∀ k ∈ pushesOf s pre, k ≤ a.lastPush
  hdr : Ev.drainRet 0 ∈ pre → a.drainOk = true

theorem ainv_init (s : Nat) : AInv s {} [] := by
  constructor <;> simp [sentOf, acksOf, pushesOf]

theorem sentOf_snoc (s : Nat) (pre : List Ev) (e : Ev) : sentOf s (pre ++ [e]) = sentOf s pre ++ sentOf s [e] := by
  simp [sentOf, List.filterMap_append]
theorem acksOf_snoc (s : Nat) (pre : List Ev) (e : Ev) : acksOf s (pre ++ [e]) = acksOf s pre ++ acksOf s [e] := by
  simp [acksOf, List.filterMap_append]
theorem pushesOf_snoc (s : Nat) (pre : List Ev) (e : Ev) : pushesOf s (pre ++ [e]) = pushesOf s pre ++ pushesOf s [e] := by
  simp [pushesOf, List.filterMap_append]

/-- an event that is neither sub/ack/push of `s` nor `drainRet 0`, with the relevant state untouched -/
theorem ainv_frame {s : Nat} {a a' : Acc} {pre : List Ev} {e : Ev} (hI : AInv s a pre)
    (h1 : sentOf s [e] = []) (h2 : acksOf s [e] = []) (h3 : pushesOf s [e] = []) (h4 : e ≠ Ev.drainRet 0)
    (hs : a'.sent = a.sent) (hc : a'.acnt = a.acnt) (hp : a'.lastPush = a.lastPush)
    (hd : a.drainOk = true → a'.drainOk = true) : AInv s a' (pre ++ [e]) := by
  constructor
  · rw [sentOf_snoc, h1, hs, hI.hsent]; simp
  · rw [acksOf_snoc, h2, hs, hc, ← hI.hacks]; simp
  · rw [hs, hc]; exact hI.hle
  · rw [hs]; exact hI.hnd
  · rw [pushesOf_snoc, h3, hp]; simpa using hI.hpush
  · intro hm
    rcases List.mem_append.mp hm with h | h
    · exact hd (hI.hdr h)
    · simp at h; exact absurd h.symm h4

theorem ainv_step {s : Nat} {a a' : Acc} {pre : List Ev} {e : Ev} (hI : AInv s a pre)
    (h : stepS s a e = .ok a') : AInv s a' (pre ++ [e]) := by
  cases e with
  | opened t => simp only [stepS] at h; cases h; exact ainv_frame hI rfl rfl rfl (by simp) rfl rfl rfl id
  | drainCall => simp only [stepS] at h; cases h; exact ainv_frame hI rfl rfl rfl (by simp) rfl rfl rfl id
  | stopCall => simp only [stepS] at h; cases h; exact ainv_frame hI rfl rfl rfl (by simp) rfl rfl rfl id
  | stopRet => simp only [stepS] at h; cases h; exact ainv_frame hI rfl rfl rfl (by simp) rfl rfl rfl id
  | pong t =>
    simp only [stepS] at h
    split at h
    · cases h
    · cases h; exact ainv_frame hI rfl rfl rfl (by simp) rfl rfl rfl id
  | other t =>
    simp only [stepS] at h
    split at h
    · cases h
    · cases h; exact ainv_frame hI rfl rfl rfl (by simp) rfl rfl rfl id
  | closed t =>
    simp only [stepS] at h
    split at h <;> cases h <;> exact ainv_frame hI rfl rfl rfl (by simp) rfl rfl rfl id
  | snap t o =>
    simp only [stepS] at h
    split at h
    · cases h; exact ainv_frame hI rfl rfl rfl (by simp) rfl rfl rfl id
    · split at h
      · cases h
      · cases h; exact ainv_frame hI rfl rfl rfl (by simp) rfl rfl rfl id
  | pushRet t k ok =>
    simp only [stepS] at h
    split at h
    · cases h; exact ainv_frame hI rfl rfl rfl (by simp) rfl rfl rfl id
    · split at h
      · cases h
      · split at h
        · cases h
        · cases h; exact ainv_frame hI rfl rfl rfl (by simp) rfl rfl rfl id
  | hand t n k =>
    simp only [stepS] at h
    split at h
    · cases h; exact ainv_frame hI rfl rfl rfl (by simp) rfl rfl rfl id
    · split at h
      · cases h
      · split at h
        · cases h
        · split at h
          · cases h
          · cases h; exact ainv_frame hI rfl rfl rfl (by simp) rfl rfl rfl id
  | drainRet r =>
    simp only [stepS] at h
    split at h
    · cases h
      constructor
      · rw [sentOf_snoc]; simpa [sentOf] using hI.hsent
      · rw [acksOf_snoc]; simpa [acksOf] using hI.hacks
      · exact hI.hle
      · exact hI.hnd
      · rw [pushesOf_snoc]; simpa [pushesOf] using hI.hpush
      · intro _; rfl
    · rename_i hr
      split at h <;> cases h <;> exact ainv_frame hI rfl rfl rfl (by simp [hr]) rfl rfl rfl id
  | sub t n =>
    simp only [stepS] at h
    split at h
    · rename_i hts
      cases h
      exact ainv_frame hI (by simp [sentOf, hts]) rfl rfl (by simp) rfl rfl rfl id
    · rename_i hts
      have hts : t = s := by simpa using hts
      subst hts
      split at h
      · cases h
      · rename_i hnc
        cases h
        have hnin : n ∉ a.sent := by simpa using hnc
        constructor
        · rw [sentOf_snoc, ← hI.hsent]; simp [sentOf]
        · rw [acksOf_snoc]
          simp only [acksOf, List.filterMap_cons, List.filterMap_nil, List.append_nil]
          rw [List.take_append_of_le_length hI.hle]
          exact hI.hacks
        · simp only [List.length_append, List.length_singleton]; have := hI.hle; omega
        · exact List.nodup_append.mpr ⟨hI.hnd, by simp, by
            intro x hx y hy; simp at hy; subst hy; exact fun hxy => hnin (hxy ▸ hx)⟩
        · rw [pushesOf_snoc]; simpa [pushesOf] using hI.hpush
        · intro hm
          rcases List.mem_append.mp hm with h | h
          · exact hI.hdr h
          · simp at h
  | ack t n r m noOk =>
    simp only [stepS] at h
    split at h
    · rename_i hts
      cases h
      exact ainv_frame hI rfl (by simp [acksOf, hts]) rfl (by simp) rfl rfl rfl id
    · rename_i hts
      have hts : t = s := by simpa using hts
      subst hts
      split at h
      · cases h
      · split at h
        · cases h
        · split at h
          · split at h
            · cases h
            · split at h <;> cases h
          · rename_i hget
            split at h
            · cases h
            · split at h
              · cases h
              · cases h
                have hget : a.sent[a.acnt]? = some n := by simpa using hget
                have hlt : a.acnt < a.sent.length := by
                  rcases Nat.lt_or_ge a.acnt a.sent.length with h | h
                  · exact h
                  · rw [List.getElem?_eq_none h] at hget; cases hget
                constructor
                · rw [sentOf_snoc]; simpa [sentOf] using hI.hsent
                · rw [acksOf_snoc, hI.hacks]
                  simp only [acksOf, List.filterMap_cons, List.filterMap_nil, if_true]
                  rw [List.take_add_one, hget]; rfl
                · exact hlt
                · exact hI.hnd
                · rw [pushesOf_snoc]; simpa [pushesOf] using hI.hpush
                · intro hm
                  rcases List.mem_append.mp hm with h | h
                  · exact hI.hdr h
                  · simp at h
  | push t k =>
    simp only [stepS] at h
    split at h
    · rename_i hts
      cases h
      exact ainv_frame hI rfl rfl (by simp [pushesOf, hts]) (by simp) rfl rfl rfl id
    · rename_i hts
      have hts : t = s := by simpa using hts
      subst hts
      split at h
      · cases h
      · split at h
        · cases h
        · rename_i hk
          cases h
          have hk : a.lastPush < k := by omega
          constructor
          · rw [sentOf_snoc]; simpa [sentOf] using hI.hsent
          · rw [acksOf_snoc]; simpa [acksOf] using hI.hacks
          · exact hI.hle
          · exact hI.hnd
          · rw [pushesOf_snoc]
            simp only [pushesOf, List.filterMap_cons, List.filterMap_nil, if_true]
            refine ⟨List.pairwise_append.mpr ⟨hI.hpush.1, by simp, ?_⟩, ?_⟩
            · intro x hx y hy
              simp at hy; subst hy
              have := hI.hpush.2 x hx; omega
            · intro x hx
              rcases List.mem_append.mp hx with h | h
              · have := hI.hpush.2 x h; omega
              · simp at h; omega
          · intro hm
            rcases List.mem_append.mp hm with h | h
            · exact hI.hdr h
            · simp at h

theorem runFrom_inv {s : Nat} : ∀ (post pre : List Ev) (a a' : Acc), AInv s a pre → runFrom s a post = .ok a' →
    AInv s a' (pre ++ post)
  | [], pre, a, a', hI, h => by simp [runFrom] at h; subst h; simpa using hI
  | e :: es, pre, a, a', hI, h => by
    simp only [runFrom] at h
    cases hs : stepS s a e with
    | error m => simp [hs] at h
    | ok a1 =>
      simp only [hs] at h
      have := runFrom_inv es (pre ++ [e]) a1 a' (ainv_step hI hs) h
      simpa using this

theorem runFrom_append {s : Nat} : ∀ (l1 l2 : List Ev) (a a' : Acc), runFrom s a (l1 ++ l2) = .ok a' →
    ∃ a1, runFrom s a l1 = .ok a1 ∧ runFrom s a1 l2 = .ok a'
  | [], l2, a, a', h => ⟨a, rfl, by simpa using h⟩
  | e :: es, l2, a, a', h => by
    simp only [List.cons_append, runFrom] at h ⊢
    cases hs : stepS s a e with
    | error m => simp [hs] at h
    | ok a1 => simp only [hs] at h ⊢; exact runFrom_append es l2 a1 a' h

/-- once `DrainSends` has returned nil the acceptor rejects every further dispatch / ack of the session -/
theorem quiet_after {s : Nat} : ∀ (post : List Ev) (a a' : Acc), a.drainOk = true → runFrom s a post = .ok a' →
    acksOf s post = [] ∧ handsOf s post = []
  | [], _, _, _, _ => by simp [acksOf, handsOf]
  | e :: es, a, a', hd, h => by
    simp only [runFrom] at h
    cases hs : stepS s a e with
    | error m => simp [hs] at h
    | ok a1 =>
      simp only [hs] at h
      have hd1 : a1.drainOk = true ∧ acksOf s [e] = [] ∧ handsOf s [e] = [] := by
        cases e <;> simp only [stepS] at hs
        case ack t n r m noOk =>
          by_cases hts : t = s
          · subst hts; simp [hd] at hs
            split at hs <;> simp at hs
          · simp [hts] at hs; subst hs; simp [hd, acksOf, handsOf, hts]
        case hand t n k =>
          by_cases hts : t = s
          · subst hts; simp [hd] at hs
          · simp [hts] at hs; subst hs; simp [hd, acksOf, handsOf, hts]
        all_goals (repeat' split at hs) <;> first
          | (cases hs; simp [hd, acksOf, handsOf]; done)
          | cases hs
      obtain ⟨ih1, ih2⟩ := quiet_after es a1 a' hd1.1 h
      have e0 : e :: es = [e] ++ es := rfl
      have e1 : acksOf s (e :: es) = acksOf s [e] ++ acksOf s es := by
        rw [e0]; simp only [acksOf, List.filterMap_append]
      have e2 : handsOf s (e :: es) = handsOf s [e] ++ handsOf s es := by
        rw [e0]; simp only [handsOf, List.filterMap_append]
      rw [e1, e2, hd1.2.1, hd1.2.2, ih1, ih2]; simp

end WK.C28

import WK.Proofs.C07_Ref7
/-
  C07 — `doTrunc` (under `SafeTrunc`) refines `specTrunc`.
-/
namespace WK.C07

theorem delete_fold_plain (c : Nat) (vs : List Row) (st : Store) (hc : c < st.chans.length) :
    ((vs.foldl (deleteRow c) st).chan c).rows = (st.chan c).rows.filter (fun r => vs.all (fun v => decide (r.seq ≠ v.seq))) ∧
    ((vs.foldl (deleteRow c) st).chan c).ret = (st.chan c).ret ∧
    ((vs.foldl (deleteRow c) st).chan c).ck = (st.chan c).ck ∧
    (vs.foldl (deleteRow c) st).chans.length = st.chans.length ∧
    (∀ c', c' ≠ c → (vs.foldl (deleteRow c) st).chan c' = st.chan c') := by
  induction vs generalizing st with
  | nil =>
    refine ⟨?_, rfl, rfl, rfl, fun _ _ => rfl⟩
    simp only [List.foldl_nil, List.all_nil]
    exact (List.filter_eq_self.mpr (fun _ _ => rfl)).symm
  | cons a t ih =>
    simp only [List.foldl_cons]
    obtain ⟨hrows, _, _, _, hret, hck, _, _, hlen, hother⟩ := deleteRow_spec c st a hc
    obtain ⟨r2, t2, k2, l2, o2⟩ := ih (deleteRow c st a) (by rw [hlen]; exact hc)
    refine ⟨?_, by rw [t2, hret], by rw [k2, hck], by rw [l2, hlen], fun c' e => by rw [o2 c' e, hother c' e]⟩
    rw [r2, hrows, List.filter_filter]
    apply List.filter_congr
    intro r _
    simp only [List.all_cons, Bool.and_comm]

theorem scanGo_ok_all (l acc : List Row) (t : Nat) (h : ∀ r ∈ l, rowCheck r = .ok ()) :
    scanGo 0 0 l acc t = .ok (acc.reverse ++ l) := by
  induction l generalizing acc t with
  | nil => simp [scanGo]
  | cons a rest ih =>
    unfold scanGo
    rw [h a List.mem_cons_self]
    simp only [gt_iff_lt, Nat.lt_irrefl, false_and, if_false, ge_iff_le]
    rw [ih _ _ (fun r hr => h r (List.mem_cons_of_mem _ hr))]
    simp

theorem refines_trunc (st : Store) (c f : Nat) (hi : Inv st) (hk : Chk st) (hs : SafeTrunc st c f) : Refines st (.trunc c f) := by
  unfold Refines
  show abs (doTrunc st c f).1 = (specTrunc (abs st) c f).1 ∧ (doTrunc st c f).2 = (specTrunc (abs st) c f).2 ∧ Chk (doTrunc st c f).1
  have If : Inv (doTrunc st c f).1 := doTrunc_inv st c f hi hs
  obtain ⟨hcn, _⟩ := hs
  have hD : doTrunc st c f =
      (if (if f = 0 then 1 else f) > (loadLEO (st.chan c)).1 then (loaded st c, Out.ok)
      else match readForward (loadLEO (st.chan c)).2.rows (if f = 0 then 1 else f) 0 0 0 with
        | .error e => (loaded st c, Out.err e)
        | .ok victims => (setLeoC (victims.foldl (deleteRow c) (loaded st c)) c ((if f = 0 then 1 else f) - 1), Out.ok)) := rfl
  rw [hD] at If ⊢
  unfold specTrunc
  generalize (if f = 0 then 1 else f) = f' at If ⊢
  obtain ⟨I1, g1, i1, r1, t1, k1, l1, v1, c1⟩ := loaded_facts st c hi hcn
  have hc : c < st.chans.length := by rw [hi.len]; exact hcn
  have hc1 : c < (loaded st c).chans.length := by rw [I1.len]; exact hcn
  have K1 := chk_loaded st c hk hc
  have A1 := abs_loaded st c hi hcn
  dsimp only
  rw [abs_leo]
  rw [v1] at If ⊢
  by_cases hgt : f' > recoverLEO (st.chan c)
  · rw [if_pos hgt, if_pos hgt]; exact ⟨A1, rfl, K1⟩
  rw [if_neg hgt] at If
  rw [if_neg hgt, if_neg hgt]
  have hrows1 : (loadLEO (st.chan c)).2.rows = (st.chan c).rows := (loadLEO_fields _).1
  have hrd : readForward (loadLEO (st.chan c)).2.rows f' 0 0 0 = .ok (window (st.chan c).rows f' 0) := by
    unfold readForward
    rw [hrows1, scanGo_ok_all _ _ _ (fun r hr => hk c r ((mem_window _ _ _ _).mp hr).1)]
    simp
  rw [hrd] at If ⊢
  dsimp only at If ⊢
  obtain ⟨r2, t2, k2, l2, o2⟩ := delete_fold_plain c (window (st.chan c).rows f' 0) (loaded st c) hc1
  generalize hst2 : (window (st.chan c).rows f' 0).foldl (deleteRow c) (loaded st c) = st2 at *
  have hc2 : c < st2.chans.length := by rw [l2]; exact hc1
  have hfin : (setLeoC st2 c (f' - 1)).chan c = { st2.chan c with leoC := some (f' - 1) } := chan_set_self _ _ _ hc2
  have hleo : recoverLEO ((setLeoC st2 c (f' - 1)).chan c) = f' - 1 := by
    have := (If.chan c).cache (f' - 1) (by rw [hfin]); exact this.symm
  have hfilter : (st2.chan c).rows = (st.chan c).rows.filter (fun r => decide (r.seq < f')) := by
    rw [r2, r1]
    apply List.filter_congr
    intro r hr
    by_cases hlt : r.seq < f'
    · simp only [hlt, decide_true, List.all_eq_true, decide_eq_true_eq]
      intro v hv; have := ((mem_window _ _ _ _).mp hv).2.1; omega
    · simp only [hlt, decide_false]
      cases hall : (window (st.chan c).rows f' 0).all (fun v => decide (r.seq ≠ v.seq)) with
      | false => rfl
      | true =>
        have := List.all_eq_true.mp hall r ((mem_window _ _ _ _).mpr ⟨hr, by omega, Or.inl rfl⟩)
        simp at this
  refine ⟨?_, rfl, ?_⟩
  · rw [abs_eq_of (loaded st c) (setLeoC st2 c (f' - 1)) c (by show (st2.setChan c _).chans.length = _; rw [set_len, l2])
      (fun c' e => by show (st2.setChan c _).chan c' = _; rw [chan_set_ne _ _ _ _ e, o2 c' e]), A1]
    congr 1
    unfold absChan
    rw [hleo, hfin, abs_chan]
    simp only [hfilter, t2, k2, t1, k1]
    rfl
  · intro c' r hr
    by_cases e : c' = c
    · subst e
      rw [hfin] at hr
      change r ∈ (st2.chan c').rows at hr
      rw [hfilter] at hr
      exact hk c' r (List.mem_filter.mp hr).1
    · have : (setLeoC st2 c (f' - 1)).chan c' = (loaded st c).chan c' := by
        show (st2.setChan c _).chan c' = _; rw [chan_set_ne _ _ _ _ e, o2 c' e]
      rw [this] at hr; exact K1 c' r hr

end WK.C07

import WK.Proofs.C33_Basic
/-
  C33: the expiry index (expiryByKey + buckets) is exactly the schedule of the
  active routes.  `Sched A K B` relates an active list to an index; it is
  preserved by unschedule / schedule / removeActive / upsert.
-/
namespace WK.C33

structure Sched (A : List Route) (K : List (Key × Int)) (B : List (Int × List Key)) : Prop where
  nodup : (A.map Route.key).Nodup
  byKey_iff : ∀ k t, aget k K = some t ↔ ∃ r ∈ A, r.key = k ∧ routeSeen r = t ∧ t ≠ 0
  bucket_iff : ∀ t k, (∃ ks, aget t B = some ks ∧ k ∈ ks) ↔ aget k K = some t
  sorted : BSorted B

def SlotIdx (s : Slot) : Prop := Sched s.active s.byKey s.buckets

/-! #### frame facts -/

local macro "unsched_frame" : tactic =>
  `(tactic| (unfold Slot.unschedule; (split <;> (try rfl)); (split <;> (try rfl)); simp only; (split <;> rfl)))

@[simp] theorem unschedule_active (s : Slot) (k : Key) : (s.unschedule k).active = s.active := by
  unsched_frame
@[simp] theorem unschedule_tomb (s : Slot) (k : Key) : (s.unschedule k).tomb = s.tomb := by
  unsched_frame
@[simp] theorem unschedule_pending (s : Slot) (k : Key) : (s.unschedule k).pending = s.pending := by
  unsched_frame
@[simp] theorem unschedule_ownerSeq (s : Slot) (k : Key) : (s.unschedule k).ownerSeq = s.ownerSeq := by
  unsched_frame
@[simp] theorem unschedule_target (s : Slot) (k : Key) : (s.unschedule k).target = s.target := by
  unsched_frame
@[simp] theorem unschedule_nextID (s : Slot) (k : Key) : (s.unschedule k).nextID = s.nextID := by
  unsched_frame

@[simp] theorem schedule_active (s : Slot) (k : Key) (r : Route) : (s.schedule k r).active = s.active := by
  unfold Slot.schedule; simp only; repeat' split <;> simp
@[simp] theorem schedule_tomb (s : Slot) (k : Key) (r : Route) : (s.schedule k r).tomb = s.tomb := by
  unfold Slot.schedule; simp only; repeat' split <;> simp
@[simp] theorem schedule_pending (s : Slot) (k : Key) (r : Route) : (s.schedule k r).pending = s.pending := by
  unfold Slot.schedule; simp only; repeat' split <;> simp
@[simp] theorem schedule_ownerSeq (s : Slot) (k : Key) (r : Route) : (s.schedule k r).ownerSeq = s.ownerSeq := by
  unfold Slot.schedule; simp only; repeat' split <;> simp
@[simp] theorem schedule_target (s : Slot) (k : Key) (r : Route) : (s.schedule k r).target = s.target := by
  unfold Slot.schedule; simp only; repeat' split <;> simp
@[simp] theorem schedule_nextID (s : Slot) (k : Key) (r : Route) : (s.schedule k r).nextID = s.nextID := by
  unfold Slot.schedule; simp only; repeat' split <;> simp

@[simp] theorem removeActive_active (s : Slot) (k : Key) : (s.removeActive k).active = delA k s.active := by
  simp [Slot.removeActive]
@[simp] theorem removeActive_tomb (s : Slot) (k : Key) : (s.removeActive k).tomb = s.tomb := by
  simp [Slot.removeActive]
@[simp] theorem removeActive_pending (s : Slot) (k : Key) : (s.removeActive k).pending = s.pending := by
  simp [Slot.removeActive]
@[simp] theorem removeActive_ownerSeq (s : Slot) (k : Key) : (s.removeActive k).ownerSeq = s.ownerSeq := by
  simp [Slot.removeActive]
@[simp] theorem removeActive_target (s : Slot) (k : Key) : (s.removeActive k).target = s.target := by
  simp [Slot.removeActive]
@[simp] theorem removeActive_nextID (s : Slot) (k : Key) : (s.removeActive k).nextID = s.nextID := by
  simp [Slot.removeActive]
@[simp] theorem removeActive_byKey (s : Slot) (k : Key) : (s.removeActive k).byKey = (s.unschedule k).byKey := by
  simp [Slot.removeActive]
@[simp] theorem removeActive_buckets (s : Slot) (k : Key) : (s.removeActive k).buckets = (s.unschedule k).buckets := by
  simp [Slot.removeActive]

theorem upsert_active (s : Slot) (r : Route) :
    (s.upsert r).active = delA (normalize r).key s.active ++ [normalize r] := by
  unfold Slot.upsert
  simp only [schedule_active]
  split
  · simp
  · rename_i h
    simp only [Bool.not_eq_true, Option.isSome_eq_false_iff, Option.isNone_iff_eq_none] at h
    rw [delA_eq_self (findA_none h)]
@[simp] theorem upsert_tomb (s : Slot) (r : Route) : (s.upsert r).tomb = s.tomb := by
  unfold Slot.upsert; simp only [schedule_tomb]; split <;> simp
@[simp] theorem upsert_pending (s : Slot) (r : Route) : (s.upsert r).pending = s.pending := by
  unfold Slot.upsert; simp only [schedule_pending]; split <;> simp
@[simp] theorem upsert_ownerSeq (s : Slot) (r : Route) : (s.upsert r).ownerSeq = s.ownerSeq := by
  unfold Slot.upsert; simp only [schedule_ownerSeq]; split <;> simp
@[simp] theorem upsert_target (s : Slot) (r : Route) : (s.upsert r).target = s.target := by
  unfold Slot.upsert; simp only [schedule_target]; split <;> simp
@[simp] theorem upsert_nextID (s : Slot) (r : Route) : (s.upsert r).nextID = s.nextID := by
  unfold Slot.upsert; simp only [schedule_nextID]; split <;> simp

/-! #### unschedule -/

theorem nodup_delA {A : List Route} (k : Key) (h : (A.map Route.key).Nodup) : ((delA k A).map Route.key).Nodup := by
  unfold delA
  exact (List.Nodup.sublist (List.Sublist.map _ List.filter_sublist) h)

theorem sched_unschedule {s : Slot} (k : Key) (h : Sched s.active s.byKey s.buckets) :
    Sched (delA k s.active) (s.unschedule k).byKey (s.unschedule k).buckets := by
  obtain ⟨hnd, hbk, hbu, hso⟩ := h
  unfold Slot.unschedule
  split
  · -- not indexed
    rename_i hk
    refine ⟨nodup_delA k hnd, ?_, hbu, hso⟩
    intro k' t
    rw [hbk]
    constructor
    · rintro ⟨r, hr, rfl, h2⟩
      refine ⟨r, mem_delA.mpr ⟨hr, ?_⟩, rfl, h2⟩
      intro hkk
      have := (hbk k t).mpr ⟨r, hr, hkk, h2⟩
      simp [hk] at this
    · rintro ⟨r, hr, h1, h2⟩
      exact ⟨r, (mem_delA.mp hr).1, h1, h2⟩
  · rename_i t hk
    have hbk' : ∀ k' t', aget k' (adel k s.byKey) = some t' ↔
        ∃ r ∈ delA k s.active, r.key = k' ∧ routeSeen r = t' ∧ t' ≠ 0 := by
      intro k' t'
      rw [aget_adel]
      by_cases hkk : k' = k
      · subst hkk
        simp only [if_true]
        constructor
        · intro h; simp at h
        · rintro ⟨r, hr, h1, _⟩
          exact absurd h1 (mem_delA.mp hr).2
      · simp only [hkk, if_false]
        rw [hbk]
        constructor
        · rintro ⟨r, hr, h1, h2⟩
          exact ⟨r, mem_delA.mpr ⟨hr, by rw [h1]; exact hkk⟩, h1, h2⟩
        · rintro ⟨r, hr, h1, h2⟩
          exact ⟨r, (mem_delA.mp hr).1, h1, h2⟩
    obtain ⟨ks, hks, hkin⟩ := (hbu t k).mpr hk
    rw [hks]
    simp only
    split
    · rename_i hemp
      refine ⟨nodup_delA k hnd, hbk', ?_, bsorted_adel hso⟩
      intro t' k'
      rw [aget_adel, aget_adel]
      by_cases htt : t' = t
      · subst htt
        simp only [if_true]
        constructor
        · rintro ⟨_, h, _⟩; simp at h
        · intro h
          exfalso
          by_cases hkk : k' = k
          · simp [hkk] at h
          · simp only [hkk, if_false] at h
            obtain ⟨ks2, hks2, hin2⟩ := (hbu t' k').mpr h
            rw [hks] at hks2
            cases hks2
            have : k' ∈ ks.filter (fun x => x ≠ k) := by simp [hin2, hkk]
            simp [List.isEmpty_iff] at hemp
            have hh := hemp k' hin2
            exact hkk hh
      · simp only [htt, if_false]
        rw [hbu]
        by_cases hkk : k' = k
        · subst hkk
          simp only [if_true]
          rw [hk]
          constructor
          · intro h; cases h; exact absurd rfl htt
          · intro h; simp at h
        · simp [hkk]
    · rename_i hne
      refine ⟨nodup_delA k hnd, hbk', ?_, bsorted_breplace hso⟩
      intro t' k'
      rw [aget_breplace, aget_adel]
      by_cases htt : t' = t
      · subst htt
        simp only [if_true, hks, Option.isSome_some]
        by_cases hkk : k' = k
        · subst hkk
          simp
        · simp only [hkk, if_false]
          rw [← hbu]
          constructor
          · rintro ⟨ks2, h2, hin⟩
            cases h2
            exact ⟨ks, hks, (List.mem_filter.mp hin).1⟩
          · rintro ⟨ks2, h2, hin⟩
            rw [hks] at h2; cases h2
            exact ⟨_, rfl, List.mem_filter.mpr ⟨hin, by simpa using hkk⟩⟩
      · simp only [htt, if_false]
        rw [hbu]
        by_cases hkk : k' = k
        · subst hkk
          simp only [if_true]
          rw [hk]
          constructor
          · intro h; cases h; exact absurd rfl htt
          · intro h; simp at h
        · simp [hkk]
  -- `aget t s.buckets = none` with `byKey k = some t` is impossible; handled by the split above

theorem unschedule_noop {s : Slot} {k : Key} (h : aget k s.byKey = none) : s.unschedule k = s := by
  unfold Slot.unschedule; simp [h]

/-! #### schedule -/

theorem sched_schedule {s : Slot} {A : List Route} {k : Key} {r : Route}
    (h : Sched A s.byKey s.buckets) (hk : ∀ r' ∈ A, r'.key ≠ k) (hrk : r.key = k) :
    Sched (A ++ [r]) (s.schedule k r).byKey (s.schedule k r).buckets := by
  obtain ⟨hnd, hbk, hbu, hso⟩ := h
  have hnone : aget k s.byKey = none := by
    cases hh : aget k s.byKey with
    | none => rfl
    | some t =>
      obtain ⟨r', hr', h1, _⟩ := (hbk k t).mp hh
      exact absurd h1 (hk r' hr')
  have hnd' : ((A ++ [r]).map Route.key).Nodup := by
    rw [List.map_append, List.nodup_append]
    refine ⟨hnd, by simp, ?_⟩
    intro a ha b hb
    simp at hb
    subst hb
    obtain ⟨r', hr', rfl⟩ := List.mem_map.mp ha
    rw [hrk]
    exact hk r' hr'
  unfold Slot.schedule
  simp only [unschedule_noop hnone]
  split
  · rename_i h0
    refine ⟨hnd', ?_, hbu, hso⟩
    intro k' t
    rw [hbk]
    constructor
    · rintro ⟨r', hr', h1, h2⟩
      exact ⟨r', List.mem_append_left _ hr', h1, h2⟩
    · rintro ⟨r', hr', h1, h2, h3⟩
      rcases List.mem_append.mp hr' with hr' | hr'
      · exact ⟨r', hr', h1, h2, h3⟩
      · simp at hr'; subst hr'; rw [h0] at h2; exact absurd h2.symm h3
  · rename_i h0
    have hbk' : ∀ k' t', aget k' (aset k (routeSeen r) s.byKey) = some t' ↔
        ∃ r' ∈ A ++ [r], r'.key = k' ∧ routeSeen r' = t' ∧ t' ≠ 0 := by
      intro k' t'
      rw [aget_aset]
      by_cases hkk : k' = k
      · subst hkk
        simp only [if_true]
        constructor
        · intro h; cases h
          exact ⟨r, by simp, hrk, rfl, h0⟩
        · rintro ⟨r', hr', h1, h2, _⟩
          rcases List.mem_append.mp hr' with hr' | hr'
          · exact absurd h1 (hk r' hr')
          · simp at hr'; subst hr'; rw [h2]
      · simp only [hkk, if_false]
        rw [hbk]
        constructor
        · rintro ⟨r', hr', h1, h2⟩
          exact ⟨r', List.mem_append_left _ hr', h1, h2⟩
        · rintro ⟨r', hr', h1, h2, h3⟩
          rcases List.mem_append.mp hr' with hr' | hr'
          · exact ⟨r', hr', h1, h2, h3⟩
          · simp at hr'; subst hr'; exact absurd (hrk ▸ h1).symm hkk
    split
    · rename_i hb
      refine ⟨hnd', hbk', ?_, bsorted_binsert hso hb⟩
      intro t' k'
      simp only
      rw [aget_binsert _ _ _ _ hb, aget_aset]
      by_cases htt : t' = routeSeen r
      · subst htt
        simp only [if_true]
        by_cases hkk : k' = k
        · subst hkk; simp
        · simp only [hkk, if_false]
          constructor
          · rintro ⟨ks, h, hin⟩; cases h; simp at hin; exact absurd hin hkk
          · intro h
            obtain ⟨ks, h1, _⟩ := (hbu _ _).mpr h
            rw [hb] at h1; cases h1
      · simp only [htt, if_false]
        rw [hbu]
        by_cases hkk : k' = k
        · subst hkk
          simp only [if_true, hnone]
          constructor
          · intro h; cases h
          · intro h; cases h; exact absurd rfl htt
        · simp [hkk]
    · rename_i ks hb
      refine ⟨hnd', hbk', ?_, bsorted_breplace hso⟩
      intro t' k'
      simp only
      rw [aget_breplace, aget_aset]
      by_cases htt : t' = routeSeen r
      · subst htt
        simp only [if_true, hb, Option.isSome_some]
        by_cases hkk : k' = k
        · subst hkk
          simp only [if_true]
          constructor
          · intro _; trivial
          · intro _
            refine ⟨_, rfl, ?_⟩
            split
            · rename_i hc; simpa using hc
            · simp
        · simp only [hkk, if_false]
          rw [← hbu]
          constructor
          · rintro ⟨ks2, h2, hin⟩
            cases h2
            refine ⟨ks, hb, ?_⟩
            split at hin
            · exact hin
            · simp at hin; rcases hin with hin | hin
              · exact hin
              · exact absurd hin hkk
          · rintro ⟨ks2, h2, hin⟩
            rw [hb] at h2; cases h2
            refine ⟨_, rfl, ?_⟩
            split
            · exact hin
            · simp [hin]
      · simp only [htt, if_false]
        rw [hbu]
        by_cases hkk : k' = k
        · subst hkk
          simp only [if_true, hnone]
          constructor
          · intro h; cases h
          · intro h; cases h; exact absurd rfl htt
        · simp [hkk]

/-! #### removeActive / upsert -/

theorem slotIdx_removeActive {s : Slot} (k : Key) (h : SlotIdx s) : SlotIdx (s.removeActive k) := by
  unfold SlotIdx
  simp only [removeActive_active, removeActive_byKey, removeActive_buckets]
  exact sched_unschedule k h

theorem slotIdx_upsert {s : Slot} (r : Route) (h : SlotIdx s) : SlotIdx (s.upsert r) := by
  unfold SlotIdx
  rw [upsert_active]
  unfold Slot.upsert
  simp only
  have key : ∀ s0 : Slot, Sched (delA (normalize r).key s.active) s0.byKey s0.buckets →
      Sched (delA (normalize r).key s.active ++ [normalize r])
        (({ s0 with active := s0.active ++ [normalize r] } : Slot).schedule (normalize r).key (normalize r)).byKey
        (({ s0 with active := s0.active ++ [normalize r] } : Slot).schedule (normalize r).key (normalize r)).buckets := by
    intro s0 h0
    exact sched_schedule (s := { s0 with active := s0.active ++ [normalize r] }) h0
      (fun r' hr' => (mem_delA.mp hr').2) rfl
  split
  · apply key
    have := slotIdx_removeActive (normalize r).key h
    unfold SlotIdx at this
    simpa using this
  · rename_i hn
    simp only [Bool.not_eq_true, Option.isSome_eq_false_iff, Option.isNone_iff_eq_none] at hn
    apply key
    rw [delA_eq_self (findA_none hn)]
    exact h

end WK.C33

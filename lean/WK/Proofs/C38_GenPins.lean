/-
  C38 — committed shape of the facts that extract/c38.go regenerates from
  pkg/backup/archive_verify.go / archive_v1.go into WK/Gen/C38.lean on every
  run: the ordered exits (path condition, action) of VerifyPublishedArchive,
  LoadPublishedArchiveMetadata, LoadStoredSlotReference, loadStoredSlotAtKey and
  ReadStoredObject, their per-return success flags, and DefaultHashSlotCount.
  The model WK.C38.verify was written against exactly this shape; an edit of the
  Go source that drops / reorders / weakens a guard, adds an early success
  return or a `continue`, or changes the SlotReference that is compared, breaks
  a `c38_gen_order_*` theorem.  (Update this file only together with the model.)
-/
namespace WK.C38.Pinned


/-- exits of VerifyPublishedArchive in source order -/
def verifyPublishedArchive : List (String × String) := [
  ("", "manifest,err:=LoadPublishedArchiveMetadata(ctx,store,backupID)"),
  ("err!=nil", "return ArchiveManifest{},err"),
  ("range manifest.Slots", "actual,_,err:=LoadStoredSlotReference(ctx,store,backupID,expected,true)"),
  ("range manifest.Slots && err!=nil", "return ArchiveManifest{},err"),
  ("range manifest.Slots && actual.HashSlot!=uint16(hashSlot)", "return ArchiveManifest{},fmt.Errorf(\"%w: Slot reference mismatch\",ErrObjectCorrupt)"),
  ("", "return manifest,nil")]

/-- per return of VerifyPublishedArchive in source order: does it return a nil error -/
def verifyPublishedArchiveReturns : List Bool := [false, false, false, true]

/-- exits of LoadPublishedArchiveMetadata in source order -/
def loadPublishedArchiveMetadata : List (String × String) := [
  ("store==nil||backupID==\"\"", "return ArchiveManifest{},ErrInvalidObject"),
  ("", "root:=\"backups/\"+backupID+\"/\""),
  ("", "corrupt,_,corruptErr:=store.Open(ctx,root+\"CORRUPT\")"),
  ("corruptErr==nil", "closeErr:=corrupt.Close()"),
  ("corruptErr==nil", "return ArchiveManifest{},errors.Join(fmt.Errorf(\"%w: archive is marked corrupt\",ErrObjectCorrupt),closeErr)"),
  ("!errors.Is(corruptErr,ErrObjectNotFound)", "return ArchiveManifest{},corruptErr"),
  ("", "manifestBody,err:=ReadStoredObject(ctx,store,root+\"manifest.json\",maxStoredManifestBytes)"),
  ("err!=nil", "return ArchiveManifest{},err"),
  ("", "markerBody,err:=ReadStoredObject(ctx,store,root+\"COMPLETE\",maxStoredManifestBytes)"),
  ("err!=nil", "return ArchiveManifest{},err"),
  ("_,err:=LoadCompleteMarker(markerBody,manifestBody);err!=nil", "return ArchiveManifest{},err"),
  ("", "manifest,err:=LoadArchiveManifest(manifestBody)"),
  ("err!=nil", "return ArchiveManifest{},err"),
  ("manifest.ID!=backupID", "return ArchiveManifest{},fmt.Errorf(\"%w: archive ID mismatch\",ErrObjectCorrupt)"),
  ("", "return manifest,nil")]

/-- per return of LoadPublishedArchiveMetadata in source order: does it return a nil error -/
def loadPublishedArchiveMetadataReturns : List Bool := [false, false, false, false, false, false, false, false, true]

/-- exits of LoadStoredSlotReference in source order -/
def loadStoredSlotReference : List (String × String) := [
  ("store==nil||int(expected.HashSlot)>=DefaultHashSlotCount||validateSlotManifestKey(expected.HashSlot,expected.ManifestKey)!=nil||validateSHA256(expected.ManifestSHA256)!=nil", "return SlotReference{},SlotManifest{},ErrInvalidObject"),
  ("", "actual,manifest,err:=loadStoredSlotAtKey(ctx,store,backupID,expected.HashSlot,expected.ManifestKey,verifyChunks)"),
  ("err!=nil", "return SlotReference{},SlotManifest{},err"),
  ("actual!=expected", "return SlotReference{},SlotManifest{},fmt.Errorf(\"%w: Slot reference mismatch\",ErrObjectCorrupt)"),
  ("", "return actual,manifest,nil")]

/-- per return of LoadStoredSlotReference in source order: does it return a nil error -/
def loadStoredSlotReferenceReturns : List Bool := [false, false, false, true]

/-- exits of loadStoredSlotAtKey in source order -/
def loadStoredSlotAtKey : List (String × String) := [
  ("", "body,err:=ReadStoredObject(ctx,store,\"backups/\"+backupID+\"/\"+relativeManifestKey,maxStoredManifestBytes)"),
  ("err!=nil", "return SlotReference{},SlotManifest{},err"),
  ("", "manifest,err:=LoadSlotManifest(body)"),
  ("err!=nil", "return SlotReference{},SlotManifest{},err"),
  ("manifest.HashSlot!=hashSlot", "return SlotReference{},SlotManifest{},fmt.Errorf(\"%w: Hash Slot manifest mismatch\",ErrObjectCorrupt)"),
  ("verifyChunks && range manifest.Chunks", "reader,object,err:=store.Open(ctx,\"backups/\"+backupID+\"/\"+chunk.Key)"),
  ("verifyChunks && range manifest.Chunks && err!=nil", "return SlotReference{},SlotManifest{},err"),
  ("verifyChunks && range manifest.Chunks && object.Bytes!=chunk.Descriptor.StoredBytes", "_=reader.Close()"),
  ("verifyChunks && range manifest.Chunks && object.Bytes!=chunk.Descriptor.StoredBytes", "return SlotReference{},SlotManifest{},fmt.Errorf(\"%w: stored chunk size\",ErrObjectCorrupt)"),
  ("verifyChunks && range manifest.Chunks", "decodeErr:=DecodeChunk(io.Discard,reader,chunk.Descriptor)"),
  ("verifyChunks && range manifest.Chunks", "closeErr:=reader.Close()"),
  ("verifyChunks && range manifest.Chunks && decodeErr!=nil||closeErr!=nil", "return SlotReference{},SlotManifest{},errors.Join(decodeErr,closeErr)"),
  ("", "sum:=sha256.Sum256(body)"),
  ("", "return SlotReference{HashSlot:hashSlot,ManifestKey:relativeManifestKey,ManifestSHA256:hex.EncodeToString(sum[:]),LogicalBytes:manifest.LogicalBytes,StoredBytes:manifest.StoredBytes,Records:manifest.Records,MaxMessageID:manifest.MaxMessageID},manifest,nil")]

/-- per return of loadStoredSlotAtKey in source order: does it return a nil error -/
def loadStoredSlotAtKeyReturns : List Bool := [false, false, false, false, false, false, true]

/-- exits of ReadStoredObject in source order -/
def readStoredObject : List (String × String) := [
  ("", "reader,object,err:=store.Open(ctx,key)"),
  ("err!=nil", "return nil,err"),
  ("object.Bytes==0||object.Bytes>maxBytes", "_=reader.Close()"),
  ("object.Bytes==0||object.Bytes>maxBytes", "return nil,fmt.Errorf(\"%w: object size\",ErrObjectCorrupt)"),
  ("", "body,readErr:=io.ReadAll(io.LimitReader(reader,int64(maxBytes)+1))"),
  ("", "closeErr:=reader.Close()"),
  ("readErr!=nil||closeErr!=nil", "return nil,errors.Join(readErr,closeErr)"),
  ("uint64(len(body))!=object.Bytes||uint64(len(body))>maxBytes", "return nil,fmt.Errorf(\"%w: object size mismatch\",ErrObjectCorrupt)"),
  ("", "return body,nil")]

/-- per return of ReadStoredObject in source order: does it return a nil error -/
def readStoredObjectReturns : List Bool := [false, false, false, false, true]

/-- DefaultHashSlotCount of archive_v1.go -/
def hashSlotCount : Nat := 256

end WK.C38.Pinned

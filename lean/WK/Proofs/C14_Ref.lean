import WK.Proofs.C14_Lists
/-
  C14 — the reference store's invariant under Raft-valid operations.
-/
namespace WK.C14

/-- invariant of the reference store on Raft-valid histories -/
structure RInv (m : RaftStore) : Prop where
  consec : consecutiveFrom (m.snapshot.index + 1) m.entries = true
  terms : ∀ e ∈ m.entries, 1 ≤ e.term
  snapNone : m.snapshot.index = 0 → m.snapshot = Snap.none
  snapSome : m.snapshot.index ≠ 0 → 1 ≤ m.snapshot.term ∧ m.snapshot.conf.canonical = true
  bound : m.snapshot.index + m.entries.length < maxU64

theorem rinv_init : RInv {} := by
  constructor <;> simp [Snap.none, consecutiveFrom, maxU64]

theorem lastIndex_eq (m : RaftStore) (h : RInv m) :
    m.lastIndex = m.snapshot.index + m.entries.length := by
  unfold RaftStore.lastIndex
  rcases consec_getLast _ _ h.consec with ⟨hn, he⟩ | ⟨l, hl, hi⟩
  · rw [hn, he]; simp
  · rw [hl]; simp only; omega

theorem firstIndex_eq (m : RaftStore) (h : RInv m) : m.firstIndex = m.snapshot.index + 1 := by
  unfold RaftStore.firstIndex
  cases hm : m.entries with
  | nil =>
    simp only
    by_cases h0 : m.snapshot.index = 0
    · simp [h0]
    · have := h.bound
      simp only [h0, ne_eq, not_false_eq_true, if_true]
      apply Nat.mod_eq_of_lt; omega
  | cons e es =>
    have := h.consec
    rw [hm, consec_cons] at this
    simpa using this.1

theorem rinv_hard (m : RaftStore) (h : RInv m) (hd : Hard) : RInv { m with hard := hd } :=
  ⟨h.consec, h.terms, h.snapNone, h.snapSome, h.bound⟩

/-- installing a valid snapshot keeps the invariant; the log is cut to `drop` -/
theorem save_snap_entries (m : RaftStore) (h : RInv m) (s : Snap) :
    trimAfter m.entries s.index = m.entries.drop (s.index - m.snapshot.index) := by
  unfold trimAfter
  rw [filter_gt_eq_drop (m.snapshot.index + 1) s.index m.entries h.consec]
  congr 1; omega

theorem canonical_of_eq {s t : Snap} (h : (s == t) = true) : s = t := by
  simpa using h

theorem rinv_save_snap (m : RaftStore) (h : RInv m) (hs : Option Hard) (s : Snap)
    (hv : validSnap m s = true) : RInv (m.save hs (some s) []) := by
  simp only [validSnap, Bool.and_eq_true, Bool.or_eq_true, decide_eq_true_eq] at hv
  obtain ⟨⟨⟨hidx, hmax⟩, hterm⟩, hcanon⟩ := hv
  have hmax' : s.index < maxU64 := hmax
  have hent : ∀ (m' : RaftStore), m'.entries = m.entries → m'.snapshot = m.snapshot →
      RInv { m' with snapshot := s, entries := trimAfter m'.entries s.index } := by
    intro m' he hsn
    rw [he]
    rw [save_snap_entries m h s]
    have hs0 : s.index ≠ 0 := by
      rcases hidx with hlt | ⟨hne, _⟩
      · omega
      · simpa using hne
    constructor
    · simp only
      have := consec_drop (m.snapshot.index + 1) (s.index - m.snapshot.index) m.entries h.consec
      rcases hidx with hlt | ⟨_, heq⟩
      · have e1 : m.snapshot.index + 1 + (s.index - m.snapshot.index) = s.index + 1 := by omega
        rwa [e1] at this
      · have := canonical_of_eq heq
        subst this
        simpa using h.consec
    · intro e he'
      exact h.terms e (List.mem_of_mem_drop he')
    · intro h0; exact absurd h0 hs0
    · intro _; exact ⟨hterm, hcanon⟩
    · simp only [List.length_drop]
      have := h.bound
      omega
  unfold RaftStore.save
  cases hs with
  | none =>
    simp only
    split
    · exact rinv_hard _ (hent m rfl rfl) _
    · exact hent m rfl rfl
  | some hd =>
    simp only
    split
    · exact rinv_hard _ (hent { m with hard := hd } rfl rfl) _
    · exact hent { m with hard := hd } rfl rfl

theorem save_nil_entries (m : RaftStore) (hs : Option Hard) :
    (m.save hs none []).entries = m.entries ∧ (m.save hs none []).snapshot = m.snapshot := by
  unfold RaftStore.save; cases hs <;> simp

/-- appending / overwriting a suffix: old prefix below the first new index ++ new entries -/
theorem replaceFrom_eq (m : RaftStore) (h : RInv m) (e : Entry) (es : List Entry) :
    replaceFrom m.entries e.index (e :: es) =
      m.entries.take (e.index - (m.snapshot.index + 1)) ++ (e :: es) := by
  unfold replaceFrom
  rw [takeWhile_lt_eq_take _ _ _ h.consec]

/-- the entries part of `save` -/
def setEnts (m : RaftStore) (ents : List Entry) : RaftStore :=
  match ents with
  | [] => m
  | e :: _ => { m with entries := replaceFrom m.entries e.index ents }

theorem rinv_set_entries (m : RaftStore) (h : RInv m) (ents : List Entry)
    (hv : validEnts m ents = true) : RInv (setEnts m ents) := by
  unfold setEnts
  cases ents with
  | nil => exact h
  | cons e es =>
    simp only [validEnts, Bool.and_eq_true, decide_eq_true_eq, List.all_eq_true] at hv
    obtain ⟨⟨⟨⟨hc, ht⟩, hlo⟩, hhi⟩, hb⟩ := hv
    rw [lastIndex_eq m h] at hhi
    simp only
    rw [replaceFrom_eq m h]
    have hlen : (m.entries.take (e.index - (m.snapshot.index + 1))).length = e.index - (m.snapshot.index + 1) := by
      rw [List.length_take]; omega
    constructor
    · simp only
      rw [consec_append]
      refine ⟨consec_take _ _ _ h.consec, ?_⟩
      rw [hlen]
      have : m.snapshot.index + 1 + (e.index - (m.snapshot.index + 1)) = e.index := by omega
      rw [this]; exact hc
    · intro x hx
      simp only at hx
      rcases List.mem_append.1 hx with hx | hx
      · exact h.terms x (List.mem_of_mem_take hx)
      · exact ht x hx
    · exact h.snapNone
    · exact h.snapSome
    · simp only [List.length_append, hlen]
      simp only [List.length_cons] at hb ⊢
      omega

theorem save_decomp (m : RaftStore) (hs : Option Hard) (snap : Option Snap) (ents : List Entry) :
    m.save hs snap ents = setEnts (m.save hs snap []) ents := by
  cases ents with
  | nil => rfl
  | cons e es => simp [RaftStore.save, setEnts]

theorem rinv_save (m : RaftStore) (h : RInv m) (hs : Option Hard) (snap : Option Snap) (ents : List Entry)
    (hv : validSave m hs snap ents = true) : RInv (m.save hs snap ents) := by
  simp only [validSave, Bool.and_eq_true] at hv
  obtain ⟨⟨hsn, hen⟩, _⟩ := hv
  have h1 : RInv (m.save hs snap []) := by
    cases snap with
    | none =>
      have := save_nil_entries m hs
      exact ⟨by rw [this.1, this.2]; exact h.consec, by rw [this.1]; exact h.terms,
             by rw [this.2]; exact h.snapNone, by rw [this.2]; exact h.snapSome,
             by rw [this.1, this.2]; exact h.bound⟩
    | some s => exact rinv_save_snap m h hs s hsn
  rw [save_decomp]
  exact rinv_set_entries _ h1 ents hen

theorem rinv_step (m : RaftStore) (h : RInv m) (op : Op) (hv : validOp m op = true) :
    RInv (stepM m op) := by
  cases op with
  | save hs sn es => exact rinv_save m h hs sn es hv
  | repl s =>
    simp only [validOp, validReplace, Bool.and_eq_true, decide_eq_true_eq, ne_eq,
      beq_iff_eq] at hv
    obtain ⟨⟨⟨⟨⟨⟨h0, happ⟩, hle⟩, hmax⟩, hterm⟩, hcanon⟩, _⟩ := hv
    have hne : ¬ (s.index = 0 ∨ s.index ≠ m.applied) := by
      intro h'; rcases h' with h' | h'
      · exact h0 h'
      · exact h' happ
    have ht : s.term ≠ 0 := by omega
    have hlt : ¬ s.index < m.snapshot.index := by omega
    simp only [stepM, stepM?, RaftStore.replaceSnapshot, hne, ht, hlt, if_false, Option.getD_some]
    -- a replacement at an index ≥ the current one: either a newer snapshot or the same index
    by_cases hgt : m.snapshot.index < s.index
    · exact rinv_save_snap m h none s (by simp [validSnap, hgt, hmax, hterm, hcanon])
    · -- same index: entries are already all above it; only the snapshot record changes
      have heq : s.index = m.snapshot.index := by omega
      unfold RaftStore.save
      simp only
      have htrim : trimAfter m.entries s.index = m.entries := by
        rw [save_snap_entries m h s, heq]; simp
      have base : RInv { m with snapshot := s, entries := trimAfter m.entries s.index } := by
        rw [htrim]
        exact ⟨by simpa [heq] using h.consec, h.terms, fun h' => absurd h' h0,
               fun _ => ⟨hterm, hcanon⟩, by simpa [heq] using h.bound⟩
      split
      · exact rinv_hard _ base _
      · exact base
  | mark i => exact ⟨h.consec, h.terms, h.snapNone, h.snapSome, h.bound⟩
  | cmark i => exact ⟨h.consec, h.terms, h.snapNone, h.snapSome, h.bound⟩
  | reopen => exact h
  | dump => exact h

theorem rinv_run (m : RaftStore) (h : RInv m) (ops : List Op) (hv : validRun m ops = true) :
    RInv (runM m ops) := by
  induction ops generalizing m with
  | nil => exact h
  | cons op ops ih =>
    simp only [validRun, Bool.and_eq_true] at hv
    exact ih (stepM m op) (rinv_step m h op hv.1) hv.2

end WK.C14

import WK.Proofs.C09_Crash
/-
  C09 — entry-local well-formedness (`WF`) is preserved by every mutation batch.
-/
namespace WK.C09

/-- entry-local well-formedness: what the decoders of pkg/db/message insist on
    (`validateRetentionState`, `validateCheckpoint`, key/value agreement of the
    proposal pair and of entry identities), so no load fails closed -/
def WF : Key → Val → Prop
  | .ret _, .ret l p m => p ≤ l ∧ l ≤ m ∧ 0 < l
  | .ckpt _, .ckpt _ st hw => st ≤ hw
  | .cat _, .nat n => n = 1
  | .cno _ _ q, .nat n => n = q
  | .pl _ last, .prop b l _ _ _ => l = last ∧ b < l
  | .pc _ cmd, .prop b l c _ _ => c = cmd ∧ b < l
  | .ent _ idx, .ent i _ _ _ => i = idx
  | .row _ _, .row _ _ _ _ _ => True
  | .gid _, .gid _ _ => True
  | .idem _ _ _, .idem _ _ => True
  | .sseq _ _ _, .nat _ => True
  | .cur _, .nat _ => True
  | _, _ => False

theorem mem_of_get (s : Store) (k : Key) (v : Val) (h : get s k = some v) : (k, v) ∈ s := by
  unfold get at h
  induction s with
  | nil => simp [List.lookup] at h
  | cons e t ih =>
    obtain ⟨a, b⟩ := e
    by_cases hk : k = a
    · subst hk; simp [List.lookup] at h; subst h; exact List.mem_cons_self
    · have hb : (k == a) = false := by simpa using hk
      simp only [List.lookup, hb] at h
      exact List.mem_cons_of_mem _ (ih h)

theorem wf_rowWrites (ch seq : Nat) (r : Rec) (k : Key) (v : Val) (h : W.put k v ∈ rowWrites ch seq r) : WF k v := by
  unfold rowWrites at h
  simp only [List.mem_append, List.mem_cons, List.mem_nil_iff, or_false, W.put.injEq] at h
  rcases h with (((h | h) | h) | h) | h
  · obtain ⟨rfl, rfl⟩ := h; trivial
  · obtain ⟨rfl, rfl⟩ := h; trivial
  · split at h
    · simp at h; obtain ⟨rfl, rfl⟩ := h; rfl
    · simp at h
  · split at h
    · simp at h; obtain ⟨rfl, rfl⟩ := h; trivial
    · simp at h
  · split at h
    · simp at h; obtain ⟨rfl, rfl⟩ := h; trivial
    · simp at h

theorem wf_rowsWrites (ch base : Nat) (recs : List Rec) (k : Key) (v : Val)
    (h : W.put k v ∈ rowsWrites ch base recs) : WF k v := by
  unfold rowsWrites at h
  simp only [List.mem_flatten, List.mem_map] at h
  obtain ⟨l, ⟨⟨r, i⟩, _, rfl⟩, hm⟩ := h
  exact wf_rowWrites _ _ _ _ _ hm

theorem no_put_rowDeletes (ch q : Nat) (x : Val) (k : Key) (v : Val) : W.put k v ∉ rowDeletes ch q x := by
  cases x <;> simp [rowDeletes]
  repeat' (first | constructor | (split <;> simp))

theorem no_put_deleteSeqs (s : Store) (ch : Nat) (seqs : List Nat) (k : Key) (v : Val) :
    W.put k v ∉ deleteSeqs s ch seqs := by
  unfold deleteSeqs
  simp only [List.mem_flatten, List.mem_map, not_exists, not_and]
  rintro l ⟨q, _, rfl⟩
  split
  · exact no_put_rowDeletes _ _ _ _ _
  · simp

theorem wf_entryWrites (ch base cmd term pterm n : Nat) (k : Key) (v : Val)
    (h : W.put k v ∈ entryWrites ch base cmd term pterm n) : WF k v := by
  unfold entryWrites at h
  simp only [List.mem_map, List.mem_range, W.put.injEq] at h
  obtain ⟨i, _, rfl, rfl⟩ := h
  rfl

theorem wf_catalogW (ch base : Nat) (k : Key) (v : Val) (h : W.put k v ∈ catalogW ch base) : WF k v := by
  unfold catalogW at h
  split at h
  · simp at h; obtain ⟨rfl, rfl⟩ := h; rfl
  · simp at h


theorem curCkpt_wf (s : Store) (ch : Nat) (hs : AllEntries WF s) :
    (curCkpt s ch).2.1 ≤ (curCkpt s ch).2.2.1 := by
  unfold curCkpt
  split
  · next e st hw hg => exact hs _ (mem_of_get _ _ _ hg)
  · simp

theorem curRet_wf (s : Store) (ch : Nat) (hs : AllEntries WF s) (hp : (curRet s ch).2.2.2 = true) :
    (curRet s ch).2.1 ≤ (curRet s ch).1 ∧ (curRet s ch).1 ≤ (curRet s ch).2.2.1 ∧ 0 < (curRet s ch).1 := by
  unfold curRet at hp ⊢
  split at hp
  · next l p m hg =>
    exact hs _ (mem_of_get _ _ _ hg)
  · simp at hp

theorem curRet_absent (s : Store) (ch : Nat) (hp : (curRet s ch).2.2.2 = false) :
    curRet s ch = (0, 0, 0, false) := by
  unfold curRet at hp ⊢
  cases hg : get s (.ret ch) with
  | none => rfl
  | some v => cases v <;> simp_all

theorem wf_plan_app (s : Store) (ch mode : Nat) (recs : List Rec) (k : Key) (v : Val)
    (h : W.put k v ∈ (plan s (.app ch mode recs)).2) : WF k v := by
  unfold plan at h
  simp only at h
  split at h
  · simp at h
  · split at h
    · simp at h
    · simp only [List.mem_append] at h
      rcases h with h | h
      · exact wf_rowsWrites _ _ _ _ _ h
      · exact wf_catalogW _ _ _ _ h


structure BatchWF (b : List W) : Prop where
  h : ∀ k v, W.put k v ∈ b → WF k v

theorem bwf_nil : BatchWF [] := ⟨by intro k v h; simp at h⟩
theorem bwf_append {a b : List W} (ha : BatchWF a) (hb : BatchWF b) : BatchWF (a ++ b) := by
  refine ⟨?_⟩
  intro k v h; rcases List.mem_append.1 h with h | h
  · exact ha.h k v h
  · exact hb.h k v h
theorem bwf_cons_put {k : Key} {v : Val} {b : List W} (h : WF k v) (hb : BatchWF b) : BatchWF (W.put k v :: b) := by
  refine ⟨?_⟩
  intro k' v' hm
  rcases List.mem_cons.1 hm with hm | hm
  · cases hm; exact h
  · exact hb.h _ _ hm
theorem bwf_cons_del {k : Key} {b : List W} (hb : BatchWF b) : BatchWF (W.del k :: b) := by
  refine ⟨?_⟩
  intro k' v' hm
  rcases List.mem_cons.1 hm with hm | hm
  · cases hm
  · exact hb.h _ _ hm
theorem bwf_cons_delEnt {c f : Nat} {b : List W} (hb : BatchWF b) : BatchWF (W.delEntFrom c f :: b) := by
  refine ⟨?_⟩
  intro k' v' hm
  rcases List.mem_cons.1 hm with hm | hm
  · cases hm
  · exact hb.h _ _ hm
theorem bwf_ite {c : Prop} [Decidable c] {a b : List W} (ha : c → BatchWF a) (hb : ¬ c → BatchWF b) :
    BatchWF (if c then a else b) := by
  split
  · exact ha ‹_›
  · exact hb ‹_›
theorem bwf_rows (ch base : Nat) (recs : List Rec) : BatchWF (rowsWrites ch base recs) :=
  ⟨fun _ _ h => wf_rowsWrites _ _ _ _ _ h⟩
theorem bwf_catalog (ch base : Nat) : BatchWF (catalogW ch base) := ⟨fun _ _ h => wf_catalogW _ _ _ _ h⟩
theorem bwf_entries (ch base cmd term pterm n : Nat) : BatchWF (entryWrites ch base cmd term pterm n) :=
  ⟨fun _ _ h => wf_entryWrites _ _ _ _ _ _ _ _ h⟩
theorem bwf_deleteSeqs (s : Store) (ch : Nat) (seqs : List Nat) : BatchWF (deleteSeqs s ch seqs) :=
  ⟨fun _ _ h => absurd h (no_put_deleteSeqs _ _ _ _ _)⟩

theorem bwf_app (s : Store) (ch mode : Nat) (recs : List Rec) : BatchWF (plan s (.app ch mode recs)).2 := by
  unfold plan
  simp only
  split
  · exact bwf_nil
  · split
    · exact bwf_nil
    · exact bwf_append (bwf_rows _ _ _) (bwf_catalog _ _)

theorem bwf_ckptAdvance (s : Store) (ch h : Nat) (hs : AllEntries WF s) : BatchWF (ckptAdvance s ch h) := by
  have hck := curCkpt_wf s ch hs
  unfold ckptAdvance
  split
  · apply bwf_cons_put _ bwf_nil
    show (curCkpt s ch).2.1 ≤ h
    omega
  · exact bwf_nil

theorem bwf_fetch (s : Store) (ch : Nat) (hw : Option Nat) (recs : List Rec) (hs : AllEntries WF s) :
    BatchWF (plan s (.fetch ch hw recs)).2 := by
  unfold plan
  simp only
  repeat' split
  all_goals first
    | exact bwf_nil
    | exact bwf_append (bwf_append (bwf_rows _ _ _) (bwf_ckptAdvance _ _ _ hs)) (bwf_cons_put rfl bwf_nil)
    | exact bwf_append (bwf_append (bwf_rows _ _ _) (bwf_ckptAdvance _ _ _ hs)) (bwf_catalog _ _)
    | exact bwf_append (bwf_append (bwf_rows _ _ _) bwf_nil) (bwf_cons_put rfl bwf_nil)
    | exact bwf_append (bwf_append (bwf_rows _ _ _) bwf_nil) (bwf_catalog _ _)

theorem bwf_xapp (s : Store) (ch cmd term committed mode : Nat) (recs : List Rec) (hs : AllEntries WF s) :
    BatchWF (plan s (.xapp ch cmd term committed mode recs)).2 := by
  unfold plan
  simp only
  repeat' split
  all_goals first
    | exact bwf_nil
    | skip
  next hn _ _ _ =>
    apply bwf_append _ (bwf_catalog _ _)
    apply bwf_append _ (bwf_entries _ _ _ _ _ _)
    apply bwf_append
    · exact bwf_append (bwf_rows _ _ _) (bwf_ckptAdvance _ _ _ hs)
    · apply bwf_cons_put
      · exact ⟨rfl, by have : recs.length ≠ 0 := hn; omega⟩
      · apply bwf_cons_put
        · exact ⟨rfl, by have : recs.length ≠ 0 := hn; omega⟩
        · exact bwf_nil

theorem bwf_flatten_dels (xs : List (List W)) (h : ∀ l ∈ xs, ∀ k v, W.put k v ∉ l) : BatchWF xs.flatten := by
  refine ⟨?_⟩
  intro k v hm
  obtain ⟨l, hl, hm⟩ := List.mem_flatten.1 hm
  exact absurd hm (h l hl k v)

theorem bwf_append' {a b : List W} (ha : BatchWF a) (hb : BatchWF b) : BatchWF (List.append a b) :=
  bwf_append ha hb

macro "bwf_step" : tactic => `(tactic| first
  | exact bwf_nil | exact bwf_rows _ _ _ | exact bwf_catalog _ _ | exact bwf_entries _ _ _ _ _ _
  | exact bwf_deleteSeqs _ _ _
  | apply bwf_cons_del | apply bwf_cons_delEnt | (refine bwf_cons_put ?_ ?_)
  | (apply bwf_ite <;> intro _) | apply bwf_append | apply bwf_append')

theorem bwf_ckpt (s : Store) (ch hw : Nat) : BatchWF (plan s (.ckpt ch hw)).2 := by
  unfold plan
  simp only
  repeat' split
  all_goals (repeat' bwf_step)
  all_goals first
    | rfl
    | skip
  next h1 h2 => exact Nat.not_lt.1 h2

theorem bwf_adopt (s : Store) (ch th : Nat) (hs : AllEntries WF s) : BatchWF (plan s (.adopt ch th)).2 := by
  have hret : (curRet s ch).2.1 ≤ (curRet s ch).1 ∧ (curRet s ch).1 ≤ (curRet s ch).2.2.1 := by
    by_cases hp : (curRet s ch).2.2.2 = true
    · have := curRet_wf s ch hs hp; omega
    · rw [curRet_absent s ch (by simpa using hp)]; simp
  unfold plan
  simp only
  rcases hcr : curRet s ch with ⟨rl, rp, rm, pres⟩
  rw [hcr] at hret
  simp only at hret ⊢
  repeat' split
  all_goals (repeat' bwf_step)
  all_goals first
    | rfl
    | trivial
    | (show _ ≤ _ ∧ _ ≤ _ ∧ 0 < _; omega)

theorem bwf_trim (s : Store) (ch th mx : Nat) : BatchWF (plan s (.trim ch th mx)).2 := by
  unfold plan
  simp only
  rcases hcr : curRet s ch with ⟨rl, rp, rm, pres⟩
  simp only
  repeat' split
  all_goals (repeat' bwf_step)
  all_goals first
    | rfl
    | trivial
    | (show _ ≤ _ ∧ _ ≤ _ ∧ 0 < _; omega)

theorem bwf_trunc (s : Store) (ch to : Nat) (hs : AllEntries WF s) : BatchWF (plan s (.trunc ch to)).2 := by
  have hret : (curRet s ch).2.2.2 = true → (curRet s ch).2.1 ≤ (curRet s ch).1 ∧ 0 < (curRet s ch).1 := by
    intro hp; have := curRet_wf s ch hs hp; omega
  unfold plan
  simp only
  rcases hcr : curRet s ch with ⟨rl, rp, rm, pres⟩
  rw [hcr] at hret
  simp only at hret ⊢
  repeat' split
  all_goals (repeat' bwf_step)
  all_goals first
    | rfl
    | trivial
    | (apply bwf_flatten_dels
       intro l hl k v
       obtain ⟨x, _, rfl⟩ := List.mem_map.1 hl
       simp)
    | (show _ ≤ _ ∧ _ ≤ _ ∧ 0 < _
       simp_all <;> omega)

/-- every put of every mutation batch is well-formed -/
theorem bwf_plan (s : Store) (op : Op) (hs : AllEntries WF s) : BatchWF (plan s op).2 := by
  cases op with
  | app ch mode recs => exact bwf_app s ch mode recs
  | fetch ch hw recs => exact bwf_fetch s ch hw recs hs
  | xapp ch cmd term committed mode recs => exact bwf_xapp s ch cmd term committed mode recs hs
  | trunc ch to => exact bwf_trunc s ch to hs
  | adopt ch th => exact bwf_adopt s ch th hs
  | trim ch th mx => exact bwf_trim s ch th mx
  | ckpt ch hw => exact bwf_ckpt s ch hw

theorem wf_stepG (s : Store) (op : Op) (hs : AllEntries WF s) : AllEntries WF (stepG s op) := by
  unfold stepG
  split
  · exact hs
  · rw [step_snd]
    exact allEntries_applyBatch WF _ s hs (bwf_plan s op hs).h

theorem get_applyBatch_tail (s : Store) (b : List W) (k k2 : Key) (v v2 : Val) (h : k ≠ k2) :
    get (applyBatch s (b ++ [.put k v, .put k2 v2])) k = some v := by
  rw [applyBatch_append]
  show get (put (put (applyBatch s b) k v) k2 v2) k = some v
  rw [get_put, if_neg h, get_put, if_pos rfl]

theorem trimDels_last_gt (l : List Nat) (rp th mx : Nat)
    (hmore : trimMore (l.filter (fun q => decide (rp + 1 ≤ q ∧ q ≤ th))) mx = true) :
    (trimDels (l.filter (fun q => decide (rp + 1 ≤ q ∧ q ≤ th))) mx).getLast?.getD 0 > rp := by
  unfold trimDels
  rw [if_pos hmore]
  unfold trimMore at hmore
  have hmore := of_decide_eq_true hmore
  generalize hf : l.filter (fun q => decide (rp + 1 ≤ q ∧ q ≤ th)) = f at hmore ⊢
  have hne : f.take mx ≠ [] := by
    apply List.ne_nil_of_length_pos
    rw [List.length_take]; omega
  rw [List.getLast?_eq_some_getLast hne]
  have hm : (f.take mx).getLast hne ∈ f := List.mem_of_mem_take (List.getLast_mem hne)
  have hm2 : (f.take mx).getLast hne ∈ l.filter (fun q => decide (rp + 1 ≤ q ∧ q ≤ th)) := hf ▸ hm
  have := (List.mem_filter.1 hm2).2
  simp at this
  simp
  omega

end WK.C09

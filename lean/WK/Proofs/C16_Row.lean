import WK.Spec.C16
/-
  C16 — per-row facts about the reducers and mutators (no table, no index).
-/
namespace WK.C16

/-- cursors of `b` are not below those of `a` -/
def Row.le (a b : Row) : Prop := a.read ≤ b.read ∧ a.del ≤ b.del

theorem Row.le_refl (a : Row) : a.le a := ⟨Nat.le_refl _, Nat.le_refl _⟩

theorem Row.le_trans {a b c : Row} (h1 : a.le b) (h2 : b.le c) : a.le c :=
  ⟨Nat.le_trans h1.1 h2.1, Nat.le_trans h1.2 h2.2⟩

theorem mutRead_le (v : Nat) (upd : Int) (r : Row) : r.le (mutRead v upd r) := by
  unfold mutRead Row.le
  split <;> simp <;> omega

theorem mutHide_le (v : Nat) (upd : Int) (r : Row) : r.le (mutHide v upd r) := by
  unfold mutHide Row.le
  by_cases h1 : v > r.del <;> by_cases h2 : r.act = 0 <;> simp [h1, h2] <;> (try split) <;> (try simp) <;> omega

theorem mutAct_le (a upd : Int) (r : Row) : r.le (mutAct a upd r) := by
  unfold mutAct Row.le
  split <;> simp

/-- `resolveUserChannelMembership` keeps the cursors except at a tombstone→live rejoin
    with a strictly newer source version. -/
theorem resolveUp_le (a nx : Row) (h : ¬ (a.tomb = true ∧ nx.tomb = false ∧ a.sv < nx.sv)) :
    a.le (resolveUp (some a) nx) := by
  unfold resolveUp Row.le
  simp only
  by_cases h1 : nx.sv < a.sv
  · simp [h1]
  · by_cases h2 : nx.sv = a.sv
    · simp [h1, h2]
      split <;> (try split) <;> simp
    · simp only [h1, h2, if_false]
      cases hn : nx.tomb <;> cases ha : a.tomb <;> simp
      exfalso; apply h; simp [hn, ha]; omega

/-- `resolveEnsuredUserChannelMembership` keeps the cursors except when a strictly newer
    generation arrives over a row whose generation is non-zero. -/
theorem resolveEn_le (a nx : Row) (h : ¬ (a.sv ≠ 0 ∧ a.sv < nx.sv)) :
    a.le (resolveEn (some a) nx) := by
  unfold resolveEn Row.le
  simp only
  split
  · simp
  · split
    · simp only; constructor <;> split <;> omega
    · exfalso; apply h; constructor <;> omega

/-- One row transition of the ordinary table is monotone unless it is an incarnation
    boundary (rejoin / newer ensure generation / delete). -/
theorem rowStep_le (a : Row) (op : Op) (b : Row)
    (hs : rowStep (some a) op = some (some b)) (hb : op.boundary (some a) = false) : a.le b := by
  cases op <;> simp [rowStep] at hs
  case up k nx =>
    subst hs
    apply resolveUp_le
    intro ⟨h1, h2, h3⟩
    simp [Op.boundary, h1, h2, h3] at hb
  case en k nx =>
    subst hs
    apply resolveEn_le
    intro ⟨h1, h2⟩
    simp [Op.boundary, h1, h2] at hb
  case rd k v upd => subst hs; split; exact Row.le_refl _; exact mutRead_le _ _ _
  case hd k v upd => subst hs; split; exact Row.le_refl _; exact mutHide_le _ _ _
  case acS k x upd => subst hs; split; exact Row.le_refl _; exact mutAct_le _ _ _
  case acB k x upd => subst hs; split; exact Row.le_refl _; exact mutAct_le _ _ _
  all_goals (subst hs; exact Row.le_refl _)

/-- a row never disappears except through `dl` -/
theorem rowStep_some (a : Row) (op : Op) (hb : op.boundary (some a) = false) :
    ∃ b, rowStep (some a) op = some (some b) := by
  cases op <;> simp [rowStep]
  case dl k => simp [Op.boundary] at hb

/-! ### CMD rows -/

theorem resolveCmd_le (a nx : CRow) (h : ¬ (a.tomb = true ∧ nx.tomb = false)) :
    a.ack ≤ (resolveCmd (some a) nx).ack := by
  unfold resolveCmd
  simp only
  cases ha : a.tomb <;> cases hn : nx.tomb <;> simp
  · split <;> omega
  · split <;> omega
  · exfalso; exact h ⟨ha, hn⟩

theorem crowStep_le (a : CRow) (op : Op) (b : CRow)
    (hs : crowStep (some a) op = some (some b)) (hb : op.cboundary (some a) = false) : a.ack ≤ b.ack := by
  cases op <;> simp [crowStep] at hs
  case cup k nx =>
    subst hs
    apply resolveCmd_le
    intro ⟨h1, h2⟩
    simp [Op.cboundary, h1, h2] at hb
  case cakS k x upd => subst hs; split; exact Nat.le_refl _; simp [mutAckS]; split <;> omega
  case cakB k x upd => subst hs; split; exact Nat.le_refl _; simp [mutAckB]; split <;> simp <;> omega
  case ctbS k t => subst hs; split <;> simp [mutTombS]
  case ctbB k t upd => subst hs; split <;> simp [mutTombB]
  all_goals (subst hs; exact Nat.le_refl _)

theorem crowStep_some (a : CRow) (op : Op) : ∃ b, crowStep (some a) op = some (some b) := by
  cases op <;> simp [crowStep]

/-! ### stale sources -/

/-- an upsert carrying an older source version leaves the row unchanged -/
theorem resolveUp_stale (a nx : Row) (h : nx.sv < a.sv) : resolveUp (some a) nx = a := by
  simp [resolveUp, h]

/-- an upsert carrying the stored source version can only clear the tombstone -/
theorem resolveUp_equal (a nx : Row) (h : nx.sv = a.sv) :
    resolveUp (some a) nx = a ∨
    (a.tomb = true ∧ nx.tomb = false ∧ resolveUp (some a) nx = untomb a nx) := by
  have h1 : ¬ nx.sv < a.sv := by omega
  simp only [resolveUp, h1, h, if_false, if_true]
  cases ha : a.tomb <;> cases hn : nx.tomb <;> simp [untomb]

/-- an ensure whose generation is not above the stored one leaves the row unchanged -/
theorem resolveEn_stale (a nx : Row) (h : nx.sv ≤ a.sv) : resolveEn (some a) nx = a := by
  simp [resolveEn, h]

/-! ### the judge never reports a plain regression / stale application on the model -/

theorem judgeRow_model (prev : Option Row) (op : Op) (nw : Option Row)
    (hs : rowStep prev op = some nw) :
    judgeRow prev nw op ≠ .regressed ∧ judgeRow prev nw op ≠ .stale := by
  cases prev with
  | none => simp [judgeRow]
  | some a =>
    cases nw with
    | none => simp [judgeRow]
    | some b =>
      by_cases hb : op.boundary (some a) = false
      · have hle : a.read ≤ b.read ∧ a.del ≤ b.del := rowStep_le a op b hs hb
        cases op <;> simp [rowStep] at hs
        case up k nx =>
          subst hs
          by_cases h1 : nx.sv < a.sv
          · rw [resolveUp_stale a nx h1]; simp [judgeRow]
          · by_cases h2 : nx.sv = a.sv
            · rcases resolveUp_equal a nx h2 with h3 | ⟨h3, h4, h5⟩
              · rw [h3]; simp [judgeRow]
              · rw [h5] at hle ⊢
                simp [judgeRow, h2, h3, h4, hle.1, hle.2]
            · simp [judgeRow, h1, h2, hle.1, hle.2]
        case en k nx =>
          subst hs
          by_cases h1 : nx.sv ≤ a.sv
          · rw [resolveEn_stale a nx h1]; simp [judgeRow]
          · simp [judgeRow, h1, hle.1, hle.2]
        all_goals simp [judgeRow, hle.1, hle.2]
      · cases op <;> simp [Op.boundary] at hb <;> simp [rowStep] at hs
        case up k nx =>
          have h1 : a.tomb = true := hb.1
          have h2 : nx.tomb = false := hb.2.1
          have h3 : a.sv < nx.sv := hb.2.2
          subst hs
          have n1 : ¬ nx.sv < a.sv := by omega
          have n2 : ¬ nx.sv = a.sv := by omega
          have e : resolveUp (some a) nx = nx := by simp [resolveUp, n1, n2, h1, h2]
          rw [e]
          simp [judgeRow, h1, h2, h3, n1, n2]
          split <;> simp
        case en k nx =>
          have h1 : ¬ a.sv = 0 := hb.1
          have h2 : a.sv < nx.sv := hb.2
          subst hs
          have n1 : ¬ nx.sv ≤ a.sv := by omega
          have e1 : (resolveEn (some a) nx).read = nx.read := by simp [resolveEn, n1, h1]
          have e2 : (resolveEn (some a) nx).del = nx.del := by simp [resolveEn, n1, h1]
          simp [judgeRow, n1, e1, e2, h1, h2]
          split <;> simp

theorem judgeCRow_model (prev : Option CRow) (op : Op) (nw : Option CRow)
    (hs : crowStep prev op = some nw) : judgeCRow prev nw op ≠ .regressed := by
  cases prev with
  | none => simp [judgeCRow]
  | some a =>
    cases nw with
    | none => simp [judgeCRow]
    | some b =>
      by_cases hb : op.cboundary (some a) = false
      · have hle := crowStep_le a op b hs hb
        simp [judgeCRow, hle]
      · cases op <;> simp [Op.cboundary] at hb <;> simp [crowStep] at hs
        case cup k nx =>
          have h1 : a.tomb = true := hb.1
          have h2 : nx.tomb = false := hb.2
          subst hs
          have e : resolveCmd (some a) nx = nx := by simp [resolveCmd, h1, h2]
          rw [e]
          simp [judgeCRow, h1, h2]
          split <;> simp

end WK.C16

import WK.Proofs.C17_mut
/-
  C17 — what one accepted closure does to the lookups `task?` and `meta?`.
-/
namespace WK.C17

theorem applyWs_cons (s : State) (w : W) (ws : List W) : applyWs s (w :: ws) = applyWs (applyW s w) ws := rfl
theorem applyWs_nil (s : State) : applyWs s [] = s := rfl

theorem task?_putTask (s : State) (t : Task) (c i : Nat) :
    (applyW s (W.putTask t)).task? c i = if t.chan = c ∧ t.id = i then some t else s.task? c i := by
  simp only [applyW, State.task?]
  split
  · rename_i h
    rw [← h.1, ← h.2]
    exact find_putTask_same t s.tasks
  · rename_i h
    exact find_putTask_ne t c i h s.tasks

theorem upsert_lookup (db : State) (nt : Task) (ws : List W) (h : upsertWrites db nt = .ok ws) :
    (∀ c i, (applyWs db ws).task? c i = if nt.chan = c ∧ nt.id = i then some nt else db.task? c i) ∧
    (applyWs db ws).metas = db.metas := by
  rcases upsert_shape db nt ws h with ⟨_, hw, _⟩ | ⟨_, hw, _⟩ | ⟨_, hw⟩
  · rw [hw]
    constructor
    · intro c i
      rw [applyWs_cons, applyWs_cons, applyWs_nil, task?_putTask]
      rfl
    · rfl
  · rw [hw]
    constructor
    · intro c i
      rw [applyWs_cons, applyWs_cons, applyWs_nil, task?_putTask]
      rfl
    · rfl
  · rw [hw]
    constructor
    · intro c i
      rw [applyWs_cons, applyWs_nil, task?_putTask]
    · rfl

theorem meta?_of_metas (s s' : State) (h : s'.metas = s.metas) (x : Nat) : s'.meta? x = s.meta? x := by
  simp [State.meta?, h]

theorem meta?_putMeta (s : State) (c : Nat) (m : Meta) (x : Nat) :
    (applyW s (W.putMeta c m)).meta? x = if x = c then some m else s.meta? x := by
  simp only [applyW, State.meta?]
  split
  · rename_i h
    rw [h, find_putKV_same]; rfl
  · rename_i h
    rw [find_putKV_ne c x h]

theorem task?_putMeta (s : State) (c : Nat) (m : Meta) (x i : Nat) :
    (applyW s (W.putMeta c m)).task? x i = s.task? x i := rfl

theorem dels_lookup (s : State) (ws : List W) (hd : ∀ w ∈ ws, ∃ c i, w = W.delTask c i) :
    (applyWs s ws).metas = s.metas ∧
    (∀ c i, (applyWs s ws).task? c i = s.task? c i ∨ (applyWs s ws).task? c i = none) := by
  induction ws generalizing s with
  | nil => exact ⟨rfl, fun c i => Or.inl rfl⟩
  | cons w rest ih =>
    obtain ⟨c0, i0, rfl⟩ := hd w List.mem_cons_self
    have ih' := ih (applyW s (W.delTask c0 i0)) (fun w hw => hd w (List.mem_cons_of_mem _ hw))
    rw [applyWs_cons]
    refine ⟨ih'.1, ?_⟩
    intro c i
    rcases ih'.2 c i with h | h
    · by_cases hk : c = c0 ∧ i = i0
      · right
        rw [h]
        simp only [applyW, State.task?]
        rw [hk.1, hk.2]
        exact find_delTask_same c0 i0 s.tasks
      · left
        rw [h]
        simp only [applyW, State.task?]
        exact find_delTask_ne c0 i0 c i hk s.tasks
    · right; exact h

/-- mutators keep the task's key, kind and (except the designed hand-off) the embedded flag -/
theorem mutate_key (c : Cmd) (t nt : Task) (m nm : Meta) (h : mutate c t m = .ok (nt, nm)) :
    nt.chan = t.chan ∧ nt.id = t.id ∧ nt.kind = t.kind := by
  unfold mutate at h
  split at h
  · unfold mutSetFence at h
    split at h; · simp at h
    split at h; · simp at h
    simp at h; rw [← h.1]; simp [clearTaskProof]
  · unfold mutResetFence at h
    split at h; · simp at h
    split at h; · simp at h
    split at h; · simp at h
    split at h; · simp at h
    simp at h; rw [← h.1]; simp [clearTaskFenceAndProof, clearTaskProof]
  · have := mutCommit_ok c t nt m nm h
    rw [this.2.2.2.1]; simp
  · unfold mutAddLearner at h
    split at h; · simp at h
    simp only at h
    split at h; · simp at h
    simp at h; rw [← h.1]; simp
  · have := mutPromote_ok c t nt m nm h
    rw [this.2.2.2.2.1]; simp
  · unfold mutClearFence at h
    split at h; · simp at h
    split at h
    · simp at h; rw [← h.1]; simp
    split at h; · simp at h
    split at h; · simp at h
    simp at h; rw [← h.1]
    split <;> simp [clearTaskFenceAndProof, clearTaskProof]
  · unfold mutAbort at h
    split at h; · simp at h
    split at h; · simp at h
    simp only at h
    split at h
    · simp at h
    · simp at h; rw [← h.1]; simp [clearTaskFenceAndProof, clearTaskProof]
  · simp at h

theorem mutTaskOnly_key (c : Cmd) (t nt : Task) (h : mutTaskOnly c t = .ok nt) :
    nt.chan = t.chan ∧ nt.id = t.id := by
  unfold mutTaskOnly at h
  split at h
  · split at h
    · simp at h
    · simp at h; rw [← h]; simp
  · simp at h
    rw [← h]
    split <;> split <;> simp
  · simp at h

theorem guard_key (g : Guard) (t : Task) (h : g.matches t = true) : t.chan = g.chan ∧ t.id = g.id := by
  simp [Guard.matches] at h
  exact ⟨h.1.1.1.1.1.1, h.1.1.1.1.1.2⟩


theorem fence_norm_bump (m nm0 : Meta) : (normMeta (bumpRoute m (normMeta nm0))).fence = nm0.fence := by
  unfold bumpRoute
  split <;> rfl

/-- a mutator never changes a fence whose token is not the mutated task's id -/
theorem mutate_foreign (c : Cmd) (t nt : Task) (m nm : Meta) (h : mutate c t m = .ok (nt, nm))
    (hf : m.ftok ≠ 0) (hne : m.ftok ≠ t.id) : nm.fence = m.fence := by
  have contra : ∀ v, activeTaskFence t m v = true → False := by
    intro v hv
    have := (activeTaskFence_iff t m v).mp hv
    omega
  unfold mutate at h
  split at h
  · unfold mutSetFence at h
    split at h; · simp at h
    split at h; · simp at h
    rename_i hnf
    exfalso
    simp [noForeignFence] at hnf
    exact contra _ (hnf (Or.inr hf)).2
  · unfold mutResetFence at h
    split at h; · simp at h
    split at h; · simp at h
    rename_i ha
    simp at ha
    exact absurd ha (fun x => contra _ x)
  · exact (mutCommit_ok c t nt m nm h).2.2.2.2.2.2
  · unfold mutAddLearner at h
    split at h; · simp at h
    simp only at h
    split at h; · simp at h
    simp at h; rw [← h.2]; rfl
  · exact (mutPromote_ok c t nt m nm h).2.2.2.2.2.2
  · unfold mutClearFence at h
    split at h; · simp at h
    split at h
    · simp at h; rw [← h.2]
    split at h; · simp at h
    rename_i ha
    simp at ha
    exact absurd ha (fun x => contra _ x)
  · unfold mutAbort at h
    split at h; · simp at h
    split at h; · simp at h
    simp only at h
    split at h
    · simp at h
    · rename_i nm1 hr
      split at hr
      · split at hr; · simp at hr
        rename_i ha
        simp at ha
        exact absurd ha (fun x => contra _ x)
      · rename_i hz
        simp at hz
        exact absurd hz hf
  · simp at h

end WK.C17

import WK.Gen.C20
import WK.Model.C20
/-
  C20 — T tie, translated bodies.  `WK.Gen.C20.selLDiff/selLSkip/selLTake`, `selS…` and `pop` are
  generated from the source of selectLargestSurplusSlot / selectSmallestDeficitSlot /
  popOwnedHashSlot on every run (extract/c20_xlate.go also checks the loop skeleton: `var chosen`,
  two `:= 0`, `for _, s := range candidates`, `continue`, the three assignments, `return chosen`).
  These theorems say the hand model's loop bodies ARE the generated ones.
-/
namespace WK.C20
open WK.Gen.C20

/-- the model's selectLargestSurplusSlot loop body is the translated source -/
theorem c20_gen_selL_step (cur tgt : Cnt) (b : Best) (s : Nat) :
    selLStep cur tgt b s =
      if selLSkip (selLDiff (cget cur s) (cget tgt s)) then b
      else if selLTake b.chosen s (selLDiff (cget cur s) (cget tgt s)) b.best (cget cur s) b.cnt
        then ⟨s, selLDiff (cget cur s) (cget tgt s), cget cur s⟩ else b := by
  simp only [selLStep, selLSkip, selLTake, selLDiff, or_assoc, and_assoc]

/-- the model's selectSmallestDeficitSlot loop body is the translated source -/
theorem c20_gen_selS_step (cur tgt : Cnt) (b : Best) (s : Nat) :
    selSStep cur tgt b s =
      if selSSkip (selSDiff (cget cur s) (cget tgt s)) then b
      else if selSTake b.chosen s (selSDiff (cget cur s) (cget tgt s)) b.best (cget cur s) b.cnt
        then ⟨s, selSDiff (cget cur s) (cget tgt s), cget cur s⟩ else b := by
  simp only [selSStep, selSSkip, selSTake, selSDiff, or_assoc, and_assoc]

/-- popOwnedHashSlot (translated: last element, slice without it) is the head/tail pop the model does
    on its reversed owned lists (`planLoop`: `match oget st.owned d with | [] => stop | hs :: rest => …`) -/
theorem c20_gen_pop (l : List Nat) :
    pop l = match l.reverse with
      | [] => none
      | x :: r => some (x, r.reverse) := by
  rcases List.eq_nil_or_concat l with rfl | ⟨init, x, rfl⟩
  · simp [pop]
  · simp [pop, List.getD_eq_getElem?_getD]

example : pop [3, 7, 9] = some (9, [3, 7]) := by decide
example : selLTake 0 5 1 0 4 0 := by decide
example : ¬ selSSkip 2 := by decide

end WK.C20

import WK.Proofs.C07_Ref5
/-
  C07 — refinement of the checkpoint stores and of the follower apply (`ApplyFetch`).
-/
namespace WK.C07

theorem ckOk_eq (ch : Chan) (k : Ckpt) (a b : Nat) : ckptMonoOk ch k a b = specCkOk (absChan ch) k a b := rfl

theorem abs_setck (st : Store) (c : Nat) (k : Option Ckpt) (hi : Inv st) (hc : c < numChan) :
    abs (st.setChan c { st.chan c with ck := k }) = (abs st).setChan c { (abs st).chan c with ck := k } := by
  have hc' : c < st.chans.length := by rw [hi.len]; exact hc
  rw [abs_eq_of st _ c (set_len _ _ _) (fun c' e => chan_set_ne _ _ _ _ e), chan_set_self _ _ _ hc', abs_chan]
  rfl

theorem chk_setck (st : Store) (c : Nat) (k : Option Ckpt) (hk : Chk st) (hc : c < st.chans.length) :
    Chk (st.setChan c { st.chan c with ck := k }) := by
  intro c' r hr
  by_cases e : c' = c
  · subst e; rw [chan_set_self _ _ _ hc] at hr; exact hk c' r hr
  · rw [chan_set_ne _ _ _ _ e] at hr; exact hk c' r hr

theorem refines_ckpt (st : Store) (c : Nat) (k : Ckpt) (hi : Inv st) (hk : Chk st) (hc : c < numChan) : Refines st (.ckpt c k) := by
  have hc' : c < st.chans.length := by rw [hi.len]; exact hc
  show abs (doCkpt st c k).1 = (if k.lso > k.hw then (abs st, Out.err Err.corruptstate)
      else ((abs st).setChan c { (abs st).chan c with ck := some k }, Out.ok)).1 ∧
    (doCkpt st c k).2 = (if k.lso > k.hw then (abs st, Out.err Err.corruptstate)
      else ((abs st).setChan c { (abs st).chan c with ck := some k }, Out.ok)).2 ∧ Chk (doCkpt st c k).1
  unfold doCkpt
  by_cases h : k.lso > k.hw
  · rw [if_pos h, if_pos h]; exact ⟨rfl, rfl, hk⟩
  · rw [if_neg h, if_neg h]; exact ⟨abs_setck st c _ hi hc, rfl, chk_setck st c _ hk hc'⟩

theorem refines_ckptm (st : Store) (c : Nat) (k : Ckpt) (v l : Nat) (hi : Inv st) (hk : Chk st) (hc : c < numChan) :
    Refines st (.ckptm c k v l) := by
  have hc' : c < st.chans.length := by rw [hi.len]; exact hc
  show abs (doCkptm st c k v l).1 = (if !specCkOk ((abs st).chan c) k v l then (abs st, Out.err Err.corruptstate)
      else ((abs st).setChan c { (abs st).chan c with ck := some k }, Out.ok)).1 ∧
    (doCkptm st c k v l).2 = (if !specCkOk ((abs st).chan c) k v l then (abs st, Out.err Err.corruptstate)
      else ((abs st).setChan c { (abs st).chan c with ck := some k }, Out.ok)).2 ∧ Chk (doCkptm st c k v l).1
  unfold doCkptm
  rw [abs_chan, ← ckOk_eq]
  by_cases h : (!ckptMonoOk (st.chan c) k v l) = true
  · rw [if_pos h, if_pos h]; exact ⟨rfl, rfl, hk⟩
  · rw [if_neg h, if_neg h]
    refine ⟨?_, rfl, chk_setck st c _ hk hc'⟩
    have := abs_setck st c (some k) hi hc
    rw [abs_chan] at this; exact this

end WK.C07

import WK.Proofs.C37_pool
/-
  C37 — invariants of the sharded-mailbox LTS.
-/
set_option linter.unusedSimpArgs false
namespace WK.C37

/-! ### per-shard projections -/

@[simp] theorem enqsSh_append (cfg : MBCfg) (sd : Nat) (a b : List Ev) :
    enqsSh cfg sd (a ++ b) = enqsSh cfg sd a ++ enqsSh cfg sd b := by simp [enqsSh]
@[simp] theorem runsSh_append (cfg : MBCfg) (sd : Nat) (a b : List Ev) :
    runsSh cfg sd (a ++ b) = runsSh cfg sd a ++ runsSh cfg sd b := by simp [runsSh]
@[simp] theorem enqsSh_nil (cfg : MBCfg) (sd : Nat) : enqsSh cfg sd [] = [] := rfl
@[simp] theorem runsSh_nil (cfg : MBCfg) (sd : Nat) : runsSh cfg sd [] = [] := rfl

@[simp] theorem runs_map_run (b : List Nat) : runs (b.map .run) = b := by
  induction b with
  | nil => rfl
  | cons x b ih => simp [ih]
@[simp] theorem runs_map_done (b : List Nat) : runs (b.map .done) = [] := by
  induction b with
  | nil => rfl
  | cons x b ih => simp [ih]
@[simp] theorem dones_map_done (b : List Nat) : dones (b.map .done) = b := by
  induction b with
  | nil => rfl
  | cons x b ih => simp [ih]
@[simp] theorem dones_map_run (b : List Nat) : dones (b.map .run) = [] := by
  induction b with
  | nil => rfl
  | cons x b ih => simp [ih]
@[simp] theorem enqs_map_run (b : List Nat) : enqs (b.map .run) = [] := by
  induction b with
  | nil => rfl
  | cons x b ih => simp [ih]
@[simp] theorem enqs_map_done (b : List Nat) : enqs (b.map .done) = [] := by
  induction b with
  | nil => rfl
  | cons x b ih => simp [ih]
@[simp] theorem cancels_map_run (b : List Nat) : cancels (b.map .run) = [] := by
  induction b with
  | nil => rfl
  | cons x b ih => simp [ih]
@[simp] theorem cancels_map_done (b : List Nat) : cancels (b.map .done) = [] := by
  induction b with
  | nil => rfl
  | cons x b ih => simp [ih]
@[simp] theorem accs_map_run (b : List Nat) : accs (b.map .run) = [] := by
  induction b with
  | nil => rfl
  | cons x b ih => simp [ih]
@[simp] theorem accs_map_done (b : List Nat) : accs (b.map .done) = [] := by
  induction b with
  | nil => rfl
  | cons x b ih => simp [ih]
@[simp] theorem rejs_map_run (b : List Nat) : rejs (b.map .run) = [] := by
  induction b with
  | nil => rfl
  | cons x b ih => simp [ih]
@[simp] theorem rejs_map_done (b : List Nat) : rejs (b.map .done) = [] := by
  induction b with
  | nil => rfl
  | cons x b ih => simp [ih]
@[simp] theorem subs_map_run (b : List Nat) : subs (b.map .run) = [] := by
  induction b with
  | nil => rfl
  | cons x b ih => simp [ih]
@[simp] theorem subs_map_done (b : List Nat) : subs (b.map .done) = [] := by
  induction b with
  | nil => rfl
  | cons x b ih => simp [ih]
@[simp] theorem fin_map_run (b : List Nat) : fin (b.map .run) = b := by
  induction b with
  | nil => rfl
  | cons x b ih => simp [ih]
@[simp] theorem fin_map_done (b : List Nat) : fin (b.map .done) = [] := by
  induction b with
  | nil => rfl
  | cons x b ih => simp [ih]

theorem closeOk_not_mem_map_run (b : List Nat) : closeOk ∉ b.map Ev.run := by
  simp [closeOk]
theorem closeOk_not_mem_map_done (b : List Nat) : closeOk ∉ b.map Ev.done := by
  simp [closeOk]

theorem filter_eq_self_of_all {α : Type} (p : α → Bool) (l : List α) (h : ∀ x ∈ l, p x = true) : l.filter p = l :=
  List.filter_eq_self.mpr h
theorem filter_eq_nil_of_none {α : Type} (p : α → Bool) (l : List α) (h : ∀ x ∈ l, p x = false) : l.filter p = [] := by
  apply List.filter_eq_nil_iff.mpr
  intro x hx; simp [h x hx]

/-- the batch an instance has taken from the queue and not yet handed to the handler -/
def GPc.hand : GPc → List Nat
  | .batch b => b
  | _ => []

/-- the batch whose handler is running -/
def GPc.cur : GPc → List Nat
  | .handling b => b
  | _ => []


@[simp, grind =] theorem GPc.hand_batch (b : List Nat) : (GPc.batch b).hand = b := rfl
@[simp, grind =] theorem GPc.hand_dead : GPc.dead.hand = [] := rfl
@[simp, grind =] theorem GPc.hand_invoked : GPc.invoked.hand = [] := rfl
@[simp, grind =] theorem GPc.hand_loop : GPc.loop.hand = [] := rfl
@[simp, grind =] theorem GPc.hand_handling (b : List Nat) : (GPc.handling b).hand = [] := rfl
@[simp, grind =] theorem GPc.hand_sawEmpty : GPc.sawEmpty.hand = [] := rfl
@[simp, grind =] theorem GPc.cur_handling (b : List Nat) : (GPc.handling b).cur = b := rfl
@[simp, grind =] theorem GPc.cur_dead : GPc.dead.cur = [] := rfl
@[simp, grind =] theorem GPc.cur_invoked : GPc.invoked.cur = [] := rfl
@[simp, grind =] theorem GPc.cur_loop : GPc.loop.cur = [] := rfl
@[simp, grind =] theorem GPc.cur_batch (b : List Nat) : (GPc.batch b).cur = [] := rfl
@[simp, grind =] theorem GPc.cur_sawEmpty : GPc.sawEmpty.cur = [] := rfl

@[simp] theorem enqsSh_cons (cfg : MBCfg) (sd : Nat) (e : Ev) (l : List Ev) :
    enqsSh cfg sd (e :: l) = (match e with | .enq t _ => if cfg.sh t = sd then [t] else [] | _ => []) ++ enqsSh cfg sd l := by
  cases e <;> simp [enqsSh, List.filter_cons]
  split <;> simp
@[simp] theorem runsSh_cons (cfg : MBCfg) (sd : Nat) (e : Ev) (l : List Ev) :
    runsSh cfg sd (e :: l) = (match e with | .run t => if cfg.sh t = sd then [t] else [] | _ => []) ++ runsSh cfg sd l := by
  cases e <;> simp [runsSh, List.filter_cons]
  split <;> simp
@[simp] theorem runsSh_map_run (cfg : MBCfg) (sd : Nat) (b : List Nat) :
    runsSh cfg sd (b.map .run) = b.filter fun t => cfg.sh t = sd := by simp [runsSh]
@[simp] theorem runsSh_map_done (cfg : MBCfg) (sd : Nat) (b : List Nat) : runsSh cfg sd (b.map .done) = [] := by simp [runsSh]
@[simp] theorem enqsSh_map_run (cfg : MBCfg) (sd : Nat) (b : List Nat) : enqsSh cfg sd (b.map .run) = [] := by simp [enqsSh]
@[simp] theorem enqsSh_map_done (cfg : MBCfg) (sd : Nat) (b : List Nat) : enqsSh cfg sd (b.map .done) = [] := by simp [enqsSh]

local macro "mb_simp" : tactic => `(tactic|
  simp only [upd_apply, runs_append, dones_append, cancels_append, accs_append, rejs_append, subs_append,
    enqs_append, fin_append, runs_cons, dones_cons, cancels_cons, accs_cons, rejs_cons, subs_cons, enqs_cons,
    fin_cons, runs_nil, dones_nil, cancels_nil, accs_nil, rejs_nil, subs_nil, enqs_nil, fin_nil,
    runs_map_run, runs_map_done, dones_map_done, dones_map_run, enqs_map_run, enqs_map_done, cancels_map_run,
    cancels_map_done, accs_map_run, accs_map_done, rejs_map_run, rejs_map_done, subs_map_run, subs_map_done,
    enqsSh_append, runsSh_append, enqsSh_cons, runsSh_cons, enqsSh_nil, runsSh_nil, runsSh_map_run, runsSh_map_done,
    enqsSh_map_run, enqsSh_map_done,
    List.append_nil, List.nil_append, List.mem_append, List.mem_singleton, List.mem_cons, List.mem_map, closeOk, reschedOk] at *)

structure MBInv (cfg : MBCfg) (s : MB) : Prop where
  enqIff : ∀ t, t ∈ enqs s.log ↔ (s.pc t = .enqd ∨ s.pc t = .ret true)
  rejIff : ∀ t, t ∈ rejs s.log ↔ s.pc t = .ret false
  accIff : ∀ t, t ∈ accs s.log ↔ s.pc t = .ret true
  subIff : ∀ t, t ∈ subs s.log ↔ s.pc t ≠ .idle
  enqNodup : (enqs s.log).Nodup
  gFresh : ∀ i, s.g i ≠ .dead → i < s.ng
  gSched : ∀ i, s.g i ≠ .dead → s.scheduled (s.gs i) = true
  gUnique : ∀ i j, s.g i ≠ .dead → s.g j ≠ .dead → s.gs i = s.gs j → i = j
  schedG : ∀ sd, s.scheduled sd = true → ∃ i, s.g i ≠ .dead ∧ s.gs i = sd
  wgCount : ∀ sd, s.wg.count sd = (if s.scheduled sd = true then 1 else 0) + s.pend sd
  queueShard : ∀ sd t, t ∈ s.queue sd → cfg.sh t = sd
  handShard : ∀ i t, t ∈ (s.g i).hand → cfg.sh t = s.gs i
  custodyLive : ∀ i, s.g i ≠ .dead → enqsSh cfg (s.gs i) s.log = runsSh cfg (s.gs i) s.log ++ (s.g i).hand ++ s.queue (s.gs i)
  custodyIdle : ∀ sd, s.scheduled sd = false → enqsSh cfg sd s.log = runsSh cfg sd s.log ++ s.queue sd
  ranDone : ∀ t, t ∈ runs s.log → t ∈ dones s.log ∨ ∃ i, t ∈ (s.g i).cur
  noCancel : cancels s.log = []
  closedIff : s.closedM = true ↔ s.c ≠ .idle
  closeLog : closeOk ∈ s.log ↔ s.c = .ret
  ctxIff : s.ctxAlive = true ↔ s.c ≠ .ret

theorem MBInv.init (cfg : MBCfg) : MBInv cfg MB.init := by
  constructor <;> simp [MB.init, closeOk]

theorem MBInv.step_enqIff {cfg : MBCfg} {s s' : MB} (h : MBInv cfg s) (st : MBStep cfg s s') :
    ∀ t, t ∈ enqs s'.log ↔ (s'.pc t = .enqd ∨ s'.pc t = .ret true) := by
  obtain ⟨h1, h2, h3, h4, h5, h6, h7, h8, h9, h10, h11, h12, h13, h14, h15, h16, h17, h18, h19⟩ := h
  cases st <;> mb_simp <;> grind

theorem MBInv.step_rejIff {cfg : MBCfg} {s s' : MB} (h : MBInv cfg s) (st : MBStep cfg s s') :
    ∀ t, t ∈ rejs s'.log ↔ s'.pc t = .ret false := by
  obtain ⟨h1, h2, h3, h4, h5, h6, h7, h8, h9, h10, h11, h12, h13, h14, h15, h16, h17, h18, h19⟩ := h
  cases st <;> mb_simp <;> grind

theorem MBInv.step_accIff {cfg : MBCfg} {s s' : MB} (h : MBInv cfg s) (st : MBStep cfg s s') :
    ∀ t, t ∈ accs s'.log ↔ s'.pc t = .ret true := by
  obtain ⟨h1, h2, h3, h4, h5, h6, h7, h8, h9, h10, h11, h12, h13, h14, h15, h16, h17, h18, h19⟩ := h
  cases st <;> mb_simp <;> grind

theorem MBInv.step_subIff {cfg : MBCfg} {s s' : MB} (h : MBInv cfg s) (st : MBStep cfg s s') :
    ∀ t, t ∈ subs s'.log ↔ s'.pc t ≠ .idle := by
  obtain ⟨h1, h2, h3, h4, h5, h6, h7, h8, h9, h10, h11, h12, h13, h14, h15, h16, h17, h18, h19⟩ := h
  cases st <;> mb_simp <;> grind

theorem MBInv.step_enqNodup {cfg : MBCfg} {s s' : MB} (h : MBInv cfg s) (st : MBStep cfg s s') :
    (enqs s'.log).Nodup := by
  obtain ⟨h1, h2, h3, h4, h5, h6, h7, h8, h9, h10, h11, h12, h13, h14, h15, h16, h17, h18, h19⟩ := h
  cases st <;> mb_simp <;> grind

theorem MBInv.step_gFresh {cfg : MBCfg} {s s' : MB} (h : MBInv cfg s) (st : MBStep cfg s s') :
    ∀ i, s'.g i ≠ .dead → i < s'.ng := by
  obtain ⟨h1, h2, h3, h4, h5, h6, h7, h8, h9, h10, h11, h12, h13, h14, h15, h16, h17, h18, h19⟩ := h
  cases st <;> mb_simp <;> grind

theorem MBInv.step_gSched {cfg : MBCfg} {s s' : MB} (h : MBInv cfg s) (st : MBStep cfg s s') :
    ∀ i, s'.g i ≠ .dead → s'.scheduled (s'.gs i) = true := by
  obtain ⟨h1, h2, h3, h4, h5, h6, h7, h8, h9, h10, h11, h12, h13, h14, h15, h16, h17, h18, h19⟩ := h
  cases st <;> mb_simp <;> grind

theorem MBInv.step_gUnique {cfg : MBCfg} {s s' : MB} (h : MBInv cfg s) (st : MBStep cfg s s') :
    ∀ i j, s'.g i ≠ .dead → s'.g j ≠ .dead → s'.gs i = s'.gs j → i = j := by
  obtain ⟨h1, h2, h3, h4, h5, h6, h7, h8, h9, h10, h11, h12, h13, h14, h15, h16, h17, h18, h19⟩ := h
  cases st <;> mb_simp <;> grind

theorem MBInv.step_schedG {cfg : MBCfg} {s s' : MB} (h : MBInv cfg s) (st : MBStep cfg s s') :
    ∀ sd, s'.scheduled sd = true → ∃ i, s'.g i ≠ .dead ∧ s'.gs i = sd := by
  obtain ⟨h1, h2, h3, h4, h5, h6, h7, h8, h9, h10, h11, h12, h13, h14, h15, h16, h17, h18, h19⟩ := h
  cases st
  case subEnqSched t hp hc hm hl hsch =>
    intro sd hsd
    by_cases hsd' : sd = cfg.sh t
    · exact ⟨s.ng, by simp [upd], by simp [upd, hsd']⟩
    · simp only [upd_apply, hsd', if_false] at hsd
      obtain ⟨i, hi, hgi⟩ := h9 sd hsd
      have hlt := h6 i hi
      have hne : i ≠ s.ng := by omega
      exact ⟨i, by simp [upd, hne, hi], by simp [upd, hne, hgi]⟩
  all_goals (mb_simp; grind)

theorem MBInv.step_wgCount {cfg : MBCfg} {s s' : MB} (h : MBInv cfg s) (st : MBStep cfg s s') :
    ∀ sd, s'.wg.count sd = (if s'.scheduled sd = true then 1 else 0) + s'.pend sd := by
  obtain ⟨h1, h2, h3, h4, h5, h6, h7, h8, h9, h10, h11, h12, h13, h14, h15, h16, h17, h18, h19⟩ := h
  cases st <;> mb_simp <;> grind

theorem MBInv.step_queueShard {cfg : MBCfg} {s s' : MB} (h : MBInv cfg s) (st : MBStep cfg s s') :
    ∀ sd t, t ∈ s'.queue sd → cfg.sh t = sd := by
  obtain ⟨h1, h2, h3, h4, h5, h6, h7, h8, h9, h10, h11, h12, h13, h14, h15, h16, h17, h18, h19⟩ := h
  cases st <;> mb_simp <;> grind

theorem MBInv.step_handShard {cfg : MBCfg} {s s' : MB} (h : MBInv cfg s) (st : MBStep cfg s s') :
    ∀ i t, t ∈ (s'.g i).hand → cfg.sh t = s'.gs i := by
  obtain ⟨h1, h2, h3, h4, h5, h6, h7, h8, h9, h10, h11, h12, h13, h14, h15, h16, h17, h18, h19⟩ := h
  cases st <;> mb_simp <;> grind

theorem MBInv.step_custodyLive {cfg : MBCfg} {s s' : MB} (h : MBInv cfg s) (st : MBStep cfg s s') :
    ∀ i, s'.g i ≠ .dead → enqsSh cfg (s'.gs i) s'.log = runsSh cfg (s'.gs i) s'.log ++ (s'.g i).hand ++ s'.queue (s'.gs i) := by
  obtain ⟨h1, h2, h3, h4, h5, h6, h7, h8, h9, h10, h11, h12, h13, h14, h15, h16, h17, h18, h19⟩ := h
  cases st
  case gHandle i b hg =>
    have hb : ∀ sd, List.filter (fun t => decide (cfg.sh t = sd)) b = if sd = s.gs i then b else [] := by
      intro sd
      have hh := h12 i
      rw [hg] at hh
      split
      · next h => subst h; exact List.filter_eq_self.mpr (by intro x hx; simpa using hh x hx)
      · next h =>
        refine List.filter_eq_nil_iff.mpr ?_
        intro x hx
        have hx' := hh x hx
        simp only [decide_eq_true_eq]
        intro h'; exact h (h'.symm.trans hx')
    have hs := h7 i (by rw [hg]; simp)
    mb_simp; simp only [hb]; grind
  all_goals (mb_simp; grind)

theorem MBInv.step_custodyIdle {cfg : MBCfg} {s s' : MB} (h : MBInv cfg s) (st : MBStep cfg s s') :
    ∀ sd, s'.scheduled sd = false → enqsSh cfg sd s'.log = runsSh cfg sd s'.log ++ s'.queue sd := by
  obtain ⟨h1, h2, h3, h4, h5, h6, h7, h8, h9, h10, h11, h12, h13, h14, h15, h16, h17, h18, h19⟩ := h
  cases st
  case gHandle i b hg =>
    have hb : ∀ sd, List.filter (fun t => decide (cfg.sh t = sd)) b = if sd = s.gs i then b else [] := by
      intro sd
      have hh := h12 i
      rw [hg] at hh
      split
      · next h => subst h; exact List.filter_eq_self.mpr (by intro x hx; simpa using hh x hx)
      · next h =>
        refine List.filter_eq_nil_iff.mpr ?_
        intro x hx
        have hx' := hh x hx
        simp only [decide_eq_true_eq]
        intro h'; exact h (h'.symm.trans hx')
    have hs := h7 i (by rw [hg]; simp)
    mb_simp; simp only [hb]; grind
  all_goals (mb_simp; grind)

theorem MBInv.step_ranDone {cfg : MBCfg} {s s' : MB} (h : MBInv cfg s) (st : MBStep cfg s s') :
    ∀ t, t ∈ runs s'.log → t ∈ dones s'.log ∨ ∃ i, t ∈ (s'.g i).cur := by
  obtain ⟨h1, h2, h3, h4, h5, h6, h7, h8, h9, h10, h11, h12, h13, h14, h15, h16, h17, h18, h19⟩ := h
  cases st <;> mb_simp <;> grind

theorem MBInv.step_noCancel {cfg : MBCfg} {s s' : MB} (h : MBInv cfg s) (st : MBStep cfg s s') :
    cancels s'.log = [] := by
  obtain ⟨h1, h2, h3, h4, h5, h6, h7, h8, h9, h10, h11, h12, h13, h14, h15, h16, h17, h18, h19⟩ := h
  cases st <;> mb_simp <;> grind

theorem MBInv.step_closedIff {cfg : MBCfg} {s s' : MB} (h : MBInv cfg s) (st : MBStep cfg s s') :
    s'.closedM = true ↔ s'.c ≠ .idle := by
  obtain ⟨h1, h2, h3, h4, h5, h6, h7, h8, h9, h10, h11, h12, h13, h14, h15, h16, h17, h18, h19⟩ := h
  cases st <;> mb_simp <;> grind

theorem MBInv.step_closeLog {cfg : MBCfg} {s s' : MB} (h : MBInv cfg s) (st : MBStep cfg s s') :
    closeOk ∈ s'.log ↔ s'.c = .ret := by
  obtain ⟨h1, h2, h3, h4, h5, h6, h7, h8, h9, h10, h11, h12, h13, h14, h15, h16, h17, h18, h19⟩ := h
  cases st <;> mb_simp <;> grind

theorem MBInv.step_ctxIff {cfg : MBCfg} {s s' : MB} (h : MBInv cfg s) (st : MBStep cfg s s') :
    s'.ctxAlive = true ↔ s'.c ≠ .ret := by
  obtain ⟨h1, h2, h3, h4, h5, h6, h7, h8, h9, h10, h11, h12, h13, h14, h15, h16, h17, h18, h19⟩ := h
  cases st <;> mb_simp <;> grind

theorem MBInv.step {cfg : MBCfg} {s s' : MB} (h : MBInv cfg s) (st : MBStep cfg s s') : MBInv cfg s' :=
  ⟨h.step_enqIff st, h.step_rejIff st, h.step_accIff st, h.step_subIff st, h.step_enqNodup st, h.step_gFresh st, h.step_gSched st, h.step_gUnique st, h.step_schedG st, h.step_wgCount st, h.step_queueShard st, h.step_handShard st, h.step_custodyLive st, h.step_custodyIdle st, h.step_ranDone st, h.step_noCancel st, h.step_closedIff st, h.step_closeLog st, h.step_ctxIff st⟩

theorem MBReach.inv {cfg : MBCfg} {s : MB} (r : MBReach cfg s) : MBInv cfg s := by
  induction r with
  | init => exact MBInv.init cfg
  | step _ st ih => exact ih.step st


/-! ### close waits for the repaired finishShardDrain -/

/-- repaired protocol: while the mailbox context is alive an un-scheduled shard has an empty queue -/
def MBUnschedEmpty (s : MB) : Prop := s.ctxAlive = true → ∀ sd, s.scheduled sd = false → s.queue sd = []

theorem MBUnschedEmpty.step {cfg : MBCfg} {s s' : MB} (hr : cfg.repaired = true) (h : MBInv cfg s)
    (hu : MBUnschedEmpty s) (st : MBStep cfg s s') : MBUnschedEmpty s' := by
  obtain ⟨h1, h2, h3, h4, h5, h6, h7, h8, h9, h10, h11, h12, h13, h14, h15, h16, h17, h18, h19⟩ := h
  unfold MBUnschedEmpty at *
  cases st <;> mb_simp <;> grind

theorem MBStep.log_mono {cfg : MBCfg} {s s' : MB} (st : MBStep cfg s s') : ∃ r, s'.log = s.log ++ r := by
  cases st <;> first | exact ⟨_, rfl⟩ | exact ⟨[], by simp⟩

theorem MBStep.enq_stable {cfg : MBCfg} {s s' : MB} (h : MBInv cfg s) (st : MBStep cfg s s') (hr : s.c = .ret)
    (t : Nat) : t ∈ enqs s'.log → t ∈ enqs s.log := by
  obtain ⟨h1, h2, h3, h4, h5, h6, h7, h8, h9, h10, h11, h12, h13, h14, h15, h16, h17, h18, h19⟩ := h
  cases st <;> mb_simp <;> grind

theorem MBStep.closeOk_new {cfg : MBCfg} {s s' : MB} (st : MBStep cfg s s') (hn : closeOk ∉ s.log)
    (hin : closeOk ∈ s'.log) : s'.log = s.log ++ [closeOk] ∧ s.wg = [] ∧ s.c = .closing cfg.nsh := by
  cases st <;> simp_all [closeOk]

def MBWaited (s : MB) : Prop := closeOk ∈ s.log → ∀ t, t ∈ enqs s.log → t ∈ dones (preClose s.log)

theorem MBWaited.step {cfg : MBCfg} {s s' : MB} (h : MBInv cfg s) (hu : MBUnschedEmpty s) (hw : MBWaited s)
    (st : MBStep cfg s s') : MBWaited s' := by
  intro hin t ht
  by_cases hold : closeOk ∈ s.log
  · obtain ⟨r, hr⟩ := st.log_mono
    rw [hr, preClose_append_of_mem r hold]
    exact hw hold t (st.enq_stable h (h.closeLog.mp hold) t ht)
  · obtain ⟨hl, hwg, hc⟩ := st.closeOk_new hold hin
    rw [hl, preClose_of_not_mem hold]
    rw [hl] at ht
    simp only [enqs_append, enqs_cons, enqs_nil, closeOk, List.append_nil] at ht
    -- nothing is scheduled, no drain instance is live
    have hsch : ∀ sd, s.scheduled sd = false := by
      intro sd
      have := h.wgCount sd
      rw [hwg] at this
      cases hs : s.scheduled sd
      · rfl
      · simp [hs] at this; omega
    have hdead : ∀ i, s.g i = .dead := by
      intro i
      by_cases hi : s.g i = .dead
      · exact hi
      · have := h.gSched i hi; rw [hsch] at this; cases this
    have halive : s.ctxAlive = true := h.ctxIff.mpr (by rw [hc]; simp)
    have hq := hu halive (cfg.sh t) (hsch _)
    have hcust := h.custodyIdle (cfg.sh t) (hsch _)
    rw [hq, List.append_nil] at hcust
    have hmem : t ∈ enqsSh cfg (cfg.sh t) s.log := by simp [enqsSh, ht]
    rw [hcust] at hmem
    have hrun : t ∈ runs s.log := (List.mem_filter.mp hmem).1
    rcases h.ranDone t hrun with hd | ⟨i, hi⟩
    · exact hd
    · rw [hdead i] at hi; simp at hi

theorem MBReach.unschedEmpty {cfg : MBCfg} {s : MB} (hr : cfg.repaired = true) (r : MBReach cfg s) :
    MBUnschedEmpty s := by
  induction r with
  | init => intro _ sd _; rfl
  | step r st ih => exact ih.step hr r.inv st

theorem MBReach.waited {cfg : MBCfg} {s : MB} (hr : cfg.repaired = true) (r : MBReach cfg s) : MBWaited s := by
  induction r with
  | init => intro h; simp [MB.init] at h
  | step r st ih => exact ih.step r.inv (r.unschedEmpty hr) st

end WK.C37

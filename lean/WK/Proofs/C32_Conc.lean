import WK.Proofs.C32_Tok
/-
  C32: locality and commutation of single-identity operations (the mover lemma behind the
  linearizability of per-shard mutex regions).
-/
namespace WK.C32

/-- the effect of a single-identity operation on its own entry -/
inductive KEff
  | keep
  | put (e : Entry)
  | del
  deriving DecidableEq

def applyEff (s : St) (k : MKey) : KEff → St
  | .keep => s
  | .put e => { s with entries := aput k e s.entries }
  | .del => { s with entries := adel k s.entries, count := s.count - 1 }

/-- single-identity operations: each is one critical section of the shard of its session -/
inductive KOp
  | finish (p : Pend) (tok : Nat)
  | cancel (p : Pend) (tok : Nat)
  | ack (k : MKey)

def KOp.key : KOp → MKey
  | .finish p _ => p.key
  | .cancel p _ => p.key
  | .ack k => k

def KOp.toOp : KOp → Op
  | .finish p t => .finish p t
  | .cancel p t => .cancel p t
  | .ack k => .ack k

/-- what the operation decides from its own entry alone: the entry effect and the result with
    the pending-count field left out (`none` entry = identity not outstanding) -/
def KOp.decide : KOp → Option Entry → KEff × Out
  | .finish p tok, e? =>
    if !p.valid || tok = 0 then (.keep, .bool false)
    else match e? with
      | none => (.keep, .bool false)
      | some e => if (e.finishAttempt tok).2 then (.put (e.finishAttempt tok).1, .bool true) else (.keep, .bool false)
  | .cancel p tok, e? =>
    if !p.valid || tok = 0 then (.keep, .canceled ⟨false, false, 0⟩)
    else match e? with
      | none => (.keep, .canceled ⟨false, false, 0⟩)
      | some e =>
        if !(e.cancelAttempt tok).2 then (.keep, .canceled ⟨false, false, 0⟩)
        else if (e.cancelAttempt tok).1.committed || (e.cancelAttempt tok).1.hasAttempts then
          (.put (e.cancelAttempt tok).1, .canceled ⟨true, false, 0⟩)
        else (.del, .canceled ⟨true, true, 0⟩)
  | .ack k, e? =>
    if k.uid = [] ∨ k.sess = 0 ∨ k.msg = 0 then (.keep, .acked none)
    else match e? with
      | none => (.keep, .acked none)
      | some e => (.del, .acked (some e.pending))

/-- results with the pending-count field erased -/
def eraseCount : Out → Out
  | .canceled r => .canceled { r with count := 0 }
  | o => o

/-- **Locality.**  A single-identity operation reads only its own entry and changes only its own
    entry (and the counter by the matching amount). -/
theorem kop_local (s : St) (o : KOp) :
    (step s o.toOp).1 = applyEff s o.key (o.decide (aget o.key s.entries)).1 ∧
    eraseCount (step s o.toOp).2 = (o.decide (aget o.key s.entries)).2 := by
  cases o with
  | finish p tok =>
    simp only [KOp.toOp, KOp.key, KOp.decide, step, finish]
    split
    · exact ⟨rfl, rfl⟩
    · cases aget p.key s.entries with
      | none => exact ⟨rfl, rfl⟩
      | some e => simp only; split <;> exact ⟨rfl, rfl⟩
  | cancel p tok =>
    simp only [KOp.toOp, KOp.key, KOp.decide, step, cancel]
    split
    · exact ⟨rfl, rfl⟩
    · cases aget p.key s.entries with
      | none => exact ⟨rfl, rfl⟩
      | some e =>
        simp only
        split
        · exact ⟨rfl, rfl⟩
        · split <;> exact ⟨rfl, rfl⟩
  | ack k =>
    simp only [KOp.toOp, KOp.key, KOp.decide, step, ack]
    split
    · exact ⟨rfl, rfl⟩
    · cases aget k s.entries with
      | none => exact ⟨rfl, rfl⟩
      | some e => exact ⟨rfl, rfl⟩


/-! #### operations on different identities commute -/

theorem aput_comm {k k' : MKey} {v v' : Entry} {m : List (MKey × Entry)} (hne : k ≠ k')
    (h1 : (aget k m).isSome) (h2 : (aget k' m).isSome) :
    aput k v (aput k' v' m) = aput k' v' (aput k v m) := by
  induction m with
  | nil => simp at h1
  | cons p m ih =>
    obtain ⟨a, b⟩ := p
    by_cases ha : a = k
    · subst ha
      have hne' : ¬ a = k' := hne
      simp [aput, hne']
    · by_cases hb : a = k'
      · subst hb
        simp [aput, ha]
      · rw [aget_cons] at h1 h2
        simp only [ha, hb, if_false] at h1 h2
        simp [aput, ha, hb, ih h1 h2]

theorem aput_adel_comm {k k' : MKey} {v : Entry} {m : List (MKey × Entry)} (hne : k ≠ k') :
    aput k v (adel k' m) = adel k' (aput k v m) := by
  induction m with
  | nil => simp [aput, adel, hne]
  | cons p m ih =>
    obtain ⟨a, b⟩ := p
    by_cases ha : a = k
    · subst ha
      have : ¬ a = k' := hne
      simp [aput, adel, this]
    · by_cases hb : a = k'
      · subst hb
        simp only [adel, List.filter_cons] at ih ⊢
        simp [aput, ha]
        simpa using ih
      · simp only [adel, List.filter_cons] at ih ⊢
        simp [aput, ha, hb]
        simpa using ih

theorem adel_comm (k k' : MKey) (m : List (MKey × Entry)) : adel k (adel k' m) = adel k' (adel k m) := by
  simp only [adel, List.filter_filter]
  apply List.filter_congr
  intro x _
  exact Bool.and_comm _ _

theorem aget_applyEff_other (s : St) {k k' : MKey} (hne : k' ≠ k) (e : KEff) :
    aget k' (applyEff s k e).entries = aget k' s.entries := by
  cases e <;> simp [applyEff, aget_aput, aget_adel, hne]

theorem decide_put_some {o : KOp} {e? : Option Entry} {e : Entry} (h : (o.decide e?).1 = .put e) : e?.isSome := by
  cases e? with
  | some _ => rfl
  | none =>
    cases o <;> simp only [KOp.decide] at h <;> (split at h <;> simp at h)

theorem applyEff_comm (s : St) {k1 k2 : MKey} (hne : k1 ≠ k2) (e1 e2 : KEff)
    (h1 : ∀ e, e1 = .put e → (aget k1 s.entries).isSome) (h2 : ∀ e, e2 = .put e → (aget k2 s.entries).isSome) :
    applyEff (applyEff s k1 e1) k2 e2 = applyEff (applyEff s k2 e2) k1 e1 := by
  cases e1 with
  | keep => cases e2 <;> rfl
  | put a =>
    cases e2 with
    | keep => rfl
    | put b =>
      simp only [applyEff]
      rw [aput_comm hne.symm (h2 b rfl) (h1 a rfl)]
    | del =>
      simp only [applyEff]
      rw [aput_adel_comm hne]
  | del =>
    cases e2 with
    | keep => rfl
    | put b =>
      simp only [applyEff]
      rw [aput_adel_comm hne.symm]
    | del =>
      simp only [applyEff]
      rw [adel_comm]

/-- **Mover lemma (towards linearizability).**  Two single-identity operations on different
    identities — in particular any two operations running under different shard mutexes —
    commute: either order gives the same tracker state, and each operation returns the same
    result (up to the pending-count field, which reports the count at its own linearization
    point) as if it ran alone.  Together with mutual exclusion inside one shard, every
    concurrent history of such operations is therefore equivalent to a sequential one. -/
theorem c32_disjoint_ops_commute (s : St) (o1 o2 : KOp) (hne : o1.key ≠ o2.key) :
    (step (step s o1.toOp).1 o2.toOp).1 = (step (step s o2.toOp).1 o1.toOp).1 ∧
    eraseCount (step (step s o1.toOp).1 o2.toOp).2 = eraseCount (step s o2.toOp).2 ∧
    eraseCount (step (step s o2.toOp).1 o1.toOp).2 = eraseCount (step s o1.toOp).2 := by
  have l1 := kop_local s o1
  have l2 := kop_local s o2
  have l12 := kop_local (step s o1.toOp).1 o2
  have l21 := kop_local (step s o2.toOp).1 o1
  have g2 : aget o2.key (step s o1.toOp).1.entries = aget o2.key s.entries := by
    rw [l1.1]; exact aget_applyEff_other s hne.symm _
  have g1 : aget o1.key (step s o2.toOp).1.entries = aget o1.key s.entries := by
    rw [l2.1]; exact aget_applyEff_other s hne _
  rw [g2] at l12
  rw [g1] at l21
  refine ⟨?_, by rw [l12.2, l2.2], by rw [l21.2, l1.2]⟩
  rw [l12.1, l21.1, l1.1, l2.1]
  exact applyEff_comm s hne _ _ (fun e he => decide_put_some he) (fun e he => decide_put_some he)

/-- different shards ⇒ different identities -/
theorem c32_different_shards_commute (s : St) (o1 o2 : KOp)
    (hsh : shardOf s o1.key.sess ≠ shardOf s o2.key.sess) :
    (step (step s o1.toOp).1 o2.toOp).1 = (step (step s o2.toOp).1 o1.toOp).1 :=
  (c32_disjoint_ops_commute s o1 o2 (fun e => hsh (by rw [e]))).1


def runK (s : St) (os : List KOp) : St := run s (os.map KOp.toOp)

def DistinctKeys (os : List KOp) : Prop := os.Pairwise (fun a b => a.key ≠ b.key)

/-- **Every serialization of concurrent single-identity operations gives the same state.**  For
    operations on pairwise different identities (e.g. one in flight per shard mutex), any two
    orders in which their critical sections may be serialized end in the same tracker state. -/
theorem c32_serializations_agree {os1 os2 : List KOp} (hp : os1.Perm os2) :
    ∀ s : St, DistinctKeys os1 → runK s os1 = runK s os2 := by
  induction hp with
  | nil => intro s _; rfl
  | cons x _ ih =>
    intro s hd
    unfold runK run at ih ⊢
    simp only [List.map_cons, List.foldl_cons]
    exact ih _ (List.pairwise_cons.mp hd).2
  | swap x y l =>
    intro s hd
    unfold runK run
    simp only [List.map_cons, List.foldl_cons]
    have hxy : y.key ≠ x.key := (List.pairwise_cons.mp hd).1 x (by simp)
    rw [(c32_disjoint_ops_commute s y x hxy).1]
  | trans h1 _ ih1 ih2 =>
    intro s hd
    have hd2 := (h1.pairwise_iff (R := fun a b : KOp => a.key ≠ b.key) (fun h => h.symm)).mp hd
    rw [ih1 s hd, ih2 s hd2]

end WK.C32

import WK.Model.C13
/-
  C13 — the TLV skeleton: the decoder loop consumes exactly its input and
  inverts the encoder.
-/
namespace WK.C13

theorem be32_encLen (n : Nat) (h : n < 4294967296) :
    be32 (UInt8.ofNat (n / 16777216 % 256)) (UInt8.ofNat (n / 65536 % 256)) (UInt8.ofNat (n / 256 % 256))
      (UInt8.ofNat (n % 256)) = n := by
  simp only [be32, UInt8.toNat_ofNat']
  omega

/-- a successful `readTLV` splits the input as header ++ value ++ rest -/
theorem readTLV_ok (d : Bytes) (tag : Nat) (v rest : Bytes) (h : readTLV d = .ok (tag, v, rest)) :
    ∃ t a b c e, d = t :: a :: b :: c :: e :: (v ++ rest) ∧ tag = t.toNat ∧ v.length = be32 a b c e := by
  match d, h with
  | t :: a :: b :: c :: e :: r, h =>
    simp only [readTLV] at h
    split at h
    · cases h
    · rename_i hle
      simp only [Except.ok.injEq, Prod.mk.injEq] at h
      obtain ⟨rfl, rfl, rfl⟩ := h
      refine ⟨t, a, b, c, e, by simp, rfl, ?_⟩
      rw [List.length_take]; omega

theorem u8_toNat_ofNat (n : Nat) (h : n < 256) : (UInt8.ofNat n).toNat = n := by
  rw [UInt8.toNat_ofNat']; exact Nat.mod_eq_of_lt h

theorem readTLV_cons5 (t a b c e : UInt8) (r : Bytes) :
    readTLV (t :: a :: b :: c :: e :: r) =
      (if be32 a b c e > r.length then .error .corrupt
       else .ok (t.toNat, r.take (be32 a b c e), r.drop (be32 a b c e))) := rfl

theorem readTLV_encode (tag : Nat) (v rest : Bytes) (ht : tag < 256) (hl : v.length < 4294967296) :
    readTLV (UInt8.ofNat tag :: (encLen v.length ++ v ++ rest)) = .ok (tag, v, rest) := by
  have hb := be32_encLen v.length hl
  unfold encLen
  simp only [List.cons_append, List.nil_append]
  rw [readTLV_cons5, hb]
  have : ¬ v.length > (v ++ rest).length := by rw [List.length_append]; omega
  rw [if_neg this, List.take_left' rfl, List.drop_left' rfl, u8_toNat_ofNat tag ht]

theorem walk_succ_cons (fuel : Nat) (x : UInt8) (xs : Bytes) :
    walkTLVFuel (fuel + 1) (x :: xs) =
      (match readTLV (x :: xs) with
       | .error e => .error e
       | .ok (tag, v, rest) =>
         match walkTLVFuel fuel rest with
         | .error e => .error e
         | .ok fs => .ok ((tag, v) :: fs)) := by
  rw [walkTLVFuel]
  · cases readTLV (x :: xs) <;> rfl
  · intro h; cases h

/-- with enough fuel the loop inverts the encoder -/
theorem walk_encode (fs : List (Nat × Bytes)) (fuel : Nat)
    (ht : ∀ f ∈ fs, f.1 < 256 ∧ f.2.length < 4294967296) (hf : fs.length ≤ fuel) :
    walkTLVFuel fuel (encodeTLV fs) = .ok fs := by
  induction fs generalizing fuel with
  | nil => cases fuel <;> rfl
  | cons f fs ih =>
    obtain ⟨tag, v⟩ := f
    have h1 := ht (tag, v) (List.mem_cons_self ..)
    cases fuel with
    | zero => simp at hf
    | succ fuel =>
      have hr := readTLV_encode tag v (encodeTLV fs) h1.1 h1.2
      have hi := ih fuel (fun f hf' => ht f (List.mem_cons_of_mem _ hf')) (by simp only [List.length_cons] at hf; omega)
      show walkTLVFuel (fuel + 1) (UInt8.ofNat tag :: (encLen v.length ++ v ++ encodeTLV fs)) = _
      rw [walk_succ_cons, hr]
      simp only [hi]

theorem encodeTLV_length (fs : List (Nat × Bytes)) : fs.length ≤ (encodeTLV fs).length := by
  induction fs with
  | nil => simp
  | cons f fs ih =>
    obtain ⟨t, v⟩ := f
    simp only [encodeTLV, encLen, List.length_cons, List.length_append]
    omega

/-- whatever the loop accepts is exactly an encoding: it never reads past the
    input and leaves nothing unread -/
theorem walk_sound (fuel : Nat) (d : Bytes) (fs : List (Nat × Bytes))
    (h : walkTLVFuel fuel d = .ok fs) :
    ∃ gs : List (UInt8 × UInt8 × UInt8 × UInt8 × UInt8 × Bytes),
      fs = gs.map (fun g => (g.1.toNat, g.2.2.2.2.2)) ∧
      d = gs.flatMap (fun g => g.1 :: g.2.1 :: g.2.2.1 :: g.2.2.2.1 :: g.2.2.2.2.1 :: g.2.2.2.2.2) ∧
      ∀ g ∈ gs, g.2.2.2.2.2.length = be32 g.2.1 g.2.2.1 g.2.2.2.1 g.2.2.2.2.1 := by
  induction fuel generalizing d fs with
  | zero =>
    cases d with
    | nil => simp only [walkTLVFuel, Except.ok.injEq] at h; subst h; exact ⟨[], rfl, rfl, by simp⟩
    | cons x xs => simp [walkTLVFuel] at h
  | succ fuel ih =>
    cases d with
    | nil => simp only [walkTLVFuel, Except.ok.injEq] at h; subst h; exact ⟨[], rfl, rfl, by simp⟩
    | cons x xs =>
      rw [walk_succ_cons] at h
      cases hr : readTLV (x :: xs) with
      | error e => rw [hr] at h; simp at h
      | ok p =>
        obtain ⟨tag, v, rest⟩ := p
        rw [hr] at h
        simp only at h
        cases hw : walkTLVFuel fuel rest with
        | error e => rw [hw] at h; simp at h
        | ok fs' =>
          rw [hw] at h
          simp only [Except.ok.injEq] at h
          subst h
          obtain ⟨gs, hfs, hd, hl⟩ := ih rest fs' hw
          obtain ⟨t, a, b, c, e, hdd, htag, hlen⟩ := readTLV_ok _ tag v rest hr
          refine ⟨(t, a, b, c, e, v) :: gs, ?_, ?_, ?_⟩
          · simp [hfs, htag]
          · rw [hdd, hd]; simp
          · intro g hg
            rcases List.mem_cons.1 hg with rfl | hg
            · exact hlen
            · exact hl g hg

end WK.C13

import WK.Proofs.C07_Ref2
/-
  C07 — refinement of `doAppend` (all three modes) by `specAppend`.
-/
namespace WK.C07

theorem stage_fold_plain (c : Nat) (new : List Row) (st : Store) (hc : c < st.chans.length) :
    ((new.foldl (stageRow c) st).chan c).rows = (st.chan c).rows ++ new ∧
    ((new.foldl (stageRow c) st).chan c).ret = (st.chan c).ret ∧
    ((new.foldl (stageRow c) st).chan c).ck = (st.chan c).ck ∧
    (new.foldl (stageRow c) st).chans.length = st.chans.length ∧
    (∀ c', c' ≠ c → (new.foldl (stageRow c) st).chan c' = st.chan c') := by
  induction new generalizing st with
  | nil => simp
  | cons a t ih =>
    simp only [List.foldl_cons]
    obtain ⟨hrows, _, _, _, hret, hck, _, _, hlen, hother⟩ := stageRow_spec c st a hc
    obtain ⟨r2, t2, k2, l2, o2⟩ := ih (stageRow c st a) (by rw [hlen]; exact hc)
    refine ⟨by rw [r2, hrows]; simp, by rw [t2, hret], by rw [k2, hck], by rw [l2, hlen], ?_⟩
    intro c' e; rw [o2 c' e, hother c' e]

/-- the reference-log view and the per-row check after an accepted batch was staged -/
theorem staged_abs (st : Store) (c mode : Nat) (recs : List Rec) (new : List Row) (ck : Option Ckpt)
    (hi : Inv st) (hk : Chk st) (hs : SafeBatch st c mode recs) (hl : (st.chan c).leoC = some (recoverLEO (st.chan c)))
    (hb : BatchOK st c mode (recoverLEO (st.chan c) + 1) recs.length recs {} new) (hne : new ≠ []) :
    let st2 := new.foldl (stageRow c) st
    let st3 := match ck with | some k => st2.setChan c { st2.chan c with ck := some k } | none => st2
    let fin := setLeoC st3 c (recoverLEO (st.chan c) + new.length)
    abs fin = (abs st).setChan c { rows := (st.chan c).rows ++ new, leo := recoverLEO (st.chan c) + new.length,
                                   ret := (st.chan c).ret, ck := match ck with | some k => some k | none => (st.chan c).ck } ∧
    ((∀ r ∈ new, rowCheck r = .ok ()) → Chk fin) := by
  intro st2 st3 fin
  have hc : c < st.chans.length := by rw [hi.len]; exact hs.1
  have If : Inv fin := stage_batch_inv st c mode recs new ck hi hs hl hb hne
  obtain ⟨r2, t2, k2, l2, o2⟩ := stage_fold_plain c new st hc
  have hc2 : c < st2.chans.length := by rw [l2]; exact hc
  have h3 : st3.chans.length = st.chans.length ∧ (st3.chan c).rows = (st.chan c).rows ++ new ∧
      (st3.chan c).ret = (st.chan c).ret ∧ (st3.chan c).ck = (match ck with | some k => some k | none => (st.chan c).ck) ∧
      (∀ c', c' ≠ c → st3.chan c' = st.chan c') := by
    cases ck with
    | none => exact ⟨l2, r2, t2, k2, o2⟩
    | some k =>
      show (st2.setChan c _).chans.length = _ ∧ _
      have e := chan_set_self st2 c { st2.chan c with ck := some k } hc2
      exact ⟨by rw [set_len, l2], by rw [e]; exact r2, by rw [e]; exact t2, by rw [e],
        fun c' hne' => by rw [chan_set_ne _ _ _ _ hne', o2 c' hne']⟩
  obtain ⟨l3, r3, t3, k3, o3⟩ := h3
  have hc3 : c < st3.chans.length := by rw [l3]; exact hc
  have hfin : fin.chan c = { st3.chan c with leoC := some (recoverLEO (st.chan c) + new.length) } := chan_set_self _ _ _ hc3
  have hleo : recoverLEO (fin.chan c) = recoverLEO (st.chan c) + new.length := by
    have := (If.chan c).cache (recoverLEO (st.chan c) + new.length) (by rw [hfin])
    exact this.symm
  constructor
  · rw [abs_eq_of st fin c (by show (st3.setChan c _).chans.length = _; rw [set_len, l3])
      (fun c' e => by show (st3.setChan c _).chan c' = _; rw [chan_set_ne _ _ _ _ e, o3 c' e])]
    congr 1
    unfold absChan
    rw [hleo, hfin]
    simp only [r3, t3, k3]
  · intro hnew c' r hr
    by_cases e : c' = c
    · subst e
      rw [hfin] at hr
      change r ∈ (st3.chan c').rows at hr
      rw [r3] at hr
      rcases List.mem_append.mp hr with h | h
      · exact hk c' r h
      · exact hnew r h
    · have : fin.chan c' = st.chan c' := by
        show (st3.setChan c _).chan c' = _; rw [chan_set_ne _ _ _ _ e, o3 c' e]
      rw [this] at hr; exact hk c' r hr

theorem rowsOfP_check (seq : Nat) (recs : List Rec) (h : ∀ rc ∈ recs, rc.id ≠ 0) : ∀ r ∈ rowsOfP seq recs, rowCheck r = .ok () := by
  induction recs generalizing seq with
  | nil => intro r hr; cases hr
  | cons a t ih =>
    intro r hr
    rcases List.mem_cons.mp hr with e | e
    · rw [e]; exact rowCheck_mkRow _ _ (h a List.mem_cons_self)
    · exact ih (seq + 1) (fun rc hrc => h rc (List.mem_cons_of_mem _ hrc)) r e

end WK.C07

import WK.Proofs.C39_perkey
/-
  C39 — the model properties behind the `sb` (source batch) and `snap2` (re-install) ops.
-/
namespace WK.C39

/-- a fenced source refuses a whole run of ordinary writes: nothing applied, nothing outboxed, nothing forwarded -/
theorem writes_fenced (ws : List (Nat × Nat)) (s : Src) (ho : s.owned = true) (hf : s.fenced = true) :
    (s.writes ws).1.data = s.data ∧ (s.writes ws).1.outbox = s.outbox ∧ (s.writes ws).2 = [] ∧
    (s.writes ws).1.fenced = true := by
  induction ws generalizing s with
  | nil => exact ⟨rfl, rfl, rfl, hf⟩
  | cons w rest ih =>
    obtain ⟨k, v⟩ := w
    cases s with
    | mk data owned started idx outbox st =>
      simp only at ho
      subst ho
      cases st with
      | none => simp [Src.fenced] at hf
      | some m =>
        have hm : (m.fence != 0) = true := by simpa [Src.fenced] using hf
        have hw : (Src.write ⟨data, true, started, idx, outbox, some m⟩ k v) =
            (⟨data, true, started, idx + 1, outbox, some m⟩, "fenced", none) := by
          simp [Src.write, Src.fenced, hm]
        have := ih ⟨data, true, started, idx + 1, outbox, some m⟩ rfl (by simpa [Src.fenced] using hm)
        simp only [Src.writes, hw]
        exact ⟨this.1, this.2.1, by simp [this.2.2.1], this.2.2.2⟩

/-- **Fence inside a batch.**  In one source ApplyBatch (the model is the sequential fold the `sb` op
    runs), every ordinary write that FOLLOWS an accepted enter_fence is refused: the store and the
    outbox are exactly what the fence left, nothing more is forwarded. -/
theorem c39_fence_batch (s : Src) (ho : s.open) (hs : s.started = true) (ws : List (Nat × Nat)) :
    ((s.fence).1.writes ws).1.data = s.data ∧
    ((s.fence).1.writes ws).1.outbox = (s.fence).1.outbox ∧
    ((s.fence).1.writes ws).2 = [] ∧ ((s.fence).1.writes ws).1.fenced = true := by
  have hf := c39_fence_forwarded s ho hs
  have hown : (s.fence).1.owned = true := by
    obtain ⟨h1, _⟩ := ho
    cases s with
    | mk data owned started idx outbox st =>
      simp only at h1 hs; subst h1 hs
      simp [Src.fence]; split <;> rfl
  have hdata : (s.fence).1.data = s.data := by
    cases s with
    | mk data owned started idx outbox st =>
      simp only at hs; subst hs
      simp [Src.fence]; split <;> rfl
  have := writes_fenced ws (s.fence).1 hown hf.1
  exact ⟨by rw [this.1, hdata], this.2.1, this.2.2.1, this.2.2.2⟩

example : ((({ started := true } : Src).fence).1.writes [(1, 7), (2, 8)]).1.data = [] ∧
    ((({ started := true } : Src).fence).1.writes [(1, 7), (2, 8)]).2 = [] := by decide

/-- **A snapshot install keeps the applied-delta records.**  Installing the hash-slot snapshot on the
    target (first time, retry, or a newer snapshot) replaces the data and leaves the durable replay
    keys untouched; therefore every delta that was applied before the install stays a no-op after it. -/
theorem c39_snapshot_install_keeps_applied (t : Tgt) (s : Src) (ds : List Delta) (h : ∀ d ∈ ds, d.idx ∈ t.applied) :
    (t.importSnapshot s).applied = t.applied ∧ (t.importSnapshot s).deliverAll ds = t.importSnapshot s := by
  refine ⟨rfl, ?_⟩
  induction ds with
  | nil => rfl
  | cons d rest ih =>
    simp only [Tgt.deliverAll, List.foldl]
    rw [applyDelta_recorded (t.importSnapshot s) d (h d List.mem_cons_self)]
    exact ih (fun x hx => h x (List.mem_cons_of_mem _ hx))

/-- non-vacuity: delta 1 (key 1 := 10) applied, newer snapshot says key 1 = 30, replay of delta 1 changes nothing -/
example : get (((({} : Tgt).applyDelta ⟨1, some (1, 10)⟩).importSnapshot { data := [(1, 30)] }).applyDelta ⟨1, some (1, 10)⟩).data 1 = some 30 := by
  decide

end WK.C39

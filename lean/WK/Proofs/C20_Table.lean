import WK.Model.C20
/-
  C20 — table operations: the version moves exactly on an effective change;
  totality (every hash slot has a non-zero owner) is an invariant of every
  history that starts at NewHashSlotTable(h, p ≥ 1).
-/
namespace WK.C20

/-- one mutating call on a *HashSlotTable -/
inductive TOp where
  | reassign (hs slot : Nat)
  | start (hs src tgt : Nat)
  | advance (hs phase : Nat)
  | finalize (hs : Nat)
  | abort (hs : Nat)
deriving Repr

def applyOp (t : Table) : TOp → Table
  | .reassign hs slot => reassign t hs slot
  | .start hs src tgt => startMigration t hs src tgt
  | .advance hs ph => advanceMigration t hs ph
  | .finalize hs => finalizeMigration t hs
  | .abort hs => abortMigration t hs

/-! ### migration map -/

theorem migGet_migPut_self (l : List Mig) (m : Mig) : migGet (migPut l m) m.hs = some m := by
  induction l with
  | nil => simp [migPut, migGet]
  | cons x rest ih =>
    simp only [migPut]
    split
    · simp [migGet]
    · split
      · simp [migGet]
      · rename_i h1 h2
        have : x.hs ≠ m.hs := fun e => h2 e.symm
        simp [migGet, this, ih]

theorem mem_migPut (l : List Mig) (m x : Mig) (h : x ∈ migPut l m) : x = m ∨ x ∈ l := by
  induction l with
  | nil => simp [migPut] at h; exact Or.inl h
  | cons y rest ih =>
    simp only [migPut] at h
    split at h
    · rcases List.mem_cons.mp h with h | h
      · exact Or.inl h
      · exact Or.inr h
    · split at h
      · rcases List.mem_cons.mp h with h | h
        · exact Or.inl h
        · exact Or.inr (List.mem_cons_of_mem _ h)
      · rcases List.mem_cons.mp h with h | h
        · exact Or.inr (by simp [h])
        · rcases ih h with h | h
          · exact Or.inl h
          · exact Or.inr (List.mem_cons_of_mem _ h)

theorem mem_of_migGet (l : List Mig) (hs : Nat) (m : Mig) (h : migGet l hs = some m) : m ∈ l ∧ m.hs = hs := by
  induction l with
  | nil => simp [migGet] at h
  | cons x rest ih =>
    simp only [migGet] at h
    split at h
    · rename_i e
      have := Option.some.inj h
      subst this
      exact ⟨by simp, e⟩
    · exact ⟨List.mem_cons_of_mem _ (ih h).1, (ih h).2⟩

theorem length_migDel (l : List Mig) (hs : Nat) (m : Mig) (h : migGet l hs = some m) :
    (migDel l hs).length + 1 = l.length := by
  induction l with
  | nil => simp [migGet] at h
  | cons x rest ih =>
    simp only [migGet] at h
    simp only [migDel]
    split at h
    · rename_i e; simp [e]
    · rename_i e; simp [e, ih h]

theorem mem_migDel (l : List Mig) (hs : Nat) (x : Mig) (h : x ∈ migDel l hs) : x ∈ l := by
  induction l with
  | nil => simp [migDel] at h
  | cons y rest ih =>
    simp only [migDel] at h
    split at h
    · exact List.mem_cons_of_mem _ h
    · rcases List.mem_cons.mp h with h | h
      · simp [h]
      · exact List.mem_cons_of_mem _ (ih h)

/-! ### version strictness -/

/-- did the call change what the table says (assignment or migration set)? -/
def Changed (t t' : Table) : Prop := t'.asg ≠ t.asg ∨ t'.migs ≠ t.migs

theorem set_ne_self (a : List Nat) (i v : Nat) (hi : i < a.length) (hv : a.getD i 0 ≠ v) : a.set i v ≠ a := by
  intro h
  have h1 : (a.set i v)[i]? = some v := by simp [hi]
  rw [h] at h1
  rw [List.getD_eq_getElem?_getD, h1] at hv
  exact hv rfl

/-- every call either leaves the table untouched (version included) or changes
    assignment/migrations AND increments the version -/
theorem op_effect (t : Table) (op : TOp) :
    applyOp t op = t ∨ (Changed t (applyOp t op) ∧ (applyOp t op).version = bump t.version) := by
  cases op with
  | reassign hs slot =>
    simp only [applyOp, reassign]
    split
    · exact Or.inl rfl
    · split
      · exact Or.inl rfl
      · rename_i h1 h2
        exact Or.inr ⟨Or.inl (set_ne_self _ _ _ (by omega) h2), rfl⟩
  | start hs src tgt =>
    simp only [applyOp, startMigration]
    split
    · exact Or.inl rfl
    · split
      · exact Or.inl rfl
      · split
        · exact Or.inl rfl
        · rename_i h3
          right
          refine ⟨Or.inr ?_, rfl⟩
          intro e
          have := migGet_migPut_self t.migs ⟨hs, src, tgt, 0⟩
          simp only at e
          rw [e] at this
          simp [this] at h3
  | advance hs ph =>
    simp only [applyOp, advanceMigration]
    split
    · exact Or.inl rfl
    · rename_i m hm
      split
      · exact Or.inl rfl
      · rename_i hp
        right
        refine ⟨Or.inr ?_, rfl⟩
        intro e
        have := migGet_migPut_self t.migs { m with phase := ph }
        simp only at e
        rw [e] at this
        have hk := (mem_of_migGet _ _ _ hm).2
        simp only [hk] at this
        rw [hm] at this
        have := Option.some.inj this
        exact hp (by rw [this])
  | finalize hs =>
    simp only [applyOp, finalizeMigration]
    split
    · exact Or.inl rfl
    · rename_i m hm
      right
      refine ⟨Or.inr ?_, rfl⟩
      intro e
      have := length_migDel _ _ _ hm
      simp only at e
      rw [e] at this
      omega
  | abort hs =>
    simp only [applyOp, abortMigration]
    split
    · exact Or.inl rfl
    · rename_i m hm
      right
      refine ⟨Or.inr ?_, rfl⟩
      intro e
      have := length_migDel _ _ _ hm
      simp only at e
      rw [e] at this
      omega

theorem bump_gt (v : Nat) (h : v < 2 ^ 64 - 1) : v < bump v := by
  unfold bump
  rw [Nat.mod_eq_of_lt (by omega)]
  omega

/-! ### totality -/

/-- slot arguments a caller may pass: a real slot id (`Reassign` to 0 would un-assign) -/
def TOp.good : TOp → Prop
  | .reassign _ slot => slot ≠ 0
  | _ => True

/-- every hash slot has a non-zero owner, and no pending migration could finalize to slot 0 -/
def Total (t : Table) : Prop := (∀ x ∈ t.asg, x ≠ 0) ∧ (∀ m ∈ t.migs, m.tgt ≠ 0)

theorem mem_set_cases (a : List Nat) (i v x : Nat) (h : x ∈ a.set i v) : x ∈ a ∨ x = v :=
  List.mem_or_eq_of_mem_set h

theorem op_length (t : Table) (op : TOp) : (applyOp t op).asg.length = t.asg.length := by
  cases op with
  | reassign hs slot =>
    simp only [applyOp, reassign]
    split
    · rfl
    · split
      · rfl
      · simp
  | start hs src tgt =>
    simp only [applyOp, startMigration]
    split
    · rfl
    · split
      · rfl
      · split <;> rfl
  | advance hs ph =>
    simp only [applyOp, advanceMigration]
    split
    · rfl
    · split <;> rfl
  | finalize hs =>
    simp only [applyOp, finalizeMigration]
    split
    · rfl
    · simp only []
      split
      · simp
      · rfl
  | abort hs =>
    simp only [applyOp, abortMigration]
    split <;> rfl

theorem op_total (t : Table) (op : TOp) (hg : op.good) (ht : Total t) : Total (applyOp t op) := by
  obtain ⟨h1, h2⟩ := ht
  cases op with
  | reassign hs slot =>
    simp only [applyOp, reassign]
    split
    · exact ⟨h1, h2⟩
    · split
      · exact ⟨h1, h2⟩
      · refine ⟨?_, h2⟩
        intro x hx
        rcases mem_set_cases _ _ _ _ hx with h | h
        · exact h1 x h
        · rw [h]; exact hg
  | start hs src tgt =>
    simp only [applyOp, startMigration]
    split
    · exact ⟨h1, h2⟩
    · split
      · exact ⟨h1, h2⟩
      · split
        · exact ⟨h1, h2⟩
        · rename_i hargs _
          refine ⟨h1, ?_⟩
          intro m hm
          rcases mem_migPut _ _ _ hm with h | h
          · subst h
            simp only
            intro e; exact hargs (Or.inr (Or.inl e))
          · exact h2 m h
  | advance hs ph =>
    simp only [applyOp, advanceMigration]
    split
    · exact ⟨h1, h2⟩
    · rename_i m hm
      split
      · exact ⟨h1, h2⟩
      · refine ⟨h1, ?_⟩
        intro x hx
        rcases mem_migPut _ _ _ hx with h | h
        · subst h; exact h2 m (mem_of_migGet _ _ _ hm).1
        · exact h2 x h
  | finalize hs =>
    simp only [applyOp, finalizeMigration]
    split
    · exact ⟨h1, h2⟩
    · rename_i m hm
      refine ⟨?_, fun x hx => h2 x (mem_migDel _ _ _ hx)⟩
      simp only []
      split
      · intro x hx
        rcases mem_set_cases _ _ _ _ hx with h | h
        · exact h1 x h
        · rw [h]; exact h2 m (mem_of_migGet _ _ _ hm).1
      · exact h1
  | abort hs =>
    simp only [applyOp, abortMigration]
    split
    · exact ⟨h1, h2⟩
    · exact ⟨h1, fun x hx => h2 x (mem_migDel _ _ _ hx)⟩

/-! ### NewHashSlotTable -/

theorem sum_layout (base rem : Nat) (p : Nat) :
    ((List.range p).map (fun i => (List.replicate (base + (if i < rem then 1 else 0)) (i + 1)).length)).sum
      = p * base + min rem p := by
  induction p with
  | zero => simp
  | succ p ih =>
    rw [List.range_succ, List.map_append, List.sum_append, ih]
    simp only [List.map_cons, List.map_nil, List.sum_cons, List.sum_nil, List.length_replicate, Nat.succ_mul]
    by_cases h : p < rem
    · simp [h]; omega
    · simp [h]; omega

theorem newAsg_spec (h p : Nat) (hp : 0 < p) : (newAsg h p).length = h ∧ ∀ x ∈ newAsg h p, x ≠ 0 := by
  have hlen : ((List.range p).flatMap
      (fun i => List.replicate (h / p + (if i < h % p then 1 else 0)) (i + 1))).length = h := by
    rw [List.length_flatMap, sum_layout]
    have h1 := Nat.mod_lt h hp
    have h2 := Nat.div_add_mod h p
    generalize h % p = r at h1 h2 ⊢
    generalize p * (h / p) = q at h2 ⊢
    omega
  have hnz : ∀ x ∈ (List.range p).flatMap
      (fun i => List.replicate (h / p + (if i < h % p then 1 else 0)) (i + 1)), x ≠ 0 := by
    intro x hx
    obtain ⟨i, _, hi⟩ := List.mem_flatMap.mp hx
    have := (List.mem_replicate.mp hi).2
    omega
  unfold newAsg
  simp only []
  rw [List.take_of_length_le (by omega), hlen]
  simp only [Nat.sub_self, List.replicate_zero, List.append_nil]
  exact ⟨hlen, hnz⟩

theorem newTable_total (h : Nat) (p : Int) (hp : 1 ≤ p) :
    Total (newTable h p) ∧ (newTable h p).asg.length = h ∧ (newTable h p).version = 1 := by
  unfold newTable
  by_cases h0 : h = 0
  · subst h0; simp [Total]
  · have : ¬ (h = 0 ∨ p ≤ 0) := by omega
    simp only [this, ↓reduceIte]
    have hp' : 0 < p.toNat := by omega
    obtain ⟨a, b⟩ := newAsg_spec h p.toNat hp'
    exact ⟨⟨b, by simp⟩, a, by trivial⟩

end WK.C20

import WK.Proofs.C28_inv
import WK.Spec.C28
/-
  C28 — dispatch bookkeeping: queued SENDs are the tail of the admitted ones; the `hand` events of a take.
-/
namespace WK.C28
variable {shardOf : Nat → Nat} {st st' : St}

/-- the queued SENDs of a session are the tail of its admitted SENDs (open or closed) -/
def QSuffix (st : St) : Prop := ∀ s, itemsOf s st.queue <:+ (st.sess s).admitted

theorem qsuffix_step (l : Lbl) (hQ : QSuffix st) (h : step shardOf st l = some st') : QSuffix st' := by
  cases l with
  | recv s =>
    simp only [step] at h
    split at h
    · cases h
    · split at h
      · cases h; intro x; by_cases hx : x = s
        · subst hx; simpa using hQ x
        · simpa [upd_ne _ _ hx] using hQ x
      · split at h <;> cases h <;> intro x <;> by_cases hx : x = s <;>
          first | (subst hx; simpa using hQ x) | simpa [upd_ne _ _ hx] using hQ x
  | enq s ok =>
    simp only [step] at h
    cases hpf : popFirst s st.pend with
    | none => simp [hpf] at h
    | some pr =>
      obtain ⟨n, rest⟩ := pr
      simp only [hpf] at h
      cases ok with
      | true =>
        simp only [if_true] at h; cases h
        intro x; by_cases hx : x = s
        · subst hx
          obtain ⟨t, ht⟩ := hQ x
          exact ⟨t, by simp [itemsOf_append, itemsOf_single_same, ← ht]⟩
        · have : itemsOf x [(s, n)] = [] := itemsOf_single_ne _ (Ne.symm hx)
          simpa [upd_ne _ _ hx, itemsOf_append, this] using hQ x
      | false =>
        simp only [Bool.false_eq_true, if_false] at h; cases h
        intro x; by_cases hx : x = s
        · subst hx; simpa using hQ x
        · simpa [upd_ne _ _ hx] using hQ x
  | take sh k =>
    simp only [step] at h
    split at h
    · cases h
    · cases h
      intro x
      have hsuf : itemsOf x (takeP (fun it => shardOf it.1 == sh) k st.queue).2 <:+ itemsOf x st.queue := by
        by_cases hsx : shardOf x = sh
        · have := takeP_in (fun it => shardOf it.1 == sh) x (by intro it hit; simp [hit, hsx]) k st.queue
          exact ⟨_, this.symm⟩
        · obtain ⟨_, b⟩ := takeP_out (fun it => shardOf it.1 == sh) x (by intro it hit; simp [hit, hsx]) k st.queue
          rw [b]; exact List.suffix_refl _
      exact hsuf.trans (hQ x)
  | ack s =>
    simp only [step] at h
    split at h
    · cases h
    · cases hpf : popFirst s st.inflight with
      | none => simp [hpf] at h
      | some pr =>
        simp only [hpf] at h; cases h
        intro x; by_cases hx : x = s
        · subst hx; simpa using hQ x
        · simpa [upd_ne _ _ hx] using hQ x
  | abort sh =>
    simp only [step] at h
    split at h
    · cases h
    · cases h; intro x; have := hQ x; dsimp only; split <;> simpa using this
  | close s =>
    simp only [step] at h; cases h
    intro x; by_cases hx : x = s
    · subst hx; simpa using hQ x
    · simpa [upd_ne _ _ hx] using hQ x
  | push s =>
    simp only [step] at h
    split at h <;> cases h <;> intro x <;> by_cases hx : x = s <;>
      first | (subst hx; simpa using hQ x) | simpa [upd_ne _ _ hx] using hQ x
  | drainStart => simp only [step] at h; cases h; exact hQ
  | drainDone =>
    simp only [step] at h
    split at h
    · cases h; exact hQ
    · cases h

theorem qsuffix_reach (h : Reach shardOf st) : QSuffix st := by
  induction h with
  | init => intro s; simp
  | step l _ hs ih => exact qsuffix_step l ih hs


/-- the `hand` events a `take` emits: one per taken item, in batch order -/
def handEvents (kindOf : Nat → Nat → Nat) (taken : List Item) : List Ev :=
  taken.map (fun it => Ev.hand it.1 it.2 (kindOf it.1 it.2))

theorem prefix_drop_head {n : Nat} {rest l : List Nat} {c : Nat} (h : (n :: rest) <+: l.drop c) :
    l[c]? = some n ∧ rest <+: l.drop (c + 1) := by
  obtain ⟨t, ht⟩ := h
  have h0 : (l.drop c)[0]? = some n := by rw [← ht]; simp
  refine ⟨by simpa [List.getElem?_drop] using h0, ?_⟩
  have : l.drop (c + 1) = (l.drop c).drop 1 := by rw [List.drop_drop]
  rw [this, ← ht]; simp

end WK.C28

import WK.Theorems.C20
/-
  C20 — the judge's verdict on the MODEL's own plans; `idealShare` (spec) = `idealCounts` (code);
  the judge decides exactly `PlanGood`.
-/
namespace WK.C20

/-! ### sortIds sorts; position of an id = number of smaller ids -/

theorem sorted_insertId (x : Nat) (l : List Nat) (h : l.Pairwise (· ≤ ·)) : (insertId x l).Pairwise (· ≤ ·) := by
  induction l with
  | nil => simp [insertId]
  | cons z zs ih =>
    have hz := List.pairwise_cons.mp h
    simp only [insertId]
    split
    · rename_i hle
      refine List.pairwise_cons.mpr ⟨?_, h⟩
      intro y hy
      rcases List.mem_cons.mp hy with e | e
      · omega
      · have := hz.1 y e; omega
    · rename_i hnle
      refine List.pairwise_cons.mpr ⟨?_, ih hz.2⟩
      intro y hy
      rcases (mem_insertId x y zs).mp hy with e | e
      · omega
      · exact hz.1 y e

theorem sorted_sortIds (l : List Nat) : (sortIds l).Pairwise (· ≤ ·) := by
  induction l with
  | nil => simp [sortIds]
  | cons z zs ih => exact sorted_insertId z _ ih

theorem length_filter_insertId (p : Nat → Bool) (x : Nat) (l : List Nat) :
    ((insertId x l).filter p).length = ((x :: l).filter p).length := by
  induction l with
  | nil => simp [insertId]
  | cons z zs ih =>
    simp only [insertId]
    split
    · rfl
    · simp only [List.filter_cons] at ih ⊢
      cases hx : p x <;> cases hz : p z <;> simp_all

theorem length_filter_sortIds (p : Nat → Bool) (l : List Nat) :
    ((sortIds l).filter p).length = (l.filter p).length := by
  induction l with
  | nil => simp [sortIds]
  | cons z zs ih =>
    simp only [sortIds, length_filter_insertId, List.filter_cons]
    cases p z <;> simp [ih]

/-- on a strictly ascending list the target of `s` is base (+1 when fewer than `rem` ids are smaller) -/
theorem idealGo_value (base : Nat) : ∀ (l : List Nat) (rem : Nat) (m : Cnt), l.Nodup → l.Pairwise (· ≤ ·) →
    ∀ s ∈ l, cget (idealGo base rem l m) s
      = base + (if (l.filter (· < s)).length < rem then 1 else 0) := by
  intro l
  induction l with
  | nil => intro _ _ _ _ s hs; cases hs
  | cons x rest ih =>
    intro rem m hnd hso s hs
    have hnd' := List.nodup_cons.mp hnd
    have hso' := List.pairwise_cons.mp hso
    have hlt : ∀ y ∈ rest, x < y := by
      intro y hy
      have := hso'.1 y hy
      have : x ≠ y := fun e => hnd'.1 (e ▸ hy)
      omega
    simp only [idealGo]
    rcases List.mem_cons.mp hs with e | e
    · subst e
      have h1 := (idealGo_spec base rest (rem - 1) (cset m s (base + (if 0 < rem then 1 else 0))) hnd'.2).1 s hnd'.1
      rw [h1, cget_cset_eq]
      have hf : (List.filter (fun y => decide (y < s)) (s :: rest)) = [] := by
        rw [List.filter_eq_nil_iff]
        intro y hy
        rcases List.mem_cons.mp hy with e | e
        · simp [e]
        · have := hlt y e; simp; omega
      rw [hf]; simp
    · have hxs : x < s := hlt s e
      rw [ih (rem - 1) _ hnd'.2 hso'.2 s e]
      have hf : (List.filter (fun y => decide (y < s)) (x :: rest)).length
          = (List.filter (fun y => decide (y < s)) rest).length + 1 := by
        simp [List.filter_cons, hxs]
      rw [hf]
      by_cases hc : (List.filter (fun y => decide (y < s)) rest).length < rem - 1
      · have : (List.filter (fun y => decide (y < s)) rest).length + 1 < rem := by omega
        simp [hc, this]
      · have : ¬ (List.filter (fun y => decide (y < s)) rest).length + 1 < rem := by omega
        simp [hc, this]

/-- the code's idealSlotCounts is the spec's `idealShare` -/
theorem idealCounts_eq_idealShare (H : Nat) (slots : List Nat) (hnd : slots.Nodup) (s : Nat) (hs : s ∈ slots) :
    cget (idealCounts H slots) s = idealShare H slots s := by
  have hne : slots.length ≠ 0 := by
    have := List.length_pos_of_mem hs; omega
  have hic : idealCounts H slots
      = idealGo (H / (sortIds slots).length) (H % (sortIds slots).length) (sortIds slots) [] := by
    simp [idealCounts, hne]
  rw [hic, idealGo_value _ _ _ _ (nodup_sortIds slots hnd) (sorted_sortIds slots) s ((mem_sortIds s slots).mpr hs)]
  simp only [idealShare, length_sortIds, length_filter_sortIds]

theorem idealShare_perm (H : Nat) (l1 l2 : List Nat) (h1 : l1.Nodup) (h2 : l2.Nodup)
    (h : ∀ x, x ∈ l1 ↔ x ∈ l2) (s : Nat) : idealShare H l1 s = idealShare H l2 s := by
  have hp := (List.perm_ext_iff_of_nodup h1 h2).mpr h
  simp only [idealShare, hp.length_eq, (hp.filter _).length_eq]

/-! ### only receivers gain, only donors lose -/

theorem planLoop_sides {pick : Cnt → Option (Nat × Nat)} {ds rs : List Nat}
    (hp : ∀ cur d r, pick cur = some (d, r) → d ∈ ds ∧ r ∈ rs) :
    ∀ (fuel : Nat) (st : PState),
      (∀ s, s ∉ rs → cget (planLoop pick fuel st).2.cur s ≤ cget st.cur s) ∧
      (∀ s, s ∉ ds → cget st.cur s ≤ cget (planLoop pick fuel st).2.cur s) := by
  intro fuel
  induction fuel with
  | zero => intro st; simp [planLoop]
  | succ fuel ih =>
    intro st
    cases hpk : pick st.cur with
    | none => rw [planLoop_none _ _ _ hpk]; simp
    | some dr =>
      obtain ⟨d, r⟩ := dr
      obtain ⟨hd, hr⟩ := hp _ _ _ hpk
      cases hown : oget st.owned d with
      | nil => rw [planLoop_empty _ _ _ _ _ hpk hown]; simp
      | cons hs rest =>
        rw [planLoop_step _ _ _ _ _ _ _ hpk hown]
        obtain ⟨i1, i2⟩ := ih (stepState st d r rest)
        constructor
        · intro s hs'
          have hsr : r ≠ s := fun e => hs' (e ▸ hr)
          have := i1 s hs'
          have e : cget (stepState st d r rest).cur s ≤ cget st.cur s := by
            simp only [stepState]
            rw [cget_cset_ne _ _ _ _ hsr]
            by_cases hsd : d = s
            · subst hsd; rw [cget_cset_eq]; omega
            · rw [cget_cset_ne _ _ _ _ hsd]; exact Nat.le_refl _
          exact Nat.le_trans this e
        · intro s hs'
          have hsd : d ≠ s := fun e => hs' (e ▸ hd)
          have := i2 s hs'
          have e : cget st.cur s ≤ cget (stepState st d r rest).cur s := by
            simp only [stepState]
            by_cases hsr : r = s
            · subst hsr; rw [cget_cset_eq, cget_cset_ne _ _ _ _ hsd]; omega
            · rw [cget_cset_ne _ _ _ _ hsr, cget_cset_ne _ _ _ _ hsd]; exact Nat.le_refl _
          exact Nat.le_trans e this

/-- on the counts of the applied plan -/
theorem plan_sides (t : Table) {pick : Cnt → Option (Nat × Nat)} {tgt : Cnt} {ks ds rs : List Nat}
    (hp : PickOK pick tgt ks ds) (hp2 : ∀ cur d r, pick cur = some (d, r) → d ∈ ds ∧ r ∈ rs)
    (hds : ∀ s ∈ ds, s ∈ ks) :
    (∀ s ∈ ks, s ∉ rs →
      (specApply t.asg (runPlan pick (slotCounts t ks) (slotHashSlots t ds))).count s ≤ t.asg.count s) ∧
    (∀ s ∈ ks, s ∉ ds →
      t.asg.count s ≤ (specApply t.asg (runPlan pick (slotCounts t ks) (slotHashSlots t ds))).count s) ∧
    (∀ x ∈ specApply t.asg (runPlan pick (slotCounts t ks) (slotHashSlots t ds)), x ∈ t.asg ∨ x ∈ ks) := by
  obtain ⟨i1, _, i3, _⟩ := planLoop_spec hp (ownedTotal (slotHashSlots t ds) + 1) t.asg
    ⟨slotCounts t ks, slotHashSlots t ds⟩ (inv_init t tgt ks ds hds) (ownedTotal_lt_succ _)
  obtain ⟨s1, s2⟩ := planLoop_sides hp2 (ownedTotal (slotHashSlots t ds) + 1) ⟨slotCounts t ks, slotHashSlots t ds⟩
  have hc : ∀ s ∈ ks, cget (slotCounts t ks) s = t.asg.count s := fun s hs => by simp [cget_slotCounts, hs]
  refine ⟨?_, ?_, ?_⟩
  · intro s hs hr
    have := s1 s hr
    rw [i1.cnt s hs] at this
    simp only [hc s hs] at this
    exact this
  · intro s hs hd
    have := s2 s hd
    rw [i1.cnt s hs] at this
    simp only [hc s hs] at this
    exact this
  · intro x hx
    rcases mem_specApply _ _ _ hx with h | ⟨m, hm, rfl⟩
    · exact Or.inl h
    · exact Or.inr (i3.2 m hm).2.2

/-! ### the judge on the model's own plans -/

theorem fa_of_mem {a : List Nat} (h : ∀ x ∈ a, x ≠ 0) : fullyAssigned a = true := by
  simp only [fullyAssigned, List.all_eq_true]
  intro x hx; simpa using h x hx

theorem pickAdd_sides (tgt : Cnt) (existing : List Nat) (new : Nat) (hnz : ∀ s ∈ existing, s ≠ 0) :
    ∀ cur d r, pickAdd tgt existing new cur = some (d, r) → d ∈ existing ∧ r ∈ [new] := by
  intro cur d r h
  have := pickAdd_ok tgt existing (existing ++ [new]) new hnz (fun s hs => by simp [hs]) (by simp) cur d r h
  refine ⟨this.1, ?_⟩
  simp only [pickAdd] at h
  split at h
  · split at h
    · cases h
    · have e := Option.some.inj h
      have : new = r := congrArg Prod.snd e
      simp [this]
  · cases h

/-- the verdict of the judge on the add plan the MODEL computes: `ok`, or — only when the input table is
    not balanced — the known-finding class; never any other violation -/
theorem judge_add (t : Table) (s : Nat) :
    judgePlan .add t.asg s (computeAdd t s) = "ok" ∨
    (balanced t.asg = false ∧
      judgePlan .add t.asg s (computeAdd t s) = "viol:plan-unbalanced-from-unbalanced-input:add") := by
  have hvalid := add_valid t s
  unfold judgePlan
  rw [if_neg (by simp [hvalid])]
  by_cases hnfa : ¬ fullyAssigned t.asg = true
  · rw [if_pos hnfa]; exact Or.inl rfl
  have hfa : fullyAssigned t.asg = true := Decidable.of_not_not hnfa
  rw [if_neg hnfa]
  by_cases hnapp : ¬ planApplicable .add t.asg s = true
  · rw [if_pos hnapp]
    have happ := hnapp
    have hemp : computeAdd t s = [] := by
      simp only [planApplicable, decide_eq_true_eq, not_and, Decidable.not_not] at happ
      by_cases h0 : s = 0
      · simp [computeAdd, h0]
      · have := happ h0
        have hin : s ∈ activeSlots t := (mem_specActive t s).mp (by simpa using this)
        simp [computeAdd, h0, hin]
    rw [hemp]; exact Or.inl rfl
  have happ : planApplicable .add t.asg s = true := Decidable.of_not_not hnapp
  rw [if_neg hnapp]
  have happ' := happ
  simp only [planApplicable, decide_eq_true_eq] at happ'
  have h0 : s ≠ 0 := happ'.1
  have hnew : s ∉ activeSlots t := fun h => happ'.2 (by simpa using (mem_specActive t s).mpr h)
  obtain ⟨e1, e2, _⟩ := add_core t s hfa h0 hnew _ _ rfl rfl
  have hndS := nodup_addSlots t s hnew
  have hndP : (participants .add t.asg s).Nodup := by
    simp only [participants]
    rw [List.nodup_append]
    refine ⟨nodup_specActive _, by simp, ?_⟩
    intro a ha b hb
    have : b = s := by simpa using hb
    subst this
    intro e; subst e; exact hnew ((mem_specActive t a).mp ha)
  have hmemP : ∀ x, x ∈ participants .add t.asg s ↔ x ∈ addSlots t s := by
    intro x
    simp only [participants, List.mem_append, List.mem_singleton, mem_addSlots, mem_specActive]
  have hplen : (participants .add t.asg s).length = (addSlots t s).length :=
    length_eq_of_same_members hndP hndS hmemP
  -- the new slot is exactly on its share
  have hex : (specApply t.asg (computeAdd t s)).count s = idealShare t.asg.length (participants .add t.asg s) s := by
    rw [e1, idealCounts_eq_idealShare _ _ hndS s ((mem_addSlots t s s).mpr (Or.inr rfl))]
    exact (idealShare_perm _ _ _ hndP hndS hmemP s).symm
  rw [if_neg (by simp [hex])]
  rw [if_neg (by simp)]
  -- sides
  have hks : ∀ x ∈ activeSlots t, x ∈ addSlots t s := fun x hx => (mem_addSlots t s x).mpr (Or.inl hx)
  obtain ⟨sd1, _, sd3⟩ := plan_sides t
    (pickAdd_ok (idealCounts t.asg.length (addSlots t s)) (activeSlots t) (addSlots t s) s
      (activeSlots_nz t) hks ((mem_addSlots t s s).mpr (Or.inr rfl)))
    (pickAdd_sides (idealCounts t.asg.length (addSlots t s)) (activeSlots t) s (activeSlots_nz t)) hks
  rw [← computeAdd_eq t s h0 hnew] at sd1 sd3
  have hfa' : fullyAssigned (specApply t.asg (computeAdd t s)) = true := by
    apply fa_of_mem
    intro x hx
    rcases sd3 x hx with h | h
    · exact fa_mem hfa x h
    · rcases (mem_addSlots t s x).mp h with h | h
      · exact activeSlots_nz t x h
      · rw [h]; exact h0
  rw [if_neg (by simp [hfa'])]
  have hdon : ¬ ((PlanKind.add = PlanKind.add) ∧ (specActive t.asg).any (fun x =>
      decide ((specApply t.asg (computeAdd t s)).count x > t.asg.count x ∨
        (specApply t.asg (computeAdd t s)).count x <
          min (t.asg.count x) (t.asg.length / (participants .add t.asg s).length))) = true) := by
    rintro ⟨_, h⟩
    rw [List.any_eq_true] at h
    obtain ⟨x, hx, hb⟩ := h
    simp only [decide_eq_true_eq] at hb
    have hxa := (mem_specActive t x).mp hx
    have hxs : x ≠ s := fun e => hnew (e ▸ hxa)
    have hle := sd1 x (hks x hxa) (by simp [hxs])
    have hb2 := e2 x (hks x hxa)
    have htg := (idealCounts_spec t.asg.length (addSlots t s) hndS (by rw [length_addSlots]; omega)).2.1 x (hks x hxa)
    rw [hplen] at hb
    rcases Nat.le_total (cget (idealCounts t.asg.length (addSlots t s)) x) (t.asg.count x) with h | h
    · have := hb2.1 h; omega
    · have := hb2.2 h; omega
  rw [if_neg hdon]
  rw [if_neg (by simp)]
  by_cases hw : withinOneTable (specApply t.asg (computeAdd t s)) (participants .add t.asg s) = true
  · rw [if_pos hw]; exact Or.inl rfl
  · rw [if_neg hw]
    by_cases hbal : balanced t.asg = true
    · exact absurd ((c20_add_remove_balanced_from_balanced t s hfa hbal).1 happ).2 hw
    · rw [if_pos ⟨by decide, hbal⟩]
      exact Or.inr ⟨by simpa using hbal, rfl⟩

theorem pickRemove_sides (tgt : Cnt) (remaining : List Nat) (rm : Nat) (hnz : ∀ s ∈ remaining, s ≠ 0) :
    ∀ cur d r, pickRemove tgt remaining rm cur = some (d, r) → d ∈ [rm] ∧ r ∈ remaining := by
  intro cur d r h
  simp only [pickRemove] at h
  split at h
  · split at h
    · cases h
    · rename_i hr
      have e := Option.some.inj h
      have e1 : rm = d := congrArg Prod.fst e
      have e2 : selS cur tgt remaining = r := congrArg Prod.snd e
      have b := (selS_spec cur tgt remaining hnz).2 hr
      rw [e2] at b
      exact ⟨by simp [e1], b.1⟩
  · cases h

theorem judge_remove (t : Table) (s : Nat) :
    judgePlan .remove t.asg s (computeRemove t s) = "ok" ∨
    (balanced t.asg = false ∧
      judgePlan .remove t.asg s (computeRemove t s) = "viol:plan-unbalanced-from-unbalanced-input:remove") := by
  have hvalid := remove_valid t s
  unfold judgePlan
  rw [if_neg (by simp [hvalid])]
  by_cases hnfa : ¬ fullyAssigned t.asg = true
  · rw [if_pos hnfa]; exact Or.inl rfl
  have hfa : fullyAssigned t.asg = true := Decidable.of_not_not hnfa
  rw [if_neg hnfa]
  have hmemr : ∀ x, x ∈ participants .remove t.asg s ↔ x ∈ rmRemaining t s := by
    intro x
    simp only [participants, mem_rmRemaining, List.mem_filter, mem_specActive]
    simp
  have hndp : (participants .remove t.asg s).Nodup := List.Pairwise.filter _ (nodup_specActive _)
  have hndr : (rmRemaining t s).Nodup := List.Pairwise.filter _ (nodup_activeSlots t)
  have hplen : (participants .remove t.asg s).length = (rmRemaining t s).length :=
    length_eq_of_same_members hndp hndr hmemr
  by_cases hnapp : ¬ planApplicable .remove t.asg s = true
  · rw [if_pos hnapp]
    have hemp : computeRemove t s = [] := by
      simp only [planApplicable, decide_eq_true_eq, not_and] at hnapp
      by_cases h0 : s = 0
      · simp [computeRemove, h0]
      · by_cases hin : s ∈ activeSlots t
        · have h3 := hnapp h0 (by simpa using (mem_specActive t s).mpr hin)
          have hz : ((activeSlots t).filter (· ≠ s)).length = 0 := by
            have : (participants .remove t.asg s).length = 0 := by simp only [participants]; omega
            rw [hplen] at this; exact this
          have hpos : (hashSlotsOf t s).length ≠ 0 := by
            rw [length_hashSlotsOf]
            have := List.count_pos_iff.mpr ((mem_activeSlots t s).mp hin).2
            omega
          simp only [computeRemove, h0, hpos, hz, ↓reduceIte]
        · have hc : (hashSlotsOf t s).length = 0 := by
            rw [length_hashSlotsOf, List.count_eq_zero]
            intro h; exact hin ((mem_activeSlots t s).mpr ⟨h0, h⟩)
          simp [computeRemove, h0, hc]
    rw [hemp]; exact Or.inl rfl
  have happ : planApplicable .remove t.asg s = true := Decidable.of_not_not hnapp
  rw [if_neg hnapp]
  have happ' := happ
  simp only [planApplicable, decide_eq_true_eq] at happ'
  obtain ⟨h0, hin', hrem'⟩ := happ'
  have hin : s ∈ activeSlots t := (mem_specActive t s).mp (by simpa using hin')
  have hrem : (rmRemaining t s).length ≠ 0 := by
    rw [← hplen]; simp only [participants]; omega
  obtain ⟨e1, e2, _⟩ := remove_core t s hfa h0 hin hrem _ _ rfl rfl
  rw [if_neg (by simp)]
  rw [if_neg (by simp [e1])]
  obtain ⟨hz, htg, _⟩ := idealCounts_spec t.asg.length (rmRemaining t s) hndr hrem
  have htr : cget (idealCounts t.asg.length (rmRemaining t s)) s = 0 := hz s (by simp [mem_rmRemaining])
  have hks : ∀ x ∈ [s], x ∈ rmRemaining t s ++ [s] := fun x hx => by simp at hx; simp [hx]
  obtain ⟨_, sd2, sd3⟩ := plan_sides t
    (pickRemove_ok (idealCounts t.asg.length (rmRemaining t s)) (rmRemaining t s) s (rmRemaining_nz t s) htr)
    (pickRemove_sides (idealCounts t.asg.length (rmRemaining t s)) (rmRemaining t s) s (rmRemaining_nz t s)) hks
  rw [← computeRemove_eq t s h0 hin hrem] at sd2 sd3
  have hfa' : fullyAssigned (specApply t.asg (computeRemove t s)) = true := by
    apply fa_of_mem
    intro x hx
    rcases sd3 x hx with h | h
    · exact fa_mem hfa x h
    · rcases List.mem_append.mp h with h | h
      · exact rmRemaining_nz t s x h
      · have : x = s := by simpa using h
        rw [this]; exact h0
  rw [if_neg (by simp [hfa'])]
  rw [if_neg (by simp)]
  have hrcv : ¬ ((PlanKind.remove = PlanKind.remove) ∧ (participants .remove t.asg s).any (fun x =>
      decide ((specApply t.asg (computeRemove t s)).count x < t.asg.count x ∨
        (specApply t.asg (computeRemove t s)).count x >
          max (t.asg.count x) (t.asg.length / (participants .remove t.asg s).length + 1))) = true) := by
    rintro ⟨_, h⟩
    rw [List.any_eq_true] at h
    obtain ⟨x, hx, hb⟩ := h
    simp only [decide_eq_true_eq] at hb
    have hxr := (hmemr x).mp hx
    have hxs : x ≠ s := ((mem_rmRemaining t s x).mp hxr).2
    have hge := sd2 x (by simp [hxr]) (by simp [hxs])
    have hb2 := e2 x hxr
    have ht := htg x hxr
    rw [hplen] at hb
    have hup : cget (idealCounts t.asg.length (rmRemaining t s)) x ≤ t.asg.length / (rmRemaining t s).length + 1 := by
      have := ht.2
      by_cases hr : 0 < t.asg.length % (rmRemaining t s).length
      · simp only [hr, ↓reduceIte] at this; exact this
      · simp only [hr, ↓reduceIte] at this; omega
    rcases Nat.le_total (cget (idealCounts t.asg.length (rmRemaining t s)) x) (t.asg.count x) with h | h
    · have := hb2.1 h; omega
    · have := hb2.2 h; omega
  rw [if_neg hrcv]
  by_cases hw : withinOneTable (specApply t.asg (computeRemove t s)) (participants .remove t.asg s) = true
  · rw [if_pos hw]; exact Or.inl rfl
  · rw [if_neg hw]
    by_cases hbal : balanced t.asg = true
    · exact absurd ((c20_add_remove_balanced_from_balanced t s hfa hbal).2 happ).2 hw
    · rw [if_pos ⟨by decide, hbal⟩]
      exact Or.inr ⟨by simpa using hbal, rfl⟩

theorem pickRebalance_sides (tgt : Cnt) (slots : List Nat) (hnz : ∀ s ∈ slots, s ≠ 0) :
    ∀ cur d r, pickRebalance tgt slots cur = some (d, r) → d ∈ slots ∧ r ∈ slots := by
  intro cur d r h
  have := pickRebalance_ok tgt slots hnz cur d r h
  exact ⟨this.1, this.2.2.1⟩

/-- the judge accepts every rebalance plan of the model -/
theorem judge_rebalance (t : Table) (s : Nat) :
    judgePlan .rebalance t.asg s (computeRebalance t) = "ok" := by
  have hvalid := rebalance_valid t
  unfold judgePlan
  rw [if_neg (by simp [hvalid])]
  by_cases hnfa : ¬ fullyAssigned t.asg = true
  · rw [if_pos hnfa]
  have hfa : fullyAssigned t.asg = true := Decidable.of_not_not hnfa
  rw [if_neg hnfa]
  by_cases hnapp : ¬ planApplicable .rebalance t.asg s = true
  · rw [if_pos hnapp]
    have hemp : computeRebalance t = [] := by
      simp only [planApplicable, decide_eq_true_eq, length_specActive] at hnapp
      have : (activeSlots t).length ≤ 1 := by omega
      simp [computeRebalance, this]
    rw [hemp]; rfl
  rw [if_neg hnapp]
  rw [if_neg (by simp), if_neg (by simp)]
  have hgt : ¬ (activeSlots t).length ≤ 1 := by
    have := Decidable.of_not_not hnapp
    simp only [planApplicable, decide_eq_true_eq, length_specActive] at this
    omega
  obtain ⟨_, _, sd3⟩ := plan_sides t
    (pickRebalance_ok (idealCounts t.asg.length (activeSlots t)) (activeSlots t) (activeSlots_nz t))
    (pickRebalance_sides (idealCounts t.asg.length (activeSlots t)) (activeSlots t) (activeSlots_nz t))
    (fun x hx => hx)
  have hce : computeRebalance t = runPlan (pickRebalance (idealCounts t.asg.length (activeSlots t)) (activeSlots t))
      (slotCounts t (activeSlots t)) (slotHashSlots t (activeSlots t)) := by
    simp [computeRebalance, hgt]
  rw [← hce] at sd3
  have hfa' : fullyAssigned (specApply t.asg (computeRebalance t)) = true := by
    apply fa_of_mem
    intro x hx
    rcases sd3 x hx with h | h
    · exact fa_mem hfa x h
    · exact activeSlots_nz t x h
  rw [if_neg (by simp [hfa'])]
  rw [if_neg (by simp), if_neg (by simp)]
  have hw : withinOneTable (specApply t.asg (computeRebalance t)) (participants .rebalance t.asg s) = true :=
    (c20_rebalance_balanced t hfa).2.2
  rw [if_pos hw]

/-! ### the judge decides exactly the conjunction of the theorems' predicates -/

/-- what the judge checks of a plan `p` for request `(k, s)` on assignment `a` -/
def PlanGood (k : PlanKind) (a : List Nat) (s : Nat) (p : List Move) : Prop :=
  planValid a p = true ∧
  (fullyAssigned a = true →
    (¬ planApplicable k a s = true → p.isEmpty = true) ∧
    (planApplicable k a s = true →
      (k = .add → (specApply a p).count s = idealShare a.length (participants k a s) s) ∧
      (k = .remove → (specApply a p).count s = 0) ∧
      fullyAssigned (specApply a p) = true ∧
      (k = .add → ∀ x ∈ specActive a, (specApply a p).count x ≤ a.count x ∧
        min (a.count x) (a.length / (participants k a s).length) ≤ (specApply a p).count x) ∧
      (k = .remove → ∀ x ∈ participants k a s, a.count x ≤ (specApply a p).count x ∧
        (specApply a p).count x ≤ max (a.count x) (a.length / (participants k a s).length + 1)) ∧
      withinOneTable (specApply a p) (participants k a s) = true))

theorem not_any_iff {α : Type} (l : List α) (f : α → Bool) : ¬ (l.any f = true) ↔ ∀ x ∈ l, f x = false := by
  rw [List.any_eq_true]
  constructor
  · intro h x hx
    cases hf : f x with
    | false => rfl
    | true => exact absurd ⟨x, hx, hf⟩ h
  · rintro h ⟨x, hx, hf⟩
    rw [h x hx] at hf; cases hf

theorem c20_judge_sound (k : PlanKind) (a : List Nat) (s : Nat) (p : List Move) :
    judgePlan k a s p = "ok" ↔ PlanGood k a s p := by
  unfold judgePlan PlanGood
  constructor
  · intro h
    split at h
    · cases k <;> exact absurd h (by decide)
    rename_i c1
    refine ⟨Decidable.of_not_not c1, fun hfa => ?_⟩
    rw [if_neg (fun hn => hn hfa)] at h
    split at h
    · rename_i c3
      refine ⟨fun _ => ?_, fun happ => absurd happ c3⟩
      split at h
      · assumption
      · cases k <;> exact absurd h (by decide)
    rename_i c3
    refine ⟨fun hn => absurd (Decidable.of_not_not c3) hn, fun _ => ?_⟩
    simp only [] at h
    split at h
    · exact absurd h (by decide)
    rename_i c4
    split at h
    · exact absurd h (by decide)
    rename_i c5
    split at h
    · cases k <;> exact absurd h (by decide)
    rename_i c6
    split at h
    · exact absurd h (by decide)
    rename_i c7
    split at h
    · exact absurd h (by decide)
    rename_i c8
    split at h
    · rename_i c9
      refine ⟨fun hk => Decidable.of_not_not (fun hn => c4 ⟨hk, hn⟩),
              fun hk => Decidable.of_not_not (fun hn => c5 ⟨hk, hn⟩),
              Decidable.of_not_not c6, ?_, ?_, c9⟩
      · intro hk x hx
        have := (not_any_iff _ _).mp (fun hn => c7 ⟨hk, hn⟩) x hx
        simp only [decide_eq_false_iff_not, not_or] at this
        omega
      · intro hk x hx
        have := (not_any_iff _ _).mp (fun hn => c8 ⟨hk, hn⟩) x hx
        simp only [decide_eq_false_iff_not, not_or] at this
        omega
    · split at h <;> (cases k <;> exact absurd h (by decide))
  · rintro ⟨h1, h2⟩
    rw [if_neg (fun hn => hn h1)]
    by_cases hfa : fullyAssigned a = true
    · rw [if_neg (fun hn => hn hfa)]
      obtain ⟨g1, g2⟩ := h2 hfa
      by_cases happ : planApplicable k a s = true
      · rw [if_neg (fun hn => hn happ)]
        obtain ⟨q1, q2, q3, q4, q5, q6⟩ := g2 happ
        simp only []
        rw [if_neg (fun ⟨hk, hn⟩ => hn (q1 hk)), if_neg (fun ⟨hk, hn⟩ => hn (q2 hk)), if_neg (fun hn => hn q3)]
        rw [if_neg (fun ⟨hk, hn⟩ => by
          obtain ⟨x, hx, hb⟩ := List.any_eq_true.mp hn
          simp only [decide_eq_true_eq] at hb
          have := q4 hk x hx; omega)]
        rw [if_neg (fun ⟨hk, hn⟩ => by
          obtain ⟨x, hx, hb⟩ := List.any_eq_true.mp hn
          simp only [decide_eq_true_eq] at hb
          have := q5 hk x hx; omega)]
        rw [if_pos q6]
      · rw [if_pos happ, if_pos (g1 happ)]
    · rw [if_pos hfa]

/-! ### registered statements -/

/-- the code's `idealSlotCounts` is the spec's `idealShare` (⌊H/n⌋, +1 for the H mod n smallest ids) -/
theorem c20_ideal_share_eq (H : Nat) (slots : List Nat) (hnd : slots.Nodup) (s : Nat) (hs : s ∈ slots) :
    cget (idealCounts H slots) s = idealShare H slots s := idealCounts_eq_idealShare H slots hnd s hs

example : cget (idealCounts 7 [5, 2, 9]) 5 = idealShare 7 [5, 2, 9] 5 ∧ idealShare 7 [5, 2, 9] 5 = 2 := by decide

/-- **The judge on the model.**  Whatever the table and the request, the verdict the driver's judge gives
    to the plan the MODEL computes is `ok`, or — only for add/remove and only when the input table is not
    balanced — the known-finding class.  So any other `viol:*` verdict on an implementation plan means the
    implementation's plan differs from the model's (a correspondence break) or is a real defect. -/
theorem c20_judge_model (k : PlanKind) (t : Table) (s : Nat) :
    judgePlan k t.asg s (computePlan k t s) = "ok" ∨
    (k ≠ .rebalance ∧ balanced t.asg = false ∧
      judgePlan k t.asg s (computePlan k t s) = "viol:plan-unbalanced-from-unbalanced-input:" ++ k.name) := by
  cases k with
  | add =>
    rcases judge_add t s with h | ⟨h1, h2⟩
    · exact Or.inl h
    · exact Or.inr ⟨by decide, h1, h2⟩
  | remove =>
    rcases judge_remove t s with h | ⟨h1, h2⟩
    · exact Or.inl h
    · exact Or.inr ⟨by decide, h1, h2⟩
  | rebalance => exact Or.inl (judge_rebalance t s)

/-- the judge accepts every rebalance plan and every add/remove plan from a balanced table -/
theorem c20_judge_model_ok (k : PlanKind) (t : Table) (s : Nat)
    (h : k = .rebalance ∨ balanced t.asg = true) : judgePlan k t.asg s (computePlan k t s) = "ok" := by
  rcases c20_judge_model k t s with h1 | ⟨h1, h2, _⟩
  · exact h1
  · rcases h with h | h
    · exact absurd h h1
    · rw [h] at h2; cases h2

/-- … hence those plans satisfy every clause the judge checks -/
theorem c20_model_plan_good (k : PlanKind) (t : Table) (s : Nat)
    (h : k = .rebalance ∨ balanced t.asg = true) : PlanGood k t.asg s (computePlan k t s) :=
  (c20_judge_sound k t.asg s _).mp (c20_judge_model_ok k t s h)

example : judgePlan .add [1, 1, 2, 2, 3] 4 (computePlan .add ⟨1, [1, 1, 2, 2, 3], []⟩ 4) = "ok" := by decide
example : balanced [1, 1, 2, 2, 3] = true := by decide
example : PlanGood .rebalance [1, 1, 1, 2] 0 [⟨2, 1, 2⟩] := (c20_judge_sound _ _ _ _).mp (by decide)
example : ¬ PlanGood .rebalance [1, 1, 1, 2] 0 [⟨2, 1, 2⟩, ⟨2, 1, 2⟩] :=
  fun h => absurd ((c20_judge_sound _ _ _ _).mpr h) (by decide)

end WK.C20

import WK.Proofs.C07_Inv2
/-
  C07 — what an accepted validation guarantees; folds of stageRow / deleteRow.
-/
namespace WK.C07

def Keyed (r : Row) : Prop := r.frm ≠ [] ∧ r.cmn ≠ []

/-- facts established by `validateAppendRow` when it accepts a row -/
structure Validated (st : Store) (c mode : Nat) (seen seen' : Seen) (row : Row) : Prop where
  nz : row.id ≠ 0
  idNew : row.id ∉ seen.ids
  ids' : seen'.ids = row.id :: seen.ids
  keyNew : Keyed row → (row.frm, row.cmn) ∉ seen.keys
  keys' : seen'.keys = seen.keys ∨ (Keyed row ∧ seen'.keys = (row.frm, row.cmn) :: seen.keys)
  keysK : Keyed row → seen'.keys = (row.frm, row.cmn) :: seen.keys
  strict : mode = 0 → alookup row.id st.gidx = none ∨ alookup row.id st.gidx = some (c, row.seq)
  idem : mode ≠ 2 → Keyed row →
    alookup (row.cmn, row.frm) (st.chan c).iidx = none ∨
    ∃ id h, alookup (row.cmn, row.frm) (st.chan c).iidx = some (row.seq, id, h)

theorem lookupIdem_none (ch : Chan) (frm cmn : B) (h : lookupIdem ch frm cmn = .ok none) :
    alookup (cmn, frm) ch.iidx = none := by
  unfold lookupIdem at h
  cases hl : alookup (cmn, frm) ch.iidx with
  | none => rfl
  | some v =>
    rw [hl] at h
    obtain ⟨s, id, hh⟩ := v
    dsimp only at h
    cases hg : getRow ch.rows s with
    | error e => rw [hg] at h; cases h
    | ok o =>
      rw [hg] at h
      cases o with
      | none => cases h
      | some r => dsimp only at h; split at h <;> cases h

theorem lookupIdem_some (ch : Chan) (frm cmn : B) (v : Nat × Nat × Nat) (h : lookupIdem ch frm cmn = .ok (some v)) :
    alookup (cmn, frm) ch.iidx = some v := by
  unfold lookupIdem at h
  cases hl : alookup (cmn, frm) ch.iidx with
  | none => rw [hl] at h; cases h
  | some w =>
    rw [hl] at h
    obtain ⟨s, id, hh⟩ := w
    dsimp only at h
    cases hg : getRow ch.rows s with
    | error e => rw [hg] at h; cases h
    | ok o =>
      rw [hg] at h
      cases o with
      | none => cases h
      | some r =>
        dsimp only at h
        split at h
        · cases h
        · simp only [Except.ok.injEq, Option.some.injEq] at h; rw [h]

theorem validateRow_ok (st : Store) (c mode : Nat) (seen seen' : Seen) (row : Row)
    (h : validateRow st c mode seen row = .ok seen') : Validated st c mode seen seen' row := by
  unfold validateRow at h
  by_cases h1 : row.id = 0
  · rw [if_pos h1] at h; cases h
  rw [if_neg h1] at h
  by_cases h2 : seen.ids.contains row.id = true
  · rw [if_pos h2] at h; cases h
  rw [if_neg h2] at h
  have h2' : row.id ∉ seen.ids := by simpa using h2
  dsimp only at h
  have hstrict : mode = 0 → (if mode = 0 then
        match alookup row.id st.gidx with
        | some (c', s') => !decide (c' ≠ c ∨ s' ≠ row.seq)
        | none => true
      else true) = true → alookup row.id st.gidx = none ∨ alookup row.id st.gidx = some (c, row.seq) := by
    intro hm hb
    rw [if_pos hm] at hb
    cases hl : alookup row.id st.gidx with
    | none => exact Or.inl rfl
    | some v =>
      obtain ⟨c', s'⟩ := v
      rw [hl] at hb
      simp only [ne_eq, Bool.not_eq_true', decide_eq_false_iff_not, not_or, Decidable.not_not] at hb
      right; rw [hb.1, hb.2]
  generalize hso : (if mode = 0 then
        match alookup row.id st.gidx with
        | some (c', s') => !decide (c' ≠ c ∨ s' ≠ row.seq)
        | none => true
      else true) = sOk at h hstrict
  cases sOk with
  | false => simp at h
  | true =>
    simp only [Bool.not_true, Bool.false_eq_true, if_false] at h
    by_cases h3 : row.frm = [] ∨ row.cmn = []
    · rw [if_pos h3] at h
      simp only [Except.ok.injEq] at h
      subst h
      have nk : ¬ Keyed row := by unfold Keyed; intro k; rcases h3 with e | e; exact k.1 e; exact k.2 e
      exact ⟨h1, h2', rfl, fun k => absurd k nk, Or.inl rfl, fun k => absurd k nk, fun hm => hstrict hm rfl, fun _ k => absurd k nk⟩
    · rw [if_neg h3] at h
      have hk : Keyed row := by
        unfold Keyed; constructor
        · intro e; exact h3 (Or.inl e)
        · intro e; exact h3 (Or.inr e)
      by_cases h4 : seen.keys.contains (row.frm, row.cmn) = true
      · rw [if_pos h4] at h; cases h
      rw [if_neg h4] at h
      have h4' : (row.frm, row.cmn) ∉ seen.keys := by simpa using h4
      by_cases h5 : mode = 2
      · rw [if_pos h5] at h
        simp only [Except.ok.injEq] at h
        subst h
        exact ⟨h1, h2', rfl, fun _ => h4', Or.inr ⟨hk, rfl⟩, fun _ => rfl, fun hm => hstrict hm rfl, fun hm => absurd h5 hm⟩
      · rw [if_neg h5] at h
        cases hl : lookupIdem (st.chan c) row.frm row.cmn with
        | error e => rw [hl] at h; cases h
        | ok o =>
          rw [hl] at h
          cases o with
          | none =>
            simp only [Except.ok.injEq] at h
            subst h
            exact ⟨h1, h2', rfl, fun _ => h4', Or.inr ⟨hk, rfl⟩, fun _ => rfl, fun hm => hstrict hm rfl,
              fun _ _ => Or.inl (lookupIdem_none _ _ _ hl)⟩
          | some v =>
            obtain ⟨s, id, hh⟩ := v
            dsimp only at h
            by_cases hs : s ≠ row.seq
            · rw [if_pos hs] at h; cases h
            · rw [if_neg hs] at h
              simp only [Except.ok.injEq] at h
              subst h
              have hs' : s = row.seq := by simpa using hs
              have := lookupIdem_some _ _ _ _ hl
              exact ⟨h1, h2', rfl, fun _ => h4', Or.inr ⟨hk, rfl⟩, fun _ => rfl, fun hm => hstrict hm rfl,
                fun _ _ => Or.inr ⟨id, hh, hs' ▸ this⟩⟩


def Apart (a b : Row) : Prop :=
  a.id ≠ b.id ∧ a.seq ≠ b.seq ∧ (Keyed a → Keyed b → (a.cmn, a.frm) ≠ (b.cmn, b.frm))

/-- what an accepted batch looks like (relative to the `seen` sets it started from) -/
structure BatchOK (st : Store) (c mode seq n : Nat) (recs : List Rec) (seen : Seen) (new : List Row) : Prop where
  len : new.length = n
  src : ∀ r ∈ new, ∃ rc ∈ recs, r.id = rc.id ∧ r.frm = rc.frm ∧ r.cmn = rc.cmn
  lo : ∀ r ∈ new, seq ≤ r.seq ∧ r.seq < seq + n
  cover : ∀ s, seq ≤ s → s < seq + n → ∃ r ∈ new, r.seq = s
  apart : new.Pairwise Apart
  nz : ∀ r ∈ new, r.id ≠ 0
  idNew : ∀ r ∈ new, r.id ∉ seen.ids
  keyNew : ∀ r ∈ new, Keyed r → (r.frm, r.cmn) ∉ seen.keys
  strict : mode = 0 → ∀ r ∈ new, alookup r.id st.gidx = none ∨ alookup r.id st.gidx = some (c, r.seq)
  idem : mode ≠ 2 → ∀ r ∈ new, Keyed r →
    alookup (r.cmn, r.frm) (st.chan c).iidx = none ∨ ∃ id h, alookup (r.cmn, r.frm) (st.chan c).iidx = some (r.seq, id, h)

theorem walk_batch (st : Store) (c mode : Nat) (recs : List Rec) (seq : Nat) (seen : Seen) (acc rows : List Row)
    (h : walkRows st c mode seq recs seen acc = .ok rows) :
    ∃ new, rows = acc.reverse ++ new ∧ BatchOK st c mode seq recs.length recs seen new := by
  induction recs generalizing seq seen acc with
  | nil =>
    simp only [walkRows, Except.ok.injEq] at h
    refine ⟨[], by simp [← h], ⟨rfl, ?_, ?_, ?_, List.Pairwise.nil, ?_, ?_, ?_, ?_, ?_⟩⟩
    · intro r hr; cases hr
    · intro r hr; cases hr
    · intro s h1 h2; simp at h2; omega
    all_goals (intros; first | contradiction | (rename_i hr; cases hr) | skip)
    all_goals (intro r hr; cases hr)
  | cons rc rest ih =>
    unfold walkRows at h
    dsimp only at h
    cases hv : validateRow st c mode seen (mkRow seq rc) with
    | error e => rw [hv] at h; cases h
    | ok seen' =>
      rw [hv] at h
      dsimp only at h
      have V := validateRow_ok _ _ _ _ _ _ hv
      obtain ⟨new', hrows, B⟩ := ih _ _ _ h
      have hseq : (mkRow seq rc).seq = seq := rfl
      refine ⟨mkRow seq rc :: new', by rw [hrows]; simp, ⟨?_, ?_, ?_, ?_, ?_, ?_, ?_, ?_, ?_, ?_⟩⟩
      · simp [B.len]
      · intro r hr
        rcases List.mem_cons.mp hr with e | e
        · subst e; exact ⟨rc, List.mem_cons_self, rfl, rfl, rfl⟩
        · obtain ⟨x, hx, e3⟩ := B.src r e
          exact ⟨x, List.mem_cons_of_mem _ hx, e3⟩
      · intro r hr
        rcases List.mem_cons.mp hr with e | e
        · subst e; simp only [List.length_cons]; omega
        · have := B.lo r e; simp only [List.length_cons]; omega
      · intro s h1 h2
        simp only [List.length_cons] at h2
        by_cases e : s = seq
        · exact ⟨mkRow seq rc, List.mem_cons_self, e ▸ hseq⟩
        · obtain ⟨r, hr, er⟩ := B.cover s (by omega) (by omega)
          exact ⟨r, List.mem_cons_of_mem _ hr, er⟩
      · refine List.Pairwise.cons ?_ B.apart
        intro r hr
        refine ⟨?_, ?_, ?_⟩
        · intro e
          have := B.idNew r hr
          rw [V.ids'] at this
          exact this (by rw [← e]; exact List.mem_cons_self)
        · have := (B.lo r hr).1; omega
        · intro k1 k2 e
          have := B.keyNew r hr k2
          rw [V.keysK k1] at this
          simp only [Prod.mk.injEq] at e
          exact this (by rw [← e.1, ← e.2]; exact List.mem_cons_self)
      · intro r hr
        rcases List.mem_cons.mp hr with e | e
        · subst e; exact V.nz
        · exact B.nz r e
      · intro r hr
        rcases List.mem_cons.mp hr with e | e
        · subst e; exact V.idNew
        · have := B.idNew r e; rw [V.ids'] at this; exact fun hm => this (List.mem_cons_of_mem _ hm)
      · intro r hr k
        rcases List.mem_cons.mp hr with e | e
        · subst e; exact V.keyNew k
        · have := B.keyNew r e k
          rcases V.keys' with e' | ⟨_, e'⟩
          · rw [e'] at this; exact this
          · rw [e'] at this; exact fun hm => this (List.mem_cons_of_mem _ hm)
      · intro hm r hr
        rcases List.mem_cons.mp hr with e | e
        · subst e; exact V.strict hm
        · exact B.strict hm r e
      · intro hm r hr k
        rcases List.mem_cons.mp hr with e | e
        · subst e; exact V.idem hm k
        · exact B.idem hm r e k

end WK.C07

import WK.Proofs.C17_inv
/-
  C17 — facts about the seven task+meta mutators and the guard predicates.
-/
namespace WK.C17

theorem activeTaskFence_iff (t : Task) (m : Meta) (v : Nat) :
    activeTaskFence t m v = true ↔
      (t.ftok ≠ 0 ∧ t.fver ≠ 0 ∧ t.funtil ≠ 0 ∧ t.ftok = t.id ∧ t.ftok = m.ftok ∧ t.fver = m.fver ∧ t.fver = v) := by
  simp [activeTaskFence, and_assoc]

theorem cutoverProof_iff (t : Task) (m : Meta) (v : Nat) :
    cutoverProof t m v = true →
      (v ≠ 0 ∧ t.dfv = v ∧ m.fver = v ∧ t.dcep = m.cep ∧ t.dlep = m.lep ∧ t.dnode = m.leader ∧ t.hw ≤ t.leo) := by
  simp [cutoverProof]
  omega

/-- an accepted leader-transfer commit had a stored proof matching the channel's current meta -/
theorem mutCommit_ok (c : Cmd) (t nt : Task) (m nm : Meta) (h : mutCommit c t m = .ok (nt, nm)) :
    proofMatches t m = true ∧ c.rg.efver = m.fver ∧ t.phase = 6 ∧
    nt = { t with status := c.st, phase := 7, upd := c.upd } ∧ c.st = 2 ∧
    (isLTKind t.kind = true ∨ (t.kind = 2 ∧ t.emb = true)) ∧
    nm.fence = m.fence := by
  unfold mutCommit at h
  split at h; · simp at h
  rename_i htr
  split at h; · simp at h
  split at h; · simp at h
  rename_i hatf
  split at h; · simp at h
  rename_i hcp
  split at h; · simp at h
  simp at h htr hatf hcp
  have h1 := (activeTaskFence_iff t m c.rg.efver).mp hatf
  have h2 := cutoverProof_iff t m c.rg.efver hcp
  simp only [commitTransition] at htr
  split at htr; · cases htr
  rename_i hpre
  simp at hpre
  obtain ⟨⟨hst, hph⟩, hcph⟩ := hpre
  refine ⟨?_, ?_, hph, ?_, hst, ?_, ?_⟩
  · simp [proofMatches]
    omega
  · omega
  · rw [← h.1, hcph]
  · split at htr
    · left; assumption
    · right; simpa using htr
  · rw [← h.2]; rfl

/-- an accepted promote had a stored proof matching the channel's current meta -/
theorem mutPromote_ok (c : Cmd) (t nt : Task) (m nm : Meta) (h : mutPromote c t m = .ok (nt, nm)) :
    proofMatches t m = true ∧ c.rg.efver = m.fver ∧ t.phase = 25 ∧ t.kind = 2 ∧
    nt = { t with status := c.st, phase := 26, upd := c.upd } ∧ c.st = 2 ∧
    nm.fence = m.fence := by
  unfold mutPromote at h
  split at h; · simp at h
  rename_i htr
  split at h; · simp at h
  split at h; · simp at h
  rename_i hatf
  split at h; · simp at h
  rename_i hcp
  simp only at h
  split at h; · simp at h
  simp at h htr hatf hcp
  have h1 := (activeTaskFence_iff t m c.rg.efver).mp hatf
  have h2 := cutoverProof_iff t m c.rg.efver hcp
  simp [promoteTransition] at htr
  obtain ⟨⟨⟨hk, hph⟩, hst⟩, hcph⟩ := htr
  refine ⟨?_, ?_, hph, hk, ?_, hst, ?_⟩
  · simp [proofMatches]
    omega
  · omega
  · rw [← h.1, hcph]
  · rw [← h.2]; rfl

end WK.C17

import WK.Proofs.C09_Idx
/-
  C09 — a successful strict `validateAppendRow` pass (the model's `validateRows`, mode 0) establishes the
  freshness that `IdxInv` preservation needs; strict histories need no freshness hypothesis.
-/
namespace WK.C09

def okStrict (s : Store) (ch mode seq : Nat) (r : Rec) : Bool :=
  if mode = 0 then
    match get s (.gid r.id) with
    | some (.gid ch' seq') => decide (ch' = ch ∧ seq' = seq)
    | some _ => false
    | none => true
  else true

def okIdem (s : Store) (ch seq : Nat) (r : Rec) : Bool :=
  match get s (.idem ch r.f r.c) with
  | some (.idem hseq hid) =>
    (match get s (.row ch hseq) with
     | some (.row id' f' c' _ _) => decide (id' = hid ∧ f' = r.f ∧ c' = r.c ∧ hseq = seq)
     | _ => false)
  | some _ => false
  | none => true

theorem validateRows_cons (s : Store) (ch mode seq : Nat) (r : Rec) (rest : List Rec) (ids : List Nat) (keys : List (Nat × Nat)) :
    validateRows s ch mode seq (r :: rest) ids keys =
      if ids.contains r.id then false else
      if !okStrict s ch mode seq r then false else
      if r.f = 0 ∨ r.c = 0 then validateRows s ch mode (seq + 1) rest (r.id :: ids) keys else
      if keys.contains (r.f, r.c) then false else
      if mode = 2 then validateRows s ch mode (seq + 1) rest (r.id :: ids) ((r.f, r.c) :: keys) else
      if !okIdem s ch seq r then false else
      validateRows s ch mode (seq + 1) rest (r.id :: ids) ((r.f, r.c) :: keys) := by
  rw [validateRows]; rfl

/-- what a successful strict `validateAppendRow` pass establishes (with its two accumulators) -/
theorem validateRows_strict (s : Store) (ch : Nat) (h : IdxInv s) :
    ∀ (recs : List Rec) (seq : Nat) (ids : List Nat) (keys : List (Nat × Nat)),
      validateRows s ch 0 seq recs ids keys = true → (∀ q, seq ≤ q → get s (.row ch q) = none) →
      (recs.map (·.id)).Nodup ∧ (∀ r ∈ recs, r.id ∉ ids) ∧ (∀ r ∈ recs, get s (.gid r.id) = none) ∧
      ((recs.filter (fun r => r.f ≠ 0 ∧ r.c ≠ 0)).map (fun r => (r.f, r.c))).Nodup ∧
      (∀ r ∈ recs, r.f ≠ 0 → r.c ≠ 0 → (r.f, r.c) ∉ keys) ∧
      (∀ r ∈ recs, r.f ≠ 0 → r.c ≠ 0 → get s (.idem ch r.f r.c) = none)
  | [], _, _, _, _, _ => by simp
  | r :: rest, seq, ids, keys, hv, hrows => by
    rw [validateRows_cons] at hv
    have hrow : get s (.row ch seq) = none := hrows seq (Nat.le_refl _)
    have hrows' : ∀ q, seq + 1 ≤ q → get s (.row ch q) = none := fun q hq => hrows q (by omega)
    by_cases hid : ids.contains r.id = true
    · rw [if_pos hid] at hv; cases hv
    rw [if_neg hid] at hv
    have hidn : r.id ∉ ids := by simpa using hid
    by_cases hok : (!okStrict s ch 0 seq r) = true
    · rw [if_pos hok] at hv; cases hv
    rw [if_neg hok] at hv
    have hgid : get s (.gid r.id) = none := by
      cases hg : get s (.gid r.id) with
      | none => rfl
      | some v =>
        exfalso
        apply hok
        obtain ⟨ch', q', f, c, fl, p, rfl, hr⟩ := h.gid r.id v hg
        have : ¬ (ch' = ch ∧ q' = seq) := by
          rintro ⟨rfl, rfl⟩; rw [hrow] at hr; cases hr
        simp [okStrict, hg, this]
    by_cases hfc : r.f = 0 ∨ r.c = 0
    · rw [if_pos hfc] at hv
      obtain ⟨a1, a2, a3, a4, a5, a6⟩ := validateRows_strict s ch h rest (seq + 1) (r.id :: ids) keys hv hrows'
      refine ⟨?_, ?_, ?_, ?_, ?_, ?_⟩
      · rw [List.map_cons, List.nodup_cons]
        refine ⟨?_, a1⟩
        intro hm
        obtain ⟨x, hx, he⟩ := List.mem_map.1 hm
        exact a2 x hx (by rw [he]; exact List.mem_cons_self)
      · intro x hx
        rcases List.mem_cons.1 hx with rfl | hx
        · exact hidn
        · intro hm; exact a2 x hx (List.mem_cons_of_mem _ hm)
      · intro x hx
        rcases List.mem_cons.1 hx with rfl | hx
        · exact hgid
        · exact a3 x hx
      · have : ¬ (r.f ≠ 0 ∧ r.c ≠ 0) := by
          rintro ⟨h1, h2⟩; rcases hfc with h3 | h3 <;> contradiction
        simpa [List.filter_cons, this] using a4
      · intro x hx hf hc
        rcases List.mem_cons.1 hx with rfl | hx
        · omega
        · exact a5 x hx hf hc
      · intro x hx hf hc
        rcases List.mem_cons.1 hx with rfl | hx
        · omega
        · exact a6 x hx hf hc
    · rw [if_neg hfc] at hv
      have hf0 : r.f ≠ 0 := by omega
      have hc0 : r.c ≠ 0 := by omega
      by_cases hk : keys.contains (r.f, r.c) = true
      · rw [if_pos hk] at hv; cases hv
      rw [if_neg hk] at hv
      have hkn : (r.f, r.c) ∉ keys := by simpa using hk
      rw [if_neg (by omega : ¬ (0 = 2))] at hv
      by_cases hokI : (!okIdem s ch seq r) = true
      · rw [if_pos hokI] at hv; cases hv
      rw [if_neg hokI] at hv
      have hidem : get s (.idem ch r.f r.c) = none := by
        cases hg : get s (.idem ch r.f r.c) with
        | none => rfl
        | some v =>
          exfalso
          apply hokI
          obtain ⟨_, _, q, id, fl, p, rfl, hr⟩ := h.idem ch r.f r.c v hg
          have : ¬ (q = seq) := by
            rintro rfl; rw [hrow] at hr; cases hr
          simp [okIdem, hg, hr, this]
      obtain ⟨a1, a2, a3, a4, a5, a6⟩ :=
        validateRows_strict s ch h rest (seq + 1) (r.id :: ids) ((r.f, r.c) :: keys) hv hrows'
      refine ⟨?_, ?_, ?_, ?_, ?_, ?_⟩
      · rw [List.map_cons, List.nodup_cons]
        refine ⟨?_, a1⟩
        intro hm
        obtain ⟨x, hx, he⟩ := List.mem_map.1 hm
        exact a2 x hx (by rw [he]; exact List.mem_cons_self)
      · intro x hx
        rcases List.mem_cons.1 hx with rfl | hx
        · exact hidn
        · intro hm; exact a2 x hx (List.mem_cons_of_mem _ hm)
      · intro x hx
        rcases List.mem_cons.1 hx with rfl | hx
        · exact hgid
        · exact a3 x hx
      · have : (r.f ≠ 0 ∧ r.c ≠ 0) := ⟨hf0, hc0⟩
        simp only [List.filter_cons, this, decide_true, if_true, List.map_cons, List.nodup_cons, ne_eq, not_false_eq_true, and_self]
        refine ⟨?_, by simpa using a4⟩
        intro hm
        obtain ⟨x, hx, he⟩ := List.mem_map.1 hm
        have hx' := List.mem_filter.1 hx
        have hxf : x.f ≠ 0 ∧ x.c ≠ 0 := by simpa using hx'.2
        exact a5 x hx'.1 hxf.1 hxf.2 (by rw [he]; exact List.mem_cons_self)
      · intro x hx hf hc
        rcases List.mem_cons.1 hx with rfl | hx
        · exact hkn
        · intro hm; exact a5 x hx hf hc (List.mem_cons_of_mem _ hm)
      · intro x hx hf hc
        rcases List.mem_cons.1 hx with rfl | hx
        · exact hidem
        · exact a6 x hx hf hc

/-- strict-mode histories: appends / exact appends in strict mode with non-zero message ids (the driver and
    `row.validate` refuse id 0), checkpoint-only applies, and every non-append mutation -/
def StrictOp : Op → Prop
  | .app _ mode recs => mode = 0 ∧ ∀ r ∈ recs, r.id ≠ 0
  | .xapp _ _ _ _ mode recs => mode = 0 ∧ ∀ r ∈ recs, r.id ≠ 0
  | .fetch _ _ recs => recs = []
  | _ => True

theorem freshRecs_of_validate (s : Store) (ch : Nat) (recs : List Rec) (h : IdxInv s) (hid : ∀ r ∈ recs, r.id ≠ 0)
    (hv : validateRows s ch 0 (leo s ch + 1) recs [] [] = true) : FreshRecs s ch recs := by
  have hrows : ∀ q, leo s ch + 1 ≤ q → get s (.row ch q) = none := by
    intro q hq
    cases hg : get s (.row ch q) with
    | none => rfl
    | some v => have := row_le_leo s ch q v hg; omega
  obtain ⟨a1, _, a3, a4, _, a6⟩ := validateRows_strict s ch h recs _ [] [] hv hrows
  exact ⟨hid, a1, a3, a4, a6⟩

/-- a strict mutation either commits nothing or its records are fresh -/
theorem strict_nil_or_fresh (s : Store) (op : Op) (h : IdxInv s) (hs : StrictOp op) :
    (plan s op).2 = [] ∨ OpFresh s op := by
  cases op with
  | app ch mode recs =>
    obtain ⟨rfl, hid⟩ := hs
    by_cases hv : validateRows s ch 0 (leo s ch + 1) recs [] [] = true
    · right; exact freshRecs_of_validate s ch recs h hid hv
    · left; unfold plan; simp only [hv]; split <;> simp
  | xapp ch cmd term committed mode recs =>
    obtain ⟨rfl, hid⟩ := hs
    by_cases hv : validateRows s ch 0 (leo s ch + 1) recs [] [] = true
    · right; exact freshRecs_of_validate s ch recs h hid hv
    · left; unfold plan; simp only [hv]; repeat' split
      all_goals simp_all
  | fetch ch hw recs =>
    right; subst hs
    exact ⟨by simp, by simp, by simp, by simp, by simp⟩
  | trunc ch to => right; trivial
  | adopt ch th => right; trivial
  | trim ch th mx => right; trivial
  | ckpt ch hw => right; trivial

theorem c09_idx_step_strict (s : Store) (op : Op) (h : IdxInv s) (hs : StrictOp op) : IdxInv (stepG s op) := by
  unfold stepG
  split
  · exact h
  · rw [step_snd]
    rcases strict_nil_or_fresh s op h hs with hn | hf
    · rw [hn]; exact h
    · exact idxInv_plan s op h hf

theorem idxInv_run_strict : ∀ (ops : List Op) (s : Store), IdxInv s → (∀ op ∈ ops, StrictOp op) → IdxInv (run s ops)
  | [], _, h, _ => h
  | op :: rest, s, h, hs => by
    rw [run_cons]
    exact idxInv_run_strict rest _ (c09_idx_step_strict s op h (hs op List.mem_cons_self))
      (fun o ho => hs o (List.mem_cons_of_mem _ ho))

end WK.C09

import WK.Proofs.Repl_Frame
/-
  Owner-side lemmas (quorum_log.go): how Install / Commit move one node's
  channel state.  Used by the C03 and C04 theorems.
-/
namespace WK.Repl

/-! ### the authority order -/

theorem cmpAuth_lt_iff (a b : AuthId) :
    cmpAuth a b = .lt ↔ a.epoch < b.epoch ∨ (a.epoch = b.epoch ∧ (a.term < b.term ∨ (a.term = b.term ∧ a.fence < b.fence))) := by
  unfold cmpAuth
  by_cases h1 : a.epoch < b.epoch
  · simp [h1]
  · by_cases h2 : a.epoch > b.epoch
    · simp [h1, h2] <;> omega
    · by_cases h3 : a.term < b.term
      · simp [h1, h2, h3] <;> omega
      · by_cases h4 : a.term > b.term
        · simp [h1, h2, h3, h4] <;> omega
        · by_cases h5 : a.fence < b.fence
          · simp [h1, h2, h3, h4, h5] <;> omega
          · by_cases h6 : a.fence > b.fence
            · simp [h1, h2, h3, h4, h5, h6] <;> omega
            · simp [h1, h2, h3, h4, h5, h6] <;> omega

theorem cmpAuth_gt_iff (a b : AuthId) :
    cmpAuth a b = .gt ↔ b.epoch < a.epoch ∨ (a.epoch = b.epoch ∧ (b.term < a.term ∨ (a.term = b.term ∧ b.fence < a.fence))) := by
  unfold cmpAuth
  by_cases h1 : a.epoch < b.epoch
  · simp [h1] <;> omega
  · by_cases h2 : a.epoch > b.epoch
    · simp [h1, h2] <;> omega
    · by_cases h3 : a.term < b.term
      · simp [h1, h2, h3] <;> omega
      · by_cases h4 : a.term > b.term
        · simp [h1, h2, h3, h4] <;> omega
        · by_cases h5 : a.fence < b.fence
          · simp [h1, h2, h3, h4, h5] <;> omega
          · by_cases h6 : a.fence > b.fence
            · simp [h1, h2, h3, h4, h5, h6] <;> omega
            · simp [h1, h2, h3, h4, h5, h6] <;> omega

theorem cmpAuth_eq_iff (a b : AuthId) : cmpAuth a b = .eq ↔ a = b := by
  constructor
  · intro h
    have h1 : ¬ cmpAuth a b = .lt := by rw [h]; decide
    have h2 : ¬ cmpAuth a b = .gt := by rw [h]; decide
    rw [cmpAuth_lt_iff] at h1
    rw [cmpAuth_gt_iff] at h2
    cases a; cases b; simp only [AuthId.mk.injEq] at *; omega
  · intro h; subst h; unfold cmpAuth; simp

theorem cmpAuth_refl (a : AuthId) : cmpAuth a a = .eq := (cmpAuth_eq_iff a a).mpr rfl

/-- `a` is not below `b` -/
def AuthGe (a b : AuthId) : Prop := cmpAuth a b ≠ .lt

theorem AuthGe.refl (a : AuthId) : AuthGe a a := by unfold AuthGe; rw [cmpAuth_refl]; decide

theorem AuthGe.trans {a b c : AuthId} (h1 : AuthGe a b) (h2 : AuthGe b c) : AuthGe a c := by
  unfold AuthGe at *
  rw [Ne, cmpAuth_lt_iff] at *
  omega

theorem AuthGe.of_gt {a b : AuthId} (h : cmpAuth a b = .gt) : AuthGe a b := by
  unfold AuthGe; rw [h]; decide

theorem lt_of_lt_of_ge {a b c : AuthId} (h1 : cmpAuth a b = .lt) (h2 : AuthGe c b) : cmpAuth a c = .lt := by
  unfold AuthGe at h2
  rw [Ne, cmpAuth_lt_iff] at h2
  rw [cmpAuth_lt_iff] at *
  omega

theorem ne_of_cmp_lt {a b : AuthId} (h : cmpAuth a b = .lt) : a ≠ b := by
  intro e; subst e; rw [cmpAuth_refl] at h; cases h

/-! ### the channel state of one owner -/

def chanOf (s : Sys) (i : Nat) : Option (Option QChan) := (s.node? i).map (·.chan)

theorem trivRel : StoreRel (fun _ _ => True) := ⟨fun _ => trivial, fun _ _ _ _ _ => trivial, fun _ _ _ _ => trivial,
  fun _ _ _ _ _ _ _ => trivial⟩

theorem SameOwners.chanOf {s s' : Sys} (h : SameOwners s s') (i : Nat) : chanOf s' i = chanOf s i := (h.2.2 i).1

theorem chanOf_setChan {s : Sys} {i : Nat} {nd : NodeSt} (h : s.node? i = some nd) (c : Option QChan) :
    chanOf (s.setNode i { nd with chan := c }) i = some c := by
  unfold chanOf; rw [node?_setNode h]; simp

theorem chanOf_some {s : Sys} {i : Nat} {c : Option QChan} (h : chanOf s i = some c) :
    ∃ nd, s.node? i = some nd ∧ nd.chan = c := by
  unfold chanOf at h
  cases hn : s.node? i with
  | none => simp [hn] at h
  | some nd => simp [hn] at h; exact ⟨nd, rfl, h⟩

/-- result of `installFinish` on node `i` -/
theorem installFinish_chan (i : Nat) (ch0 : QChan) (a : Authority) (fin : Sys × Except Err RState)
    (h : chanOf fin.1 i = some (some ch0)) :
    ∃ ch', chanOf (installFinish i ch0 a fin).1 i = some (some ch') ∧ ch'.auth = ch0.auth := by
  obtain ⟨s2, r2⟩ := fin
  cases r2 with
  | error e => exact ⟨ch0, h, rfl⟩
  | ok frontier =>
    obtain ⟨nd, hn, _⟩ := chanOf_some h
    simp only [installFinish, hn]
    exact ⟨_, chanOf_setChan hn _, rfl⟩

theorem installRecover_chan (s : Sys) (i : Nat) (ch0 : QChan) (a : Authority) (ps : List PSpec) (acks : List Ack)
    (h : chanOf s i = some (some ch0)) :
    ∃ ch', chanOf (installRecover s i ch0 a ps acks).1 i = some (some ch') ∧ ch'.auth = ch0.auth := by
  unfold installRecover
  split
  · exact ⟨ch0, h, rfl⟩
  · cases hrec : recoverPrefix s a.q ps with
    | error e => exact ⟨ch0, h, rfl⟩
    | ok sel =>
      simp only
      have f1 := (repairPrefix_frame trivRel s ps i sel).1
      generalize repairPrefix s ps i sel = rp at f1 ⊢
      obtain ⟨s1, r1⟩ := rp
      have h1 : chanOf s1 i = some (some ch0) := by rw [f1.chanOf]; exact h
      cases r1 with
      | error e => exact ⟨ch0, h1, rfl⟩
      | ok recovered =>
        simp only
        apply installFinish_chan
        split
        · rw [(writeBarrier_frame trivRel s1 i a recovered acks).1.chanOf]; exact h1
        · exact h1

/-- the authority an owner holds after `install` is the old one or the requested one, never a lower one -/
theorem install_chan (s : Sys) (i : Nat) (a : Authority) (ps : List PSpec) (acks : List Ack) (c : Option QChan)
    (h : chanOf s i = some c) :
    (chanOf (install s i a ps acks).1 i = some c) ∨
    (∃ ch', chanOf (install s i a ps acks).1 i = some (some ch') ∧ ch'.auth = a ∧
       ∀ ch, c = some ch → ch.auth.id ≠ AuthId.zero → (cmpAuth a.id ch.auth.id = .gt ∨ a = ch.auth)) := by
  obtain ⟨nd, hn, hc⟩ := chanOf_some h
  unfold install
  simp only [hn]
  split
  · left; exact h
  · cases hd : installDecision nd.chan a with
    | error r => left; exact h
    | ok ch0 =>
      simp only
      have h0 := chanOf_setChan hn (some ch0)
      obtain ⟨ch', h1, h2⟩ := installRecover_chan _ i ch0 a ps acks h0
      right
      refine ⟨ch', h1, ?_, ?_⟩
      · -- ch0.auth = a
        rw [h2]
        unfold installDecision at hd
        split at hd
        · split at hd
          · split at hd
            · cases hd
            · split at hd
              · cases hd
              · split at hd
                · cases hd
                · split at hd
                  · cases hd
                  · rename_i hne _ _; cases hd; simp at hne; exact hne.symm
            · cases hd; rfl
          · cases hd; rfl
        · cases hd; rfl
      · intro ch hch hz
        rw [← hc] at hch
        unfold installDecision at hd
        rw [hch] at hd
        simp only [hz, ne_eq, not_false_eq_true, if_true] at hd
        split at hd
        · cases hd
        · split at hd
          · cases hd
          · rename_i hne; right; simp at hne; exact hne
        · rename_i hgt; left; exact hgt

end WK.Repl

namespace WK.Repl

/-! ### Commit -/

theorem finishCommit_auth (cap : Nat) (ch : QChan) (r : Retained) : (finishCommit cap ch r).1.auth = ch.auth := by
  unfold finishCommit
  split
  · rfl
  · split <;> rfl

theorem reconcile_auth (cap : Nat) (ch : QChan) (st : Store) (cmd : Cmd) (cs : List Nat) :
    (reconcile cap ch st cmd cs).1.auth = ch.auth := by
  unfold reconcile
  cases st.byCmd cmd with
  | none => rfl
  | some p =>
    dsimp only
    repeat' split
    all_goals rfl

theorem commitRetry_chan (s : Sys) (i : Nat) (ch : QChan) (r : Retained) (acks : List Ack)
    (h : chanOf s i = some (some ch)) :
    ∃ ch', chanOf (commitRetry s i ch r acks).1 i = some (some ch') ∧ ch'.auth = ch.auth := by
  unfold commitRetry
  have f := (runRound_frame trivRel s i ch.auth.q acks r.p).1
  generalize runRound s i ch.auth.q acks r.p = rr at f ⊢
  obtain ⟨s', ok, out⟩ := rr
  have h' : chanOf s' i = some (some ch) := by rw [f.chanOf]; exact h
  simp only
  split
  · exact ⟨ch, h', rfl⟩
  · obtain ⟨nd', hn', _⟩ := chanOf_some h'
    simp only [hn']
    exact ⟨_, chanOf_setChan hn' _, finishCommit_auth _ _ _⟩

theorem commitFresh_chan (s : Sys) (i : Nat) (nd : NodeSt) (hn : s.node? i = some nd) (ch : QChan) (cmd : Cmd)
    (cs : List Nat) (acks : List Ack) (h : nd.chan = some ch) :
    ∃ ch', chanOf (commitFresh s i nd ch cmd cs acks).1 i = some (some ch') ∧ ch'.auth = ch.auth := by
  have h0 : chanOf s i = some (some ch) := by unfold chanOf; simp [hn, h]
  unfold commitFresh
  cases hs : sealBusiness ch cmd cs with
  | none => exact ⟨ch, h0, rfl⟩
  | some r =>
    simp only
    have h1 := chanOf_setChan hn (some { ch with pending := some r })
    generalize s.setNode i { nd with chan := some { ch with pending := some r } } = s0 at h1 ⊢
    have f := (runRound_frame trivRel s0 i ch.auth.q acks r.p).1
    generalize runRound s0 i ch.auth.q acks r.p = rr at f ⊢
    obtain ⟨s', ok, out⟩ := rr
    have h' : chanOf s' i = some (some { ch with pending := some r }) := by rw [f.chanOf]; exact h1
    obtain ⟨nd', hn', _⟩ := chanOf_some h'
    simp only [hn']
    split
    · split
      · exact ⟨_, chanOf_setChan hn' _, reconcile_auth _ _ _ _ _⟩
      · exact ⟨_, h', rfl⟩
    · exact ⟨_, chanOf_setChan hn' _, finishCommit_auth _ _ _⟩

/-- `Commit` never changes the authority an owner holds -/
theorem commit_chan (s : Sys) (i : Nat) (e : AuthId) (c : Nat) (cs : List Nat) (acks : List Ack) (co : Option QChan)
    (h : chanOf s i = some co) :
    match co with
    | none => chanOf (commit s i e c cs acks).1 i = some none
    | some ch => ∃ ch', chanOf (commit s i e c cs acks).1 i = some (some ch') ∧ ch'.auth = ch.auth := by
  obtain ⟨nd, hn, hc⟩ := chanOf_some h
  have keep : ∀ ch, co = some ch → ∃ ch', chanOf s i = some (some ch') ∧ ch'.auth = ch.auth :=
    fun ch e => ⟨ch, by rw [h, e], rfl⟩
  unfold commit
  simp only [hn]
  cases co with
  | none =>
    simp only
    split
    · exact h
    · simp only [hc]; exact h
  | some ch =>
    simp only
    split
    · exact keep ch rfl
    · simp only [hc]
      split
      · exact keep ch rfl
      · split
        · exact keep ch rfl
        · split
          · exact keep ch rfl
          · unfold commitAdmitted
            split
            · split
              · exact keep ch rfl
              · split
                · exact keep ch rfl
                · exact commitRetry_chan s i ch _ acks h
            · split
              · split
                · split
                  · exact keep ch rfl
                  · exact commitRetry_chan s i ch _ acks h
                · exact keep ch rfl
              · exact commitFresh_chan s i nd hn ch _ cs acks hc

/-- the admission guards of `Commit`: a receipt is only ever returned by a ready,
    unfenced owner whose installed authority equals the proposal's Expected authority -/
theorem commit_receipt_guard (s : Sys) (i : Nat) (e : AuthId) (c : Nat) (cs : List Nat) (acks : List Ack) (r : Receipt)
    (h : (commit s i e c cs acks).2 = .receipt r) :
    ∃ nd ch, s.node? i = some nd ∧ nd.chan = some ch ∧ ch.ready = true ∧ ch.auth.id = e ∧ ch.auth.fenced = false := by
  unfold commit at h
  cases hn : s.node? i with
  | none => simp [hn] at h
  | some nd =>
    simp only [hn] at h
    split at h
    · cases h
    · cases hc : nd.chan with
      | none => simp [hc] at h
      | some ch =>
        simp only [hc] at h
        split at h
        · cases h
        · split at h
          · cases h
          · split at h
            · cases h
            · rename_i h1 h2 h3
              refine ⟨nd, ch, rfl, hc, ?_, ?_, ?_⟩
              · simpa using h1
              · have := h2; simp at this; exact this.symm
              · simpa using h3

end WK.Repl

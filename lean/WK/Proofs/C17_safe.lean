import WK.Proofs.C17_step
/-
  C17 — "not abortable" is preserved by every mutator except the rewinding ones
  (ResetChannelWriteFenceToPreCutover and the embedded hand-off ClearChannelWriteFence → AddLearner).
-/
namespace WK.C17

theorem abortable_of_fields (t nt : Task) (hk : nt.kind = t.kind) (he : nt.emb = t.emb) (hp : nt.phase = t.phase)
    (h : abortTransitionOk t = false) : nt.abortable = false := by
  simp only [Task.abortable, abortTransitionOk, hk, he, hp] at h ⊢
  rw [h]; simp

theorem mutate_safe (c : Cmd) (t nt : Task) (m nm : Meta) (h : mutate c t m = .ok (nt, nm))
    (hs : t.abortable = false) (hterm : t.terminal = true → t = nt)
    (hr1 : c.kind ≠ .resetfence) (hr2 : ¬ (c.kind = .clearfence ∧ c.st = 2)) : nt.abortable = false := by
  by_cases htt : t.terminal = true
  · rw [← hterm htt]; exact hs
  have hnt : t.terminal = false := by cases hx : t.terminal <;> simp_all
  have hab : abortTransitionOk t = false := by
    simp [Task.abortable, hnt] at hs; exact hs
  unfold mutate at h
  split at h
  · -- setfence
    unfold mutSetFence at h
    split at h; · simp at h
    rename_i htr
    split at h; · simp at h
    simp at h htr
    rw [← h.1]
    simp only [setFenceTransition] at htr
    split at htr; · cases htr
    split at htr
    · rename_i hlt
      simp at htr
      rcases htr with ⟨hp3, _⟩ | ⟨_, hsame⟩
      · exfalso
        simp [abortTransitionOk, hp3, ltAbortPhase, ltPhase, isLTKind] at hab hlt
        rcases hlt with hlt | hlt <;> simp_all
      · apply abortable_of_fields t _ (by simp [clearTaskProof]) (by simp [clearTaskProof]) (by simp; exact hsame) hab
    · split at htr
      · rename_i hnl hk2
        simp at htr
        rcases htr with ⟨hp22, _⟩ | ⟨_, hsame⟩
        · exfalso
          simp at hk2 hnl
          simp [abortTransitionOk, hp22, hk2, rrAbortPhase, ltPhase] at hab
        · apply abortable_of_fields t _ (by simp [clearTaskProof]) (by simp [clearTaskProof]) (by simp; exact hsame) hab
      · cases htr
  · rename_i hk; exact absurd hk hr1
  · -- commit
    have := mutCommit_ok c t nt m nm h
    rw [this.2.2.2.1]
    rcases this.2.2.2.2.2.1 with hk | ⟨hk, he⟩
    · simp [isLTKind] at hk
      rcases hk with hk | hk <;> simp [Task.abortable, abortTransitionOk, hk, ltAbortPhase]
    · simp [Task.abortable, abortTransitionOk, hk, he, ltAbortPhase, ltPhase]
  · -- addlearner: only from the (abortable) AddLearner phase
    unfold mutAddLearner at h
    split at h; · simp at h
    rename_i htr
    exfalso
    simp [addLearnerTransition] at htr
    simp [abortTransitionOk, htr.1.1.1, htr.1.1.2, rrAbortPhase, ltPhase] at hab
  · -- promote
    have := mutPromote_ok c t nt m nm h
    rw [this.2.2.2.2.1]
    simp [Task.abortable, abortTransitionOk, this.2.2.2.1, rrAbortPhase, ltPhase]
  · -- clearfence
    rename_i hk
    unfold mutClearFence at h
    split at h; · simp at h
    rename_i htr
    split at h
    · simp at h; rw [← h.1]; exact hs
    split at h; · simp at h
    split at h; · simp at h
    simp at h htr
    rw [← h.1]
    simp only [clearFenceTransition] at htr
    split at htr; · cases htr
    split at htr
    · rename_i hc4
      simp at hc4
      have : c.st = 4 := hc4.1.1
      split <;> simp [Task.abortable, Task.terminal, clearTaskFenceAndProof, clearTaskProof, this]
    · simp at htr
      exact absurd ⟨hk, by omega⟩ hr2
  · -- abort needs an abortable row
    unfold mutAbort at h
    split at h; · simp at h
    split at h; · simp at h
    rename_i h1 h2
    exfalso
    simp at h1 h2
    rw [h2] at hab; cases hab
  · simp at h

/-- an accepted cutover leaves the task in a state the abort command refuses -/
theorem cutover_safe (c : Cmd) (hk : c.kind = .commit ∨ c.kind = .promote) (t nt : Task) (m nm : Meta)
    (h : mutate c t m = .ok (nt, nm)) : nt.abortable = false := by
  rcases hk with hk | hk
  · simp only [mutate, hk] at h
    have := mutCommit_ok c t nt m nm h
    rw [this.2.2.2.1]
    rcases this.2.2.2.2.2.1 with hk | ⟨hk, he⟩
    · simp [isLTKind] at hk
      rcases hk with hk | hk <;> simp [Task.abortable, abortTransitionOk, hk, ltAbortPhase]
    · simp [Task.abortable, abortTransitionOk, hk, he, ltAbortPhase, ltPhase]
  · simp only [mutate, hk] at h
    have := mutPromote_ok c t nt m nm h
    rw [this.2.2.2.2.1]
    simp [Task.abortable, abortTransitionOk, this.2.2.2.1, rrAbortPhase, ltPhase]

/-- the abort mutator refuses a non-abortable row -/
theorem mutAbort_needs_abortable (c : Cmd) (t nt : Task) (m nm : Meta) (h : mutAbort c t m = .ok (nt, nm)) :
    t.abortable = true := by
  unfold mutAbort at h
  split at h; · simp at h
  split at h; · simp at h
  rename_i h1 h2
  simp at h1 h2
  simp [Task.abortable, h1, h2]

end WK.C17

import WK.Gen.C06
/-
  C06 — T tie for the transition functions: the top-level statement sequence (guards,
  their order, what they return, the assignments between them) of every Go function the
  model mirrors is regenerated from /repo into `WK.Gen.C06.skeleton` on every check and
  pinned here, statement by statement, next to the model function that mirrors it.  Any
  edit of these functions (swapped guards, `Records[0]` for the last index, a dropped
  `max`, a changed comparison) breaks the function's theorem below as well as the
  differential run.  A harmless refactor breaks it too: the check then falls back to
  the failing-input search, and this table has to be re-read against the model.
  (Own module: a change here must not take the model theorems down with it.)
-/
namespace WK.C06

def pinned (fn : String) : Option (List String) := (WK.Gen.C06.skeleton.find? (fun e => e.1 == fn)).map (·.2)

/-- model: applyAppendStored / storedPre — fence test first, then the error test, offsets from BaseOffset, LEO = max, leader-only Progress[local] + AdvanceHW, completion in WaiterOpIDs order, +1 signal -/
theorem c06_src_ApplyAppendStored : pinned "ApplyAppendStored" = some [
    "if !s.matchesInflightFence(res.Fence) { return Decision{} }",
    "if res.Err != nil { return s.failInflightAppend(res.Err) }",
    "inflight := s.InflightAppend",
    "s.assignStoredOffsets(inflight.Records, res.BaseOffset)",
    "s.assignInflightRecordsToWaiters(inflight)",
    "s.LEO = maxUint64(s.LEO, res.LastOffset)",
    "if s.Role == ch.RoleLeader { s.Progress[s.LocalNode] = ReplicaProgress{Match: s.LEO} s.AdvanceHW() }",
    "replyOrder := append([]ch.OpID(nil), inflight.WaiterOpIDs...)",
    "s.InflightAppend = nil",
    "decision := s.completeAppendWaiters(replyOrder)",
    "decision.Signals = append(decision.Signals, Signal{Kind: SignalKindReplicate})",
    "return decision"
  ] := rfl

/-- model: applyQuorumCommitted / quorumPre — fence, error, receipt shape test (5 disjuncts), LEO = max, HW = max, Progress[local] = max, completion -/
theorem c06_src_ApplyQuorumCommitted : pinned "ApplyQuorumCommitted" = some [
    "if !s.matchesInflightFence(res.Fence) { return Decision{} }",
    "if res.Err != nil { return s.failInflightAppend(res.Err) }",
    "inflight := s.InflightAppend",
    "count := uint64(len(inflight.Records))",
    "if res.First == 0 || count == 0 || res.Last < res.First || res.Last-res.First+1 != count || res.HW != res.Last { return s.failInflightAppend(ch.ErrLogConflict) }",
    "s.assignStoredOffsets(inflight.Records, res.First)",
    "s.assignInflightRecordsToWaiters(inflight)",
    "s.LEO = maxUint64(s.LEO, res.Last)",
    "s.HW = maxUint64(s.HW, res.HW)",
    "progress := s.Progress[s.LocalNode]",
    "progress.Match = maxUint64(progress.Match, res.Last)",
    "s.Progress[s.LocalNode] = progress",
    "replyOrder := append([]ch.OpID(nil), inflight.WaiterOpIDs...)",
    "s.InflightAppend = nil",
    "return s.completeAppendWaiters(replyOrder)"
  ] := rfl

/-- model: applyFollowerAck / ackPre — role/replica test, match only raised, AdvanceHW, completion in pending order (NO test against LEO here: the reactor guards do it) -/
theorem c06_src_ApplyFollowerAck : pinned "ApplyFollowerAck" = some [
    "if s.Role != ch.RoleLeader || !s.IsReplica(ack.Follower) { return Decision{} }",
    "progress := s.Progress[ack.Follower]",
    "if ack.MatchOffset > progress.Match { progress.Match = ack.MatchOffset s.Progress[ack.Follower] = progress }",
    "s.AdvanceHW()",
    "return s.completeAppendWaiters(s.pendingAppendOrder())"
  ] := rfl

/-- model: matchesFence — key, generation, epoch, leader epoch, in-flight op -/
theorem c06_src_matchesInflightFence : pinned "matchesInflightFence" = some [
    "return fence.ChannelKey == s.Key && fence.Generation == s.Generation && fence.Epoch == s.Epoch && fence.LeaderEpoch == s.LeaderEpoch && s.InflightAppend != nil && s.InflightAppend.OpID == fence.OpID"
  ] := rfl

/-- model: failInflight / failLoop -/
theorem c06_src_failInflightAppend : pinned "failInflightAppend" = some [
    "if s.InflightAppend == nil { return Decision{} }",
    "replies := make([]Reply, 0, len(s.InflightAppend.WaiterOpIDs))",
    "completed := make([]ch.OpID, 0, len(s.InflightAppend.WaiterOpIDs))",
    "for _, opID := range s.InflightAppend.WaiterOpIDs { if _, ok := s.PendingAppends[opID]; !ok { continue } delete(s.PendingAppends, opID) completed = append(completed, opID) replies = append(replies, Reply{Kind: ReplyKindAppend, OpID: opID, Err: err}) }",
    "s.removePendingAppendOrder(completed)",
    "s.InflightAppend = nil",
    "return Decision{Replies: replies}"
  ] := rfl

/-- model: assignLoop / assignOne — Target = index of the LAST record of the waiter -/
theorem c06_src_assignInflightRecordsToWaiters : pinned "assignInflightRecordsToWaiters" = some [
    "if inflight == nil { return }",
    "next := 0",
    "for i, opID := range inflight.WaiterOpIDs { count := 0 if i < len(inflight.WaiterRecordCounts) { count = inflight.WaiterRecordCounts[i] } waiter := s.PendingAppends[opID] if waiter == nil { next += count continue } if count == 0 { count = len(waiter.Records) } end := next + len(waiter.Records) if count > 0 { end = next + count } if end > len(inflight.Records) { end = len(inflight.Records) } source := inflight.Records[next:end] if len(waiter.Records) == len(source) { assignStoredRecordMetadata(waiter.Records, source) } else { waiter.Records = cloneRecords(source) } if len(waiter.Records) > 0 { waiter.Target = waiter.Records[len(waiter.Records)-1].Index } next = end }"
  ] := rfl

/-- model: completeAppendWaiters / completeLoop — Target == 0 skipped, quorum waiters need HW ≥ Target -/
theorem c06_src_completeAppendWaiters : pinned "completeAppendWaiters" = some [
    "if len(s.PendingAppends) == 0 { return Decision{} }",
    "if len(order) == 0 { order = s.pendingAppendOrder() if len(order) == 0 { order = s.sortedPendingAppendOpIDs() } }",
    "replies := make([]Reply, 0, len(order))",
    "completed := make([]ch.OpID, 0, len(order))",
    "for _, opID := range order { waiter := s.PendingAppends[opID] if waiter == nil || waiter.Target == 0 { continue } if waiter.CommitMode == ch.CommitModeQuorum && s.HW < waiter.Target { continue } items := appendItemsForRecords(s.ID, waiter.Records, waiter.OmitResultPayload) reply := Reply{Kind: ReplyKindAppend, OpID: opID, AppendItems: items} if len(items) > 0 { reply.Append = items[0] } replies = append(replies, reply) delete(s.PendingAppends, opID) completed = append(completed, opID) }",
    "s.removePendingAppendOrder(completed)",
    "return Decision{Replies: replies}"
  ] := rfl

/-- model: validateMeta — five tests in this order -/
theorem c06_src_ValidateMeta : pinned "ValidateMeta" = some [
    "if meta.Key != \"\" && meta.Key != s.Key { return ch.ErrStaleMeta }",
    "if s.ID != (ch.ChannelID{}) && meta.ID != s.ID { return ch.ErrStaleMeta }",
    "if meta.Epoch < s.Epoch || (meta.Epoch == s.Epoch && meta.LeaderEpoch < s.LeaderEpoch) { return ch.ErrStaleMeta }",
    "if meta.Epoch == s.Epoch && meta.LeaderEpoch == s.LeaderEpoch && meta.Leader != s.Leader { return ch.ErrStaleMeta }",
    "if meta.MinISR <= 0 || meta.MinISR > len(meta.ISR) { return ch.ErrInvalidConfig }",
    "return nil"
  ] := rfl

/-- model: shouldClear -/
theorem c06_src_shouldClearAppendStateForMeta : pinned "shouldClearAppendStateForMeta" = some [
    "nextRole := ch.RoleFollower",
    "if meta.Leader == s.LocalNode { nextRole = ch.RoleLeader }",
    "return s.Epoch != meta.Epoch || s.LeaderEpoch != meta.LeaderEpoch || s.Leader != meta.Leader || s.Role != nextRole || s.Status != meta.Status"
  ] := rfl

/-- model: advanceHW — MinISR-th highest ISR match, only upwards -/
theorem c06_src_AdvanceHW : pinned "AdvanceHW" = some [
    "if s.MinISR <= 0 || len(s.ISR) < s.MinISR { return false }",
    "matches := make([]uint64, 0, len(s.ISR))",
    "for _, replica := range s.ISR { matches = append(matches, s.Progress[replica].Match) }",
    "sort.Slice(matches, func(i, j int) bool { return matches[i] > matches[j] })",
    "next := matches[s.MinISR-1]",
    "if next <= s.HW { return false }",
    "s.HW = next",
    "return true"
  ] := rfl

/-- model: installResult / installErr (WK/Model/C06_Reactor.lean) -/
theorem c06_src_handleQuorumInstallResult : pinned "handleQuorumInstallResult" = some [
    "rc := r.channels[result.Fence.ChannelKey]",
    "if rc == nil || rc.state == nil || rc.quorumInstall == nil { return }",
    "pending := rc.quorumInstall",
    "if result.Fence.Generation != rc.state.Generation || result.Fence.Epoch != rc.state.Epoch || result.Fence.LeaderEpoch != rc.state.LeaderEpoch || result.Fence.OpID != pending.opID { return }",
    "err := result.Err",
    "if err == nil { if result.QuorumInstall == nil || result.QuorumInstall.Installed.Authority != pending.authority.ID || result.QuorumInstall.Installed.HW > result.QuorumInstall.Installed.LEO { err = ch.ErrLogConflict } }",
    "rc.quorumInstall = nil",
    "if err != nil { rc.state.CommitReady = false r.completeFutures(pending.futures, Result{Err: err}) return }",
    "installed := result.QuorumInstall.Installed",
    "rc.quorumAuthority = pending.authority",
    "rc.state.LEO = installed.LEO",
    "rc.state.HW = installed.HW",
    "rc.state.CheckpointHW = max(rc.state.CheckpointHW, installed.HW)",
    "rc.state.Progress[r.cfg.LocalNode] = machine.ReplicaProgress{Match: installed.LEO}",
    "rc.state.CommitReady = !pending.authority.WriteFence.Set()",
    "rc.lifecycle.version = max(rc.lifecycle.version, installed.LEO)",
    "r.scheduleLifecycleFromState(rc, time.Now())",
    "r.completeFutures(pending.futures, Result{})"
  ] := rfl

/-- handleStoreCheckpointResult writes ChannelState in exactly one statement: CheckpointHW is
    raised to the result's HW when that is larger — no comparison with rc.state.HW
    (model: checkpointResult) -/
theorem c06_src_checkpointResultWrites : WK.Gen.C06.checkpointResultWrites = [
  "if result.Err == nil && result.StoreCheckpoint != nil && result.StoreCheckpoint.Checkpoint.HW > rc.state.CheckpointHW { rc.state.CheckpointHW = result.StoreCheckpoint.Checkpoint.HW }"
] := rfl

end WK.C06

import WK.Proofs.C33_Basic
/-
  C33: `lessIdentityKey` is a strict total order on identities, and the lookup
  order (`sortRoutes`) is the unique strictly ascending arrangement.
-/
namespace WK.C33

theorem keyLess_iff (a b : Key) : keyLess a b = true ↔
    a.uid < b.uid ∨ (a.uid = b.uid ∧ (a.sess < b.sess ∨ (a.sess = b.sess ∧
      (a.node < b.node ∨ (a.node = b.node ∧ a.boot < b.boot))))) := by
  unfold keyLess
  by_cases h1 : a.uid = b.uid
  · have hir : ¬ a.uid < b.uid := by rw [h1]; exact List.lt_irrefl _
    by_cases h2 : a.sess = b.sess
    · by_cases h3 : a.node = b.node
      · by_cases h4 : a.boot = b.boot
        · simp [h1, h2, h3, h4, List.lt_irrefl]
        · simp [h1, h2, h3, h4, List.lt_irrefl]
      · simp [h1, h2, h3, List.lt_irrefl]
    · simp [h1, h2, List.lt_irrefl]
  · simp [h1]

theorem keyLess_irrefl (a : Key) : keyLess a a = false := by
  cases h : keyLess a a with
  | false => rfl
  | true =>
    rw [keyLess_iff] at h
    rcases h with h | ⟨_, h | ⟨_, h | ⟨_, h⟩⟩⟩
    · exact absurd h (List.lt_irrefl _)
    all_goals omega

theorem keyLess_trans {a b c : Key} (h1 : keyLess a b = true) (h2 : keyLess b c = true) : keyLess a c = true := by
  rw [keyLess_iff] at *
  rcases h1 with h1 | ⟨e1, h1⟩ <;> rcases h2 with h2 | ⟨e2, h2⟩
  · exact Or.inl (List.lt_trans h1 h2)
  · exact Or.inl (e2 ▸ h1)
  · exact Or.inl (e1 ▸ h2)
  · right
    refine ⟨e1.trans e2, ?_⟩
    omega

theorem keyLess_total {a b : Key} (hne : a ≠ b) (h : keyLess a b = false) : keyLess b a = true := by
  have h' : ¬ (keyLess a b = true) := by simp [h]
  rw [keyLess_iff] at h' ⊢
  by_cases hu : a.uid = b.uid
  · right
    refine ⟨hu.symm, ?_⟩
    have hk : ¬ (a.sess = b.sess ∧ a.node = b.node ∧ a.boot = b.boot) := by
      rintro ⟨e1, e2, e3⟩
      apply hne
      cases a; cases b; simp_all
    simp only [hu, true_and, not_or] at h'
    omega
  · left
    have h1 : ¬ a.uid < b.uid := fun hlt => h' (Or.inl hlt)
    have hle : b.uid ≤ a.uid := List.not_lt.mp h1
    rcases Classical.em (b.uid < a.uid) with hlt | hnlt
    · exact hlt
    · exact absurd (List.le_antisymm (List.not_lt.mp hnlt) hle) hu

theorem keyLess_asymm {a b : Key} (h : keyLess a b = true) : keyLess b a = false := by
  cases h2 : keyLess b a with
  | false => rfl
  | true =>
    have := keyLess_trans h h2
    rw [keyLess_irrefl] at this
    cases this

/-- strictly ascending by identity -/
def RSorted (l : List Route) : Prop := l.Pairwise (fun a b => keyLess a.key b.key = true)

theorem mem_insertRoute {x r : Route} {l : List Route} : x ∈ insertRoute r l ↔ x = r ∨ x ∈ l := by
  induction l with
  | nil => simp [insertRoute]
  | cons y ys ih =>
    unfold insertRoute
    split
    · simp
    · simp [ih]; grind

theorem perm_insertRoute (r : Route) (l : List Route) : (insertRoute r l).Perm (r :: l) := by
  induction l with
  | nil => simp [insertRoute]
  | cons y ys ih =>
    unfold insertRoute
    split
    · exact List.Perm.refl _
    · exact (List.Perm.cons y ih).trans (List.Perm.swap r y ys)

theorem sorted_insertRoute {r : Route} {l : List Route} (h : RSorted l) (hne : ∀ x ∈ l, x.key ≠ r.key) :
    RSorted (insertRoute r l) := by
  induction l with
  | nil => simp [insertRoute, RSorted]
  | cons y ys ih =>
    unfold RSorted at h ⊢
    rw [List.pairwise_cons] at h
    unfold insertRoute
    split
    · rename_i hlt
      rw [List.pairwise_cons]
      refine ⟨?_, List.pairwise_cons.mpr h⟩
      intro x hx
      rcases List.mem_cons.mp hx with rfl | hx
      · exact hlt
      · exact keyLess_trans hlt (h.1 x hx)
    · rename_i hlt
      rw [List.pairwise_cons]
      refine ⟨?_, ih h.2 (fun x hx => hne x (List.mem_cons_of_mem _ hx))⟩
      intro x hx
      rcases mem_insertRoute.mp hx with rfl | hx
      · exact keyLess_total (fun e => hne y (by simp) e.symm) (by simpa using hlt)
      · exact h.1 x hx

theorem sortRoutes_perm (l : List Route) : (sortRoutes l).Perm l := by
  induction l with
  | nil => exact List.Perm.refl _
  | cons x xs ih => exact (perm_insertRoute x _).trans (List.Perm.cons x ih)

theorem sortRoutes_sorted {l : List Route} (h : (l.map Route.key).Nodup) : RSorted (sortRoutes l) := by
  induction l with
  | nil => simp [sortRoutes, RSorted]
  | cons x xs ih =>
    simp only [List.map_cons, List.nodup_cons, List.mem_map, not_exists, not_and] at h
    apply sorted_insertRoute (ih h.2)
    intro y hy
    exact h.1 y ((sortRoutes_perm xs).mem_iff.mp hy)

/-- A strictly ascending list is determined by its elements. -/
theorem rsorted_perm_eq : ∀ {l1 l2 : List Route}, RSorted l1 → RSorted l2 → l1.Perm l2 → l1 = l2
  | [], l2, _, _, hp => (List.Perm.nil_eq hp)
  | a :: l1, [], _, _, hp => absurd hp.symm (by simp)
  | a :: l1, b :: l2, h1, h2, hp => by
    unfold RSorted at h1 h2
    rw [List.pairwise_cons] at h1 h2
    have hab : a = b := by
      have ha : a ∈ b :: l2 := hp.mem_iff.mp (by simp)
      have hb : b ∈ a :: l1 := hp.mem_iff.mpr (by simp)
      rcases List.mem_cons.mp ha with e | ha'
      · exact e
      · rcases List.mem_cons.mp hb with e | hb'
        · exact e.symm
        · have x1 := h1.1 b hb'
          have x2 := h2.1 a ha'
          rw [keyLess_asymm x1] at x2
          cases x2
    subst hab
    congr 1
    exact rsorted_perm_eq h1.2 h2.2 (List.Perm.cons_inv hp)

/-- Go's map iteration order is irrelevant: any two enumerations of the same
    routes (distinct identities) sort to the same slice. -/
theorem sortRoutes_unique {l1 l2 : List Route} (hp : l1.Perm l2) (hnd : (l1.map Route.key).Nodup) :
    sortRoutes l1 = sortRoutes l2 := by
  have hnd2 : (l2.map Route.key).Nodup := (hp.map Route.key).nodup_iff.mp hnd
  exact rsorted_perm_eq (sortRoutes_sorted hnd) (sortRoutes_sorted hnd2)
    ((sortRoutes_perm l1).trans (hp.trans (sortRoutes_perm l2).symm))

end WK.C33

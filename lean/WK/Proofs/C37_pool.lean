import WK.Model.C37
/-
  C37 — invariants of the pool LTS (BoundedPool / BoundedBatchPool) and of the
  worker-queue LTS.
-/
set_option linter.unusedSimpArgs false
namespace WK.C37

/-! ### list facts about the log projections -/

section proj
variable (a b : List Ev)
@[simp] theorem runs_append : runs (a ++ b) = runs a ++ runs b := by simp [runs]
@[simp] theorem dones_append : dones (a ++ b) = dones a ++ dones b := by simp [dones]
@[simp] theorem cancels_append : cancels (a ++ b) = cancels a ++ cancels b := by simp [cancels]
@[simp] theorem accs_append : accs (a ++ b) = accs a ++ accs b := by simp [accs]
@[simp] theorem rejs_append : rejs (a ++ b) = rejs a ++ rejs b := by simp [rejs]
@[simp] theorem subs_append : subs (a ++ b) = subs a ++ subs b := by simp [subs]
@[simp] theorem enqs_append : enqs (a ++ b) = enqs a ++ enqs b := by simp [enqs]
@[simp] theorem fin_append : fin (a ++ b) = fin a ++ fin b := by simp [fin]
end proj

@[simp] theorem runs_nil : runs [] = [] := rfl
@[simp] theorem dones_nil : dones [] = [] := rfl
@[simp] theorem cancels_nil : cancels [] = [] := rfl
@[simp] theorem accs_nil : accs [] = [] := rfl
@[simp] theorem rejs_nil : rejs [] = [] := rfl
@[simp] theorem subs_nil : subs [] = [] := rfl
@[simp] theorem enqs_nil : enqs [] = [] := rfl
@[simp] theorem fin_nil : fin [] = [] := rfl

@[simp] theorem runs_cons (e : Ev) (l : List Ev) :
    runs (e :: l) = (match e with | .run t => [t] | _ => []) ++ runs l := by
  cases e <;> simp [runs]
@[simp] theorem dones_cons (e : Ev) (l : List Ev) :
    dones (e :: l) = (match e with | .done t => [t] | _ => []) ++ dones l := by
  cases e <;> simp [dones]
@[simp] theorem cancels_cons (e : Ev) (l : List Ev) :
    cancels (e :: l) = (match e with | .cancel t => [t] | _ => []) ++ cancels l := by
  cases e <;> simp [cancels]
@[simp] theorem accs_cons (e : Ev) (l : List Ev) :
    accs (e :: l) = (match e with | .acc t => [t] | _ => []) ++ accs l := by
  cases e <;> simp [accs]
@[simp] theorem rejs_cons (e : Ev) (l : List Ev) :
    rejs (e :: l) = (match e with | .rej t => [t] | _ => []) ++ rejs l := by
  cases e <;> simp [rejs]
@[simp] theorem subs_cons (e : Ev) (l : List Ev) :
    subs (e :: l) = (match e with | .sub t _ => [t] | _ => []) ++ subs l := by
  cases e <;> simp [subs]
@[simp] theorem enqs_cons (e : Ev) (l : List Ev) :
    enqs (e :: l) = (match e with | .enq t _ => [t] | _ => []) ++ enqs l := by
  cases e <;> simp [enqs]
@[simp] theorem fin_cons (e : Ev) (l : List Ev) :
    fin (e :: l) = (match e with | .run t => [t] | .cancel t => [t] | _ => []) ++ fin l := by
  cases e <;> simp [fin]

theorem preClose_append_of_mem {l : List Ev} (r : List Ev) (h : closeOk ∈ l) :
    preClose (l ++ r) = preClose l := by
  induction l with
  | nil => simp at h
  | cons e l ih =>
    by_cases he : e = closeOk
    · subst he; simp [preClose, List.takeWhile_cons]
    · have : closeOk ∈ l := by
        rcases List.mem_cons.mp h with h | h
        · exact absurd h.symm he
        · exact h
      have ih := ih this
      have hb : (e != closeOk) = true := by simp [he]
      simp only [preClose] at ih ⊢
      simp [List.takeWhile_cons, hb, ih]

theorem preClose_of_not_mem {l : List Ev} (h : closeOk ∉ l) : preClose (l ++ [closeOk]) = l := by
  induction l with
  | nil => simp [preClose, List.takeWhile_cons]
  | cons e l ih =>
    have he : e ≠ closeOk := fun h' => h (h' ▸ List.mem_cons_self)
    have : closeOk ∉ l := fun h' => h (List.mem_cons_of_mem _ h')
    have ih := ih this
    have hb : (e != closeOk) = true := by simp [he]
    simp only [preClose] at ih ⊢
    simp [List.takeWhile_cons, hb, ih]

theorem preClose_eq_self {l : List Ev} (h : closeOk ∉ l) : preClose l = l := by
  induction l with
  | nil => simp [preClose]
  | cons e l ih =>
    have he : e ≠ closeOk := fun h' => h (h' ▸ List.mem_cons_self)
    have : closeOk ∉ l := fun h' => h (List.mem_cons_of_mem _ h')
    have ih := ih this
    have hb : (e != closeOk) = true := by simp [he]
    simp only [preClose] at ih ⊢
    simp [List.takeWhile_cons, hb, ih]

/-! ### pool invariants -/

structure PoolInv (cfg : PoolCfg) (s : Pool) : Prop where
  locNone : ∀ t, (s.pc t = .idle ∨ s.pc t = .checked ∨ s.pc t = .rlocked ∨ s.pc t = .admitted ∨ s.pc t = .ret false) →
    s.loc t = .none
  locSome : ∀ t, (s.pc t = .enqd ∨ s.pc t = .ret true) → s.loc t ≠ .none
  finIff : ∀ t, t ∈ fin s.log ↔ (s.loc t = .running ∨ s.loc t = .done ∨ s.loc t = .cancelled)
  finNodup : (fin s.log).Nodup
  runIff : ∀ t, t ∈ runs s.log ↔ (s.loc t = .running ∨ s.loc t = .done)
  doneIff : ∀ t, t ∈ dones s.log ↔ s.loc t = .done
  cancelIff : ∀ t, t ∈ cancels s.log ↔ s.loc t = .cancelled
  enqIff : ∀ t, t ∈ enqs s.log ↔ s.loc t ≠ .none
  rejIff : ∀ t, t ∈ rejs s.log ↔ s.pc t = .ret false
  accIff : ∀ t, t ∈ accs s.log ↔ s.pc t = .ret true
  subIff : ∀ t, t ∈ subs s.log ↔ s.pc t ≠ .idle
  stopClosed : s.stop = true → s.closed = true
  dClosed : (s.d = .drain ∨ s.d = .holdD ∨ s.d = .cancelD ∨ s.d = .cancelX ∨ s.d = .exit) → s.closed = true
  heldD : ∀ t, s.loc t = .held → (s.d = .holdL ∨ s.d = .holdD ∨ s.d = .cancelD ∨ s.d = .cancelX)
  cancelModes : (s.d = .cancelD ∨ s.d = .cancelX) → cfg.cancel = true
  cancelXFix : s.d = .cancelX → cfg.cancelFix = false
  closedIff : s.closed = true ↔ (s.c = .stored ∨ s.c = .stopped ∨ s.c = .waiting ∨ s.c = .ret)
  writerNoReader : cfg.lock = true → s.writer = true → ∀ t, holdsR (s.pc t) = false
  writerIff : cfg.lock = true → (s.writer = true ↔ (s.c = .locked ∨ s.c = .stored ∨ s.c = .stopped))
  noAdmitted : cfg.lock = true → s.closed = true → ∀ t, s.pc t ≠ .admitted
  closeLog : closeOk ∈ s.log ↔ s.c = .ret

theorem PoolInv.init (cfg : PoolCfg) : PoolInv cfg Pool.init := by
  constructor <;> simp [Pool.init, closeOk]


theorem PoolInv.step {cfg : PoolCfg} {s s' : Pool} (h : PoolInv cfg s) (st : PoolStep cfg s s') :
    PoolInv cfg s' := by
  obtain ⟨h1, h2, h3, h4, h5, h6, h7, h8, h9, h10, h11, h12, h13, h14, h15, h16, h17, h18, h19, h20, h21⟩ := h
  cases st <;> constructor <;>
    simp only [upd_apply, runs_append, dones_append, cancels_append, accs_append, rejs_append, subs_append,
      enqs_append, fin_append, runs_cons, dones_cons, cancels_cons, accs_cons, rejs_cons, subs_cons, enqs_cons,
      fin_cons, runs_nil, dones_nil, cancels_nil, accs_nil, rejs_nil, subs_nil, enqs_nil, fin_nil,
      List.append_nil, List.mem_append, List.mem_singleton, List.mem_cons, closeOk, selectPc, holdsR] at * <;>
    first | grind | skip

end WK.C37

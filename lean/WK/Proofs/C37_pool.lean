import WK.Model.C37
/-
  C37 — invariants of the pool LTS (BoundedPool / BoundedBatchPool) and of the
  worker-queue LTS.
-/
set_option linter.unusedSimpArgs false
namespace WK.C37

/-! ### list facts about the log projections -/

section proj
variable (a b : List Ev)
@[simp] theorem runs_append : runs (a ++ b) = runs a ++ runs b := by simp [runs]
@[simp] theorem dones_append : dones (a ++ b) = dones a ++ dones b := by simp [dones]
@[simp] theorem cancels_append : cancels (a ++ b) = cancels a ++ cancels b := by simp [cancels]
@[simp] theorem accs_append : accs (a ++ b) = accs a ++ accs b := by simp [accs]
@[simp] theorem rejs_append : rejs (a ++ b) = rejs a ++ rejs b := by simp [rejs]
@[simp] theorem subs_append : subs (a ++ b) = subs a ++ subs b := by simp [subs]
@[simp] theorem enqs_append : enqs (a ++ b) = enqs a ++ enqs b := by simp [enqs]
@[simp] theorem fin_append : fin (a ++ b) = fin a ++ fin b := by simp [fin]
end proj

@[simp] theorem runs_nil : runs [] = [] := rfl
@[simp] theorem dones_nil : dones [] = [] := rfl
@[simp] theorem cancels_nil : cancels [] = [] := rfl
@[simp] theorem accs_nil : accs [] = [] := rfl
@[simp] theorem rejs_nil : rejs [] = [] := rfl
@[simp] theorem subs_nil : subs [] = [] := rfl
@[simp] theorem enqs_nil : enqs [] = [] := rfl
@[simp] theorem fin_nil : fin [] = [] := rfl

@[simp] theorem runs_cons (e : Ev) (l : List Ev) :
    runs (e :: l) = (match e with | .run t => [t] | _ => []) ++ runs l := by
  cases e <;> simp [runs]
@[simp] theorem dones_cons (e : Ev) (l : List Ev) :
    dones (e :: l) = (match e with | .done t => [t] | _ => []) ++ dones l := by
  cases e <;> simp [dones]
@[simp] theorem cancels_cons (e : Ev) (l : List Ev) :
    cancels (e :: l) = (match e with | .cancel t => [t] | _ => []) ++ cancels l := by
  cases e <;> simp [cancels]
@[simp] theorem accs_cons (e : Ev) (l : List Ev) :
    accs (e :: l) = (match e with | .acc t => [t] | _ => []) ++ accs l := by
  cases e <;> simp [accs]
@[simp] theorem rejs_cons (e : Ev) (l : List Ev) :
    rejs (e :: l) = (match e with | .rej t => [t] | _ => []) ++ rejs l := by
  cases e <;> simp [rejs]
@[simp] theorem subs_cons (e : Ev) (l : List Ev) :
    subs (e :: l) = (match e with | .sub t _ => [t] | _ => []) ++ subs l := by
  cases e <;> simp [subs]
@[simp] theorem enqs_cons (e : Ev) (l : List Ev) :
    enqs (e :: l) = (match e with | .enq t _ => [t] | _ => []) ++ enqs l := by
  cases e <;> simp [enqs]
@[simp] theorem fin_cons (e : Ev) (l : List Ev) :
    fin (e :: l) = (match e with | .run t => [t] | .cancel t => [t] | _ => []) ++ fin l := by
  cases e <;> simp [fin]

theorem preClose_append_of_mem {l : List Ev} (r : List Ev) (h : closeOk ∈ l) :
    preClose (l ++ r) = preClose l := by
  induction l with
  | nil => simp at h
  | cons e l ih =>
    by_cases he : e = closeOk
    · subst he; simp [preClose, List.takeWhile_cons]
    · have : closeOk ∈ l := by
        rcases List.mem_cons.mp h with h | h
        · exact absurd h.symm he
        · exact h
      have ih := ih this
      have hb : (e != closeOk) = true := by simp [he]
      simp only [preClose] at ih ⊢
      simp [List.takeWhile_cons, hb, ih]

theorem preClose_of_not_mem {l : List Ev} (h : closeOk ∉ l) : preClose (l ++ [closeOk]) = l := by
  induction l with
  | nil => simp [preClose, List.takeWhile_cons]
  | cons e l ih =>
    have he : e ≠ closeOk := fun h' => h (h' ▸ List.mem_cons_self)
    have : closeOk ∉ l := fun h' => h (List.mem_cons_of_mem _ h')
    have ih := ih this
    have hb : (e != closeOk) = true := by simp [he]
    simp only [preClose] at ih ⊢
    simp [List.takeWhile_cons, hb, ih]

theorem preClose_eq_self {l : List Ev} (h : closeOk ∉ l) : preClose l = l := by
  induction l with
  | nil => simp [preClose]
  | cons e l ih =>
    have he : e ≠ closeOk := fun h' => h (h' ▸ List.mem_cons_self)
    have : closeOk ∉ l := fun h' => h (List.mem_cons_of_mem _ h')
    have ih := ih this
    have hb : (e != closeOk) = true := by simp [he]
    simp only [preClose] at ih ⊢
    simp [List.takeWhile_cons, hb, ih]

/-! ### pool invariants -/

structure PoolInv (cfg : PoolCfg) (s : Pool) : Prop where
  locNone : ∀ t, (s.pc t = .idle ∨ s.pc t = .checked ∨ s.pc t = .rlocked ∨ s.pc t = .admitted ∨ s.pc t = .ret false) →
    s.loc t = .none
  locSome : ∀ t, (s.pc t = .enqd ∨ s.pc t = .ret true) → s.loc t ≠ .none
  finIff : ∀ t, t ∈ fin s.log ↔ (s.loc t = .running ∨ s.loc t = .done ∨ s.loc t = .cancelled)
  finNodup : (fin s.log).Nodup
  runIff : ∀ t, t ∈ runs s.log ↔ (s.loc t = .running ∨ s.loc t = .done)
  doneIff : ∀ t, t ∈ dones s.log ↔ s.loc t = .done
  cancelIff : ∀ t, t ∈ cancels s.log ↔ s.loc t = .cancelled
  enqIff : ∀ t, t ∈ enqs s.log ↔ s.loc t ≠ .none
  rejIff : ∀ t, t ∈ rejs s.log ↔ s.pc t = .ret false
  accIff : ∀ t, t ∈ accs s.log ↔ s.pc t = .ret true
  subIff : ∀ t, t ∈ subs s.log ↔ s.pc t ≠ .idle
  stopClosed : s.stop = true → s.closed = true
  dClosed : (s.d = .drain ∨ s.d = .holdD ∨ s.d = .cancelD ∨ s.d = .cancelX ∨ s.d = .exit) → s.closed = true
  heldD : ∀ t, s.loc t = .held → (s.d = .holdL ∨ s.d = .holdD ∨ s.d = .cancelD ∨ s.d = .cancelX)
  cancelModes : (s.d = .cancelD ∨ s.d = .cancelX) → cfg.cancel = true
  cancelXFix : s.d = .cancelX → cfg.cancelFix = false
  closedIff : s.closed = true ↔ (s.c = .stored ∨ s.c = .stopped ∨ s.c = .waiting ∨ s.c = .ret)
  writerNoReader : cfg.lock = true → s.writer = true → ∀ t, holdsR (s.pc t) = false
  writerIff : cfg.lock = true → (s.writer = true ↔ (s.c = .locked ∨ s.c = .stored ∨ s.c = .stopped))
  noAdmitted : cfg.lock = true → s.closed = true → ∀ t, s.pc t ≠ .admitted
  closeLog : closeOk ∈ s.log ↔ s.c = .ret

theorem PoolInv.init (cfg : PoolCfg) : PoolInv cfg Pool.init := by
  constructor <;> simp [Pool.init, closeOk]


local macro "pool_simp" : tactic => `(tactic|
  simp only [upd_apply, runs_append, dones_append, cancels_append, accs_append, rejs_append, subs_append,
    enqs_append, fin_append, runs_cons, dones_cons, cancels_cons, accs_cons, rejs_cons, subs_cons, enqs_cons,
    fin_cons, runs_nil, dones_nil, cancels_nil, accs_nil, rejs_nil, subs_nil, enqs_nil, fin_nil,
    List.append_nil, List.mem_append, List.mem_singleton, List.mem_cons, closeOk, selectPc, holdsR] at *)

theorem PoolInv.step_locNone {cfg : PoolCfg} {s s' : Pool} (h : PoolInv cfg s) (st : PoolStep cfg s s') :
    ∀ t, (s'.pc t = .idle ∨ s'.pc t = .checked ∨ s'.pc t = .rlocked ∨ s'.pc t = .admitted ∨ s'.pc t = .ret false) → s'.loc t = .none := by
  obtain ⟨h1, h2, h3, h4, h5, h6, h7, h8, h9, h10, h11, h12, h13, h14, h15, h16, h17, h18, h19, h20, h21⟩ := h
  cases st <;> pool_simp <;> grind

theorem PoolInv.step_locSome {cfg : PoolCfg} {s s' : Pool} (h : PoolInv cfg s) (st : PoolStep cfg s s') :
    ∀ t, (s'.pc t = .enqd ∨ s'.pc t = .ret true) → s'.loc t ≠ .none := by
  obtain ⟨h1, h2, h3, h4, h5, h6, h7, h8, h9, h10, h11, h12, h13, h14, h15, h16, h17, h18, h19, h20, h21⟩ := h
  cases st <;> pool_simp <;> grind

theorem PoolInv.step_finIff {cfg : PoolCfg} {s s' : Pool} (h : PoolInv cfg s) (st : PoolStep cfg s s') :
    ∀ t, t ∈ fin s'.log ↔ (s'.loc t = .running ∨ s'.loc t = .done ∨ s'.loc t = .cancelled) := by
  obtain ⟨h1, h2, h3, h4, h5, h6, h7, h8, h9, h10, h11, h12, h13, h14, h15, h16, h17, h18, h19, h20, h21⟩ := h
  cases st <;> pool_simp <;> grind

theorem PoolInv.step_finNodup {cfg : PoolCfg} {s s' : Pool} (h : PoolInv cfg s) (st : PoolStep cfg s s') :
    (fin s'.log).Nodup := by
  obtain ⟨h1, h2, h3, h4, h5, h6, h7, h8, h9, h10, h11, h12, h13, h14, h15, h16, h17, h18, h19, h20, h21⟩ := h
  cases st <;> pool_simp <;> grind

theorem PoolInv.step_runIff {cfg : PoolCfg} {s s' : Pool} (h : PoolInv cfg s) (st : PoolStep cfg s s') :
    ∀ t, t ∈ runs s'.log ↔ (s'.loc t = .running ∨ s'.loc t = .done) := by
  obtain ⟨h1, h2, h3, h4, h5, h6, h7, h8, h9, h10, h11, h12, h13, h14, h15, h16, h17, h18, h19, h20, h21⟩ := h
  cases st <;> pool_simp <;> grind

theorem PoolInv.step_doneIff {cfg : PoolCfg} {s s' : Pool} (h : PoolInv cfg s) (st : PoolStep cfg s s') :
    ∀ t, t ∈ dones s'.log ↔ s'.loc t = .done := by
  obtain ⟨h1, h2, h3, h4, h5, h6, h7, h8, h9, h10, h11, h12, h13, h14, h15, h16, h17, h18, h19, h20, h21⟩ := h
  cases st <;> pool_simp <;> grind

theorem PoolInv.step_cancelIff {cfg : PoolCfg} {s s' : Pool} (h : PoolInv cfg s) (st : PoolStep cfg s s') :
    ∀ t, t ∈ cancels s'.log ↔ s'.loc t = .cancelled := by
  obtain ⟨h1, h2, h3, h4, h5, h6, h7, h8, h9, h10, h11, h12, h13, h14, h15, h16, h17, h18, h19, h20, h21⟩ := h
  cases st <;> pool_simp <;> grind

theorem PoolInv.step_enqIff {cfg : PoolCfg} {s s' : Pool} (h : PoolInv cfg s) (st : PoolStep cfg s s') :
    ∀ t, t ∈ enqs s'.log ↔ s'.loc t ≠ .none := by
  obtain ⟨h1, h2, h3, h4, h5, h6, h7, h8, h9, h10, h11, h12, h13, h14, h15, h16, h17, h18, h19, h20, h21⟩ := h
  cases st <;> pool_simp <;> grind

theorem PoolInv.step_rejIff {cfg : PoolCfg} {s s' : Pool} (h : PoolInv cfg s) (st : PoolStep cfg s s') :
    ∀ t, t ∈ rejs s'.log ↔ s'.pc t = .ret false := by
  obtain ⟨h1, h2, h3, h4, h5, h6, h7, h8, h9, h10, h11, h12, h13, h14, h15, h16, h17, h18, h19, h20, h21⟩ := h
  cases st <;> pool_simp <;> grind

theorem PoolInv.step_accIff {cfg : PoolCfg} {s s' : Pool} (h : PoolInv cfg s) (st : PoolStep cfg s s') :
    ∀ t, t ∈ accs s'.log ↔ s'.pc t = .ret true := by
  obtain ⟨h1, h2, h3, h4, h5, h6, h7, h8, h9, h10, h11, h12, h13, h14, h15, h16, h17, h18, h19, h20, h21⟩ := h
  cases st <;> pool_simp <;> grind

theorem PoolInv.step_subIff {cfg : PoolCfg} {s s' : Pool} (h : PoolInv cfg s) (st : PoolStep cfg s s') :
    ∀ t, t ∈ subs s'.log ↔ s'.pc t ≠ .idle := by
  obtain ⟨h1, h2, h3, h4, h5, h6, h7, h8, h9, h10, h11, h12, h13, h14, h15, h16, h17, h18, h19, h20, h21⟩ := h
  cases st <;> pool_simp <;> grind

theorem PoolInv.step_stopClosed {cfg : PoolCfg} {s s' : Pool} (h : PoolInv cfg s) (st : PoolStep cfg s s') :
    s'.stop = true → s'.closed = true := by
  obtain ⟨h1, h2, h3, h4, h5, h6, h7, h8, h9, h10, h11, h12, h13, h14, h15, h16, h17, h18, h19, h20, h21⟩ := h
  cases st <;> pool_simp <;> grind

theorem PoolInv.step_dClosed {cfg : PoolCfg} {s s' : Pool} (h : PoolInv cfg s) (st : PoolStep cfg s s') :
    (s'.d = .drain ∨ s'.d = .holdD ∨ s'.d = .cancelD ∨ s'.d = .cancelX ∨ s'.d = .exit) → s'.closed = true := by
  obtain ⟨h1, h2, h3, h4, h5, h6, h7, h8, h9, h10, h11, h12, h13, h14, h15, h16, h17, h18, h19, h20, h21⟩ := h
  cases st <;> pool_simp <;> grind

theorem PoolInv.step_heldD {cfg : PoolCfg} {s s' : Pool} (h : PoolInv cfg s) (st : PoolStep cfg s s') :
    ∀ t, s'.loc t = .held → (s'.d = .holdL ∨ s'.d = .holdD ∨ s'.d = .cancelD ∨ s'.d = .cancelX) := by
  obtain ⟨h1, h2, h3, h4, h5, h6, h7, h8, h9, h10, h11, h12, h13, h14, h15, h16, h17, h18, h19, h20, h21⟩ := h
  cases st <;> pool_simp <;> grind

theorem PoolInv.step_cancelModes {cfg : PoolCfg} {s s' : Pool} (h : PoolInv cfg s) (st : PoolStep cfg s s') :
    (s'.d = .cancelD ∨ s'.d = .cancelX) → cfg.cancel = true := by
  obtain ⟨h1, h2, h3, h4, h5, h6, h7, h8, h9, h10, h11, h12, h13, h14, h15, h16, h17, h18, h19, h20, h21⟩ := h
  cases st <;> pool_simp <;> grind

theorem PoolInv.step_cancelXFix {cfg : PoolCfg} {s s' : Pool} (h : PoolInv cfg s) (st : PoolStep cfg s s') :
    s'.d = .cancelX → cfg.cancelFix = false := by
  obtain ⟨h1, h2, h3, h4, h5, h6, h7, h8, h9, h10, h11, h12, h13, h14, h15, h16, h17, h18, h19, h20, h21⟩ := h
  cases st <;> pool_simp <;> grind

theorem PoolInv.step_closedIff {cfg : PoolCfg} {s s' : Pool} (h : PoolInv cfg s) (st : PoolStep cfg s s') :
    s'.closed = true ↔ (s'.c = .stored ∨ s'.c = .stopped ∨ s'.c = .waiting ∨ s'.c = .ret) := by
  obtain ⟨h1, h2, h3, h4, h5, h6, h7, h8, h9, h10, h11, h12, h13, h14, h15, h16, h17, h18, h19, h20, h21⟩ := h
  cases st <;> pool_simp <;> grind

theorem PoolInv.step_writerNoReader {cfg : PoolCfg} {s s' : Pool} (h : PoolInv cfg s) (st : PoolStep cfg s s') :
    cfg.lock = true → s'.writer = true → ∀ t, holdsR (s'.pc t) = false := by
  obtain ⟨h1, h2, h3, h4, h5, h6, h7, h8, h9, h10, h11, h12, h13, h14, h15, h16, h17, h18, h19, h20, h21⟩ := h
  cases st <;> pool_simp <;> grind

theorem PoolInv.step_writerIff {cfg : PoolCfg} {s s' : Pool} (h : PoolInv cfg s) (st : PoolStep cfg s s') :
    cfg.lock = true → (s'.writer = true ↔ (s'.c = .locked ∨ s'.c = .stored ∨ s'.c = .stopped)) := by
  obtain ⟨h1, h2, h3, h4, h5, h6, h7, h8, h9, h10, h11, h12, h13, h14, h15, h16, h17, h18, h19, h20, h21⟩ := h
  cases st <;> pool_simp <;> grind

theorem PoolInv.step_noAdmitted {cfg : PoolCfg} {s s' : Pool} (h : PoolInv cfg s) (st : PoolStep cfg s s') :
    cfg.lock = true → s'.closed = true → ∀ t, s'.pc t ≠ .admitted := by
  obtain ⟨h1, h2, h3, h4, h5, h6, h7, h8, h9, h10, h11, h12, h13, h14, h15, h16, h17, h18, h19, h20, h21⟩ := h
  cases st <;> pool_simp <;> grind

theorem PoolInv.step_closeLog {cfg : PoolCfg} {s s' : Pool} (h : PoolInv cfg s) (st : PoolStep cfg s s') :
    closeOk ∈ s'.log ↔ s'.c = .ret := by
  obtain ⟨h1, h2, h3, h4, h5, h6, h7, h8, h9, h10, h11, h12, h13, h14, h15, h16, h17, h18, h19, h20, h21⟩ := h
  cases st <;> pool_simp <;> grind

theorem PoolInv.step {cfg : PoolCfg} {s s' : Pool} (h : PoolInv cfg s) (st : PoolStep cfg s s') :
    PoolInv cfg s' :=
  ⟨h.step_locNone st, h.step_locSome st, h.step_finIff st, h.step_finNodup st, h.step_runIff st, h.step_doneIff st, h.step_cancelIff st, h.step_enqIff st, h.step_rejIff st, h.step_accIff st, h.step_subIff st, h.step_stopClosed st, h.step_dClosed st, h.step_heldD st, h.step_cancelModes st, h.step_cancelXFix st, h.step_closedIff st, h.step_writerNoReader st, h.step_writerIff st, h.step_noAdmitted st, h.step_closeLog st⟩

theorem PoolReach.inv {cfg : PoolCfg} {s : Pool} (r : PoolReach cfg s) : PoolInv cfg s := by
  induction r with
  | init => exact PoolInv.init cfg
  | step _ st ih => exact ih.step st


/-! ### close waits (configurations with the admission lock, and cancel-on-close only with its repair) -/

def PoolCfg.Sound (cfg : PoolCfg) : Prop := cfg.lock = true ∧ (cfg.cancel = true → cfg.cancelFix = true)

structure PoolInvS (s : Pool) : Prop where
  exitEmpty : s.d = .exit → ∀ t, s.loc t ≠ .queued
  retDone : s.c = .ret → s.d = .exit ∧ ∀ t, s.loc t ≠ .inflight ∧ s.loc t ≠ .running
  waited : closeOk ∈ s.log → ∀ t, s.loc t ≠ .none → (t ∈ dones (preClose s.log) ∨ t ∈ cancels (preClose s.log))

theorem PoolStep.log_mono {cfg : PoolCfg} {s s' : Pool} (st : PoolStep cfg s s') : ∃ r, s'.log = s.log ++ r := by
  cases st <;> first | exact ⟨_, rfl⟩ | exact ⟨[], by simp⟩

theorem PoolInvS.init : PoolInvS Pool.init := by
  constructor <;> simp [Pool.init, closeOk]

theorem PoolInvS.step_exitEmpty {cfg : PoolCfg} {s s' : Pool} (hc : cfg.Sound) (h : PoolInv cfg s) (hs : PoolInvS s)
    (st : PoolStep cfg s s') : s'.d = .exit → ∀ t, s'.loc t ≠ .queued := by
  obtain ⟨h1, h2, h3, h4, h5, h6, h7, h8, h9, h10, h11, h12, h13, h14, h15, h16, h17, h18, h19, h20, h21⟩ := h
  obtain ⟨k1, k2, k3⟩ := hs
  obtain ⟨c1, c2⟩ := hc
  cases st <;> pool_simp <;> grind

theorem PoolInvS.step_retDone {cfg : PoolCfg} {s s' : Pool} (hc : cfg.Sound) (h : PoolInv cfg s) (hs : PoolInvS s)
    (st : PoolStep cfg s s') : s'.c = .ret → s'.d = .exit ∧ ∀ t, s'.loc t ≠ .inflight ∧ s'.loc t ≠ .running := by
  obtain ⟨h1, h2, h3, h4, h5, h6, h7, h8, h9, h10, h11, h12, h13, h14, h15, h16, h17, h18, h19, h20, h21⟩ := h
  obtain ⟨k1, k2, k3⟩ := hs
  obtain ⟨c1, c2⟩ := hc
  cases st <;> pool_simp <;> grind

/-- after Close returned no task is admitted any more -/
theorem PoolStep.loc_none_stable {cfg : PoolCfg} {s s' : Pool} (hc : cfg.Sound) (h : PoolInv cfg s)
    (st : PoolStep cfg s s') (hr : s.c = .ret) (t : Nat) : s'.loc t ≠ .none → s.loc t ≠ .none := by
  obtain ⟨h1, h2, h3, h4, h5, h6, h7, h8, h9, h10, h11, h12, h13, h14, h15, h16, h17, h18, h19, h20, h21⟩ := h
  obtain ⟨c1, c2⟩ := hc
  cases st <;> pool_simp <;> grind

theorem PoolStep.closeOk_new {cfg : PoolCfg} {s s' : Pool} (st : PoolStep cfg s s') (hn : closeOk ∉ s.log)
    (hin : closeOk ∈ s'.log) : s'.log = s.log ++ [closeOk] ∧ s.c = .waiting ∧ s.d = .exit ∧
      (∀ t, s.loc t ≠ .inflight ∧ s.loc t ≠ .running) ∧ s'.loc = s.loc := by
  cases st <;> simp_all [closeOk]

theorem PoolInvS.step_waited {cfg : PoolCfg} {s s' : Pool} (hc : cfg.Sound) (h : PoolInv cfg s) (hs : PoolInvS s)
    (st : PoolStep cfg s s') :
    closeOk ∈ s'.log → ∀ t, s'.loc t ≠ .none → (t ∈ dones (preClose s'.log) ∨ t ∈ cancels (preClose s'.log)) := by
  intro hin t ht
  by_cases hold : closeOk ∈ s.log
  · obtain ⟨r, hr⟩ := st.log_mono
    rw [hr, preClose_append_of_mem r hold]
    exact hs.waited hold t (st.loc_none_stable hc h (h.closeLog.mp hold) t ht)
  · obtain ⟨hl, _, hd, hrun, hloc⟩ := st.closeOk_new hold hin
    rw [hl, preClose_of_not_mem hold]
    rw [hloc] at ht
    have hq := hs.exitEmpty hd t
    have hh := h.heldD t
    have := hrun t
    rw [h.doneIff, h.cancelIff]
    cases hl' : s.loc t <;> simp_all

theorem PoolInvS.step {cfg : PoolCfg} {s s' : Pool} (hc : cfg.Sound) (h : PoolInv cfg s) (hs : PoolInvS s)
    (st : PoolStep cfg s s') : PoolInvS s' :=
  ⟨hs.step_exitEmpty hc h st, hs.step_retDone hc h st, hs.step_waited hc h st⟩

theorem PoolReach.invS {cfg : PoolCfg} {s : Pool} (hc : cfg.Sound) (r : PoolReach cfg s) : PoolInvS s := by
  induction r with
  | init => exact PoolInvS.init
  | step r st ih => exact ih.step hc r.inv st

end WK.C37

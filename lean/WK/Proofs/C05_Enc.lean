import WK.Spec.C05
/-
  C05 — encoder lemmas: every item of the preimage is self-delimiting, hence a
  list of items is injective item by item.  Generic in the item list; the side
  condition `itemOK` (kind of write matches kind of field) is decided on the
  generated list in the theorem file.
-/
namespace WK.C05
open WK.Gen.C05

/-! ### big-endian u64 -/

def beVal (bs : Bytes) : Nat := bs.foldl (fun a b => a * 256 + b.toNat) 0

theorem beVal_u64be (n : Nat) : beVal (u64be n) = n % 18446744073709551616 := by
  simp [beVal, u64be]
  omega

theorem u64be_length (n : Nat) : (u64be n).length = 8 := rfl

theorem u64be_inj {a b : Nat} (ha : a < 18446744073709551616) (hb : b < 18446744073709551616)
    (h : u64be a = u64be b) : a = b := by
  have := congrArg beVal h
  rw [beVal_u64be, beVal_u64be] at this
  omega

theorem u8_inj {a b : Nat} (ha : a < 256) (hb : b < 256) (h : UInt8.ofNat a = UInt8.ofNat b) : a = b := by
  have := congrArg UInt8.toNat h
  simp at this
  omega

/-! ### which field an item reads, and when the write matches the field's kind -/

def itemFld : Item → Option Fld
  | .tag _ => none
  | .u64 f => some f
  | .arr32 f => some f
  | .u8 f => some f
  | .flag f _ _ => some f
  | .lenBytes f => some f

def u64Fld : Fld → Bool
  | .eEpoch | .eTerm | .eFence | .eIndex | .ePrevTerm | .ePrevIndex | .rID | .rTimestamp => true
  | _ => false

def itemOK : Item → Bool
  | .tag _ => true
  | .u64 f => u64Fld f
  | .arr32 f => f == .eCommand || f == .ePrevDigest
  | .u8 f => f == .rSetting
  | .flag f t e => f == .rSyncOnce && t != e && decide (t < 256) && decide (e < 256)
  | .lenBytes f => f == .rFromUID || f == .rClientMsgNo || f == .rPayload

/-- the two (identity, record) pairs agree on field `f` (all three views) -/
def ValEq (e : Entry) (r : Rec) (e' : Entry) (r' : Rec) (f : Fld) : Prop :=
  natOf e r f = natOf e' r' f ∧ bytesOf e r f = bytesOf e' r' f ∧ boolOf e r f = boolOf e' r' f

theorem natOf_lt {e : Entry} {r : Rec} (hw : WF e r) {f : Fld} (hf : u64Fld f = true) :
    natOf e r f < 18446744073709551616 := by
  cases f <;> simp [u64Fld] at hf <;> simp only [natOf]
  · exact hw.epoch
  · exact hw.term
  · exact hw.fence
  · exact hw.index
  · exact hw.pterm
  · exact hw.pidx
  · exact hw.id
  · omega

theorem arr_len {e : Entry} {r : Rec} (hw : WF e r) {f : Fld} (hf : (f == .eCommand || f == .ePrevDigest) = true) :
    (bytesOf e r f).length = 32 := by
  cases f <;> simp at hf <;> simp only [bytesOf]
  · exact hw.cmd
  · exact hw.pdig

theorem bytes_len {e : Entry} {r : Rec} (hw : WF e r) {f : Fld}
    (hf : (f == .rFromUID || f == .rClientMsgNo || f == .rPayload) = true) :
    (bytesOf e r f).length < 18446744073709551616 := by
  cases f <;> simp at hf <;> simp only [bytesOf]
  · exact hw.frm
  · exact hw.cmn
  · exact hw.payload

/-- an item's bytes can be split off the front of the stream unambiguously -/
theorem item_split {e : Entry} {r : Rec} {e' : Entry} {r' : Rec} (hw : WF e r) (hw' : WF e' r')
    {it : Item} (hok : itemOK it = true) {x y : Bytes}
    (h : encItem e r it ++ x = encItem e' r' it ++ y) :
    encItem e r it = encItem e' r' it ∧ x = y := by
  cases it with
  | tag bs => exact ⟨rfl, List.append_cancel_left h⟩
  | u64 f => exact List.append_inj h (by simp [encItem, u64be_length])
  | arr32 f =>
    simp only [itemOK] at hok
    exact List.append_inj h (by simp only [encItem]; rw [arr_len hw hok, arr_len hw' hok])
  | u8 f => exact List.append_inj h (by simp [encItem])
  | flag f t el => exact List.append_inj h (by simp [encItem])
  | lenBytes f =>
    simp only [itemOK] at hok
    simp only [encItem, List.append_assoc] at h
    obtain ⟨h1, h2⟩ := List.append_inj h (by simp [u64be_length])
    have hl := u64be_inj (bytes_len hw hok) (bytes_len hw' hok) h1
    obtain ⟨h3, h4⟩ := List.append_inj h2 hl
    exact ⟨by simp only [encItem]; rw [h1, h3], h4⟩

/-- equal bytes of an item ⇒ the field it reads is equal -/
theorem item_inj {e : Entry} {r : Rec} {e' : Entry} {r' : Rec} (hw : WF e r) (hw' : WF e' r')
    {it : Item} (hok : itemOK it = true) {f : Fld} (hf : itemFld it = some f)
    (h : encItem e r it = encItem e' r' it) : ValEq e r e' r' f := by
  cases it with
  | tag bs => simp [itemFld] at hf
  | u64 g =>
    simp only [itemFld, Option.some.injEq] at hf; subst hf
    simp only [itemOK] at hok
    have := u64be_inj (natOf_lt hw hok) (natOf_lt hw' hok) h
    refine ⟨this, ?_, ?_⟩ <;> cases g <;> simp [u64Fld] at hok <;> rfl
  | arr32 g =>
    simp only [itemFld, Option.some.injEq] at hf; subst hf
    simp only [itemOK] at hok
    refine ⟨?_, h, ?_⟩ <;> cases g <;> simp at hok <;> rfl
  | u8 g =>
    simp only [itemFld, Option.some.injEq] at hf; subst hf
    simp only [itemOK, beq_iff_eq] at hok; subst hok
    simp only [encItem, natOf, List.cons.injEq, and_true] at h
    exact ⟨u8_inj hw.setting hw'.setting h, rfl, rfl⟩
  | flag g t el =>
    simp only [itemFld, Option.some.injEq] at hf; subst hf
    simp only [itemOK, Bool.and_eq_true, beq_iff_eq, bne_iff_ne, ne_eq, decide_eq_true_eq] at hok
    obtain ⟨⟨⟨hg, hne⟩, ht⟩, hel⟩ := hok
    subst hg
    simp only [encItem, boolOf, List.cons.injEq, and_true] at h
    refine ⟨rfl, rfl, ?_⟩
    simp only [boolOf]
    cases h1 : r.sync <;> cases h2 : r'.sync <;> simp [h1, h2] at h ⊢
    · exact hne (u8_inj hel ht h).symm
    · exact hne (u8_inj ht hel h)
  | lenBytes g =>
    simp only [itemFld, Option.some.injEq] at hf; subst hf
    simp only [itemOK] at hok
    simp only [encItem] at h
    obtain ⟨_, h2⟩ := List.append_inj h (by simp [u64be_length])
    refine ⟨?_, h2, ?_⟩ <;> cases g <;> simp at hok <;> rfl

/-- the whole stream is injective item by item -/
theorem preimageOf_inj {e : Entry} {r : Rec} {e' : Entry} {r' : Rec} (hw : WF e r) (hw' : WF e' r') :
    ∀ (items : List Item), (∀ it ∈ items, itemOK it = true) →
      preimageOf items e r = preimageOf items e' r' →
      ∀ it ∈ items, encItem e r it = encItem e' r' it := by
  intro items
  induction items with
  | nil => intro _ _ it hit; cases hit
  | cons a rest ih =>
    intro hok h it hit
    simp only [preimageOf, List.flatMap_cons] at h
    obtain ⟨h1, h2⟩ := item_split hw hw' (hok a (by simp)) h
    rcases List.mem_cons.mp hit with heq | hmem
    · subst heq; exact h1
    · exact ih (fun x hx => hok x (List.mem_cons_of_mem _ hx)) h2 it hmem

/-- fields covered by a well-kinded item of the list are equal when the streams are -/
theorem preimageOf_field {e : Entry} {r : Rec} {e' : Entry} {r' : Rec} (hw : WF e r) (hw' : WF e' r')
    (items : List Item) (hok : ∀ it ∈ items, itemOK it = true)
    (h : preimageOf items e r = preimageOf items e' r')
    (f : Fld) (hc : ∃ it ∈ items, itemFld it = some f) : ValEq e r e' r' f := by
  obtain ⟨it, hit, hf⟩ := hc
  exact item_inj hw hw' (hok it hit) hf (preimageOf_inj hw hw' items hok h it hit)

/-- under `itemOK`, what an item writes depends only on the hashed fields -/
theorem encItem_congr {e : Entry} {r : Rec} {e' : Entry} {r' : Rec} (h : SemEq e r e' r')
    {it : Item} (hok : itemOK it = true) : encItem e r it = encItem e' r' it := by
  obtain ⟨h1, h2, h3, h4, h5, h6, h7, h8, h9, h10, h11, h12, h13, h14, h15⟩ := h
  cases it with
  | tag bs => rfl
  | u64 f => cases f <;> simp [itemOK, u64Fld] at hok <;> simp [encItem, natOf, *]
  | arr32 f => cases f <;> simp [itemOK] at hok <;> simp [encItem, bytesOf, *]
  | u8 f => cases f <;> simp [itemOK] at hok <;> simp [encItem, natOf, *]
  | flag f t el =>
    cases f <;> simp [itemOK] at hok
    have hb : boolOf e r Fld.rSyncOnce = boolOf e' r' Fld.rSyncOnce := h11
    simp only [encItem, hb]
  | lenBytes f => cases f <;> simp [itemOK] at hok <;> simp [encItem, bytesOf, *]

theorem preimageOf_congr {e : Entry} {r : Rec} {e' : Entry} {r' : Rec} (h : SemEq e r e' r') :
    ∀ (items : List Item), (∀ it ∈ items, itemOK it = true) → preimageOf items e r = preimageOf items e' r' := by
  intro items
  induction items with
  | nil => intro _; rfl
  | cons a rest ih =>
    intro hok
    simp only [preimageOf, List.flatMap_cons]
    rw [encItem_congr h (hok a (by simp))]
    have := ih (fun x hx => hok x (List.mem_cons_of_mem _ hx))
    simp only [preimageOf] at this
    rw [this]

end WK.C05

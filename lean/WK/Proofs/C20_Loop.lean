import WK.Proofs.C20_Basic
/-
  C20 — the planner loop: invariant, plan validity, monotone approach to the
  targets, exit condition.  Generic in the planner's `pick`.
-/
namespace WK.C20

/-- what every planner's `pick` guarantees about the pair it returns -/
def PickOK (pick : Cnt → Option (Nat × Nat)) (tgt : Cnt) (ks ds : List Nat) : Prop :=
  ∀ cur d r, pick cur = some (d, r) →
    d ∈ ds ∧ d ∈ ks ∧ r ∈ ks ∧ cget tgt d < cget cur d ∧ cget cur r < cget tgt r

/-- loop invariant, relative to the assignment `a` with the moves so far applied -/
structure Inv (tgt : Cnt) (ks ds : List Nat) (a : List Nat) (st : PState) : Prop where
  own : ∀ s x, x ∈ oget st.owned s → a[x]? = some s
  nd : ∀ s, (oget st.owned s).Nodup
  cnt : ∀ s ∈ ks, cget st.cur s = a.count s
  full : ∀ s ∈ ds, cget tgt s < cget st.cur s → (oget st.owned s).length = cget st.cur s

/-- every count moves towards its target and never crosses it -/
def Toward (tgt c c' : Cnt) : Prop :=
  ∀ s, (cget tgt s ≤ cget c s → cget tgt s ≤ cget c' s ∧ cget c' s ≤ cget c s) ∧
       (cget c s ≤ cget tgt s → cget c s ≤ cget c' s ∧ cget c' s ≤ cget tgt s)

theorem Toward.refl (tgt c : Cnt) : Toward tgt c c := by
  intro s; exact ⟨fun h => ⟨h, Nat.le_refl _⟩, fun h => ⟨Nat.le_refl _, h⟩⟩

theorem Toward.trans {tgt c1 c2 c3 : Cnt} (h12 : Toward tgt c1 c2) (h23 : Toward tgt c2 c3) :
    Toward tgt c1 c3 := by
  intro s
  have a := h12 s
  have b := h23 s
  constructor
  · intro h
    have a1 := a.1 h
    have b1 := b.1 a1.1
    exact ⟨b1.1, by omega⟩
  · intro h
    have a2 := a.2 h
    have b2 := b.2 a2.2
    exact ⟨by omega, b2.2⟩

/-- the plan part of the post-condition -/
def PlanOK (ks : List Nat) (owned : Owned) (p : List Move) : Prop :=
  (p.map (·.hs)).Nodup ∧ ∀ m ∈ p, m.hs ∈ oget owned m.src ∧ m.src ≠ m.dst ∧ m.dst ∈ ks

theorem specApply_cons (a : List Nat) (m : Move) (p : List Move) :
    specApply a (m :: p) = specApply (a.set m.hs m.dst) p := rfl

theorem specApply_length (a : List Nat) (p : List Move) : (specApply a p).length = a.length := by
  induction p generalizing a with
  | nil => rfl
  | cons m p ih => rw [specApply_cons, ih]; simp

theorem planLoop_none (pick : Cnt → Option (Nat × Nat)) (fuel : Nat) (st : PState)
    (h : pick st.cur = none) : planLoop pick (fuel + 1) st = ([], st) := by
  simp [planLoop, h]

theorem planLoop_empty (pick : Cnt → Option (Nat × Nat)) (fuel : Nat) (st : PState) (d r : Nat)
    (h : pick st.cur = some (d, r)) (ho : oget st.owned d = []) :
    planLoop pick (fuel + 1) st = ([], st) := by
  simp [planLoop, h, ho]

/-- the state after one iteration -/
def stepState (st : PState) (d r : Nat) (rest : List Nat) : PState :=
  ⟨cset (cset st.cur d (cget st.cur d - 1)) r (cget (cset st.cur d (cget st.cur d - 1)) r + 1),
   oset st.owned d rest⟩

theorem planLoop_step (pick : Cnt → Option (Nat × Nat)) (fuel : Nat) (st : PState) (d r hs : Nat)
    (rest : List Nat) (h : pick st.cur = some (d, r)) (ho : oget st.owned d = hs :: rest) :
    planLoop pick (fuel + 1) st
      = (⟨hs, d, r⟩ :: (planLoop pick fuel (stepState st d r rest)).1,
         (planLoop pick fuel (stepState st d r rest)).2) := by
  simp [planLoop, h, ho, stepState]

theorem planLoop_spec {pick : Cnt → Option (Nat × Nat)} {tgt : Cnt} {ks ds : List Nat}
    (hp : PickOK pick tgt ks ds) :
    ∀ (fuel : Nat) (a : List Nat) (st : PState), Inv tgt ks ds a st → ownedTotal st.owned < fuel →
      Inv tgt ks ds (specApply a (planLoop pick fuel st).1) (planLoop pick fuel st).2
      ∧ pick (planLoop pick fuel st).2.cur = none
      ∧ PlanOK ks st.owned (planLoop pick fuel st).1
      ∧ Toward tgt st.cur (planLoop pick fuel st).2.cur := by
  intro fuel
  induction fuel with
  | zero => intro a st _ h; omega
  | succ fuel ih =>
    intro a st inv hfuel
    cases hpk : pick st.cur with
    | none =>
      rw [planLoop_none _ _ _ hpk]
      exact ⟨inv, hpk, ⟨by simp, by simp⟩, Toward.refl _ _⟩
    | some dr =>
      obtain ⟨d, r⟩ := dr
      obtain ⟨hdds, hdks, hrks, hd, hr⟩ := hp _ _ _ hpk
      have hdr : d ≠ r := by intro h; subst h; omega
      cases hown : oget st.owned d with
      | nil =>
        exfalso
        have := inv.full d hdds hd
        rw [hown] at this
        simp at this
        omega
      | cons hs rest =>
        rw [planLoop_step _ _ _ _ _ _ _ hpk hown]
        have hnd := inv.nd d
        rw [hown] at hnd
        have hnd' := List.nodup_cons.mp hnd
        have hhs : a[hs]? = some d := inv.own d hs (by rw [hown]; simp)
        have hlt : hs < a.length := by
          rcases Nat.lt_or_ge hs a.length with h | h
          · exact h
          · rw [List.getElem?_eq_none h] at hhs; cases hhs
        have hget : a[hs] = d := by
          rw [List.getElem?_eq_getElem hlt] at hhs; exact Option.some.inj hhs
        -- the state after this iteration
        let cur1 := cset st.cur d (cget st.cur d - 1)
        let cur2 := cset cur1 r (cget cur1 r + 1)
        let st1 : PState := stepState st d r rest
        have hst1c : st1.cur = cur2 := rfl
        have hst1o : st1.owned = oset st.owned d rest := rfl
        have hc2d : cget cur2 d = cget st.cur d - 1 := by
          show cget (cset cur1 r _) d = _
          rw [cget_cset_ne _ _ _ _ (Ne.symm hdr)]
          exact cget_cset_eq _ _ _
        have hc1r : cget cur1 r = cget st.cur r := cget_cset_ne _ _ _ _ hdr
        have hc2r : cget cur2 r = cget st.cur r + 1 := by
          show cget (cset cur1 r _) r = _
          rw [cget_cset_eq, hc1r]
        have hc2o : ∀ s, s ≠ d → s ≠ r → cget cur2 s = cget st.cur s := by
          intro s h1 h2
          show cget (cset cur1 r _) s = _
          rw [cget_cset_ne _ _ _ _ (Ne.symm h2)]
          exact cget_cset_ne _ _ _ _ (Ne.symm h1)
        have inv1 : Inv tgt ks ds (a.set hs r) st1 := by
          constructor
          · intro s x hx
            by_cases hsd : s = d
            · subst hsd
              have hx' : x ∈ rest := by simpa [st1, stepState, oget_oset_eq] using hx
              have hne : hs ≠ x := fun h => hnd'.1 (h ▸ hx')
              rw [List.getElem?_set_ne hne]
              exact inv.own s x (by rw [hown]; exact List.mem_cons_of_mem _ hx')
            · have hx' : x ∈ oget st.owned s := by
                simpa [st1, stepState, oget_oset_ne _ _ _ _ (Ne.symm hsd)] using hx
              have hxs := inv.own s x hx'
              have hne : hs ≠ x := by
                intro h; subst h; rw [hhs] at hxs; exact hsd (Option.some.inj hxs).symm
              rw [List.getElem?_set_ne hne]; exact hxs
          · intro s
            by_cases hsd : s = d
            · subst hsd; simpa [st1, stepState, oget_oset_eq] using hnd'.2
            · simpa [st1, stepState, oget_oset_ne _ _ _ _ (Ne.symm hsd)] using inv.nd s
          · intro s hs'
            have hcs := inv.cnt s hs'
            rw [List.count_set hlt, hget]
            show cget cur2 s = _
            by_cases hsd : s = d
            · subst hsd
              have hpos : 0 < List.count s a := by
                rw [← hcs]; omega
              rw [hc2d]; simp [Ne.symm hdr] ; omega
            · by_cases hsr : s = r
              · subst hsr
                rw [hc2r]; simp [Ne.symm hsd]; omega
              · rw [hc2o s hsd hsr]; simp [Ne.symm hsd, Ne.symm hsr]; omega
          · intro s hsds hgt
            have hgt' : cget tgt s < cget cur2 s := hgt
            by_cases hsd : s = d
            · subst hsd
              rw [hc2d] at hgt'
              have := inv.full s hsds (by omega)
              rw [hown] at this
              show (oget (oset st.owned s rest) s).length = cget cur2 s
              rw [oget_oset_eq, hc2d]
              simp at this; omega
            · by_cases hsr : s = r
              · subst hsr; rw [hc2r] at hgt'; omega
              · rw [hc2o s hsd hsr] at hgt'
                show (oget (oset st.owned d rest) s).length = cget cur2 s
                rw [oget_oset_ne _ _ _ _ (Ne.symm hsd), hc2o s hsd hsr]
                exact inv.full s hsds hgt'
        have htot : ownedTotal st1.owned < fuel := by
          have := ownedTotal_oset st.owned d rest
          rw [hown] at this
          simp at this
          show ownedTotal (oset st.owned d rest) < fuel
          omega
        obtain ⟨i1, i2, i3, i4⟩ := ih (a.set hs r) st1 inv1 htot
        refine ⟨?_, i2, ?_, ?_⟩
        · exact i1
        · obtain ⟨n1, n2⟩ := i3
          have hsub : ∀ m ∈ (planLoop pick fuel st1).1, m.hs ∈ oget st.owned m.src ∧ m.hs ≠ hs := by
            intro m hm
            have hm' := (n2 m hm).1
            by_cases hsd : m.src = d
            · rw [hsd] at hm' ⊢
              have hx' : m.hs ∈ rest := by simpa [st1, stepState, oget_oset_eq] using hm'
              exact ⟨by rw [hown]; exact List.mem_cons_of_mem _ hx', fun h => hnd'.1 (h ▸ hx')⟩
            · have hx' : m.hs ∈ oget st.owned m.src := by
                simpa [st1, stepState, oget_oset_ne _ _ _ _ (Ne.symm hsd)] using hm'
              refine ⟨hx', fun h => ?_⟩
              have := inv.own _ _ hx'
              rw [h, hhs] at this
              exact hsd (Option.some.inj this).symm
          constructor
          · simp only [List.map_cons]
            refine List.nodup_cons.mpr ⟨?_, n1⟩
            intro hmem
            obtain ⟨m, hm, hmhs⟩ := List.mem_map.mp hmem
            exact (hsub m hm).2 hmhs
          · intro m hm
            rcases List.mem_cons.mp hm with h | h
            · subst h
              exact ⟨by rw [hown]; simp, hdr, hrks⟩
            · exact ⟨(hsub m h).1, (n2 m h).2⟩
        · refine Toward.trans ?_ i4
          intro s
          show (cget tgt s ≤ cget st.cur s → cget tgt s ≤ cget cur2 s ∧ cget cur2 s ≤ cget st.cur s) ∧
            (cget st.cur s ≤ cget tgt s → cget st.cur s ≤ cget cur2 s ∧ cget cur2 s ≤ cget tgt s)
          by_cases hsd : s = d
          · subst hsd; rw [hc2d]; omega
          · by_cases hsr : s = r
            · subst hsr; rw [hc2r]; omega
            · rw [hc2o s hsd hsr]; omega

end WK.C20

import WK.Spec.C18
import WK.Gen.C18
/-
  C18 — the batch-loop theory over an ARBITRARY `mutate` function satisfying
  `MutateContract` (Noop/Rejected ⇒ candidate unchanged; Changed ⇒ revision + 1;
  Updated ⇒ revision kept; nothing but the candidate, the index and the command is
  read).  The registered theorems of `WK.Theorems.C18` are corollaries for
  `mutate handler valid`; the loop comparisons are the regenerated `loopFacts`.
-/
namespace WK.C18.M
open WK.C18 WK.Gen.C18

variable {β κ : Type} (mutate : State β → Nat → κ → State β × Outcome)

/-- `if next.Revision != 0 && entry.Index > next.AppliedRaftIndex { next.AppliedRaftIndex = entry.Index }` -/
def bump (n : State β) (idx : Nat) : State β := if n.rev ≠ 0 ∧ idx > n.applied then { n with applied := idx } else n

/-- the loop iteration with the regenerated comparisons, in Prop form -/
theorem step_eq (current : State β) (acc : State β × List Result) (e : Entry κ) :
    stepEntryM loopFacts mutate current acc e =
      if current.rev ≠ 0 ∧ e.idx ≤ acc.1.applied then
        (acc.1, acc.2 ++ [⟨.noop reasonAlreadyApplied, acc.1.rev, acc.1.applied⟩])
      else
        (bump (mutate acc.1 e.idx e.cmd).1 e.idx,
         acc.2 ++ [⟨(mutate acc.1 e.idx e.cmd).2, (bump (mutate acc.1 e.idx e.cmd).1 e.idx).rev,
           if (bump (mutate acc.1 e.idx e.cmd).1 e.idx).rev = 0 ∧ (mutate acc.1 e.idx e.cmd).2.isRejected
             then e.idx else (bump (mutate acc.1 e.idx e.cmd).1 e.idx).applied⟩]) := by
  simp only [stepEntryM, guardFires, raises, loopFacts, bump]
  by_cases hg : current.rev ≠ 0 ∧ e.idx ≤ acc.1.applied
  · simp [hg.1, hg.2]
  · by_cases h1 : current.rev = 0
    · simp [h1]
    · have h3 : ¬ e.idx ≤ acc.1.applied := fun hh => hg ⟨h1, hh⟩
      simp [h1, h3]

theorem step_acc (F : LoopFacts) (cur s : State β) (acc : List Result) (e : Entry κ) :
    stepEntryM F mutate cur (s, acc) e =
      ((stepEntryM F mutate cur (s, []) e).1, acc ++ (stepEntryM F mutate cur (s, []) e).2) := by
  simp only [stepEntryM]
  split <;> simp

theorem bump_rev (n : State β) (i : Nat) : (bump n i).rev = n.rev := by
  unfold bump; split <;> rfl

theorem bump_zero (n : State β) (i : Nat) (h : n.rev = 0) : bump n i = n := by
  unfold bump; simp [h]

theorem bump_applied (n : State β) (i : Nat) (h : n.rev ≠ 0) :
    n.applied ≤ (bump n i).applied ∧ i ≤ (bump n i).applied ∧ ((bump n i).applied = n.applied ∨ (bump n i).applied = i) := by
  unfold bump
  by_cases hb : i > n.applied
  · simp [h, hb]; omega
  · simp [hb]; omega

theorem mutate_init (hmc : MutateContract mutate) (s : State β) (idx : Nat) (c : κ) (h : s.rev ≠ 0) :
    (mutate s idx c).1.rev ≠ 0 ∧ (mutate s idx c).1.applied = s.applied := by
  rcases hmc s idx c with ⟨h1, _⟩ | ⟨cand, hh⟩ | ⟨cand, hh⟩ | ⟨body, hr, _⟩
  · rw [h1]; exact ⟨h, rfl⟩
  · rw [hh]; exact ⟨by simp, rfl⟩
  · rw [hh]; exact ⟨h, rfl⟩
  · exact absurd hr h

theorem run_acc (F : LoopFacts) (cur : State β) (es : List (Entry κ)) : ∀ (s : State β) (acc : List Result),
    runEntriesM F mutate cur es (s, acc) =
      ((runEntriesM F mutate cur es (s, [])).1, acc ++ (runEntriesM F mutate cur es (s, [])).2) := by
  induction es with
  | nil => intro s acc; simp [runEntriesM]
  | cons e rest ih =>
    intro s acc
    simp only [runEntriesM, List.foldl_cons] at ih ⊢
    rw [step_acc mutate F cur s acc e]
    rw [ih (stepEntryM F mutate cur (s, []) e).1 (acc ++ (stepEntryM F mutate cur (s, []) e).2)]
    have h2 : stepEntryM F mutate cur (s, []) e =
        ((stepEntryM F mutate cur (s, []) e).1, (stepEntryM F mutate cur (s, []) e).2) := rfl
    rw [h2, ih (stepEntryM F mutate cur (s, []) e).1 (stepEntryM F mutate cur (s, []) e).2]
    simp [List.append_assoc]

theorem run_append (F : LoopFacts) (cur : State β) (b1 b2 : List (Entry κ)) (a : State β × List Result) :
    runEntriesM F mutate cur (b1 ++ b2) a = runEntriesM F mutate cur b2 (runEntriesM F mutate cur b1 a) := by
  simp [runEntriesM, List.foldl_append]

/-- the state after one iteration -/
theorem step_fst (cur s : State β) (acc : List Result) (e : Entry κ) :
    (stepEntryM loopFacts mutate cur (s, acc) e).1 =
      if cur.rev ≠ 0 ∧ e.idx ≤ s.applied then s else bump (mutate s e.idx e.cmd).1 e.idx := by
  rw [step_eq]; split <;> rfl

theorem step_state (hmc : MutateContract mutate) (cur s : State β) (acc : List Result) (e : Entry κ) :
    (s.rev ≠ 0 → (stepEntryM loopFacts mutate cur (s, acc) e).1.rev ≠ 0 ∧
        s.applied ≤ (stepEntryM loopFacts mutate cur (s, acc) e).1.applied ∧
        ((stepEntryM loopFacts mutate cur (s, acc) e).1.applied = s.applied ∨
         (stepEntryM loopFacts mutate cur (s, acc) e).1.applied = e.idx)) ∧
    ((stepEntryM loopFacts mutate cur (s, acc) e).1.rev ≠ 0 → e.idx ≤ (stepEntryM loopFacts mutate cur (s, acc) e).1.applied) := by
  rw [step_fst]
  by_cases hg : cur.rev ≠ 0 ∧ e.idx ≤ s.applied
  · rw [if_pos hg]
    exact ⟨fun h => ⟨h, Nat.le_refl _, Or.inl rfl⟩, fun _ => hg.2⟩
  · rw [if_neg hg]
    refine ⟨fun h => ?_, fun h => ?_⟩
    · have hm := mutate_init mutate hmc s e.idx e.cmd h
      have hb := bump_applied (mutate s e.idx e.cmd).1 e.idx hm.1
      rw [bump_rev]
      refine ⟨hm.1, ?_, ?_⟩
      · rw [← hm.2]; exact hb.1
      · rw [← hm.2]; exact hb.2.2
    · rw [bump_rev] at h
      exact (bump_applied _ e.idx h).2.1

theorem run_rev_ne_zero (hmc : MutateContract mutate) (cur : State β) (es : List (Entry κ)) : ∀ (s : State β) (acc : List Result), s.rev ≠ 0 →
    (runEntriesM loopFacts mutate cur es (s, acc)).1.rev ≠ 0 := by
  induction es with
  | nil => intro s acc h; exact h
  | cons e rest ih =>
    intro s acc h
    simp only [runEntriesM, List.foldl_cons] at ih ⊢
    have := ((step_state mutate hmc cur s acc e).1 h).1
    exact ih _ _ this

theorem step_cur_irrel (cur cur' : State β) (h : cur.rev ≠ 0) (h' : cur'.rev ≠ 0) (a : State β × List Result) (e : Entry κ) :
    stepEntryM loopFacts mutate cur a e = stepEntryM loopFacts mutate cur' a e := by
  rw [step_eq, step_eq]; simp [h, h']

theorem run_cur_irrel (cur cur' : State β) (h : cur.rev ≠ 0) (h' : cur'.rev ≠ 0) (es : List (Entry κ)) (a : State β × List Result) :
    runEntriesM loopFacts mutate cur es a = runEntriesM loopFacts mutate cur' es a := by
  simp only [runEntriesM]
  congr 1
  funext a e
  exact step_cur_irrel mutate cur cur' h h' a e

theorem step_uninit (hmc : MutateContract mutate) (hpre : UninitContract mutate) (cur s : State β) (hc : cur.rev = 0) (hs : s.rev = 0) (acc : List Result) (e : Entry κ) :
    ((stepEntryM loopFacts mutate cur (s, acc) e).1.rev = 0 → (stepEntryM loopFacts mutate cur (s, acc) e).1 = s) ∧
    ((stepEntryM loopFacts mutate cur (s, acc) e).1.rev ≠ 0 → (stepEntryM loopFacts mutate cur (s, acc) e).1.applied = e.idx) := by
  rw [step_fst]
  have hg : ¬ (cur.rev ≠ 0 ∧ e.idx ≤ s.applied) := fun h => h.1 hc
  rw [if_neg hg]
  rcases hpre s e.idx e.cmd hs with h | ⟨h1, h2⟩
  · rw [h, bump_zero s e.idx hs]
    exact ⟨fun _ => rfl, fun h => absurd hs h⟩
  · refine ⟨fun h => ?_, fun _ => ?_⟩
    · rw [bump_rev] at h; exact absurd h h1
    · rcases (bump_applied _ e.idx h1).2.2 with hb | hb
      · rw [hb, h2]
      · exact hb

theorem run_uninit (hmc : MutateContract mutate) (hpre : UninitContract mutate) (cur : State β) (hc : cur.rev = 0) (N : Nat) (es : List (Entry κ)) :
    ∀ (s : State β) (acc : List Result), (s.rev ≠ 0 → s.applied < N) → (∀ e ∈ es, e.idx < N) →
      ((runEntriesM loopFacts mutate cur es (s, acc)).1.rev = 0 → (runEntriesM loopFacts mutate cur es (s, acc)).1 = s) ∧
      ((runEntriesM loopFacts mutate cur es (s, acc)).1.rev ≠ 0 → (runEntriesM loopFacts mutate cur es (s, acc)).1.applied < N) := by
  induction es with
  | nil => intro s acc hb _; exact ⟨fun _ => rfl, hb⟩
  | cons e rest ih =>
    intro s acc hb hN
    simp only [runEntriesM, List.foldl_cons] at ih ⊢
    have hrest : ∀ x ∈ rest, x.idx < N := fun x hx => hN x (by simp [hx])
    have he : e.idx < N := hN e (by simp)
    have h2 : stepEntryM loopFacts mutate cur (s, acc) e =
        ((stepEntryM loopFacts mutate cur (s, acc) e).1, (stepEntryM loopFacts mutate cur (s, acc) e).2) := rfl
    rw [h2]
    by_cases hs : s.rev = 0
    · have hu := step_uninit mutate hmc hpre cur s hc hs acc e
      have hb1 : (stepEntryM loopFacts mutate cur (s, acc) e).1.rev ≠ 0 →
          (stepEntryM loopFacts mutate cur (s, acc) e).1.applied < N := fun h => by rw [hu.2 h]; exact he
      have := ih (stepEntryM loopFacts mutate cur (s, acc) e).1 (stepEntryM loopFacts mutate cur (s, acc) e).2 hb1 hrest
      refine ⟨fun hf => ?_, this.2⟩
      have h1 := this.1 hf
      rw [h1] at hf ⊢
      exact hu.1 hf
    · have hst := (step_state mutate hmc cur s acc e).1 hs
      have hb1 : (stepEntryM loopFacts mutate cur (s, acc) e).1.rev ≠ 0 →
          (stepEntryM loopFacts mutate cur (s, acc) e).1.applied < N := fun _ => by
        rcases hst.2.2 with h | h
        · rw [h]; exact hb hs
        · rw [h]; exact he
      have := ih (stepEntryM loopFacts mutate cur (s, acc) e).1 (stepEntryM loopFacts mutate cur (s, acc) e).2 hb1 hrest
      refine ⟨fun hf => ?_, this.2⟩
      exact absurd hf (run_rev_ne_zero mutate hmc cur rest _ _ hst.1)

theorem run_guard_irrel (hmc : MutateContract mutate) (cur cur' : State β) (hc : cur.rev = 0) (es : List (Entry κ)) :
    ∀ (s : State β) (acc : List Result), s.rev ≠ 0 → StrictIdx es → (∀ e ∈ es, s.applied < e.idx) →
      runEntriesM loopFacts mutate cur es (s, acc) = runEntriesM loopFacts mutate cur' es (s, acc) := by
  induction es with
  | nil => intro s acc _ _ _; rfl
  | cons e rest ih =>
    intro s acc hs hst hlt
    simp only [runEntriesM, List.foldl_cons] at ih ⊢
    have he : s.applied < e.idx := hlt e (by simp)
    have hstep : stepEntryM loopFacts mutate cur (s, acc) e = stepEntryM loopFacts mutate cur' (s, acc) e := by
      have hng : ¬ e.idx ≤ s.applied := by omega
      rw [step_eq, step_eq]; simp [hc, hng]
    rw [← hstep]
    have hss := (step_state mutate hmc cur s acc e).1 hs
    have hp := List.pairwise_cons.mp hst
    have h2 : stepEntryM loopFacts mutate cur (s, acc) e =
        ((stepEntryM loopFacts mutate cur (s, acc) e).1, (stepEntryM loopFacts mutate cur (s, acc) e).2) := rfl
    rw [h2]
    apply ih _ _ hss.1 hp.2
    intro x hx
    have hex : e.idx < x.idx := hp.1 x hx
    rcases hss.2.2 with h | h
    · rw [h]; omega
    · rw [h]; exact hex

theorem idx_lt_bound (e : Entry κ) : ∀ (l : List (Entry κ)) (m : Nat), e ∈ l → e.idx < l.foldl (fun m e => max m (e.idx + 1)) m := by
  have mono : ∀ (l : List (Entry κ)) (m : Nat), m ≤ l.foldl (fun m e => max m (e.idx + 1)) m := by
    intro l; induction l with
    | nil => intro m; exact Nat.le_refl _
    | cons y ys ih2 => intro m; simp only [List.foldl_cons]; exact Nat.le_trans (Nat.le_max_left _ _) (ih2 _)
  intro l
  induction l with
  | nil => intro m h; cases h
  | cons x xs ih =>
    intro m h
    simp only [List.foldl_cons]
    rcases List.mem_cons.mp h with h | h
    · subst h
      have := mono xs (max m (e.idx + 1))
      have h3 : e.idx + 1 ≤ max m (e.idx + 1) := Nat.le_max_right _ _
      omega
    · exact ih _ h

/-- **Batch-partition transparency**: if the machine is initialised, or the
    indices are strictly increasing (a committed Raft log), applying `b₁` and then
    `b₂` gives the same state machine (published state and state file) and the same
    per-entry results as applying `b₁ ++ b₂` in one batch.  (The replay guard reads
    the batch-START revision but the RUNNING applied index; this is harmless exactly
    under that hypothesis — see the decided example below.) -/
theorem c18_batch_append (hmc : MutateContract mutate) (hpre : UninitContract mutate) (sm : SM β) (b1 b2 : List (Entry κ))
    (h : sm.published.rev ≠ 0 ∨ StrictIdx (b1 ++ b2)) :
    (applyBatchM loopFacts mutate (applyBatchM loopFacts mutate sm b1).1 b2).1 =
      (applyBatchM loopFacts mutate sm (b1 ++ b2)).1 ∧
    (applyBatchM loopFacts mutate sm b1).2 ++
      (applyBatchM loopFacts mutate (applyBatchM loopFacts mutate sm b1).1 b2).2 =
      (applyBatchM loopFacts mutate sm (b1 ++ b2)).2 := by
  have hsplit : runEntriesM loopFacts mutate sm.published (b1 ++ b2) (sm.published, []) =
      runEntriesM loopFacts mutate sm.published b2 (runEntriesM loopFacts mutate sm.published b1 (sm.published, [])) :=
    run_append mutate _ _ b1 b2 _
  generalize hr1 : runEntriesM loopFacts mutate sm.published b1 (sm.published, []) = r1 at hsplit
  obtain ⟨q, res1⟩ := r1
  by_cases hq : q.rev = 0
  · have hp0 : sm.published.rev = 0 := by
      by_cases hp : sm.published.rev = 0
      · exact hp
      · have := run_rev_ne_zero mutate hmc sm.published b1 sm.published [] hp
        rw [hr1] at this; exact absurd hq this
    have hqp : q = sm.published := by
      have := (run_uninit mutate hmc hpre sm.published hp0 (b1.foldl (fun m e => max m (e.idx + 1)) 0) b1 sm.published []
        (fun h => absurd hp0 h) (fun e he => idx_lt_bound e b1 0 he)).1
      rw [hr1] at this
      exact this hq
    have h1 : applyBatchM loopFacts mutate sm b1 = (sm, res1) := by
      simp [applyBatchM, hr1, hq]
    rw [h1]
    simp only [applyBatchM]
    rw [hsplit, hqp, run_acc mutate loopFacts sm.published b2 sm.published res1]
    split <;> simp
  · have h1 : applyBatchM loopFacts mutate sm b1 = ({ published := q, file := some q }, res1) := by
      simp [applyBatchM, hr1, hq]
    rw [h1]
    have hsame : runEntriesM loopFacts mutate q b2 (q, []) = runEntriesM loopFacts mutate sm.published b2 (q, []) := by
      by_cases hp : sm.published.rev = 0
      · have hst : StrictIdx (b1 ++ b2) := by
          rcases h with h | h
          · exact absurd hp h
          · exact h
        have hpa := List.pairwise_append.mp hst
        symm
        apply run_guard_irrel mutate hmc sm.published q hp b2 q [] hq hpa.2.1
        intro e he
        have := (run_uninit mutate hmc hpre sm.published hp e.idx b1 sm.published [] (fun h => absurd hp h)
          (fun x hx => hpa.2.2 x hx e he)).2
        rw [hr1] at this
        exact this hq
      · exact run_cur_irrel mutate q sm.published hq hp b2 _
    have hne : (runEntriesM loopFacts mutate sm.published b2 (q, [])).1.rev ≠ 0 :=
      run_rev_ne_zero mutate hmc _ b2 q [] hq
    simp only [applyBatchM]
    rw [hsplit, run_acc mutate loopFacts sm.published b2 q res1, hsame]
    simp [hne]

/-- **Replay is a no-op**: on an initialised machine every entry at or below the
    applied index is answered `Noop already_applied` with the current revision and
    applied index, and the state (published and saved) is exactly the old one. -/
theorem c18_replay_noop (hmc : MutateContract mutate) (sm : SM β) (es : List (Entry κ)) (hrev : sm.published.rev ≠ 0)
    (hidx : ∀ e ∈ es, e.idx ≤ sm.published.applied) :
    applyBatchM loopFacts mutate sm es =
      ({ published := sm.published, file := some sm.published },
       es.map (fun _ => ⟨.noop reasonAlreadyApplied, sm.published.rev, sm.published.applied⟩)) := by
  have : ∀ (l : List (Entry κ)) (acc : List Result), (∀ e ∈ l, e.idx ≤ sm.published.applied) →
      runEntriesM loopFacts mutate sm.published l (sm.published, acc) =
        (sm.published, acc ++ l.map (fun _ => ⟨.noop reasonAlreadyApplied, sm.published.rev, sm.published.applied⟩)) := by
    intro l
    induction l with
    | nil => intro acc _; simp [runEntriesM]
    | cons e rest ih =>
      intro acc hl
      simp only [runEntriesM, List.foldl_cons] at ih ⊢
      have he : e.idx ≤ sm.published.applied := hl e (by simp)
      rw [step_eq, if_pos ⟨hrev, he⟩]
      rw [ih _ (fun x hx => hl x (by simp [hx]))]
      simp [List.append_assoc]
  simp [applyBatchM, this es [] hidx, hrev]


theorem run_applied_covers (hmc : MutateContract mutate) (cur : State β) (es : List (Entry κ)) : ∀ (s : State β) (acc : List Result), StrictIdx es →
    (runEntriesM loopFacts mutate cur es (s, acc)).1.rev ≠ 0 →
      (∀ e ∈ es, e.idx ≤ (runEntriesM loopFacts mutate cur es (s, acc)).1.applied) ∧
      (s.rev ≠ 0 → s.applied ≤ (runEntriesM loopFacts mutate cur es (s, acc)).1.applied) := by
  induction es with
  | nil => intro s acc _ _; exact ⟨fun e he => by simp at he, fun _ => Nat.le_refl _⟩
  | cons e rest ih =>
    intro s acc hst
    simp only [runEntriesM, List.foldl_cons] at ih ⊢
    have h2 : stepEntryM loopFacts mutate cur (s, acc) e =
        ((stepEntryM loopFacts mutate cur (s, acc) e).1, (stepEntryM loopFacts mutate cur (s, acc) e).2) := rfl
    rw [h2]
    intro hf
    have hp := List.pairwise_cons.mp hst
    have hss := step_state mutate hmc cur s acc e
    have hi := ih (stepEntryM loopFacts mutate cur (s, acc) e).1 (stepEntryM loopFacts mutate cur (s, acc) e).2 hp.2 hf
    refine ⟨?_, ?_⟩
    · intro x hx
      rcases List.mem_cons.mp hx with hx | hx
      · subst hx
        by_cases h1 : (stepEntryM loopFacts mutate cur (s, acc) x).1.rev = 0
        · cases rest with
          | nil => simp only [List.foldl_nil] at hf; exact absurd h1 hf
          | cons y ys =>
            have := hi.1 y (by simp)
            have hxy : x.idx < y.idx := hp.1 y (by simp)
            omega
        · exact Nat.le_trans (hss.2 h1) (hi.2 h1)
      · exact hi.1 x hx
    · intro hs
      have := (hss.1 hs)
      exact Nat.le_trans this.2.1 (hi.2 this.1)

/-- **Restart + replay**: apply a committed (strictly increasing) log in one
    batch, restart from the state file, re-apply any already-applied entries of that
    log: the machine is exactly as before and every answer is `Noop already_applied`. -/
theorem c18_restart_replay (hmc : MutateContract mutate) (empty : State β) (sm : SM β) (es es' : List (Entry κ))
    (hst : StrictIdx es) (hsub : ∀ e ∈ es', e ∈ es)
    (hinit : (applyBatchM loopFacts mutate sm es).1.published.rev ≠ 0) :
    applyBatchM loopFacts mutate (restart empty (applyBatchM loopFacts mutate sm es).1) es' =
      ((applyBatchM loopFacts mutate sm es).1,
       es'.map (fun _ => ⟨.noop reasonAlreadyApplied, (applyBatchM loopFacts mutate sm es).1.published.rev,
                          (applyBatchM loopFacts mutate sm es).1.published.applied⟩)) := by
  generalize hsm : (applyBatchM loopFacts mutate sm es).1 = sm' at hinit ⊢
  have hfile : sm'.file = some sm'.published ∧ (∀ e ∈ es, e.idx ≤ sm'.published.applied) := by
    simp only [applyBatchM] at hsm
    by_cases h0 : (runEntriesM loopFacts mutate sm.published es (sm.published, [])).1.rev = 0
    · rw [if_pos h0] at hsm
      simp only at hsm
      subst hsm
      have := run_rev_ne_zero mutate hmc sm.published es sm.published [] hinit
      exact absurd h0 this
    · rw [if_neg h0] at hsm
      simp only at hsm
      subst hsm
      exact ⟨rfl, (run_applied_covers mutate hmc sm.published es sm.published [] hst h0).1⟩
  obtain ⟨p, f⟩ := sm'
  simp only at hfile hinit
  have hre : restart empty ({ published := p, file := f } : SM β) = { published := p, file := f } := by
    simp [restart, hfile.1]
  rw [hre]
  have := c18_replay_noop mutate hmc ({ published := p, file := f } : SM β) es' hinit (fun e he => hfile.2 e (hsub e he))
  rw [this]
  simp [hfile.1]

/-- **Everything published or saved is valid**: if `Validate` does not look at the
    applied index, `ApplyBatch` keeps "the published state, when initialised, passed
    `Validate`" (so it holds after any sequence of batches), and either nothing was
    published or what is saved is exactly what is published. -/
theorem c18_published_valid (valid : State β → Bool) (hvc : ValidContract valid mutate) (hva : ValidIgnoresApplied valid) (sm : SM β) (es : List (Entry κ))
    (h : PublishedValid valid sm) :
    PublishedValid valid (applyBatchM loopFacts mutate sm es).1 ∧
    ((applyBatchM loopFacts mutate sm es).1 = sm ∨
     (applyBatchM loopFacts mutate sm es).1.file = some (applyBatchM loopFacts mutate sm es).1.published) := by
  have key : ∀ (l : List (Entry κ)) (s : State β) (acc : List Result), (s.rev ≠ 0 → valid s = true) →
      ((runEntriesM loopFacts mutate sm.published l (s, acc)).1.rev ≠ 0 →
        valid (runEntriesM loopFacts mutate sm.published l (s, acc)).1 = true) := by
    intro l
    induction l with
    | nil => intro s acc hs; exact hs
    | cons e rest ih =>
      intro s acc hs
      simp only [runEntriesM, List.foldl_cons] at ih ⊢
      have h2 : stepEntryM loopFacts mutate sm.published (s, acc) e =
        ((stepEntryM loopFacts mutate sm.published (s, acc) e).1, (stepEntryM loopFacts mutate sm.published (s, acc) e).2) := rfl
      rw [h2]
      apply ih
      rw [step_fst]
      by_cases hg : sm.published.rev ≠ 0 ∧ e.idx ≤ s.applied
      · rw [if_pos hg]; exact hs
      · rw [if_neg hg]
        have hv1 : (mutate s e.idx e.cmd).1.rev ≠ 0 → valid (mutate s e.idx e.cmd).1 = true := by
          rcases hvc s e.idx e.cmd with h1 | h1
          · rw [h1]; exact hs
          · exact fun _ => h1
        intro hr
        rw [bump_rev] at hr
        unfold bump
        split
        · rw [hva]; exact hv1 hr
        · exact hv1 hr
  simp only [applyBatchM]
  split
  · exact ⟨h, Or.inl rfl⟩
  · rename_i hne
    exact ⟨fun _ => key es sm.published [] h hne, Or.inr rfl⟩

end WK.C18.M

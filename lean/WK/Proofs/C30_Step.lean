import WK.Proofs.C30_Inv
/-
  C30 — every `run` transition preserves the invariant: case analysis over the
  kind of the thread and its program counter in the compiled programs.
-/
namespace WK.C30
open WK.Gen.C30

theorem inv_none {s : GState} (hi : Inv s) {k : Nat} {t t' : Thread} (hk : s.threads k = some t)
    (hc : t'.casd = t.casd) (hnr : t'.ret = none) (ht : TInv s.floor s.hist t') :
    Inv (commit s k s.floor t' .none) :=
  inv_local hi hk hc s.acks s.rets hi.acksLe hi.retsIn (fun _ h => h) (fun _ h => h)
    (fun v hv => by simp [hnr] at hv) (fun _ hv => by simp [hnr] at hv) ht

theorem inv_ret {s : GState} (hi : Inv s) {k : Nat} {t t' : Thread} {r : Ret} (hk : s.threads k = some t)
    (hc : t'.casd = t.casd) (hf : t'.kind = .setFloor ∧ r = .ok → t'.r0 ≤ s.floor)
    (hid : ∀ v, r = .id v → v ∈ s.hist)
    (ht : TInv s.floor s.hist { t' with ret := some r }) : Inv (commit s k s.floor t' (.ret r)) := by
  refine inv_local (t' := { t' with ret := some r }) hi hk hc _ _ ?_ ?_ ?_ ?_ ?_ ?_ ht
  · intro f hf'
    split at hf'
    · rename_i hcond
      rcases List.mem_cons.mp hf' with h | h
      · subst h; exact hf hcond
      · exact hi.acksLe f h
    · exact hi.acksLe f hf'
  · intro v hv
    cases r with
    | id w =>
      rcases List.mem_cons.mp hv with h | h
      · subst h; exact hid _ rfl
      · exact hi.retsIn v h
    | ok => exact hi.retsIn v hv
    | err => exact hi.retsIn v hv
  · intro v hv
    cases r <;> simp [hv]
  · intro f hf'
    split
    · exact List.mem_cons_of_mem _ hf'
    · exact hf'
  · intro v hv
    simp only [Option.some.injEq] at hv
    subst hv; simp
  · intro hkind hv
    simp only [Option.some.injEq] at hv
    subst hv
    have hk' : t'.kind = Kind.setFloor := hkind
    simp [hk']

/-- a thread that has returned does not step -/
theorem ret_none_of_exec {F : Nat} {hist : List Nat} {t : Thread} (hT : TInv F hist t) {g : Nat}
    {x : Nat × Thread × Out} (he : exec (progOf t.kind) F t g = some x) : t.ret = none := by
  cases hr : t.ret with
  | none => rfl
  | some r =>
    have hp := hT.halted (by simp [hr])
    cases hk : t.kind <;> simp [exec, hp, haltPC, progOf, hk, next_prog, setFloor_prog] at he

theorem inv_run_next {s : GState} (hi : Inv s) {k : Nat} {t : Thread} {g fl' : Nat} {t' : Thread} {o : Out}
    (h : s.threads k = some t) (hk : t.kind = .next)
    (he : exec nextProg s.floor t g = some (fl', t', o)) : Inv (commit s k fl' t' o) := by
  have hT := hi.thr k t h
  have hret : t.ret = none := ret_none_of_exec hT (x := (fl', t', o)) (by rw [hk]; exact he)
  obtain ⟨hcasd, hsH, hsR, hsA, hhalt, hnx4, hnx5, hnxr, hsfCur, hsf2, hsfProbe, hsf8, hsf9, hsf10, hsfOk⟩ := hT
  rw [next_prog] at he
  match hpc : t.pc with
  | 0 =>
    simp [exec, hpc] at he
    obtain ⟨rfl, rfl, rfl⟩ := he
    refine inv_none hi h (by simp [Thread.wr]) (by simp [Thread.wr, hret]) ?_
    constructor <;> first | exact hcasd | exact hsH | exact hsR | exact hsA | simp_all [Thread.wr, haltPC]
  | 1 =>
    simp [exec, hpc] at he
    obtain ⟨rfl, rfl, rfl⟩ := he
    refine inv_none hi h (by simp [Thread.wr]) (by simp [Thread.wr, hret]) ?_
    constructor <;> first | exact hcasd | exact hsH | exact hsR | exact hsA | simp_all [Thread.wr, haltPC]
  | 2 =>
    simp [exec, hpc, evalCmp, Thread.rd] at he
    split at he
    · simp at he
      obtain ⟨rfl, rfl, rfl⟩ := he
      refine inv_none hi h rfl hret ?_
      constructor <;> first | exact hcasd | exact hsH | exact hsR | exact hsA | simp_all [haltPC]
    · simp at he
      obtain ⟨rfl, rfl, rfl⟩ := he
      refine inv_none hi h rfl hret ?_
      constructor <;> first | exact hcasd | exact hsH | exact hsR | exact hsA | (simp_all [haltPC] <;> omega)
  | 3 =>
    simp [exec, hpc] at he
    obtain ⟨rfl, rfl, rfl⟩ := he
    refine inv_none hi h rfl hret ?_
    constructor <;> first | exact hcasd | exact hsH | exact hsR | exact hsA | simp_all [haltPC]
  | 4 =>
    simp [exec, hpc, Thread.rd] at he
    split at he
    · rename_i hF
      simp at he
      obtain ⟨rfl, rfl, rfl⟩ := he
      have hlt : s.floor < t.r0 := by have := hnx4 hk hpc; omega
      refine inv_cas hi hlt hret ?_
      have hh : ∀ x ∈ s.hist, x < t.r0 := fun x hx => Nat.lt_of_le_of_lt (hi.histLe x hx) hlt
      have ha : ∀ x ∈ s.acks, x < t.r0 := fun x hx => Nat.lt_of_le_of_lt (hi.acksLe x hx) hlt
      have hs1 : ∀ x ∈ t.histAtStart, x < t.r0 := fun x hx => hh x (hsH x hx)
      have hs2 : ∀ x ∈ t.acksAtStart, x < t.r0 := fun x hx => Nat.lt_of_le_of_lt (hsA x hx) hlt
      have hs3 : ∀ x ∈ t.acksAtStart, x ≤ t.r0 := fun x hx => Nat.le_of_lt (hs2 x hx)
      have hs4 : ∀ x ∈ t.histAtStart, x ∈ t.r0 :: s.hist := fun x hx => List.mem_cons_of_mem _ (hsH x hx)
      constructor <;> first | exact hsR | exact hs3 | exact hs4 | simp_all [haltPC]
    · simp at he
      obtain ⟨rfl, rfl, rfl⟩ := he
      refine inv_none hi h rfl hret ?_
      constructor <;> first | exact hcasd | exact hsH | exact hsR | exact hsA | simp_all [haltPC]
  | 5 =>
    simp [exec, hpc, Thread.rd] at he
    obtain ⟨rfl, rfl, rfl⟩ := he
    have hc := hnx5 hk hpc
    refine inv_ret hi h rfl (by simp [hk]) (fun v hv => by simp only [Ret.id.injEq] at hv; subst hv; exact (hcasd _ hc).1) ?_
    constructor <;> first | exact hcasd | exact hsH | exact hsR | exact hsA | simp_all [haltPC]
  | 6 =>
    simp [exec, hpc] at he
    obtain ⟨rfl, rfl, rfl⟩ := he
    refine inv_none hi h rfl hret ?_
    constructor <;> first | exact hcasd | exact hsH | exact hsR | exact hsA | simp_all [haltPC]
  | n + 7 =>
    simp [exec, hpc] at he

theorem inv_run_setFloor {s : GState} (hi : Inv s) {k : Nat} {t : Thread} {g fl' : Nat} {t' : Thread} {o : Out}
    (h : s.threads k = some t) (hk : t.kind = .setFloor)
    (he : exec setFloorProg s.floor t g = some (fl', t', o)) : Inv (commit s k fl' t' o) := by
  have hT := hi.thr k t h
  have hret : t.ret = none := ret_none_of_exec hT (x := (fl', t', o)) (by rw [hk]; exact he)
  obtain ⟨hcasd, hsH, hsR, hsA, hhalt, hnx4, hnx5, hnxr, hsfCur, hsf2, hsfProbe, hsf8, hsf9, hsf10, hsfOk⟩ := hT
  rw [setFloor_prog] at he
  match hpc : t.pc with
  | 0 =>
    simp [exec, hpc] at he
    obtain ⟨rfl, rfl, rfl⟩ := he
    refine inv_none hi h (by simp [Thread.wr]) (by simp [Thread.wr, hret]) ?_
    constructor <;> first | exact hcasd | exact hsH | exact hsR | exact hsA | simp_all [Thread.wr, haltPC]
  | 1 =>
    simp [exec, hpc, evalCmp, Thread.rd] at he
    split at he
    · simp at he
      obtain ⟨rfl, rfl, rfl⟩ := he
      refine inv_none hi h rfl hret ?_
      constructor <;> first | exact hcasd | exact hsH | exact hsR | exact hsA | simp_all [haltPC]
    · simp at he
      obtain ⟨rfl, rfl, rfl⟩ := he
      refine inv_none hi h rfl hret ?_
      constructor <;> first | exact hcasd | exact hsH | exact hsR | exact hsA | simp_all [haltPC]
  | 2 =>
    simp [exec, hpc] at he
    obtain ⟨rfl, rfl, rfl⟩ := he
    have h1 := hsfCur hk (by simp [hpc])
    have h2 := hsf2 hk hpc
    refine inv_ret hi h rfl (fun _ => by dsimp only; omega) (fun v hv => by cases hv) ?_
    constructor <;> first | exact hcasd | exact hsH | exact hsR | exact hsA | (simp_all [haltPC] <;> omega)
  | 3 =>
    simp [exec, hpc] at he
    obtain ⟨rfl, rfl, rfl⟩ := he
    refine inv_none hi h (by simp [Thread.wr]) (by simp [Thread.wr, hret]) ?_
    constructor <;> first | exact hcasd | exact hsH | exact hsR | exact hsA | simp_all [Thread.wr, haltPC]
  | 4 =>
    simp [exec, hpc, evalCmp, Thread.rd] at he
    split at he
    · simp at he
      obtain ⟨rfl, rfl, rfl⟩ := he
      refine inv_none hi h rfl hret ?_
      constructor <;> first | exact hcasd | exact hsH | exact hsR | exact hsA | simp_all [haltPC]
    · simp at he
      obtain ⟨rfl, rfl, rfl⟩ := he
      refine inv_none hi h rfl hret ?_
      constructor <;> first | exact hcasd | exact hsH | exact hsR | exact hsA | (simp_all [haltPC] <;> omega)
  | 5 =>
    simp [exec, hpc] at he
    obtain ⟨rfl, rfl, rfl⟩ := he
    refine inv_ret hi h rfl (by simp) (fun v hv => by cases hv) ?_
    constructor <;> first | exact hcasd | exact hsH | exact hsR | exact hsA | simp_all [haltPC]
  | 6 =>
    simp [exec, hpc] at he
    obtain ⟨rfl, rfl, rfl⟩ := he
    have h1 := hsfProbe hk (by simp [hpc])
    refine inv_none hi h (by simp [Thread.wr]) (by simp [Thread.wr, hret]) ?_
    constructor <;> first | exact hcasd | exact hsH | exact hsR | exact hsA | simp_all [Thread.wr, haltPC]
  | 7 =>
    simp [exec, hpc, evalCmp, Thread.rd] at he
    have h1 := hsfProbe hk (by simp [hpc])
    have h2 := hsfCur hk (by simp [hpc])
    split at he
    · simp at he
      obtain ⟨rfl, rfl, rfl⟩ := he
      refine inv_none hi h rfl hret ?_
      constructor <;> first | exact hcasd | exact hsH | exact hsR | exact hsA | simp_all [haltPC]
    · simp at he
      obtain ⟨rfl, rfl, rfl⟩ := he
      refine inv_none hi h rfl hret ?_
      constructor <;> first | exact hcasd | exact hsH | exact hsR | exact hsA | (simp_all [haltPC] <;> omega)
  | 8 =>
    simp [exec, hpc] at he
    obtain ⟨rfl, rfl, rfl⟩ := he
    have h1 := hsfProbe hk (by simp [hpc])
    have h2 := hsfCur hk (by simp [hpc])
    have h3 := hsf8 hk hpc
    refine inv_ret hi h rfl (fun _ => by dsimp only; omega) (fun v hv => by cases hv) ?_
    constructor <;> first | exact hcasd | exact hsH | exact hsR | exact hsA | (simp_all [haltPC] <;> omega)
  | 9 =>
    simp [exec, hpc, Thread.rd] at he
    have h1 := hsfProbe hk (by simp [hpc])
    have h3 := hsf9 hk hpc
    split at he
    · rename_i hF
      simp at he
      obtain ⟨rfl, rfl, rfl⟩ := he
      have hlt : s.floor < t.r2 := by omega
      refine inv_cas hi hlt hret ?_
      have hh : ∀ x ∈ s.hist, x < t.r2 := fun x hx => Nat.lt_of_le_of_lt (hi.histLe x hx) hlt
      have ha : ∀ x ∈ s.acks, x < t.r2 := fun x hx => Nat.lt_of_le_of_lt (hi.acksLe x hx) hlt
      have hs1 : ∀ x ∈ t.histAtStart, x < t.r2 := fun x hx => hh x (hsH x hx)
      have hs2 : ∀ x ∈ t.acksAtStart, x < t.r2 := fun x hx => Nat.lt_of_le_of_lt (hsA x hx) hlt
      have hs3 : ∀ x ∈ t.acksAtStart, x ≤ t.r2 := fun x hx => Nat.le_of_lt (hs2 x hx)
      have hs4 : ∀ x ∈ t.histAtStart, x ∈ t.r2 :: s.hist := fun x hx => List.mem_cons_of_mem _ (hsH x hx)
      constructor <;> first | exact hsR | exact hs3 | exact hs4 | simp_all [haltPC]
    · simp at he
      obtain ⟨rfl, rfl, rfl⟩ := he
      refine inv_none hi h rfl hret ?_
      constructor <;> first | exact hcasd | exact hsH | exact hsR | exact hsA | simp_all [haltPC]
  | 10 =>
    simp [exec, hpc] at he
    obtain ⟨rfl, rfl, rfl⟩ := he
    have h1 := hsfProbe hk (by simp [hpc])
    have h2 := hsf10 hk hpc
    refine inv_ret hi h rfl (fun _ => by dsimp only; omega) (fun v hv => by cases hv) ?_
    constructor <;> first | exact hcasd | exact hsH | exact hsR | exact hsA | (simp_all [haltPC] <;> omega)
  | 11 =>
    simp [exec, hpc] at he
    obtain ⟨rfl, rfl, rfl⟩ := he
    have h1 := hsfProbe hk (by simp [hpc])
    refine inv_none hi h rfl hret ?_
    constructor <;> first | exact hcasd | exact hsH | exact hsR | exact hsA | simp_all [haltPC]
  | n + 12 =>
    simp [exec, hpc] at he

/-- a step that is not a successful CAS leaves the shared floor alone (any program) -/
theorem exec_floor_same {prog : List Instr} {F : Nat} {t : Thread} {g fl' : Nat} {t' : Thread} {o : Out}
    (he : exec prog F t g = some (fl', t', o)) (ho : ∀ v, o ≠ .cas v) : fl' = F := by
  unfold exec at he
  split at he
  · cases he
  all_goals first
    | (simp only [Option.some.injEq, Prod.mk.injEq] at he; exact he.1.symm)
    | (split at he <;> simp only [Option.some.injEq, Prod.mk.injEq] at he <;>
        first | exact he.1.symm | (exfalso; exact ho _ he.2.2.symm))

/-- a successful CAS of either loop writes a value strictly above the floor it replaces -/
theorem cas_above {F : Nat} {hist : List Nat} {t : Thread} {g fl' : Nat} {t' : Thread} {v : Nat}
    (hT : TInv F hist t) (he : exec (progOf t.kind) F t g = some (fl', t', .cas v)) : fl' = v ∧ F < v := by
  cases hk : t.kind with
  | next =>
    rw [hk] at he
    simp only [progOf] at he
    rw [next_prog] at he
    match hpc : t.pc with
    | 4 =>
      simp [exec, hpc, Thread.rd] at he
      split at he <;> simp at he
      obtain ⟨rfl, _, rfl⟩ := he
      have := hT.nx4 hk hpc
      exact ⟨rfl, by omega⟩
    | 0 | 1 | 3 | 5 | 6 => simp [exec, hpc] at he
    | 2 => simp [exec, hpc] at he; split at he <;> simp at he
    | n + 7 => simp [exec, hpc] at he
  | setFloor =>
    rw [hk] at he
    simp only [progOf] at he
    rw [setFloor_prog] at he
    match hpc : t.pc with
    | 9 =>
      simp [exec, hpc, Thread.rd] at he
      split at he <;> simp at he
      obtain ⟨rfl, _, rfl⟩ := he
      have := hT.sf9 hk hpc
      exact ⟨rfl, by omega⟩
    | 0 | 2 | 3 | 5 | 6 | 8 | 10 | 11 => simp [exec, hpc] at he
    | 1 | 4 | 7 => simp [exec, hpc] at he; split at he <;> simp at he
    | n + 12 => simp [exec, hpc] at he

/-- every transition preserves the invariant -/
theorem inv_step {s s' : GState} (hi : Inv s) (hs : Step s s') : Inv s' := by
  cases hs with
  | spawn k kind arg h => exact inv_spawn hi k kind arg h
  | run k t g fl' t' o h he =>
    cases hk : t.kind with
    | next => rw [hk] at he; exact inv_run_next hi h hk he
    | setFloor => rw [hk] at he; exact inv_run_setFloor hi h hk he

theorem inv_reach {s : GState} (h : Reach s) : Inv s := by
  induction h with
  | init => exact inv_init
  | step _ hs ih => exact inv_step ih hs

end WK.C30

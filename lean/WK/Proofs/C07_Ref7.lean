import WK.Proofs.C07_Ref6
/-
  C07 — `doFetch` (follower apply, trusted mode, optional checkpoint) refines `specFetch`.
-/
namespace WK.C07

theorem refines_fetch (st : Store) (c base : Nat) (ck : Option Ckpt) (recs : List Rec) (hi : Inv st) (hk : Chk st)
    (hs : SafeBatch st c 2 recs) : Refines st (.fetch c base ck recs) := by
  unfold Refines
  show abs (doFetch st c base ck recs).1 = (specFetch (abs st) c base ck recs).1 ∧
    (doFetch st c base ck recs).2 = (specFetch (abs st) c base ck recs).2 ∧ Chk (doFetch st c base ck recs).1
  have hD : doFetch st c base ck recs =
      (match (if base ≠ 0 ∧ base ≠ (loadLEO (st.chan c)).1 + 1 then (loaded st c, Except.error Err.conflict)
        else match walkRows (loaded st c) c 2 ((loadLEO (st.chan c)).1 + 1) recs {} [] with
          | .error e => (loaded st c, .error e)
          | .ok rows => (loaded st c, .ok (rows, (loadLEO (st.chan c)).1))) with
      | (st, .error e) => (st, Out.err e)
      | (st, .ok (rows, leo)) =>
        if !(match ck with
              | some k => ckptMonoOk (st.chan c) k (if rows.isEmpty then leo else leo + rows.length) (if rows.isEmpty then leo else leo + rows.length)
              | none => true) then (st, .err .corruptstate)
        else if rows.isEmpty ∧ ck.isNone then (st, .app 0 0 0)
        else
          if rows.isEmpty then
            ((match ck with
              | some k => (rows.foldl (stageRow c) st).setChan c { (rows.foldl (stageRow c) st).chan c with ck := some k }
              | none => rows.foldl (stageRow c) st), .app 0 0 0)
          else (setLeoC (match ck with
              | some k => (rows.foldl (stageRow c) st).setChan c { (rows.foldl (stageRow c) st).chan c with ck := some k }
              | none => rows.foldl (stageRow c) st) c (leo + rows.length), .app (leo + 1) (leo + rows.length) rows.length)) := by
    unfold doFetch prepare
    rw [if_neg (by decide : ¬ (2 > 2))]
    rfl
  rw [hD]
  unfold specFetch specPrepare
  rw [if_neg (by decide : ¬ (2 > 2))]
  obtain ⟨I1, g1, i1, r1, t1, k1, l1, v1, c1⟩ := loaded_facts st c hi hs.1
  have hc : c < st.chans.length := by rw [hi.len]; exact hs.1
  have hc1 : c < (loaded st c).chans.length := by rw [I1.len]; exact hs.1
  have K1 := chk_loaded st c hk hc
  have A1 := abs_loaded st c hi hs.1
  rw [v1]
  simp only [abs_leo]
  by_cases hb : base ≠ 0 ∧ base ≠ recoverLEO (st.chan c) + 1
  · rw [if_pos hb, if_pos hb]; exact ⟨A1, rfl, K1⟩
  rw [if_neg hb, if_neg hb]
  have hw := walk_eq (loaded st c) I1 K1 c 2 recs (recoverLEO (st.chan c) + 1) {} []
    (fun r hr => by have := le_recoverLEO _ r hr; rw [l1] at this; omega)
  rw [A1] at hw
  rw [hw]
  cases hsw : specWalk (abs st) c 2 recs {} with
  | error e => exact ⟨A1, rfl, K1⟩
  | ok u =>
    cases u
    dsimp only
    simp only [List.reverse_nil, List.nil_append]
    have hlen := rowsOfP_len (recoverLEO (st.chan c) + 1) recs
    -- the checkpoint gate is the same Boolean on both sides
    have hck1 : ∀ k a b, ckptMonoOk ((loaded st c).chan c) k a b = specCkOk ((abs st).chan c) k a b := by
      intro k a b; rw [ckOk_eq, ← abs_chan, A1]
    by_cases he : recs.isEmpty = true
    · -- no records: only the checkpoint (if any) is written
      have hnil : recs = [] := List.isEmpty_iff.mp he
      subst hnil
      simp only [rowsOfP, List.isEmpty_nil, if_true, List.length_nil, Nat.add_zero, List.foldl_nil, specRows, List.append_nil,
        true_and]
      cases ck with
      | none =>
        simp only [Bool.not_true, Bool.false_eq_true, if_false, Option.isNone_none, if_true]
        refine ⟨?_, trivial, K1⟩
        rw [A1]
        have : ({ rows := ((abs st).chan c).rows, leo := recoverLEO (st.chan c), ret := ((abs st).chan c).ret,
                  ck := ((abs st).chan c).ck } : SChan) = (abs st).chan c := by rw [abs_chan]; rfl
        rw [this]
        exact (sset_self _ _ (by rw [abs_len]; exact hc)).symm
      | some k =>
        simp only [Option.isNone_some, Bool.false_eq_true, if_false]
        simp only [hck1]
        by_cases hok : (!specCkOk ((abs st).chan c) k (recoverLEO (st.chan c)) (recoverLEO (st.chan c))) = true
        · rw [if_pos hok, if_pos hok]; exact ⟨A1, rfl, K1⟩
        · rw [if_neg hok, if_neg hok]
          refine ⟨?_, rfl, chk_setck _ c _ K1 hc1⟩
          rw [abs_setck (loaded st c) c (some k) I1 hs.1, A1]
          congr 1
          rw [abs_chan]; rfl
    · have hne : rowsOfP (recoverLEO (st.chan c) + 1) recs ≠ [] := by
        cases recs with | nil => exact absurd rfl he | cons a t => simp [rowsOfP]
      have hRe : (rowsOfP (recoverLEO (st.chan c) + 1) recs).isEmpty = false := by
        cases h : (rowsOfP (recoverLEO (st.chan c) + 1) recs).isEmpty with
        | false => rfl
        | true => exact absurd (List.isEmpty_iff.mp h) hne
      have he' : recs.isEmpty = false := by cases h : recs.isEmpty with | false => rfl | true => exact absurd h he
      simp only [hRe, he', Bool.false_eq_true, if_false, false_and, hlen]
      -- the accepted batch
      have hwalk : walkRows (loaded st c) c 2 (recoverLEO (st.chan c) + 1) recs {} [] = .ok (rowsOfP (recoverLEO (st.chan c) + 1) recs) := by
        have := walk_eq (loaded st c) I1 K1 c 2 recs (recoverLEO (st.chan c) + 1) {} []
          (fun r hr => by have := le_recoverLEO _ r hr; rw [l1] at this; omega)
        rw [A1, hsw] at this; simpa using this
      obtain ⟨new, hrows, B⟩ := walk_batch _ _ _ _ _ _ _ _ hwalk
      simp only [List.reverse_nil, List.nil_append] at hrows
      subst hrows
      rw [← l1] at B hne
      have hs1 : SafeBatch (loaded st c) c 2 recs := ⟨hs.1, by rw [g1]; exact hs.2.1, by rw [i1]; exact hs.2.2⟩
      have hchk : ∀ r ∈ rowsOfP (recoverLEO (st.chan c) + 1) recs, rowCheck r = .ok () := by
        intro r hr
        have hnz := B.nz r (l1 ▸ hr)
        have : ∀ rcs s, r ∈ rowsOfP s rcs → ∃ s' rc', r = mkRow s' rc' := by
          intro rcs; induction rcs with
          | nil => intro s h; cases h
          | cons a t ih => intro s h; rcases List.mem_cons.mp h with e | e; exact ⟨s, a, e⟩; exact ih _ e
        obtain ⟨s', rc', e⟩ := this recs _ hr
        subst e; exact rowCheck_mkRow _ _ hnz
      cases ck with
      | none =>
        have S := staged_abs (loaded st c) c 2 recs _ none I1 K1 hs1 (by rw [c1, l1]) B hne
        dsimp only at S
        rw [l1, A1, r1, t1, k1, hlen] at S
        simp only [Bool.not_true, Bool.false_eq_true, if_false]
        refine ⟨?_, trivial, S.2 hchk⟩
        rw [S.1, specRows_eq, abs_chan]; rfl
      | some k =>
        have S := staged_abs (loaded st c) c 2 recs _ (some k) I1 K1 hs1 (by rw [c1, l1]) B hne
        dsimp only at S
        rw [l1, A1, r1, t1, hlen] at S
        dsimp only
        simp only [hck1]
        by_cases hok : (!specCkOk ((abs st).chan c) k (recoverLEO (st.chan c) + recs.length) (recoverLEO (st.chan c) + recs.length)) = true
        · rw [if_pos hok, if_pos hok]; exact ⟨A1, rfl, K1⟩
        · rw [if_neg hok, if_neg hok]
          refine ⟨?_, rfl, S.2 hchk⟩
          rw [S.1, specRows_eq, abs_chan]; rfl

end WK.C07

import WK.Model.C35
/-
  C35 helper lemmas: byte-wise order, `strings.Split` on one separator,
  suffix handling.  Core only (no Mathlib needed).
-/
namespace WK.C35

/-! ### Go's string order -/

theorem bytesLt_irrefl (a : Bytes) : bytesLt a a = false := by
  induction a with
  | nil => rfl
  | cons x xs ih => simp [bytesLt, ih]

theorem bytesLt_asymm (a b : Bytes) : bytesLt a b = true → bytesLt b a = false := by
  induction a generalizing b with
  | nil => cases b <;> simp [bytesLt]
  | cons x xs ih =>
    cases b with
    | nil => simp [bytesLt]
    | cons y ys =>
      simp only [bytesLt]
      by_cases h1 : x < y
      · have h2 : ¬ y < x := by
          intro h; exact absurd (UInt8.lt_trans h1 h) (UInt8.lt_irrefl _)
        simp [h1, h2]
      · by_cases h2 : y < x
        · simp [h1, h2]
        · simp only [h1, h2, if_false]; exact ih ys

/-- the order is total: distinct strings are strictly ordered one way -/
theorem bytesLt_total (a b : Bytes) : a = b ∨ bytesLt a b = true ∨ bytesLt b a = true := by
  induction a generalizing b with
  | nil => cases b <;> simp [bytesLt]
  | cons x xs ih =>
    cases b with
    | nil => simp [bytesLt]
    | cons y ys =>
      simp only [bytesLt]
      by_cases h1 : x < y
      · simp [h1]
      · by_cases h2 : y < x
        · simp [h1, h2]
        · have hxy : x = y := by
            have := UInt8.le_antisymm (UInt8.not_lt.mp h2) (UInt8.not_lt.mp h1)
            exact this
          subst hxy
          simp only [h1, if_false]
          rcases ih ys with h | h | h
          · left; rw [h]
          · right; left; exact h
          · right; right; exact h

/-! ### `strings.Split(s, "@")` -/

/-- joining the parts back with the separator gives the string (Split loses nothing) -/
theorem splitAux_join (s : Bytes) :
    s = (splitAux s).1 ++ (splitAux s).2.flatMap (fun p => sep :: p) := by
  induction s with
  | nil => rfl
  | cons c cs ih =>
    simp only [splitAux]
    by_cases h : c = sep
    · simp only [h, if_true, List.nil_append, List.flatMap_cons, List.cons_append]
      rw [← ih]
    · simp only [h, if_false, List.cons_append]
      rw [← ih]

/-- no part contains the separator -/
theorem splitAux_noSep (s : Bytes) :
    sep ∉ (splitAux s).1 ∧ ∀ p ∈ (splitAux s).2, sep ∉ p := by
  induction s with
  | nil => simp [splitAux]
  | cons c cs ih =>
    simp only [splitAux]
    by_cases h : c = sep
    · simp only [h, if_true]
      refine ⟨by simp, ?_⟩
      intro p hp
      rcases List.mem_cons.mp hp with rfl | hp
      · exact ih.1
      · exact ih.2 p hp
    · simp only [h, if_false]
      refine ⟨?_, ih.2⟩
      intro hm
      rcases List.mem_cons.mp hm with h' | h'
      · exact h h'.symm
      · exact ih.1 h'

/-- a separator-free string is a single part -/
theorem splitAux_of_noSep (a : Bytes) (h : sep ∉ a) : splitAux a = (a, []) := by
  induction a with
  | nil => rfl
  | cons c cs ih =>
    have hc : c ≠ sep := fun e => h (e ▸ List.mem_cons_self)
    have hcs : sep ∉ cs := fun m => h (List.mem_cons_of_mem _ m)
    simp [splitAux, hc, ih hcs]

/-- splitting `a ++ "@" ++ b` with `a` separator-free: first part `a`, then the parts of `b` -/
theorem splitAux_join_left (a b : Bytes) (h : sep ∉ a) :
    splitAux (a ++ sep :: b) = (a, (splitAux b).1 :: (splitAux b).2) := by
  induction a with
  | nil => simp [splitAux]
  | cons c cs ih =>
    have hc : c ≠ sep := fun e => h (e ▸ List.mem_cons_self)
    have hcs : sep ∉ cs := fun m => h (List.mem_cons_of_mem _ m)
    simp [splitAux, hc, ih hcs]

theorem split_join (a b : Bytes) (ha : sep ∉ a) (hb : sep ∉ b) : split (join a b) = [a, b] := by
  simp [split, join, splitAux_join_left a b ha, splitAux_of_noSep b hb]

/-- exactly two parts means: the string is `l@r` with separator-free `l`, `r` -/
theorem split_two (c l r : Bytes) (h : split c = [l, r]) :
    c = join l r ∧ sep ∉ l ∧ sep ∉ r := by
  simp only [split, List.cons.injEq] at h
  obtain ⟨h1, h2⟩ := h
  have hj := splitAux_join c
  have hn := splitAux_noSep c
  rw [h1, h2] at hj hn
  refine ⟨?_, hn.1, hn.2 r (by simp)⟩
  simpa [join] using hj

/-- number of separators in a joined string -/
theorem count_join (a b : Bytes) : (join a b).count sep = a.count sep + b.count sep + 1 := by
  simp [join, List.count_append]
  omega

theorem count_zero_of_noSep (a : Bytes) (h : sep ∉ a) : a.count sep = 0 :=
  List.count_eq_zero.mpr h

/-- a join with separator-free sides determines its sides -/
theorem join_inj (a b x y : Bytes) (hx : sep ∉ x) (hy : sep ∉ y) (h : join a b = join x y) :
    a = x ∧ b = y := by
  have hc := count_join a b
  rw [h, count_join, count_zero_of_noSep x hx, count_zero_of_noSep y hy] at hc
  have ha : sep ∉ a := List.count_eq_zero.mp (by omega)
  have hb : sep ∉ b := List.count_eq_zero.mp (by omega)
  have h1 := split_join a b ha hb
  rw [h, split_join x y hx hy] at h1
  simp only [List.cons.injEq, and_true] at h1
  exact ⟨h1.1.symm, h1.2.symm⟩

/-! ### decode characterised -/

theorem decodePerson_some (c l r : Bytes) :
    decodePerson c = some (l, r) ↔ (c = join l r ∧ sep ∉ l ∧ sep ∉ r ∧ l ≠ [] ∧ r ≠ []) := by
  constructor
  · intro h
    unfold decodePerson at h
    split at h
    · rename_i p0 p1 hs
      split at h
      · exact absurd h (by simp)
      · rename_i hne
        simp only [Option.some.injEq, Prod.mk.injEq] at h
        obtain ⟨rfl, rfl⟩ := h
        have := split_two c p0 p1 hs
        simp only [Bool.or_eq_true, List.isEmpty_iff, not_or] at hne
        exact ⟨this.1, this.2.1, this.2.2, hne.1, hne.2⟩
    · exact absurd h (by simp)
  · rintro ⟨rfl, hl, hr, hle, hre⟩
    unfold decodePerson
    rw [split_join l r hl hr]
    simp [hle, hre]

end WK.C35

import WK.Model.Repl
/-
  Frame lemmas for the shared replication model: which parts of `Sys` an
  operation can touch.  Used by the C02/C03/C04 theorems.
-/
namespace WK.Repl

/-! ### list plumbing -/

theorem getElem?_setAt {α : Type} (l : List α) (k j : Nat) (v : α) :
    (setAt l k v)[j]? = if j = k ∧ k < l.length then some v else l[j]? := by
  induction l generalizing k j with
  | nil => simp [setAt]
  | cons x xs ih =>
    cases k with
    | zero =>
      cases j with
      | zero => simp [setAt]
      | succ j => simp [setAt]
    | succ k =>
      cases j with
      | zero => simp [setAt]
      | succ j =>
        simp only [setAt, List.getElem?_cons_succ, ih, List.length_cons]
        by_cases h : j = k
        · subst h; simp
        · have : ¬ (j + 1 = k + 1) := by omega
          simp [h, this]

theorem length_setAt {α : Type} (l : List α) (k : Nat) (v : α) : (setAt l k v).length = l.length := by
  induction l generalizing k with
  | nil => simp [setAt]
  | cons x xs ih => cases k <;> simp [setAt, ih]

/-! ### node access -/

theorem node?_zero (s : Sys) : s.node? 0 = none := by simp [Sys.node?]

theorem node?_some_pos {s : Sys} {i : Nat} {nd : NodeSt} (h : s.node? i = some nd) : i ≠ 0 := by
  intro h0; subst h0; simp [Sys.node?] at h

theorem node?_setNode {s : Sys} {i : Nat} {nd0 : NodeSt} (h : s.node? i = some nd0) (nd : NodeSt) (j : Nat) :
    (s.setNode i nd).node? j = if j = i then some nd else s.node? j := by
  have hi : i ≠ 0 := node?_some_pos h
  have hlen : i - 1 < s.nodes.length := by
    simp [Sys.node?, hi] at h
    exact (List.getElem?_eq_some_iff.mp h).1
  by_cases hj0 : j = 0
  · subst hj0
    have : (0 : Nat) ≠ i := fun e => hi e.symm
    simp [Sys.node?, this]
  · simp only [Sys.node?, Sys.setNode, hj0, if_false, getElem?_setAt]
    by_cases hji : j = i
    · subst hji; simp [hlen]
    · have : ¬ (j - 1 = i - 1) := by omega
      simp [hji, this]

@[simp] theorem setNode_n (s : Sys) (i : Nat) (nd : NodeSt) : (s.setNode i nd).n = s.n := rfl
@[simp] theorem setNode_cap (s : Sys) (i : Nat) (nd : NodeSt) : (s.setNode i nd).cap = s.cap := rfl
@[simp] theorem setNode_q (s : Sys) (i : Nat) (nd : NodeSt) : (s.setNode i nd).q = s.q := rfl

theorem storeOf_setNode {s : Sys} {i : Nat} {nd0 : NodeSt} (h : s.node? i = some nd0) (nd : NodeSt) (v : Nat) :
    (s.setNode i nd).storeOf v = if v = i then nd.store else s.storeOf v := by
  simp only [Sys.storeOf, node?_setNode h]
  by_cases hv : v = i <;> simp [hv]

theorem isUp_setNode {s : Sys} {i : Nat} {nd0 : NodeSt} (h : s.node? i = some nd0) (nd : NodeSt) (v : Nat) :
    (s.setNode i nd).isUp v = if v = i then nd.up else s.isUp v := by
  simp only [Sys.isUp, node?_setNode h]
  by_cases hv : v = i <;> simp [hv]

/-- `setStore` changes exactly one store and nothing else about any node -/
theorem node?_setStore (s : Sys) (i : Nat) (st : Store) (j : Nat) :
    (s.setStore i st).node? j =
      match s.node? j with
      | some nd => if j = i then some { nd with store := st } else some nd
      | none => none := by
  unfold Sys.setStore
  cases hi : s.node? i with
  | none =>
    simp only
    cases hj : s.node? j with
    | none => rfl
    | some nd =>
      have : j ≠ i := by intro e; subst e; simp [hi] at hj
      simp [this]
  | some nd0 =>
    simp only [node?_setNode hi]
    by_cases hji : j = i
    · subst hji; simp [hi]
    · simp [hji]; cases s.node? j <;> rfl

theorem storeOf_setStore (s : Sys) (i : Nat) (st : Store) (v : Nat) :
    (s.setStore i st).storeOf v = if v = i ∧ (s.node? i).isSome then st else s.storeOf v := by
  simp only [Sys.storeOf, node?_setStore]
  by_cases hv : v = i
  · subst hv; cases h : s.node? v <;> simp
  · cases h : s.node? v <;> simp [hv]

theorem chan_setStore (s : Sys) (i : Nat) (st : Store) (j : Nat) :
    ((s.setStore i st).node? j).map (·.chan) = (s.node? j).map (·.chan) := by
  rw [node?_setStore]
  cases s.node? j with
  | none => rfl
  | some nd => by_cases h : j = i <;> simp [h]

theorem up_setStore (s : Sys) (i : Nat) (st : Store) (j : Nat) :
    ((s.setStore i st).node? j).map (·.up) = (s.node? j).map (·.up) := by
  rw [node?_setStore]
  cases s.node? j with
  | none => rfl
  | some nd => by_cases h : j = i <;> simp [h]

@[simp] theorem setStore_n (s : Sys) (i : Nat) (st : Store) : (s.setStore i st).n = s.n := by
  unfold Sys.setStore; cases s.node? i <;> rfl
@[simp] theorem setStore_cap (s : Sys) (i : Nat) (st : Store) : (s.setStore i st).cap = s.cap := by
  unfold Sys.setStore; cases s.node? i <;> rfl

/-! ### "only stores move" — the relation every sub-protocol satisfies -/

/-- `s'` differs from `s` at most in the node stores -/
def SameOwners (s s' : Sys) : Prop :=
  s'.n = s.n ∧ s'.cap = s.cap ∧
  ∀ j, ((s'.node? j).map (·.chan) = (s.node? j).map (·.chan)) ∧ ((s'.node? j).map (·.up) = (s.node? j).map (·.up))

theorem SameOwners.refl (s : Sys) : SameOwners s s := ⟨rfl, rfl, fun _ => ⟨rfl, rfl⟩⟩

theorem SameOwners.trans {a b c : Sys} (h1 : SameOwners a b) (h2 : SameOwners b c) : SameOwners a c :=
  ⟨h2.1.trans h1.1, h2.2.1.trans h1.2.1, fun j => ⟨((h2.2.2 j).1).trans ((h1.2.2 j).1), ((h2.2.2 j).2).trans ((h1.2.2 j).2)⟩⟩

theorem SameOwners.setStore (s : Sys) (i : Nat) (st : Store) : SameOwners s (s.setStore i st) :=
  ⟨by simp, by simp, fun j => ⟨chan_setStore s i st j, up_setStore s i st j⟩⟩

theorem SameOwners.isUp {s s' : Sys} (h : SameOwners s s') (v : Nat) : s'.isUp v = s.isUp v := by
  have := (h.2.2 v).2
  unfold Sys.isUp
  cases h1 : s'.node? v <;> cases h2 : s.node? v <;> simp [h1, h2] at this ⊢
  exact this

theorem SameOwners.node_isSome {s s' : Sys} (h : SameOwners s s') (v : Nat) :
    (s'.node? v).isSome = (s.node? v).isSome := by
  have := (h.2.2 v).2
  cases h1 : s'.node? v <;> cases h2 : s.node? v <;> simp [h1, h2] at this ⊢

/-- a reflexive, transitive relation on stores that every store primitive respects -/
structure StoreRel (R : Store → Store → Prop) : Prop where
  refl : ∀ s, R s s
  trans : ∀ a b c, R a b → R b c → R a c
  sync : ∀ s m cs c, R s (s.sync m cs c).1
  replace : ∀ s e k ps c s', s.replace e k ps c = .ok s' → R s s'

def StoresRel (R : Store → Store → Prop) (s s' : Sys) : Prop := ∀ v, R (s.storeOf v) (s'.storeOf v)

theorem StoresRel.refl {R} (hR : StoreRel R) (s : Sys) : StoresRel R s s := fun v => hR.refl _
theorem StoresRel.trans {R} (hR : StoreRel R) {a b c : Sys} (h1 : StoresRel R a b) (h2 : StoresRel R b c) :
    StoresRel R a c := fun v => hR.trans _ _ _ (h1 v) (h2 v)

theorem StoresRel.setStore {R} (hR : StoreRel R) (s : Sys) (i : Nat) (st : Store) (h : R (s.storeOf i) st) :
    StoresRel R s (s.setStore i st) := by
  intro v
  rw [storeOf_setStore]
  by_cases hv : v = i ∧ (s.node? i).isSome
  · simp only [hv, and_self, if_true]; exact h
  · simp only [hv, if_false]; exact hR.refl _

/-! ### durability round -/

theorem voteOn_rel {R} (hR : StoreRel R) (s : Store) (ack : Ack) (l : Bool) (p : Proposal) :
    R s (voteOn s ack l p).1 := by
  unfold voteOn
  cases ack with
  | X => exact hR.refl _
  | L => exact hR.sync _ _ _ _
  | D => exact hR.sync _ _ _ _

theorem applyVotes_frame {R} (hR : StoreRel R) (s : Sys) (ln : Nat) (acks : List Ack) (p : Proposal) (vs : List Nat) :
    SameOwners s (applyVotes s ln acks p vs).1 ∧ StoresRel R s (applyVotes s ln acks p vs).1 := by
  induction vs generalizing s with
  | nil => exact ⟨SameOwners.refl _, StoresRel.refl hR _⟩
  | cons v vs ih =>
    simp only [applyVotes]
    have h1 := SameOwners.setStore s v (voteOn (s.storeOf v) (ackOf s acks v) (v == ln) p).1
    have h2 := StoresRel.setStore hR s v _ (voteOn_rel hR (s.storeOf v) (ackOf s acks v) (v == ln) p)
    have ih' := ih (s.setStore v (voteOn (s.storeOf v) (ackOf s acks v) (v == ln) p).1)
    exact ⟨h1.trans ih'.1, StoresRel.trans hR h2 ih'.2⟩

theorem runRound_frame {R} (hR : StoreRel R) (s : Sys) (ln q : Nat) (acks : List Ack) (p : Proposal) :
    SameOwners s (runRound s ln q acks p).1 ∧ StoresRel R s (runRound s ln q acks p).1 := by
  unfold runRound
  exact applyVotes_frame hR s ln acks p _

end WK.Repl

namespace WK.Repl

/-! ### recovery repair, barrier -/

theorem repairPages_frame {R} (hR : StoreRel R) (ps : List PSpec) (ln : Nat) (sel : Selection) (keep : Nat) :
    ∀ (fuel : Nat) (s : Sys) (frm : Nat) (prev : Ident) (cur : RState) (fp : Bool),
      SameOwners s (repairPages s ps ln sel keep fuel frm prev cur fp).1 ∧
      StoresRel R s (repairPages s ps ln sel keep fuel frm prev cur fp).1 := by
  intro fuel
  induction fuel with
  | zero => intro s frm prev cur fp; exact ⟨SameOwners.refl _, StoresRel.refl hR _⟩
  | succ fuel ih =>
    intro s frm prev cur fp
    unfold repairPages
    by_cases h1 : frm > sel.index
    · simp only [h1, if_true]; exact ⟨SameOwners.refl _, StoresRel.refl hR _⟩
    · simp only [h1, if_false]
      cases hf : fetchFromSupporters s ps ln frm sel.index prev sel.supporters none with
      | error e => exact ⟨SameOwners.refl _, StoresRel.refl hR _⟩
      | ok props =>
        simp only
        cases hl : lastOf props with
        | none => exact ⟨SameOwners.refl _, StoresRel.refl hR _⟩
        | some lp =>
          simp only
          split
          · exact ⟨SameOwners.refl _, StoresRel.refl hR _⟩
          · cases hrep : (s.storeOf ln).replace cur (if fp = true then keep else cur.leo) props lp.m.last with
            | error e => exact ⟨SameOwners.refl _, StoresRel.refl hR _⟩
            | ok st =>
              simp only
              have hso := SameOwners.setStore s ln st
              have hsr := StoresRel.setStore hR s ln st (hR.replace _ _ _ _ _ _ hrep)
              cases hld : st.load with
              | error e => exact ⟨hso, hsr⟩
              | ok loaded =>
                simp only
                split
                · exact ⟨hso, hsr⟩
                · have := ih (s.setStore ln st) (lp.m.last + 1) (lastIdent lp.entries) loaded false
                  exact ⟨hso.trans this.1, StoresRel.trans hR hsr this.2⟩

theorem repairPrefix_frame {R} (hR : StoreRel R) (s : Sys) (ps : List PSpec) (ln : Nat) (sel : Selection) :
    SameOwners s (repairPrefix s ps ln sel).1 ∧ StoresRel R s (repairPrefix s ps ln sel).1 := by
  have triv : SameOwners s s ∧ StoresRel R s s := ⟨SameOwners.refl _, StoresRel.refl hR _⟩
  unfold repairPrefix
  cases hl : (s.storeOf ln).load with
  | error e => exact triv
  | ok loc =>
    simp only
    split
    · exact triv
    · split
      · exact triv
      · rename_i previous hprev
        split
        · exact triv
        · have hp := repairPages_frame hR ps ln sel loc.committed (sel.index + 2) s (loc.committed + 1) previous loc true
          generalize hrp : repairPages s ps ln sel loc.committed (sel.index + 2) (loc.committed + 1) previous loc true = rp at hp
          obtain ⟨s1, r1⟩ := rp
          simp only at hp
          cases r1 with
          | error e => exact hp
          | ok fc =>
            obtain ⟨frm, current⟩ := fc
            simp only
            by_cases hz : frm = 1 ∧ sel.index = 0
            · simp only [hz, and_self, if_true]
              cases hrep : (s1.storeOf ln).replace current 0 [] 0 with
              | error e => exact hp
              | ok st =>
                simp only
                have hso := SameOwners.setStore s1 ln st
                have hsr := StoresRel.setStore hR s1 ln st (hR.replace _ _ _ _ _ _ hrep)
                have : SameOwners s (s1.setStore ln st) ∧ StoresRel R s (s1.setStore ln st) :=
                  ⟨hp.1.trans hso, StoresRel.trans hR hp.2 hsr⟩
                split <;> exact this
            · simp only [hz, if_false]
              split <;> exact hp

theorem writeBarrier_frame {R} (hR : StoreRel R) (s : Sys) (ln : Nat) (a : Authority) (rec : RState) (acks : List Ack) :
    SameOwners s (writeBarrier s ln a rec acks).1 ∧ StoresRel R s (writeBarrier s ln a rec acks).1 := by
  have triv : SameOwners s s ∧ StoresRel R s s := ⟨SameOwners.refl _, StoresRel.refl hR _⟩
  unfold writeBarrier
  split
  · exact triv
  · split
    · exact triv
    · dsimp only
      split
      · exact triv
      · rename_i m es hseal
        have := runRound_frame hR s ln a.q acks ⟨m, [0], rec.leo⟩
        generalize runRound s ln a.q acks ⟨m, [0], rec.leo⟩ = rr at this
        obtain ⟨s', ok, out⟩ := rr
        simp only at this ⊢
        split <;> exact this

end WK.Repl

namespace WK.Repl

/-! ### owner steps (install / commit): node `i`'s channel state and the stores move, nothing else -/

def OwnerStep (i : Nat) (s s' : Sys) : Prop :=
  s'.n = s.n ∧ s'.cap = s.cap ∧ (∀ j, (s'.node? j).map (·.up) = (s.node? j).map (·.up)) ∧
  (∀ j, j ≠ i → (s'.node? j).map (·.chan) = (s.node? j).map (·.chan))

theorem OwnerStep.refl (i : Nat) (s : Sys) : OwnerStep i s s := ⟨rfl, rfl, fun _ => rfl, fun _ _ => rfl⟩

theorem OwnerStep.trans {i : Nat} {a b c : Sys} (h1 : OwnerStep i a b) (h2 : OwnerStep i b c) : OwnerStep i a c :=
  ⟨h2.1.trans h1.1, h2.2.1.trans h1.2.1, fun j => (h2.2.2.1 j).trans (h1.2.2.1 j),
   fun j hj => (h2.2.2.2 j hj).trans (h1.2.2.2 j hj)⟩

theorem SameOwners.toOwnerStep {s s' : Sys} (i : Nat) (h : SameOwners s s') : OwnerStep i s s' :=
  ⟨h.1, h.2.1, fun j => (h.2.2 j).2, fun j _ => (h.2.2 j).1⟩

theorem setChan_frame {R} (hR : StoreRel R) {s : Sys} {i : Nat} {nd : NodeSt} (h : s.node? i = some nd) (c : Option QChan) :
    OwnerStep i s (s.setNode i { nd with chan := c }) ∧ StoresRel R s (s.setNode i { nd with chan := c }) := by
  refine ⟨⟨rfl, rfl, fun j => ?_, fun j hj => ?_⟩, fun v => ?_⟩
  · rw [node?_setNode h]; by_cases hj : j = i
    · subst hj; simp [h]
    · simp [hj]
  · rw [node?_setNode h]; simp [hj]
  · rw [storeOf_setNode h]; by_cases hv : v = i
    · subst hv; simp [Sys.storeOf, h]; exact hR.refl _
    · simp [hv]; exact hR.refl _

abbrev Framed (R : Store → Store → Prop) (i : Nat) (s s' : Sys) : Prop := OwnerStep i s s' ∧ StoresRel R s s'

theorem Framed.refl {R} (hR : StoreRel R) (i : Nat) (s : Sys) : Framed R i s s :=
  ⟨OwnerStep.refl i s, StoresRel.refl hR s⟩

theorem Framed.trans {R} (hR : StoreRel R) {i : Nat} {a b c : Sys} (h1 : Framed R i a b) (h2 : Framed R i b c) :
    Framed R i a c := ⟨h1.1.trans h2.1, StoresRel.trans hR h1.2 h2.2⟩

theorem Framed.ofSame {R} {i : Nat} {s s' : Sys} (h : SameOwners s s' ∧ StoresRel R s s') : Framed R i s s' :=
  ⟨h.1.toOwnerStep i, h.2⟩

theorem installFinish_frame {R} (hR : StoreRel R) (i : Nat) (ch : QChan) (a : Authority)
    (fin : Sys × Except Err RState) : Framed R i fin.1 (installFinish i ch a fin).1 := by
  obtain ⟨s2, r2⟩ := fin
  cases r2 with
  | error e => exact Framed.refl hR i s2
  | ok frontier =>
    simp only [installFinish]
    cases hn2 : s2.node? i with
    | none => exact Framed.refl hR i s2
    | some nd' => exact setChan_frame hR hn2 _

theorem installRecover_frame {R} (hR : StoreRel R) (s : Sys) (i : Nat) (ch : QChan) (a : Authority)
    (ps : List PSpec) (acks : List Ack) : Framed R i s (installRecover s i ch a ps acks).1 := by
  unfold installRecover
  split
  · exact Framed.refl hR i s
  · cases hrec : recoverPrefix s a.q ps with
    | error e => exact Framed.refl hR i s
    | ok sel =>
      simp only
      have f1 := Framed.ofSame (i := i) (repairPrefix_frame hR s ps i sel)
      generalize repairPrefix s ps i sel = rp at f1 ⊢
      obtain ⟨s1, r1⟩ := rp
      cases r1 with
      | error e => exact f1
      | ok recovered =>
        simp only
        refine Framed.trans hR f1 (Framed.trans hR ?_ (installFinish_frame hR i ch a _))
        split
        · exact Framed.ofSame (writeBarrier_frame hR s1 i a recovered acks)
        · exact Framed.refl hR i s1

theorem install_frame {R} (hR : StoreRel R) (s : Sys) (i : Nat) (a : Authority) (ps : List PSpec) (acks : List Ack) :
    Framed R i s (install s i a ps acks).1 := by
  unfold install
  cases hn : s.node? i with
  | none => exact Framed.refl hR i s
  | some nd =>
    simp only
    split
    · exact Framed.refl hR i s
    · split
      · exact Framed.refl hR i s
      · exact Framed.trans hR (setChan_frame hR hn _) (installRecover_frame hR _ i _ a ps acks)

theorem commitRetry_frame {R} (hR : StoreRel R) (s : Sys) (i : Nat) (ch : QChan) (r : Retained) (acks : List Ack) :
    Framed R i s (commitRetry s i ch r acks).1 := by
  unfold commitRetry
  have f := Framed.ofSame (i := i) (runRound_frame hR s i ch.auth.q acks r.p)
  generalize runRound s i ch.auth.q acks r.p = rr at f ⊢
  obtain ⟨s', ok, out⟩ := rr
  simp only
  split
  · exact f
  · cases hn : s'.node? i with
    | none => exact f
    | some nd' => exact Framed.trans hR f (setChan_frame hR hn _)

theorem commitFresh_frame {R} (hR : StoreRel R) (s : Sys) (i : Nat) (nd : NodeSt) (hn : s.node? i = some nd)
    (ch : QChan) (cmd : Cmd) (cs : List Nat) (acks : List Ack) :
    Framed R i s (commitFresh s i nd ch cmd cs acks).1 := by
  unfold commitFresh
  cases hs : sealBusiness ch cmd cs with
  | none => exact Framed.refl hR i s
  | some r =>
    simp only
    have f0 := setChan_frame hR hn (some { ch with pending := some r })
    generalize s.setNode i { nd with chan := some { ch with pending := some r } } = s0 at f0 ⊢
    have f := Framed.ofSame (i := i) (runRound_frame hR s0 i ch.auth.q acks r.p)
    generalize runRound s0 i ch.auth.q acks r.p = rr at f ⊢
    obtain ⟨s', ok, out⟩ := rr
    simp only
    have f01 := Framed.trans hR f0 f
    cases hn' : s'.node? i with
    | none => exact f01
    | some nd' =>
      simp only
      split
      · split
        · exact Framed.trans hR f01 (setChan_frame hR hn' _)
        · exact f01
      · exact Framed.trans hR f01 (setChan_frame hR hn' _)

theorem commitAdmitted_frame {R} (hR : StoreRel R) (s : Sys) (i : Nat) (nd : NodeSt) (hn : s.node? i = some nd)
    (ch : QChan) (cmd : Cmd) (cs : List Nat) (acks : List Ack) :
    Framed R i s (commitAdmitted s i nd ch cmd cs acks).1 := by
  unfold commitAdmitted
  split
  · split
    · exact Framed.refl hR i s
    · split
      · exact Framed.refl hR i s
      · exact commitRetry_frame hR s i ch _ acks
  · split
    · split
      · split
        · exact Framed.refl hR i s
        · exact commitRetry_frame hR s i ch _ acks
      · exact Framed.refl hR i s
    · exact commitFresh_frame hR s i nd hn ch cmd cs acks

theorem commit_frame {R} (hR : StoreRel R) (s : Sys) (i : Nat) (e : AuthId) (c : Nat) (cs : List Nat) (acks : List Ack) :
    Framed R i s (commit s i e c cs acks).1 := by
  unfold commit
  cases hn : s.node? i with
  | none => exact Framed.refl hR i s
  | some nd =>
    simp only
    split
    · exact Framed.refl hR i s
    · split
      · exact Framed.refl hR i s
      · split
        · exact Framed.refl hR i s
        · split
          · exact Framed.refl hR i s
          · split
            · exact Framed.refl hR i s
            · exact commitAdmitted_frame hR s i nd hn _ _ cs acks

/-! ### follower gap repair -/

theorem repairProps_frame {R} (hR : StoreRel R) (f c : Nat) : ∀ (ps : List PRec) (s : Sys),
    SameOwners s (repairProps s f c ps).1 ∧ StoresRel R s (repairProps s f c ps).1 := by
  intro ps
  induction ps with
  | nil => intro s; exact ⟨SameOwners.refl _, StoresRel.refl hR _⟩
  | cons p ps ih =>
    intro s
    simp only [repairProps]
    split
    · exact ⟨SameOwners.refl _, StoresRel.refl hR _⟩
    · have h1 := SameOwners.setStore s f ((s.storeOf f).sync p.m p.contents (min c p.m.last)).1
      have h2 := StoresRel.setStore hR s f _ (hR.sync (s.storeOf f) p.m p.contents (min c p.m.last))
      generalize (s.storeOf f).sync p.m p.contents (min c p.m.last) = r at h1 h2 ⊢
      obtain ⟨st, out⟩ := r
      simp only at h1 h2 ⊢
      split
      · have := ih (s.setStore f st)
        exact ⟨h1.trans this.1, StoresRel.trans hR h2 this.2⟩
      · exact ⟨h1, h2⟩

theorem batchProps_frame {R} (hR : StoreRel R) (f c : Nat) : ∀ (ps : List PRec) (s : Sys),
    SameOwners s (batchProps s f c ps).1 ∧ StoresRel R s (batchProps s f c ps).1 := by
  intro ps
  induction ps with
  | nil => intro s; exact ⟨SameOwners.refl _, StoresRel.refl hR _⟩
  | cons p ps ih =>
    intro s
    simp only [batchProps]
    have h1 := SameOwners.setStore s f ((s.storeOf f).sync p.m p.contents (min c p.m.last)).1
    have h2 := StoresRel.setStore hR s f _ (hR.sync (s.storeOf f) p.m p.contents (min c p.m.last))
    generalize (s.storeOf f).sync p.m p.contents (min c p.m.last) = r at h1 h2 ⊢
    obtain ⟨st, out⟩ := r
    simp only at h1 h2 ⊢
    have := ih (s.setStore f st)
    exact ⟨h1.trans this.1, StoresRel.trans hR h2 this.2⟩

theorem batchFollower_frame {R} (hR : StoreRel R) (s : Sys) (l f nf : Nat) :
    SameOwners s (batchFollower s l f nf).1 ∧ StoresRel R s (batchFollower s l f nf).1 := by
  have triv : SameOwners s s ∧ StoresRel R s s := ⟨SameOwners.refl _, StoresRel.refl hR _⟩
  unfold batchFollower
  split
  · exact triv
  · cases hl : (s.storeOf l).load with
    | error e => exact triv
    | ok state =>
      dsimp only
      split
      · exact triv
      · exact batchProps_frame hR f state.committed _ s

theorem repairFollower_frame {R} (hR : StoreRel R) (s : Sys) (l f nf : Nat) :
    SameOwners s (repairFollower s l f nf).1 ∧ StoresRel R s (repairFollower s l f nf).1 := by
  have triv : SameOwners s s ∧ StoresRel R s s := ⟨SameOwners.refl _, StoresRel.refl hR _⟩
  unfold repairFollower
  split
  · exact batchFollower_frame hR s l f (nf - 1000)
  rename_i hnb
  split
  · exact triv
  · cases hl : (s.storeOf l).load with
    | error e => exact triv
    | ok state =>
      simp only
      split
      · exact triv
      · generalize (if nf > 1 then
            match (s.storeOf l).probe (nf - 1) with
            | Except.ok (some id) => some id
            | _ => none
          else some Ident.zero) = pe
        cases pe with
        | none => exact triv
        | some previous =>
          simp only
          cases hf : (s.storeOf l).fetch state nf state.manifest.last previous with
          | error e => exact triv
          | ok props =>
            simp only
            have := repairProps_frame hR f state.committed props s
            generalize repairProps s f state.committed props = r at this ⊢
            obtain ⟨s', b⟩ := r
            cases b <;> exact this

/-! ### whole steps -/

theorem started_frame {R} (hR : StoreRel R) (s : Sys) : StoresRel R s { s with started := true } :=
  fun v => by
    have : ({ s with started := true } : Sys).storeOf v = s.storeOf v := rfl
    rw [this]; exact hR.refl _

/-- every op other than an accepted `cfg` moves stores only through `sync` / `replace` -/
theorem step_stores {R} (hR : StoreRel R) (s : Sys) (op : Op) (hs : s.started = true) :
    StoresRel R s (step s op).1 := by
  obtain ⟨n, q, cap, started, nodes, owners⟩ := s
  simp only at hs
  subst hs
  cases op with
  | cfg n q cap fr => simp [step]; exact StoresRel.refl hR _
  | crash i =>
    simp only [step]
    cases hn : Sys.node? ⟨n, q, cap, true, nodes, owners⟩ i with
    | none => exact StoresRel.refl hR _
    | some nd =>
      simp only
      split
      · exact StoresRel.refl hR _
      · intro v; rw [storeOf_setNode hn]
        by_cases hv : v = i
        · subst hv; simp [Sys.storeOf, hn]; exact hR.refl _
        · simp [hv]; exact hR.refl _
  | restart i =>
    simp only [step]
    cases hn : Sys.node? ⟨n, q, cap, true, nodes, owners⟩ i with
    | none => exact StoresRel.refl hR _
    | some nd =>
      simp only
      split
      · exact StoresRel.refl hR _
      · intro v; rw [storeOf_setNode hn]
        by_cases hv : v = i
        · subst hv; simp [Sys.storeOf, hn]; exact hR.refl _
        · simp [hv]; exact hR.refl _
  | repair l f nf =>
    simp only [step]
    split
    · split
      · exact StoresRel.refl hR _
      · exact (repairFollower_frame hR _ l f nf).2
    · exact StoresRel.refl hR _
  | install i a ps acks =>
    simp only [step]
    cases hn : Sys.node? ⟨n, q, cap, true, nodes, owners⟩ i with
    | none => exact StoresRel.refl hR _
    | some nd =>
      simp only
      split
      · exact StoresRel.refl hR _
      · split
        · split
          · exact StoresRel.refl hR _
          · split
            · exact StoresRel.refl hR _
            · exact (install_frame hR _ i a ps acks).2
        · split
          · exact StoresRel.refl hR _
          · have := (install_frame hR ⟨n, q, cap, true, nodes, (a.id, i) :: owners⟩ i a ps acks).2
            intro v; exact this v
  | commit i e c k p acks =>
    simp only [step]
    cases hn : Sys.node? ⟨n, q, cap, true, nodes, owners⟩ i with
    | none => exact StoresRel.refl hR _
    | some nd =>
      simp only
      split
      · exact StoresRel.refl hR _
      · split
        · exact StoresRel.refl hR _
        · exact (commit_frame hR _ i e c _ acks).2

end WK.Repl

import WK.Model.Repl
/-
  Frame lemmas for the shared replication model: which parts of `Sys` an
  operation can touch.  Used by the C02/C03/C04 theorems.
-/
namespace WK.Repl

/-! ### list plumbing -/

theorem getElem?_setAt {α : Type} (l : List α) (k j : Nat) (v : α) :
    (setAt l k v)[j]? = if j = k ∧ k < l.length then some v else l[j]? := by
  induction l generalizing k j with
  | nil => simp [setAt]
  | cons x xs ih =>
    cases k with
    | zero =>
      cases j with
      | zero => simp [setAt]
      | succ j => simp [setAt]
    | succ k =>
      cases j with
      | zero => simp [setAt]
      | succ j =>
        simp only [setAt, List.getElem?_cons_succ, ih, List.length_cons]
        by_cases h : j = k
        · subst h; simp
        · have : ¬ (j + 1 = k + 1) := by omega
          simp [h, this]

theorem length_setAt {α : Type} (l : List α) (k : Nat) (v : α) : (setAt l k v).length = l.length := by
  induction l generalizing k with
  | nil => simp [setAt]
  | cons x xs ih => cases k <;> simp [setAt, ih]

/-! ### node access -/

theorem node?_zero (s : Sys) : s.node? 0 = none := by simp [Sys.node?]

theorem node?_some_pos {s : Sys} {i : Nat} {nd : NodeSt} (h : s.node? i = some nd) : i ≠ 0 := by
  intro h0; subst h0; simp [Sys.node?] at h

theorem node?_setNode {s : Sys} {i : Nat} {nd0 : NodeSt} (h : s.node? i = some nd0) (nd : NodeSt) (j : Nat) :
    (s.setNode i nd).node? j = if j = i then some nd else s.node? j := by
  have hi : i ≠ 0 := node?_some_pos h
  have hlen : i - 1 < s.nodes.length := by
    simp [Sys.node?, hi] at h
    exact (List.getElem?_eq_some_iff.mp h).1
  by_cases hj0 : j = 0
  · subst hj0
    have : (0 : Nat) ≠ i := fun e => hi e.symm
    simp [Sys.node?, this]
  · simp only [Sys.node?, Sys.setNode, hj0, if_false, getElem?_setAt]
    by_cases hji : j = i
    · subst hji; simp [hlen]
    · have : ¬ (j - 1 = i - 1) := by omega
      simp [hji, this]

@[simp] theorem setNode_n (s : Sys) (i : Nat) (nd : NodeSt) : (s.setNode i nd).n = s.n := rfl
@[simp] theorem setNode_cap (s : Sys) (i : Nat) (nd : NodeSt) : (s.setNode i nd).cap = s.cap := rfl
@[simp] theorem setNode_q (s : Sys) (i : Nat) (nd : NodeSt) : (s.setNode i nd).q = s.q := rfl

theorem storeOf_setNode {s : Sys} {i : Nat} {nd0 : NodeSt} (h : s.node? i = some nd0) (nd : NodeSt) (v : Nat) :
    (s.setNode i nd).storeOf v = if v = i then nd.store else s.storeOf v := by
  simp only [Sys.storeOf, node?_setNode h]
  by_cases hv : v = i <;> simp [hv]

theorem isUp_setNode {s : Sys} {i : Nat} {nd0 : NodeSt} (h : s.node? i = some nd0) (nd : NodeSt) (v : Nat) :
    (s.setNode i nd).isUp v = if v = i then nd.up else s.isUp v := by
  simp only [Sys.isUp, node?_setNode h]
  by_cases hv : v = i <;> simp [hv]

/-- `setStore` changes exactly one store and nothing else about any node -/
theorem node?_setStore (s : Sys) (i : Nat) (st : Store) (j : Nat) :
    (s.setStore i st).node? j =
      match s.node? j with
      | some nd => if j = i then some { nd with store := st } else some nd
      | none => none := by
  unfold Sys.setStore
  cases hi : s.node? i with
  | none =>
    simp only
    cases hj : s.node? j with
    | none => rfl
    | some nd =>
      have : j ≠ i := by intro e; subst e; simp [hi] at hj
      simp [this]
  | some nd0 =>
    simp only [node?_setNode hi]
    by_cases hji : j = i
    · subst hji; simp [hi]
    · simp [hji]; cases s.node? j <;> rfl

theorem storeOf_setStore (s : Sys) (i : Nat) (st : Store) (v : Nat) :
    (s.setStore i st).storeOf v = if v = i ∧ (s.node? i).isSome then st else s.storeOf v := by
  simp only [Sys.storeOf, node?_setStore]
  by_cases hv : v = i
  · subst hv; cases h : s.node? v <;> simp
  · cases h : s.node? v <;> simp [hv]

theorem chan_setStore (s : Sys) (i : Nat) (st : Store) (j : Nat) :
    ((s.setStore i st).node? j).map (·.chan) = (s.node? j).map (·.chan) := by
  rw [node?_setStore]
  cases s.node? j with
  | none => rfl
  | some nd => by_cases h : j = i <;> simp [h]

theorem up_setStore (s : Sys) (i : Nat) (st : Store) (j : Nat) :
    ((s.setStore i st).node? j).map (·.up) = (s.node? j).map (·.up) := by
  rw [node?_setStore]
  cases s.node? j with
  | none => rfl
  | some nd => by_cases h : j = i <;> simp [h]

@[simp] theorem setStore_n (s : Sys) (i : Nat) (st : Store) : (s.setStore i st).n = s.n := by
  unfold Sys.setStore; cases s.node? i <;> rfl
@[simp] theorem setStore_cap (s : Sys) (i : Nat) (st : Store) : (s.setStore i st).cap = s.cap := by
  unfold Sys.setStore; cases s.node? i <;> rfl

/-! ### "only stores move" — the relation every sub-protocol satisfies -/

/-- `s'` differs from `s` at most in the node stores -/
def SameOwners (s s' : Sys) : Prop :=
  s'.n = s.n ∧ s'.cap = s.cap ∧
  ∀ j, ((s'.node? j).map (·.chan) = (s.node? j).map (·.chan)) ∧ ((s'.node? j).map (·.up) = (s.node? j).map (·.up))

theorem SameOwners.refl (s : Sys) : SameOwners s s := ⟨rfl, rfl, fun _ => ⟨rfl, rfl⟩⟩

theorem SameOwners.trans {a b c : Sys} (h1 : SameOwners a b) (h2 : SameOwners b c) : SameOwners a c :=
  ⟨h2.1.trans h1.1, h2.2.1.trans h1.2.1, fun j => ⟨((h2.2.2 j).1).trans ((h1.2.2 j).1), ((h2.2.2 j).2).trans ((h1.2.2 j).2)⟩⟩

theorem SameOwners.setStore (s : Sys) (i : Nat) (st : Store) : SameOwners s (s.setStore i st) :=
  ⟨by simp, by simp, fun j => ⟨chan_setStore s i st j, up_setStore s i st j⟩⟩

theorem SameOwners.isUp {s s' : Sys} (h : SameOwners s s') (v : Nat) : s'.isUp v = s.isUp v := by
  have := (h.2.2 v).2
  unfold Sys.isUp
  cases h1 : s'.node? v <;> cases h2 : s.node? v <;> simp [h1, h2] at this ⊢
  exact this

theorem SameOwners.node_isSome {s s' : Sys} (h : SameOwners s s') (v : Nat) :
    (s'.node? v).isSome = (s.node? v).isSome := by
  have := (h.2.2 v).2
  cases h1 : s'.node? v <;> cases h2 : s.node? v <;> simp [h1, h2] at this ⊢

/-- a reflexive, transitive relation on stores that every store primitive respects -/
structure StoreRel (R : Store → Store → Prop) : Prop where
  refl : ∀ s, R s s
  trans : ∀ a b c, R a b → R b c → R a c
  sync : ∀ s m cs c, R s (s.sync m cs c).1
  replace : ∀ s e k ps c s', s.replace e k ps c = .ok s' → R s s'

def StoresRel (R : Store → Store → Prop) (s s' : Sys) : Prop := ∀ v, R (s.storeOf v) (s'.storeOf v)

theorem StoresRel.refl {R} (hR : StoreRel R) (s : Sys) : StoresRel R s s := fun v => hR.refl _
theorem StoresRel.trans {R} (hR : StoreRel R) {a b c : Sys} (h1 : StoresRel R a b) (h2 : StoresRel R b c) :
    StoresRel R a c := fun v => hR.trans _ _ _ (h1 v) (h2 v)

theorem StoresRel.setStore {R} (hR : StoreRel R) (s : Sys) (i : Nat) (st : Store) (h : R (s.storeOf i) st) :
    StoresRel R s (s.setStore i st) := by
  intro v
  rw [storeOf_setStore]
  by_cases hv : v = i ∧ (s.node? i).isSome
  · simp only [hv, and_self, if_true]; rw [hv.1]; exact h
  · simp only [hv, if_false]; exact hR.refl _

/-! ### durability round -/

theorem voteOn_rel {R} (hR : StoreRel R) (s : Store) (ack : Ack) (l : Bool) (p : Proposal) :
    R s (voteOn s ack l p).1 := by
  unfold voteOn
  cases ack with
  | X => exact hR.refl _
  | L => exact hR.sync _ _ _ _
  | D => exact hR.sync _ _ _ _

theorem applyVotes_frame {R} (hR : StoreRel R) (s : Sys) (ln : Nat) (acks : List Ack) (p : Proposal) (vs : List Nat) :
    SameOwners s (applyVotes s ln acks p vs).1 ∧ StoresRel R s (applyVotes s ln acks p vs).1 := by
  induction vs generalizing s with
  | nil => exact ⟨SameOwners.refl _, StoresRel.refl hR _⟩
  | cons v vs ih =>
    simp only [applyVotes]
    have h1 := SameOwners.setStore s v (voteOn (s.storeOf v) (ackOf s acks v) (v == ln) p).1
    have h2 := StoresRel.setStore hR s v _ (voteOn_rel hR (s.storeOf v) (ackOf s acks v) (v == ln) p)
    have ih' := ih (s.setStore v (voteOn (s.storeOf v) (ackOf s acks v) (v == ln) p).1)
    exact ⟨h1.trans ih'.1, StoresRel.trans hR h2 ih'.2⟩

theorem runRound_frame {R} (hR : StoreRel R) (s : Sys) (ln q : Nat) (acks : List Ack) (p : Proposal) :
    SameOwners s (runRound s ln q acks p).1 ∧ StoresRel R s (runRound s ln q acks p).1 := by
  unfold runRound
  exact applyVotes_frame hR s ln acks p _

end WK.Repl

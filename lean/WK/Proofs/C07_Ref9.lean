import WK.Proofs.C07_Ref8
/-
  C07 — the index lookups by message id and by idempotency key refine the derived lookups of the reference log.
-/
namespace WK.C07

theorem refines_byid (st : Store) (c id : Nat) (hi : Inv st) (hk : Chk st) : Refines st (.byid c id) := by
  refine ⟨rfl, ?_, hk⟩
  show doByid st c id = specByid (abs st) c id
  unfold doByid specByid
  by_cases h0 : id = 0
  · rw [if_pos h0, if_pos h0]
  rw [if_neg h0, if_neg h0, abs_rows]
  cases hf : (st.chan c).rows.find? (fun r => r.id = id) with
  | some r =>
    have hr := List.mem_of_find?_eq_some hf
    have hid : r.id = id := by have := List.find?_some hf; simpa using this
    have hl := (hi.gidx id c r.seq).mpr ⟨r, hr, hid, rfl⟩
    rw [hl]
    dsimp only
    rw [if_neg (fun h => h rfl), getRow_live _ (hi.chan c) (hk c) r hr]
    dsimp only
    rw [if_neg (fun h => h hid)]
  | none =>
    have hno : ∀ r ∈ (st.chan c).rows, r.id ≠ id := by
      intro r hr e
      have := List.find?_eq_none.mp hf r hr
      simp [e] at this
    cases hl : alookup id st.gidx with
    | none => rfl
    | some v =>
      obtain ⟨c', s⟩ := v
      dsimp only
      by_cases hc : c' ≠ c
      · rw [if_pos hc]
      · exfalso
        have hc' : c' = c := by simpa using hc
        subst hc'
        obtain ⟨r, hr, e, _⟩ := (hi.gidx id c' s).mp hl
        exact hno r hr e

theorem refines_idem (st : Store) (c : Nat) (frm cmn : B) (hi : Inv st) (hk : Chk st) : Refines st (.idem c frm cmn) := by
  refine ⟨rfl, ?_, hk⟩
  show doIdem st c frm cmn = specIdem (abs st) c frm cmn
  unfold doIdem specIdem
  by_cases h0 : frm = [] ∨ cmn = []
  · rw [if_pos h0, if_pos h0]
  rw [if_neg h0, if_neg h0, abs_rows]
  have n1 : frm ≠ [] := fun e => h0 (Or.inl e)
  have n2 : cmn ≠ [] := fun e => h0 (Or.inr e)
  rcases lookupIdem_eq (st.chan c) (hi.chan c) (hk c) frm cmn n1 n2 with ⟨hn, hl⟩ | ⟨r, hr, hl, ha⟩
  · rw [hl]
    cases hf : (st.chan c).rows.find? (fun r => r.frm = frm ∧ r.cmn = cmn) with
    | none => rfl
    | some r =>
      exfalso
      have hr := List.mem_of_find?_eq_some hf
      have hp := List.find?_some hf
      simp only [decide_eq_true_eq] at hp
      have := ((hi.chan c).iidx cmn frm (r.seq, r.id, r.hash)).mpr ⟨r, hr, hp.2, hp.1, n1, n2, rfl⟩
      rw [hn] at this; cases this
  · rw [hl]
    obtain ⟨_, _, e1, e2, _⟩ := ((hi.chan c).iidx cmn frm _).mp ha
    cases hf : (st.chan c).rows.find? (fun r => r.frm = frm ∧ r.cmn = cmn) with
    | none =>
      exfalso
      have := List.find?_eq_none.mp hf r hr
      obtain ⟨x, hx, x1, x2, _, _, xv⟩ := ((hi.chan c).iidx cmn frm _).mp ha
      simp only [Prod.mk.injEq] at xv
      have hxr : x = r := (hi.chan c).uniq x hx r hr xv.1.symm
      subst hxr
      simp [x1, x2] at this
    | some r' =>
      have hr' := List.mem_of_find?_eq_some hf
      have hp := List.find?_some hf
      simp only [decide_eq_true_eq] at hp
      have a' := ((hi.chan c).iidx cmn frm (r'.seq, r'.id, r'.hash)).mpr ⟨r', hr', hp.2, hp.1, n1, n2, rfl⟩
      rw [ha] at a'
      simp only [Option.some.injEq, Prod.mk.injEq] at a'
      have : r' = r := (hi.chan c).uniq r' hr' r hr a'.1.symm
      subst this
      rfl

end WK.C07

import WK.Proofs.C31_judge
/-
  C31 — what the judge state records about plan packing / admission / presence answers.
-/
namespace WK.C31

def packedPairs (tr : List Ev) : List (Nat × Nat) :=
  tr.flatMap (fun e => match e with | .enq m _ bs => (bs.flatMap (·.2)).map (fun u => (m, u)) | _ => [])
def acceptedBatches (tr : List Ev) : List Nat :=
  tr.flatMap (fun e => match e with | .enq m true bs => bs.map (fun _ => m) | _ => [])
def presAnswers (tr : List Ev) : List Nat :=
  tr.flatMap (fun e => match e with | .pres m _ _ _ => [m] | _ => [])
def rejectedMsgs (tr : List Ev) : List Nat :=
  tr.flatMap (fun e => match e with | .enq m false _ => [m] | _ => [])

theorem lookup_cons {α : Type} (l : List (Nat × α)) (k k' : Nat) (v : α) :
    lookup ((k, v) :: l) k' = if k = k' then some v else lookup l k' := by
  unfold lookup
  by_cases h : k = k' <;> simp [List.find?_cons, h]

structure PInv (j : J) (pre : List Ev) : Prop where
  hpk : ∀ x, j.packed.count x = (packedPairs pre).count x
  henq : ∀ m, j.enqCnt.count m = (acceptedBatches pre).count m
  hprs : ∀ m, j.presCnt.count m = (presAnswers pre).count m
  hrej : ∀ m, m ∈ j.rejected ↔ m ∈ rejectedMsgs pre
  hmsg : ∀ m ch seq mode frm sn ss recips, Ev.msg m ch seq mode frm sn ss recips ∈ pre →
      ∃ i, lookup j.msgs m = some i ∧ i.recips = recips
  hbound : ∀ m i u, lookup j.msgs m = some i → j.packed.count (m, u) ≤ i.recips.count u
  hfresh : ∀ m u, (m, u) ∈ j.packed → (lookup j.msgs m).isSome = true

theorem attempt_keep2 {j j' : J} {m uid node sess : Nat} {term : Bool} (h : attempt j m uid node sess term = .ok j') :
    j'.msgs = j.msgs ∧ j'.packed = j.packed ∧ j'.enqCnt = j.enqCnt ∧ j'.presCnt = j.presCnt ∧ j'.rejected = j.rejected := by
  unfold attempt at h
  repeat' split at h
  all_goals try (dsimp only at h)
  all_goals repeat' split at h
  all_goals first
    | (cases h; exact ⟨rfl, rfl, rfl, rfl, rfl⟩)
    | cases h

theorem attemptAll_keep2 {m : Nat} {ok : Bool} : ∀ (rs : List RouteAtt) (j j' : J), attemptAll j m ok rs = .ok j' →
    j'.msgs = j.msgs ∧ j'.packed = j.packed ∧ j'.enqCnt = j.enqCnt ∧ j'.presCnt = j.presCnt ∧ j'.rejected = j.rejected
  | [], j, j', h => by simp [attemptAll] at h; subst h; simp
  | (uid, node, sess, d) :: rs, j, j', h => by
    simp only [attemptAll] at h
    cases ha : attempt j m uid node sess (ok && (d == 1 || d == 3)) with
    | error e => simp [ha] at h
    | ok j1 =>
      simp only [ha] at h
      obtain ⟨a1, a2, a3, a4, a5⟩ := attempt_keep2 ha
      obtain ⟨b1, b2, b3, b4, b5⟩ := attemptAll_keep2 rs j1 j' h
      exact ⟨b1.trans a1, b2.trans a2, b3.trans a3, b4.trans a4, b5.trans a5⟩

theorem pinv_keep {j j2 : J} {pre : List Ev} {e : Ev} (hI : PInv j pre)
    (h1 : j2.msgs = j.msgs) (h2 : j2.packed = j.packed) (h3 : j2.enqCnt = j.enqCnt) (h4 : j2.presCnt = j.presCnt)
    (h5 : j2.rejected = j.rejected)
    (p1 : packedPairs [e] = []) (p2 : acceptedBatches [e] = []) (p3 : presAnswers [e] = []) (p4 : rejectedMsgs [e] = [])
    (p5 : ∀ m ch seq mode frm sn ss recips, e ≠ Ev.msg m ch seq mode frm sn ss recips) : PInv j2 (pre ++ [e]) := by
  constructor
  · intro x; rw [h2, hI.hpk x]; simp [packedPairs] at p1 ⊢; simp [p1]
  · intro m; rw [h3, hI.henq m]; simp [acceptedBatches] at p2 ⊢; simp [p2]
  · intro m; rw [h4, hI.hprs m]; simp [presAnswers] at p3 ⊢; simp [p3]
  · intro m; rw [h5, hI.hrej m]; simp [rejectedMsgs] at p4 ⊢; simp [p4]
  · intro m ch seq mode frm sn ss recips hm
    rcases List.mem_append.mp hm with hm | hm
    · rw [h1]; exact hI.hmsg _ _ _ _ _ _ _ _ hm
    · simp at hm; exact absurd hm.symm (p5 _ _ _ _ _ _ _ _)
  · intro m i u hl; rw [h1] at hl; rw [h2]; exact hI.hbound m i u hl
  · intro m u hm; rw [h2] at hm; rw [h1]; exact hI.hfresh m u hm


theorem count_map_const (m m' : Nat) {β : Type} : ∀ bs : List β, (bs.map (fun _ => m)).count m' = if m = m' then bs.length else 0
  | [] => by simp
  | _ :: bs => by
    simp only [List.map_cons, List.count_cons, count_map_const m m' bs, beq_iff_eq, List.length_cons]
    by_cases h : m = m' <;> simp [h]

theorem pinv_step {j j' : J} {pre : List Ev} {e : Ev} (hI : PInv j pre) (h : stepJ j e = .ok j') : PInv j' (pre ++ [e]) := by
  cases e with
  | stopCall => simp only [stepJ] at h; cases h; exact pinv_keep hI rfl rfl rfl rfl rfl rfl rfl rfl rfl (by simp)
  | stopRet ok =>
    simp only [stepJ] at h
    split at h
    · cases h
    · cases h; exact pinv_keep hI rfl rfl rfl rfl rfl rfl rfl rfl rfl (by simp)
  | write m uid node sess d =>
    simp only [stepJ] at h
    obtain ⟨a1, a2, a3, a4, a5⟩ := attempt_keep2 h
    exact pinv_keep hI a1 a2 a3 a4 a5 rfl rfl rfl rfl (by simp)
  | remote m owner ok rs =>
    simp only [stepJ] at h
    obtain ⟨a1, a2, a3, a4, a5⟩ := attemptAll_keep2 rs j j' h
    exact pinv_keep hI a1 a2 a3 a4 a5 rfl rfl rfl rfl (by simp)
  | offline m us =>
    simp only [stepJ] at h
    repeat' split at h
    all_goals first
      | (cases h; exact pinv_keep hI rfl rfl rfl rfl rfl rfl rfl rfl rfl (by simp))
      | cases h
  | pres m g ok us =>
    simp only [stepJ] at h
    split at h
    · cases h
    · have key : ∀ j2 : J, j2.msgs = j.msgs → j2.packed = j.packed → j2.enqCnt = j.enqCnt → j2.presCnt = m :: j.presCnt →
          j2.rejected = j.rejected → PInv j2 (pre ++ [Ev.pres m g ok us]) := by
        intro j2 h1 h2 h3 h4 h5
        constructor
        · intro x; rw [h2, hI.hpk x]; simp [packedPairs]
        · intro m'; rw [h3, hI.henq m']; simp [acceptedBatches]
        · intro m'; rw [h4]; simp only [presAnswers, List.flatMap_append, List.count_append, List.count_cons]
          have := hI.hprs m'; simp only [presAnswers] at this
          simp [this, Nat.add_comm]
          by_cases hmm : m = m' <;> simp [hmm]
        · intro m'; rw [h5, hI.hrej m']; simp [rejectedMsgs]
        · intro m' ch seq mode frm sn ss recips hm
          rcases List.mem_append.mp hm with hm | hm
          · rw [h1]; exact hI.hmsg _ _ _ _ _ _ _ _ hm
          · simp at hm
        · intro m' i u hl; rw [h1] at hl; rw [h2]; exact hI.hbound m' i u hl
        · intro m' u hm; rw [h2] at hm; rw [h1]; exact hI.hfresh m' u hm
      split at h <;> cases h <;> exact key _ rfl rfl rfl rfl rfl
  | msg m ch seq mode frm snode ssess recips =>
    simp only [stepJ] at h
    split at h
    · cases h
    · rename_i hnew
      cases h
      have hnone : lookup j.msgs m = none := by
        cases hl : lookup j.msgs m with
        | none => rfl
        | some v => simp [hl] at hnew
      constructor
      · intro x; rw [hI.hpk x]; simp [packedPairs]
      · intro m'; rw [hI.henq m']; simp [acceptedBatches]
      · intro m'; rw [hI.hprs m']; simp [presAnswers]
      · intro m'; rw [hI.hrej m']; simp [rejectedMsgs]
      · intro m' ch' seq' mode' frm' sn' ss' recips' hm
        simp only [lookup_cons]
        rcases List.mem_append.mp hm with hm | hm
        · obtain ⟨i, hi, hr⟩ := hI.hmsg _ _ _ _ _ _ _ _ hm
          have : m ≠ m' := by intro heq; subst heq; rw [hnone] at hi; cases hi
          simp [this, hi, hr]
        · simp at hm
          obtain ⟨rfl, _, _, _, _, _, _, rfl⟩ := hm
          simp
      · intro m' i u hl
        simp only [lookup_cons] at hl
        by_cases hmm : m = m'
        · subst hmm
          have : j.packed.count (m, u) = 0 := by
            apply List.count_eq_zero.mpr
            intro hin
            have := hI.hfresh m u hin
            rw [hnone] at this; cases this
          simp [this]
        · simp only [hmm, if_false] at hl
          exact hI.hbound m' i u hl
      · intro m' u hm
        simp only [lookup_cons]
        have := hI.hfresh m' u hm
        by_cases hmm : m = m' <;> simp [hmm, this]
  | enq m ok batches =>
    simp only [stepJ] at h
    split at h
    · cases h
    · rename_i i hmsg
      split at h
      · cases h
      · rename_i hchk
        have hchk' : ∀ u ∈ batches.flatMap (·.2), j.packed.count (m, u) + (batches.flatMap (·.2)).count u ≤ i.recips.count u := by
          intro u hu
          have := hchk
          simp only [List.any_eq_true, not_exists, not_and, decide_eq_true_eq, Bool.not_eq_true] at this
          have := this u hu
          simpa using this
        have key : ∀ j2 : J, j2.msgs = j.msgs → j2.packed = (batches.flatMap (·.2)).map (fun u => (m, u)) ++ j.packed →
            (∀ m', j2.enqCnt.count m' = (acceptedBatches (pre ++ [Ev.enq m ok batches])).count m') →
            j2.presCnt = j.presCnt → (∀ m', m' ∈ j2.rejected ↔ m' ∈ rejectedMsgs (pre ++ [Ev.enq m ok batches])) →
            PInv j2 (pre ++ [Ev.enq m ok batches]) := by
          intro j2 h1 h2 h3 h4 h5
          constructor
          · intro x
            rw [h2]
            simp only [packedPairs, List.flatMap_append, List.count_append]
            have := hI.hpk x; simp only [packedPairs] at this
            simp [this, Nat.add_comm]
          · exact h3
          · intro m'; rw [h4, hI.hprs m']; simp [presAnswers]
          · exact h5
          · intro m' ch seq mode frm sn ss recips hm
            rcases List.mem_append.mp hm with hm | hm
            · rw [h1]; exact hI.hmsg _ _ _ _ _ _ _ _ hm
            · simp at hm
          · intro m' i' u hl
            rw [h1] at hl; rw [h2]
            simp only [List.count_append, count_map_pair]
            by_cases hmm : m' = m
            · subst hmm
              rw [hmsg] at hl; cases hl
              simp only [if_true]
              by_cases hu : u ∈ batches.flatMap (·.2)
              · have := hchk' u hu; omega
              · simp only [List.count_eq_zero.mpr hu, Nat.zero_add]; exact hI.hbound _ _ u hmsg
            · simp only [hmm, if_false, Nat.zero_add]; exact hI.hbound m' i' u hl
          · intro m' u hm
            rw [h2] at hm; rw [h1]
            rcases List.mem_append.mp hm with hm | hm
            · obtain ⟨u', _, heq⟩ := List.mem_map.mp hm
              simp only [Prod.mk.injEq] at heq
              rw [← heq.1, hmsg]; rfl
            · exact hI.hfresh m' u hm
        cases ok with
        | true =>
          simp only [if_true] at h
          cases h
          refine key _ rfl rfl ?_ rfl ?_
          · intro m'
            simp only [List.count_append, acceptedBatches, List.flatMap_append]
            have := hI.henq m'; simp only [acceptedBatches] at this
            simp [this, Nat.add_comm]
          · intro m'; rw [hI.hrej m']; simp [rejectedMsgs]
        | false =>
          simp only [Bool.false_eq_true, if_false] at h
          cases h
          refine key _ rfl rfl ?_ rfl ?_
          · intro m'; rw [hI.henq m']; simp [acceptedBatches]
          · intro m'
            simp only [List.mem_cons, rejectedMsgs, List.flatMap_append, List.mem_append]
            have := hI.hrej m'; simp only [rejectedMsgs] at this
            rw [this]; simp [or_comm, eq_comm]


theorem runJ_pinv : ∀ (post pre : List Ev) (j j' : J), PInv j pre → runJ j post = .ok j' → PInv j' (pre ++ post)
  | [], pre, j, j', hI, h => by simp [runJ] at h; subst h; simpa using hI
  | e :: es, pre, j, j', hI, h => by
    simp only [runJ] at h
    cases hs : stepJ j e with
    | error m => simp [hs] at h
    | ok j1 =>
      simp only [hs] at h
      have := runJ_pinv es (pre ++ [e]) j1 j' (pinv_step hI hs) h
      simpa using this

theorem pinv_init (w : World) (rm : Nat) : PInv { world := w, retryMax := rm } [] := by
  constructor <;> simp [packedPairs, acceptedBatches, presAnswers, rejectedMsgs, lookup]

theorem lookup_mem {α : Type} (l : List (Nat × α)) (k : Nat) (v : α) (h : lookup l k = some v) : (k, v) ∈ l := by
  unfold lookup at h
  cases hf : l.find? (fun p => p.1 == k) with
  | none => simp [hf] at h
  | some p =>
    simp [hf] at h
    have hm := List.mem_of_find?_eq_some hf
    have hk := List.find?_some hf
    obtain ⟨a, b⟩ := p
    simp at hk h
    subst hk; subst h
    exact hm

end WK.C31

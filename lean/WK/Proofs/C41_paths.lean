import WK.Spec.C41
/-
  C41 — the two stop paths that have no channelappend LTS: gateway `sendExecutor.stop` and delivery
  `Runtime.Quiesce`.  Small counter-based LTSs of exactly the ordering each path relies on (any number of SENDs /
  plans, any interleaving of worker completions), the theorem for the protocol as coded and the decided
  counter-schedule for the variant the round-2 mutants introduced.
-/
set_option linter.unusedSimpArgs false
namespace WK.C41

/-! ## gateway: sendExecutor.stop

  `submit` admits a SEND under admissionMu (`admitted.Add(1)`) and queues it in the mailbox; a worker takes it and,
  when the handler returns, calls `completeAdmission` (`admitted.Done()`).  `stop`: `drain(ctx)` closes admission,
  starts ONE background waiter (`admitted.Wait(); close(drained)`) and waits for `drained` or the release budget;
  either way `closeMailboxAfterDrain` closes the mailbox only in a goroutine that first waits for `drained`.
  Variant (`closeExpired`): when the budget expires the mailbox is closed at once with the expired context, which
  cancels the mailbox context — queued items are never taken. -/

structure GwS where
  submitted : Nat
  queued : Nat          -- in a mailbox shard queue, not yet taken by a worker
  running : Nat         -- handler running
  dispatched : Nat
  closedAdm : Bool
  drained : Bool
  stopReturned : Bool
  mailboxClosed : Bool

def GwS.init : GwS :=
  { submitted := 0, queued := 0, running := 0, dispatched := 0, closedAdm := false, drained := false,
    stopReturned := false, mailboxClosed := false }

inductive GwStep (closeExpired : Bool) : GwS → GwS → Prop
  | submit (s : GwS) : s.closedAdm = false →
      GwStep closeExpired s { s with submitted := s.submitted + 1, queued := s.queued + 1 }
  | take (s : GwS) : 0 < s.queued → s.mailboxClosed = false →
      GwStep closeExpired s { s with queued := s.queued - 1, running := s.running + 1 }
  | finish (s : GwS) : 0 < s.running →
      GwStep closeExpired s { s with running := s.running - 1, dispatched := s.dispatched + 1 }
  | stopBegin (s : GwS) : s.closedAdm = false → GwStep closeExpired s { s with closedAdm := true }
  -- the background waiter: admitted.Wait() returned
  | drainedStep (s : GwS) : s.closedAdm = true → s.queued + s.running = 0 → GwStep closeExpired s { s with drained := true }
  | stopDrained (s : GwS) : s.drained = true → GwStep closeExpired s { s with stopReturned := true }
  -- the release budget expires before the drain finished
  | stopBudget (s : GwS) : s.closedAdm = true → s.drained = false →
      GwStep closeExpired s { s with stopReturned := true, mailboxClosed := closeExpired || s.mailboxClosed }
  | closeAfterDrain (s : GwS) : s.drained = true → GwStep closeExpired s { s with mailboxClosed := true }

inductive GwReach (closeExpired : Bool) : GwS → Prop
  | init : GwReach closeExpired GwS.init
  | step {s s' : GwS} : GwReach closeExpired s → GwStep closeExpired s s' → GwReach closeExpired s'

/-- as coded: the mailbox is closed only when nothing admitted is left, so a queued SEND can always still be taken
    (also after Stop returned on its expired budget), nothing is lost in between, and when no SEND is queued or
    running every admitted SEND was dispatched -/
theorem c41_gateway_stop_no_abandon {s : GwS} (r : GwReach false s) :
    (s.mailboxClosed = true → s.queued = 0 ∧ s.running = 0) ∧
    s.submitted = s.dispatched + s.queued + s.running ∧
    (s.queued = 0 → s.running = 0 → s.dispatched = s.submitted) := by
  have inv : (s.mailboxClosed = true → s.drained = true) ∧ (s.drained = true → s.closedAdm = true ∧ s.queued = 0 ∧ s.running = 0) ∧
      s.submitted = s.dispatched + s.queued + s.running := by
    induction r with
    | init => simp [GwS.init]
    | step _ st ih => cases st <;> grind
  refine ⟨fun h => (inv.2.1 (inv.1 h)).2, inv.2.2, ?_⟩
  intro hq hr; have := inv.2.2; omega

example : ∃ s, GwReach false s ∧ s.stopReturned = true ∧ s.queued = 1 ∧ s.mailboxClosed = false := by
  have r0 := GwReach.init (closeExpired := false)
  have r1 := r0.step (GwStep.submit _ rfl)
  have r2 := r1.step (GwStep.stopBegin _ rfl)
  have r3 := r2.step (GwStep.stopBudget _ rfl rfl)
  exact ⟨_, r3, rfl, rfl, rfl⟩

/-- the "close with the expired context" variant: a SEND admitted behind busy workers is abandoned -/
theorem c41_gateway_stop_close_expired_counterexample :
    ∃ s, GwReach true s ∧ s.queued = 1 ∧ s.mailboxClosed = true ∧
      ∀ s', GwStep true s s' → s'.queued = 1 ∧ s'.mailboxClosed = true := by
  have r0 := GwReach.init (closeExpired := true)
  have r1 := r0.step (GwStep.submit _ rfl)
  have r2 := r1.step (GwStep.stopBegin _ rfl)
  have r3 := r2.step (GwStep.stopBudget _ rfl rfl)
  refine ⟨_, r3, rfl, rfl, ?_⟩
  intro s' st
  cases st <;> simp_all [GwS.init]

/-! ## delivery: Runtime.Quiesce

  Quiesce closes plan admission and starts one drain goroutine: wait for the senders / owner pushes, let the workers
  exit (`<-done`), THEN `waitPendingAcks()`, then close `quiesceDone`.  A plan that is still being processed binds its
  pending RECVACK when it writes to the session.  Variant (`acksFirst`): the ack wait runs before the workers exited. -/

structure QS where
  plans : Nat           -- admitted plans not yet finished by a worker
  pendingAcks : Nat
  accepting : Bool
  workersDone : Bool
  phase : Nat           -- drain goroutine: 0 started, 1 first wait passed
  quiesceDone : Bool

def QS.init : QS := { plans := 0, pendingAcks := 0, accepting := true, workersDone := false, phase := 0, quiesceDone := false }

inductive QStep (acksFirst : Bool) : QS → QS → Prop
  | enqueue (s : QS) : s.accepting = true → QStep acksFirst s { s with plans := s.plans + 1 }
  -- a worker finishes a plan; its session write bound a pending RECVACK (b = true) or not
  | planDone (s : QS) (b : Bool) : 0 < s.plans →
      QStep acksFirst s { s with plans := s.plans - 1, pendingAcks := s.pendingAcks + (if b then 1 else 0) }
  | ack (s : QS) : 0 < s.pendingAcks → QStep acksFirst s { s with pendingAcks := s.pendingAcks - 1 }
  | quiesceBegin (s : QS) : s.accepting = true → QStep acksFirst s { s with accepting := false }
  | workersExit (s : QS) : s.accepting = false → s.plans = 0 → QStep acksFirst s { s with workersDone := true }
  | waitWorkers (s : QS) : s.accepting = false → s.workersDone = true → s.phase = (if acksFirst then 1 else 0) →
      QStep acksFirst s { s with phase := s.phase + 1 }
  | waitAcks (s : QS) : s.accepting = false → s.pendingAcks = 0 → s.phase = (if acksFirst then 0 else 1) →
      QStep acksFirst s { s with phase := s.phase + 1 }
  | finish (s : QS) : s.phase = 2 → QStep acksFirst s { s with quiesceDone := true }

inductive QReach (acksFirst : Bool) : QS → Prop
  | init : QReach acksFirst QS.init
  | step {s s' : QS} : QReach acksFirst s → QStep acksFirst s s' → QReach acksFirst s'

/-- as coded: Quiesce completes only after the workers exited AND then the pending RECVACKs were resolved, and from
    then on no RECVACK is pending -/
theorem c41_quiesce_waits_acks_after_workers {s : QS} (r : QReach false s) :
    s.quiesceDone = true → s.workersDone = true ∧ s.plans = 0 ∧ s.pendingAcks = 0 := by
  have inv : (s.workersDone = true → s.accepting = false ∧ s.plans = 0) ∧ (1 ≤ s.phase → s.workersDone = true) ∧
      (2 ≤ s.phase → s.pendingAcks = 0) ∧ (s.quiesceDone = true → s.phase = 2) ∧ s.phase ≤ 2 := by
    induction r with
    | init => simp [QS.init]
    | step _ st ih => cases st <;> grind
  intro hq
  have hp := inv.2.2.2.1 hq
  have hw := inv.2.1 (by omega)
  exact ⟨hw, (inv.1 hw).2, inv.2.2.1 (by omega)⟩

example : ∃ s, QReach false s ∧ s.quiesceDone = true := by
  have r0 := QReach.init (acksFirst := false)
  have r1 := r0.step (QStep.enqueue _ rfl)
  have r2 := r1.step (QStep.quiesceBegin _ rfl)
  have r3 := r2.step (QStep.planDone _ true (by decide))
  have r4 := r3.step (QStep.workersExit _ rfl rfl)
  have r5 := r4.step (QStep.waitWorkers _ rfl rfl rfl)
  have r6 := r5.step (QStep.ack _ (by decide))
  have r7 := r6.step (QStep.waitAcks _ rfl rfl rfl)
  have r8 := r7.step (QStep.finish _ rfl)
  exact ⟨_, r8, rfl⟩

/-- the swapped order: the ack wait sees zero before a plan that is still being processed binds its RECVACK;
    Quiesce reports completion with a pending RECVACK -/
theorem c41_quiesce_acks_first_counterexample :
    ∃ s, QReach true s ∧ s.quiesceDone = true ∧ s.pendingAcks = 1 := by
  have r0 := QReach.init (acksFirst := true)
  have r1 := r0.step (QStep.enqueue _ rfl)
  have r2 := r1.step (QStep.quiesceBegin _ rfl)
  have r3 := r2.step (QStep.waitAcks _ rfl rfl rfl)
  have r4 := r3.step (QStep.planDone _ true (by decide))
  have r5 := r4.step (QStep.workersExit _ rfl rfl)
  have r6 := r5.step (QStep.waitWorkers _ rfl rfl rfl)
  have r7 := r6.step (QStep.finish _ rfl)
  exact ⟨_, r7, rfl, rfl⟩

end WK.C41

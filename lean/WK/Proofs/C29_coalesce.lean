import WK.Model.C29
/-
  C29 — coalescing / expansion / recovery lemmas.
-/
set_option linter.unusedSimpArgs false
namespace WK.C29

theorem sameLogical_eq {a b : Item} (h : sameLogical a b = true) : a = b := by
  cases a; cases b
  simp [sameLogical] at h
  simp [h]

theorem findOwner_some {h : Nat → Nat} {uniq : List (Nat × Item)} {x : Item} {j : Nat}
    (hf : findOwner h uniq x = some j) : ∃ y, uniq[j]? = some y ∧ y.2 = x := by
  unfold findOwner at hf
  split at hf
  · next j' hj' =>
    split at hf
    · next y hy =>
      split at hf
      · next hs =>
        have : j' = j := by simpa using hf
        subst this
        exact ⟨y, hy, sameLogical_eq hs⟩
      · simp at hf
    · simp at hf
  · simp at hf

/-- every caller processed so far points at a storage append carrying exactly its logical send -/
def CoInv (pre : List Item) (uniq : List (Nat × Item)) (owners : List Nat) : Prop :=
  owners.length = pre.length ∧
  ∀ (k : Nat) (x : Item), pre[k]? = some x → ∃ (j : Nat) (y : Nat × Item), owners[k]? = some j ∧ uniq[j]? = some y ∧ y.2 = x

theorem CoInv.snoc_hit {pre : List Item} {uniq : List (Nat × Item)} {owners : List Nat} {x : Item} {j : Nat} (hi : CoInv pre uniq owners)
    (hy : ∃ y, uniq[j]? = some y ∧ y.2 = x) : CoInv (pre ++ [x]) uniq (owners ++ [j]) := by
  obtain ⟨hl, hk⟩ := hi
  refine ⟨by simp [hl], ?_⟩
  intro k x' hx'
  by_cases hlt : k < pre.length
  · rw [List.getElem?_append_left hlt] at hx'
    obtain ⟨j', y', h1, h2, h3⟩ := hk k x' hx'
    exact ⟨j', y', by rw [List.getElem?_append_left (by omega)]; exact h1, h2, h3⟩
  · have hk' : k = pre.length := by
      have := List.getElem?_eq_some_iff.mp hx'
      obtain ⟨hb, _⟩ := this
      simp at hb; omega
    subst hk'
    have hx'' : x' = x := by simpa using hx'.symm
    subst hx''
    obtain ⟨y, hy1, hy2⟩ := hy
    exact ⟨j, y, by simp [← hl], hy1, hy2⟩

theorem CoInv.snoc_new {pre : List Item} {uniq : List (Nat × Item)} {owners : List Nat} {x : Item} (i : Nat) (hi : CoInv pre uniq owners) :
    CoInv (pre ++ [x]) (uniq ++ [(i, x)]) (owners ++ [uniq.length]) := by
  have hi' : CoInv pre (uniq ++ [(i, x)]) owners := by
    obtain ⟨hl, hk⟩ := hi
    refine ⟨hl, ?_⟩
    intro k x' hx'
    obtain ⟨j', y', h1, h2, h3⟩ := hk k x' hx'
    have hj : j' < uniq.length := (List.getElem?_eq_some_iff.mp h2).1
    exact ⟨j', y', h1, by rw [List.getElem?_append_left hj]; exact h2, h3⟩
  exact hi'.snoc_hit ⟨(i, x), by simp, rfl⟩

theorem coalesceGo_inv (h : Nat → Nat) : ∀ (rest : List Item) (i : Nat) (pre : List Item) (uniq : List (Nat × Item))
    (owners : List Nat), CoInv pre uniq owners →
    CoInv (pre ++ rest) (coalesceGo h rest i uniq owners).1 (coalesceGo h rest i uniq owners).2
  | [], _, pre, uniq, owners, hi => by simpa [coalesceGo] using hi
  | x :: rest, i, pre, uniq, owners, hi => by
    unfold coalesceGo
    split
    · next j hj =>
      have hf : findOwner h uniq x = some j := by
        split at hj
        · exact hj
        · simp at hj
      have := coalesceGo_inv h rest (i + 1) (pre ++ [x]) uniq (owners ++ [j]) (hi.snoc_hit (findOwner_some hf))
      simpa using this
    · have := coalesceGo_inv h rest (i + 1) (pre ++ [x]) (uniq ++ [(i, x)]) (owners ++ [uniq.length]) (hi.snoc_new i)
      simpa using this

theorem expandGo_length : ∀ (owners em : List Nat), (expandGo owners em).length = owners.length
  | [], _ => rfl
  | o :: rest, em => by simp [expandGo, expandGo_length rest]

theorem expandGo_getElem? : ∀ (owners em : List Nat) (k : Nat),
    (expandGo owners em)[k]? = (owners[k]?).map fun o => (o + 1, !(em.contains o) && !((owners.take k).contains o))
  | [], _, k => by simp [expandGo]
  | o :: rest, em, 0 => by simp [expandGo]
  | o :: rest, em, k + 1 => by
    simp only [expandGo, List.getElem?_cons_succ, List.take_succ_cons]
    rw [expandGo_getElem? rest (o :: em) k]
    cases hr : rest[k]? with
    | none => rfl
    | some o' =>
      simp only [Option.map_some, List.contains_cons]
      congr 2
      cases (o' == o) <;> cases (em.contains o') <;> cases ((rest.take k).contains o') <;> rfl

theorem recover_length (af hs : Bool) (mode : RetryMode) (items : List RItem) :
    (recover af hs mode items).1.length = items.length := by
  unfold recover
  split
  · simp
  · split <;> simp

end WK.C29

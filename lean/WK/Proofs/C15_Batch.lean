import WK.Theorems.C15
import Driver.C15
/-
  C15 — a batch of staged upserts / creates on ONE row is the sequential fold of the reducer.
  `runBatch` is the very function the driver (Driver/C15.lean) runs against MetaDB.NewBatch(): it threads an
  overlay (the `state.runtimeMeta` map of Batch.Commit) through the staged ops.  The theorem says the
  overlay row each staged op sees is the RESOLVED row its predecessors left — not the raw candidate and
  not the row stored before the batch.
-/
namespace WK.C15

theorem sget_sset_eq (s : Store) (k : String) (v : Option Meta) : sget (sset s k v) k = v := by
  have hf : ∀ (l : Store), (∀ kv ∈ l, kv.1 ≠ k) → sget l k = none := by
    intro l
    induction l with
    | nil => intro _; rfl
    | cons x xs ih =>
      intro h
      have hx := h x (by simp)
      simp only [sget, hx, ↓reduceIte]
      exact ih (fun kv hkv => h kv (List.mem_cons_of_mem _ hkv))
  have hfil : ∀ kv ∈ s.filter (fun kv => kv.1 ≠ k), kv.1 ≠ k := by
    intro kv hkv
    have := (List.mem_filter.mp hkv).2
    simpa using this
  cases v with
  | none => simp only [sset]; exact hf _ hfil
  | some m => simp [sset, sget]

/-- the staged op as a reducer step -/
def subOp (s : BSub) : Op := if s.isCreate then .create s.cand else .upsert s.cand

/-- the commit loop of `runBatch` (one staged op) -/
def batchStep (acc : Option (Store × List Char)) (p : BSub × Bool) : Option (Store × List Char) :=
  match acc with
  | none => none
  | some (ov, cr) =>
    if ¬ p.2 then some (ov, cr) else
    let s := p.1
    let k := keyOf s.id s.ty
    if s.isCreate then
      match create (idLen s.id) (sget ov k) s.cand with
      | (row, .created) => some (sset ov k row, cr ++ ['1'])
      | (_, _) => some (ov, cr ++ ['0'])
    else
      match upsert (idLen s.id) (sget ov k) s.cand with
      | (_, .conflict) => none
      | (row, .applied) => some (sset ov k row, cr)
      | (_, _) => some (ov, cr)

def stageOk (s : BSub) : Bool :=
  if s.isCreate then validate (idLen s.id) (normalize s.cand) else validate (idLen s.id) s.cand

theorem runBatch_eq (store : Store) (subs : List BSub) :
    (runBatch store subs).2 =
      ((subs.map (fun s => (s, stageOk s))).foldl batchStep (some (store, []))).map
        (fun (r : Store × List Char) => (r.1, if r.2.isEmpty then "-" else String.ofList r.2)) := by
  have key : ∀ (flags : String) (x : Option (Store × List Char)),
      (match x with
        | none => ((flags, none) : String × Option (Store × String))
        | some (ov, cr) => (flags, some (ov, if cr.isEmpty then "-" else String.ofList cr))).2
      = x.map (fun (r : Store × List Char) => (r.1, if r.2.isEmpty then "-" else String.ofList r.2)) := by
    intro flags x
    cases x with
    | none => rfl
    | some r => obtain ⟨ov, cr⟩ := r; rfl
  unfold runBatch
  exact key _ _

theorem create_not_created (n : Nat) (row : Option Meta) (c : Meta) (h : (create n row c).2 ≠ Out.created) :
    (create n row c).1 = row := by
  unfold create at h ⊢
  simp only [] at h ⊢
  split
  · rfl
  · rename_i hv
    cases row with
    | some _ => rfl
    | none => simp only [hv, ↓reduceIte] at h; exact absurd rfl h

theorem upsert_not_applied (n : Nat) (row : Option Meta) (c : Meta) (h : (upsert n row c).2 ≠ Out.applied) :
    (upsert n row c).1 = row := by
  unfold upsert at h ⊢
  split
  · rfl
  · rename_i hv
    split
    · rfl
    · rfl
    · rename_i hr
      simp only [hv, ↓reduceIte, hr] at h
      exact absurd rfl h

theorem fold_none (l : List (BSub × Bool)) : l.foldl batchStep none = none := by
  induction l with
  | nil => rfl
  | cons x xs ih => simp only [List.foldl_cons, batchStep]; exact ih

theorem batchStep_seq (s : BSub) (ov ov1 : Store) (cr cr1 : List Char)
    (h : batchStep (some (ov, cr)) (s, stageOk s) = some (ov1, cr1)) :
    sget ov1 (keyOf s.id s.ty) = (step (idLen s.id) (sget ov (keyOf s.id s.ty)) (subOp s)).1 := by
  unfold batchStep at h
  simp only [] at h
  by_cases hok : stageOk s = true
  · simp only [hok, not_true_eq_false, ↓reduceIte] at h
    by_cases hc : s.isCreate = true
    · simp only [hc, ↓reduceIte] at h
      simp only [subOp, hc, ↓reduceIte, step]
      split at h
      · rename_i row heq
        have e := Option.some.inj h
        have e1 : ov1 = sset ov (keyOf s.id s.ty) row := (congrArg Prod.fst e).symm
        rw [e1, sget_sset_eq, heq]
      · rename_i a b hne heq
        have e := Option.some.inj h
        have e1 : ov1 = ov := (congrArg Prod.fst e).symm
        rw [e1]
        refine (create_not_created _ _ _ ?_).symm
        rw [heq]; intro hb; simp only at hb; subst hb; first | exact hne rfl | exact hne a rfl
    · simp only [hc, Bool.false_eq_true, ↓reduceIte] at h
      simp only [subOp, hc, Bool.false_eq_true, ↓reduceIte, step]
      split at h
      · cases h
      · rename_i row heq
        have e := Option.some.inj h
        have e1 : ov1 = sset ov (keyOf s.id s.ty) row := (congrArg Prod.fst e).symm
        rw [e1, sget_sset_eq, heq]
      · rename_i a b hne1 hne2 heq
        have e := Option.some.inj h
        have e1 : ov1 = ov := (congrArg Prod.fst e).symm
        rw [e1]
        refine (upsert_not_applied _ _ _ ?_).symm
        rw [heq]; intro hb; simp only at hb; subst hb; first | exact hne2 rfl | exact hne2 a rfl
  · simp only [hok, Bool.false_eq_true, not_false_eq_true, ↓reduceIte] at h
    have e := Option.some.inj h
    have e1 : ov1 = ov := (congrArg Prod.fst e).symm
    rw [e1]
    by_cases hc : s.isCreate = true
    · simp only [subOp, hc, ↓reduceIte, step]
      have hv : ¬ validate (idLen s.id) (normalize s.cand) = true := by
        simpa [stageOk, hc] using hok
      unfold create
      simp only [hv, Bool.false_eq_true, not_false_eq_true, ↓reduceIte]
    · simp only [subOp, hc, Bool.false_eq_true, ↓reduceIte, step]
      have hv : ¬ validate (idLen s.id) s.cand = true := by
        simpa [stageOk, hc] using hok
      unfold upsert
      simp only [hv, Bool.false_eq_true, not_false_eq_true, ↓reduceIte]

theorem batch_fold_seq (id ty : String) : ∀ (subs : List BSub) (ov : Store) (cr : List Char) (r : Store × List Char),
    (∀ s ∈ subs, s.id = id ∧ s.ty = ty) →
    (subs.map (fun s => (s, stageOk s))).foldl batchStep (some (ov, cr)) = some r →
    sget r.1 (keyOf id ty) = run (idLen id) (sget ov (keyOf id ty)) (subs.map subOp) := by
  intro subs
  induction subs with
  | nil =>
    intro ov cr r _ h
    simp only [List.map_nil, List.foldl_nil] at h
    have := Option.some.inj h
    rw [← this]; rfl
  | cons s rest ih =>
    intro ov cr r hk h
    simp only [List.map_cons, List.foldl_cons] at h
    obtain ⟨hid, hty⟩ := hk s (by simp)
    cases hst : batchStep (some (ov, cr)) (s, stageOk s) with
    | none => rw [hst, fold_none] at h; cases h
    | some acc =>
      obtain ⟨ov1, cr1⟩ := acc
      rw [hst] at h
      have h1 := batchStep_seq s ov ov1 cr cr1 hst
      rw [hid, hty] at h1
      have := ih ov1 cr1 r (fun x hx => hk x (List.mem_cons_of_mem _ hx)) h
      rw [this, h1]
      simp [run]

/-- **A batch is the sequential fold.**  For staged upserts / creates that all address one row `id/ty`,
    if `runBatch` (the function the driver runs against one real MetaDB batch) commits, the row it leaves
    is exactly `run` — the reducer applied op after op, each op seeing the row its predecessor left — and a
    batch that does not commit leaves the store untouched by construction (`runBatch` returns no store). -/
theorem c15_batch_sequential (store : Store) (subs : List BSub) (id ty : String)
    (hk : ∀ s ∈ subs, s.id = id ∧ s.ty = ty) (ov : Store) (created : String)
    (h : (runBatch store subs).2 = some (ov, created)) :
    sget ov (keyOf id ty) = run (idLen id) (sget store (keyOf id ty)) (subs.map subOp) := by
  rw [runBatch_eq] at h
  cases hf : (subs.map (fun s => (s, stageOk s))).foldl batchStep (some (store, [])) with
  | none => rw [hf] at h; cases h
  | some r =>
    rw [hf] at h
    simp only [Option.map_some] at h
    have e := Option.some.inj h
    have e1 : r.1 = ov := congrArg Prod.fst e
    rw [← e1]
    exact batch_fold_seq id ty subs store [] r hk hf

example : (runBatch [] [⟨false, "a", "2", 2, exOld⟩, ⟨false, "a", "2", 2, exCand⟩]).2.isSome = true ∧
    ((runBatch [] [⟨false, "a", "2", 2, exOld⟩, ⟨false, "a", "2", 2, exCand⟩]).2.map (fun r => (sget r.1 "a/2").map (·.routeGen)))
      = some (some 10) := by decide

end WK.C15

import WK.Model.C30
/-
  C30 — the inductive invariant of the allocator LTS and its preservation by
  every transition (any thread, any instruction, any generator value).
-/
namespace WK.C30
open WK.Gen.C30

/-- the compiled shape of `Next` the pc-indexed invariant below refers to -/
theorem next_prog : nextProg =
    [.gen 0, .load 1, .brUnless .le 0 1 4, .jmp 0, .cas 1 0 6, .retReg 0, .jmp 0] := by decide

/-- the compiled shape of `SetFloor` -/
theorem setFloor_prog : setFloorProg =
    [.load 1, .brUnless .le 0 1 3, .retOk, .gen 2, .brUnless .le 2 0 6, .retErr,
     .load 1, .brUnless .le 2 1 9, .retOk, .cas 1 2 11, .retOk, .jmp 6] := by decide

/-- local invariant of one thread against the shared floor `F` and the CAS history.
    Next: r0 = raw, r1 = floor.  SetFloor: r0 = floor (parameter), r1 = current, r2 = probe. -/
structure TInv (F : Nat) (hist : List Nat) (t : Thread) : Prop where
  casd : ∀ v, t.casd = some v → v ∈ hist ∧ (∀ w ∈ t.histAtCas, w < v) ∧ (∀ f ∈ t.acksAtCas, f < v) ∧
    (∀ w ∈ t.histAtStart, w < v) ∧ (∀ f ∈ t.acksAtStart, f < v)
  startHist : ∀ x ∈ t.histAtStart, x ∈ hist
  startRets : ∀ x ∈ t.retsAtStart, x ∈ t.histAtStart
  startAcks : ∀ f ∈ t.acksAtStart, f ≤ F
  halted : t.ret ≠ none → t.pc = haltPC
  nx4 : t.kind = .next → t.pc = 4 → t.r1 < t.r0
  nx5 : t.kind = .next → t.pc = 5 → t.casd = some t.r0
  nxr : t.kind = .next → ∀ r, t.ret = some r → r = .id t.r0 ∧ t.casd = some t.r0
  sfCur : t.kind = .setFloor → (t.pc = 1 ∨ t.pc = 2 ∨ t.pc = 7 ∨ t.pc = 8) → t.r1 ≤ F
  sf2 : t.kind = .setFloor → t.pc = 2 → t.r0 ≤ t.r1
  sfProbe : t.kind = .setFloor → (t.pc = 6 ∨ t.pc = 7 ∨ t.pc = 8 ∨ t.pc = 9 ∨ t.pc = 10 ∨ t.pc = 11) → t.r0 < t.r2
  sf8 : t.kind = .setFloor → t.pc = 8 → t.r2 ≤ t.r1
  sf9 : t.kind = .setFloor → t.pc = 9 → t.r1 < t.r2
  sf10 : t.kind = .setFloor → t.pc = 10 → t.r2 ≤ F
  sfOk : t.kind = .setFloor → t.ret = some .ok → t.r0 ≤ F

theorem TInv.mono {F F' : Nat} {hist hist' : List Nat} {t : Thread} (h : TInv F hist t)
    (hF : F ≤ F') (hh : ∀ x ∈ hist, x ∈ hist') : TInv F' hist' t :=
  { casd := fun v hv => ⟨hh v (h.casd v hv).1, (h.casd v hv).2⟩
    startHist := fun x hx => hh x (h.startHist x hx)
    startRets := h.startRets
    startAcks := fun f hf => Nat.le_trans (h.startAcks f hf) hF
    halted := h.halted, nx4 := h.nx4, nx5 := h.nx5, nxr := h.nxr
    sfCur := fun a b => Nat.le_trans (h.sfCur a b) hF
    sf2 := h.sf2, sfProbe := h.sfProbe, sf8 := h.sf8, sf9 := h.sf9
    sf10 := fun a b => Nat.le_trans (h.sf10 a b) hF
    sfOk := fun a b => Nat.le_trans (h.sfOk a b) hF }

structure Inv (s : GState) : Prop where
  sorted : s.hist.Pairwise (· > ·)
  histLe : ∀ x ∈ s.hist, x ≤ s.floor
  acksLe : ∀ f ∈ s.acks, f ≤ s.floor
  retsIn : ∀ v ∈ s.rets, v ∈ s.hist
  retRec : ∀ k t v, s.threads k = some t → t.ret = some (.id v) → v ∈ s.rets
  ackRec : ∀ k t, s.threads k = some t → t.kind = .setFloor → t.ret = some .ok → t.r0 ∈ s.acks
  thr : ∀ k t, s.threads k = some t → TInv s.floor s.hist t
  distinct : ∀ i j ti tj v, i ≠ j → s.threads i = some ti → s.threads j = some tj →
    ti.casd = some v → tj.casd = some v → False

theorem inv_init : Inv init :=
  { sorted := List.Pairwise.nil
    histLe := fun _ h => by cases h
    acksLe := fun _ h => by cases h
    retsIn := fun _ h => by cases h
    retRec := fun _ _ _ h => by simp [init] at h
    ackRec := fun _ _ h => by simp [init] at h
    thr := fun _ _ h => by simp [init] at h
    distinct := fun _ _ _ _ _ _ h => by simp [init] at h }

theorem upd_same (f : Nat → Option Thread) (k : Nat) (t : Thread) : upd f k t k = some t := by simp [upd]
theorem upd_other (f : Nat → Option Thread) (k : Nat) (t : Thread) {i : Nat} (h : i ≠ k) : upd f k t i = f i := by
  simp [upd, h]

/-- a step that leaves floor / hist alone and keeps the thread's `casd`; acks / rets may grow -/
theorem inv_local {s : GState} (hi : Inv s) {k : Nat} {t t' : Thread} (hk : s.threads k = some t)
    (hc : t'.casd = t.casd) (acks' rets' : List Nat) (ha : ∀ f ∈ acks', f ≤ s.floor)
    (hr : ∀ v ∈ rets', v ∈ s.hist) (hrm : ∀ v ∈ s.rets, v ∈ rets') (ham : ∀ f ∈ s.acks, f ∈ acks')
    (hrr : ∀ v, t'.ret = some (.id v) → v ∈ rets')
    (har : t'.kind = .setFloor → t'.ret = some .ok → t'.r0 ∈ acks')
    (ht : TInv s.floor s.hist t') :
    Inv { s with acks := acks', rets := rets', threads := upd s.threads k t' } :=
  { sorted := hi.sorted
    histLe := hi.histLe
    acksLe := ha
    retsIn := hr
    retRec := by
      intro i ti v h hv
      dsimp only at h ⊢
      by_cases hik : i = k
      · subst hik; simp only [upd_same, Option.some.injEq] at h; subst h; exact hrr v hv
      · rw [upd_other _ _ _ hik] at h; exact hrm v (hi.retRec i ti v h hv)
    ackRec := by
      intro i ti h hkind hv
      dsimp only at h ⊢
      by_cases hik : i = k
      · subst hik; simp only [upd_same, Option.some.injEq] at h; subst h; exact har hkind hv
      · rw [upd_other _ _ _ hik] at h; exact ham _ (hi.ackRec i ti h hkind hv)
    thr := by
      intro i ti h
      dsimp only at h ⊢
      by_cases hik : i = k
      · subst hik; simp only [upd_same, Option.some.injEq] at h; subst h; exact ht
      · rw [upd_other _ _ _ hik] at h; exact hi.thr i ti h
    distinct := by
      intro i j ti tj v hij h1 h2 c1 c2
      dsimp only at h1 h2
      by_cases hik : i = k
      · subst hik
        simp only [upd_same, Option.some.injEq] at h1; subst h1
        rw [upd_other _ _ _ (Ne.symm hij)] at h2
        exact hi.distinct i j t tj v hij hk h2 (hc ▸ c1) c2
      · rw [upd_other _ _ _ hik] at h1
        by_cases hjk : j = k
        · subst hjk
          simp only [upd_same, Option.some.injEq] at h2; subst h2
          exact hi.distinct i j ti t v hij h1 hk c1 (hc ▸ c2)
        · rw [upd_other _ _ _ hjk] at h2
          exact hi.distinct i j ti tj v hij h1 h2 c1 c2 }

/-- a successful CAS that writes `v > floor` -/
theorem inv_cas {s : GState} (hi : Inv s) {k : Nat} {t' : Thread} {v : Nat} (hv : s.floor < v)
    (hnr : t'.ret = none)
    (ht : TInv v (v :: s.hist) { t' with casd := some v, histAtCas := s.hist, acksAtCas := s.acks }) :
    Inv (commit s k v t' (.cas v)) := by
  have hlt : ∀ x ∈ s.hist, x < v := fun x hx => Nat.lt_of_le_of_lt (hi.histLe x hx) hv
  refine
  { sorted := List.pairwise_cons.mpr ⟨fun x hx => hlt x hx, hi.sorted⟩
    histLe := ?_, acksLe := ?_, retsIn := ?_, retRec := ?_, ackRec := ?_, thr := ?_, distinct := ?_ }
  · intro x hx
    rcases List.mem_cons.mp hx with h | h
    · subst h; exact Nat.le_refl _
    · exact Nat.le_of_lt (hlt x h)
  · intro f hf
    exact Nat.le_trans (hi.acksLe f hf) (Nat.le_of_lt hv)
  · intro x hx
    exact List.mem_cons_of_mem _ (hi.retsIn x hx)
  · intro i ti x h hx
    simp only [commit] at h ⊢
    by_cases hik : i = k
    · subst hik; simp only [upd_same, Option.some.injEq] at h; subst h; simp [hnr] at hx
    · rw [upd_other _ _ _ hik] at h; exact hi.retRec i ti x h hx
  · intro i ti h hkind hx
    simp only [commit] at h ⊢
    by_cases hik : i = k
    · subst hik; simp only [upd_same, Option.some.injEq] at h; subst h; simp [hnr] at hx
    · rw [upd_other _ _ _ hik] at h; exact hi.ackRec i ti h hkind hx
  · intro i ti h
    simp only [commit] at h
    by_cases hik : i = k
    · subst hik; simp only [upd_same, Option.some.injEq] at h; subst h; exact ht
    · rw [upd_other _ _ _ hik] at h
      exact (hi.thr i ti h).mono (Nat.le_of_lt hv) (fun x hx => List.mem_cons_of_mem _ hx)
  · intro i j ti tj w hij h1 h2 c1 c2
    simp only [commit] at h1 h2
    by_cases hik : i = k
    · subst hik
      simp only [upd_same, Option.some.injEq] at h1; subst h1
      rw [upd_other _ _ _ (Ne.symm hij)] at h2
      simp only [Option.some.injEq] at c1; subst c1
      exact Nat.lt_irrefl _ (hlt _ ((hi.thr j tj h2).casd _ c2).1)
    · rw [upd_other _ _ _ hik] at h1
      by_cases hjk : j = k
      · subst hjk
        simp only [upd_same, Option.some.injEq] at h2; subst h2
        simp only [Option.some.injEq] at c2; subst c2
        exact Nat.lt_irrefl _ (hlt _ ((hi.thr i ti h1).casd _ c1).1)
      · rw [upd_other _ _ _ hjk] at h2
        exact hi.distinct i j ti tj w hij h1 h2 c1 c2

theorem inv_spawn {s : GState} (hi : Inv s) (k : Nat) (kind : Kind) (arg : Nat) (h : s.threads k = none) :
    Inv { s with threads := upd s.threads k (spawnThread kind arg s) } := by
  have hT : TInv s.floor s.hist (spawnThread kind arg s) := by
    cases kind <;> constructor <;> simp [spawnThread] <;>
      first | exact hi.retsIn | exact hi.acksLe
  have hnr : (spawnThread kind arg s).ret = none := by cases kind <;> rfl
  have hnc : (spawnThread kind arg s).casd = none := by cases kind <;> rfl
  refine { sorted := hi.sorted, histLe := hi.histLe, acksLe := hi.acksLe, retsIn := hi.retsIn,
           retRec := ?_, ackRec := ?_, thr := ?_, distinct := ?_ }
  · intro i ti x hh hx
    dsimp only at hh ⊢
    by_cases hik : i = k
    · subst hik; simp only [upd_same, Option.some.injEq] at hh; subst hh; simp [hnr] at hx
    · rw [upd_other _ _ _ hik] at hh; exact hi.retRec i ti x hh hx
  · intro i ti hh hkind hx
    dsimp only at hh ⊢
    by_cases hik : i = k
    · subst hik; simp only [upd_same, Option.some.injEq] at hh; subst hh; simp [hnr] at hx
    · rw [upd_other _ _ _ hik] at hh; exact hi.ackRec i ti hh hkind hx
  · intro i ti hh
    dsimp only at hh ⊢
    by_cases hik : i = k
    · subst hik; simp only [upd_same, Option.some.injEq] at hh; subst hh; exact hT
    · rw [upd_other _ _ _ hik] at hh; exact hi.thr i ti hh
  · intro i j ti tj v hij h1 h2 c1 c2
    dsimp only at h1 h2
    by_cases hik : i = k
    · subst hik; simp only [upd_same, Option.some.injEq] at h1; subst h1
      simp [hnc] at c1
    · rw [upd_other _ _ _ hik] at h1
      by_cases hjk : j = k
      · subst hjk; simp only [upd_same, Option.some.injEq] at h2; subst h2
        simp [hnc] at c2
      · rw [upd_other _ _ _ hjk] at h2
        exact hi.distinct i j ti tj v hij h1 h2 c1 c2

end WK.C30

import WK.Proofs.C14_Ref
import WK.Proofs.C14_Conf
/-
  C14 — the Pebble store refines the reference store on Raft-valid histories,
  and its writer cache is always what `loadScopeWriteState` would load.
-/
namespace WK.C14

/-- the manifest a reference state corresponds to -/
def manOf (m : RaftStore) : Option Manifest := if m.snapshot.index = 0 then none else some m.snapshot

def durOf (m : RaftStore) (mt : Option Meta) (ak : Nat) : Durable :=
  { hard := m.hard, entries := m.entries, manifest := manOf m, logMeta := mt, appliedKey := ak,
    confApplied := m.confApplied }

def cacheOf (m : RaftStore) (x : Meta) : Cache :=
  { hard := m.hard, snapIndex := m.snapshot.index, snapTerm := m.snapshot.term, snapConf := m.snapshot.conf,
    manifest := manOf m, entries := m.entries.map stripEntry, logMeta := x }

def metaOf (m : RaftStore) (conf : Conf) : Meta :=
  { first := m.snapshot.index + 1, last := m.snapshot.index + m.entries.length, applied := m.applied,
    snapIndex := m.snapshot.index, snapTerm := m.snapshot.term, conf := conf }

/-- the parts of a cached meta the write path reads before overwriting the rest -/
structure MetaOK (m : RaftStore) (x : Meta) : Prop where
  first : x.first = m.snapshot.index + 1
  last : x.last = m.snapshot.index + m.entries.length
  applied : x.applied = m.applied

theorem metaOK_metaOf (m : RaftStore) (c : Conf) : MetaOK m (metaOf m c) := ⟨rfl, rfl, rfl⟩

theorem filter_map_strip (p : Nat → Bool) (es : List Entry) :
    (es.map stripEntry).filter (fun e => p e.index) = (es.filter (fun e => p e.index)).map stripEntry := by
  induction es with
  | nil => rfl
  | cons e es ih =>
    simp only [List.map_cons, List.filter_cons, strip_index, ih]
    split <;> rfl

theorem map_strip_strip (es : List Entry) : (es.map stripEntry).map stripEntry = es.map stripEntry := by
  simp [List.map_map, Function.comp_def, strip_strip]

theorem manOf_set (m : RaftStore) (s : Snap) (es : List Entry) (h0 : s.index ≠ 0) :
    manOf { m with snapshot := s, entries := es } = some s := by
  simp [manOf, h0]

/-! ### the three parts of `saveOp.apply` on corresponding states -/

theorem snapCheck_valid (m : RaftStore) (x : Meta) (s : Snap) (allow : Bool) (hv : validSnap m s = true) :
    snapCheck (cacheOf m x) s allow = none ∧ s.index ≠ 0 ∧ s.index < maxU64 := by
  simp only [validSnap, Bool.and_eq_true, Bool.or_eq_true, decide_eq_true_eq] at hv
  obtain ⟨⟨⟨hidx, hmax⟩, hterm⟩, hcanon⟩ := hv
  have hs0' : s.index ≠ 0 := by
    rcases hidx with hlt | ⟨hne, _⟩
    · omega
    · simpa using hne
  refine ⟨?_, hs0', hmax⟩
  unfold snapCheck
  have c1 : ¬ s.index < (cacheOf m x).snapIndex := by
    simp only [cacheOf]
    rcases hidx with hlt | ⟨_, heq⟩
    · omega
    · have := canonical_of_eq heq; subst this; omega
  rw [if_neg c1]
  apply if_neg
  rintro ⟨he, hm, _⟩
  simp only [cacheOf] at he hm
  rcases hidx with hlt | ⟨_, heq⟩
  · omega
  · have := canonical_of_eq heq; subst this
    simp [manOf, hs0', manifestEquivalent] at hm

theorem snapCheck_replace (m : RaftStore) (x : Meta) (hap : x.applied = m.applied) (s : Snap)
    (hle : m.snapshot.index ≤ s.index) (happ : s.index = m.applied) :
    snapCheck (cacheOf m x) s true = none := by
  unfold snapCheck
  have c1 : ¬ s.index < (cacheOf m x).snapIndex := by simp only [cacheOf]; omega
  rw [if_neg c1]
  apply if_neg
  rintro ⟨_, _, h3⟩
  simp only [cacheOf] at h3
  rcases h3 with h3 | h3
  · cases h3
  · omega

theorem applySnap_canon (m : RaftStore) (x : Meta) (mt : Option Meta) (ak : Nat)
    (hs0 : Hard) (s : Snap) (allow : Bool) (hchk : snapCheck (cacheOf m x) s allow = none)
    (hs0' : s.index ≠ 0) (hmax : s.index < maxU64) :
    applySnap (durOf m mt ak) (cacheOf m x) hs0 s allow =
      .ok (durOf { m with snapshot := s, entries := trimAfter m.entries s.index } mt ak,
           cacheOf { m with snapshot := s, entries := trimAfter m.entries s.index } { x with first := s.index + 1 },
           if hs0.commit < s.index then { hs0 with commit := s.index } else hs0) := by
  unfold applySnap
  rw [hchk]
  simp only [hmax, if_true]
  have hf : (fun (e : Entry) => decide (¬ e.index < s.index + 1)) = (fun e => decide (¬ e.index ≤ s.index)) := by
    funext e; congr 1; apply propext; omega
  have hfm := filter_map_strip (fun i => decide (¬ i ≤ s.index)) m.entries
  congr 1
  refine Prod.ext ?_ (Prod.ext ?_ rfl)
  · simp only [durOf, trimAfter, hf, manOf_set _ _ _ hs0']
  · simp only [cacheOf, trimAfter, manOf_set _ _ _ hs0', hfm, map_strip_strip]

theorem meta_first_self (x : Meta) : { x with first := x.first } = x := rfl

theorem applyEnts_canon (m : RaftStore) (h : RInv m) (x : Meta) (hxf : x.first = m.snapshot.index + 1)
    (hxl : x.last = m.snapshot.index + m.entries.length ∨ (x.last ≤ m.snapshot.index ∧ m.entries = []))
    (mt : Option Meta) (ak : Nat)
    (ents : List Entry) (hv : validEnts m ents = true) :
    applyEnts (durOf m mt ak) (cacheOf m x) ents = (durOf (setEnts m ents) mt ak, cacheOf (setEnts m ents) x) := by
  cases ents with
  | nil => rfl
  | cons e es =>
    simp only [validEnts, Bool.and_eq_true, decide_eq_true_eq, List.all_eq_true] at hv
    obtain ⟨⟨⟨⟨hc, ht⟩, hlo⟩, hhi⟩, hb⟩ := hv
    rw [lastIndex_eq m h] at hhi
    have hmeta : fixFirst x e.index = x := by
      unfold fixFirst
      split
      · rename_i hcond
        have : e.index = x.first := by
          rcases hxl with hl | ⟨hl, hnil⟩
          · rcases hcond with h1 | h1 <;> omega
          · rw [hnil] at hhi; simp only [List.length_nil] at hhi
            rcases hcond with h1 | h1 <;> omega
        rw [this]
      · rfl
    have hk : (m.entries.take (e.index - (m.snapshot.index + 1))) ++ (e :: es)
        = replaceFrom m.entries e.index (e :: es) := (replaceFrom_eq m h e es).symm
    have hall : ∀ d ∈ m.entries.take (e.index - (m.snapshot.index + 1)), d.index < e.index := by
      intro d hd
      have hcg := consec_ge _ _ (consec_take _ (e.index - (m.snapshot.index + 1)) _ h.consec) d hd
      rw [List.length_take] at hcg
      omega
    have hdur : (e :: es).foldl (fun acc x => upsert x acc)
        (if e.index ≤ x.last then m.entries.filter (fun (y : Entry) => decide (y.index < e.index)) else m.entries)
        = replaceFrom m.entries e.index (e :: es) := by
      have hbase : (if e.index ≤ x.last then m.entries.filter (fun (y : Entry) => decide (y.index < e.index)) else m.entries)
          = m.entries.take (e.index - (m.snapshot.index + 1)) := by
        split
        · exact filter_lt_eq_take _ _ _ h.consec
        · rename_i hgt
          rcases hxl with hl | ⟨hl, hnil⟩
          · rw [List.take_of_length_le (by omega)]
          · rw [hnil]; simp
      rw [hbase, upsert_fold_append e.index (e :: es) _ hc hall, hk]
    have hcache : replaceCached (m.entries.map stripEntry) e.index (e :: es)
        = (replaceFrom m.entries e.index (e :: es)).map stripEntry := by
      unfold replaceCached
      rw [takeWhile_lt_eq_take (m.snapshot.index + 1) e.index _ (by rw [consec_strip]; exact h.consec)]
      rw [← hk, List.map_append, List.map_take]
    simp only [applyEnts, cacheOf, durOf, setEnts, hmeta, hdur, hcache]
    simp [manOf]

theorem getLast_strip (es : List Entry) :
    (es.map stripEntry).getLast? = es.getLast?.map stripEntry := by
  simp [List.getLast?_map]

theorem applyFinish_canon (m : RaftStore) (h : RInv m) (x : Meta) (hf : x.first = m.snapshot.index + 1)
    (hap : x.applied = m.applied) (mt : Option Meta) (ak : Nat)
    (hs1 : Hard) (persist : Bool) (hp : persist = false → hs1 = m.hard) (conf : Conf)
    (hconf : RaftStore.conf { m with hard := hs1 } = some conf) :
    applyFinish (durOf m mt ak) (cacheOf m x) hs1 persist =
      .ok (durOf { m with hard := hs1 } (some (metaOf { m with hard := hs1 } conf)) ak,
           cacheOf { m with hard := hs1 } (metaOf { m with hard := hs1 } conf)) := by
  have hd : deriveConf m.snapshot.index m.snapshot.conf (m.entries.map stripEntry) hs1.commit = some conf := by
    rw [deriveConf_strip]; exact hconf
  have hlast : cachedLast m.snapshot.index (m.entries.map stripEntry) = m.snapshot.index + m.entries.length := by
    unfold cachedLast
    rw [getLast_strip]
    rcases consec_getLast _ _ h.consec with ⟨hn, he⟩ | ⟨l, hl, hi⟩
    · rw [hn, he]; simp
    · rw [hl]; simp only [Option.map_some, strip_index]
      split <;> omega
  have hdh : (if persist = true then { durOf m mt ak with hard := hs1 } else durOf m mt ak)
      = { durOf m mt ak with hard := hs1 } := by
    cases persist with
    | true => rfl
    | false => simp [durOf, hp rfl]
  have hsettle : settleFirst
        { x with snapIndex := m.snapshot.index, snapTerm := m.snapshot.term, conf := conf, last := m.snapshot.index + m.entries.length }
        m.snapshot.index (m.entries.map stripEntry)
      = metaOf { m with hard := hs1 } conf := by
    unfold settleFirst
    have hne : ¬ (x.first = 0) := by omega
    simp only [hne, if_false]
    split
    · rename_i hc
      simp only [metaOf, hap]
      have : m.entries.length = 0 := by omega
      simp [this]
    · simp only [metaOf, hap, hf]
  unfold applyFinish updateScopeWriteMeta
  simp only [hdh]
  simp only [cacheOf, hd, hlast, hsettle, durOf]
  rfl

end WK.C14

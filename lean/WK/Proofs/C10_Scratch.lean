import WK.Theorems.C10
namespace WK.C10
open WK.C07

/-- the store-side retention operations, in any order -/
inductive RetOp
  | adopt (t : Nat)
  | trim (t mm mb : Nat)
  | retain (t : Nat) (allowed : Bool) (mm mb : Nat)

def retStep (ch : Chan) : RetOp → Chan
  | .adopt t => (adopt ch t).1
  | .trim t mm mb => (trimNoAdopt ch t mm mb).1
  | .retain t a mm mb => (storeRetention ch t a mm mb).1

def Le2 (a b : Chan) : Prop := (retOrZero a).loc ≤ (retOrZero b).loc ∧ (retOrZero a).phys ≤ (retOrZero b).phys

theorem le2_refl (a : Chan) : Le2 a a := ⟨Nat.le_refl _, Nat.le_refl _⟩
theorem le2_trans {a b c : Chan} (h1 : Le2 a b) (h2 : Le2 b c) : Le2 a c :=
  ⟨Nat.le_trans h1.1 h2.1, Nat.le_trans h1.2 h2.2⟩

theorem le2_loadLEO (ch : Chan) : Le2 ch (loadLEO ch).2 := by
  have : retOrZero (loadLEO ch).2 = retOrZero ch := by unfold retOrZero; rw [loadLEO_ret]
  unfold Le2; rw [this]; exact ⟨Nat.le_refl _, Nat.le_refl _⟩

theorem trim_mono (ch : Chan) (t mm mb : Nat) : Le2 ch (trimNoAdopt ch t mm mb).1 := by
  cases hres : (trimNoAdopt ch t mm mb) with
  | mk ch' res =>
    cases res with
    | ok o =>
      have := c10_trim_boundaries ch ch' t mm mb o hres
      exact ⟨by rw [this.1]; exact Nat.le_refl _, this.2.1⟩
    | error e =>
      -- every error exit returns the channel itself or the channel with its LEO cache loaded
      have : ch' = ch ∨ ch' = (loadLEO ch).2 := by
        unfold trimNoAdopt at hres
        by_cases h0 : t = 0
        · rw [if_pos h0] at hres; left; exact (Prod.mk.inj hres).1.symm
        rw [if_neg h0] at hres
        dsimp only at hres
        by_cases hl : t > (retOrZero (loadLEO ch).2).loc
        · rw [if_pos hl] at hres; right; exact (Prod.mk.inj hres).1.symm
        rw [if_neg hl] at hres
        cases hrd : readForward (loadLEO ch).2.rows ((retOrZero (loadLEO ch).2).phys + 1) t (if mm > 0 then mm + 1 else 0) mb with
        | error e' => rw [hrd] at hres; right; exact (Prod.mk.inj hres).1.symm
        | ok rows =>
          rw [hrd] at hres
          dsimp only at hres
          split at hres
          · right; exact (Prod.mk.inj hres).1.symm
          · have := (Prod.mk.inj hres).2; cases this
      rcases this with e' | e' <;> rw [e']
      · exact le2_refl _
      · exact le2_loadLEO _

theorem adopt_mono (ch : Chan) (t : Nat) : Le2 ch (adopt ch t).1 := c10_floor_mono_adopt ch t

theorem retain_mono (ch : Chan) (t : Nat) (a : Bool) (mm mb : Nat) : Le2 ch (storeRetention ch t a mm mb).1 := by
  unfold storeRetention
  cases had : adopt ch t with
  | mk ch1 r1 =>
    have h1 : Le2 ch ch1 := by have := adopt_mono ch t; rw [had] at this; exact this
    cases r1 with
    | error e => exact h1
    | ok u =>
      dsimp only
      cases a with
      | false => simp only [Bool.false_eq_true, if_false]; exact h1
      | true =>
        simp only [if_true]
        have h2 := trim_mono ch1 t mm mb
        cases htr : trimNoAdopt ch1 t mm mb with
        | mk ch2 r2 =>
          rw [htr] at h2
          cases r2 with
          | error e => exact le2_trans h1 h2
          | ok o => obtain ⟨x, y, z⟩ := o; exact le2_trans h1 h2

/-- **c10_floor_mono**: for ANY sequence of boundary adoptions, physical trims and worker
    retention tasks — boundaries in any order, regressions included — the logical and the
    physical retention boundary of the store never move backwards. -/
theorem c10_floor_mono (ch : Chan) (ops : List RetOp) : Le2 ch (ops.foldl retStep ch) := by
  induction ops generalizing ch with
  | nil => exact le2_refl _
  | cons op rest ih =>
    simp only [List.foldl_cons]
    refine le2_trans ?_ (ih _)
    cases op with
    | adopt t => exact adopt_mono ch t
    | trim t mm mb => exact trim_mono ch t mm mb
    | retain t a mm mb => exact retain_mono ch t a mm mb

example : (retOrZero ([RetOp.adopt 5, .adopt 2, .retain 3 true 0 0].foldl retStep
    { rows := (List.range 6).map (fun i => mkRow (i + 1) ⟨i + 1, [], [], [1], 1⟩) })) = ⟨5, 3, 6⟩ := by decide +kernel

end WK.C10

import WK.Gen.C41
/-
  C41 — T tie of the three stop-path LTSs to the Go source.  `extract/c41.go` regenerates `WK.Gen.C41` from the
  current working tree on every check run: per function the (nesting depth, synchronisation event) list in source
  order.  The theorems below pin, by evaluation over those generated tables, exactly the shape every atomic step of
  `GStep` (Model/C41.lean), `GwStep` and `QStep` (Proofs/C41_paths.lean) assumes; moving one of these statements in
  the Go source across another one makes the corresponding `decide` fail (the check then reports a violation).
-/
namespace WK.C41.Src

abbrev Ev := Nat × String

/-- `pat` occurs in `l` as a subsequence, in this order -/
def chain : List Ev → List Ev → Bool
  | [], _ => true
  | _ :: _, [] => false
  | p :: ps, x :: xs => if p == x then chain ps xs else chain (p :: ps) xs

/-- the events strictly between the first `a` and the first `b` after it (`[]` when `a` or that `b` is missing) -/
def seg (a b : Ev) (l : List Ev) : List Ev :=
  let r := (l.dropWhile (· != a)).drop 1
  if r.contains b then r.takeWhile (· != b) else []

/-- every event of `xs` lies inside the section `a … b` -/
def inside (a b : Ev) (xs : List Ev) (l : List Ev) : Bool := xs.all (seg a b l).contains

/-- `mark` occurs, and no event named `name` (at any depth) precedes its first occurrence -/
def noneBefore (name : String) (mark : Ev) (l : List Ev) : Bool :=
  l.contains mark && (l.takeWhile (· != mark)).all (·.2 != name)

def never (name : String) (l : List Ev) : Bool := l.all (·.2 != name)

/-! ### channelappend.Group: SubmitLocal versus Stop / finishStop  (GStep) -/

/-- `rlock`/`reject`/`acquire`/`runlock`: the lifecycle flags are read and the admission slot is taken inside ONE
    read-lock section, both rejecting exits unlock, and the future is created/enqueued only after the section. -/
def submitLocalShape (l : List Ev) : Bool :=
  inside (0, "g.mu.RLock") (0, "g.mu.RUnlock") [(0, "read g.stopping"), (0, "read g.stopped"), (0, "shard.tryAcquireAdmission")] l &&
  chain [(0, "g.mu.RLock"), (0, "read g.stopping"), (1, "g.mu.RUnlock"), (0, "shard.tryAcquireAdmission"), (1, "g.mu.RUnlock"),
         (0, "g.mu.RUnlock"), (0, "future.setOnDone"), (0, "writer.enqueue")] l &&
  chain [(0, "read g.stopped"), (1, "g.mu.RUnlock"), (0, "shard.tryAcquireAdmission")] l &&
  noneBefore "shard.tryAcquireAdmission" (0, "read g.stopped") l &&
  noneBefore "g.mu.RLock" (0, "g.mu.RLock") l && (l.filter (·.2 == "g.mu.RLock")).length == 1

/-- `stopLock`/`stopFast`/`stopSet`/`stopOk`/`stopDeadline`: `stopping` is written inside the write-lock section (after the
    `stopped` fast exit), the single finishStop is started after the section, the caller waits for `stopDone` last. -/
def groupStopShape (l : List Ev) : Bool :=
  inside (0, "g.mu.Lock") (0, "g.mu.Unlock") [(0, "read g.stopped"), (0, "set g.stopping = true")] l &&
  chain [(0, "g.mu.Lock"), (0, "read g.stopped"), (1, "g.mu.Unlock"), (0, "set g.stopping = true"), (0, "g.mu.Unlock"),
         (0, "g.stopOnce.Do"), (1, "read g.finishStop"), (1, "recv g.stopDone")] l &&
  noneBefore "g.stopOnce.Do" (0, "set g.stopping = true") l && never "g.runtimeCancel" l && never "close g.stopDone" l

/-- `finish`: the drain (`writersIdle`) comes first, the pools are stopped and the runtime context cancelled only after it,
    `stopped` is written under the lock after the cancel and `stopDone` is closed last. -/
def finishStopShape (l dw : List Ev) : Bool :=
  l.head? == some (0, "g.drainWriters") && dw.any (·.2 == "g.writersIdle") &&
  chain [(0, "g.drainWriters"), (0, "g.postCommitRetries.stopAndWait"), (0, "g.advancePool.stop"), (0, "g.appendPool.stop"),
         (0, "g.postCommitPool.stop"), (0, "g.runtimeCancel"), (0, "g.mu.Lock"), (0, "set g.stopped = true"), (0, "g.mu.Unlock"),
         (0, "close g.stopDone")] l &&
  noneBefore "close g.stopDone" (0, "set g.stopped = true") l && noneBefore "set g.stopped = true" (0, "g.runtimeCancel") l &&
  (l.filter (·.2 == "g.runtimeCancel")).length == 1

theorem c41_src_group_stop_protocol :
    submitLocalShape WK.Gen.C41.submitLocalEvents = true ∧
    groupStopShape WK.Gen.C41.groupStopEvents = true ∧
    finishStopShape WK.Gen.C41.finishStopEvents WK.Gen.C41.drainWritersEvents = true := by decide

-- non-vacuity: the checkers reject the early-RUnlock variant, the unlocked `stopping` write and the cancel-before-drain order
example : submitLocalShape [(0, "g.mu.RLock"), (0, "read g.stopping"), (0, "read g.stopped"), (1, "g.mu.RUnlock"), (0, "g.mu.RUnlock"),
    (0, "shard.tryAcquireAdmission"), (0, "future.setOnDone"), (0, "writer.enqueue")] = false := by decide
example : groupStopShape [(0, "g.mu.Lock"), (0, "read g.stopped"), (1, "g.mu.Unlock"), (0, "g.mu.Unlock"), (0, "set g.stopping = true"),
    (0, "g.stopOnce.Do"), (1, "read g.finishStop"), (1, "recv g.stopDone")] = false := by decide
example : finishStopShape [(0, "g.runtimeCancel"), (0, "g.drainWriters"), (0, "g.postCommitRetries.stopAndWait"), (0, "g.advancePool.stop"),
    (0, "g.appendPool.stop"), (0, "g.postCommitPool.stop"), (0, "g.mu.Lock"), (0, "set g.stopped = true"), (0, "g.mu.Unlock"),
    (0, "close g.stopDone")] [(1, "g.writersIdle")] = false := by decide

/-! ### gateway: sendExecutor.stop / drain / closeMailboxAfterDrain  (GwStep, closeExpired = false) -/

/-- `stopBegin`/`drainedStep`/`stopDrained`/`stopBudget`: drain closes admission under admissionMu, the ONE background
    waiter closes `drained` only after `admitted.Wait()`, the caller then waits for `drained` (or its budget). -/
def gwDrainShape (l : List Ev) : Bool :=
  inside (0, "e.admissionMu.Lock") (0, "e.admissionMu.Unlock") [(0, "e.closed.Store")] l &&
  chain [(0, "e.admissionMu.Lock"), (0, "e.closed.Store"), (0, "e.admissionMu.Unlock"), (0, "e.drainOnce.Do"), (2, "e.admitted.Wait"),
         (2, "close e.drained"), (1, "recv e.drained")] l &&
  noneBefore "close e.drained" (2, "e.admitted.Wait") l && noneBefore "e.admitted.Wait" (0, "e.closed.Store") l && never "e.mailbox.Close" l

/-- `stopBudget` with closeExpired = false and `closeAfterDrain`: stop itself never closes the mailbox; on both exits it
    only calls closeMailboxAfterDrain, whose goroutine closes the mailbox strictly after it received from `drained`. -/
def gwStopShape (stop close : List Ev) : Bool :=
  never "e.mailbox.Close" stop && chain [(0, "e.drain"), (1, "e.closeMailboxAfterDrain"), (0, "e.closeMailboxAfterDrain")] stop &&
  noneBefore "e.closeMailboxAfterDrain" (0, "e.drain") stop &&
  chain [(0, "e.closeOnce.Do"), (2, "recv e.drained"), (2, "e.mailbox.Close")] close &&
  noneBefore "e.mailbox.Close" (2, "recv e.drained") close && noneBefore "e.resetDepths" (2, "recv e.drained") close

theorem c41_src_gateway_stop_order :
    gwDrainShape WK.Gen.C41.gwDrainEvents = true ∧
    gwStopShape WK.Gen.C41.gwStopEvents WK.Gen.C41.gwCloseMailboxEvents = true := by decide

-- non-vacuity: the round-2 mutant (budget exit closes the mailbox at once) and a close-before-drained goroutine are rejected
example : gwStopShape [(0, "e.drain"), (0, "cancel"), (1, "e.mailbox.Close"), (1, "e.closeMailboxAfterDrain"), (0, "e.closeMailboxAfterDrain")]
    [(0, "e.closeOnce.Do"), (2, "recv e.drained"), (2, "e.mailbox.Close"), (2, "e.resetDepths")] = false := by decide
example : gwStopShape [(0, "e.drain"), (0, "cancel"), (1, "e.closeMailboxAfterDrain"), (0, "e.closeMailboxAfterDrain")]
    [(0, "e.closeOnce.Do"), (2, "e.mailbox.Close"), (2, "recv e.drained"), (2, "e.resetDepths")] = false := by decide

/-! ### delivery: Runtime.Quiesce  (QStep, acksFirst = false) -/

/-- `quiesceBegin`: the state change and `close(acceptDone)` happen inside the r.mu section; the ONE drain goroutine runs
    senders.Wait, ownerPushes.Wait, close(stopReady), `<-done` (`waitWorkers`), THEN waitPendingAcks (`waitAcks`, which
    polls PendingAckCount), THEN close(quiesceDone) (`finish`). -/
def quiesceShape (l wp : List Ev) : Bool :=
  inside (0, "r.mu.Lock") (0, "r.mu.Unlock") [(0, "set r.state = runtimeClosing"), (0, "set r.quiescing = true"), (0, "close acceptDone")] l &&
  chain [(0, "r.mu.Unlock"), (0, "r.quiesceOnce.Do"), (2, "r.admissionSenders.Wait"), (2, "r.ownerPushes.Wait"), (2, "close stopReady"),
         (2, "recv done"), (2, "r.waitPendingAcks"), (2, "close quiesceDone")] l &&
  noneBefore "r.waitPendingAcks" (2, "recv done") l && noneBefore "close quiesceDone" (2, "r.waitPendingAcks") l &&
  noneBefore "recv done" (2, "close stopReady") l &&
  (l.filter (·.2 == "close quiesceDone")).length == 1 && wp.any (·.2 == "r.PendingAckCount")

theorem c41_src_quiesce_order :
    quiesceShape WK.Gen.C41.quiesceEvents WK.Gen.C41.waitPendingAcksEvents = true := by decide

-- non-vacuity: the swapped order of c41_quiesce_acks_first_counterexample is rejected
example : quiesceShape [(0, "r.mu.Lock"), (0, "set r.state = runtimeClosing"), (0, "set r.quiescing = true"), (0, "close acceptDone"),
    (0, "r.mu.Unlock"), (0, "r.quiesceOnce.Do"), (2, "r.admissionSenders.Wait"), (2, "r.ownerPushes.Wait"), (2, "close stopReady"),
    (2, "r.waitPendingAcks"), (2, "recv done"), (2, "close quiesceDone")] [(1, "r.PendingAckCount")] = false := by decide

end WK.C41.Src

import WK.Proofs.C06_Maps
/-
  C06 — where the Nat model relies on "no uint64 wrap-around", and what guards it.

  Unsigned arithmetic in the modelled Go code:
  (1) assignStoredOffsets: `records[i].Index = base + uint64(i)`, i < len(records) — NOT guarded
      in the machine.  Largest value: base + count − 1.
      · quorum path (ApplyQuorumCommitted): base = res.First and the receipt-shape test
        `res.Last < res.First || res.Last-res.First+1 != count` has passed, so
        base + count − 1 = res.Last, itself a uint64: no wrap is possible
        (`c06_u64_quorum_receipt_bounds`).  The subtraction is evaluated only after
        `res.Last < res.First` failed (Go `||` short-circuit); if `Last-First+1` wraps to 0 the
        comparison with count ≥ 1 rejects, exactly as the Nat comparison 2^64 ≠ count does.
      · store path (ApplyAppendStored): base = res.BaseOffset comes from the store; the model
        agrees with Go iff BaseOffset + count ≤ 2^64 (HYPOTHESIS `StoreRangeFits`, the store's
        contract, C07; replication/quorum_log.go refuses LEO = 2^64−1 / count > 2^64−1−LEO
        before allocating).  Under it every assigned index and every new waiter Target is
        < 2^64 (`c06_u64_stored_offsets_bounded`, `c06_u64_targets_from_range`).
  (2) `maxUint64`, comparisons, map updates: no arithmetic.
  (3) signed `int`: `s.MinISR-1` (guarded by MinISR > 0), `next += count`, `end := next + count`
      (bounded by len(inflight.Records) ≤ MaxInt).
  (4) reactor guards / install / checkpoint handlers: comparisons and `max` only.
  Everything else in the model copies or compares numbers, so a state whose numbers are
  < 2^64 stays so under every event whose inputs are < 2^64, given StoreRangeFits.
-/
namespace WK.C06

def U64 : Nat := 2 ^ 64

/-- HYPOTHESIS on a stored result for `count` records (the store's contract) -/
def StoreRangeFits (base count : Nat) : Prop := base + count ≤ U64

theorem c06_u64_stored_offsets_bounded (base count : Nat) (h : StoreRangeFits base count) :
    ∀ x ∈ List.range' base count, x < U64 := by
  intro x hx
  rw [List.mem_range'_1] at hx
  unfold StoreRangeFits at h
  omega

/-- when ApplyQuorumCommitted's own receipt test passes, the assigned range is exactly
    [first, last]: no index exceeds the uint64 `last` -/
theorem c06_u64_quorum_receipt_bounds (first last hw count : Nat)
    (h : (first == 0 || count == 0 || last < first || last - first + 1 != count || hw != last) = false) :
    first + count = last + 1 ∧ ∀ x ∈ List.range' first count, x ≤ last := by
  simp only [Bool.or_eq_false_iff, beq_eq_false_iff_ne, ne_eq, decide_eq_false_iff_not, Nat.not_lt,
             bne_eq_false_iff_eq] at h
  obtain ⟨⟨⟨⟨_, _⟩, h3⟩, h4⟩, _⟩ := h
  refine ⟨by omega, ?_⟩
  intro x hx
  rw [List.mem_range'_1] at hx
  omega

theorem mem_setW {p : List Waiter} {w x : Waiter} (h : x ∈ setW p w) : x = w ∨ x ∈ p := by
  unfold setW at h
  split at h
  · rw [List.mem_map] at h
    obtain ⟨y, hy, he⟩ := h
    split at he
    · exact Or.inl he.symm
    · exact Or.inr (he ▸ hy)
  · rw [List.mem_append] at h
    rcases h with h | h
    · exact Or.inr h
    · exact Or.inl (by simpa using h)

theorem getLast_slice_mem (l : List Nat) (a b : Nat) (h : (slice l a b).length > 0) :
    (slice l a b).getLast?.getD 0 ∈ l := by
  unfold slice at *
  cases hl : ((l.drop a).take (b - a)).getLast? with
  | none =>
    rw [List.getLast?_eq_none_iff] at hl
    rw [hl] at h
    simp at h
  | some v =>
    have hm : v ∈ (l.drop a).take (b - a) := List.mem_of_getLast? hl
    exact List.mem_of_mem_drop (List.mem_of_mem_take hm)

theorem assignOne_target (recs : List Nat) (w : Waiter) (c n : Nat) :
    (assignOne recs w c n).1.target ∈ recs ∨ (assignOne recs w c n).1.target = w.target := by
  have ht : (assignOne recs w c n).1.target =
      if (assignOne recs w c n).1.recs.length > 0 then (assignOne recs w c n).1.recs.getLast?.getD 0
      else w.target := rfl
  have hr : (assignOne recs w c n).1.recs = slice recs n (assignOne recs w c n).2 := rfl
  rw [ht]
  split
  · next hpos =>
    rw [hr] at hpos ⊢
    exact Or.inl (getLast_slice_mem _ _ _ hpos)
  · exact Or.inr rfl

/-- after assigning stored offsets every waiter's Target is its old Target or one of the
    assigned indexes — so with `c06_u64_stored_offsets_bounded` no Target leaves uint64 -/
theorem c06_u64_targets_from_range (recs : List Nat) (ops : List Nat) :
    ∀ (counts : List Nat) (next : Nat) (p : List Waiter),
      ∀ w' ∈ assignLoop recs ops counts next p, w'.target ∈ recs ∨ ∃ w ∈ p, w'.target = w.target := by
  induction ops with
  | nil => intro counts next p w' h; exact Or.inr ⟨w', h, rfl⟩
  | cons op rest ih =>
    intro counts next p w' h
    unfold assignLoop at h
    dsimp only at h
    split at h
    · exact ih _ _ _ _ h
    · next w hw =>
      rcases ih _ _ _ _ h with h1 | ⟨w1, hw1, ht⟩
      · exact Or.inl h1
      · rcases mem_setW hw1 with he | hin
        · -- w1 is the waiter just updated
          rw [ht, he]
          rcases assignOne_target recs w (counts.headD 0) next with h2 | h2
          · exact Or.inl h2
          · exact Or.inr ⟨w, (lookupW_some hw).1, h2⟩
        · exact Or.inr ⟨w1, hin, ht⟩

-- non-vacuity: the largest admissible stored range, and a passing receipt
example : StoreRangeFits (2 ^ 64 - 3) 3 := by unfold StoreRangeFits U64; decide
example : (1 == 0 || 3 == 0 || decide (3 < 1) || 3 - 1 + 1 != 3 || 3 != 3) = false := by decide
example : ∀ w' ∈ assignLoop (List.range' 5 3) [11, 12] [2, 1] 0
    [⟨11, 0, 1, [0, 0]⟩, ⟨12, 0, 2, [0]⟩], w'.target ∈ [6, 7] := by decide

end WK.C06

import WK.Proofs.C14_Pebble
/-
  C14 — `Refines p m`: the Pebble store `p` corresponds to the reference store
  `m`, and its writer cache (if any) is what `loadScopeWriteState` would load.
  Every Raft-valid operation succeeds on `p` and preserves the relation.
-/
namespace WK.C14

/-- what the persisted meta must be: absent only on a scope that has never been
    written or read (only `MarkConfigApplied` happened), else the reference's view -/
def MetaRel (m : RaftStore) (mt : Option Meta) (ak : Nat) : Prop :=
  match mt with
  | none => m = { confApplied := m.confApplied } ∧ ak = 0
  | some x => ∃ conf, m.conf = some conf ∧ x = metaOf m conf

/-- the meta the writer works with -/
def effMeta (m : RaftStore) (mt : Option Meta) : Meta := mt.getD (metaOf m Conf.zero)

def Refines (p : PStore) (m : RaftStore) : Prop :=
  ∃ (mt : Option Meta) (ak : Nat),
    p.d = durOf m mt ak ∧ MetaRel m mt ak ∧
    (p.cache = none ∨ p.cache = some (cacheOf m (effMeta m mt)))

theorem refines_init : Refines {} {} := ⟨none, 0, rfl, ⟨rfl, rfl⟩, Or.inl rfl⟩

theorem fresh_conf (k : Nat) : RaftStore.conf { confApplied := k } = some Conf.zero := rfl

/-- the effective meta is `metaOf m c` for the reference's membership `c` -/
theorem effMeta_eq (m : RaftStore) (mt : Option Meta) (ak : Nat) (hm : MetaRel m mt ak) :
    ∃ c, m.conf = some c ∧ effMeta m mt = metaOf m c := by
  cases mt with
  | none =>
    obtain ⟨hm, _⟩ := hm
    exact ⟨Conf.zero, by rw [hm]; exact fresh_conf _, rfl⟩
  | some x =>
    obtain ⟨c, hc, hx⟩ := hm
    exact ⟨c, hc, hx⟩

theorem conf_empty_log (m : RaftStore) (h : RInv m) (h0 : m.snapshot.index ≠ 0) (he : m.entries = []) :
    m.conf = some m.snapshot.conf := by
  unfold RaftStore.conf deriveConf
  rw [he]
  simp only [h0, ne_eq, not_false_eq_true, if_true, deriveFold]
  by_cases hz : m.snapshot.conf.isZero = true
  · simp only [hz, if_true]
    have : m.snapshot.conf = Conf.zero := by
      cases hc : m.snapshot.conf with
      | mk v l =>
        simp only [Conf.isZero, hc, Bool.and_eq_true, List.isEmpty_iff] at hz
        simp [Conf.zero, hz.1, hz.2]
    rw [this]
  · simp only [hz]
    exact restoreConf_canonical _ (h.snapSome h0).2 (by simpa using hz)

theorem viewErr_false (m : RaftStore) (h : RInv m) (mt : Option Meta) (ak : Nat) (hm : MetaRel m mt ak) :
    viewErr (durOf m mt ak) = false := by
  cases mt with
  | none =>
    obtain ⟨hm, _⟩ := hm
    rw [hm]; rfl
  | some x =>
    obtain ⟨c, hc, hx⟩ := hm
    subst hx
    by_cases h0 : m.snapshot.index = 0
    · simp [viewErr, durOf, manOf, h0, metaOf]
    · simp only [viewErr, durOf, manOf, h0, if_false, metaOf]
      simp only [ne_eq, not_true_eq_false, or_self, if_false]
      by_cases hl : m.entries.length = 0
      · have he : m.entries = [] := List.length_eq_zero_iff.1 hl
        have := conf_empty_log m h h0 he
        rw [hc] at this
        simp at this
        simp [this]
      · have : ¬ (m.snapshot.index + m.entries.length ≤ m.snapshot.index) := by omega
        simp [this]

theorem loadState_canon (m : RaftStore) (h : RInv m) (mt : Option Meta) (ak : Nat) (hm : MetaRel m mt ak) :
    loadState (durOf m mt ak) = .ok (cacheOf m (effMeta m mt)) := by
  unfold loadState
  rw [viewErr_false m h mt ak hm]
  cases mt with
  | none =>
    obtain ⟨hm, _⟩ := hm
    rw [hm]; rfl
  | some x =>
    simp only [Bool.false_eq_true, if_false, durOf, effMeta, Option.getD_some]
    by_cases h0 : m.snapshot.index = 0
    · have hs := h.snapNone h0
      simp only [manOf, h0, if_true, cacheOf, hs, Snap.none]
    · have hb := h.bound
      have hlt : m.snapshot.index < maxU64 := by omega
      have hfil : m.entries.filter (fun (e : Entry) => decide (m.snapshot.index + 1 ≤ e.index)) = m.entries := by
        apply List.filter_eq_self.2
        intro e he
        have := consec_ge _ _ h.consec e he
        simp; omega
      simp only [manOf, h0, if_false, hlt, if_true, hfil, cacheOf]

theorem state_canon (p : PStore) (m : RaftStore) (h : RInv m) (mt : Option Meta) (ak : Nat)
    (hd : p.d = durOf m mt ak) (hm : MetaRel m mt ak)
    (hc : p.cache = none ∨ p.cache = some (cacheOf m (effMeta m mt))) :
    p.state = .ok (cacheOf m (effMeta m mt)) := by
  unfold PStore.state
  rcases hc with hc | hc
  · rw [hc, hd]; exact loadState_canon m h mt ak hm
  · rw [hc]

theorem flush_canon (p : PStore) (m : RaftStore) (h : RInv m) (mt : Option Meta) (ak : Nat)
    (hd : p.d = durOf m mt ak) (hm : MetaRel m mt ak)
    (hc : p.cache = none ∨ p.cache = some (cacheOf m (effMeta m mt)))
    (f : Durable → Cache → Except Err (Durable × Cache)) (d' : Durable) (c' : Cache)
    (hf : f (durOf m mt ak) (cacheOf m (effMeta m mt)) = .ok (d', c')) :
    p.flush f = .ok { d := d', cache := some c' } := by
  unfold PStore.flush
  rw [state_canon p m h mt ak hd hm hc, hd]
  simp only [hf]

end WK.C14

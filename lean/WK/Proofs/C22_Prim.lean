import WK.Spec.C22
/-
  C22 — primitive lemmas: fixed-width integers, length-prefixed strings, the
  remaining-length varint, the fixed header byte, the write combinator.
-/
deriving instance DecidableEq for Except

namespace WK.C22

/-! ### big-endian integers and strings -/

theorem getU8_enc (n : Nat) (r : Bytes) (h : n < 256) : getU8 (encU8 n ++ r) = some (n, r) := by
  simp [getU8, encU8]; omega
theorem getU16_enc (n : Nat) (r : Bytes) (h : n < 65536) : getU16 (encU16 n ++ r) = some (n, r) := by
  simp [getU16, encU16]; omega
theorem getU32_enc (n : Nat) (r : Bytes) (h : n < 4294967296) : getU32 (encU32 n ++ r) = some (n, r) := by
  simp [getU32, encU32]; omega
theorem getU64_enc (n : Nat) (r : Bytes) (h : n < 18446744073709551616) :
    getU64 (encU64 n ++ r) = some (n, r) := by
  simp [getU64, encU64]; omega

theorem getStr_enc (s r : Bytes) (h : s.length ≤ 32767) : getStr (encStr s ++ r) = some (s, r) := by
  unfold getStr encStr
  rw [List.append_assoc, getU16_enc _ _ (by omega)]
  simp [maxInt16]
  omega

theorem getU8_enc0 (n : Nat) (h : n < 256) : getU8 (encU8 n) = some (n, []) := by
  simpa using getU8_enc n [] h
theorem getU32_enc0 (n : Nat) (h : n < 4294967296) : getU32 (encU32 n) = some (n, []) := by
  simpa using getU32_enc n [] h
theorem getU64_enc0 (n : Nat) (h : n < 18446744073709551616) : getU64 (encU64 n) = some (n, []) := by
  simpa using getU64_enc n [] h
theorem getStr_enc0 (s : Bytes) (h : s.length ≤ 32767) : getStr (encStr s) = some (s, []) := by
  simpa using getStr_enc s [] h

theorem getSeq_enc (v n : Nat) (r x : Bytes) (h : seqOk v n) (hx : wSeq v n = .ok x) :
    getSeq v (x ++ r) = some (n, r) := by
  unfold seqOk at h
  unfold wSeq at hx
  unfold getSeq
  by_cases hv : v ≤ legacyMessageSeqVersion
  · simp only [hv, if_true, u32] at h hx ⊢
    have : ¬ n > 4294967295 := by omega
    simp only [this, if_false, Except.ok.injEq] at hx
    subst hx
    exact getU32_enc n r h
  · simp only [hv, if_false, u64, Except.ok.injEq] at h hx ⊢
    subst hx
    exact getU64_enc n r h

theorem wSeq_ok (v n : Nat) (h : seqOk v n) :
    wSeq v n = .ok (if v ≤ legacyMessageSeqVersion then encU32 n else encU64 n) := by
  unfold seqOk at h
  unfold wSeq
  by_cases hv : v ≤ legacyMessageSeqVersion
  · simp only [hv, if_true, u32] at h ⊢
    have : ¬ n > 4294967295 := by omega
    simp [this]
  · simp [hv]

@[simp] theorem encStr_length (s : Bytes) : (encStr s).length = s.length + 2 := by simp [encStr, encU16]
@[simp] theorem encU8_length (n : Nat) : (encU8 n).length = 1 := rfl
@[simp] theorem encU16_length (n : Nat) : (encU16 n).length = 2 := rfl
@[simp] theorem encU32_length (n : Nat) : (encU32 n).length = 4 := rfl
@[simp] theorem encU64_length (n : Nat) : (encU64 n).length = 8 := rfl

/-! ### the write combinator -/

theorem wStr_ok (s : Bytes) (h : s.length ≤ 32767) : wStr s = .ok (encStr s) := by
  simp [wStr, maxInt16]; omega

@[simp] theorem wCat_nil : wCat [] = .ok [] := rfl
@[simp] theorem wCat_ok_cons (b : Bytes) (rest : List W) :
    wCat (.ok b :: rest) = match wCat rest with | .error e => .error e | .ok r => .ok (b ++ r) := rfl
@[simp] theorem wCat_err_cons (e : EncFail) (rest : List W) : wCat (.error e :: rest) = .error e := rfl
@[simp] theorem wIf_true (ws : List W) : wIf true ws = ws := rfl
@[simp] theorem wIf_false (ws : List W) : wIf false ws = [] := rfl

/-- length contributed by one write when it succeeds -/
def wLen : W → Nat
  | .ok b => b.length
  | .error _ => 0

def wAllOk : List W → Prop
  | [] => True
  | .ok _ :: rest => wAllOk rest
  | .error _ :: _ => False

/-- if the sequence of writes succeeded, every write succeeded and the output is as
    long as the writes together -/
theorem wCat_ok_inv : ∀ (ws : List W) (b : Bytes), wCat ws = .ok b →
    wAllOk ws ∧ b.length = (ws.map wLen).sum
  | [], b, h => by
    simp at h; subst h; simp [wAllOk]
  | .error e :: rest, b, h => by simp at h
  | .ok x :: rest, b, h => by
    simp only [wCat_ok_cons] at h
    cases hr : wCat rest with
    | error e => simp [hr] at h
    | ok r =>
      simp only [hr, Except.ok.injEq] at h
      subst h
      have := wCat_ok_inv rest r hr
      simp [wAllOk, wLen, this.1, this.2]

theorem wStr_len_of_ok (s : Bytes) : (∃ x, wStr s = .ok x) → wLen (wStr s) = s.length + 2 := by
  intro ⟨x, hx⟩
  unfold wStr at hx ⊢
  split at hx
  · cases hx
  · rename_i h; simp [h, wLen]

/-! ### remaining-length varint -/

theorem varSizeF_zero (fuel : Nat) : varSizeF fuel 0 = 0 := by cases fuel <;> simp [varSizeF]

theorem encVarF_length (fuel n : Nat) : (encVarF fuel n).length = varSizeF fuel n := by
  induction fuel generalizing n with
  | zero => simp [encVarF, varSizeF]
  | succ k ih =>
    simp only [encVarF, varSizeF]
    split
    · split
      · simp [ih]; omega
      · rename_i h1 h2
        have : n / 128 = 0 := by omega
        simp [this, varSizeF_zero]
    · rfl

theorem encVar_length (n : Nat) : (encVar n).length = varSize n := encVarF_length 5 n

theorem decLenF_encVarF (k : Nat) : ∀ (fe m off acc n : Nat) (r : Bytes), 0 < n → n < 128 ^ k → k ≤ fe →
    decLenF k m off acc (encVarF fe n ++ r) = some (acc + n * 2 ^ m, off + varSizeF fe n) := by
  induction k with
  | zero => intro fe m off acc n r h0 h1; simp at h1; omega
  | succ k ih =>
    intro fe m off acc n r h0 h1 hk
    obtain ⟨fe', rfl⟩ : ∃ fe', fe = fe' + 1 := ⟨fe - 1, by omega⟩
    have hd : n % 128 < 128 := Nat.mod_lt _ (by omega)
    by_cases hn : n / 128 > 0
    · have hlt : n / 128 < 128 ^ k := by
        rw [Nat.pow_succ] at h1
        exact Nat.div_lt_of_lt_mul (by rw [Nat.mul_comm]; exact h1)
      have e1 : encVarF (fe' + 1) n = UInt8.ofNat (n % 128 + 128) :: encVarF fe' (n / 128) := by
        simp [encVarF, h0, hn]
      have e2 : varSizeF (fe' + 1) n = 1 + varSizeF fe' (n / 128) := by simp [varSizeF, h0]
      rw [e1, e2, List.cons_append, decLenF]
      have t1 : (UInt8.ofNat (n % 128 + 128)).toNat = n % 128 + 128 := by simp; omega
      simp only [t1]
      have t2 : ¬ ((n % 128 + 128) / 128 = 0) := by omega
      rw [if_neg t2, ih fe' (m + 7) (off + 1) _ (n / 128) r hn hlt (by omega)]
      have t3 : (n % 128 + 128) % 128 = n % 128 := by omega
      rw [t3]
      have := Nat.div_add_mod n 128
      congr 1
      rw [Nat.pow_add]
      congr 1
      · generalize 2 ^ m = t
        have : n * t = (128 * (n / 128) + n % 128) * t := by rw [this]
        rw [this, Nat.add_mul]
        have : n / 128 * (t * 2 ^ 7) = 128 * (n / 128) * t := by
          rw [show (2:Nat) ^ 7 = 128 from rfl, Nat.mul_comm t 128, ← Nat.mul_assoc, Nat.mul_comm (n/128) 128]
        omega
      · omega
    · have hz : n / 128 = 0 := by omega
      have e1 : encVarF (fe' + 1) n = [UInt8.ofNat (n % 128)] := by simp [encVarF, h0, hz]
      have e2 : varSizeF (fe' + 1) n = 1 := by simp [varSizeF, h0, hz, varSizeF_zero]
      rw [e1, e2, List.cons_append, decLenF]
      have t1 : (UInt8.ofNat (n % 128)).toNat = n % 128 := by simp; omega
      simp only [t1]
      have t2 : n % 128 / 128 = 0 := by omega
      rw [if_pos t2]
      have : n % 128 % 128 = n := by omega
      rw [this]

/-- the varint round-trip, for every length a frame can legally carry (and up to 2^28-1) -/
theorem decLen_encVar (n : Nat) (r : Bytes) (h0 : 0 < n) (h : n < 268435456) :
    decLen (encVar n ++ r) = some (n, varSize n) := by
  have := decLenF_encVarF 4 5 0 0 0 n r h0 (by simpa using h) (by omega)
  simpa [decLen, encVar, varSize] using this

/-- a strict prefix of a varint is "need more data" -/
theorem decLenF_prefix_none (k : Nat) : ∀ (fe m off acc n : Nat) (p : Bytes), 0 < n → n < 128 ^ k → k ≤ fe →
    p.length < (encVarF fe n).length → p <+: encVarF fe n → decLenF k m off acc p = none := by
  induction k with
  | zero => intro fe m off acc n p h0 h1; simp at h1; omega
  | succ k ih =>
    intro fe m off acc n p h0 h1 hk hlen hp
    obtain ⟨fe', rfl⟩ : ∃ fe', fe = fe' + 1 := ⟨fe - 1, by omega⟩
    cases p with
    | nil => simp [decLenF]
    | cons d p' =>
      by_cases hn : n / 128 > 0
      · have hlt : n / 128 < 128 ^ k := by
          rw [Nat.pow_succ] at h1
          exact Nat.div_lt_of_lt_mul (by rw [Nat.mul_comm]; exact h1)
        have e1 : encVarF (fe' + 1) n = UInt8.ofNat (n % 128 + 128) :: encVarF fe' (n / 128) := by
          simp [encVarF, h0, hn]
        rw [e1] at hp hlen
        rw [List.cons_prefix_cons] at hp
        obtain ⟨rfl, hp'⟩ := hp
        have hd : n % 128 < 128 := Nat.mod_lt _ (by omega)
        have t1 : (UInt8.ofNat (n % 128 + 128)).toNat = n % 128 + 128 := by simp; omega
        rw [decLenF]
        simp only [t1]
        have t2 : ¬ ((n % 128 + 128) / 128 = 0) := by omega
        rw [if_neg t2]
        exact ih fe' _ _ _ (n / 128) p' hn hlt (by omega) (by simpa using hlen) hp'
      · have hz : n / 128 = 0 := by omega
        have e1 : encVarF (fe' + 1) n = [UInt8.ofNat (n % 128)] := by simp [encVarF, h0, hz]
        rw [e1] at hlen
        simp at hlen

theorem decLen_prefix_none (n : Nat) (p : Bytes) (h0 : 0 < n) (h : n < 268435456)
    (hlen : p.length < (encVar n).length) (hp : p <+: encVar n) : decLen p = none :=
  decLenF_prefix_none 4 5 0 0 0 n p h0 (by simpa using h) (by omega) hlen hp

/-! ### fixed header byte -/

theorem typeOfByte_hdr (ft : Nat) (h : Flags) (hft : ft < 16) : typeOfByte (hdrByte ft h) = ft := by
  rcases h with ⟨a, b, c, d, e, f⟩
  cases a <;> cases b <;> cases c <;> cases d <;> cases e <;>
    simp [typeOfByte, hdrByte, b2n] <;> (try split) <;> omega

theorem flags_hdr (ft : Nat) (h : Flags) (hft : ft < 16) (h2 : ft ≠ 2) :
    flagsOfByte (hdrByte ft h) = normFlags h := by
  rcases h with ⟨a, b, c, d, e, f⟩
  cases a <;> cases b <;> cases c <;> cases d <;>
    simp [flagsOfByte, hdrByte, b2n, normFlags, h2] <;> omega

theorem flags_hdr_connack (h : Flags) : flagsOfByte (hdrByte 2 h) = normConnackFlags h := by
  rcases h with ⟨a, b, c, d, e, f⟩
  cases e <;> simp [flagsOfByte, hdrByte, b2n, normConnackFlags]

end WK.C22

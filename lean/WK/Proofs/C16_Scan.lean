import WK.Proofs.C16_Table
/-
  C16 — the paginated directory scan: for any positive page sizes the
  concatenation of the pages of a completed pass is the user's slice of the
  activation index, in key order.
-/
namespace WK.C16

def owner (slot uid : Nat) (e : IdxE) : Bool := decide (e.slot = slot) && decide (e.uid = uid)

/-- the user's slice of the index -/
def base (st : St) (slot uid : Nat) : List IdxE := st.idx.filter (owner slot uid)

def curOf (x : IdxE) : Cur := ⟨x.act, x.ch, x.ct⟩

theorem cands_eq (st : St) (slot uid : Nat) (c : Cur) (hi : Inv st) :
    cands st slot uid c = (base st slot uid).filter (fun e => decide (afterCur c e)) := by
  unfold cands base
  rw [List.filter_filter]
  apply List.filter_congr
  intro e he
  have hp : passes st.rows e = true := (hi.mem e).mp he
  simp [owner, hp, Bool.and_comm, Bool.and_assoc]

theorem lastCur_concat (c : Cur) (t : List IdxE) (x : IdxE) : lastCur c (t ++ [x]) = curOf x := by
  induction t with
  | nil => rfl
  | cons h t ih =>
    cases t with
    | nil => rfl
    | cons h2 t2 =>
      simp only [List.cons_append] at ih ⊢
      unfold lastCur
      exact ih

theorem filter_after_last (t : List IdxE) (x : IdxE) (d : List IdxE)
    (h : (t ++ x :: d).Pairwise idxLt) :
    (t ++ x :: d).filter (fun e => decide (idxLt x e)) = d := by
  rw [List.pairwise_append] at h
  obtain ⟨_, hxd, hcross⟩ := h
  rw [List.pairwise_cons] at hxd
  rw [List.filter_append]
  have h1 : t.filter (fun e => decide (idxLt x e)) = [] := by
    apply List.filter_eq_nil_iff.mpr
    intro e he
    have : idxLt e x := hcross e he x (by simp)
    simp [idxLt_asymm this]
  have h2 : (x :: d).filter (fun e => decide (idxLt x e)) = d := by
    rw [List.filter_cons]
    simp only [idxLt_irrefl x, decide_false, Bool.false_eq_true, if_false]
    apply List.filter_eq_self.mpr
    intro e he
    simp [hxd.1 e he]
  rw [h1, h2]; rfl

theorem afterCur_curOf (x e : IdxE) (hs : x.slot = e.slot) (hu : x.uid = e.uid) (hx : 1 < x.ch) :
    afterCur (curOf x) e ↔ idxLt x e := by
  have hz : curOf x ≠ Cur.zero := by
    intro h
    simp [curOf, Cur.zero] at h
    omega
  unfold afterCur idxLt
  simp only [hz, false_or]
  simp only [curOf]
  omega

theorem afterCur_trans (c : Cur) (x e : IdxE) (hs : x.slot = e.slot) (hu : x.uid = e.uid)
    (h1 : afterCur c x) (h2 : idxLt x e) : afterCur c e := by
  unfold afterCur idxLt at *
  by_cases hz : c = Cur.zero
  · exact Or.inl hz
  · simp only [hz, false_or] at h1 ⊢
    omega

/-- the heart of pagination: the candidates after the last entry of a page are exactly the
    candidates that were not yet emitted -/
theorem next_page (B : List IdxE) (slot uid : Nat) (c : Cur) (n : Nat)
    (hs : B.Pairwise idxLt) (ho : ∀ e, e ∈ B → e.slot = slot ∧ e.uid = uid) (hc : ∀ e, e ∈ B → 1 < e.ch)
    (hn : 0 < n) (hl : n < (B.filter (fun e => decide (afterCur c e))).length) :
    B.filter (fun e => decide (afterCur (lastCur c ((B.filter (fun e => decide (afterCur c e))).take n)) e))
      = (B.filter (fun e => decide (afterCur c e))).drop n := by
  generalize hL : B.filter (fun e => decide (afterCur c e)) = L at *
  have hLs : L.Pairwise idxLt := by rw [← hL]; exact List.Pairwise.filter _ hs
  have hne : L.take n ≠ [] := by
    intro h
    have h2 : (L.take n).length = min n L.length := List.length_take
    rw [h] at h2
    simp only [List.length_nil] at h2
    omega
  obtain ⟨t, x, htx⟩ : ∃ t x, L.take n = t ++ [x] := by
    rcases List.eq_nil_or_concat (L.take n) with h | ⟨t, x, h⟩
    · exact absurd h hne
    · exact ⟨t, x, by simpa using h⟩
  have hsplit : L = t ++ x :: L.drop n := by
    have := List.take_append_drop n L
    rw [htx] at this
    simpa using this.symm
  have hxL : x ∈ L := by rw [hsplit]; simp
  have hxB : x ∈ B := by
    have : x ∈ B.filter (fun e => decide (afterCur c e)) := by rw [hL]; exact hxL
    exact (List.mem_filter.mp this).1
  have hxc : afterCur c x := by
    have : x ∈ B.filter (fun e => decide (afterCur c e)) := by rw [hL]; exact hxL
    simpa using (List.mem_filter.mp this).2
  rw [htx, lastCur_concat]
  -- filter over B of "after x" = filter over L of "after x"
  have h1 : B.filter (fun e => decide (afterCur (curOf x) e)) = L.filter (fun e => decide (idxLt x e)) := by
    rw [← hL, List.filter_filter]
    apply List.filter_congr
    intro e he
    have hox := ho x hxB
    have hoe := ho e he
    have hs' : x.slot = e.slot := by omega
    have hu' : x.uid = e.uid := by omega
    have hiff := afterCur_curOf x e hs' hu' (hc x hxB)
    by_cases hlt : idxLt x e
    · have : afterCur c e := afterCur_trans c x e hs' hu' hxc hlt
      simp [hlt, hiff.mpr hlt, this]
    · have : ¬ afterCur (curOf x) e := fun h => hlt (hiff.mp h)
      simp [hlt, this]
  rw [h1]
  conv => lhs; rw [hsplit]
  apply filter_after_last
  rw [← hsplit]; exact hLs

theorem base_sorted (st : St) (slot uid : Nat) (hi : Inv st) : (base st slot uid).Pairwise idxLt :=
  List.Pairwise.filter _ hi.sorted

theorem base_owner (st : St) (slot uid : Nat) : ∀ e, e ∈ base st slot uid → e.slot = slot ∧ e.uid = uid := by
  intro e he
  have := (List.mem_filter.mp he).2
  simpa [owner] using this

theorem base_chpos (st : St) (slot uid : Nat) (hi : Inv st) : ∀ e, e ∈ base st slot uid → 1 < e.ch :=
  fun e he => hi.chpos e (List.mem_filter.mp he).1

/-- a completed pass from cursor `c` emits exactly the index entries after `c` -/
theorem runPass_from (st : St) (slot uid : Nat) (hi : Inv st) (limits : List Nat) :
    ∀ (c : Cur) (out : List IdxE), (∀ l, l ∈ limits → 0 < l) →
      runPass st slot uid c limits = (out, true) →
      out = (base st slot uid).filter (fun e => decide (afterCur c e)) := by
  induction limits with
  | nil => intro c out _ h; simp [runPass] at h
  | cons l ls ih =>
    intro c out hpos h
    have hl : 0 < l := hpos l (by simp)
    unfold runPass at h
    unfold page at h
    rw [cands_eq st slot uid c hi] at h
    by_cases hlt : l < ((base st slot uid).filter (fun e => decide (afterCur c e))).length
    · simp only [hlt, if_true] at h
      cases hr : runPass st slot uid
          (lastCur c (((base st slot uid).filter (fun e => decide (afterCur c e))).take l)) ls with
      | mk rest d =>
        rw [hr] at h
        simp only [Prod.mk.injEq] at h
        obtain ⟨h1, h2⟩ := h
        subst h2
        have := ih _ rest (fun x hx => hpos x (by simp [hx])) hr
        rw [next_page (base st slot uid) slot uid c l (base_sorted st slot uid hi)
          (base_owner st slot uid) (base_chpos st slot uid hi) hl hlt] at this
        rw [← h1, this, List.take_append_drop]
    · simp only [hlt, if_false, Prod.mk.injEq, and_true] at h
      exact h.symm

end WK.C16

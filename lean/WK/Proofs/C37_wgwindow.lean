import WK.Proofs.C37_mb
/-
  C37 — the Submit/Close window of the sharded mailbox: `wg.Add(1)` happens under the shard lock together with
  `scheduled = true` (one step `subEnqSched` of the mailbox LTS), so Close's `wg.Wait()` is already bound to the
  drain when the Submit leaves the lock.  Plus the decided counter-schedule for Add-after-unlock on a small LTS
  of exactly that window.
-/
set_option linter.unusedSimpArgs false
namespace WK.C37

theorem MBInv.live_holds_wg {cfg : MBCfg} {s : MB} (h : MBInv cfg s) (i : Nat) (hl : s.g i ≠ .dead) :
    s.gs i ∈ s.wg := by
  have hs := h.gSched i hl
  have hc := h.wgCount (s.gs i)
  rw [hs] at hc
  simp at hc
  exact List.count_pos_iff.mp (by omega)

/-- From the moment a Submit has queued its item and scheduled a drain (the drain instance is live: invoked, running
    or about to call finishShardDrain) the WaitGroup holds that shard's token, for any number of submitters, shards
    and interleavings; hence no step lets Close return while such a drain instance exists. -/
theorem c37_mailbox_submit_bound_before_unlock (cfg : MBCfg) {s : MB} (r : MBReach cfg s) :
    (∀ i, s.g i ≠ .dead → s.gs i ∈ s.wg) ∧
    (∀ s', MBStep cfg s s' → s.c ≠ .ret → s'.c = .ret → ∀ i, s.g i = .dead) := by
  refine ⟨fun i hl => r.inv.live_holds_wg i hl, ?_⟩
  intro s' st hn hr i
  cases st <;> simp_all
  case cRet hc hw =>
    by_cases hd : s.g i = .dead
    · exact hd
    · have := r.inv.live_holds_wg i hd
      rw [hw] at this; cases this

example : ∃ s, MBReach { nsh := 1, cap := 4, sh := fun _ => 0, repaired := true } s ∧ s.g 0 = .invoked ∧ s.wg = [0] := by
  have r0 := MBReach.init (cfg := { nsh := 1, cap := 4, sh := fun _ => 0, repaired := true })
  have r1 := r0.step (MBStep.subCheck _ 0 rfl rfl)
  have r2 := r1.step (MBStep.subEnqSched _ 0 rfl rfl rfl (by decide) rfl)
  exact ⟨_, r2, rfl, rfl⟩

/-! ### the window in isolation: where `wg.Add(1)` happens -/

/-- one Submit to an idle shard racing Close.  sub: 0 not yet, 1 queued + scheduled (lock released), 2 wg registered,
    about to invoke, 3 handed to the pool, 4 invoke refused (pool closed): only wg.Done, 5 ran -/
structure WgWin where
  sub : Nat
  wg : Nat
  closed : Bool
  closeRet : Bool

inductive WgStep (underLock : Bool) : WgWin → WgWin → Prop
  | enter (s : WgWin) : s.sub = 0 → s.closed = false →
      WgStep underLock s { s with sub := 1, wg := s.wg + (if underLock then 1 else 0) }
  | add (s : WgWin) : s.sub = 1 →
      WgStep underLock s { s with sub := 2, wg := s.wg + (if underLock then 0 else 1) }
  | invoke (s : WgWin) : s.sub = 2 → s.closeRet = false → WgStep underLock s { s with sub := 3 }
  | invokeRefused (s : WgWin) : s.sub = 2 → s.closeRet = true → WgStep underLock s { s with sub := 4, wg := s.wg - 1 }
  | run (s : WgWin) : s.sub = 3 → WgStep underLock s { s with sub := 5, wg := s.wg - 1 }
  | closeBegin (s : WgWin) : s.closed = false → WgStep underLock s { s with closed := true }
  | closeReturn (s : WgWin) : s.closed = true → s.closeRet = false → s.wg = 0 → WgStep underLock s { s with closeRet := true }

inductive WgReach (underLock : Bool) : WgWin → Prop
  | init : WgReach underLock { sub := 0, wg := 0, closed := false, closeRet := false }
  | step {s s' : WgWin} : WgReach underLock s → WgStep underLock s s' → WgReach underLock s'

/-- with the Add under the lock: once Close returned, an admitted item has run -/
theorem c37_mailbox_wgadd_under_lock {s : WgWin} (r : WgReach true s) :
    s.closeRet = true → s.sub ≠ 0 → s.sub = 5 := by
  have inv : (s.sub = 1 ∨ s.sub = 2 ∨ s.sub = 3 → 1 ≤ s.wg) ∧ (s.closeRet = true → s.closed = true) ∧
      (s.closeRet = true → s.sub = 0 ∨ s.sub = 5) ∧ s.sub ≠ 4 ∧ s.sub ≤ 5 := by
    induction r with
    | init => simp
    | step _ st ih => cases st <;> simp_all <;> omega
  intro hc hs
  rcases inv.2.2.1 hc with h | h
  · exact absurd h hs
  · exact h

/-- Add after the unlock (round-2 mutant): Submit queued its item, Close returned nil, the late invoke is refused,
    the item never runs -/
theorem c37_mailbox_wgadd_after_unlock_counterexample :
    ∃ s, WgReach false s ∧ s.closeRet = true ∧ s.sub = 4 ∧ ∀ s', WgStep false s s' → False := by
  have r0 := WgReach.init (underLock := false)
  have r1 := r0.step (WgStep.enter _ rfl rfl)
  have r2 := r1.step (WgStep.closeBegin _ rfl)
  have r3 := r2.step (WgStep.closeReturn _ rfl rfl rfl)
  have r4 := r3.step (WgStep.add _ rfl)
  have r5 := r4.step (WgStep.invokeRefused _ rfl rfl)
  refine ⟨_, r5, rfl, rfl, ?_⟩
  intro s' st
  cases st <;> simp_all

end WK.C37

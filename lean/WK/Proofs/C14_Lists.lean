import WK.Model.C14
/-
  C14 — list lemmas about runs of entries with consecutive indices.
-/
namespace WK.C14

theorem consec_nil (a : Nat) : consecutiveFrom a [] = true := rfl

theorem consec_cons (a : Nat) (e : Entry) (es : List Entry) :
    consecutiveFrom a (e :: es) = true ↔ e.index = a ∧ consecutiveFrom (a + 1) es = true := by
  simp [consecutiveFrom]

theorem consec_append (a : Nat) (xs ys : List Entry) :
    consecutiveFrom a (xs ++ ys) = true ↔
      consecutiveFrom a xs = true ∧ consecutiveFrom (a + xs.length) ys = true := by
  induction xs generalizing a with
  | nil => simp [consecutiveFrom]
  | cons x xs ih =>
    simp only [List.cons_append, consec_cons, ih, List.length_cons]
    have : a + 1 + xs.length = a + (xs.length + 1) := by omega
    rw [this]; exact and_assoc.symm

theorem consec_drop (a n : Nat) (es : List Entry) (h : consecutiveFrom a es = true) :
    consecutiveFrom (a + n) (es.drop n) = true := by
  induction n generalizing a es with
  | zero => simpa using h
  | succ n ih =>
    cases es with
    | nil => rfl
    | cons e es =>
      rw [consec_cons] at h
      have := ih (a + 1) es h.2
      simpa [List.drop, Nat.add_assoc, Nat.add_comm 1 n] using this

theorem consec_take (a n : Nat) (es : List Entry) (h : consecutiveFrom a es = true) :
    consecutiveFrom a (es.take n) = true := by
  induction n generalizing a es with
  | zero => rfl
  | succ n ih =>
    cases es with
    | nil => rfl
    | cons e es =>
      rw [consec_cons] at h
      simp only [List.take_succ_cons, consec_cons]
      exact ⟨h.1, ih (a + 1) es h.2⟩

/-- every entry of a consecutive run starting at `a` has index ≥ a -/
theorem consec_ge (a : Nat) (es : List Entry) (h : consecutiveFrom a es = true) :
    ∀ e ∈ es, a ≤ e.index ∧ e.index < a + es.length := by
  induction es generalizing a with
  | nil => intro e he; cases he
  | cons x xs ih =>
    rw [consec_cons] at h
    intro e he
    rcases List.mem_cons.1 he with rfl | he
    · simp [h.1]
    · have := ih (a + 1) h.2 e he
      simp only [List.length_cons]; omega

/-- `trimEntriesAfterSnapshot` / DeleteRange of the prefix on a consecutive run is `drop` -/
theorem filter_gt_eq_drop (a s : Nat) (es : List Entry) (h : consecutiveFrom a es = true) :
    es.filter (fun e => decide (¬ e.index ≤ s)) = es.drop (s + 1 - a) := by
  induction es generalizing a with
  | nil => simp
  | cons x xs ih =>
    rw [consec_cons] at h
    by_cases hx : x.index ≤ s
    · have h1 : s + 1 - a = (s + 1 - (a + 1)) + 1 := by omega
      rw [List.filter_cons_of_neg (by simpa using hx), h1, List.drop_succ_cons]
      exact ih (a + 1) h.2
    · have h1 : s + 1 - a = 0 := by omega
      rw [h1, List.drop_zero, List.filter_cons_of_pos (by simpa using hx)]
      congr 1
      have := ih (a + 1) h.2
      have h2 : s + 1 - (a + 1) = 0 := by omega
      rw [h2, List.drop_zero] at this
      exact this

/-- `replaceEntriesFromIndex`'s cut on a consecutive run is `take` -/
theorem takeWhile_lt_eq_take (a f : Nat) (es : List Entry) (h : consecutiveFrom a es = true) :
    es.takeWhile (fun e => decide (e.index < f)) = es.take (f - a) := by
  induction es generalizing a with
  | nil => simp
  | cons x xs ih =>
    rw [consec_cons] at h
    by_cases hx : x.index < f
    · have h1 : f - a = (f - (a + 1)) + 1 := by omega
      rw [List.takeWhile_cons_of_pos (by simpa using hx), h1, List.take_succ_cons]
      congr 1
      exact ih (a + 1) h.2
    · have h1 : f - a = 0 := by omega
      rw [h1, List.take_zero, List.takeWhile_cons_of_neg (by simpa using hx)]

/-- the suffix DeleteRange (`filter index < first`) on a consecutive run is `take` -/
theorem filter_lt_eq_take (a f : Nat) (es : List Entry) (h : consecutiveFrom a es = true) :
    es.filter (fun e => decide (e.index < f)) = es.take (f - a) := by
  induction es generalizing a with
  | nil => simp
  | cons x xs ih =>
    rw [consec_cons] at h
    by_cases hx : x.index < f
    · have h1 : f - a = (f - (a + 1)) + 1 := by omega
      rw [List.filter_cons_of_pos (by simpa using hx), h1, List.take_succ_cons]
      congr 1
      exact ih (a + 1) h.2
    · have h1 : f - a = 0 := by omega
      rw [h1, List.take_zero, List.filter_cons_of_neg (by simpa using hx)]
      have hall : ∀ e ∈ xs, ¬ e.index < f := by
        intro e he
        have := (consec_ge (a + 1) xs h.2 e he).1
        omega
      exact List.filter_eq_nil_iff.2 (by intro e he; simpa using hall e he)

theorem consec_getLast (a : Nat) (es : List Entry) (h : consecutiveFrom a es = true) :
    es.getLast? = none ∧ es = [] ∨ ∃ l, es.getLast? = some l ∧ l.index + 1 = a + es.length := by
  induction es generalizing a with
  | nil => left; exact ⟨rfl, rfl⟩
  | cons x xs ih =>
    rw [consec_cons] at h
    right
    rcases ih (a + 1) h.2 with ⟨_, hx⟩ | ⟨l, hl, hi⟩
    · subst hx; exact ⟨x, rfl, by simp [h.1]⟩
    · refine ⟨l, ?_, by simp only [List.length_cons]; omega⟩
      cases xs with
      | nil => simp at hl
      | cons y ys => simpa [List.getLast?_cons_cons] using hl

/-- Pebble `Set` of an entry above every stored key appends it -/
theorem upsert_append (e : Entry) (ds : List Entry) (h : ∀ d ∈ ds, d.index < e.index) :
    upsert e ds = ds ++ [e] := by
  induction ds with
  | nil => rfl
  | cons d ds ih =>
    have hd := h d (List.mem_cons_self ..)
    have h1 : ¬ e.index < d.index := by omega
    have h2 : ¬ e.index = d.index := by omega
    simp only [upsert, h1, h2, if_false, List.cons_append]
    rw [ih (fun x hx => h x (List.mem_cons_of_mem _ hx))]

theorem upsert_fold_append (f : Nat) (ents ds : List Entry) (hc : consecutiveFrom f ents = true)
    (h : ∀ d ∈ ds, d.index < f) :
    ents.foldl (fun acc x => upsert x acc) ds = ds ++ ents := by
  induction ents generalizing f ds with
  | nil => simp
  | cons x xs ih =>
    rw [consec_cons] at hc
    simp only [List.foldl_cons]
    rw [upsert_append x ds (by intro d hd; have := h d hd; omega)]
    rw [ih (f + 1) (ds ++ [x]) hc.2]
    · simp
    · intro d hd
      rcases List.mem_append.1 hd with hd | hd
      · have := h d hd; omega
      · simp at hd; subst hd; omega

theorem find_consec (a i : Nat) (es : List Entry) (h : consecutiveFrom a es = true) :
    (a ≤ i ∧ i < a + es.length → ∃ e, es.find? (fun e => decide (e.index = i)) = some e ∧ e ∈ es ∧ e.index = i) ∧
    (¬ (a ≤ i ∧ i < a + es.length) → es.find? (fun e => decide (e.index = i)) = none) := by
  constructor
  · intro hi
    induction es generalizing a with
    | nil => simp at hi; omega
    | cons x xs ih =>
      rw [consec_cons] at h
      by_cases hx : x.index = i
      · exact ⟨x, by simp [List.find?, hx], List.mem_cons_self .., hx⟩
      · have := ih (a + 1) h.2 (by simp only [List.length_cons] at hi; omega)
        obtain ⟨e, he, hm, hidx⟩ := this
        exact ⟨e, by simp [List.find?, hx, he], List.mem_cons_of_mem _ hm, hidx⟩
  · intro hi
    apply List.find?_eq_none.2
    intro e he
    have := consec_ge a es h e he
    simp; omega

theorem map_strip_index (es : List Entry) : (es.map stripEntry).map Entry.index = es.map Entry.index := by
  induction es with
  | nil => rfl
  | cons e es ih =>
    simp only [List.map_cons, ih]
    congr 1
    unfold stripEntry; cases e.pl <;> rfl

theorem strip_index (e : Entry) : (stripEntry e).index = e.index := by
  unfold stripEntry; cases e.pl <;> rfl

theorem strip_term (e : Entry) : (stripEntry e).term = e.term := by
  unfold stripEntry; cases e.pl <;> rfl

theorem strip_strip (e : Entry) : stripEntry (stripEntry e) = stripEntry e := by
  unfold stripEntry; cases h : e.pl <;> simp [h]

theorem consec_strip (a : Nat) (es : List Entry) :
    consecutiveFrom a (es.map stripEntry) = consecutiveFrom a es := by
  induction es generalizing a with
  | nil => rfl
  | cons e es ih => simp [consecutiveFrom, strip_index, ih]

/-- stripping normal payloads does not change the membership derivation -/
theorem deriveFold_strip (li cm : Nat) (acc : Option Conf) (es : List Entry) :
    deriveFold li cm acc (es.map stripEntry) = deriveFold li cm acc es := by
  induction es generalizing acc with
  | nil => rfl
  | cons e es ih =>
    simp only [List.map_cons, deriveFold, strip_index]
    split
    · exact ih acc
    · cases h : e.pl with
      | normal b =>
        have hs : (stripEntry e).pl = Payload.normal [] := by unfold stripEntry; simp [h]
        simp only [hs]; exact ih acc
      | cc t n =>
        have hs : (stripEntry e).pl = Payload.cc t n := by unfold stripEntry; simp [h]
        simp only [hs]; exact ih _

theorem deriveConf_strip (si : Nat) (sc : Conf) (es : List Entry) (cm : Nat) :
    deriveConf si sc (es.map stripEntry) cm = deriveConf si sc es cm := by
  unfold deriveConf; simp [deriveFold_strip]

end WK.C14

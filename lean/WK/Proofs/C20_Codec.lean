import WK.Model.C20
/-
  C20 — DecodeHashSlotTable (Encode t) = t, active migrations included.
-/
namespace WK.C20

theorem rd16_be16 (n : Nat) (hn : n < 65536) (rest : Bytes) : rd16 (be16 n ++ rest) = some (n, rest) := by
  simp only [be16, List.cons_append, List.nil_append, rd16, UInt8.toNat_ofNat']
  congr 2
  omega

theorem rd64_be64 (n : Nat) (hn : n < 2 ^ 64) (rest : Bytes) : rd64 (be64 n ++ rest) = some (n, rest) := by
  simp only [be64, List.cons_append, List.nil_append, rd64, UInt8.toNat_ofNat']
  congr 2
  omega

theorem rdAsg_enc (asg : List Nat) (h : ∀ x ∈ asg, x < 2 ^ 64) (rest : Bytes) :
    rdAsg asg.length (asg.flatMap be64 ++ rest) = some (asg, rest) := by
  induction asg with
  | nil => simp [rdAsg]
  | cons x xs ih =>
    have hx := h x (by simp)
    have ih' := ih (fun y hy => h y (List.mem_cons_of_mem _ hy))
    simp only [List.flatMap_cons, List.length_cons, List.append_assoc, rdAsg, rd64_be64 x hx, ih']

theorem rdMig_enc (m : Mig) (h1 : m.hs < 65536) (h2 : m.src < 2 ^ 64) (h3 : m.tgt < 2 ^ 64)
    (h4 : m.phase < 256) (rest : Bytes) : rdMig (encMig m ++ rest) = some (m, rest) := by
  unfold rdMig encMig
  simp only [List.append_assoc, rd16_be16 m.hs h1, List.cons_append, List.nil_append,
    rd64_be64 m.src h2, rd64_be64 m.tgt h3, UInt8.toNat_ofNat']
  have : m.phase % 2 ^ 8 = m.phase := Nat.mod_eq_of_lt (by omega)
  rw [this]

theorem length_encMig (m : Mig) : (encMig m).length = 20 := by
  simp [encMig, be16, be64]

theorem length_flatMap_encMig (ms : List Mig) : (ms.flatMap encMig).length = ms.length * 20 := by
  induction ms with
  | nil => simp
  | cons m rest ih => simp [List.flatMap_cons, length_encMig, ih]; omega

theorem migPut_last (acc : List Mig) (m : Mig) (h : ∀ x ∈ acc, x.hs < m.hs) : migPut acc m = acc ++ [m] := by
  induction acc with
  | nil => simp [migPut]
  | cons y rest ih =>
    have hy := h y (by simp)
    have h1 : ¬ m.hs < y.hs := by omega
    have h2 : ¬ m.hs = y.hs := by omega
    simp [migPut, h1, h2, ih (fun x hx => h x (List.mem_cons_of_mem _ hx))]

/-- well-formed migration record: the field widths of the wire format -/
def MigWF (m : Mig) : Prop := m.hs < 65536 ∧ m.src < 2 ^ 64 ∧ m.tgt < 2 ^ 64 ∧ m.phase < 256

theorem rdMigs_enc (ms : List Mig) (hwf : ∀ m ∈ ms, MigWF m) (acc : List Mig)
    (hsorted : (acc ++ ms).Pairwise (fun a b => a.hs < b.hs)) :
    rdMigs ms.length (ms.flatMap encMig) acc = some (acc ++ ms) := by
  induction ms generalizing acc with
  | nil => simp [rdMigs]
  | cons m rest ih =>
    obtain ⟨w1, w2, w3, w4⟩ := hwf m (by simp)
    have hput : migPut acc m = acc ++ [m] := by
      apply migPut_last
      intro x hx
      have := List.pairwise_append.mp hsorted
      exact this.2.2 x hx m (by simp)
    simp only [List.flatMap_cons, List.length_cons, rdMigs, rdMig_enc m w1 w2 w3 w4, hput]
    have := ih (fun x hx => hwf x (List.mem_cons_of_mem _ hx)) (acc ++ [m]) (by simpa using hsorted)
    simpa using this

/-- what a table reachable through the API satisfies as far as the wire format is concerned -/
structure CodecWF (t : Table) : Prop where
  count : t.asg.length < 65536
  version : t.version < 2 ^ 64
  slots : ∀ x ∈ t.asg, x < 2 ^ 64
  migs : ∀ m ∈ t.migs, MigWF m
  nmigs : t.migs.length < 65536
  sorted : t.migs.Pairwise (fun a b => a.hs < b.hs)

theorem decode_encode (t : Table) (h : CodecWF t) : decode (encode t) = some t := by
  unfold decode encode
  have hl : ∀ rest : Bytes, ¬ (be16 2 ++ (be16 t.asg.length ++ (be64 t.version ++ rest))).length < 12 := by
    intro rest; simp [be16, be64]
  have hrest : (be16 t.migs.length ++ t.migs.flatMap encMig).length = 2 + t.migs.length * 20 := by
    rw [List.length_append, length_flatMap_encMig]; simp [be16]
  have h3 : ¬ (be16 t.migs.length ++ t.migs.flatMap encMig).length = 0 := by omega
  have h4 : ¬ (be16 t.migs.length ++ t.migs.flatMap encMig).length < 2 := by omega
  have hm := rdMigs_enc t.migs h.migs [] (by simpa using h.sorted)
  simp only [List.nil_append] at hm
  simp only [List.append_assoc, hl, ↓reduceIte, rd16_be16 2 (by omega), rd16_be16 _ h.count,
    rd64_be64 _ h.version, rdAsg_enc t.asg h.slots, h3, h4, rd16_be16 _ h.nmigs, length_flatMap_encMig, hm]
  simp

end WK.C20

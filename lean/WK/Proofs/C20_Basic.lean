import WK.Model.C20
/-
  C20 — basic lemmas: association lists, sorting, dedup, index lists, sums.
-/
namespace WK.C20

/-! ### Go maps as association lists -/

theorem cget_cset_eq (m : Cnt) (s v : Nat) : cget (cset m s v) s = v := by
  induction m with
  | nil => simp [cset, cget]
  | cons kv rest ih =>
    obtain ⟨k, w⟩ := kv
    by_cases h : k = s
    · simp [cset, cget, h]
    · simp [cset, cget, h, ih]

theorem cget_cset_ne (m : Cnt) (s s' v : Nat) (h : s ≠ s') : cget (cset m s v) s' = cget m s' := by
  induction m with
  | nil => simp [cset, cget, h]
  | cons kv rest ih =>
    obtain ⟨k, w⟩ := kv
    by_cases hk : k = s
    · subst hk; simp [cset, cget, h]
    · by_cases hk' : k = s'
      · subst hk'; simp [cset, cget, hk]
      · simp [cset, cget, hk, hk', ih]

theorem oget_oset_eq (m : Owned) (s : Nat) (v : List Nat) : oget (oset m s v) s = v := by
  induction m with
  | nil => simp [oset, oget]
  | cons kv rest ih =>
    obtain ⟨k, w⟩ := kv
    by_cases h : k = s
    · simp [oset, oget, h]
    · simp [oset, oget, h, ih]

theorem oget_oset_ne (m : Owned) (s s' : Nat) (v : List Nat) (h : s ≠ s') :
    oget (oset m s v) s' = oget m s' := by
  induction m with
  | nil => simp [oset, oget, h]
  | cons kv rest ih =>
    obtain ⟨k, w⟩ := kv
    by_cases hk : k = s
    · subst hk; simp [oset, oget, h]
    · by_cases hk' : k = s'
      · subst hk'; simp [oset, oget, hk]
      · simp [oset, oget, hk, hk', ih]

theorem ownedTotal_oset (m : Owned) (s : Nat) (v : List Nat) :
    ownedTotal (oset m s v) + (oget m s).length = ownedTotal m + v.length := by
  induction m with
  | nil => simp [oset, oget, ownedTotal]
  | cons kv rest ih =>
    obtain ⟨k, w⟩ := kv
    by_cases h : k = s
    · simp [oset, oget, ownedTotal, h]; omega
    · simp only [oset, oget, h, ↓reduceIte]
      simp only [ownedTotal, List.map_cons, List.sum_cons] at ih ⊢
      omega

/-! ### sortIds / dedup / activeSlots -/

theorem mem_insertId (x y : Nat) (l : List Nat) : y ∈ insertId x l ↔ y = x ∨ y ∈ l := by
  induction l with
  | nil => simp [insertId]
  | cons z zs ih =>
    simp only [insertId]
    split
    · simp
    · simp [ih]; grind

theorem mem_sortIds (y : Nat) (l : List Nat) : y ∈ sortIds l ↔ y ∈ l := by
  induction l with
  | nil => simp [sortIds]
  | cons z zs ih => simp [sortIds, mem_insertId, ih]

theorem nodup_insertId (x : Nat) (l : List Nat) (hx : x ∉ l) (hl : l.Nodup) : (insertId x l).Nodup := by
  induction l with
  | nil => simp [insertId]
  | cons z zs ih =>
    simp only [insertId]
    split
    · exact List.nodup_cons.mpr ⟨hx, hl⟩
    · have hz := List.nodup_cons.mp hl
      refine List.nodup_cons.mpr ⟨?_, ih (fun h => hx (List.mem_cons_of_mem _ h)) hz.2⟩
      rw [mem_insertId]
      intro h
      rcases h with h | h
      · exact hx (by simp [h])
      · exact hz.1 h

theorem nodup_sortIds (l : List Nat) (hl : l.Nodup) : (sortIds l).Nodup := by
  induction l with
  | nil => simp [sortIds]
  | cons z zs ih =>
    have hz := List.nodup_cons.mp hl
    exact nodup_insertId _ _ (by rw [mem_sortIds]; exact hz.1) (ih hz.2)

theorem length_insertId (x : Nat) (l : List Nat) : (insertId x l).length = l.length + 1 := by
  induction l with
  | nil => simp [insertId]
  | cons z zs ih => simp only [insertId]; split <;> simp [ih]

theorem length_sortIds (l : List Nat) : (sortIds l).length = l.length := by
  induction l with
  | nil => simp [sortIds]
  | cons z zs ih => simp [sortIds, length_insertId, ih]

theorem sum_map_insertId (f : Nat → Nat) (x : Nat) (l : List Nat) :
    ((insertId x l).map f).sum = f x + (l.map f).sum := by
  induction l with
  | nil => simp [insertId]
  | cons z zs ih =>
    simp only [insertId]
    split
    · simp
    · simp [ih]; omega

theorem sum_map_sortIds (f : Nat → Nat) (l : List Nat) : ((sortIds l).map f).sum = (l.map f).sum := by
  induction l with
  | nil => simp [sortIds]
  | cons z zs ih => simp [sortIds, sum_map_insertId, ih]

theorem mem_dedup (x : Nat) (l seen : List Nat) : x ∈ dedup l seen ↔ x ∈ l ∧ x ∉ seen := by
  induction l generalizing seen with
  | nil => simp [dedup]
  | cons z zs ih =>
    simp only [dedup]
    split
    · rename_i h
      have hz : z ∈ seen := by simpa using h
      rw [ih]
      constructor
      · rintro ⟨h1, h2⟩; exact ⟨List.mem_cons_of_mem _ h1, h2⟩
      · rintro ⟨h1, h2⟩
        rcases List.mem_cons.mp h1 with h1 | h1
        · subst h1; exact absurd hz h2
        · exact ⟨h1, h2⟩
    · rename_i h
      have hz : z ∉ seen := by simpa using h
      simp only [List.mem_cons, ih]
      constructor
      · rintro (h1 | ⟨h1, h2⟩)
        · subst h1; exact ⟨Or.inl rfl, hz⟩
        · exact ⟨Or.inr h1, fun h3 => h2 (Or.inr h3)⟩
      · rintro ⟨h1 | h1, h2⟩
        · exact Or.inl h1
        · by_cases hxz : x = z
          · exact Or.inl hxz
          · exact Or.inr ⟨h1, fun h3 => by rcases h3 with h3 | h3; exact hxz h3; exact h2 h3⟩

theorem nodup_dedup (l seen : List Nat) : (dedup l seen).Nodup := by
  induction l generalizing seen with
  | nil => simp [dedup]
  | cons z zs ih =>
    simp only [dedup]
    split
    · exact ih _
    · refine List.nodup_cons.mpr ⟨?_, ih _⟩
      rw [mem_dedup]
      simp

theorem mem_activeSlots (t : Table) (s : Nat) : s ∈ activeSlots t ↔ s ≠ 0 ∧ s ∈ t.asg := by
  simp [activeSlots, mem_sortIds, mem_dedup]
  grind

theorem nodup_activeSlots (t : Table) : (activeSlots t).Nodup :=
  nodup_sortIds _ (nodup_dedup _ _)

/-! ### index lists -/

theorem mem_idxOf (s : Nat) (l : List Nat) (i x : Nat) :
    x ∈ idxOf s l i ↔ i ≤ x ∧ l[x - i]? = some s := by
  induction l generalizing i with
  | nil => simp [idxOf]
  | cons z zs ih =>
    simp only [idxOf]
    by_cases hz : z = s
    · simp only [hz, ↓reduceIte, List.mem_cons, ih]
      constructor
      · rintro (h | ⟨h1, h2⟩)
        · subst h; simp
        · refine ⟨by omega, ?_⟩
          have : x - i = (x - (i + 1)) + 1 := by omega
          rw [this]; simpa using h2
      · rintro ⟨h1, h2⟩
        by_cases hx : x = i
        · exact Or.inl hx
        · right
          refine ⟨by omega, ?_⟩
          have : x - i = (x - (i + 1)) + 1 := by omega
          rw [this] at h2; simpa using h2
    · simp only [hz, ↓reduceIte, ih]
      constructor
      · rintro ⟨h1, h2⟩
        refine ⟨by omega, ?_⟩
        have : x - i = (x - (i + 1)) + 1 := by omega
        rw [this]; simpa using h2
      · rintro ⟨h1, h2⟩
        by_cases hx : x = i
        · subst hx; simp at h2; exact absurd h2 hz
        · refine ⟨by omega, ?_⟩
          have : x - i = (x - (i + 1)) + 1 := by omega
          rw [this] at h2; simpa using h2

theorem nodup_idxOf (s : Nat) (l : List Nat) (i : Nat) : (idxOf s l i).Nodup := by
  induction l generalizing i with
  | nil => simp [idxOf]
  | cons z zs ih =>
    simp only [idxOf]
    split
    · refine List.nodup_cons.mpr ⟨?_, ih _⟩
      rw [mem_idxOf]; omega
    · exact ih _

theorem length_idxOf (s : Nat) (l : List Nat) (i : Nat) : (idxOf s l i).length = l.count s := by
  induction l generalizing i with
  | nil => simp [idxOf]
  | cons z zs ih =>
    simp only [idxOf]
    by_cases hz : z = s
    · simp [hz, ih]
    · simp [hz, ih]

theorem mem_hashSlotsOf (t : Table) (s x : Nat) : x ∈ hashSlotsOf t s ↔ t.asg[x]? = some s := by
  simp [hashSlotsOf, mem_idxOf]

theorem length_hashSlotsOf (t : Table) (s : Nat) : (hashSlotsOf t s).length = t.asg.count s :=
  length_idxOf _ _ _

/-! ### initial planner maps -/

theorem cget_foldl_counts (t : Table) (slots : List Nat) (acc : Cnt) (s : Nat) :
    cget (slots.foldl (fun m s => cset m s (hashSlotsOf t s).length) acc) s
      = if s ∈ slots then t.asg.count s else cget acc s := by
  induction slots generalizing acc with
  | nil => simp
  | cons z zs ih =>
    simp only [List.foldl_cons, ih]
    by_cases h1 : s ∈ zs
    · simp [h1]
    · by_cases h2 : s = z
      · subst h2; simp [h1, cget_cset_eq, length_hashSlotsOf]
      · have : z ≠ s := fun h => h2 h.symm
        simp [h1, h2, cget_cset_ne _ _ _ _ this]

theorem cget_slotCounts (t : Table) (slots : List Nat) (s : Nat) :
    cget (slotCounts t slots) s = if s ∈ slots then t.asg.count s else 0 := by
  simp [slotCounts, cget_foldl_counts, cget]

theorem oget_foldl_owned (t : Table) (slots : List Nat) (acc : Owned) (s : Nat) :
    oget (slots.foldl (fun m s => oset m s (hashSlotsOf t s).reverse) acc) s
      = if s ∈ slots then (hashSlotsOf t s).reverse else oget acc s := by
  induction slots generalizing acc with
  | nil => simp
  | cons z zs ih =>
    simp only [List.foldl_cons, ih]
    by_cases h1 : s ∈ zs
    · simp [h1]
    · by_cases h2 : s = z
      · subst h2; simp [h1, oget_oset_eq]
      · have : z ≠ s := fun h => h2 h.symm
        simp [h1, h2, oget_oset_ne _ _ _ _ this]

theorem oget_slotHashSlots (t : Table) (slots : List Nat) (s : Nat) :
    oget (slotHashSlots t slots) s = if s ∈ slots then (hashSlotsOf t s).reverse else [] := by
  simp [slotHashSlots, oget_foldl_owned, oget]

/-! ### sums over a duplicate-free key list -/

theorem sum_indicator (ks : List Nat) (x : Nat) (hn : ks.Nodup) (hx : x ∈ ks) :
    (ks.map (fun s => if x = s then 1 else 0)).sum = 1 := by
  induction ks with
  | nil => cases hx
  | cons k rest ih =>
    have hk := List.nodup_cons.mp hn
    by_cases h : x = k
    · subst h
      have : ∀ (r : List Nat), x ∉ r → (r.map (fun s => if x = s then 1 else 0)).sum = 0 := by
        intro r hr
        induction r with
        | nil => simp
        | cons z zs ihz =>
          have h1 : x ≠ z := fun h => hr (by simp [h])
          have h2 : x ∉ zs := fun h => hr (List.mem_cons_of_mem _ h)
          simp [h1, ihz h2]
      simp [this rest hk.1]
    · have hx' : x ∈ rest := by
        rcases List.mem_cons.mp hx with h' | h'
        · exact absurd h' h
        · exact h'
      simp [h, ih hk.2 hx']

theorem sum_map_zero (ks : List Nat) : (ks.map (fun _ => 0)).sum = 0 := by
  induction ks with
  | nil => rfl
  | cons k rest ih => simp [ih]

theorem sum_map_add (ks : List Nat) (f g : Nat → Nat) :
    (ks.map (fun s => f s + g s)).sum = (ks.map f).sum + (ks.map g).sum := by
  induction ks with
  | nil => rfl
  | cons k rest ih => simp only [List.map_cons, List.sum_cons, ih]; omega

theorem sum_counts (ks a : List Nat) (hn : ks.Nodup) (ha : ∀ x ∈ a, x ∈ ks) :
    (ks.map (fun s => a.count s)).sum = a.length := by
  induction a with
  | nil => simpa using sum_map_zero ks
  | cons x xs ih =>
    have hx : x ∈ ks := ha x (by simp)
    have ih' := ih (fun y hy => ha y (List.mem_cons_of_mem _ hy))
    have hfun : (fun s => (x :: xs).count s) = (fun s => xs.count s + (if x = s then 1 else 0)) := by
      funext s
      rw [List.count_cons]
      by_cases h : x = s <;> simp [h]
    rw [hfun, sum_map_add, ih', sum_indicator ks x hn hx]
    simp

theorem eq_of_le_of_sum_eq (ks : List Nat) (f g : Nat → Nat) (hle : ∀ s ∈ ks, f s ≤ g s)
    (hs : (ks.map f).sum = (ks.map g).sum) : ∀ s ∈ ks, f s = g s := by
  induction ks with
  | nil => intro s hs; cases hs
  | cons k rest ih =>
    have h1 : f k ≤ g k := hle k (by simp)
    have h2 : (rest.map f).sum ≤ (rest.map g).sum := by
      clear ih hs
      induction rest with
      | nil => simp
      | cons r rs ihr =>
        have := hle r (by simp)
        have := ihr (fun s hs => hle s (by
          rcases List.mem_cons.mp hs with h | h
          · simp [h]
          · simp [h]))
        simp only [List.map_cons, List.sum_cons]; omega
    simp only [List.map_cons, List.sum_cons] at hs
    intro s hsm
    rcases List.mem_cons.mp hsm with h | h
    · subst h; omega
    · exact ih (fun s hs => hle s (List.mem_cons_of_mem _ hs)) (by omega) s h

end WK.C20

import WK.Proofs.C06_Reactor
/-
  C06 — step-level statement of the quorum-match clause of the judge. Core only.
-/
namespace WK.C06

/-- the MinISR-th highest match among the ISR members of a model state (what the judge's
    `quorumMatch` recomputes from the implementation's printed progress table) -/
def quorumMatchS (s : State) : Option Nat :=
  if s.minISR ≤ 0 ∨ (s.isr.length : Int) < s.minISR then none else
  (sortDesc (s.isr.map (getP s.progress)))[(s.minISR - 1).toNat]?

theorem quorumMatchS_congr {a b : State} (h1 : a.isr = b.isr) (h2 : a.minISR = b.minISR)
    (h3 : a.progress = b.progress) : quorumMatchS a = quorumMatchS b := by
  unfold quorumMatchS
  rw [h1, h2, h3]

/-- HW after a transition is the old HW or the quorum match of the new state -/
def HWQ (s s' : State) : Prop := s'.hw = s.hw ∨ quorumMatchS s' = some s'.hw

theorem advanceHW_hwq (x : State) : HWQ x (advanceHW x) := by
  obtain ⟨h, heq, _, _⟩ := advanceHW_spec x
  rcases c06_advanceHW_is_quorum_match x with h1 | ⟨h1, h2, h3⟩
  · exact Or.inl h1
  · right
    have hq : quorumMatchS (advanceHW x) = quorumMatchS x := by
      rw [heq]; exact quorumMatchS_congr rfl rfl rfl
    rw [hq]
    unfold quorumMatchS
    rw [if_neg (by omega)]
    exact h3

theorem complete_frame (s : State) (o : List Nat) :
    (completeAppendWaiters s o).1.hw = s.hw ∧ quorumMatchS (completeAppendWaiters s o).1 = quorumMatchS s := by
  unfold completeAppendWaiters
  split
  · exact ⟨rfl, rfl⟩
  · exact ⟨rfl, quorumMatchS_congr rfl rfl rfl⟩

theorem HWQ.of_complete {s x : State} (o : List Nat) (h : HWQ s x) : HWQ s (completeAppendWaiters x o).1 := by
  obtain ⟨f1, f2⟩ := complete_frame x o
  unfold HWQ at *
  rw [f1, f2]
  exact h

theorem fail_hw (s : State) (err : Err) : (failInflight s err).1.hw = s.hw := by
  unfold failInflight
  split <;> rfl

theorem storedPre_hwq (s : State) (inf : Inflight) (base last : Nat) : HWQ s (storedPre s inf base last) := by
  unfold storedPre
  dsimp only
  split
  · generalize hX : ({ s with pending := assignLoop (List.range' base inf.recs.length) inf.ops inf.counts 0 s.pending,
                              leo := max s.leo last,
                              progress := setP s.progress s.localNode (max s.leo last) } : State) = X
    have hx : X.hw = s.hw := by rw [← hX]
    rcases advanceHW_hwq X with h | h
    · left; show (advanceHW X).hw = s.hw; rw [h, hx]
    · right
      have : quorumMatchS ({ advanceHW X with inflight := none } : State) = quorumMatchS (advanceHW X) :=
        quorumMatchS_congr rfl rfl rfl
      rw [this]; exact h
  · left; rfl

theorem followerAck_hwq (s : State) (fo m : Nat) : HWQ s (applyFollowerAck s fo m).1 := by
  unfold applyFollowerAck
  split
  · exact Or.inl rfl
  · apply HWQ.of_complete
    unfold ackPre
    split
    · generalize hX : ({ s with progress := setP s.progress fo m } : State) = X
      have hx : X.hw = s.hw := by rw [← hX]
      rcases advanceHW_hwq X with h | h
      · left; rw [h, hx]
      · right; exact h
    · exact advanceHW_hwq s

theorem propose_hw (s : State) (b : Nat) (ws : List WaiterCmd) : (proposeAppendBatch s b ws).1.hw = s.hw := by
  unfold proposeAppendBatch
  repeat' split
  all_goals rfl

theorem meta_hw (s : State) (m : Meta) : (applyMeta s m).1.hw = s.hw := by
  unfold applyMeta
  split
  · split
    · unfold metaInstall clearAppendState
      dsimp only
      repeat' split
      all_goals rfl
    · unfold metaInstall
      dsimp only
      repeat' split
      all_goals rfl
  · rfl

/-- Over ANY machine event other than a quorum receipt: HW either keeps its value or
    becomes exactly the MinISR-th highest ISR match of the successor state — the clause
    the judge evaluates on the implementation (`viol:hw-advanced-beyond-quorum-match`). -/
theorem c06_hw_only_to_quorum_match (s : State) (ev : Event)
    (hq : ∀ f a b c e, ev ≠ .quorum f a b c e) :
    (step s ev).1.hw = s.hw ∨ quorumMatchS (step s ev).1 = some (step s ev).1.hw := by
  cases ev with
  | setMeta m => exact Or.inl (meta_hw s m)
  | propose b ws => exact Or.inl (propose_hw s b ws)
  | stored f base last err =>
    show HWQ s (applyAppendStored s f base last err).1
    unfold applyAppendStored
    split
    · exact Or.inl rfl
    · split
      · exact Or.inl (fail_hw s err)
      · split
        · exact Or.inl rfl
        · next inf _ => exact HWQ.of_complete inf.ops (storedPre_hwq s inf base last)
  | quorum f a b c e => exact absurd rfl (hq f a b c e)
  | ack k e le fo m =>
    show HWQ s (reactorAck s k e le fo m).1
    unfold reactorAck
    repeat' split
    all_goals first | exact Or.inl rfl | exact followerAck_hwq s fo m
  | stoppedAck k e le fo m lv av =>
    show HWQ s (reactorStoppedAck s k e le fo m lv av).1
    unfold reactorStoppedAck
    repeat' split
    all_goals first | exact Or.inl rfl | exact followerAck_hwq s fo m
  | pullAck fo off =>
    show HWQ s (reactorPullAck s fo off).1
    unfold reactorPullAck
    repeat' split
    all_goals first | exact Or.inl rfl | exact followerAck_hwq s fo off
  | cancel op =>
    left
    show (cancelAppendWaiter s op).1.hw = s.hw
    unfold cancelAppendWaiter
    split <;> rfl
  | abort b =>
    left
    show (abortAppendBatch s b).1.hw = s.hw
    unfold abortAppendBatch
    repeat' split
    all_goals rfl

-- non-vacuity: in `demo` the ack moves HW from 0 to 2 = 2nd highest of matches (3, 2, 0)
example : (step (run (initState 1 0 0 0) (demo.take 3)).1 (.ack 1 3 1 2 2)).1.hw = 2 ∧
    quorumMatchS (step (run (initState 1 0 0 0) (demo.take 3)).1 (.ack 1 3 1 2 2)).1 = some 2 ∧
    (run (initState 1 0 0 0) (demo.take 3)).1.hw = 0 := by decide

end WK.C06

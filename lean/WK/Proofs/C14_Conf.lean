import WK.Proofs.C14_Lists
/-
  C14 — `confchange.Restore` of a canonical ConfState is that ConfState
  (needed: after a snapshot that compacts the whole log, the persisted meta's
  membership must equal the manifest's, or `validateManifestMetaConsistency`
  refuses every later read).
-/
namespace WK.C14

theorem sins_append (x : Nat) (l : List Nat) (h : ∀ a ∈ l, a < x) : sins x l = l ++ [x] := by
  induction l with
  | nil => rfl
  | cons y ys ih =>
    have hy := h y (List.mem_cons_self ..)
    have h1 : ¬ x < y := by omega
    have h2 : ¬ x = y := by omega
    simp only [sins, h1, h2, if_false, List.cons_append]
    rw [ih (fun a ha => h a (List.mem_cons_of_mem _ ha))]

theorem sortedStrict_cons (a : Nat) (r : List Nat) (h : sortedStrict (a :: r) = true) :
    sortedStrict r = true ∧ ∀ x ∈ r, a < x := by
  induction r generalizing a with
  | nil => exact ⟨rfl, by intro x hx; cases hx⟩
  | cons b r ih =>
    simp only [sortedStrict, Bool.and_eq_true, decide_eq_true_eq] at h
    refine ⟨h.2, ?_⟩
    intro x hx
    rcases List.mem_cons.1 hx with rfl | hx
    · exact h.1
    · have := (ih b h.2).2 x hx; omega

def ccStep (acc : Option Conf) (p : Nat × Nat) : Option Conf := acc.bind (fun c => applyCC c p.1 p.2)

theorem restore_voters (acc vs : List Nat) (hs : sortedStrict vs = true) (h0 : ∀ v ∈ vs, v ≠ 0)
    (hlt : ∀ a ∈ acc, ∀ v ∈ vs, a < v) :
    (vs.map (fun v => ((0 : Nat), v))).foldl ccStep (some ⟨acc, []⟩) = some ⟨acc ++ vs, []⟩ := by
  induction vs generalizing acc with
  | nil => simp
  | cons v vs ih =>
    have hv0 := h0 v (List.mem_cons_self ..)
    have hsr := sortedStrict_cons v vs hs
    have hacc : ∀ a ∈ acc, a < v := fun a ha => hlt a ha v (List.mem_cons_self ..)
    simp only [List.map_cons, List.foldl_cons]
    have step : ccStep (some ⟨acc, []⟩) (0, v) = some ⟨acc ++ [v], []⟩ := by
      simp only [ccStep, Option.bind_some, applyCC, hv0, if_false, sins_append v acc hacc]
      simp
    rw [step, ih (acc ++ [v]) hsr.1 (fun x hx => h0 x (List.mem_cons_of_mem _ hx))]
    · simp
    · intro a ha x hx
      rcases List.mem_append.1 ha with ha | ha
      · exact hlt a ha x (List.mem_cons_of_mem _ hx)
      · simp at ha; subst ha; exact hsr.2 x hx

theorem restore_learners (V acc ls : List Nat) (hV : V ≠ []) (hs : sortedStrict ls = true)
    (h0 : ∀ l ∈ ls, l ≠ 0) (hd : ∀ l ∈ ls, l ∉ V) (hlt : ∀ a ∈ acc, ∀ l ∈ ls, a < l) :
    (ls.map (fun l => ((3 : Nat), l))).foldl ccStep (some ⟨V, acc⟩) = some ⟨V, acc ++ ls⟩ := by
  induction ls generalizing acc with
  | nil => simp
  | cons l ls ih =>
    have hl0 := h0 l (List.mem_cons_self ..)
    have hsr := sortedStrict_cons l ls hs
    have hacc : ∀ a ∈ acc, a < l := fun a ha => hlt a ha l (List.mem_cons_self ..)
    have hnotin : l ∉ acc := fun hm => by have := hacc l hm; omega
    have hlV := hd l (List.mem_cons_self ..)
    simp only [List.map_cons, List.foldl_cons]
    have step : ccStep (some ⟨V, acc⟩) (3, l) = some ⟨V, acc ++ [l]⟩ := by
      have hc : acc.contains l = false := by simpa using hnotin
      have hVe : V.isEmpty = false := by cases V <;> simp_all
      simp only [ccStep, Option.bind_some, applyCC, hl0, if_false, hc, List.erase_of_not_mem hlV,
        sins_append l acc hacc]
      simp [hV]
    rw [step, ih (acc ++ [l]) hsr.1 (fun x hx => h0 x (List.mem_cons_of_mem _ hx))
      (fun x hx => hd x (List.mem_cons_of_mem _ hx))]
    · simp
    · intro a ha x hx
      rcases List.mem_append.1 ha with ha | ha
      · exact hlt a ha x (List.mem_cons_of_mem _ hx)
      · simp at ha; subst ha; exact hsr.2 x hx

theorem restoreConf_canonical (c : Conf) (hc : c.canonical = true) (hz : c.isZero = false) :
    restoreConf c = some c := by
  simp only [Conf.canonical, Bool.and_eq_true, List.all_eq_true, Bool.or_eq_true, Bool.not_eq_true',
    List.contains_eq_mem, decide_eq_false_iff_not, List.isEmpty_iff] at hc
  obtain ⟨⟨⟨⟨⟨hsv, hsl⟩, hdis⟩, hvne⟩, hv0⟩, hl0⟩ := hc
  have hV : c.voters ≠ [] := by
    intro hv
    rcases hvne with h | h
    · simp [hv] at h
    · simp [Conf.isZero, hv, h] at hz
  unfold restoreConf
  have : ∀ (l : List (Nat × Nat)) (a : Option Conf),
      l.foldl (fun (acc : Option Conf) (p : Nat × Nat) => acc.bind (fun c => applyCC c p.1 p.2)) a
        = l.foldl ccStep a := fun _ _ => rfl
  rw [this, List.foldl_append]
  have h1 := restore_voters [] c.voters hsv (fun v hv h => hv0 (h ▸ hv)) (by intro a ha; cases ha)
  rw [show (some Conf.zero : Option Conf) = some ⟨[], []⟩ from rfl, h1]
  have h2 := restore_learners ([] ++ c.voters) [] c.learners (by simpa using hV) hsl
    (fun l hl h => hl0 (h ▸ hl)) (by intro l hl; simpa using hdis l hl) (by intro a ha; cases ha)
  rw [h2]
  simp

end WK.C14

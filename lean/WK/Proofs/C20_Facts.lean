import WK.Gen.C20
/-
  C20 — T tie.  `WK.Gen.C20` is regenerated from pkg/hashslot on every run; this file
  pins every guard, loop condition, counter update, selection predicate and
  wire-format constant to the text the hand model (`WK.Model.C20`) mirrors.  An
  edited comparison (`<=` vs `<`), a dropped `t.version++`, a changed tie-break or
  record size makes `c20_gen_facts` fail before the differential run starts.
-/
namespace WK.C20

def expected_tableLookup : List String := ["if t==nil||int(hashSlot)>=len(t.assignment)"]

def expected_tableReassign : List String := ["if t==nil||int(hashSlot)>=len(t.assignment)",
  "if t.assignment[hashSlot]==slotID",
  "t.version++"]

def expected_tableStartMigration : List String := ["if t==nil||int(hashSlot)>=len(t.assignment)",
  "if sourceSlot==0||targetSlot==0||sourceSlot==targetSlot||current!=sourceSlot",
  "if ok",
  "if t.migrations==nil",
  "t.version++"]

def expected_tableAdvanceMigration : List String := ["if t==nil",
  "if !ok||migration.Phase==phase",
  "t.version++"]

def expected_tableFinalizeMigration : List String := ["if t==nil",
  "if !ok",
  "if int(hashSlot)<len(t.assignment)",
  "t.version++"]

def expected_tableAbortMigration : List String := ["if t==nil",
  "if !ok",
  "t.version++"]

def expected_constants : List String := ["hashSlotTableEncodingVersion=2",
  "PhaseSnapshot=iota",
  "PhaseDelta=iota+1",
  "PhaseSwitching=iota+2",
  "PhaseDone=iota+3",
  "headerSize=2+2+8",
  "migrationRecordSize=20"]

def expected_decodeGuards : List String := ["if len(data)<headerSize",
  "if version!=1&&version!=hashSlotTableEncodingVersion",
  "if len(data)<offset+8",
  "if version==1",
  "if len(data)!=offset",
  "if len(data)==offset",
  "if len(data)<offset+2",
  "if len(data)!=wantLen",
  "i++"]

def expected_planComputeAddSlotPlan : List String := ["if table==nil||newSlotID==0",
  "if containsSlotID(existingSlots,newSlotID)",
  "for current[newSlotID]<target[newSlotID]",
  "if donor==0",
  "if !ok",
  "current[donor]--",
  "current[newSlotID]++"]

def expected_planComputeRemoveSlotPlan : List String := ["if table==nil||removeSlotID==0",
  "if len(table.HashSlotsOf(removeSlotID))==0",
  "if len(remaining)==0",
  "for current[removeSlotID]>0",
  "if receiver==0",
  "if !ok",
  "current[removeSlotID]--",
  "current[receiver]++"]

def expected_planComputeRebalancePlan : List String := ["if table==nil",
  "if len(slots)<=1",
  "for",
  "if donor==0||receiver==0",
  "if !ok",
  "current[donor]--",
  "current[receiver]++"]

def expected_planSelectLargestSurplusSlot : List String := ["if surplus<=0",
  "if chosen==0||surplus>bestSurplus||(surplus==bestSurplus&&current[slotID]>bestCount)||(surplus==bestSurplus&&current[slotID]==bestCount&&slotID<chosen)"]

def expected_planSelectSmallestDeficitSlot : List String := ["if deficit<=0",
  "if chosen==0||deficit>bestDeficit||(deficit==bestDeficit&&current[slotID]<bestCount)||(deficit==bestDeficit&&current[slotID]==bestCount&&slotID<chosen)"]

def expected_planPopOwnedHashSlot : List String := ["if len(hashSlots)==0"]

def expected_planIdealSlotCounts : List String := ["if len(slots)==0",
  "if i<remainder",
  "target[slotID]++"]

/-- the source still has the shape the model mirrors -/
theorem c20_gen_facts :
    WK.Gen.C20.tableLookup = expected_tableLookup ∧
    WK.Gen.C20.tableReassign = expected_tableReassign ∧
    WK.Gen.C20.tableStartMigration = expected_tableStartMigration ∧
    WK.Gen.C20.tableAdvanceMigration = expected_tableAdvanceMigration ∧
    WK.Gen.C20.tableFinalizeMigration = expected_tableFinalizeMigration ∧
    WK.Gen.C20.tableAbortMigration = expected_tableAbortMigration ∧
    WK.Gen.C20.constants = expected_constants ∧
    WK.Gen.C20.decodeGuards = expected_decodeGuards ∧
    WK.Gen.C20.planComputeAddSlotPlan = expected_planComputeAddSlotPlan ∧
    WK.Gen.C20.planComputeRemoveSlotPlan = expected_planComputeRemoveSlotPlan ∧
    WK.Gen.C20.planComputeRebalancePlan = expected_planComputeRebalancePlan ∧
    WK.Gen.C20.planSelectLargestSurplusSlot = expected_planSelectLargestSurplusSlot ∧
    WK.Gen.C20.planSelectSmallestDeficitSlot = expected_planSelectSmallestDeficitSlot ∧
    WK.Gen.C20.planPopOwnedHashSlot = expected_planPopOwnedHashSlot ∧
    WK.Gen.C20.planIdealSlotCounts = expected_planIdealSlotCounts :=
  ⟨rfl, rfl, rfl, rfl, rfl, rfl, rfl, rfl, rfl, rfl, rfl, rfl, rfl, rfl, rfl⟩

end WK.C20

import WK.Proofs.C09_WF
/-
  C09 — the cross-entry clause "rows ⇔ index entries" (`IdxInv`, stated on lookups) and key uniqueness
  (`NoDup`) are preserved by every mutation batch of the model.
-/
namespace WK.C09

/-- lookup through a filter on keys -/
theorem get_filter_key (s : Store) (p : Key → Bool) (k : Key) :
    get (s.filter (fun e => p e.1)) k = if p k then get s k else none := by
  unfold get
  induction s with
  | nil => simp [List.lookup]
  | cons e t ih =>
    obtain ⟨a, b⟩ := e
    rw [List.filter_cons]
    by_cases hk : k = a
    · subst hk
      by_cases hp : p k = true
      · simp [hp, List.lookup]
      · have hp' : p k = false := by simpa using hp
        simp only [hp', Bool.false_eq_true, if_false] at ih ⊢
        exact ih
    · have hb : (k == a) = false := by simpa using hk
      by_cases hpa : p a = true
      · simp only [hpa, if_true, List.lookup, hb]; exact ih
      · have hpa' : p a = false := by simpa using hpa
        simp only [hpa', Bool.false_eq_true, if_false, List.lookup, hb]; exact ih

theorem get_del (s : Store) (k k' : Key) : get (del s k) k' = if k' = k then none else get s k' := by
  have := get_filter_key s (fun x => decide (x ≠ k)) k'
  unfold del
  rw [this]
  by_cases h : k' = k <;> simp [h]

theorem get_delEnt (s : Store) (ch frm : Nat) (k : Key) :
    get (applyW s (.delEntFrom ch frm)) k = if isEntFrom ch frm k then none else get s k := by
  have := get_filter_key s (fun x => !isEntFrom ch frm x) k
  unfold applyW
  rw [this]
  cases isEntFrom ch frm k <;> simp

theorem get_applyW_put (s : Store) (k k' : Key) (v : Val) :
    get (applyW s (.put k v)) k' = if k' = k then some v else get s k' := get_put s k k' v

theorem get_applyW_del (s : Store) (k k' : Key) :
    get (applyW s (.del k)) k' = if k' = k then none else get s k' := get_del s k k'

theorem applyBatch_cons (s : Store) (w : W) (b : List W) : applyBatch s (w :: b) = applyBatch (applyW s w) b := rfl

/-- the store after staging one message row (`stageMessageRow`), key by key -/
theorem get_rowWrites (s : Store) (ch q : Nat) (r : Rec) (k : Key) :
    get (applyBatch s (rowWrites ch q r)) k =
      if k = .sseq ch r.f q ∧ r.f ≠ 0 ∧ flagSyncOnce r.flags = false then some (.nat r.id)
      else if k = .idem ch r.f r.c ∧ r.f ≠ 0 ∧ r.c ≠ 0 then some (.idem q r.id)
      else if k = .cno ch r.c q ∧ r.c ≠ 0 ∧ r.f = 0 then some (.nat q)
      else if k = .gid r.id then some (.gid ch q)
      else if k = .row ch q then some (.row r.id r.f r.c r.flags r.pay)
      else get s k := by
  unfold rowWrites
  by_cases hf : r.f = 0 <;> by_cases hc : r.c = 0 <;> cases hs : flagSyncOnce r.flags <;>
    simp [hf, hc, hs, applyBatch_cons, applyBatch_nil, get_applyW_put] <;>
    (try grind)


/-- rows ⇔ index entries, stated on lookups (`get`) -/
structure IdxInv (s : Store) : Prop where
  row : ∀ ch q v, get s (.row ch q) = some v → ∃ id f c fl p, v = .row id f c fl p ∧ id ≠ 0
  gid : ∀ id v, get s (.gid id) = some v → ∃ ch q f c fl p, v = .gid ch q ∧ get s (.row ch q) = some (.row id f c fl p)
  cno : ∀ ch c q v, get s (.cno ch c q) = some v →
    v = .nat q ∧ c ≠ 0 ∧ ∃ id fl p, get s (.row ch q) = some (.row id 0 c fl p)
  idem : ∀ ch f c v, get s (.idem ch f c) = some v →
    f ≠ 0 ∧ c ≠ 0 ∧ ∃ q id fl p, v = .idem q id ∧ get s (.row ch q) = some (.row id f c fl p)
  sseq : ∀ ch f q v, get s (.sseq ch f q) = some v →
    f ≠ 0 ∧ ∃ id c fl p, v = .nat id ∧ get s (.row ch q) = some (.row id f c fl p) ∧ flagSyncOnce fl = false
  complete : ∀ ch q id f c fl p, get s (.row ch q) = some (.row id f c fl p) →
    get s (.gid id) = some (.gid ch q) ∧
    (c ≠ 0 → f = 0 → get s (.cno ch c q) = some (.nat q)) ∧
    (f ≠ 0 → c ≠ 0 → get s (.idem ch f c) = some (.idem q id)) ∧
    (f ≠ 0 → flagSyncOnce fl = false → get s (.sseq ch f q) = some (.nat id))

theorem get_rw_row (s : Store) (ch q : Nat) (r : Rec) (ch' q' : Nat) :
    get (applyBatch s (rowWrites ch q r)) (.row ch' q') =
      if ch' = ch ∧ q' = q then some (.row r.id r.f r.c r.flags r.pay) else get s (.row ch' q') := by
  simp [get_rowWrites]

theorem get_rw_gid (s : Store) (ch q : Nat) (r : Rec) (id : Nat) :
    get (applyBatch s (rowWrites ch q r)) (.gid id) = if id = r.id then some (.gid ch q) else get s (.gid id) := by
  simp [get_rowWrites]

theorem get_rw_cno (s : Store) (ch q : Nat) (r : Rec) (ch' c q' : Nat) :
    get (applyBatch s (rowWrites ch q r)) (.cno ch' c q') =
      if (ch' = ch ∧ c = r.c ∧ q' = q) ∧ r.c ≠ 0 ∧ r.f = 0 then some (.nat q) else get s (.cno ch' c q') := by
  simp [get_rowWrites]

theorem get_rw_idem (s : Store) (ch q : Nat) (r : Rec) (ch' f c : Nat) :
    get (applyBatch s (rowWrites ch q r)) (.idem ch' f c) =
      if (ch' = ch ∧ f = r.f ∧ c = r.c) ∧ r.f ≠ 0 ∧ r.c ≠ 0 then some (.idem q r.id) else get s (.idem ch' f c) := by
  simp [get_rowWrites]

theorem get_rw_sseq (s : Store) (ch q : Nat) (r : Rec) (ch' f q' : Nat) :
    get (applyBatch s (rowWrites ch q r)) (.sseq ch' f q') =
      if (ch' = ch ∧ f = r.f ∧ q' = q) ∧ r.f ≠ 0 ∧ flagSyncOnce r.flags = false then some (.nat r.id)
      else get s (.sseq ch' f q') := by
  simp [get_rowWrites]

theorem row_kept (s : Store) (ch q : Nat) (r : Rec) (hrow : get s (.row ch q) = none) (ch' q' : Nat) (v : Val)
    (hv : get s (.row ch' q') = some v) : get (applyBatch s (rowWrites ch q r)) (.row ch' q') = some v := by
  rw [get_rw_row]
  have : ¬ (ch' = ch ∧ q' = q) := by rintro ⟨rfl, rfl⟩; rw [hrow] at hv; cases hv
  rw [if_neg this]; exact hv

/-- staging ONE fresh row with its index entries keeps rows ⇔ indexes -/
theorem idxInv_rowWrites (s : Store) (ch q : Nat) (r : Rec) (h : IdxInv s)
    (hid : r.id ≠ 0) (hrow : get s (.row ch q) = none) (hgid : get s (.gid r.id) = none)
    (hidem : r.f ≠ 0 → r.c ≠ 0 → get s (.idem ch r.f r.c) = none) :
    IdxInv (applyBatch s (rowWrites ch q r)) := by
  have hcno : ∀ c, get s (.cno ch c q) = none := by
    intro c
    cases hg : get s (.cno ch c q) with
    | none => rfl
    | some v => obtain ⟨_, _, id, fl, p, hr⟩ := h.cno ch c q v hg; rw [hrow] at hr; cases hr
  have hsseq : ∀ f, get s (.sseq ch f q) = none := by
    intro f
    cases hg : get s (.sseq ch f q) with
    | none => rfl
    | some v => obtain ⟨_, id, c, fl, p, _, hr, _⟩ := h.sseq ch f q v hg; rw [hrow] at hr; cases hr
  constructor
  · intro ch' q' v hv
    rw [get_rw_row] at hv
    split at hv
    · cases hv; exact ⟨_, _, _, _, _, rfl, hid⟩
    · exact h.row ch' q' v hv
  · intro id v hv
    rw [get_rw_gid] at hv
    split at hv
    · next hi => cases hv; subst hi; exact ⟨ch, q, r.f, r.c, r.flags, r.pay, rfl, by simp [get_rw_row]⟩
    · obtain ⟨ch', q', f, c, fl, p, rfl, hr⟩ := h.gid id v hv
      exact ⟨ch', q', f, c, fl, p, rfl, row_kept s ch q r hrow _ _ _ hr⟩
  · intro ch' c q' v hv
    rw [get_rw_cno] at hv
    split at hv
    · next hc =>
      cases hv
      obtain ⟨⟨rfl, rfl, rfl⟩, hc0, hf0⟩ := hc
      refine ⟨rfl, hc0, r.id, r.flags, r.pay, ?_⟩
      simp [get_rw_row, hf0]
    · obtain ⟨rfl, hc0, id, fl, p, hr⟩ := h.cno ch' c q' v hv
      exact ⟨rfl, hc0, id, fl, p, row_kept s ch q r hrow _ _ _ hr⟩
  · intro ch' f c v hv
    rw [get_rw_idem] at hv
    split at hv
    · next hc =>
      cases hv
      obtain ⟨⟨rfl, rfl, rfl⟩, hf0, hc0⟩ := hc
      exact ⟨hf0, hc0, q, r.id, r.flags, r.pay, rfl, by simp [get_rw_row]⟩
    · obtain ⟨hf0, hc0, q', id, fl, p, rfl, hr⟩ := h.idem ch' f c v hv
      exact ⟨hf0, hc0, q', id, fl, p, rfl, row_kept s ch q r hrow _ _ _ hr⟩
  · intro ch' f q' v hv
    rw [get_rw_sseq] at hv
    split at hv
    · next hc =>
      cases hv
      obtain ⟨⟨rfl, rfl, rfl⟩, hf0, hs0⟩ := hc
      exact ⟨hf0, r.id, r.c, r.flags, r.pay, rfl, by simp [get_rw_row], hs0⟩
    · obtain ⟨hf0, id, c, fl, p, rfl, hr, hs0⟩ := h.sseq ch' f q' v hv
      exact ⟨hf0, id, c, fl, p, rfl, row_kept s ch q r hrow _ _ _ hr, hs0⟩
  · intro ch' q' id f c fl p hv
    rw [get_rw_row] at hv
    split at hv
    · next hc =>
      obtain ⟨rfl, rfl⟩ := hc
      simp only [Option.some.injEq, Val.row.injEq] at hv
      obtain ⟨rfl, rfl, rfl, rfl, rfl⟩ := hv
      refine ⟨by simp [get_rw_gid], ?_, ?_, ?_⟩
      · intro hc0 hf0; simp [get_rw_cno, hc0, hf0]
      · intro hf0 hc0; simp [get_rw_idem, hc0, hf0]
      · intro hf0 hs0; simp [get_rw_sseq, hs0, hf0]
    · next hc =>
      obtain ⟨g1, g2, g3, g4⟩ := h.complete ch' q' id f c fl p hv
      have hne : id ≠ r.id := by
        intro he; subst he; rw [hgid] at g1; cases g1
      refine ⟨by rw [get_rw_gid, if_neg hne]; exact g1, ?_, ?_, ?_⟩
      · intro hc0 hf0
        rw [get_rw_cno]
        have : ¬ ((ch' = ch ∧ c = r.c ∧ q' = q) ∧ r.c ≠ 0 ∧ r.f = 0) := by
          rintro ⟨⟨rfl, _, rfl⟩, _⟩; exact hc ⟨rfl, rfl⟩
        rw [if_neg this]; exact g2 hc0 hf0
      · intro hf0 hc0
        rw [get_rw_idem]
        have : ¬ ((ch' = ch ∧ f = r.f ∧ c = r.c) ∧ r.f ≠ 0 ∧ r.c ≠ 0) := by
          rintro ⟨⟨rfl, rfl, rfl⟩, h1, h2⟩
          have := g3 hf0 hc0
          rw [hidem h1 h2] at this; cases this
        rw [if_neg this]; exact g3 hf0 hc0
      · intro hf0 hs0
        rw [get_rw_sseq]
        have : ¬ ((ch' = ch ∧ f = r.f ∧ q' = q) ∧ r.f ≠ 0 ∧ flagSyncOnce r.flags = false) := by
          rintro ⟨⟨rfl, _, rfl⟩, _⟩; exact hc ⟨rfl, rfl⟩
        rw [if_neg this]; exact g4 hf0 hs0

/-- what the callers / `validateAppendRow` guarantee about a batch of records appended after `base` -/
structure FreshBatch (s : Store) (ch base : Nat) (recs : List Rec) : Prop where
  ids_ne : ∀ r ∈ recs, r.id ≠ 0
  ids_nodup : (recs.map (·.id)).Nodup
  gid_absent : ∀ r ∈ recs, get s (.gid r.id) = none
  keys_nodup : ((recs.filter (fun r => r.f ≠ 0 ∧ r.c ≠ 0)).map (fun r => (r.f, r.c))).Nodup
  idem_absent : ∀ r ∈ recs, r.f ≠ 0 → r.c ≠ 0 → get s (.idem ch r.f r.c) = none
  rows_absent : ∀ q, base < q → get s (.row ch q) = none

def rowsFrom (ch base k : Nat) (recs : List Rec) : List W :=
  ((recs.zipIdx k).map (fun (r, i) => rowWrites ch (base + 1 + i) r)).flatten

theorem rowsFrom_cons (ch base k : Nat) (r : Rec) (rest : List Rec) :
    rowsFrom ch base k (r :: rest) = rowWrites ch (base + 1 + k) r ++ rowsFrom ch base (k + 1) rest := by
  simp [rowsFrom, List.zipIdx_cons]

theorem rowsWrites_eq (ch base : Nat) (recs : List Rec) : rowsWrites ch base recs = rowsFrom ch base 0 recs := rfl

theorem idxInv_rowsFrom (ch base : Nat) : ∀ (recs : List Rec) (k : Nat) (s : Store), IdxInv s →
    FreshBatch s ch (base + k) recs → IdxInv (applyBatch s (rowsFrom ch base k recs))
  | [], _, s, h, _ => by simpa [rowsFrom, applyBatch] using h
  | r :: rest, k, s, h, hf => by
    rw [rowsFrom_cons, applyBatch_append]
    have hr : r ∈ r :: rest := List.mem_cons_self
    have h1 := idxInv_rowWrites s ch (base + 1 + k) r h (hf.ids_ne r hr)
      (hf.rows_absent _ (by omega)) (hf.gid_absent r hr) (hf.idem_absent r hr)
    apply idxInv_rowsFrom ch base rest (k + 1) _ h1
    have hnd : r.id ∉ rest.map (·.id) ∧ (rest.map (·.id)).Nodup := by
      have := hf.ids_nodup; simpa using this
    constructor
    · intro x hx; exact hf.ids_ne x (List.mem_cons_of_mem _ hx)
    · exact hnd.2
    · intro x hx
      rw [get_rw_gid]
      have : x.id ≠ r.id := by
        intro he; apply hnd.1; rw [← he]; exact List.mem_map_of_mem hx
      rw [if_neg this]; exact hf.gid_absent x (List.mem_cons_of_mem _ hx)
    · have := hf.keys_nodup
      by_cases hc : r.f ≠ 0 ∧ r.c ≠ 0
      · simp [List.filter_cons, hc] at this; simpa using this.2
      · simp [List.filter_cons, hc] at this; simpa using this
    · intro x hx hxf hxc
      rw [get_rw_idem]
      have : ¬ ((ch = ch ∧ x.f = r.f ∧ x.c = r.c) ∧ r.f ≠ 0 ∧ r.c ≠ 0) := by
        rintro ⟨⟨_, h2, h3⟩, h4, h5⟩
        have hk := hf.keys_nodup
        simp [List.filter_cons, h4, h5] at hk
        apply hk.1 x hx hxf hxc
        · exact h2
        · exact h3
      rw [if_neg this]; exact hf.idem_absent x (List.mem_cons_of_mem _ hx) hxf hxc
    · intro q hq
      rw [get_rw_row]
      have : ¬ (ch = ch ∧ q = base + 1 + k) := by omega
      rw [if_neg this]; exact hf.rows_absent q (by omega)

/-! ### frame: writes to other key families do not matter -/

def isIdx : Key → Bool
  | .row _ _ => true | .gid _ => true | .cno _ _ _ => true | .idem _ _ _ => true | .sseq _ _ _ => true
  | _ => false

def IdxEq (s s' : Store) : Prop := ∀ k, isIdx k = true → get s k = get s' k

theorem IdxEq.refl (s : Store) : IdxEq s s := fun _ _ => rfl
theorem IdxEq.trans {a b c : Store} (h1 : IdxEq a b) (h2 : IdxEq b c) : IdxEq a c := fun k hk => (h1 k hk).trans (h2 k hk)
theorem IdxEq.symm {a b : Store} (h : IdxEq a b) : IdxEq b a := fun k hk => (h k hk).symm

theorem idxInv_congr {s s' : Store} (he : IdxEq s s') (h : IdxInv s) : IdxInv s' := by
  have e : ∀ k, isIdx k = true → get s' k = get s k := fun k hk => (he k hk).symm
  constructor
  · intro ch q v hv; rw [e _ rfl] at hv; exact h.row ch q v hv
  · intro id v hv; rw [e _ rfl] at hv
    obtain ⟨ch, q, f, c, fl, p, rfl, hr⟩ := h.gid id v hv
    exact ⟨ch, q, f, c, fl, p, rfl, by rw [e _ rfl]; exact hr⟩
  · intro ch c q v hv; rw [e _ rfl] at hv
    obtain ⟨h1, h2, id, fl, p, hr⟩ := h.cno ch c q v hv
    exact ⟨h1, h2, id, fl, p, by rw [e _ rfl]; exact hr⟩
  · intro ch f c v hv; rw [e _ rfl] at hv
    obtain ⟨h1, h2, q, id, fl, p, h3, hr⟩ := h.idem ch f c v hv
    exact ⟨h1, h2, q, id, fl, p, h3, by rw [e _ rfl]; exact hr⟩
  · intro ch f q v hv; rw [e _ rfl] at hv
    obtain ⟨h1, id, c, fl, p, h3, hr, h4⟩ := h.sseq ch f q v hv
    exact ⟨h1, id, c, fl, p, h3, by rw [e _ rfl]; exact hr, h4⟩
  · intro ch q id f c fl p hv; rw [e _ rfl] at hv
    obtain ⟨g1, g2, g3, g4⟩ := h.complete ch q id f c fl p hv
    exact ⟨by rw [e _ rfl]; exact g1, fun a b => by rw [e _ rfl]; exact g2 a b,
      fun a b => by rw [e _ rfl]; exact g3 a b, fun a b => by rw [e _ rfl]; exact g4 a b⟩

/-- the lookup after one write depends only on the lookup before it -/
theorem get_applyW_congr (s s' : Store) (w : W) (k : Key) (h : get s k = get s' k) :
    get (applyW s w) k = get (applyW s' w) k := by
  cases w with
  | put k' v => rw [get_applyW_put, get_applyW_put, h]
  | del k' => rw [get_applyW_del, get_applyW_del, h]
  | delEntFrom c f => rw [get_delEnt, get_delEnt, h]

theorem idxEq_applyW {s s' : Store} (h : IdxEq s s') (w : W) : IdxEq (applyW s w) (applyW s' w) :=
  fun k hk => get_applyW_congr s s' w k (h k hk)

theorem idxEq_applyBatch {s s' : Store} (h : IdxEq s s') (b : List W) : IdxEq (applyBatch s b) (applyBatch s' b) := by
  induction b generalizing s s' with
  | nil => exact h
  | cons w rest ih => exact ih (idxEq_applyW h w)

/-- a write that does not touch the row / index families -/
def nonIdxW : W → Bool
  | .put k _ => !isIdx k
  | .del k => !isIdx k
  | .delEntFrom _ _ => true

theorem idxEq_nonIdxW (s : Store) (w : W) (hw : nonIdxW w = true) : IdxEq s (applyW s w) := by
  intro k hk
  cases w with
  | put k' v =>
    rw [get_applyW_put]
    have : k ≠ k' := by intro he; subst he; simp [nonIdxW, hk] at hw
    rw [if_neg this]
  | del k' =>
    rw [get_applyW_del]
    have : k ≠ k' := by intro he; subst he; simp [nonIdxW, hk] at hw
    rw [if_neg this]
  | delEntFrom c f =>
    rw [get_delEnt]
    have : isEntFrom c f k = false := by cases k <;> simp [isIdx] at hk <;> rfl
    simp [this]

theorem idxEq_nonIdxBatch (b : List W) (hb : ∀ w ∈ b, nonIdxW w = true) (s : Store) : IdxEq s (applyBatch s b) := by
  induction b generalizing s with
  | nil => exact IdxEq.refl s
  | cons w rest ih =>
    exact (idxEq_nonIdxW s w (hb w List.mem_cons_self)).trans (ih (fun x hx => hb x (List.mem_cons_of_mem _ hx)) _)

/-- row/index writes surrounded by writes to other families: only the middle part matters -/
theorem idxInv_sandwich (s : Store) (a m z : List W) (ha : ∀ w ∈ a, nonIdxW w = true) (hz : ∀ w ∈ z, nonIdxW w = true)
    (h : IdxInv (applyBatch s m)) : IdxInv (applyBatch s (a ++ m ++ z)) := by
  rw [applyBatch_append, applyBatch_append]
  have e1 : IdxEq (applyBatch s m) (applyBatch (applyBatch s a) m) := idxEq_applyBatch (idxEq_nonIdxBatch a ha s) m
  have e2 := idxEq_nonIdxBatch z hz (applyBatch (applyBatch s a) m)
  exact idxInv_congr (e1.trans e2) h

/-! ### deleting rows with their index entries (`stageDeleteMessage`) -/

def DelOnly (b : List W) : Prop := ∀ w ∈ b, ∃ k, w = W.del k

theorem get_delOnly (b : List W) (hb : DelOnly b) (s : Store) (k : Key) :
    get (applyBatch s b) k = if W.del k ∈ b then none else get s k := by
  induction b generalizing s with
  | nil => simp [applyBatch]
  | cons w rest ih =>
    obtain ⟨k', rfl⟩ := hb w List.mem_cons_self
    rw [applyBatch_cons, ih (fun x hx => hb x (List.mem_cons_of_mem _ hx)), get_applyW_del]
    by_cases h1 : W.del k ∈ rest
    · simp [h1]
    · by_cases h2 : k = k'
      · subst h2; simp
      · simp [h1, h2]

theorem delOnly_rowDeletes (ch q : Nat) (v : Val) : DelOnly (rowDeletes ch q v) := by
  intro w hw
  cases v <;> simp [rowDeletes] at hw
  rcases hw with h | h | h | h | h
  · exact ⟨_, h⟩
  · exact ⟨_, h.2⟩
  · exact ⟨_, h.2⟩
  · exact ⟨_, h.2⟩
  · exact ⟨_, h.2⟩

theorem delOnly_deleteSeqs (s : Store) (ch : Nat) (seqs : List Nat) : DelOnly (deleteSeqs s ch seqs) := by
  intro w hw
  unfold deleteSeqs at hw
  simp only [List.mem_flatten, List.mem_map] at hw
  obtain ⟨l, ⟨q, _, rfl⟩, hm⟩ := hw
  split at hm
  · exact delOnly_rowDeletes _ _ _ w hm
  · cases hm

theorem mem_rowDeletes (ch q id f c fl p : Nat) (k : Key) :
    W.del k ∈ rowDeletes ch q (.row id f c fl p) ↔
      k = .row ch q ∨ (id ≠ 0 ∧ k = .gid id) ∨ ((c ≠ 0 ∧ f = 0) ∧ k = .cno ch c q) ∨
      ((f ≠ 0 ∧ c ≠ 0) ∧ k = .idem ch f c) ∨ (f ≠ 0 ∧ k = .sseq ch f q) := by
  simp [rowDeletes]

theorem mem_deleteSeqs (s : Store) (ch : Nat) (seqs : List Nat) (k : Key) :
    W.del k ∈ deleteSeqs s ch seqs ↔ ∃ q ∈ seqs, ∃ v, get s (.row ch q) = some v ∧ W.del k ∈ rowDeletes ch q v := by
  unfold deleteSeqs
  simp only [List.mem_flatten, List.mem_map]
  constructor
  · rintro ⟨l, ⟨q, hq, rfl⟩, hm⟩
    split at hm
    · next v hv => exact ⟨q, hq, v, hv, hm⟩
    · cases hm
  · rintro ⟨q, hq, v, hv, hm⟩
    exact ⟨_, ⟨q, hq, rfl⟩, by simp [hv, hm]⟩

theorem idxInv_deleteSeqs (s : Store) (ch : Nat) (seqs : List Nat) (h : IdxInv s) :
    IdxInv (applyBatch s (deleteSeqs s ch seqs)) := by
  have hget : ∀ k, get (applyBatch s (deleteSeqs s ch seqs)) k = if W.del k ∈ deleteSeqs s ch seqs then none else get s k :=
    get_delOnly _ (delOnly_deleteSeqs s ch seqs) s
  -- a present row listed for deletion is deleted with every index entry it owns
  have F2 : ∀ q id f c fl p, q ∈ seqs → get s (.row ch q) = some (.row id f c fl p) →
      W.del (.row ch q) ∈ deleteSeqs s ch seqs ∧ W.del (.gid id) ∈ deleteSeqs s ch seqs ∧
      (c ≠ 0 → f = 0 → W.del (.cno ch c q) ∈ deleteSeqs s ch seqs) ∧
      (f ≠ 0 → c ≠ 0 → W.del (.idem ch f c) ∈ deleteSeqs s ch seqs) ∧
      (f ≠ 0 → W.del (.sseq ch f q) ∈ deleteSeqs s ch seqs) := by
    intro q id f c fl p hq hr
    obtain ⟨_, _, _, _, _, hv, hid⟩ := h.row ch q _ hr
    cases hv
    refine ⟨?_, ?_, ?_, ?_, ?_⟩ <;> (try intro a b) <;> (try intro a) <;>
      exact (mem_deleteSeqs s ch seqs _).2 ⟨q, hq, _, hr, by simp_all [mem_rowDeletes]⟩
  -- a deleted key belongs to a present row listed for deletion
  have FD : ∀ k, W.del k ∈ deleteSeqs s ch seqs → ∃ q ∈ seqs, ∃ id f c fl p, get s (.row ch q) = some (.row id f c fl p) ∧
      (k = .row ch q ∨ (id ≠ 0 ∧ k = .gid id) ∨ ((c ≠ 0 ∧ f = 0) ∧ k = .cno ch c q) ∨
       ((f ≠ 0 ∧ c ≠ 0) ∧ k = .idem ch f c) ∨ (f ≠ 0 ∧ k = .sseq ch f q)) := by
    intro k hk
    obtain ⟨q, hq, v, hv, hm⟩ := (mem_deleteSeqs s ch seqs k).1 hk
    obtain ⟨id, f, c, fl, p, rfl, _⟩ := h.row ch q v hv
    exact ⟨q, hq, id, f, c, fl, p, hv, (mem_rowDeletes ch q id f c fl p k).1 hm⟩
  have rowD : ∀ ch' q', W.del (.row ch' q') ∈ deleteSeqs s ch seqs → ch' = ch ∧ q' ∈ seqs := by
    intro ch' q' hk
    obtain ⟨q, hq, id, f, c, fl, p, _, hc⟩ := FD _ hk
    rcases hc with hc | hc | hc | hc | hc
    · cases hc; exact ⟨rfl, hq⟩
    all_goals simp at hc
  -- a surviving row
  have keep : ∀ ch' q' v, get s (.row ch' q') = some v → W.del (.row ch' q') ∉ deleteSeqs s ch seqs →
      get (applyBatch s (deleteSeqs s ch seqs)) (.row ch' q') = some v := by
    intro ch' q' v hv hn; rw [hget, if_neg hn]; exact hv
  constructor
  · intro ch' q' v hv
    rw [hget] at hv; split at hv; · cases hv
    exact h.row ch' q' v hv
  · intro id v hv
    rw [hget] at hv; split at hv; · cases hv
    next hn =>
    obtain ⟨ch', q', f, c, fl, p, rfl, hr⟩ := h.gid id v hv
    refine ⟨ch', q', f, c, fl, p, rfl, keep _ _ _ hr ?_⟩
    intro hd
    obtain ⟨rfl, hq⟩ := rowD _ _ hd
    exact hn (F2 q' id f c fl p hq hr).2.1
  · intro ch' c q' v hv
    rw [hget] at hv; split at hv; · cases hv
    next hn =>
    obtain ⟨rfl, hc0, id, fl, p, hr⟩ := h.cno ch' c q' v hv
    refine ⟨rfl, hc0, id, fl, p, keep _ _ _ hr ?_⟩
    intro hd
    obtain ⟨rfl, hq⟩ := rowD _ _ hd
    exact hn ((F2 q' id 0 c fl p hq hr).2.2.1 hc0 rfl)
  · intro ch' f c v hv
    rw [hget] at hv; split at hv; · cases hv
    next hn =>
    obtain ⟨hf0, hc0, q, id, fl, p, rfl, hr⟩ := h.idem ch' f c v hv
    refine ⟨hf0, hc0, q, id, fl, p, rfl, keep _ _ _ hr ?_⟩
    intro hd
    obtain ⟨rfl, hq⟩ := rowD _ _ hd
    exact hn ((F2 q id f c fl p hq hr).2.2.2.1 hf0 hc0)
  · intro ch' f q' v hv
    rw [hget] at hv; split at hv; · cases hv
    next hn =>
    obtain ⟨hf0, id, c, fl, p, rfl, hr, hs0⟩ := h.sseq ch' f q' v hv
    refine ⟨hf0, id, c, fl, p, rfl, keep _ _ _ hr ?_, hs0⟩
    intro hd
    obtain ⟨rfl, hq⟩ := rowD _ _ hd
    exact hn ((F2 q' id f c fl p hq hr).2.2.2.2 hf0)
  · intro ch' q' id f c fl p hv
    rw [hget] at hv; split at hv; · cases hv
    next hn =>
    obtain ⟨g1, g2, g3, g4⟩ := h.complete ch' q' id f c fl p hv
    -- if the row's own index key were deleted, the row itself would be listed and deleted
    have contra : ∀ q, q ∈ seqs → ch' = ch → q' = q → False := by
      intro q hq hc he; subst hc; subst he
      exact hn (F2 q' id f c fl p hq hv).1
    refine ⟨?_, ?_, ?_, ?_⟩
    · rw [hget]; split
      · next hd =>
        exfalso
        obtain ⟨q, hq, id2, f2, c2, fl2, p2, hr2, hc⟩ := FD _ hd
        rcases hc with hc | hc | hc | hc | hc
        · simp at hc
        · obtain ⟨_, hc⟩ := hc; cases hc
          have := (h.complete ch q id f2 c2 fl2 p2 hr2).1
          rw [g1] at this; cases this
          exact contra q' hq rfl rfl
        all_goals (obtain ⟨_, hc⟩ := hc; simp at hc)
      · exact g1
    · intro hc0 hf0
      rw [hget]; split
      · next hd =>
        exfalso
        obtain ⟨q, hq, id2, f2, c2, fl2, p2, hr2, hc⟩ := FD _ hd
        rcases hc with hc | hc | hc | hc | hc
        · simp at hc
        · obtain ⟨_, hc⟩ := hc; simp at hc
        · obtain ⟨_, hc⟩ := hc; cases hc; exact contra q' hq rfl rfl
        all_goals (obtain ⟨_, hc⟩ := hc; simp at hc)
      · exact g2 hc0 hf0
    · intro hf0 hc0
      rw [hget]; split
      · next hd =>
        exfalso
        obtain ⟨q, hq, id2, f2, c2, fl2, p2, hr2, hc⟩ := FD _ hd
        rcases hc with hc | hc | hc | hc | hc
        · simp at hc
        · obtain ⟨_, hc⟩ := hc; simp at hc
        · obtain ⟨_, hc⟩ := hc; simp at hc
        · obtain ⟨⟨h1, h2⟩, hc⟩ := hc; cases hc
          have := (h.complete _ q id2 _ _ fl2 p2 hr2).2.2.1 h1 h2
          rw [g3 hf0 hc0] at this; cases this
          exact contra q' hq rfl rfl
        · obtain ⟨_, hc⟩ := hc; simp at hc
      · exact g3 hf0 hc0
    · intro hf0 hs0
      rw [hget]; split
      · next hd =>
        exfalso
        obtain ⟨q, hq, id2, f2, c2, fl2, p2, hr2, hc⟩ := FD _ hd
        rcases hc with hc | hc | hc | hc | hc
        · simp at hc
        · obtain ⟨_, hc⟩ := hc; simp at hc
        · obtain ⟨_, hc⟩ := hc; simp at hc
        · obtain ⟨_, hc⟩ := hc; simp at hc
        · obtain ⟨_, hc⟩ := hc; cases hc; exact contra q' hq rfl rfl
      · exact g4 hf0 hs0

/-! ### every mutation batch keeps rows ⇔ indexes -/

theorem le_foldl_max (xs : List Nat) (a x : Nat) (h : x ∈ xs ∨ x ≤ a) : x ≤ xs.foldl max a := by
  induction xs generalizing a with
  | nil => rcases h with h | h; · cases h
           exact h
  | cons y ys ih =>
    apply ih
    rcases h with h | h
    · rcases List.mem_cons.1 h with h | h
      · right; subst h; exact Nat.le_max_right _ _
      · left; exact h
    · right; exact Nat.le_trans h (Nat.le_max_left _ _)

theorem row_le_leo (s : Store) (ch q : Nat) (v : Val) (h : get s (.row ch q) = some v) : q ≤ leo s ch := by
  have hm := mem_of_get _ _ _ h
  have : q ∈ rowSeqs s ch := by
    unfold rowSeqs
    simp only [List.mem_filterMap]
    exact ⟨(.row ch q, v), hm, by simp⟩
  unfold leo maxList
  exact Nat.le_trans (le_foldl_max _ 0 q (Or.inl this)) (Nat.le_max_left _ _)

/-- the freshness a caller / `validateAppendRow` guarantees for the records of one append -/
structure FreshRecs (s : Store) (ch : Nat) (recs : List Rec) : Prop where
  ids_ne : ∀ r ∈ recs, r.id ≠ 0
  ids_nodup : (recs.map (·.id)).Nodup
  gid_absent : ∀ r ∈ recs, get s (.gid r.id) = none
  keys_nodup : ((recs.filter (fun r => r.f ≠ 0 ∧ r.c ≠ 0)).map (fun r => (r.f, r.c))).Nodup
  idem_absent : ∀ r ∈ recs, r.f ≠ 0 → r.c ≠ 0 → get s (.idem ch r.f r.c) = none

theorem freshBatch_of (s : Store) (ch : Nat) (recs : List Rec) (h : FreshRecs s ch recs) :
    FreshBatch s ch (leo s ch + 0) recs :=
  ⟨h.ids_ne, h.ids_nodup, h.gid_absent, h.keys_nodup, h.idem_absent, by
    intro q hq
    cases hg : get s (.row ch q) with
    | none => rfl
    | some v => have := row_le_leo s ch q v hg; omega⟩

theorem idxInv_rows (s : Store) (ch : Nat) (recs : List Rec) (h : IdxInv s) (hf : FreshRecs s ch recs) :
    IdxInv (applyBatch s (rowsWrites ch (leo s ch) recs)) :=
  idxInv_rowsFrom ch (leo s ch) recs 0 s h (freshBatch_of s ch recs hf)

theorem nonIdx_catalogW (ch base : Nat) : ∀ w ∈ catalogW ch base, nonIdxW w = true := by
  intro w hw; unfold catalogW at hw; split at hw <;> simp at hw; subst hw; rfl

theorem nonIdx_ckptAdvance (s : Store) (ch h : Nat) : ∀ w ∈ ckptAdvance s ch h, nonIdxW w = true := by
  intro w hw; unfold ckptAdvance at hw; split at hw <;> simp at hw; subst hw; rfl

theorem nonIdx_entryWrites (ch base cmd term pterm n : Nat) : ∀ w ∈ entryWrites ch base cmd term pterm n, nonIdxW w = true := by
  intro w hw; unfold entryWrites at hw; simp only [List.mem_map] at hw; obtain ⟨i, _, rfl⟩ := hw; rfl

theorem nonIdx_append {a b : List W} (ha : ∀ w ∈ a, nonIdxW w = true) (hb : ∀ w ∈ b, nonIdxW w = true) :
    ∀ w ∈ a ++ b, nonIdxW w = true := by
  intro w hw; rcases List.mem_append.1 hw with h | h
  · exact ha w h
  · exact hb w h

theorem nonIdx_nil : ∀ w ∈ ([] : List W), nonIdxW w = true := by intro w hw; cases hw

theorem idxInv_head (s : Store) (m z : List W) (hz : ∀ w ∈ z, nonIdxW w = true) (h : IdxInv (applyBatch s m)) :
    IdxInv (applyBatch s (m ++ z)) := by
  have := idxInv_sandwich s [] m z nonIdx_nil hz h
  simpa using this

/-- which mutations need fresh records -/
def OpFresh (s : Store) : Op → Prop
  | .app ch _ recs => FreshRecs s ch recs
  | .fetch ch _ recs => FreshRecs s ch recs
  | .xapp ch _ _ _ _ recs => FreshRecs s ch recs
  | _ => True

theorem idxInv_plan (s : Store) (op : Op) (h : IdxInv s) (hf : OpFresh s op) : IdxInv (applyBatch s (plan s op).2) := by
  cases op with
  | app ch mode recs =>
    unfold plan; simp only
    repeat' split
    all_goals first
      | exact h
      | exact idxInv_head s _ _ (nonIdx_catalogW _ _) (idxInv_rows s ch recs h hf)
  | fetch ch hw recs =>
    unfold plan; simp only
    repeat' split
    all_goals first
      | exact h
      | (rw [List.append_assoc]
         refine idxInv_head s _ _ (nonIdx_append ?_ ?_) (idxInv_rows s ch recs h hf)
         · first | exact nonIdx_ckptAdvance _ _ _ | exact nonIdx_nil
         · first | exact nonIdx_catalogW _ _ | (intro w hw; simp at hw; subst hw; rfl))
  | xapp ch cmd term committed mode recs =>
    unfold plan; simp only
    repeat' split
    all_goals first
      | exact h
      | (rw [List.append_assoc, List.append_assoc, List.append_assoc]
         refine idxInv_head s _ _ ?_ (idxInv_rows s ch recs h hf)
         refine nonIdx_append (nonIdx_ckptAdvance _ _ _) (nonIdx_append ?_ (nonIdx_append (nonIdx_entryWrites _ _ _ _ _ _) (nonIdx_catalogW _ _)))
         intro w hw; simp at hw; rcases hw with rfl | rfl <;> rfl)
  | trunc ch to =>
    unfold plan; simp only
    repeat' split
    all_goals first
      | exact h
      | skip
    all_goals
      rw [List.append_assoc _ _ [W.put (Key.cat ch) (Val.nat 1)]]
      refine idxInv_sandwich s _ _ _ ?_ ?_ (idxInv_deleteSeqs s ch _ h)
      · apply nonIdx_append
        · intro w hw
          simp only [List.mem_flatten, List.mem_map, List.mem_filter] at hw
          obtain ⟨l, ⟨x, _, rfl⟩, hm⟩ := hw
          simp at hm; rcases hm with rfl | rfl <;> rfl
        · intro w hw; simp at hw; subst hw; rfl
      · apply nonIdx_append
        · intro w hw; simp at hw; try (subst hw; rfl)
        · intro w hw; simp at hw; subst hw; rfl
  | adopt ch th =>
    refine idxInv_congr (idxEq_nonIdxBatch _ ?_ s) h
    unfold plan; simp only
    repeat' split
    all_goals (intro w hw; simp at hw)
    all_goals (try (rcases hw with hw | hw | hw)) <;> (try (rcases hw with hw | hw)) <;> (try subst hw) <;> (try rfl)
  | trim ch th mx =>
    unfold plan; simp only
    repeat' split
    all_goals first
      | exact h
      | (refine idxInv_head s _ _ ?_ (idxInv_deleteSeqs s ch _ h)
         intro w hw; simp at hw; rcases hw with rfl | rfl <;> rfl)
  | ckpt ch hw =>
    refine idxInv_congr (idxEq_nonIdxBatch _ ?_ s) h
    unfold plan; simp only
    repeat' split
    all_goals (intro w hw; simp at hw)
    all_goals (try (rcases hw with rfl | rfl <;> rfl))

theorem c09_idx_step (s : Store) (op : Op) (h : IdxInv s) (hf : OpFresh s op) : IdxInv (stepG s op) := by
  unfold stepG
  split
  · exact h
  · rw [step_snd]; exact idxInv_plan s op h hf

/-- a history whose appends carry fresh records at the point where they are issued -/
def HistFresh : Store → List Op → Prop
  | _, [] => True
  | s, op :: rest => OpFresh s op ∧ HistFresh (stepG s op) rest

theorem histFresh_take : ∀ (ops : List Op) (s : Store) (j : Nat), HistFresh s ops → HistFresh s (ops.take j)
  | [], _, _, _ => by simp [HistFresh]
  | op :: rest, s, 0, _ => by simp [HistFresh]
  | op :: rest, s, j + 1, h => by
    rw [List.take_succ_cons]
    exact ⟨h.1, histFresh_take rest _ j h.2⟩

theorem idxInv_run : ∀ (ops : List Op) (s : Store), IdxInv s → HistFresh s ops → IdxInv (run s ops)
  | [], _, h, _ => h
  | op :: rest, s, h, hf => by rw [run_cons]; exact idxInv_run rest _ (c09_idx_step s op h hf.1) hf.2

theorem idxInv_empty : IdxInv [] := by
  constructor <;> intros <;> simp [get, List.lookup] at *

/-! ### keys stay unique -/

def NoDup (s : Store) : Prop := (s.map (·.1)).Nodup

theorem noDup_filter (s : Store) (p : Key × Val → Bool) (h : NoDup s) : NoDup (s.filter p) :=
  List.Nodup.sublist (List.Sublist.map _ List.filter_sublist) h

theorem noDup_applyW (s : Store) (w : W) (h : NoDup s) : NoDup (applyW s w) := by
  cases w with
  | put k v =>
    unfold applyW put NoDup
    rw [List.map_cons, List.nodup_cons]
    refine ⟨?_, noDup_filter s _ h⟩
    intro hm
    obtain ⟨e, he, hk⟩ := List.mem_map.1 hm
    have := (List.mem_filter.1 he).2
    simp at this
    exact this hk
  | del k => exact noDup_filter s _ h
  | delEntFrom c f => exact noDup_filter s _ h

theorem noDup_applyBatch (b : List W) : ∀ (s : Store), NoDup s → NoDup (applyBatch s b) := by
  induction b with
  | nil => intro s h; exact h
  | cons w rest ih => intro s h; exact ih _ (noDup_applyW s w h)

theorem noDup_stepG (s : Store) (op : Op) (h : NoDup s) : NoDup (stepG s op) := by
  unfold stepG; split
  · exact h
  · rw [step_snd]; exact noDup_applyBatch _ _ h

theorem get_of_mem (s : Store) (h : NoDup s) (k : Key) (v : Val) (hm : (k, v) ∈ s) : get s k = some v := by
  unfold get
  induction s with
  | nil => cases hm
  | cons e t ih =>
    obtain ⟨a, b⟩ := e
    have hnd : a ∉ t.map (·.1) ∧ (t.map (·.1)).Nodup := by
      have h' : ((a, b) :: t).map (·.1) = a :: t.map (·.1) := rfl
      unfold NoDup at h; rw [h'] at h; exact List.nodup_cons.1 h
    rcases List.mem_cons.1 hm with he | he
    · cases he; simp [List.lookup]
    · have hne : k ≠ a := by
        intro hk; subst hk; exact hnd.1 (List.mem_map.2 ⟨(k, v), he, rfl⟩)
      have hb : (k == a) = false := by simpa using hne
      simp only [List.lookup, hb]
      exact ih hnd.2 he

/-- the Bool judge's row-completeness clause follows from the lookup invariant -/
theorem rowComplete_of_idxInv (s : Store) (hn : NoDup s) (h : IdxInv s) : s.all (rowComplete s) = true := by
  rw [List.all_eq_true]
  rintro ⟨k, v⟩ hm
  have hg := get_of_mem s hn k v hm
  cases k <;> try rfl
  next ch q =>
    obtain ⟨id, f, c, fl, p, rfl, _⟩ := h.row ch q v hg
    obtain ⟨g1, g2, g3, g4⟩ := h.complete ch q id f c fl p hg
    unfold rowComplete
    simp only [g1, beq_self_eq_true, Bool.true_and, Bool.and_eq_true, Bool.or_eq_true, Bool.not_eq_true',
      bne_iff_ne, ne_eq, beq_iff_eq, Bool.and_eq_false_imp]
    refine ⟨⟨?_, ?_⟩, ?_⟩
    · by_cases hc : c = 0
      · left; simp [hc]
      · by_cases hf : f = 0
        · right; rw [g2 hc hf]
        · left; simp [hf]
    · by_cases hf : f = 0
      · left; simp [hf]
      · by_cases hc : c = 0
        · left; simp [hc]
        · right; rw [g3 hf hc]
    · by_cases hf : f = 0
      · left; simp [hf]
      · cases hs : flagSyncOnce fl
        · right; rw [g4 hf hs]
        · left; simp [hs]

end WK.C09

import WK.Proofs.C17_inv
/-
  C17 — every metadata row a migration command stores passed
  validateChannelRuntimeMeta; holds for arbitrary batches.
-/
namespace WK.C17

def PutsValid (ws : List W) : Prop := ∀ c m, W.putMeta c m ∈ ws → m.valid = true

theorem putsValid_nil : PutsValid [] := by intro c m h; cases h

theorem putsValid_append (a b : List W) (ha : PutsValid a) (hb : PutsValid b) : PutsValid (a ++ b) := by
  intro c m h
  rcases List.mem_append.mp h with h | h
  · exact ha c m h
  · exact hb c m h

theorem upsert_putsValid (db : State) (t : Task) (ws : List W) (h : upsertWrites db t = .ok ws) : PutsValid ws := by
  intro c m hm
  rcases upsert_shape db t ws h with ⟨_, hw, _⟩ | ⟨_, hw, _⟩ | ⟨_, hw⟩ <;> (rw [hw] at hm; simp at hm)

theorem gc_putsValid (db : State) (b l : Nat) : PutsValid (gcWrites db b l) := by
  intro c m hm
  obtain ⟨c', i', h⟩ := gcGo_dels b l _ 0 _ hm
  cases h

theorem runStaged_putsValid (db : State) (o o' : Ov) (op : Staged) (ws : List W)
    (h : runStaged db o op = .ok (o', ws)) : PutsValid ws := by
  cases op with
  | createRow t =>
    simp only [runStaged] at h
    split at h
    · split at h
      · simp at h; rw [h.2]; exact putsValid_nil
      · simp at h
    · split at h
      · simp at h
      · rename_i ws' hw
        simp at h; rw [← h.2]; exact upsert_putsValid db t ws' hw
  | guardCreate t rg =>
    rw [(runStaged_guard db o o' t rg ws h).2]; exact putsValid_nil
  | taskOnly c =>
    simp only [runStaged] at h
    split at h
    · simp at h
    · split at h
      · simp at h
      · split at h
        · simp at h
        · split at h
          · simp at h
          · rename_i _ nt hmut _ ws' hw
            simp at h; rw [← h.2]; exact upsert_putsValid db nt ws' hw
  | taskMeta c =>
    simp only [runStaged] at h
    split at h
    · simp at h
    · split at h
      · simp at h
      · split at h
        · simp at h
        · split at h
          · split at h
            · simp at h; rw [h.2]; exact putsValid_nil
            · simp at h
          · split at h
            · simp at h
            · split at h
              · simp at h
              · split at h
                · simp at h
                · rename_i hv
                  split at h
                  · simp at h
                  · rename_i ws' hw
                    simp at h
                    rw [← h.2]
                    apply putsValid_append
                    · exact upsert_putsValid db _ ws' hw
                    · intro c' m' hm'
                      simp at hm'
                      rw [hm'.2]
                      simp [validMeta] at hv
                      exact hv
  | gc b l =>
    simp [runStaged] at h
    rw [← h.2]; exact gc_putsValid db b l

theorem commitStaged_putsValid (db : State) (ops : List Staged) (o : Ov) (ws : List W)
    (h : commitStaged db o ops = .ok ws) : PutsValid ws := by
  induction ops generalizing o ws with
  | nil => simp [commitStaged] at h; rw [h]; exact putsValid_nil
  | cons op rest ih =>
    simp only [commitStaged] at h
    split at h
    · simp at h
    · rename_i o' ws1 hr
      split at h
      · simp at h
      · rename_i ws2 hc
        simp at h
        rw [← h]
        exact putsValid_append _ _ (runStaged_putsValid db o o' op ws1 hr) (ih o' ws2 hc)

theorem all_putKV {α : Type} (p : Nat × α → Bool) (k : Nat) (v : α) (l : List (Nat × α))
    (hl : l.all p = true) (hv : p (k, v) = true) : (putKV k v l).all p = true := by
  unfold putKV
  rw [List.all_cons, hv, Bool.true_and, List.all_eq_true]
  intro x hx
  exact List.all_eq_true.mp hl x (List.mem_filter.mp hx).1

theorem metasValid_applyW (s : State) (w : W) (hs : s.metasValid = true)
    (hw : ∀ c m, w = W.putMeta c m → m.valid = true) : (applyW s w).metasValid = true := by
  cases w with
  | putMeta c m =>
    simp only [applyW, State.metasValid]
    exact all_putKV _ c m _ hs (hw c m rfl)
  | _ => exact hs

theorem metasValid_applyWs (s : State) (ws : List W) (hs : s.metasValid = true) (hw : PutsValid ws) :
    (applyWs s ws).metasValid = true := by
  induction ws generalizing s with
  | nil => exact hs
  | cons w rest ih =>
    simp only [applyWs, List.foldl]
    apply ih
    · apply metasValid_applyW s w hs
      intro c m e
      exact hw c m (by rw [e]; exact List.mem_cons_self)
    · intro c m h
      exact hw c m (List.mem_cons_of_mem _ h)

theorem metasValid_applySingle (db : State) (c : Cmd) (h : db.metasValid = true) : (applySingle db c).1.metasValid = true := by
  unfold applySingle
  split
  · split
    · split
      · rename_i ws hc
        exact metasValid_applyWs db ws h (commitStaged_putsValid db _ _ ws hc)
      · split <;> exact h
    · exact h
  · split
    · rename_i ws hc
      exact metasValid_applyWs db ws h (commitStaged_putsValid db _ _ ws hc)
    · split <;> exact h

theorem metasValid_applyIndividually (cs : List Cmd) (db : State) (h : db.metasValid = true) :
    (applyIndividually db cs).1.metasValid = true := by
  induction cs generalizing db with
  | nil => exact h
  | cons c rest ih =>
    simp only [applyIndividually]
    have h1 := metasValid_applySingle db c h
    split
    · rename_i db' e heq
      rw [heq] at h1; exact h1
    · rename_i db' r heq
      rw [heq] at h1
      have h2 := ih db' h1
      split
      · rename_i db'' e heq2
        rw [heq2] at h2; exact h2
      · rename_i db'' rs heq2
        rw [heq2] at h2; exact h2

theorem metasValid_applyBatch (db : State) (cs : List Cmd) (h : db.metasValid = true) :
    (applyBatch db cs).1.metasValid = true := by
  unfold applyBatch
  split
  · rename_i c
    have h1 := metasValid_applySingle db c h
    split
    · rename_i db' r heq
      rw [heq] at h1; exact h1
    · rename_i db' e heq
      rw [heq] at h1; exact h1
  · split
    · rename_i db' rs heq
      unfold applyOnce at heq
      split at heq
      · simp at heq
      · split at heq
        · simp at heq
        · rename_i ws hc
          simp at heq
          rw [← heq.1]
          exact metasValid_applyWs db ws h (commitStaged_putsValid db _ _ ws hc)
    · split
      · exact metasValid_applyIndividually cs db h
      · exact h

theorem metasValid_setMeta (db : State) (c : Nat) (m : Meta) (h : db.metasValid = true) :
    (setMeta db c m).1.metasValid = true := by
  have hf : (db.metas.filter (fun p => p.1 != c)).all (fun p => p.2.valid) = true := by
    rw [List.all_eq_true]
    intro x hx
    exact List.all_eq_true.mp h x (List.mem_filter.mp hx).1
  unfold setMeta
  simp only
  split
  · exact hf
  · rename_i hv
    simp [validMeta] at hv
    simp only [State.metasValid]
    exact all_putKV _ c _ _ hf hv

theorem metasValid_stepLine (s : State) (l : Line) (h : s.metasValid = true) : (stepLine s l).metasValid = true := by
  cases l with
  | setmeta c m => exact metasValid_setMeta s c m h
  | batch cs => exact metasValid_applyBatch s cs h

end WK.C17

import WK.Proofs.C07_Inv5
/-
  C07 — `Inv` is preserved by `doAppend` and `doFetch`.
-/
namespace WK.C07

theorem recover_congr (a b : Chan) (hr : a.rows = b.rows) (ht : a.ret = b.ret) : recoverLEO a = recoverLEO b := by
  unfold recoverLEO; rw [hr, ht]

/-- the store after `loadLEOLocked` on channel `c` -/
def loaded (st : Store) (c : Nat) : Store := st.setChan c (loadLEO (st.chan c)).2

theorem loaded_facts (st : Store) (c : Nat) (hi : Inv st) (hc : c < numChan) :
    Inv (loaded st c) ∧ (loaded st c).gidx = st.gidx ∧ ((loaded st c).chan c).iidx = (st.chan c).iidx ∧
    ((loaded st c).chan c).rows = (st.chan c).rows ∧ ((loaded st c).chan c).ret = (st.chan c).ret ∧
    ((loaded st c).chan c).ck = (st.chan c).ck ∧
    recoverLEO ((loaded st c).chan c) = recoverLEO (st.chan c) ∧
    (loadLEO (st.chan c)).1 = recoverLEO (st.chan c) ∧
    ((loaded st c).chan c).leoC = some (recoverLEO (st.chan c)) := by
  have hc' : c < st.chans.length := by rw [hi.len]; exact hc
  have e : (loaded st c).chan c = (loadLEO (st.chan c)).2 := chan_set_self _ _ _ hc'
  obtain ⟨f1, f2, f3, f4, f5⟩ := loadLEO_fields (st.chan c)
  have hv := loadLEO_val _ (hi.chan c)
  refine ⟨inv_load st c hi hc, rfl, by rw [e, f4], by rw [e, f1], by rw [e, f2], by rw [e, f3], ?_, hv, by rw [e, f5, hv]⟩
  rw [e]; exact recover_congr _ _ f1 f2

theorem doAppend_inv (st : Store) (c mode base : Nat) (recs : List Rec) (hi : Inv st) (hs : SafeBatch st c mode recs) :
    Inv (doAppend st c mode base recs).1 := by
  unfold doAppend prepare
  by_cases hm : mode > 2
  · rw [if_pos hm]; exact hi
  rw [if_neg hm]
  obtain ⟨I1, g1, i1, r1, t1, _, l1, v1, c1⟩ := loaded_facts st c hi hs.1
  show Inv (match (if base ≠ 0 ∧ base ≠ (loadLEO (st.chan c)).1 + 1 then (loaded st c, Except.error Err.conflict)
      else match walkRows (loaded st c) c mode ((loadLEO (st.chan c)).1 + 1) recs {} [] with
        | .error e => (loaded st c, .error e)
        | .ok rows => (loaded st c, .ok (rows, (loadLEO (st.chan c)).1))) with
    | (st, .error e) => (st, Out.err e)
    | (st, .ok (rows, leo)) =>
      if rows.isEmpty then (st, .app 0 0 0)
      else
        let st := rows.foldl (stageRow c) st
        (setLeoC st c (leo + rows.length), .app (leo + 1) (leo + rows.length) rows.length)).1
  by_cases hb : base ≠ 0 ∧ base ≠ (loadLEO (st.chan c)).1 + 1
  · rw [if_pos hb]; exact I1
  rw [if_neg hb]
  cases hw : walkRows (loaded st c) c mode ((loadLEO (st.chan c)).1 + 1) recs {} [] with
  | error e => exact I1
  | ok rows =>
    dsimp only
    by_cases he : rows.isEmpty = true
    · rw [if_pos he]; exact I1
    rw [if_neg he]
    dsimp only
    obtain ⟨new, hrows, B⟩ := walk_batch _ _ _ _ _ _ _ _ hw
    simp only [List.reverse_nil, List.nil_append] at hrows
    subst hrows
    rw [v1] at B ⊢
    rw [← l1] at B ⊢
    have hs1 : SafeBatch (loaded st c) c mode recs := ⟨hs.1, by rw [g1]; exact hs.2.1, by rw [i1]; exact hs.2.2⟩
    have hne : rows ≠ [] := by intro e; rw [e] at he; exact he rfl
    exact stage_batch_inv (loaded st c) c mode recs rows none I1 hs1 (by rw [c1, l1]) B hne

theorem ckptMono_lso (ch : Chan) (k : Ckpt) (a b : Nat) (h : ckptMonoOk ch k a b = true) : True := trivial

theorem doFetch_inv (st : Store) (c base : Nat) (ck : Option Ckpt) (recs : List Rec) (hi : Inv st) (hs : SafeBatch st c 2 recs) :
    Inv (doFetch st c base ck recs).1 := by
  unfold doFetch prepare
  rw [if_neg (by decide : ¬ (2 > 2))]
  obtain ⟨I1, g1, i1, r1, t1, _, l1, v1, c1⟩ := loaded_facts st c hi hs.1
  have hc1 : c < (loaded st c).chans.length := by rw [I1.len]; exact hs.1
  show Inv (match (if base ≠ 0 ∧ base ≠ (loadLEO (st.chan c)).1 + 1 then (loaded st c, Except.error Err.conflict)
      else match walkRows (loaded st c) c 2 ((loadLEO (st.chan c)).1 + 1) recs {} [] with
        | .error e => (loaded st c, .error e)
        | .ok rows => (loaded st c, .ok (rows, (loadLEO (st.chan c)).1))) with
    | (st, .error e) => (st, Out.err e)
    | (st, .ok (rows, leo)) =>
      let vis := if rows.isEmpty then leo else leo + rows.length
      let ckOk := match ck with
        | some k => ckptMonoOk (st.chan c) k vis vis
        | none => true
      if !ckOk then (st, .err .corruptstate)
      else if rows.isEmpty ∧ ck.isNone then (st, .app 0 0 0)
      else
        let st := rows.foldl (stageRow c) st
        let st := match ck with
          | some k => st.setChan c { st.chan c with ck := some k }
          | none => st
        if rows.isEmpty then (st, .app 0 0 0)
        else (setLeoC st c (leo + rows.length), .app (leo + 1) (leo + rows.length) rows.length)).1
  by_cases hb : base ≠ 0 ∧ base ≠ (loadLEO (st.chan c)).1 + 1
  · rw [if_pos hb]; exact I1
  rw [if_neg hb]
  cases hw : walkRows (loaded st c) c 2 ((loadLEO (st.chan c)).1 + 1) recs {} [] with
  | error e => exact I1
  | ok rows =>
    dsimp only
    have hs1 : SafeBatch (loaded st c) c 2 recs := ⟨hs.1, by rw [g1]; exact hs.2.1, by rw [i1]; exact hs.2.2⟩
    obtain ⟨new, hrows, B⟩ := walk_batch _ _ _ _ _ _ _ _ hw
    simp only [List.reverse_nil, List.nil_append] at hrows
    subst hrows
    rw [v1] at B ⊢
    rw [← l1] at B ⊢
    by_cases he : rows.isEmpty = true
    · have hnil : rows = [] := by cases rows with | nil => rfl | cons a t => cases he
      subst hnil
      cases ck with
      | none => simp only [List.isEmpty_nil, Bool.not_true, Bool.false_eq_true, if_false, Option.isNone_none, and_self, if_true]; exact I1
      | some k =>
        simp only [List.isEmpty_nil, if_true, Option.isNone_some, Bool.false_eq_true, and_false, if_false, List.foldl_nil]
        split
        · exact I1
        · refine inv_set (loaded st c) c _ I1 hs.1 rfl ?_
          have CI := I1.chan c
          exact ⟨CI.uniq, CI.nodup, CI.nz, CI.noHoles, CI.cache, CI.retOK, CI.iidx, CI.sidx, CI.cidx⟩
    · have hne : rows ≠ [] := by intro e; rw [e] at he; exact he rfl
      have key := stage_batch_inv (loaded st c) c 2 recs rows ck I1 hs1 (by rw [c1, l1]) B hne
      cases ck with
      | none =>
        simp only [he, Bool.false_eq_true, if_false, false_and, Bool.not_true]
        exact key
      | some k =>
        simp only [he, Bool.false_eq_true, if_false, false_and]
        split
        · exact I1
        · exact key

end WK.C07

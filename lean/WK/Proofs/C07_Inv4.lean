import WK.Proofs.C07_Inv3
/-
  C07 — folds: staging an accepted batch, deleting a set of live rows.
-/
namespace WK.C07

structure FoldFrame (st st' : Store) (c : Nat) : Prop where
  len : st'.chans.length = st.chans.length
  ret : (st'.chan c).ret = (st.chan c).ret
  ck : (st'.chan c).ck = (st.chan c).ck
  leoC : (st'.chan c).leoC = (st.chan c).leoC
  other : ∀ c', c' ≠ c → st'.chan c' = st.chan c'

theorem stage_fold (c : Nat) (new : List Row) (st : Store) (hc : c < st.chans.length) (h : Idx st c)
    (hf : ∀ r ∈ new, FreshRow st c r) (ha : new.Pairwise Apart) :
    Idx (new.foldl (stageRow c) st) c ∧ FoldFrame st (new.foldl (stageRow c) st) c ∧
    ((new.foldl (stageRow c) st).chan c).rows = (st.chan c).rows ++ new := by
  induction new generalizing st with
  | nil => exact ⟨h, ⟨rfl, rfl, rfl, rfl, fun _ _ => rfl⟩, by simp⟩
  | cons a t ih =>
    simp only [List.foldl_cons]
    obtain ⟨hrows, _, hiidx, _, hret, hck, hleo, hgidx, hlen, hother⟩ := stageRow_spec c st a hc
    have h1 := stage_idx c st a hc h (hf a List.mem_cons_self)
    have hap := List.pairwise_cons.mp ha
    have hf1 : ∀ r ∈ t, FreshRow (stageRow c st a) c r := by
      intro r hr
      have fr := hf r (List.mem_cons_of_mem _ hr)
      have ap := hap.1 r hr
      constructor
      · rw [hgidx, alookup_aput, if_neg ap.1]; exact fr.id
      · intro k1 k2
        rw [hiidx]
        by_cases ka : a.frm ≠ [] ∧ a.cmn ≠ []
        · rw [if_pos ka, alookup_aput, if_neg (ap.2.2 ka ⟨k1, k2⟩)]; exact fr.key k1 k2
        · rw [if_neg ka]; exact fr.key k1 k2
      · intro x hx
        rw [hrows] at hx
        rcases List.mem_append.mp hx with hx | hx
        · exact fr.seq x hx
        · simp only [List.mem_singleton] at hx; rw [hx]; exact ap.2.1
    obtain ⟨i2, f2, r2⟩ := ih (stageRow c st a) (by rw [hlen]; exact hc) h1 hf1 hap.2
    refine ⟨i2, ⟨by rw [f2.len, hlen], by rw [f2.ret, hret], by rw [f2.ck, hck], by rw [f2.leoC, hleo], ?_⟩, ?_⟩
    · intro c' hne; rw [f2.other c' hne, hother c' hne]
    · rw [r2, hrows]; simp

/-- deleting a list of live rows with pairwise different sequences -/
theorem delete_fold (c : Nat) (vs : List Row) (st : Store) (hc : c < st.chans.length) (h : Idx st c)
    (hin : ∀ v ∈ vs, v ∈ (st.chan c).rows ∧ v.id ≠ 0) (hd : vs.Pairwise (fun a b => a.seq ≠ b.seq)) :
    Idx (vs.foldl (deleteRow c) st) c ∧ FoldFrame st (vs.foldl (deleteRow c) st) c ∧
    (∀ r, r ∈ ((vs.foldl (deleteRow c) st).chan c).rows ↔ r ∈ (st.chan c).rows ∧ ∀ v ∈ vs, r.seq ≠ v.seq) ∧
    (∀ P : Row → Row → Prop, (st.chan c).rows.Pairwise P → ((vs.foldl (deleteRow c) st).chan c).rows.Pairwise P) := by
  induction vs generalizing st with
  | nil => exact ⟨h, ⟨rfl, rfl, rfl, rfl, fun _ _ => rfl⟩, by simp, fun _ hp => hp⟩
  | cons a t ih =>
    simp only [List.foldl_cons]
    obtain ⟨hrows, _, _, _, hret, hck, hleo, _, hlen, hother⟩ := deleteRow_spec c st a hc
    have ha := hin a List.mem_cons_self
    have h1 := delete_idx c st a hc h ha.1 ha.2
    have hdp := List.pairwise_cons.mp hd
    have memf : ∀ r, r ∈ ((deleteRow c st a).chan c).rows ↔ r ∈ (st.chan c).rows ∧ r.seq ≠ a.seq := by
      intro r; rw [hrows]; simp [List.mem_filter]
    have hin1 : ∀ v ∈ t, v ∈ ((deleteRow c st a).chan c).rows ∧ v.id ≠ 0 := by
      intro v hv
      have := hin v (List.mem_cons_of_mem _ hv)
      exact ⟨(memf v).mpr ⟨this.1, fun e => hdp.1 v hv e.symm⟩, this.2⟩
    obtain ⟨i2, f2, r2, p2⟩ := ih (deleteRow c st a) (by rw [hlen]; exact hc) h1 hin1 hdp.2
    refine ⟨i2, ⟨by rw [f2.len, hlen], by rw [f2.ret, hret], by rw [f2.ck, hck], by rw [f2.leoC, hleo], ?_⟩, ?_, ?_⟩
    · intro c' hne; rw [f2.other c' hne, hother c' hne]
    rotate_left
    · intro P hp; apply p2; rw [hrows]; exact hp.filter _
    · intro r
      rw [r2, memf]
      constructor
      · rintro ⟨⟨h1, h2⟩, h3⟩
        refine ⟨h1, ?_⟩
        intro v hv
        rcases List.mem_cons.mp hv with e | e
        · rw [e]; exact h2
        · exact h3 v e
      · rintro ⟨h1, h2⟩
        exact ⟨⟨h1, h2 a List.mem_cons_self⟩, fun v hv => h2 v (List.mem_cons_of_mem _ hv)⟩

end WK.C07

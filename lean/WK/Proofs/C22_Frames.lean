import WK.Proofs.C22_Prim
/-
  C22 — per-frame-type lemmas:
    `X_body` : within the field limits the body encodes, has the size the
               `encodeXSize` function predicts, and the body decoder returns the
               normalised packet;
    `X_size` : whenever the body encodes at all, its length is the predicted size
               (no limits assumed).
-/
namespace WK.C22

theorem wCat_ok_inv' : ∀ (ws : List W) (b : Bytes), wCat ws = .ok b →
    (∀ w ∈ ws, ∃ x, w = .ok x) ∧ b.length = (ws.map wLen).sum
  | [], b, h => by
    simp at h; subst h; simp
  | .error e :: rest, b, h => by simp at h
  | .ok x :: rest, b, h => by
    simp only [wCat_ok_cons] at h
    cases hr : wCat rest with
    | error e => simp [hr] at h
    | ok r =>
      simp only [hr, Except.ok.injEq] at h
      subst h
      have := wCat_ok_inv' rest r hr
      refine ⟨?_, by simp [wLen, this.2]⟩
      intro w hw
      simp at hw
      rcases hw with rfl | hw
      · exact ⟨x, rfl⟩
      · exact this.1 w hw

theorem wLen_wStr (s : Bytes) (h : ∃ x, wStr s = .ok x) : wLen (wStr s) = s.length + 2 :=
  wStr_len_of_ok s h

theorem wLen_wSeq (v n : Nat) (h : ∃ x, wSeq v n = .ok x) : wLen (wSeq v n) = seqSize v := by
  obtain ⟨x, hx⟩ := h
  unfold wSeq at hx ⊢
  unfold seqSize
  by_cases hv : v ≤ legacyMessageSeqVersion
  · simp only [hv, if_true] at hx ⊢
    by_cases hn : n > 4294967295
    · simp [hn] at hx
    · simp [hn, wLen]
  · simp [hv, wLen]

@[simp] theorem wLen_ok (b : Bytes) : wLen (.ok b) = b.length := rfl

/-- normalise the facts and the goal of an `X_size` lemma after the case split -/
macro "size_tac" : tactic => `(tactic| (
  simp only [wIf_true, wIf_false, decide_true, decide_false, List.append_nil, List.nil_append,
    List.cons_append, List.mem_cons, forall_eq_or_imp, List.not_mem_nil, false_imp_iff, implies_true,
    and_true, Bool.not_true, Bool.not_false] at *
  simp only [List.map_cons, List.map_nil, List.sum_cons, List.sum_nil, wLen_ok, encU8_length,
    encU32_length, encU64_length]
  simp only [wLen_wStr, wLen_wSeq, *]
  simp
  try omega))

/-! ### CONNECT -/

theorem connect_body (hh : Flags) (p : Connect) (hf : FieldsOk 0 (.connect hh p)) :
    ∃ body, encConnect p = .ok body ∧ body.length = sizeConnect p ∧
      decConnect hh body = some (.connect hh p) := by
  simp only [FieldsOk, u8, u64, strOk, maxInt16] at hf
  obtain ⟨h1, h2, h3, h4, h5, h6, h7⟩ := hf
  simp [encConnect, sizeConnect, decConnect, wStr_ok, getU8_enc, getU64_enc, getStr_enc, getStr_enc0, *]
  omega

theorem connect_size (p : Connect) (b : Bytes) (h : encConnect p = .ok b) : b.length = sizeConnect p := by
  unfold encConnect at h
  obtain ⟨hall, hlen⟩ := wCat_ok_inv' _ _ h
  rw [hlen]; clear h hlen
  unfold sizeConnect
  size_tac

/-! ### CONNACK -/

theorem connack_body (v : Nat) (hh : Flags) (p : Connack) (hf : FieldsOk v (.connack hh p)) :
    ∃ body, encConnack v hh p = .ok body ∧ body.length = sizeConnack v hh p ∧
      decConnack v hh body = some (.connack hh
        { p with serverVersion := if hh.hsv then p.serverVersion else 0
                 nodeId := if v ≥ 4 then p.nodeId else 0 }) := by
  simp only [FieldsOk, u8, u64, strOk, maxInt16] at hf
  obtain ⟨h1, h2, h3, h4, h5, h6⟩ := hf
  cases hs : hh.hsv <;> by_cases hv : v ≥ 4 <;>
    simp [encConnack, sizeConnack, decConnack, wStr_ok, getU8_enc, getU64_enc, getU64_enc0, getStr_enc,
      getStr_enc0, *] <;> omega

theorem connack_size (v : Nat) (hh : Flags) (p : Connack) (b : Bytes) (h : encConnack v hh p = .ok b) :
    b.length = sizeConnack v hh p := by
  unfold encConnack at h
  obtain ⟨hall, hlen⟩ := wCat_ok_inv' _ _ h
  rw [hlen]; clear h hlen
  unfold sizeConnack
  cases hs : hh.hsv <;> by_cases hv : v ≥ 4 <;> simp only [hs, hv] at hall ⊢ <;> size_tac

/-! ### SEND -/

theorem send_body (v : Nat) (hh : Flags) (p : Send) (hf : FieldsOk v (.send hh p)) :
    ∃ body, encSend v p = .ok body ∧ body.length = sizeSend v p ∧
      decSend v hh body = some (.send hh
        { p with streamNo := if streamOn v p.setting then p.streamNo else []
                 expire := if v ≥ 3 then p.expire else 0
                 topic := if topicOn p.setting then p.topic else [] }) := by
  simp only [FieldsOk, u8, u32, strOk, maxInt16, payloadMaxSize] at hf
  obtain ⟨h1, h2, h3, h4, h5, h6, h7, h8, h9, h10⟩ := hf
  cases hs : streamOn v p.setting <;> cases ht : topicOn p.setting <;> by_cases hv : v ≥ 3 <;>
    simp [encSend, sizeSend, decSend, wStr_ok, getU8_enc, getU32_enc, getStr_enc, *] <;> omega

set_option maxHeartbeats 1000000 in
theorem send_size (v : Nat) (p : Send) (b : Bytes) (h : encSend v p = .ok b) : b.length = sizeSend v p := by
  unfold encSend at h
  obtain ⟨hall, hlen⟩ := wCat_ok_inv' _ _ h
  rw [hlen]; clear h hlen
  unfold sizeSend
  cases hs : streamOn v p.setting <;> cases ht : topicOn p.setting <;> by_cases hv : v ≥ 3 <;>
    simp only [hs, ht, hv] at hall ⊢ <;> size_tac

/-! ### SENDACK -/

theorem sendack_body (v : Nat) (hh : Flags) (p : Sendack) (hf : FieldsOk v (.sendack hh p)) :
    ∃ body, encSendack v p = .ok body ∧ body.length = sizeSendack v p ∧
      decSendack v hh body = some (.sendack hh p) := by
  obtain ⟨mid, cseq, mseq, rc, no⟩ := p
  simp only [FieldsOk, u8, u32, u64, strOk, maxInt16] at hf
  obtain ⟨h1, h2, h3, h4, h5⟩ := hf
  have hseq := wSeq_ok v mseq h3
  have hget := fun r x => getSeq_enc v mseq r x h3
  rw [hseq] at hget
  have hget' := fun r => hget r _ rfl
  have hget0 := hget [] _ rfl
  have hsz : (if v ≤ legacyMessageSeqVersion then encU32 mseq else encU64 mseq).length = seqSize v := by
    unfold seqSize; split <;> simp
  generalize (if v ≤ legacyMessageSeqVersion then encU32 mseq else encU64 mseq) = sq at *
  clear hget
  simp only [List.append_nil] at hget0
  cases no with
  | nil =>
    simp [encSendack, sizeSendack, decSendack, sendackBody, sendackCoreFirst, getU64_enc, getU32_enc,
      getU8_enc0, *]
    omega
  | cons c cs =>
    have hw := wStr_ok (c :: cs) h5
    have hg := getStr_enc0 (c :: cs) h5
    simp [encSendack, sizeSendack, decSendack, sendackBody, sendackCoreFirst, getU64_enc, getU32_enc,
      getU8_enc, hw, hg, hseq, hget', hsz, h1, h2, h4]
    omega

theorem sendack_size (v : Nat) (p : Sendack) (b : Bytes) (h : encSendack v p = .ok b) :
    b.length = sizeSendack v p := by
  unfold encSendack at h
  obtain ⟨hall, hlen⟩ := wCat_ok_inv' _ _ h
  rw [hlen]; clear h hlen
  unfold sizeSendack
  cases hp : p.clientMsgNo.isEmpty <;> simp only [hp] at hall ⊢ <;> size_tac

/-! ### RECV -/

set_option maxHeartbeats 1000000 in
theorem recv_body (v : Nat) (hh : Flags) (p : Recv) (hf : FieldsOk v (.recv hh p)) :
    ∃ body, encRecv v p = .ok body ∧ body.length = sizeRecv v p ∧
      decRecv v hh body = some (.recv hh
        { p with expire := if v ≥ 3 then p.expire else 0
                 streamFlag := if streamOn v p.setting then p.streamFlag else 0
                 streamNo := if streamOn v p.setting then p.streamNo else []
                 streamId := if streamOn v p.setting then p.streamId else 0
                 topic := if topicOn p.setting then p.topic else [] }) := by
  simp only [FieldsOk, u8, u32, u64, strOk, maxInt16] at hf
  obtain ⟨h1, h2, h3, h4, h5, h6, h7, h8, h9, h10, h11, h12, h13, h14⟩ := hf
  have hseq := wSeq_ok v p.messageSeq h12
  have hget := fun r x => getSeq_enc v p.messageSeq r x h12
  rw [hseq] at hget
  have hget' := fun r => hget r _ rfl
  have hsz : (if v ≤ legacyMessageSeqVersion then encU32 p.messageSeq else encU64 p.messageSeq).length = seqSize v := by
    unfold seqSize; split <;> simp
  generalize (if v ≤ legacyMessageSeqVersion then encU32 p.messageSeq else encU64 p.messageSeq) = sq at *
  cases hs : streamOn v p.setting <;> cases ht : topicOn p.setting <;> by_cases hv : v ≥ 3 <;>
    simp [encRecv, sizeRecv, decRecv, wStr_ok, getU8_enc, getU32_enc, getU64_enc, getStr_enc, *] <;> omega

set_option maxHeartbeats 1000000 in
theorem recv_size (v : Nat) (p : Recv) (b : Bytes) (h : encRecv v p = .ok b) : b.length = sizeRecv v p := by
  unfold encRecv at h
  obtain ⟨hall, hlen⟩ := wCat_ok_inv' _ _ h
  rw [hlen]; clear h hlen
  unfold sizeRecv
  cases hs : streamOn v p.setting <;> cases ht : topicOn p.setting <;> by_cases hv : v ≥ 3 <;>
    simp only [hs, ht, hv] at hall ⊢ <;> size_tac

/-! ### RECVACK -/

theorem recvack_body (v : Nat) (hh : Flags) (p : Recvack) (hf : FieldsOk v (.recvack hh p)) :
    ∃ body, encRecvack v p = .ok body ∧ body.length = sizeRecvack v ∧
      decRecvack v hh body = some (.recvack hh p) := by
  simp only [FieldsOk, u64] at hf
  obtain ⟨h1, h2⟩ := hf
  have hseq := wSeq_ok v p.messageSeq h2
  have hget := fun r x => getSeq_enc v p.messageSeq r x h2
  rw [hseq] at hget
  have hget' := hget [] _ rfl
  have hsz : (if v ≤ legacyMessageSeqVersion then encU32 p.messageSeq else encU64 p.messageSeq).length = seqSize v := by
    unfold seqSize; split <;> simp
  generalize (if v ≤ legacyMessageSeqVersion then encU32 p.messageSeq else encU64 p.messageSeq) = sq at *
  simp at hget'
  simp [encRecvack, sizeRecvack, decRecvack, getU64_enc, *]

theorem recvack_size (v : Nat) (p : Recvack) (b : Bytes) (h : encRecvack v p = .ok b) :
    b.length = sizeRecvack v := by
  unfold encRecvack at h
  obtain ⟨hall, hlen⟩ := wCat_ok_inv' _ _ h
  rw [hlen]; clear h hlen
  unfold sizeRecvack
  size_tac

/-! ### DISCONNECT -/

theorem disconnect_body (hh : Flags) (p : Disconnect) (hf : FieldsOk 0 (.disconnect hh p)) :
    ∃ body, encDisconnect p = .ok body ∧ body.length = sizeDisconnect p ∧
      decDisconnect hh body = some (.disconnect hh p) := by
  simp only [FieldsOk, u8, strOk, maxInt16] at hf
  obtain ⟨h1, h2⟩ := hf
  simp [encDisconnect, sizeDisconnect, decDisconnect, wStr_ok, getU8_enc, getStr_enc0, *]
  omega

theorem disconnect_size (p : Disconnect) (b : Bytes) (h : encDisconnect p = .ok b) :
    b.length = sizeDisconnect p := by
  unfold encDisconnect at h
  obtain ⟨hall, hlen⟩ := wCat_ok_inv' _ _ h
  rw [hlen]; clear h hlen
  unfold sizeDisconnect
  size_tac

/-! ### SUB -/

theorem sub_body (hh : Flags) (p : Sub) (hf : FieldsOk 0 (.sub hh p)) :
    ∃ body, encSub p = .ok body ∧ body.length = sizeSub p ∧ decSub hh body = some (.sub hh p) := by
  simp only [FieldsOk, u8, strOk, maxInt16] at hf
  obtain ⟨h1, h2, h3, h4, h5, h6⟩ := hf
  simp [encSub, sizeSub, decSub, wStr_ok, getU8_enc, getStr_enc, getStr_enc0, *]
  omega

theorem sub_size (p : Sub) (b : Bytes) (h : encSub p = .ok b) : b.length = sizeSub p := by
  unfold encSub at h
  obtain ⟨hall, hlen⟩ := wCat_ok_inv' _ _ h
  rw [hlen]; clear h hlen
  unfold sizeSub
  size_tac

/-! ### SUBACK -/

theorem suback_body (hh : Flags) (p : Suback) (hf : FieldsOk 0 (.suback hh p)) :
    ∃ body, encSuback p = .ok body ∧ body.length = sizeSuback p ∧ decSuback hh body = some (.suback hh p) := by
  simp only [FieldsOk, u8, strOk, maxInt16] at hf
  obtain ⟨h1, h2, h3, h4, h5⟩ := hf
  simp [encSuback, sizeSuback, decSuback, wStr_ok, getU8_enc, getU8_enc0, getStr_enc, *]
  omega

theorem suback_size (p : Suback) (b : Bytes) (h : encSuback p = .ok b) : b.length = sizeSuback p := by
  unfold encSuback at h
  obtain ⟨hall, hlen⟩ := wCat_ok_inv' _ _ h
  rw [hlen]; clear h hlen
  unfold sizeSuback
  size_tac

/-! ### EVENT -/

theorem event_body (hh : Flags) (p : Event) (hf : FieldsOk 0 (.event hh p)) :
    ∃ body, encEvent p = .ok body ∧ body.length = sizeEvent p ∧ decEvent hh body = some (.event hh p) := by
  simp only [FieldsOk, u64, strOk, maxInt16] at hf
  obtain ⟨h1, h2, h3⟩ := hf
  simp [encEvent, sizeEvent, decEvent, wStr_ok, getU64_enc, getStr_enc, *]
  omega

theorem event_size (p : Event) (b : Bytes) (h : encEvent p = .ok b) : b.length = sizeEvent p := by
  unfold encEvent at h
  obtain ⟨hall, hlen⟩ := wCat_ok_inv' _ _ h
  rw [hlen]; clear h hlen
  unfold sizeEvent
  size_tac

end WK.C22

import WK.Model.C15
/-
  C15 — lemmas about normalize / preserve / bump / resolve.
-/
namespace WK.C15

/-! ### normalizeUint64Set is idempotent -/

theorem insU_sorted (x : Nat) (l : List Nat) (h : l.Pairwise (· < ·)) :
    (insU x l).Pairwise (· < ·) ∧ ∀ y ∈ insU x l, y = x ∨ y ∈ l := by
  induction l with
  | nil => simp [insU]
  | cons z zs ih =>
    have hz := List.pairwise_cons.mp h
    simp only [insU]
    split
    · rename_i hlt
      refine ⟨List.pairwise_cons.mpr ⟨?_, h⟩, ?_⟩
      · intro y hy
        rcases List.mem_cons.mp hy with e | e
        · omega
        · have := hz.1 y e; omega
      · intro y hy; simpa using hy
    · split
      · refine ⟨h, ?_⟩
        intro y hy; exact Or.inr hy
      · rename_i h1 h2
        obtain ⟨i1, i2⟩ := ih hz.2
        refine ⟨List.pairwise_cons.mpr ⟨?_, i1⟩, ?_⟩
        · intro y hy
          rcases i2 y hy with e | e
          · omega
          · exact hz.1 y e
        · intro y hy
          rcases List.mem_cons.mp hy with e | e
          · exact Or.inr (by simp [e])
          · rcases i2 y e with e' | e'
            · exact Or.inl e'
            · exact Or.inr (List.mem_cons_of_mem _ e')

theorem normSet_sorted (l : List Nat) : (normSet l).Pairwise (· < ·) := by
  induction l with
  | nil => simp [normSet]
  | cons x xs ih => exact (insU_sorted x _ ih).1

theorem insU_lt_head (x : Nat) (l : List Nat) (h : ∀ y ∈ l, x < y) : insU x l = x :: l := by
  cases l with
  | nil => rfl
  | cons z zs => simp [insU, h z (by simp)]

theorem normSet_of_sorted (l : List Nat) (h : l.Pairwise (· < ·)) : normSet l = l := by
  induction l with
  | nil => rfl
  | cons x xs ih =>
    have hx := List.pairwise_cons.mp h
    show insU x (normSet xs) = x :: xs
    rw [ih hx.2]
    exact insU_lt_head x xs hx.1

theorem normSet_idem (l : List Nat) : normSet (normSet l) = normSet l :=
  normSet_of_sorted _ (normSet_sorted l)

/-! ### normal rows -/

/-- what every stored row satisfies (`normalize` is the last thing done before a write) -/
def Normal (m : Meta) : Prop :=
  m.replicas = normSet m.replicas ∧ m.isr = normSet m.isr ∧ m.routeGen ≠ 0 ∧ (m.chType = 1 → m.dirGen ≠ 0)

theorem max4_pos (a b c : Nat) : max4 a b c 1 ≠ 0 := by
  unfold max4; omega

theorem normalize_normal (m : Meta) : Normal (normalize m) := by
  refine ⟨?_, ?_, ?_, ?_⟩
  · simp [normalize, normSet_idem]
  · simp [normalize, normSet_idem]
  · simp only [normalize]
    split
    · exact max4_pos _ _ _
    · assumption
  · intro h
    simp only [normalize] at h ⊢
    split
    · omega
    · rename_i hc
      intro h0; exact hc ⟨h, h0⟩

theorem normalize_of_normal (m : Meta) (h : Normal m) : normalize m = m := by
  obtain ⟨h1, h2, h3, h4⟩ := h
  have e3 : (if m.routeGen = 0 then max4 m.chEpoch m.leEpoch m.fenceVer 1 else m.routeGen) = m.routeGen := by
    simp [h3]
  have e4 : (if m.chType = 1 ∧ m.dirGen = 0 then 1 else m.dirGen) = m.dirGen := by
    by_cases hc : m.chType = 1 ∧ m.dirGen = 0
    · exact absurd hc.2 (h4 hc.1)
    · simp [hc]
  cases m
  simp only [normalize] at *
  simp only [e3, e4, ← h1, ← h2]

/-- the fields `normalize` does not touch -/
theorem normalize_fields (m : Meta) :
    (normalize m).chType = m.chType ∧ (normalize m).chEpoch = m.chEpoch ∧ (normalize m).leEpoch = m.leEpoch ∧
    (normalize m).leader = m.leader ∧ (normalize m).minISR = m.minISR ∧ (normalize m).status = m.status ∧
    (normalize m).lease = m.lease ∧ (normalize m).retSeq = m.retSeq ∧ (normalize m).retAt = m.retAt ∧
    (normalize m).fenceToken = m.fenceToken ∧ (normalize m).fenceVer = m.fenceVer ∧
    (normalize m).fenceReason = m.fenceReason ∧ (normalize m).fenceUntil = m.fenceUntil ∧
    (normalize m).replicas = normSet m.replicas ∧ (normalize m).isr = normSet m.isr ∧
    m.routeGen ≤ (normalize m).routeGen ∧ m.dirGen ≤ (normalize m).dirGen ∧
    (m.routeGen ≠ 0 → (normalize m).routeGen = m.routeGen) := by
  refine ⟨rfl, rfl, rfl, rfl, rfl, rfl, rfl, rfl, rfl, rfl, rfl, rfl, rfl, rfl, rfl, ?_, ?_, ?_⟩
  · simp only [normalize]; split <;> omega
  · simp only [normalize]; split <;> omega
  · intro h; simp [normalize, h]

/-! ### preserve / bump -/

theorem preserve_fields (ex c : Meta) :
    (preserve ex c).chType = c.chType ∧ (preserve ex c).chEpoch = c.chEpoch ∧ (preserve ex c).leEpoch = c.leEpoch ∧
    (preserve ex c).leader = c.leader ∧ (preserve ex c).lease = c.lease ∧ (preserve ex c).replicas = c.replicas ∧
    (preserve ex c).isr = c.isr ∧ (preserve ex c).routeGen = c.routeGen ∧
    ex.retSeq ≤ (preserve ex c).retSeq ∧ ex.fenceVer ≤ (preserve ex c).fenceVer ∧
    ex.dirGen ≤ (preserve ex c).dirGen ∧ c.dirGen ≤ (preserve ex c).dirGen := by
  unfold preserve
  simp only []
  refine ⟨?_, ?_, ?_, ?_, ?_, ?_, ?_, ?_, ?_, ?_, ?_, ?_⟩ <;>
  · split <;> split <;> split <;> simp_all <;> omega

/-- the route generation `bumpRuntimeRoute` leaves -/
def bumpRG (ex p : Meta) (h : Bool) : Nat :=
  let g1 := if ¬ h ∧ p.routeGen < ex.routeGen then ex.routeGen else p.routeGen
  if routeChanged ex p ∧ g1 ≤ ex.routeGen then nextRG ex.routeGen else g1

theorem routeChanged_rg (a b : Meta) (g : Nat) : routeChanged a { b with routeGen := g } = routeChanged a b := rfl

theorem bump_eq (ex p : Meta) (h : Bool) : bump ex p h = { p with routeGen := bumpRG ex p h } := rfl

theorem nextRG_ge (g : Nat) : g ≤ nextRG g := by unfold nextRG; split <;> omega
theorem nextRG_gt (g : Nat) (h : g < u64max) : g < nextRG g := by
  unfold nextRG; split <;> omega

theorem bumpRG_spec (ex p : Meta) (h : Bool) (hge : h = true → ex.routeGen ≤ p.routeGen) :
    ex.routeGen ≤ bumpRG ex p h ∧
    (routeChanged ex p = true → ex.routeGen < u64max → ex.routeGen < bumpRG ex p h) ∧
    (p.routeGen ≠ 0 → bumpRG ex p h ≠ 0) := by
  unfold bumpRG
  simp only []
  have n1 := nextRG_ge ex.routeGen
  by_cases c1 : (¬ h = true ∧ p.routeGen < ex.routeGen)
  · rw [if_pos c1]
    by_cases c2 : (routeChanged ex p = true ∧ ex.routeGen ≤ ex.routeGen)
    · rw [if_pos c2]
      exact ⟨n1, fun _ hm => nextRG_gt _ hm, fun _ => by omega⟩
    · rw [if_neg c2]
      refine ⟨Nat.le_refl _, fun hr _ => absurd ⟨hr, Nat.le_refl _⟩ c2, fun _ => by omega⟩
  · rw [if_neg c1]
    have hle : ex.routeGen ≤ p.routeGen := by
      cases h with
      | true => exact hge rfl
      | false => exact Nat.le_of_not_lt (fun hlt => c1 ⟨by simp, hlt⟩)
    by_cases c2 : (routeChanged ex p = true ∧ p.routeGen ≤ ex.routeGen)
    · rw [if_pos c2]
      exact ⟨n1, fun _ hm => nextRG_gt _ hm, fun _ => by omega⟩
    · rw [if_neg c2]
      refine ⟨hle, fun hr _ => ?_, fun h0 => h0⟩
      have : ¬ p.routeGen ≤ ex.routeGen := fun hl => c2 ⟨hr, hl⟩
      omega

end WK.C15

import WK.Theorems.C06
import WK.Model.C06_Reactor
/-
  C06 (extension) — the reactor's two other leader-side writers of LEO / HW /
  CheckpointHW.  Neither handler compares the value it installs with the local
  watermarks, so the invariant is preserved only under a hypothesis about the
  value (named below); without it the invariant breaks — proved on concrete
  witnesses that are also replayed on the real code (corpus/C06/finding_install.ops).
-/
namespace WK.C06

/-- MISSING HYPOTHESIS of the install path: the recovered frontier is not below the
    local committed watermark and not below any replica's recorded match.
    (handleQuorumInstallResult only checks installed.HW ≤ installed.LEO.) -/
def RecoveryNoRegress (s : State) (leo hw : Nat) : Prop :=
  s.hw ≤ hw ∧ ∀ e ∈ s.progress, e.2 ≤ leo

theorem installErr_ok {auth leo hw : Nat} {err : Err} (h : installErr auth leo hw err = .ok) : hw ≤ leo := by
  unfold installErr at h
  cases err <;> simp at h
  omega

/-- handleQuorumInstallResult keeps the invariant and does not lower HW — PROVIDED the
    recovered (LEO, HW) do not regress below the local state. -/
theorem c06_install_inv_partial {s : State} (h : Inv s) (f : Fence) (auth leo hw : Nat) (err : Err)
    (hyp : RecoveryNoRegress s leo hw) :
    Inv (installResult s f auth leo hw err).1 ∧ s.hw ≤ (installResult s f auth leo hw err).1.hw ∧
    fenceLe s (installResult s f auth leo hw err).1 := by
  unfold installResult
  split
  · exact ⟨h, Nat.le_refl _, fenceLe_refl s⟩
  · split
    · exact ⟨h, Nat.le_refl _, fenceLe_refl s⟩
    · split
      · exact ⟨⟨h.ckpt_le, h.hw_le, h.match_le, h.pend_nodup, h.order_nodup, h.order_iff, h.infl_wf⟩,
               Nat.le_refl _, fenceLe_of_eq rfl rfl⟩
      · next hok =>
        have hle : hw ≤ leo := installErr_ok (by simpa using hok)
        have h1 := h.ckpt_le
        obtain ⟨h3, h4⟩ := hyp
        refine ⟨⟨by arith, hle, setP_le h4 (Nat.le_refl _), h.pend_nodup, h.order_nodup, h.order_iff, h.infl_wf⟩,
                h3, fenceLe_of_eq rfl rfl⟩

/-- a result for another channel, generation, fence or install op changes nothing -/
theorem c06_install_stale_noop (s : State) (f : Fence) (auth leo hw : Nat) (err : Err)
    (hf : f.key ≠ s.key ∨ f.gen ≠ s.gen ∨ f.epoch ≠ s.epoch ∨ f.lepoch ≠ s.lepoch ∨ f.op ≠ installOp) :
    (installResult s f auth leo hw err).1 = s := by
  unfold installResult
  split
  · rfl
  · split
    · rfl
    · next h1 h2 =>
      exfalso
      simp only [bne_iff_ne, ne_eq, Decidable.not_not, Bool.or_eq_true, not_or] at h1 h2
      obtain ⟨⟨⟨a, b⟩, c⟩, d⟩ := h2
      rcases hf with hf | hf | hf | hf | hf
      · exact hf h1
      · exact hf a
      · exact hf b
      · exact hf c
      · exact hf d

/-- handleStoreCheckpointResult keeps the invariant PROVIDED the checkpointed value does
    not exceed the current HW (every submit site passes a value ≤ HW at submit time; the
    handler itself has no such test, so a value submitted before HW was lowered breaks it). -/
theorem c06_checkpoint_result_inv_partial {s : State} (h : Inv s) (f : Fence) (w : Bool) (v : Nat) (err : Err)
    (hv : v ≤ s.hw) :
    Inv (checkpointResult s f w v err).1 ∧ (checkpointResult s f w v err).1.hw = s.hw ∧
    s.ckpt ≤ (checkpointResult s f w v err).1.ckpt ∧ fenceLe s (checkpointResult s f w v err).1 := by
  unfold checkpointResult
  split
  · exact ⟨h, rfl, Nat.le_refl _, fenceLe_refl s⟩
  · split
    · exact ⟨h, rfl, Nat.le_refl _, fenceLe_refl s⟩
    · split
      · next hc =>
        have hgt : v > s.ckpt := by
          simp only [Bool.and_eq_true, decide_eq_true_eq] at hc
          exact hc.2
        exact ⟨⟨hv, h.hw_le, h.match_le, h.pend_nodup, h.order_nodup, h.order_iff, h.infl_wf⟩, rfl,
               by arith, fenceLe_of_eq rfl rfl⟩
      · exact ⟨h, rfl, Nat.le_refl _, fenceLe_refl s⟩

theorem c06_checkpoint_stale_noop (s : State) (f : Fence) (w : Bool) (v : Nat) (err : Err)
    (hf : f.key ≠ s.key ∨ f.gen ≠ s.gen ∨ f.epoch ≠ s.epoch ∨ f.lepoch ≠ s.lepoch) :
    checkpointResult s f w v err = (s, {}) := by
  unfold checkpointResult
  split
  · rfl
  · split
    · rfl
    · next h1 h2 =>
      exfalso
      simp only [bne_iff_ne, ne_eq, Decidable.not_not, Bool.or_eq_true, not_or] at h1 h2
      obtain ⟨⟨a, b⟩, c⟩ := h2
      rcases hf with hf | hf | hf | hf
      · exact hf h1
      · exact hf a
      · exact hf b
      · exact hf c

-- --------------------------------------------- machine + reactor writers, all histories

/-- what a reactor-level event must satisfy in the state it is applied to -/
def Admissible (s : State) : REvent → Prop
  | .machine _ => True
  | .install _ _ leo hw _ => RecoveryNoRegress s leo hw
  | .ckptResult _ _ v _ => v ≤ s.hw

def AdmissibleRun (s : State) : List REvent → Prop
  | [] => True
  | ev :: rest => Admissible s ev ∧ AdmissibleRun (rstep s ev).1 rest

theorem c06_rinv_step {s : State} (h : Inv s) (ev : REvent) (ha : Admissible s ev) :
    Inv (rstep s ev).1 ∧ s.hw ≤ (rstep s ev).1.hw ∧ fenceLe s (rstep s ev).1 := by
  cases ev with
  | machine e => exact ⟨(step_ok h e).inv, (step_ok h e).hw_mono, (step_ok h e).fence⟩
  | install f a l hw e => exact c06_install_inv_partial h f a l hw e ha
  | ckptResult f w v e =>
    obtain ⟨i1, i2, _, i4⟩ := c06_checkpoint_result_inv_partial h f w v e ha
    exact ⟨i1, by rw [show (rstep s (.ckptResult f w v e)).1.hw = s.hw from i2]; exact Nat.le_refl _, i4⟩

/-- Over every history of machine events, install results and checkpoint results in which
    each install / checkpoint value is admissible where it is applied: the invariant holds,
    HW never decreases, the fence never regresses. -/
theorem c06_rinv_run {s : State} (h : Inv s) (evs : List REvent) (ha : AdmissibleRun s evs) :
    Inv (rrun s evs).1 ∧ s.hw ≤ (rrun s evs).1.hw := by
  induction evs generalizing s with
  | nil => exact ⟨h, Nat.le_refl _⟩
  | cons ev rest ih =>
    obtain ⟨a1, a2⟩ := ha
    obtain ⟨i1, i2, _⟩ := c06_rinv_step h ev a1
    obtain ⟨j1, j2⟩ := ih i1 a2
    exact ⟨j1, Nat.le_trans i2 j2⟩

-- ------------------------------------------------------------ the hypotheses are needed

/-- a loaded leader with LEO = HW = CheckpointHW = 5 -/
def loadedLeader (ck : Nat) : State :=
  (run (initState 1 5 5 ck) [.setMeta ⟨1, 1, 1, 1, 1, [1, 2, 3], [1, 2, 3], 2, 2⟩]).1

theorem loadedLeader_inv (ck : Nat) (h : ck ≤ 5) : Inv (loadedLeader ck) :=
  c06_inv_run (c06_inv_init 1 5 5 ck h (by decide)) _

/-- WITHOUT RecoveryNoRegress: an accepted install result (3,3) on a leader whose
    CheckpointHW is 5 leaves CheckpointHW = 5 > HW = 3, and HW has decreased inside the fence. -/
theorem c06_install_below_checkpoint_breaks_invariant :
    Inv (loadedLeader 5) ∧
    ¬ ((installResult (loadedLeader 5) ⟨1, 7, 1, 1, 99⟩ 1 3 3 .ok).1.ckpt ≤
       (installResult (loadedLeader 5) ⟨1, 7, 1, 1, 99⟩ 1 3 3 .ok).1.hw) ∧
    (installResult (loadedLeader 5) ⟨1, 7, 1, 1, 99⟩ 1 3 3 .ok).1.hw < (loadedLeader 5).hw ∧
    (installResult (loadedLeader 5) ⟨1, 7, 1, 1, 99⟩ 1 3 3 .ok).1.epoch = (loadedLeader 5).epoch := by
  refine ⟨loadedLeader_inv 5 (by decide), ?_, ?_, ?_⟩ <;> decide

/-- WITHOUT `v ≤ hw`: a checkpoint submitted with the then-current HW = 5 that completes
    after an install lowered HW to 3 (same fence) raises CheckpointHW to 5 > HW = 3. -/
theorem c06_checkpoint_after_install_breaks_invariant :
    let s1 := (installResult (loadedLeader 0) ⟨1, 7, 1, 1, 99⟩ 1 5 3 .ok).1
    let s2 := (checkpointResult s1 ⟨1, 7, 1, 1, 77⟩ true 5 .ok).1
    s1.ckpt ≤ s1.hw ∧ s1.hw ≤ s1.leo ∧ ¬ (s2.ckpt ≤ s2.hw) := by
  decide

-- non-vacuity of the positive theorems: an admissible history with an install that moves
-- the frontier forward and a checkpoint of the new HW
example : AdmissibleRun (loadedLeader 2)
    [.install ⟨1, 7, 1, 1, 99⟩ 1 7 6 .ok, .ckptResult ⟨1, 7, 1, 1, 77⟩ true 6 .ok,
     .machine (.ack 1 1 1 2 7)] := by
  refine ⟨⟨by decide, by decide⟩, (by show (6 : Nat) ≤ _; decide), trivial, trivial⟩

example : (rrun (loadedLeader 2)
    [.install ⟨1, 7, 1, 1, 99⟩ 1 7 6 .ok, .ckptResult ⟨1, 7, 1, 1, 77⟩ true 6 .ok,
     .machine (.ack 1 1 1 2 7)]).1.ckpt = 6 ∧
  (rrun (loadedLeader 2)
    [.install ⟨1, 7, 1, 1, 99⟩ 1 7 6 .ok, .ckptResult ⟨1, 7, 1, 1, 77⟩ true 6 .ok,
     .machine (.ack 1 1 1 2 7)]).1.hw = 7 := by decide

example : (installResult (loadedLeader 2) ⟨1, 7, 1, 0, 99⟩ 1 9 9 .ok).1 = loadedLeader 2 :=
  c06_install_stale_noop _ _ _ _ _ _ (Or.inr (Or.inr (Or.inr (Or.inl (by decide)))))

example : checkpointResult (loadedLeader 2) ⟨1, 6, 1, 1, 77⟩ true 5 .ok = (loadedLeader 2, {}) :=
  c06_checkpoint_stale_noop _ _ _ _ _ (Or.inr (Or.inl (by decide)))

end WK.C06

import WK.Model.C27
/-
  C27 — helper lemmas about the uvarint model (encoding/binary LEB128).
-/
namespace WK.C27

theorem putUvarint_lt (x : Nat) (h : x < 128) : putUvarint x = [UInt8.ofNat x] := by
  rw [putUvarint]; simp [h]

theorem putUvarint_ge (x : Nat) (h : ¬ x < 128) :
    putUvarint x = UInt8.ofNat (x % 128 + 128) :: putUvarint (x / 128) := by
  rw [putUvarint]; simp [h]

/-- generalised round trip: `i` bytes already consumed -/
theorem uvarintAux_put (x : Nat) : ∀ (i acc : Nat) (rest : Bytes), i ≤ 9 → x < 2 ^ (64 - 7 * i) →
    uvarintAux (putUvarint x ++ rest) i acc = some (acc + x * 2 ^ (7 * i), i + (putUvarint x).length) := by
  induction x using Nat.strongRecOn with
  | _ x ih =>
    intro i acc rest hi hx
    by_cases h : x < 128
    · rw [putUvarint_lt x h]
      have hb : (UInt8.ofNat x).toNat = x := by simp; omega
      have hi10 : i ≠ 10 := by omega
      have h9 : ¬ (i = 9 ∧ x > 1) := by
        intro ⟨h9, hgt⟩; subst h9; simp at hx; omega
      simp [uvarintAux, hb, h, hi10, h9]
    · rw [putUvarint_ge x h]
      have hb : (UInt8.ofNat (x % 128 + 128)).toNat = x % 128 + 128 := by simp; omega
      have hi10 : i ≠ 10 := by omega
      have hi8 : i ≤ 8 := by
        rcases Nat.lt_or_ge i 9 with h' | h'
        · omega
        · have : i = 9 := by omega
          subst this; simp at hx; omega
      have hx' : x / 128 < 2 ^ (64 - 7 * (i + 1)) := by
        have : 2 ^ (64 - 7 * i) = 128 * 2 ^ (64 - 7 * (i + 1)) := by
          have : 64 - 7 * i = (64 - 7 * (i + 1)) + 7 := by omega
          rw [this, Nat.pow_add]; omega
        rw [this] at hx
        exact Nat.div_lt_of_lt_mul hx
      have := ih (x / 128) (Nat.div_lt_self (by omega) (by omega)) (i + 1) (acc + (x % 128 + 128) % 128 * 2 ^ (7 * i)) rest (by omega) hx'
      simp only [List.cons_append, uvarintAux, hb, hi10, if_false]
      have hnl : ¬ (x % 128 + 128 < 128) := by omega
      simp only [hnl, if_false]
      rw [this]
      have e1 : (x % 128 + 128) % 128 = x % 128 := by omega
      have e2 : 2 ^ (7 * (i + 1)) = 128 * 2 ^ (7 * i) := by
        have : 7 * (i + 1) = 7 * i + 7 := by omega
        rw [this, Nat.pow_add]; omega
      simp only [List.length_cons, e1, e2]
      congr 1
      have hx2 : x = 128 * (x / 128) + x % 128 := (Nat.div_add_mod x 128).symm
      refine Prod.ext ?_ (by simp; omega)
      simp only
      generalize 2 ^ (7 * i) = p
      generalize hq : x / 128 = q at *
      generalize hr : x % 128 = r at *
      subst hx2
      have e3 : q * (128 * p) = 128 * q * p := by rw [Nat.mul_comm 128 q, Nat.mul_assoc]
      rw [Nat.add_mul, e3]
      omega

/-- a buffer of continuation bytes only never yields a value -/
theorem uvarintAux_cont (l : Bytes) (h : ∀ b ∈ l, 128 ≤ b.toNat) : ∀ i acc, uvarintAux l i acc = none := by
  induction l with
  | nil => intro i acc; rfl
  | cons b rest ih =>
    intro i acc
    have hb : ¬ b.toNat < 128 := by have := h b (by simp); omega
    simp only [uvarintAux, hb, if_false]
    split
    · rfl
    · exact ih (fun c hc => h c (by simp [hc])) _ _

/-- every byte of a strict prefix of an encoding is a continuation byte -/
theorem putUvarint_take_cont (x : Nat) : ∀ k, k < (putUvarint x).length →
    ∀ b ∈ (putUvarint x).take k, 128 ≤ b.toNat := by
  induction x using Nat.strongRecOn with
  | _ x ih =>
    intro k hk b hb
    by_cases h : x < 128
    · rw [putUvarint_lt x h] at hk hb
      have : k = 0 := by simpa using hk
      subst this; simp at hb
    · rw [putUvarint_ge x h] at hk hb
      cases k with
      | zero => simp at hb
      | succ k =>
        simp only [List.take_succ_cons, List.mem_cons] at hb
        rcases hb with hb | hb
        · subst hb
          have : (UInt8.ofNat (x % 128 + 128)).toNat = x % 128 + 128 := by simp; omega
          omega
        · exact ih (x / 128) (Nat.div_lt_self (by omega) (by omega)) k (by simpa using hk) b hb

/-- size accounting of the decoder loop -/
theorem uvarintAux_size (l : Bytes) : ∀ i acc v n, i ≤ 10 → uvarintAux l i acc = some (v, n) → i < n ∧ n ≤ i + l.length ∧ n ≤ 10 := by
  induction l with
  | nil => intro i acc v n _ h; simp [uvarintAux] at h
  | cons b rest ih =>
    intro i acc v n hi10 h
    simp only [uvarintAux] at h
    split at h
    · cases h
    · rename_i hi
      split at h
      · split at h
        · cases h
        · simp only [Option.some.injEq, Prod.mk.injEq] at h
          obtain ⟨_, rfl⟩ := h
          simp only [List.length_cons]
          omega
      · have := ih _ _ _ _ (by omega) h
        simp only [List.length_cons]
        omega

end WK.C27

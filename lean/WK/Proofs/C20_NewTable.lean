import WK.Theorems.C20
/-
  C20 — NewHashSlotTable(h, p ≥ 1) is balanced: every slot owns ⌊h/n⌋ or ⌈h/n⌉ hash slots.
-/
namespace WK.C20

theorem count_layout (c : Nat → Nat) (p s : Nat) :
    ((List.range p).flatMap (fun i => List.replicate (c i) (i + 1))).count s
      = if 1 ≤ s ∧ s ≤ p then c (s - 1) else 0 := by
  induction p with
  | zero => simp; omega
  | succ p ih =>
    rw [List.range_succ, List.flatMap_append, List.count_append, ih]
    simp only [List.flatMap_cons, List.flatMap_nil, List.append_nil, List.count_replicate]
    by_cases h1 : s = p + 1
    · subst h1
      have : ¬ (1 ≤ p + 1 ∧ p + 1 ≤ p) := by omega
      simp [this]
      intro hh; omega
    · have hne : ¬ ((p + 1 == s) = true) := by simpa using (fun e => h1 e.symm)
      simp only [hne, ↓reduceIte, Nat.add_zero]
      by_cases h2 : 1 ≤ s ∧ s ≤ p
      · have : 1 ≤ s ∧ s ≤ p + 1 := by omega
        simp [h2, this]
      · have : ¬ (1 ≤ s ∧ s ≤ p + 1) := by omega
        simp [h2, this]

theorem newAsg_eq (h p : Nat) (hp : 0 < p) :
    newAsg h p = (List.range p).flatMap (fun i => List.replicate (h / p + (if i < h % p then 1 else 0)) (i + 1)) := by
  have hlen : ((List.range p).flatMap
      (fun i => List.replicate (h / p + (if i < h % p then 1 else 0)) (i + 1))).length = h := by
    rw [List.length_flatMap, sum_layout]
    have h1 := Nat.mod_lt h hp
    have h2 := Nat.div_add_mod h p
    generalize h % p = r at h1 h2 ⊢
    generalize p * (h / p) = q at h2 ⊢
    omega
  unfold newAsg
  simp only []
  rw [List.take_of_length_le (by omega), hlen]
  simp

/-- NewHashSlotTable(h, p) with p ≥ 1 is balanced (the judge's `balanced`): with n = number of slots that
    own anything (p when h ≥ p, else h) every such slot owns ⌊h/n⌋ or ⌈h/n⌉ hash slots -/
theorem c20_new_table_balanced (h : Nat) (p : Int) (hp : 1 ≤ p) : balanced (newTable h p).asg = true := by
  unfold newTable
  by_cases h0 : h = 0
  · subst h0; simp [balanced, levelTable, specActive, distinct]
  have hnc : ¬ (h = 0 ∨ p ≤ 0) := by omega
  simp only [hnc, ↓reduceIte]
  have hq : 0 < p.toNat := by omega
  generalize p.toNat = q at hq
  have hcount : ∀ s, (newAsg h q).count s
      = if 1 ≤ s ∧ s ≤ q then h / q + (if s - 1 < h % q then 1 else 0) else 0 := by
    intro s; rw [newAsg_eq h q hq, count_layout]
  have hlen : (newAsg h q).length = h := (newAsg_spec h q hq).1
  have hmemA : ∀ s, s ∈ specActive (newAsg h q) ↔ 0 < (newAsg h q).count s := by
    intro s
    simp only [specActive, mem_distinct, List.mem_filter, List.count_pos_iff]
    constructor
    · exact fun h => h.1
    · intro hm
      refine ⟨hm, ?_⟩
      have := (newAsg_spec h q hq).2 s hm
      simpa using this
  simp only [balanced, levelTable, List.all_eq_true, hlen]
  have hdm := Nat.div_add_mod h q
  have hml := Nat.mod_lt h hq
  by_cases hle : q ≤ h
  · -- every one of the q slots owns something
    have hbase : 1 ≤ h / q := (Nat.le_div_iff_mul_le hq).mpr (by omega)
    have hn : (specActive (newAsg h q)).length = q := by
      rw [length_eq_of_same_members (nodup_specActive _) (List.nodup_range' (s := 1) (n := q) 1 (by omega))
        (fun s => by
          rw [hmemA, hcount, List.mem_range'_1]
          constructor
          · intro hpos
            by_cases hs : 1 ≤ s ∧ s ≤ q
            · have h2 := hs.2
              exact ⟨hs.1, by clear hdm hml hcount hmemA hpos; omega⟩
            · rw [if_neg hs] at hpos; exact absurd hpos (Nat.lt_irrefl 0)
          · intro hm
            have h2 := hm.2
            have hs : 1 ≤ s ∧ s ≤ q := ⟨hm.1, by clear hdm hml hcount hmemA; omega⟩
            rw [if_pos hs]
            exact Nat.lt_of_lt_of_le hbase (Nat.le_add_right _ _)), List.length_range']
    intro s hs
    rw [hn, level_iff _ _ _ hq]
    have hpos := (hmemA s).mp hs
    rw [hcount] at hpos ⊢
    by_cases hsr : 1 ≤ s ∧ s ≤ q
    · simp only [hsr, and_self, ↓reduceIte] at hpos ⊢
      by_cases hr : s - 1 < h % q
      · have : 0 < h % q := by omega
        simp [hr, this]
      · simp [hr]
    · simp only [hsr, ↓reduceIte] at hpos; omega
  · -- fewer hash slots than slots: the first h slots own one each
    have hlt : h < q := by omega
    have hb0 : h / q = 0 := Nat.div_eq_of_lt hlt
    have hr0 : h % q = h := Nat.mod_eq_of_lt hlt
    have hh : 0 < h := by omega
    have hn : (specActive (newAsg h q)).length = h := by
      rw [length_eq_of_same_members (nodup_specActive _) (List.nodup_range' (s := 1) (n := h) 1 (by omega))
        (fun s => by
          rw [hmemA, hcount, hb0, hr0, List.mem_range'_1]
          constructor
          · intro hpos
            by_cases hs : 1 ≤ s ∧ s ≤ q
            · rw [if_pos hs] at hpos
              by_cases hr : s - 1 < h
              · have h1 := hs.1
                exact ⟨hs.1, by clear hdm hml hcount hmemA hpos hb0 hr0; omega⟩
              · rw [if_neg hr] at hpos; exact absurd hpos (Nat.lt_irrefl 0)
            · rw [if_neg hs] at hpos; exact absurd hpos (Nat.lt_irrefl 0)
          · intro hm
            have h1 := hm.1
            have h2 := hm.2
            have hs : 1 ≤ s ∧ s ≤ q := ⟨hm.1, by clear hdm hml hcount hmemA hb0 hr0; omega⟩
            have hr : s - 1 < h := by clear hdm hml hcount hmemA hb0 hr0; omega
            rw [if_pos hs, if_pos hr]
            exact Nat.lt_succ_self 0), List.length_range']
    intro s hs
    rw [hn, level_iff _ _ _ hh]
    have hpos := (hmemA s).mp hs
    rw [hcount, hb0, hr0] at hpos ⊢
    have e1 : h / h = 1 := Nat.div_self hh
    have e2 : h % h = 0 := Nat.mod_self h
    rw [e1, e2]
    by_cases hsr : 1 ≤ s ∧ s ≤ q
    · simp only [hsr, and_self, ↓reduceIte] at hpos ⊢
      by_cases hr : s - 1 < h
      · simp [hr]
      · simp [hr] at hpos
    · simp only [hsr, ↓reduceIte] at hpos; omega

example : balanced (newTable 7 3).asg = true ∧ (newTable 7 3).asg = [1, 1, 1, 2, 2, 3, 3] := by decide
example : balanced (newTable 2 5).asg = true := by decide

end WK.C20

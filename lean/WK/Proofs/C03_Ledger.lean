import WK.Proofs.Repl_Sync
import WK.Proofs.Repl_Store
import WK.Proofs.Repl_Owner
/-
  History-level C03: every receipt an owner hands out is backed by one stored proposal of its
  local log; proposals are never removed while no install runs; hence ranges of different
  commands are disjoint and a command always gets the same range.
-/
namespace WK.Repl

/-! ### append-only stores -/

def AppendOnly (a b : Store) : Prop := ∀ p ∈ a.props, p ∈ b.props

theorem appendExact_appendOnly (s : Store) (m : Manifest) (cs : List Nat) : AppendOnly s (s.appendExact m cs).1 := by
  unfold Store.appendExact
  cases s.appendDecision m cs with
  | append es => intro p hp; exact List.mem_cons_of_mem _ hp
  | _ => intro p hp; exact hp

theorem sync_appendOnly (s : Store) (m : Manifest) (cs : List Nat) (c : Nat) : AppendOnly s (s.sync m cs c).1 := by
  unfold Store.sync
  split
  · intro p hp; exact hp
  · have := appendExact_appendOnly s m cs
    generalize s.appendExact m cs = r at this
    obtain ⟨s', out⟩ := r
    simp only at this ⊢
    split <;> exact this

theorem appendOnly_relS : StoreRelS AppendOnly :=
  ⟨fun _ _ h => h, fun _ _ _ h1 h2 p hp => h2 p (h1 p hp), sync_appendOnly⟩

/-! ### a durable write leaves the proposal in the log -/

theorem isExactReplay_mem {s : Store} {m : Manifest} {es : List Ident} (h : s.isExactReplay m es = true) :
    ∃ pr ∈ s.props, pr.m = m := by
  unfold Store.isExactReplay at h
  split at h
  · rename_i pc pl hc hl
    simp only [Bool.and_eq_true, decide_eq_true_eq] at h
    exact ⟨pc, List.mem_of_find?_eq_some hc, h.1.1.1⟩
  · cases h

theorem appendDecision_already_mem {s : Store} {m : Manifest} {cs : List Nat}
    (h : s.appendDecision m cs = .already) : ∃ pr ∈ s.props, pr.m = m := by
  unfold Store.appendDecision at h
  split at h
  · cases h
  · split at h
    · cases h
    · repeat' (split at h)
      all_goals first | (cases h; done) | skip
      all_goals (rename_i hr; exact isExactReplay_mem hr)

theorem sync_durable_mem (s : Store) (m : Manifest) (cs : List Nat) (c : Nat)
    (h : (s.sync m cs c).2.isDurable = true) : ∃ pr ∈ (s.sync m cs c).1.props, pr.m = m := by
  unfold Store.sync at h ⊢
  split
  · rename_i hv; simp [hv, SOut.isDurable] at h
  · rename_i hv
    simp only [hv, Bool.false_eq_true, if_false] at h
    have key : (s.appendExact m cs).2.isDurable = true → ∃ pr ∈ (s.appendExact m cs).1.props, pr.m = m := by
      intro hd
      unfold Store.appendExact at hd ⊢
      cases hdec : s.appendDecision m cs with
      | notWritten => simp [hdec, SOut.isDurable] at hd
      | conflict nf => simp [hdec, SOut.isDurable] at hd
      | already => simp only; exact appendDecision_already_mem hdec
      | append es => simp only; exact ⟨_, List.mem_cons_self, rfl⟩
    generalize s.appendExact m cs = r at key h
    obtain ⟨s', out⟩ := r
    simp only at key h ⊢
    split
    · exact key (by split at h <;> exact h)
    · exact key (by split at h <;> exact h)

theorem voteOn_durable_mem (s : Store) (ack : Ack) (l : Bool) (p : Proposal)
    (h : (voteOn s ack l p).2 = .durable) : ∃ pr ∈ (voteOn s ack l p).1.props, pr.m = p.m := by
  unfold voteOn at h ⊢
  cases ack with
  | X => simp only at h; split at h <;> cases h
  | L => simp only at h; cases h
  | D =>
    simp only at h ⊢
    have hs := sync_durable_mem s p.m p.contents p.committed
    generalize s.sync p.m p.contents p.committed = r at hs h
    obtain ⟨s', out⟩ := r
    cases out with
    | durable => exact hs rfl
    | already => exact hs rfl
    | notWritten => simp at h
    | conflict nf => simp only at h; split at h <;> cases h

/-! ### the round: success means the leader's own log holds the proposal -/

theorem countVotes_local (q : Nat) : ∀ (comps : List (Bool × Comp)) (acc : RoundAcc),
    (countVotes q acc comps).1 = true → acc.localDurable = true ∨ (true, Comp.durable) ∈ comps := by
  intro comps
  induction comps with
  | nil => intro acc h; simp [countVotes] at h
  | cons c cs ih =>
    intro acc h
    obtain ⟨l, c⟩ := c
    cases c with
    | durable =>
      simp only [countVotes] at h
      split at h
      · rename_i hq
        cases hl : acc.localDurable
        · right; simp [hl] at hq; simp [hq.1]
        · left; rfl
      · rcases ih _ h with h1 | h1
        · cases hl : acc.localDurable
          · right; simp [hl] at h1; simp [h1]
          · left; rfl
        · right; exact List.mem_cons_of_mem _ h1
    | notWritten =>
      simp only [countVotes] at h
      split at h
      · rename_i hq; exact Or.inl hq.1
      · exact (ih _ h).imp id (List.mem_cons_of_mem _)
    | conflict =>
      simp only [countVotes] at h
      split at h
      · rename_i hq; exact Or.inl hq.1
      · exact (ih _ h).imp id (List.mem_cons_of_mem _)
    | unknown =>
      simp only [countVotes] at h
      split at h
      · rename_i hq; exact Or.inl hq.1
      · exact (ih _ h).imp id (List.mem_cons_of_mem _)

/-- votes of voters other than `i` leave store `i` alone and carry the flag `false` -/
theorem applyVotes_others (ln : Nat) (acks : List Ack) (p : Proposal) : ∀ (vs : List Nat) (s : Sys),
    ln ∉ vs → (applyVotes s ln acks p vs).1.storeOf ln = s.storeOf ln ∧
      ∀ c ∈ (applyVotes s ln acks p vs).2, c.1 = false := by
  intro vs
  induction vs with
  | nil => intro s _; exact ⟨rfl, fun c hc => by cases hc⟩
  | cons v vs ih =>
    intro s hn
    have hv : v ≠ ln := fun e => hn (by rw [e]; exact List.mem_cons_self)
    have hvs : ln ∉ vs := fun h => hn (List.mem_cons_of_mem _ h)
    simp only [applyVotes]
    have := ih (s.setStore v (voteOn (s.storeOf v) (ackOf s acks v) (v == ln) p).1) hvs
    refine ⟨?_, ?_⟩
    · rw [this.1, storeOf_setStore]
      have : ¬ (ln = v ∧ (s.node? v).isSome) := fun h => hv h.1.symm
      simp [this]
    · intro c hc
      simp only [List.mem_cons] at hc
      rcases hc with rfl | hc
      · simp [hv]
      · exact this.2 c hc

theorem roundOrder_tail (n ln : Nat) : ∃ fs, roundOrder n ln = ln :: fs ∧ ln ∉ fs := by
  unfold roundOrder
  refine ⟨_, rfl, ?_⟩
  intro h
  have hmem : ∀ x, x ∈ (List.filter (fun x => decide (x ≠ ln)) (votersUpTo n)) → x ≠ ln := by
    intro x hx; simpa using (List.mem_filter.mp hx).2
  rw [List.mem_append] at h
  rcases h with h | h
  · exact hmem ln (List.mem_of_mem_drop h) rfl
  · exact hmem ln (List.mem_of_mem_take h) rfl

theorem runRound_ok_mem (s : Sys) (i q : Nat) (acks : List Ack) (p : Proposal) (hi : (s.node? i).isSome)
    (h : (runRound s i q acks p).2.1 = true) : ∃ pr ∈ ((runRound s i q acks p).1.storeOf i).props, pr.m = p.m := by
  unfold runRound at h ⊢
  obtain ⟨fs, hro, hfs⟩ := roundOrder_tail s.n i
  rw [hro] at h ⊢
  simp only [applyVotes] at h ⊢
  have hv := voteOn_durable_mem (s.storeOf i) (ackOf s acks i) (i == i) p
  generalize hvo : voteOn (s.storeOf i) (ackOf s acks i) (i == i) p = vo at hv h ⊢
  obtain ⟨st1, c1⟩ := vo
  have ho := applyVotes_others i acks p fs (s.setStore i st1) hfs
  generalize applyVotes (s.setStore i st1) i acks p fs = ar at ho h ⊢
  obtain ⟨s', cs⟩ := ar
  simp only at h ho ⊢
  rcases countVotes_local q _ {} h with h0 | h0
  · simp at h0
  · simp only [List.mem_cons] at h0
    rcases h0 with h0 | h0
    · simp only [beq_self_eq_true, Prod.mk.injEq, true_and] at h0
      rw [ho.1, storeOf_setStore]
      simp only [hi, and_self, if_true]
      exact hv h0.symm
    · have := ho.2 _ h0; simp at this

end WK.Repl

namespace WK.Repl

/-! ### the owner's ledger is backed by its local log -/

/-- a receipt is backed by one stored proposal of `st`: same command, exactly that range -/
def Backed (st : Store) (rc : Receipt) : Prop :=
  ∃ p ∈ st.props, p.m.cmd = rc.cmd ∧ p.m.base + 1 = rc.first ∧ p.m.last = rc.last

theorem Backed.mono {a b : Store} (h : AppendOnly a b) {rc : Receipt} (hb : Backed a rc) : Backed b rc := by
  obtain ⟨p, hp, h1⟩ := hb; exact ⟨p, h p hp, h1⟩

structure OwnerInv (ch : QChan) (st : Store) : Prop where
  retained : ∀ x ∈ ch.retained, ∃ rc, x.2.receipt = some rc ∧ Backed st rc
  pending : ∀ r, ch.pending = some r → r.first = r.p.m.base + 1 ∧ r.last = r.p.m.last

theorem OwnerInv.mono {ch : QChan} {a b : Store} (h : AppendOnly a b) (hi : OwnerInv ch a) : OwnerInv ch b :=
  ⟨fun x hx => by obtain ⟨rc, h1, h2⟩ := hi.retained x hx; exact ⟨rc, h1, h2.mono h⟩, hi.pending⟩

theorem mem_remember {cap : Nat} {l : List (Cmd × Retained)} {r : Retained} {x : Cmd × Retained}
    (h : x ∈ remember cap l r) : x ∈ l ∨ x = (r.p.m.cmd, r) := by
  unfold remember at h
  dsimp only at h
  split at h
  · rw [List.mem_map] at h
    obtain ⟨y, hy, he⟩ := h
    split at he
    · right; exact he.symm
    · left; rw [← he]; exact hy
  · split at h
    · rw [List.mem_append] at h
      rcases h with h | h
      · left; exact List.mem_of_mem_drop h
      · right; simpa using h
    · rw [List.mem_append] at h
      rcases h with h | h
      · left; exact h
      · right; simpa using h

/-- `finishCommit` on a proposal the local log holds keeps the invariant and its receipt is backed -/
theorem finishCommit_inv (cap : Nat) (ch : QChan) (r : Retained) (st : Store) (hi : OwnerInv ch st)
    (hr : r.first = r.p.m.base + 1 ∧ r.last = r.p.m.last) (hm : ∃ pr ∈ st.props, pr.m = r.p.m) :
    OwnerInv (finishCommit cap ch r).1 st ∧ ∀ rc, (finishCommit cap ch r).2 = .receipt rc → Backed st rc := by
  have hb : Backed st ⟨ch.auth.id, r.p.m.cmd, r.first, r.last, r.last⟩ := by
    obtain ⟨pr, hp, he⟩ := hm
    exact ⟨pr, hp, by rw [he], by rw [he]; exact hr.1.symm, by rw [he]; exact hr.2.symm⟩
  unfold finishCommit
  cases hs : sealM r.p.m r.p.contents with
  | none => exact ⟨hi, fun rc h => by cases h⟩
  | some me =>
    obtain ⟨m', es⟩ := me
    simp only
    by_cases he : es.isEmpty = true
    · simp only [he, if_true]; exact ⟨hi, fun rc h => by cases h⟩
    · simp only [he, Bool.false_eq_true, if_false]
      refine ⟨⟨fun x hx => ?_, fun r' h => by cases h⟩, fun rc h => ?_⟩
      · rcases mem_remember hx with h1 | h1
        · exact hi.retained x h1
        · rw [h1]; exact ⟨_, rfl, hb⟩
      · simp only [Res.receipt.injEq] at h; rw [← h]; exact hb

theorem reconcile_inv (cap : Nat) (ch : QChan) (st : Store) (cmd : Cmd) (cs : List Nat) (hi : OwnerInv ch st)
    (hp : ch.pending = none) :
    OwnerInv (reconcile cap ch st cmd cs).1 st ∧ ∀ rc, (reconcile cap ch st cmd cs).2 = .receipt rc → Backed st rc := by
  unfold reconcile
  cases hb : st.byCmd cmd with
  | none => exact ⟨hi, fun rc h => by cases h⟩
  | some p =>
    have hmem : p ∈ st.props := List.mem_of_find?_eq_some hb
    dsimp only
    split
    · exact ⟨hi, fun rc h => by cases h⟩
    · rename_i hg
      simp only [not_or, Decidable.not_not] at hg
      split
      · exact ⟨hi, fun rc h => by cases h⟩
      · split
        · exact ⟨hi, fun rc h => by cases h⟩
        · split
          · exact ⟨hi, fun rc h => by cases h⟩
          · have hb' : Backed st ⟨ch.auth.id, cmd, p.m.base + 1, p.m.last, p.m.last⟩ := ⟨p, hmem, hg.2.1, rfl, rfl⟩
            refine ⟨⟨fun x hx => ?_, fun r h => ?_⟩, fun rc h => ?_⟩
            · rcases mem_remember hx with h1 | h1
              · exact hi.retained x h1
              · rw [h1]; exact ⟨_, rfl, hb'⟩
            · simp only at h; rw [hp] at h; cases h
            · simp only [Res.receipt.injEq] at h; rw [← h]; exact hb'

end WK.Repl

namespace WK.Repl

theorem storeOf_setChan {s : Sys} {i : Nat} {nd : NodeSt} (h : s.node? i = some nd) (c : Option QChan) (v : Nat) :
    (s.setNode i { nd with chan := c }).storeOf v = s.storeOf v := by
  rw [storeOf_setNode h]
  by_cases hv : v = i
  · subst hv; simp [Sys.storeOf, h]
  · simp [hv]

theorem isSome_of_chanOf {s : Sys} {i : Nat} {c : Option QChan} (h : chanOf s i = some c) : (s.node? i).isSome = true := by
  obtain ⟨nd, hn, _⟩ := chanOf_some h; simp [hn]

abbrev StepGoal (s' : Sys) (res : Res) (i : Nat) : Prop :=
  (∃ ch', chanOf s' i = some (some ch') ∧ OwnerInv ch' (s'.storeOf i)) ∧ ∀ rc, res = .receipt rc → Backed (s'.storeOf i) rc

theorem commitRetry_inv (s : Sys) (i : Nat) (ch : QChan) (r : Retained) (acks : List Ack)
    (hch : chanOf s i = some (some ch)) (hi : OwnerInv ch (s.storeOf i))
    (hr : r.first = r.p.m.base + 1 ∧ r.last = r.p.m.last) :
    StepGoal (commitRetry s i ch r acks).1 (commitRetry s i ch r acks).2 i := by
  unfold commitRetry
  have f := runRound_frameS appendOnly_relS s i ch.auth.q acks r.p
  have hm := runRound_ok_mem s i ch.auth.q acks r.p (isSome_of_chanOf hch)
  generalize runRound s i ch.auth.q acks r.p = rr at f hm ⊢
  obtain ⟨s', ok, out⟩ := rr
  simp only at f hm ⊢
  have hch' : chanOf s' i = some (some ch) := by rw [f.1.chanOf]; exact hch
  have hi' : OwnerInv ch (s'.storeOf i) := hi.mono (f.2 i)
  split
  · exact ⟨⟨ch, hch', hi'⟩, fun rc h => by cases h⟩
  · rename_i hok
    obtain ⟨nd', hn', _⟩ := chanOf_some hch'
    simp only [hn']
    have := finishCommit_inv s.cap ch r (s'.storeOf i) hi' hr (hm (by simpa using hok))
    refine ⟨⟨_, chanOf_setChan hn' _, ?_⟩, fun rc h => ?_⟩
    · rw [storeOf_setChan hn']; exact this.1
    · rw [storeOf_setChan hn']; exact this.2 rc h

theorem sealBusiness_shape {ch : QChan} {cmd : Cmd} {cs : List Nat} {r : Retained} (h : sealBusiness ch cmd cs = some r) :
    r.first = r.p.m.base + 1 ∧ r.last = r.p.m.last := by
  unfold sealBusiness at h
  simp only at h
  split at h
  · cases h
  · rename_i m es hs
    split at h
    · cases h
    · cases h
      unfold sealM at hs
      split at hs
      · cases hs
      · cases hs; exact ⟨rfl, rfl⟩

theorem commitFresh_inv (s : Sys) (i : Nat) (nd : NodeSt) (hn : s.node? i = some nd) (ch : QChan) (cmd : Cmd)
    (cs : List Nat) (acks : List Ack) (hc : nd.chan = some ch) (hi : OwnerInv ch (s.storeOf i)) (hp : ch.pending = none) :
    StepGoal (commitFresh s i nd ch cmd cs acks).1 (commitFresh s i nd ch cmd cs acks).2 i := by
  have hch : chanOf s i = some (some ch) := by unfold chanOf; simp [hn, hc]
  unfold commitFresh
  cases hs : sealBusiness ch cmd cs with
  | none => exact ⟨⟨ch, hch, hi⟩, fun rc h => by cases h⟩
  | some r =>
    have hr := sealBusiness_shape hs
    simp only
    have h0 := chanOf_setChan hn (some { ch with pending := some r })
    have hst0 : ∀ v, (s.setNode i { nd with chan := some { ch with pending := some r } }).storeOf v = s.storeOf v :=
      storeOf_setChan hn _
    have hcap0 : (s.setNode i { nd with chan := some { ch with pending := some r } }).cap = s.cap := rfl
    generalize s.setNode i { nd with chan := some { ch with pending := some r } } = s0 at h0 hst0 hcap0 ⊢
    have hiP : OwnerInv { ch with pending := some r } (s0.storeOf i) := by
      rw [hst0]
      exact ⟨hi.retained, fun r' h => by simp only [Option.some.injEq] at h; rw [← h]; exact hr⟩
    have f := runRound_frameS appendOnly_relS s0 i ch.auth.q acks r.p
    have hm := runRound_ok_mem s0 i ch.auth.q acks r.p (isSome_of_chanOf h0)
    generalize runRound s0 i ch.auth.q acks r.p = rr at f hm ⊢
    obtain ⟨s', ok, out⟩ := rr
    simp only at f hm ⊢
    have hch' : chanOf s' i = some (some { ch with pending := some r }) := by rw [f.1.chanOf]; exact h0
    have hi' := hiP.mono (f.2 i)
    obtain ⟨nd', hn', _⟩ := chanOf_some hch'
    simp only [hn']
    have hstore : nd'.store = s'.storeOf i := by simp [Sys.storeOf, hn']
    split
    · split
      · have := reconcile_inv s0.cap { ch with pending := none } nd'.store cmd cs
          (by rw [hstore]; exact ⟨hi'.retained, fun r' h => by cases h⟩) rfl
        refine ⟨⟨_, chanOf_setChan hn' _, ?_⟩, fun rc h => ?_⟩
        · rw [storeOf_setChan hn', ← hstore]; exact this.1
        · rw [storeOf_setChan hn', ← hstore]; exact this.2 rc h
      · exact ⟨⟨_, hch', hi'⟩, fun rc h => by cases h⟩
    · rename_i hok
      have := finishCommit_inv s0.cap { ch with pending := some r } r (s'.storeOf i) hi' hr (hm (by simpa using hok))
      refine ⟨⟨_, chanOf_setChan hn' _, ?_⟩, fun rc h => ?_⟩
      · rw [storeOf_setChan hn']; exact this.1
      · rw [storeOf_setChan hn']; exact this.2 rc h

/-- one `Commit` on owner `i` keeps "the ledger is backed by the local log" and its receipt is backed -/
theorem commit_inv (s : Sys) (i : Nat) (e : AuthId) (c : Nat) (cs : List Nat) (acks : List Ack) (ch : QChan)
    (hch : chanOf s i = some (some ch)) (hi : OwnerInv ch (s.storeOf i)) :
    StepGoal (commit s i e c cs acks).1 (commit s i e c cs acks).2 i := by
  obtain ⟨nd, hn, hc⟩ := chanOf_some hch
  have keep : StepGoal s (.err .invalid) i := ⟨⟨ch, hch, hi⟩, fun rc h => by cases h⟩
  have keepE : ∀ e', StepGoal s (.err e') i := fun e' => ⟨⟨ch, hch, hi⟩, fun rc h => by cases h⟩
  unfold commit
  simp only [hn, hc]
  split
  · exact keepE _
  · split
    · exact keepE _
    · split
      · exact keepE _
      · split
        · exact keepE _
        · unfold commitAdmitted
          split
          · rename_i x r hf
            have hx := List.mem_of_find?_eq_some hf
            obtain ⟨rc, h1, h2⟩ := hi.retained _ hx
            simp only at h1
            split
            · exact keepE _
            · simp only [h1]
              exact ⟨⟨ch, hch, hi⟩, fun rc' h => by simp only [Res.receipt.injEq] at h; rw [← h]; exact h2⟩
          · split
            · rename_i r hp
              split
              · split
                · exact keepE _
                · exact commitRetry_inv s i ch r acks hch hi (hi.pending r hp)
              · exact keepE _
            · rename_i hp
              exact commitFresh_inv s i nd hn ch _ cs acks hc hi hp

end WK.Repl

namespace WK.Repl

/-! ### history level -/

/-- ops allowed inside one owner incarnation of node `i`: no install anywhere (no `Store.replace`),
    no accepted cfg, no crash / restart of `i` -/
def segOp (i : Nat) : Op → Bool
  | .install .. => false
  | .cfg .. => false
  | .crash j => j != i
  | .restart j => j != i
  | _ => true

theorem segOp_noReplace {i : Nat} {op : Op} (h : segOp i op = true) : op.noReplace = true := by
  cases op <;> simp_all [segOp, Op.noReplace]

/-- the receipt a step returns to a commit on node `i`, if any -/
def receiptOf (i : Nat) (op : Op) (res : Res) : Option Receipt :=
  match op, res with
  | .commit j _ _ _ _ _, .receipt rc => if j = i then some rc else none
  | _, _ => none

def receiptsOn (i : Nat) : Sys → List Op → List Receipt
  | _, [] => []
  | s, op :: ops => (receiptOf i op (step s op).2).toList ++ receiptsOn i (step s op).1 ops

def runS (s : Sys) (ops : List Op) : Sys := ops.foldl (fun s o => (step s o).1) s

theorem chanOf_setNode_ne {s : Sys} {j i : Nat} {nd0 : NodeSt} (h : s.node? j = some nd0) (nd : NodeSt) (hij : i ≠ j) :
    chanOf (s.setNode j nd) i = chanOf s i := by
  unfold chanOf; rw [node?_setNode h]; simp [hij]

theorem step_seg (s : Sys) (op : Op) (i : Nat) (ch : QChan) (hseg : segOp i op = true)
    (hch : chanOf s i = some (some ch)) (hi : OwnerInv ch (s.storeOf i)) :
    (∃ ch', chanOf (step s op).1 i = some (some ch') ∧ OwnerInv ch' ((step s op).1.storeOf i)) ∧
    AppendOnly (s.storeOf i) ((step s op).1.storeOf i) ∧
    ∀ rc, receiptOf i op (step s op).2 = some rc → Backed ((step s op).1.storeOf i) rc := by
  have hao : AppendOnly (s.storeOf i) ((step s op).1.storeOf i) :=
    step_stores_sync appendOnly_relS s op (segOp_noReplace hseg) i
  refine ⟨?_, hao, ?_⟩ <;> clear hao
  all_goals obtain ⟨n, q, cap, started, nodes, owners⟩ := s
  all_goals
    have hchT : chanOf ⟨n, q, cap, true, nodes, owners⟩ i = some (some ch) := hch
    have hiT : OwnerInv ch (Sys.storeOf ⟨n, q, cap, true, nodes, owners⟩ i) := hi
    have keepT : ∃ ch', chanOf ⟨n, q, cap, true, nodes, owners⟩ i = some (some ch') ∧
        OwnerInv ch' (Sys.storeOf ⟨n, q, cap, true, nodes, owners⟩ i) := ⟨ch, hchT, hiT⟩
  · cases op with
    | cfg _ _ _ _ => simp [segOp] at hseg
    | install _ _ _ _ => simp [segOp] at hseg
    | crash j =>
      simp only [segOp, bne_iff_ne, ne_eq] at hseg
      simp only [step]
      cases hn : Sys.node? ⟨n, q, cap, true, nodes, owners⟩ j with
      | none => exact keepT
      | some nd =>
        simp only
        split
        · exact keepT
        · refine ⟨ch, ?_, ?_⟩
          · rw [chanOf_setNode_ne hn _ (fun e => hseg e.symm)]; exact hchT
          · rw [storeOf_setNode hn, if_neg (fun e : i = j => hseg e.symm)]; exact hiT
    | restart j =>
      simp only [segOp, bne_iff_ne, ne_eq] at hseg
      simp only [step]
      cases hn : Sys.node? ⟨n, q, cap, true, nodes, owners⟩ j with
      | none => exact keepT
      | some nd =>
        simp only
        split
        · exact keepT
        · refine ⟨ch, ?_, ?_⟩
          · rw [chanOf_setNode_ne hn _ (fun e => hseg e.symm)]; exact hchT
          · rw [storeOf_setNode hn, if_neg (fun e : i = j => hseg e.symm)]; exact hiT
    | repair l f nf =>
      simp only [step]
      split
      · split
        · exact keepT
        · have fr := repairFollower_frameS appendOnly_relS ⟨n, q, cap, true, nodes, owners⟩ l f nf
          exact ⟨ch, by rw [fr.1.chanOf]; exact hchT, hiT.mono (fr.2 i)⟩
      · exact keepT
    | commit j e c k p acks =>
      simp only [step]
      cases hn : Sys.node? ⟨n, q, cap, true, nodes, owners⟩ j with
      | none => exact keepT
      | some nd =>
        simp only
        split
        · exact keepT
        · split
          · exact keepT
          · by_cases hij : j = i
            · subst hij
              exact (commit_inv ⟨n, q, cap, true, nodes, owners⟩ j e c _ acks ch hchT hiT).1
            · have fr := commit_frameS appendOnly_relS ⟨n, q, cap, true, nodes, owners⟩ j e c (contentsOf k p) acks
              exact ⟨ch, by unfold chanOf; rw [fr.1.2.2.2 i (fun e => hij e.symm)]; exact hchT, hiT.mono (fr.2 i)⟩
  · intro rc hrc
    cases op with
    | commit j e c k p acks =>
      simp only [step] at hrc ⊢
      cases hn : Sys.node? ⟨n, q, cap, true, nodes, owners⟩ j with
      | none => simp [hn, receiptOf] at hrc
      | some nd =>
        simp only [hn] at hrc ⊢
        split
        · rename_i h1; simp [h1, receiptOf] at hrc
        · rename_i h1
          simp only [h1, if_false] at hrc
          split
          · rename_i h2; simp [h2, receiptOf] at hrc
          · rename_i h2
            simp only [h2, if_false] at hrc
            unfold receiptOf at hrc
            split at hrc
            · rename_i j' _ _ _ _ _ rc' hop hres
              cases hop
              split at hrc
              · rename_i hji
                subst hji
                cases hrc
                exact (commit_inv ⟨n, q, cap, true, nodes, owners⟩ j e c _ acks ch hchT hiT).2 rc hres
              · cases hrc
            · cases hrc
    | cfg _ _ _ _ => simp [receiptOf] at hrc
    | install _ _ _ _ => simp [receiptOf] at hrc
    | crash _ => simp [receiptOf] at hrc
    | restart _ => simp [receiptOf] at hrc
    | repair _ _ _ => simp [receiptOf] at hrc

end WK.Repl

namespace WK.Repl

theorem run_seg (i : Nat) : ∀ (ops : List Op) (s : Sys) (ch : QChan), (∀ op ∈ ops, segOp i op = true) →
    chanOf s i = some (some ch) → OwnerInv ch (s.storeOf i) →
    AppendOnly (s.storeOf i) ((runS s ops).storeOf i) ∧
    ∀ rc ∈ receiptsOn i s ops, Backed ((runS s ops).storeOf i) rc := by
  intro ops
  induction ops with
  | nil => intro s ch _ _ _; exact ⟨fun p hp => hp, fun rc h => by cases h⟩
  | cons op ops ih =>
    intro s ch hseg hch hi
    obtain ⟨⟨ch', hch', hi'⟩, hao, hrc⟩ := step_seg s op i ch (hseg op List.mem_cons_self) hch hi
    obtain ⟨hao2, hrest⟩ := ih (step s op).1 ch' (fun o ho => hseg o (List.mem_cons_of_mem _ ho)) hch' hi'
    refine ⟨fun p hp => hao2 p (hao p hp), fun rc h => ?_⟩
    simp only [receiptsOn, List.mem_append, Option.mem_toList] at h
    rcases h with h | h
    · exact (hrc rc h).mono hao2
    · exact hrest rc h

/-! ### ranges of one log -/

theorem chain_disjoint {l : List PRec} (h : ChainP l) : ∀ p ∈ l, ∀ q ∈ l, p ≠ q →
    p.m.last ≤ q.m.base ∨ q.m.last ≤ p.m.base := by
  induction l with
  | nil => intro p hp; cases hp
  | cons x rest ih =>
    intro p hp q hq hne
    rcases List.mem_cons.mp hp with rfl | hp' <;> rcases List.mem_cons.mp hq with rfl | hq'
    · exact absurd rfl hne
    · right; exact h.older_le q hq'
    · left; exact h.older_le p hp'
    · exact ih h.tail p hp' q hq' hne

/-- no two stored proposals share a command (and the store is not of the `fresh` kind, where
    that is false: see c03_unkeyed_counterexample) -/
def CmdUniq (s : Store) : Prop := s.fresh = false ∧ s.props.Pairwise (fun p q => p.m.cmd ≠ q.m.cmd)

theorem appendDecision_append_fresh {s : Store} {m : Manifest} {cs : List Nat} {es : List Ident}
    (hf : s.fresh = false) (h : s.appendDecision m cs = .append es) : s.byCmd m.cmd = none := by
  cases hb : s.byCmd m.cmd with
  | none => rfl
  | some pc =>
    exfalso
    unfold Store.appendDecision at h
    simp only [hf, Bool.false_eq_true, false_and, if_false, hb, Option.isSome_some, true_or, if_true] at h
    repeat' (split at h)
    all_goals cases h

theorem appendExact_cmdUniq (s : Store) (m : Manifest) (cs : List Nat) (h : CmdUniq s) : CmdUniq (s.appendExact m cs).1 := by
  unfold Store.appendExact
  cases hd : s.appendDecision m cs with
  | append es =>
    have hf := appendDecision_append_fresh h.1 hd
    unfold CmdUniq
    simp only [List.pairwise_cons]
    refine ⟨h.1, fun q hq he => ?_, h.2⟩
    unfold Store.byCmd at hf
    have := List.find?_eq_none.mp hf q hq
    simp only [decide_eq_true_eq] at this
    exact this he.symm
  | _ => exact h

theorem sync_cmdUniq (s : Store) (m : Manifest) (cs : List Nat) (c : Nat) (h : CmdUniq s) : CmdUniq (s.sync m cs c).1 := by
  unfold Store.sync
  split
  · exact h
  · have := appendExact_cmdUniq s m cs h
    generalize s.appendExact m cs = r at this
    obtain ⟨s', out⟩ := r
    simp only at this ⊢
    split <;> exact this

theorem appendAll_cmdUniq (ps : List PRec) : ∀ (s next : Store), CmdUniq s → appendAll s ps = some next → CmdUniq next := by
  induction ps with
  | nil => intro s next h e; change some s = some next at e; cases e; exact h
  | cons p ps ih =>
    intro s next h e
    simp only [appendAll] at e
    have hc := appendExact_cmdUniq s p.m p.contents h
    generalize s.appendExact p.m p.contents = r at hc e
    obtain ⟨s', out⟩ := r
    cases out with
    | durable => exact ih s' next hc e
    | already => exact ih s' next hc e
    | notWritten => cases e
    | conflict nf => cases e

theorem replace_cmdUniq (s : Store) (e : RState) (k : Nat) (ps : List PRec) (c : Nat) (s' : Store)
    (hu : CmdUniq s) (h : s.replace e k ps c = .ok s') : CmdUniq s' := by
  unfold Store.replace at h
  repeat' (split at h)
  all_goals first | (cases h; done) | skip
  all_goals
    dsimp only at h
    split at h
    · cases h
    · rename_i next ha
      cases h
      have hk : CmdUniq ⟨s.props.filter (fun p => p.m.last ≤ k), s.hw, s.fresh⟩ := ⟨hu.1, List.Pairwise.filter _ hu.2⟩
      exact appendAll_cmdUniq ps _ next hk ha

def UniqRel (a b : Store) : Prop := CmdUniq a → CmdUniq b

theorem uniqRel_rel : StoreRel UniqRel :=
  ⟨fun _ h => h, fun _ _ _ h1 h2 h => h2 (h1 h), fun s m cs c h => sync_cmdUniq s m cs c h,
   fun s e k ps c s' h hu => replace_cmdUniq s e k ps c s' hu h⟩

end WK.Repl

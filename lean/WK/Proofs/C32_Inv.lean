import WK.Proofs.C32_Basic
/-
  C32: the tracker invariant (distinct outstanding keys, counter = their number) and the
  abstract effect of every operation on the outstanding set.
-/
namespace WK.C32

structure Inv (s : St) : Prop where
  nodup : (keys s.entries).Nodup
  count : s.count = (s.entries.length : Int)

/-- what an operation may do to the outstanding set, seen from the reference specification -/
inductive Eff (S S' : List MKey) (aff : MKey → Prop) : Prop
  | same (h : S' = S)
  | added (k : MKey) (hk : aff k) (hnew : k ∉ S) (h : S' = S ++ [k])
  | removed (k : MKey) (hk : aff k) (hin : k ∈ S) (h : S' = S.filter (fun x => x ≠ k))

@[simp] theorem stamp_key (s : St) (p : Pend) : (stamp s p).key = p.key := by
  unfold stamp; split <;> rfl

theorem length_keys {κ ν : Type} (m : List (κ × ν)) : (keys m).length = m.length := by simp [keys]

theorem inv_aput_existing {s : St} {k : MKey} {e e' : Entry} (h : Inv s) (hk : aget k s.entries = some e) :
    Inv { s with entries := aput k e' s.entries } := by
  have hkeys : keys (aput k e' s.entries) = keys s.entries := by rw [keys_aput]; simp [hk]
  refine ⟨by simpa [hkeys] using h.nodup, ?_⟩
  have := congrArg List.length hkeys
  rw [length_keys, length_keys] at this
  simp [this, h.count]

theorem inv_adel_existing {s : St} {k : MKey} {e : Entry} (h : Inv s) (hk : aget k s.entries = some e) :
    Inv { s with entries := adel k s.entries, count := s.count - 1 } := by
  refine ⟨?_, ?_⟩
  · simp only [keys_adel]; exact List.Nodup.sublist List.filter_sublist h.nodup
  · have := length_adel h.nodup (by simp [hk] : (aget k s.entries).isSome)
    simp only [h.count]; omega

theorem inv_filter {s : St} (h : Inv s) (f : MKey × Entry → Bool) :
    Inv { s with entries := s.entries.filter f,
                 count := s.count - ((s.entries.filter (fun x => !f x)).length : Int) } := by
  refine ⟨?_, ?_⟩
  · exact List.Nodup.sublist (List.Sublist.map _ List.filter_sublist) h.nodup
  · have := filter_split_length f s.entries
    simp only [h.count]; omega

/-! #### bind -/

theorem mem_keys_of_aget {k : MKey} {m : List (MKey × Entry)} {e : Entry} (h : aget k m = some e) : k ∈ keys m := by
  cases hc : decide (k ∈ keys m) with
  | true => simpa using hc
  | false =>
    have : aget k m = none := aget_none_iff.mpr (by simpa using hc)
    rw [h] at this; cases this

theorem bindCore_spec (s : St) (p : Pend) (h : Inv s) :
    Inv (bindCore s p).1 ∧
    Eff (keys s.entries) (keys (bindCore s p).1.entries) (fun k => k = p.key) ∧
    (∀ k', k' ≠ p.key → aget k' (bindCore s p).1.entries = aget k' s.entries) ∧
    ((bindCore s p).2.2 = true ↔ keys (bindCore s p).1.entries ≠ keys s.entries) ∧
    ((bindCore s p).2.1 ≠ 0 → p.key ∈ keys (bindCore s p).1.entries) := by
  unfold bindCore
  simp only [stamp_key]
  split
  · rename_i hex
    have hnot : p.key ∉ keys s.entries := aget_none_iff.mp hex
    split
    · exact ⟨h, .same rfl, fun _ _ => rfl, by simp, by simp⟩
    · have hkeys : ∀ e', keys (aput p.key e' s.entries) = keys s.entries ++ [p.key] := by
        intro e'; rw [keys_aput]; simp [hex]
      refine ⟨⟨?_, ?_⟩, .added p.key rfl hnot (hkeys _), ?_, ?_, ?_⟩
      · simp only [hkeys]
        rw [List.nodup_append]
        exact ⟨h.nodup, by simp, by intro a ha b hb; simp at hb; subst hb; intro e; exact hnot (e ▸ ha)⟩
      · have := congrArg List.length (hkeys (({} : Entry).addAttempt (stamp s p) (s.nextTok + 1)))
        rw [length_keys, List.length_append, length_keys] at this
        simp only [this, h.count]; simp
      · intro k' hk'; simp [aget_aput, hk']
      · simp only [hkeys, true_iff]
        intro e
        have := congrArg List.length e
        simp at this
      · intro _; simp [hkeys]
  · rename_i e hex
    have hin : p.key ∈ keys s.entries := mem_keys_of_aget hex
    have hkeys : ∀ e', keys (aput p.key e' s.entries) = keys s.entries := by
      intro e'; rw [keys_aput]; simp [hex]
    refine ⟨inv_aput_existing (s := { s with nextTok := s.nextTok + 1 }) ⟨h.nodup, h.count⟩ hex, .same (hkeys _), ?_, ?_, ?_⟩
    · intro k' hk'; simp [aget_aput, hk']
    · simp [hkeys]
    · intro _; simp only [hkeys]; exact hin

/-! #### finish / cancel -/

theorem finish_spec (s : St) (p : Pend) (tok : Nat) (h : Inv s) :
    Inv (finish s p tok).1 ∧ keys (finish s p tok).1.entries = keys s.entries ∧
    (∀ k', k' ≠ p.key → aget k' (finish s p tok).1.entries = aget k' s.entries) := by
  unfold finish
  split
  · exact ⟨h, rfl, fun _ _ => rfl⟩
  · split
    · exact ⟨h, rfl, fun _ _ => rfl⟩
    · rename_i e he
      simp only
      split
      · refine ⟨inv_aput_existing h he, by rw [keys_aput]; simp [he], ?_⟩
        intro k' hk'; simp [aget_aput, hk']
      · exact ⟨h, rfl, fun _ _ => rfl⟩

theorem cancel_spec (s : St) (p : Pend) (tok : Nat) (h : Inv s) :
    Inv (cancel s p tok).1 ∧
    Eff (keys s.entries) (keys (cancel s p tok).1.entries) (fun k => k = p.key) ∧
    (∀ k', k' ≠ p.key → aget k' (cancel s p tok).1.entries = aget k' s.entries) ∧
    ((cancel s p tok).2.removed = true ↔ keys (cancel s p tok).1.entries ≠ keys s.entries) := by
  unfold cancel
  split
  · exact ⟨h, .same rfl, fun _ _ => rfl, by simp⟩
  · split
    · exact ⟨h, .same rfl, fun _ _ => rfl, by simp⟩
    · rename_i e he
      simp only
      split
      · exact ⟨h, .same rfl, fun _ _ => rfl, by simp⟩
      · split
        · refine ⟨inv_aput_existing h he, .same (by rw [keys_aput]; simp [he]), ?_, ?_⟩
          · intro k' hk'; simp [aget_aput, hk']
          · simp only [keys_aput, he, Option.isSome_some, if_true]; simp
        · have hin : p.key ∈ keys s.entries := mem_keys_of_aget he
          refine ⟨inv_adel_existing h he, .removed p.key rfl hin (keys_adel _ _), ?_, ?_⟩
          · intro k' hk'; simp [aget_adel, hk']
          · simp only [true_iff, keys_adel]
            intro e
            have h1 : p.key ∈ (keys s.entries).filter (fun x => x ≠ p.key) := by rw [e]; exact hin
            simp at h1

/-- **Rollback never removes an earlier successful delivery.**  If the identity already has a
    committed delivery, `CancelBind` (with any token) keeps the identity outstanding, keeps it
    committed and keeps the committed delivery's metadata. -/
theorem cancel_keeps_committed (s : St) (p : Pend) (tok : Nat) (e : Entry)
    (he : aget p.key s.entries = some e) (hc : e.committed = true) :
    ∃ e', aget p.key (cancel s p tok).1.entries = some e' ∧ e'.committed = true ∧ e'.pending = e.pending ∧
      (cancel s p tok).2.removed = false := by
  unfold cancel
  split
  · exact ⟨e, he, hc, rfl, rfl⟩
  · simp only [he]
    have hcc := cancelAttempt_committed tok hc
    split
    · exact ⟨e, he, hc, rfl, rfl⟩
    · simp only [hcc.1, Bool.true_or, if_true]
      exact ⟨_, by simp [aget_aput], hcc.1, hcc.2, trivial⟩

end WK.C32

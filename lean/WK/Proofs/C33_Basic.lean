import WK.Model.C33
/-
  C33 helper lemmas: association lists, the abstract bucket queue, sorting.
-/
namespace WK.C33

section assoc
variable {κ ν : Type} [DecidableEq κ]

@[simp] theorem aget_nil (k : κ) : aget k ([] : List (κ × ν)) = none := rfl

theorem aget_cons (k k' : κ) (v : ν) (m : List (κ × ν)) :
    aget k ((k', v) :: m) = if k' = k then some v else aget k m := rfl

theorem aget_adel (k k' : κ) (m : List (κ × ν)) :
    aget k (adel k' m) = if k = k' then none else aget k m := by
  induction m with
  | nil => simp [adel]
  | cons p m ih =>
    obtain ⟨a, b⟩ := p
    simp only [adel, List.filter_cons] at ih ⊢
    by_cases h : a = k' <;> by_cases h2 : a = k <;> simp_all [aget_cons] <;> grind

theorem aget_aset (k k' : κ) (v : ν) (m : List (κ × ν)) :
    aget k (aset k' v m) = if k = k' then some v else aget k m := by
  simp only [aset, aget_cons, aget_adel]
  by_cases h : k' = k <;> simp [h] <;> grind

theorem aget_mem {k : κ} {v : ν} {m : List (κ × ν)} (h : aget k m = some v) : (k, v) ∈ m := by
  induction m with
  | nil => simp at h
  | cons p m ih =>
    obtain ⟨a, b⟩ := p
    rw [aget_cons] at h
    by_cases h2 : a = k
    · simp [h2] at h; simp [h2, h]
    · simp [h2] at h; exact List.mem_cons_of_mem _ (ih h)

theorem aget_none_of_not_mem {k : κ} {m : List (κ × ν)} (h : ∀ p ∈ m, p.1 ≠ k) : aget k m = none := by
  induction m with
  | nil => rfl
  | cons p m ih =>
    obtain ⟨a, b⟩ := p
    rw [aget_cons]
    have := h (a, b) (by simp)
    simp at this
    simp [this]
    exact ih (fun p hp => h p (List.mem_cons_of_mem _ hp))

theorem mem_adel {p : κ × ν} {k : κ} {m : List (κ × ν)} : p ∈ adel k m ↔ p ∈ m ∧ p.1 ≠ k := by
  simp [adel]

theorem mem_aset {p : κ × ν} {k : κ} {v : ν} {m : List (κ × ν)} :
    p ∈ aset k v m ↔ p = (k, v) ∨ (p ∈ m ∧ p.1 ≠ k) := by
  simp [aset, mem_adel]

end assoc

/-! ### active list -/

theorem mem_delA {r : Route} {k : Key} {l : List Route} : r ∈ delA k l ↔ r ∈ l ∧ r.key ≠ k := by
  simp [delA]

theorem findA_some {k : Key} {l : List Route} {r : Route} (h : findA k l = some r) : r ∈ l ∧ r.key = k := by
  unfold findA at h
  have h1 := List.find?_some h
  have h2 := List.mem_of_find?_eq_some h
  simp at h1
  exact ⟨h2, h1⟩

theorem findA_none {k : Key} {l : List Route} (h : findA k l = none) : ∀ r ∈ l, r.key ≠ k := by
  unfold findA at h
  simpa using h

theorem findA_isSome_iff {k : Key} {l : List Route} : (findA k l).isSome ↔ ∃ r ∈ l, r.key = k := by
  unfold findA
  simp

theorem delA_eq_self {k : Key} {l : List Route} (h : ∀ r ∈ l, r.key ≠ k) : delA k l = l := by
  unfold delA
  rw [List.filter_eq_self]
  intro r hr
  simpa using h r hr

/-! ### the abstract bucket queue -/

theorem aget_breplace (t t' : Int) (v : List Key) (m : List (Int × List Key)) :
    aget t (breplace t' v m) = if t = t' then (if (aget t' m).isSome then some v else none) else aget t m := by
  induction m with
  | nil => simp [breplace]
  | cons p m ih =>
    obtain ⟨a, b⟩ := p
    simp only [breplace, List.map_cons] at ih ⊢
    by_cases h : a = t' <;> by_cases h2 : t = t' <;> simp_all [aget_cons] <;> grind

theorem aget_binsert (t t' : Int) (v : List Key) (m : List (Int × List Key)) (hn : aget t' m = none) :
    aget t (binsert t' v m) = if t = t' then some v else aget t m := by
  induction m with
  | nil => simp [binsert, aget_cons]; grind
  | cons p m ih =>
    obtain ⟨a, b⟩ := p
    rw [aget_cons] at hn
    by_cases ha : a = t'
    · simp [ha] at hn
    · simp [ha] at hn
      simp only [binsert]
      split
      · simp only [aget_cons]; grind
      · simp only [aget_cons, ih hn]; grind

def BSorted (m : List (Int × List Key)) : Prop := m.Pairwise (fun a b => a.1 < b.1)

theorem bsorted_adel {t : Int} {m : List (Int × List Key)} (h : BSorted m) : BSorted (adel t m) :=
  List.Pairwise.filter _ h

theorem bsorted_breplace {t : Int} {v : List Key} {m : List (Int × List Key)} (h : BSorted m) :
    BSorted (breplace t v m) := by
  unfold BSorted breplace
  rw [List.pairwise_map]
  refine h.imp ?_
  intro a b hab
  split <;> split <;> simp_all

theorem mem_binsert {p : Int × List Key} {t : Int} {v : List Key} {m : List (Int × List Key)} :
    p ∈ binsert t v m ↔ p = (t, v) ∨ p ∈ m := by
  induction m with
  | nil => simp [binsert]
  | cons q m ih =>
    obtain ⟨a, b⟩ := q
    simp only [binsert]
    split
    · simp
    · simp [ih]; grind

theorem bsorted_binsert {t : Int} {v : List Key} {m : List (Int × List Key)} (h : BSorted m)
    (hn : aget t m = none) : BSorted (binsert t v m) := by
  induction m with
  | nil => simp [binsert, BSorted]
  | cons q m ih =>
    obtain ⟨a, b⟩ := q
    rw [aget_cons] at hn
    have ha : a ≠ t := by intro h; simp [h] at hn
    simp [ha] at hn
    unfold BSorted at h ⊢
    rw [List.pairwise_cons] at h
    simp only [binsert]
    split
    · rename_i hlt
      rw [List.pairwise_cons]
      refine ⟨?_, List.pairwise_cons.mpr h⟩
      intro p hp
      rcases List.mem_cons.mp hp with rfl | hp
      · exact hlt
      · have := h.1 p hp; simp at this ⊢; omega
    · rename_i hlt
      rw [List.pairwise_cons]
      refine ⟨?_, ih h.2 hn⟩
      intro p hp
      rcases mem_binsert.mp hp with rfl | hp
      · simp; omega
      · exact h.1 p hp

theorem bsorted_head_lt {t : Int} {ks : List Key} {rest : List (Int × List Key)}
    (h : BSorted ((t, ks) :: rest)) {t' : Int} {ks' : List Key} (hm : aget t' rest = some ks') : t < t' := by
  unfold BSorted at h
  rw [List.pairwise_cons] at h
  exact h.1 _ (aget_mem hm)

end WK.C33

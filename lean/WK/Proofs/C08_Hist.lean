import WK.Spec.C08
import WK.Proofs.C07_Inv8
/-
  C08 — uniqueness over whole histories, from the C07 store invariant.
-/
namespace WK.C08
open WK.C07

/-- a non-empty (sender, clientMsgNo) pair identifies at most one live row of a channel -/
theorem unique_idem_of_inv (st : Store) (hi : Inv st) (c : Nat) : UniqueIdem (st.chan c).rows := by
  intro r1 h1 r2 h2 n1 n2 e1 e2
  have a1 := ((hi.chan c).iidx r1.cmn r1.frm (r1.seq, r1.id, r1.hash)).mpr ⟨r1, h1, rfl, rfl, n1, n2, rfl⟩
  have a2 := ((hi.chan c).iidx r1.cmn r1.frm (r2.seq, r2.id, r2.hash)).mpr ⟨r2, h2, e2.symm, e1.symm, n1, n2, rfl⟩
  rw [a1] at a2
  simp only [Option.some.injEq, Prod.mk.injEq] at a2
  exact a2.1

/-- a message id is stored at most once on the node -/
theorem unique_ids_of_inv (st : Store) (hi : Inv st) : UniqueIds st := by
  intro c1 c2 r1 h1 r2 h2 e
  have a1 := (hi.gidx r1.id c1 r1.seq).mpr ⟨r1, h1, rfl, rfl⟩
  have a2 := (hi.gidx r1.id c2 r2.seq).mpr ⟨r2, h2, e.symm, rfl⟩
  rw [a1] at a2
  simp only [Option.some.injEq, Prod.mk.injEq] at a2
  exact a2

/-- a validating append (strict or server-allocated ids) of a row whose key is live is REJECTED,
    whatever the `seen` sets are -/
theorem dup_key_rejected (st : Store) (hi : Inv st) (c mode : Nat) (seen seen' : Seen) (row : Row)
    (hm : mode ≠ 2) (hk : Keyed row) (hlive : ∃ r ∈ (st.chan c).rows, r.frm = row.frm ∧ r.cmn = row.cmn)
    (hseq : ∀ r ∈ (st.chan c).rows, r.seq ≠ row.seq) : validateRow st c mode seen row ≠ .ok seen' := by
  intro h
  have V := validateRow_ok _ _ _ _ _ _ h
  obtain ⟨r, hr, e1, e2⟩ := hlive
  have a := ((hi.chan c).iidx row.cmn row.frm (r.seq, r.id, r.hash)).mpr ⟨r, hr, e2, e1, hk.1, hk.2, rfl⟩
  rcases V.idem hm hk with e | ⟨id, hh, e⟩
  · rw [a] at e; cases e
  · rw [a] at e
    simp only [Option.some.injEq, Prod.mk.injEq] at e
    exact hseq r hr e.1

/-- a strict append of a message id that is live anywhere on the node is REJECTED -/
theorem dup_id_rejected (st : Store) (hi : Inv st) (c : Nat) (seen seen' : Seen) (row : Row)
    (hlive : ∃ c' r, r ∈ (st.chan c').rows ∧ r.id = row.id) (hseq : ∀ r ∈ (st.chan c).rows, r.seq ≠ row.seq) :
    validateRow st c 0 seen row ≠ .ok seen' := by
  intro h
  have V := validateRow_ok _ _ _ _ _ _ h
  obtain ⟨c', r, hr, e⟩ := hlive
  have a := (hi.gidx row.id c' r.seq).mpr ⟨r, hr, e, rfl⟩
  rcases V.strict rfl with e' | e'
  · rw [a] at e'; cases e'
  · rw [a] at e'
    simp only [Option.some.injEq, Prod.mk.injEq] at e'
    obtain ⟨ec, es⟩ := e'
    subst ec
    exact hseq r hr es

end WK.C08

import WK.Model.C39
/-
  C39 — key/value lemmas: lookups after puts, "last write wins".
-/
namespace WK.C39

theorem find_filter_imp {α : Type} (p q : α → Bool) (h : ∀ x, q x = true → p x = true) (l : List α) :
    (l.filter p).find? q = l.find? q := by
  induction l with
  | nil => rfl
  | cons x xs ih =>
    rw [List.filter_cons]
    cases hp : p x with
    | true =>
      simp only [if_true, List.find?_cons]
      cases hq : q x <;> simp [ih]
    | false =>
      have hq : q x = false := by
        cases hq : q x with
        | false => rfl
        | true => have := h x hq; rw [hp] at this; cases this
      simp [hq, ih]

theorem get_put (k v : Nat) (m : KV) (k' : Nat) : get (put k v m) k' = if k' = k then some v else get m k' := by
  unfold get put
  rw [List.find?_cons]
  by_cases h : k' = k
  · subst h; simp
  · have hk : (k == k') = false := by simp; omega
    simp only [hk, if_neg h]
    rw [find_filter_imp]
    intro x hx
    simp at hx ⊢
    omega

/-- the value of the last write to `k` in a list of writes -/
def lastWrite (ws : List (Nat × Nat)) (k : Nat) : Option Nat :=
  ws.foldl (fun acc w => if w.1 = k then some w.2 else acc) none

theorem foldl_lastWrite (ws : List (Nat × Nat)) (k : Nat) (a : Option Nat) :
    ws.foldl (fun acc w => if w.1 = k then some w.2 else acc) a = (match lastWrite ws k with | some v => some v | none => a) := by
  induction ws generalizing a with
  | nil => rfl
  | cons w rest ih =>
    simp only [lastWrite, List.foldl]
    rw [ih, ih (if w.1 = k then some w.2 else none)]
    cases lastWrite rest k with
    | some v => rfl
    | none => simp; split <;> rfl

theorem lastWrite_append (a b : List (Nat × Nat)) (k : Nat) :
    lastWrite (a ++ b) k = (match lastWrite b k with | some v => some v | none => lastWrite a k) := by
  unfold lastWrite
  rw [List.foldl_append, foldl_lastWrite]
  rfl

theorem get_putAll (ws : List (Nat × Nat)) (m : KV) (k : Nat) :
    get (putAll ws m) k = (match lastWrite ws k with | some v => some v | none => get m k) := by
  induction ws generalizing m with
  | nil => rfl
  | cons w rest ih =>
    simp only [putAll, List.foldl]
    have := ih (put w.1 w.2 m)
    simp only [putAll] at this
    rw [this]
    have hl : lastWrite (w :: rest) k = (match lastWrite rest k with | some v => some v | none => if w.1 = k then some w.2 else none) := by
      simp only [lastWrite, List.foldl]
      rw [foldl_lastWrite]
      rfl
    rw [hl, get_put]
    cases lastWrite rest k with
    | some v => rfl
    | none =>
      simp only
      by_cases h : w.1 = k
      · simp [h]
      · have : ¬ k = w.1 := fun e => h e.symm
        simp [h, this]

end WK.C39

import WK.Proofs.C07_Inv6
/-
  C07 — `Inv` is preserved by TruncateFrom (above the durable RetainedMaxSeq) and by prefix trims.
-/
namespace WK.C07

/-- the precondition of a raw `TruncateFrom`: it does not cut below the durable
    RetainedMaxSeq left by an earlier prefix trim (the production wrapper
    `ChannelStore.truncateLocked` lowers RetainedMaxSeq itself; the raw call does
    not — the known finding). -/
def SafeTrunc (st : Store) (c f : Nat) : Prop :=
  c < numChan ∧ ((if f = 0 then 1 else f) ≤ recoverLEO (st.chan c) → retMax (st.chan c) ≤ (if f = 0 then 1 else f) - 1)

theorem readForward_all (rows : List Row) (f : Nat) (vs : List Row) (h : readForward rows f 0 0 0 = .ok vs) :
    vs = window rows f 0 := by
  unfold readForward at h
  have := scanGo_nolimit _ _ _ _ h
  simpa using this

theorem doTrunc_inv (st : Store) (c f : Nat) (hi : Inv st) (hs : SafeTrunc st c f) : Inv (doTrunc st c f).1 := by
  unfold doTrunc
  obtain ⟨hcn, hsafe⟩ := hs
  generalize hf' : (if f = 0 then 1 else f) = f' at hsafe ⊢
  have hf1 : 1 ≤ f' := by rw [← hf']; split <;> omega
  obtain ⟨I1, g1, i1, r1, t1, _, l1, v1, c1⟩ := loaded_facts st c hi hcn
  have hc1 : c < (loaded st c).chans.length := by rw [I1.len]; exact hcn
  show Inv (if f' > (loadLEO (st.chan c)).1 then (loaded st c, Out.ok)
    else match readForward (loadLEO (st.chan c)).2.rows f' 0 0 0 with
      | .error e => (loaded st c, Out.err e)
      | .ok victims => (setLeoC (victims.foldl (deleteRow c) (loaded st c)) c (f' - 1), Out.ok)).1
  by_cases hgt : f' > (loadLEO (st.chan c)).1
  · rw [if_pos hgt]; exact I1
  rw [if_neg hgt]
  have hrows1 : (loadLEO (st.chan c)).2.rows = ((loaded st c).chan c).rows := by rw [r1, (loadLEO_fields _).1]
  rw [hrows1]
  cases hrd : readForward ((loaded st c).chan c).rows f' 0 0 0 with
  | error e => exact I1
  | ok victims =>
    dsimp only
    have hv := readForward_all _ _ _ hrd
    have CI := I1.chan c
    generalize hleo : recoverLEO (st.chan c) = leo at *
    have hle : f' ≤ leo := by omega
    have hret : retMax ((loaded st c).chan c) ≤ f' - 1 := by
      have : retMax ((loaded st c).chan c) = retMax (st.chan c) := by unfold retMax; rw [t1]
      rw [this]; exact hsafe hle
    have memv : ∀ x, x ∈ victims ↔ x ∈ ((loaded st c).chan c).rows ∧ f' ≤ x.seq := by
      intro x; rw [hv, mem_window]; simp
    obtain ⟨I2, F2, R2, P2⟩ := delete_fold c victims (loaded st c) hc1 ⟨I1.gidx, CI.iidx, CI.sidx, CI.cidx, CI.uniq⟩
      (fun v hv' => ⟨((memv v).mp hv').1, (CI.nz v ((memv v).mp hv').1).1⟩)
      (by rw [hv]; unfold window; exact CI.nodup.filter _)
    have hc2 : c < (victims.foldl (deleteRow c) (loaded st c)).chans.length := by rw [F2.len]; exact hc1
    have memr : ∀ x, x ∈ ((victims.foldl (deleteRow c) (loaded st c)).chan c).rows ↔
        x ∈ ((loaded st c).chan c).rows ∧ x.seq < f' := by
      intro x
      rw [R2]
      constructor
      · rintro ⟨h1, h2⟩
        refine ⟨h1, ?_⟩
        apply Nat.lt_of_not_le
        intro hge
        exact h2 x ((memv x).mpr ⟨h1, hge⟩) rfl
      · rintro ⟨h1, h2⟩
        exact ⟨h1, fun v hv' e => by have := ((memv v).mp hv').2; omega⟩
    unfold setLeoC
    refine inv_assemble (loaded st c) _ c I1 (by rw [set_len, F2.len])
      (fun c' e => by rw [chan_set_ne _ _ _ _ e, F2.other c' e]) ?_ (gagree_set _ c _ hc2 rfl I2.g)
    rw [chan_set_self _ _ _ hc2]
    generalize hst2 : victims.foldl (deleteRow c) (loaded st c) = st2 at *
    have retEq : retMax (st2.chan c) = retMax ((loaded st c).chan c) := by unfold retMax; rw [F2.ret]
    have floorEq : floorOf (st2.chan c) = floorOf ((loaded st c).chan c) := by unfold floorOf; rw [F2.ret]
    have newLEO : recoverLEO (st2.chan c) = f' - 1 := by
      apply recoverLEO_of
      · intro x hx; have := ((memr x).mp hx).2; omega
      · rw [retEq]; exact hret
      · by_cases he : retMax ((loaded st c).chan c) = f' - 1
        · right; rw [retEq]; exact he
        · left
          have hfl := CI.retOK
          obtain ⟨x, hx, ex⟩ := CI.noHoles (f' - 1) (by omega) (by rw [l1]; omega)
          exact ⟨x, (memr x).mpr ⟨hx, by omega⟩, ex⟩
    refine ⟨I2.u, P2 _ CI.nodup, ?_, ?_, ?_, ?_, I2.i, I2.s, I2.cc⟩
    · intro x hx; exact CI.nz x ((memr x).mp hx).1
    · intro s h1 h2
      change floorOf (st2.chan c) < s at h1
      change s ≤ recoverLEO (st2.chan c) at h2
      rw [floorEq] at h1; rw [newLEO] at h2
      obtain ⟨x, hx, ex⟩ := CI.noHoles s h1 (by rw [l1]; omega)
      exact ⟨x, (memr x).mpr ⟨hx, by omega⟩, ex⟩
    · intro l' e
      simp only [Option.some.injEq] at e
      show l' = recoverLEO (st2.chan c)
      rw [newLEO, ← e]
    · show floorOf (st2.chan c) ≤ retMax (st2.chan c)
      rw [floorEq, retEq]; exact CI.retOK


/-! ### prefix trim -/

def trimState (ch : Chan) : Ret := match ch.ret with | some r => r | none => ⟨0, 0, 0⟩
def trimDel (rows : List Row) (mm : Nat) : List Row := if decide (mm > 0 ∧ rows.length > mm) = true then rows.take mm else rows
def trimMore (rows : List Row) (t mm mb : Nat) : Bool :=
  decide (mm > 0 ∧ rows.length > mm) ||
    (decide (mb > 0) && (match (trimDel rows mm).getLast? with | some r => decide (r.seq < t) | none => false))
def trimDelThrough (rows : List Row) (mm : Nat) : Nat := match (trimDel rows mm).getLast? with | some r => r.seq | none => 0
def trimNext (state : Ret) (leo t mm mb : Nat) (rows : List Row) : Ret :=
  ⟨if t > state.loc then t else state.loc,
   if trimMore rows t mm mb = false ∧ t > state.phys then t
   else if trimDelThrough rows mm > state.phys then trimDelThrough rows mm else state.phys,
   if leo > (if t > state.max then t else state.max) then leo else (if t > state.max then t else state.max)⟩

/-- `doTrim`, restated with named pieces -/
def doTrim' (st : Store) (c t mm mb : Nat) : Store × Out :=
  if t = 0 then (st, .trim 0 0 false)
  else
    match readForward (loadLEO (st.chan c)).2.rows ((trimState (loadLEO (st.chan c)).2).phys + 1) t
        (if mm > 0 then mm + 1 else 0) mb with
    | .error e => (loaded st c, .err e)
    | .ok rows =>
      if !retValid (trimNext (trimState (loadLEO (st.chan c)).2) (loadLEO (st.chan c)).1 t mm mb rows) then
        (loaded st c, .err .corruptvalue)
      else
        (setLeoC (((trimDel rows mm).foldl (deleteRow c) (loaded st c)).setChan c
            { ((trimDel rows mm).foldl (deleteRow c) (loaded st c)).chan c with
              ret := some (trimNext (trimState (loadLEO (st.chan c)).2) (loadLEO (st.chan c)).1 t mm mb rows) }) c
          (if (loadLEO (st.chan c)).1 > (trimNext (trimState (loadLEO (st.chan c)).2) (loadLEO (st.chan c)).1 t mm mb rows).max
            then (loadLEO (st.chan c)).1
            else (trimNext (trimState (loadLEO (st.chan c)).2) (loadLEO (st.chan c)).1 t mm mb rows).max),
         .trim (trimDelThrough rows mm) (trimDel rows mm).length (trimMore rows t mm mb))

theorem doTrim_eq (st : Store) (c t mm mb : Nat) : doTrim st c t mm mb = doTrim' st c t mm mb := by
  unfold doTrim doTrim'
  rfl


theorem scanGo_sublist (limit mb : Nat) (l acc : List Row) (t : Nat) (r : List Row) (h : scanGo limit mb l acc t = .ok r) :
    r.Sublist (acc.reverse ++ l) := by
  induction l generalizing acc t with
  | nil => simp only [scanGo, Except.ok.injEq] at h; rw [← h]; simp
  | cons a rest ih =>
    unfold scanGo at h
    split at h
    · cases h
    · split at h
      · simp only [Except.ok.injEq] at h; rw [← h]; exact List.sublist_append_left _ _
      · dsimp only at h
        split at h
        · simp only [Except.ok.injEq] at h
          rw [← h]
          simp only [List.reverse_cons, List.append_assoc, List.singleton_append]
          exact (List.Sublist.refl _).append (List.Sublist.cons₂ _ (List.nil_sublist _))
        · have := ih _ _ h
          simpa using this

theorem doTrim_inv (st : Store) (c t mm mb : Nat) (hi : Inv st) (hcn : c < numChan) : Inv (doTrim st c t mm mb).1 := by
  rw [doTrim_eq]
  unfold doTrim'
  by_cases h0 : t = 0
  · rw [if_pos h0]; exact hi
  rw [if_neg h0]
  obtain ⟨I1, g1, i1, r1, t1, _, l1, v1, c1⟩ := loaded_facts st c hi hcn
  have hc1 : c < (loaded st c).chans.length := by rw [I1.len]; exact hcn
  have hrows1 : (loadLEO (st.chan c)).2.rows = ((loaded st c).chan c).rows := by rw [r1, (loadLEO_fields _).1]
  have hret1 : (loadLEO (st.chan c)).2.ret = ((loaded st c).chan c).ret := by rw [t1, (loadLEO_fields _).2.1]
  have hstate : trimState (loadLEO (st.chan c)).2 = trimState ((loaded st c).chan c) := by unfold trimState; rw [hret1]
  rw [hrows1, hstate, v1, ← l1]
  generalize hL : loaded st c = L at *
  have CI := I1.chan c
  generalize hleo : recoverLEO (L.chan c) = leo at *
  generalize hstt : trimState (L.chan c) = state at *
  have hfloor : floorOf (L.chan c) = state.loc := by rw [← hstt]; unfold floorOf trimState; cases (L.chan c).ret <;> rfl
  have hrmax : retMax (L.chan c) = state.max := by rw [← hstt]; unfold retMax trimState; cases (L.chan c).ret <;> rfl
  cases hrd : readForward (L.chan c).rows (state.phys + 1) t (if mm > 0 then mm + 1 else 0) mb with
  | error e => exact I1
  | ok rows =>
    dsimp only
    generalize hnext : trimNext state leo t mm mb rows = next
    have hnloc : next.loc = (if t > state.loc then t else state.loc) := by rw [← hnext]; rfl
    have hnmax : next.max = (if leo > (if t > state.max then t else state.max) then leo else (if t > state.max then t else state.max)) := by
      rw [← hnext]; rfl
    by_cases hv : (!retValid next) = true
    · rw [if_pos hv]; exact I1
    rw [if_neg hv]
    dsimp only
    -- the deleted rows are live rows at or below the requested boundary
    have hsub : (trimDel rows mm).Sublist (L.chan c).rows := by
      have h1 : rows.Sublist (window (L.chan c).rows (state.phys + 1) t) := by
        have := scanGo_sublist _ _ _ _ _ _ hrd; simpa using this
      have h2 : (trimDel rows mm).Sublist rows := by unfold trimDel; split; exact List.take_sublist _ _; exact List.Sublist.refl _
      exact (h2.trans h1).trans (by unfold window; exact List.filter_sublist)
    have hdle : ∀ v ∈ trimDel rows mm, v.seq ≤ t := by
      intro v hv'
      have h2 : (trimDel rows mm).Sublist rows := by unfold trimDel; split; exact List.take_sublist _ _; exact List.Sublist.refl _
      have : v ∈ window (L.chan c).rows (state.phys + 1) t := by
        rcases scanGo_subset _ _ _ _ _ _ hrd v (h2.subset hv') with e | e
        · cases e
        · exact e
      have := ((mem_window _ _ _ _).mp this).2.2
      omega
    obtain ⟨I2, F2, R2, P2⟩ := delete_fold c (trimDel rows mm) L hc1 ⟨I1.gidx, CI.iidx, CI.sidx, CI.cidx, CI.uniq⟩
      (fun v hv' => ⟨hsub.subset hv', (CI.nz v (hsub.subset hv')).1⟩) (CI.nodup.sublist hsub)
    generalize hst2 : (trimDel rows mm).foldl (deleteRow c) L = st2 at *
    have hc2 : c < st2.chans.length := by rw [F2.len]; exact hc1
    have hc3 : c < (st2.setChan c { st2.chan c with ret := some next }).chans.length := by rw [set_len]; exact hc2
    unfold setLeoC
    refine inv_assemble L _ c I1 (by rw [set_len, set_len, F2.len])
      (fun c' e => by rw [chan_set_ne _ _ _ _ e, chan_set_ne _ _ _ _ e, F2.other c' e]) ?_
      (gagree_set _ c _ hc3 rfl (gagree_set _ c _ hc2 rfl I2.g))
    rw [chan_set_self _ _ _ hc3, chan_set_self _ _ _ hc2]
    have oldLe : ∀ x ∈ (L.chan c).rows, x.seq ≤ leo := fun x hx => hleo ▸ le_recoverLEO _ x hx
    have smaxle : state.max ≤ leo := by rw [← hrmax, ← hleo, recoverLEO_eq]; exact Nat.le_max_right _ _
    have slocle : state.loc ≤ state.max := by rw [← hfloor, ← hrmax]; exact CI.retOK
    have hmaxge : leo ≤ next.max ∧ t ≤ next.max ∧ next.loc ≤ next.max ∧ t ≤ next.loc ∧ state.loc ≤ next.loc := by
      rw [hnloc, hnmax]; refine ⟨?_, ?_, ?_, ?_, ?_⟩ <;> (repeat' split) <;> omega
    have hmaxeq : (if leo > next.max then leo else next.max) = next.max := by rw [if_neg (by omega)]
    rw [hmaxeq]
    have newLEO : recoverLEO { st2.chan c with ret := some next, leoC := some next.max } = next.max := by
      apply recoverLEO_of
      · intro x hx
        have := oldLe x ((R2 x).mp hx).1; omega
      · show next.max ≤ next.max; exact Nat.le_refl _
      · right; rfl
    refine ⟨I2.u, P2 _ CI.nodup, ?_, ?_, ?_, ?_, I2.i, I2.s, I2.cc⟩
    · intro x hx; exact CI.nz x ((R2 x).mp hx).1
    · intro s h1 h2
      change next.loc < s at h1
      rw [newLEO] at h2
      show ∃ r ∈ (st2.chan c).rows, r.seq = s
      have hsle : s ≤ leo := by
        apply Nat.le_of_not_lt; intro hgt
        rw [hnmax] at h2; rw [hnloc] at h1
        revert h1 h2; (repeat' split) <;> intros <;> omega
      obtain ⟨x, hx, ex⟩ := CI.noHoles s (by rw [hfloor]; omega) (by rw [hleo]; exact hsle)
      refine ⟨x, (R2 x).mpr ⟨hx, ?_⟩, ex⟩
      intro v hv' e
      have := hdle v hv'; omega
    · intro l' e
      simp only [Option.some.injEq] at e
      rw [newLEO, ← e]
    · show next.loc ≤ next.max; exact hmaxge.2.2.1

end WK.C07

import WK.Proofs.C07_Ref1
/-
  C07 — refinement: the append walk, and the abstraction of a store that differs in one channel.
-/
namespace WK.C07

theorem walk_eq (st : Store) (hi : Inv st) (hk : Chk st) (c mode : Nat) (recs : List Rec) (seq : Nat) (seen : Seen)
    (acc : List Row) (hseq : ∀ r ∈ (st.chan c).rows, r.seq < seq) :
    walkRows st c mode seq recs seen acc =
      (match specWalk (abs st) c mode recs seen with
       | .ok () => .ok (acc.reverse ++ rowsOfP seq recs)
       | .error e => .error e) := by
  induction recs generalizing seq seen acc with
  | nil => simp [walkRows, specWalk, rowsOfP]
  | cons rc rest ih =>
    unfold walkRows specWalk
    dsimp only
    rw [validate_eq st hi hk c mode seen seq rc (fun c' r hr e => by subst e; exact hseq r hr)]
    cases specValidate (abs st) c mode seen rc with
    | error e => rfl
    | ok seen' =>
      dsimp only
      rw [ih (seq + 1) seen' (mkRow seq rc :: acc) (fun r hr => Nat.lt_succ_of_lt (hseq r hr))]
      cases specWalk (abs st) c mode rest seen' with
      | error e => rfl
      | ok u => simp [rowsOfP]

theorem chans_get (s : Store) (i : Nat) (h : i < s.chans.length) : s.chans[i]? = some (s.chan i) := by
  unfold Store.chan; simp [List.getD_eq_getElem?_getD, h]

/-- the abstraction of a store that differs from `st` only in channel `c` -/
theorem abs_eq_of (st st' : Store) (c : Nat) (hlen : st'.chans.length = st.chans.length)
    (hother : ∀ c', c' ≠ c → st'.chan c' = st.chan c') :
    abs st' = (abs st).setChan c (absChan (st'.chan c)) := by
  unfold abs SStore.setChan
  congr 1
  apply List.ext_getElem?
  intro i
  simp only [List.getElem?_map, List.getElem?_set, List.length_map]
  by_cases hi : i < st.chans.length
  · rw [chans_get st' i (hlen ▸ hi), chans_get st i hi]
    by_cases e : c = i
    · subst e; simp [hi]
    · simp [e, hother i (fun h => e h.symm)]
  · have h1 : st'.chans[i]? = none := List.getElem?_eq_none (by omega)
    have h2 : st.chans[i]? = none := List.getElem?_eq_none (by omega)
    rw [h1, h2]
    by_cases e : c = i
    · subst e; simp [hi]
    · simp [e]

theorem sset_self (s : SStore) (c : Nat) (h : c < s.chans.length) : s.setChan c (s.chan c) = s := by
  unfold SStore.setChan SStore.chan
  congr 1
  apply List.ext_getElem?
  intro i
  simp only [List.getElem?_set, List.getD_eq_getElem?_getD]
  by_cases e : c = i
  · subst e; simp [h]
  · simp [e]

theorem abs_len (st : Store) : (abs st).chans.length = st.chans.length := by unfold abs; simp

theorem abs_loaded (st : Store) (c : Nat) (hi : Inv st) (hc : c < numChan) : abs (loaded st c) = abs st := by
  have hc' : c < st.chans.length := by rw [hi.len]; exact hc
  rw [abs_eq_of st (loaded st c) c (set_len _ _ _) (fun c' e => chan_set_ne _ _ _ _ e)]
  have : absChan ((loaded st c).chan c) = (abs st).chan c := by
    rw [abs_chan]
    unfold loaded
    rw [chan_set_self _ _ _ hc']
    obtain ⟨f1, f2, f3, _, _⟩ := loadLEO_fields (st.chan c)
    unfold absChan
    rw [f1, f2, f3, recover_congr _ _ f1 f2]
  rw [this]
  exact sset_self _ _ (by rw [abs_len]; exact hc')

theorem chk_loaded (st : Store) (c : Nat) (hk : Chk st) (hlen : c < st.chans.length) : Chk (loaded st c) := by
  intro c' r hr
  by_cases e : c' = c
  · subst e
    unfold loaded at hr
    rw [chan_set_self _ _ _ hlen, (loadLEO_fields _).1] at hr
    exact hk c' r hr
  · unfold loaded at hr
    rw [chan_set_ne _ _ _ _ e] at hr
    exact hk c' r hr

end WK.C07

import WK.Spec.C24
/-
  C24 — helper lemmas: decimal rendering/parsing, the small conversions of types.go,
  UTF-8 sanitisation of ASCII strings.  Core tactics only.
-/
namespace WK.C24
open WK

theorem decDigit_toNat (d : Nat) (h : d < 10) : (decDigit d).toNat = 48 + d := by
  unfold decDigit; simp; omega

theorem decDigit_val (d : Nat) (h : d < 10) : (decDigit d).toNat - 48 = d := by
  rw [decDigit_toNat d h]; omega

theorem decDigit_isDigit (d : Nat) (h : d < 10) : isDigit (decDigit d) = true := by
  unfold isDigit; rw [decDigit_toNat d h]; simp; omega

theorem decVal_append (a : Bytes) (b : UInt8) : decVal (a ++ [b]) = decVal a * 10 + (b.toNat - 48) := by
  simp [decVal, List.foldl_append]

theorem decVal_decBytes (n : Nat) : decVal (decBytes n) = n := by
  induction n using Nat.strongRecOn with
  | _ n ih =>
    rw [decBytes]
    split
    · rename_i h
      simp [decVal, decDigit_val n h]
    · rename_i h
      rw [decVal_append, ih (n / 10) (by omega), decDigit_val (n % 10) (by omega)]
      omega

theorem decBytes_digits (n : Nat) : (decBytes n).all isDigit = true ∧ decBytes n ≠ [] := by
  induction n using Nat.strongRecOn with
  | _ n ih =>
    rw [decBytes]
    split
    · rename_i h
      simp [decDigit_isDigit n h]
    · rename_i h
      have := ih (n / 10) (by omega)
      simp [this.1, decDigit_isDigit (n % 10) (by omega)]

theorem parseMag_decBytes (neg : Bool) (n : Nat) :
    parseMag neg (decBytes n) =
      if neg then (if n > 2 ^ 63 then -(2 ^ 63 : Int) else -(n : Int)) else (if n ≥ 2 ^ 63 then (2 ^ 63 - 1 : Int) else (n : Int)) := by
  have h := decBytes_digits n
  unfold parseMag
  have h1 : ((decBytes n).isEmpty || !(decBytes n).all isDigit) = false := by
    rw [h.1]; cases hd : decBytes n with
    | nil => exact absurd hd h.2
    | cons _ _ => rfl
  rw [h1, decVal_decBytes]
  simp

theorem parseInt64_nosign (b : UInt8) (r : Str) (hb : isDigit b = true) : parseInt64 (b :: r) = parseMag false (b :: r) := by
  have h43 : b ≠ 43 := by intro h; subst h; revert hb; decide
  have h45 : b ≠ 45 := by intro h; subst h; revert hb; decide
  unfold parseInt64
  split
  · rename_i heq; injection heq with h1 _; exact absurd h1 h43
  · rename_i heq; injection heq with h1 _; exact absurd h1 h45
  · rfl

theorem parseInt64_neg (r : Str) : parseInt64 (45 :: r) = parseMag true r := by
  simp [parseInt64]

/-- ParseInt ∘ FormatInt = id on int64 -/
theorem parseInt64_fmtInt (x : Int) (h : int64 x) : parseInt64 (fmtInt x) = x := by
  unfold int64 at h
  unfold fmtInt
  split
  · rename_i hneg
    rw [parseInt64_neg, parseMag_decBytes]
    simp only [if_true]
    split <;> omega
  · rename_i hpos
    have hd := decBytes_digits x.natAbs
    cases hb : decBytes x.natAbs with
    | nil => exact absurd hb hd.2
    | cons b r =>
      have hbd : isDigit b = true := by
        have := hd.1; rw [hb] at this
        simp only [List.all_cons, Bool.and_eq_true] at this
        exact this.1
      rw [parseInt64_nosign b r hbd, ← hb, parseMag_decBytes]
      simp only [Bool.false_eq_true, if_false]
      split <;> omega

theorem toU8_nat (n : Nat) (h : n < 256) : toU8 (n : Int) = n := by
  unfold toU8; omega

theorem mask_eq (n : Nat) : settingToProto ((settingOf n).getD {}) = maskSetting n := by
  unfold settingOf
  split
  · rename_i h; subst h; decide
  · rfl

theorem mask_flags (n : Nat) : settingToProto (flagsOfSetting n) = maskSetting n := rfl

theorem hdr_getD (f : Flags) : (hdrOf f).getD Flags.none = f := by
  unfold hdrOf; split
  · rename_i h; simp [h]
  · rfl

end WK.C24

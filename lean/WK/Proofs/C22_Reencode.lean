import WK.Theorems.C22
/-
  C22 — what the decoder can return: inversion lemmas for the body decoders (every
  decoded field is within its limit, the decoded fields account for at most the bytes of
  the body) and the re-encode theorem for decoded frames.
-/
namespace WK.C22

theorem getU8_spec {b r : Bytes} {x : Nat} (h : getU8 b = some (x, r)) : x < 256 ∧ b.length = r.length + 1 := by
  cases b with
  | nil => simp [getU8] at h
  | cons a t =>
    simp only [getU8, Option.some.injEq, Prod.mk.injEq] at h
    obtain ⟨rfl, rfl⟩ := h
    exact ⟨a.toNat_lt, rfl⟩

theorem getU16_spec {b r : Bytes} {x : Nat} (h : getU16 b = some (x, r)) : x < 65536 ∧ b.length = r.length + 2 := by
  match b, h with
  | a :: c :: t, h =>
    simp only [getU16, Option.some.injEq, Prod.mk.injEq] at h
    obtain ⟨rfl, rfl⟩ := h
    have := a.toNat_lt; have := c.toNat_lt
    exact ⟨by omega, rfl⟩

theorem getU32_spec {b r : Bytes} {x : Nat} (h : getU32 b = some (x, r)) :
    x < 4294967296 ∧ b.length = r.length + 4 := by
  match b, h with
  | a :: c :: d :: e :: t, h =>
    simp only [getU32, Option.some.injEq, Prod.mk.injEq] at h
    obtain ⟨rfl, rfl⟩ := h
    have := a.toNat_lt; have := c.toNat_lt; have := d.toNat_lt; have := e.toNat_lt
    exact ⟨by omega, rfl⟩

theorem getU64_spec {b r : Bytes} {x : Nat} (h : getU64 b = some (x, r)) :
    x < 18446744073709551616 ∧ b.length = r.length + 8 := by
  match b, h with
  | a :: c :: d :: e :: f :: g :: i :: j :: t, h =>
    simp only [getU64, Option.some.injEq, Prod.mk.injEq] at h
    obtain ⟨rfl, rfl⟩ := h
    have := a.toNat_lt; have := c.toNat_lt; have := d.toNat_lt; have := e.toNat_lt
    have := f.toNat_lt; have := g.toNat_lt; have := i.toNat_lt; have := j.toNat_lt
    exact ⟨by omega, rfl⟩

theorem getStr_spec {b r s : Bytes} (h : getStr b = some (s, r)) :
    s.length ≤ 32767 ∧ b.length = r.length + s.length + 2 := by
  unfold getStr at h
  cases h16 : getU16 b with
  | none => simp [h16] at h
  | some pr =>
    obtain ⟨n, t⟩ := pr
    have hs := getU16_spec h16
    simp only [h16, maxInt16] at h
    by_cases h1 : n > 32767
    · simp [h1] at h
    · by_cases h2 : t.length < n
      · simp [h1, h2] at h
      · simp only [h1, h2, if_false, Option.some.injEq, Prod.mk.injEq] at h
        obtain ⟨rfl, rfl⟩ := h
        simp only [List.length_take, List.length_drop]
        omega

theorem getSeq_spec {v : Nat} {b r : Bytes} {x : Nat} (h : getSeq v b = some (x, r)) :
    seqOk v x ∧ b.length = r.length + seqSize v := by
  unfold getSeq at h
  unfold seqOk seqSize
  by_cases hv : v ≤ legacyMessageSeqVersion
  · simp only [hv, if_true] at h ⊢
    exact getU32_spec h
  · simp only [hv, if_false] at h ⊢
    exact getU64_spec h


/-! conditional reads -/

theorem getStr_if_spec {c : Prop} [Decidable c] {b r s : Bytes}
    (h : (if c then getStr b else some ([], b)) = some (s, r)) :
    s.length ≤ 32767 ∧ (c → b.length = r.length + s.length + 2) ∧ (¬ c → b.length = r.length ∧ s = []) := by
  by_cases hc : c
  · simp only [hc, if_true] at h
    have := getStr_spec h
    exact ⟨this.1, fun _ => this.2, fun hn => absurd hc hn⟩
  · simp only [hc, if_false, Option.some.injEq, Prod.mk.injEq] at h
    obtain ⟨rfl, rfl⟩ := h
    exact ⟨by simp, fun hn => absurd hn hc, fun _ => ⟨rfl, rfl⟩⟩

theorem getU8_if_spec {c : Prop} [Decidable c] {b r : Bytes} {x : Nat}
    (h : (if c then getU8 b else some (0, b)) = some (x, r)) :
    x < 256 ∧ (c → b.length = r.length + 1) ∧ (¬ c → b.length = r.length ∧ x = 0) := by
  by_cases hc : c
  · simp only [hc, if_true] at h
    have := getU8_spec h
    exact ⟨this.1, fun _ => this.2, fun hn => absurd hc hn⟩
  · simp only [hc, if_false, Option.some.injEq, Prod.mk.injEq] at h
    obtain ⟨rfl, rfl⟩ := h
    exact ⟨by omega, fun hn => absurd hn hc, fun _ => ⟨rfl, rfl⟩⟩

theorem getU32_if_spec {c : Prop} [Decidable c] {b r : Bytes} {x : Nat}
    (h : (if c then getU32 b else some (0, b)) = some (x, r)) :
    x < 4294967296 ∧ (c → b.length = r.length + 4) ∧ (¬ c → b.length = r.length ∧ x = 0) := by
  by_cases hc : c
  · simp only [hc, if_true] at h
    have := getU32_spec h
    exact ⟨this.1, fun _ => this.2, fun hn => absurd hc hn⟩
  · simp only [hc, if_false, Option.some.injEq, Prod.mk.injEq] at h
    obtain ⟨rfl, rfl⟩ := h
    exact ⟨by omega, fun hn => absurd hn hc, fun _ => ⟨rfl, rfl⟩⟩

theorem getU64_if_spec {c : Prop} [Decidable c] {b r : Bytes} {x : Nat}
    (h : (if c then getU64 b else some (0, b)) = some (x, r)) :
    x < 18446744073709551616 ∧ (c → b.length = r.length + 8) ∧ (¬ c → b.length = r.length ∧ x = 0) := by
  by_cases hc : c
  · simp only [hc, if_true] at h
    have := getU64_spec h
    exact ⟨this.1, fun _ => this.2, fun hn => absurd hc hn⟩
  · simp only [hc, if_false, Option.some.injEq, Prod.mk.injEq] at h
    obtain ⟨rfl, rfl⟩ := h
    exact ⟨by omega, fun hn => absurd hn hc, fun _ => ⟨rfl, rfl⟩⟩

macro "inv_start" d:ident : tactic => `(tactic|
  simp only [$d:ident, bind, Option.bind_eq_some_iff, pure, Option.some.injEq, Prod.exists, Prod.mk.injEq] at *)

theorem decConnect_inv (v : Nat) {h : Flags} {b : Bytes} {f : Frame} (hd : decConnect h b = some f) :
    FieldsOk v f ∧ bodySize v f ≤ b.length := by
  inv_start decConnect
  obtain ⟨x1, r1, h1, x2, r2, h2, x3, r3, h3, x4, r4, h4, x5, r5, h5, x6, r6, h6, x7, r7, h7, rfl⟩ := hd
  have := getU8_spec h1; have := getU8_spec h2; have := getStr_spec h3; have := getStr_spec h4
  have := getStr_spec h5; have := getU64_spec h6; have := getStr_spec h7
  simp [FieldsOk, bodySize, sizeConnect, u8, u64, strOk, maxInt16]
  omega

theorem decDisconnect_inv (v : Nat) {h : Flags} {b : Bytes} {f : Frame} (hd : decDisconnect h b = some f) :
    FieldsOk v f ∧ bodySize v f ≤ b.length := by
  inv_start decDisconnect
  obtain ⟨x1, r1, h1, x2, r2, h2, rfl⟩ := hd
  have := getU8_spec h1; have := getStr_spec h2
  simp [FieldsOk, bodySize, sizeDisconnect, u8, strOk, maxInt16]
  omega

theorem decSub_inv (v : Nat) {h : Flags} {b : Bytes} {f : Frame} (hd : decSub h b = some f) :
    FieldsOk v f ∧ bodySize v f ≤ b.length := by
  inv_start decSub
  obtain ⟨x1, r1, h1, x2, r2, h2, x3, r3, h3, x4, r4, h4, x5, r5, h5, x6, r6, h6, rfl⟩ := hd
  have := getU8_spec h1; have := getStr_spec h2; have := getStr_spec h3; have := getU8_spec h4
  have := getU8_spec h5; have := getStr_spec h6
  simp [FieldsOk, bodySize, sizeSub, u8, strOk, maxInt16]
  omega

theorem decSuback_inv (v : Nat) {h : Flags} {b : Bytes} {f : Frame} (hd : decSuback h b = some f) :
    FieldsOk v f ∧ bodySize v f ≤ b.length := by
  inv_start decSuback
  obtain ⟨x1, r1, h1, x2, r2, h2, x3, r3, h3, x4, r4, h4, x5, r5, h5, rfl⟩ := hd
  have := getStr_spec h1; have := getStr_spec h2; have := getU8_spec h3; have := getU8_spec h4
  have := getU8_spec h5
  simp [FieldsOk, bodySize, sizeSuback, u8, strOk, maxInt16]
  omega

theorem decEvent_inv (v : Nat) {h : Flags} {b : Bytes} {f : Frame} (hd : decEvent h b = some f) :
    FieldsOk v f ∧ bodySize v f ≤ b.length := by
  inv_start decEvent
  obtain ⟨x1, r1, h1, x2, r2, h2, x3, r3, h3, rfl⟩ := hd
  have := getStr_spec h1; have := getStr_spec h2; have := getU64_spec h3
  simp [FieldsOk, bodySize, sizeEvent, u64, strOk, maxInt16]
  omega

theorem decRecvack_inv {v : Nat} {h : Flags} {b : Bytes} {f : Frame} (hd : decRecvack v h b = some f) :
    FieldsOk v f ∧ bodySize v f ≤ b.length := by
  inv_start decRecvack
  obtain ⟨x1, r1, h1, x2, r2, h2, rfl⟩ := hd
  have s1 := getU64_spec h1; have s2 := getSeq_spec h2
  refine ⟨⟨s1.1, s2.1⟩, ?_⟩
  simp only [bodySize, sizeRecvack]
  omega

/-- **Decoded frames re-encode** (`_partial`: proved for inputs whose header announces one
    of the eight frame types without optional wire fields — CONNECT 1, RECVACK 6, PING 7,
    PONG 8, DISCONNECT 9, SUB 10, SUBACK 11, EVENT 12; for CONNACK, SEND, SENDACK, RECV the
    same statement is judged on every decoded frame of the differential run, not proved).
    Whatever bytes the decoder accepted, the frame it returned is within the protocol
    limits, re-encodes, and decodes again to its normal form, consuming exactly the
    re-encoding. -/
theorem c22_decode_reencode_partial (v : Nat) (b0 : UInt8) (tl rest : Bytes) (f : Frame) (n : Nat)
    (hd : decodeFrame v (b0 :: tl) = .ok f n)
    (ht : typeOfByte b0 ≠ 2 ∧ typeOfByte b0 ≠ 3 ∧ typeOfByte b0 ≠ 4 ∧ typeOfByte b0 ≠ 5) :
    ∃ bs, encodeFrame v f = .ok bs ∧ decodeFrame v (bs ++ rest) = .ok (norm v f) bs.length := by
  apply c22_roundtrip
  simp only [decodeFrame] at hd
  split at hd
  · cases hd
  · rename_i ft hh rl rll hhdr
    have hft : ft = typeOfByte b0 := by
      simp only [decodeHeader] at hhdr
      split at hhdr
      · split at hhdr
        · cases hhdr
        · simp only [Option.some.injEq, Prod.mk.injEq] at hhdr; exact hhdr.1.symm
      · simp only [Option.some.injEq, Prod.mk.injEq] at hhdr; exact hhdr.1.symm
    split at hd
    · cases hd
    · split at hd
      · simp only [DecRes.ok.injEq] at hd; rw [← hd.1]; exact ⟨trivial, by simp [bodySize, maxRemainingLength]⟩
      · split at hd
        · simp only [DecRes.ok.injEq] at hd; rw [← hd.1]; exact ⟨trivial, by simp [bodySize, maxRemainingLength]⟩
        · split at hd
          · cases hd
          · rename_i hmax
            split at hd
            · cases hd
            · rename_i hlen
              have hbl : ((List.drop (1 + rll) (b0 :: tl)).take rl).length ≤ maxRemainingLength := by
                simp only [List.length_take]; omega
              generalize (List.drop (1 + rll) (b0 :: tl)).take rl = body at hd hbl
              split at hd
              · cases hd
              · cases hd
              · rename_i f' hb
                simp only [DecRes.ok.injEq] at hd
                obtain ⟨rfl, _⟩ := hd
                rw [hft] at hb
                unfold decodeBody at hb
                split at hb <;> simp only [Option.some.injEq, reduceCtorEq] at hb
                · have := decConnect_inv v hb; exact ⟨this.1, by omega⟩
                · rename_i e; exact absurd e ht.1
                · rename_i e; exact absurd e ht.2.1
                · rename_i e; exact absurd e ht.2.2.1
                · rename_i e; exact absurd e ht.2.2.2
                · have := decRecvack_inv hb; exact ⟨this.1, by omega⟩
                · have := decDisconnect_inv v hb; exact ⟨this.1, by omega⟩
                · have := decSub_inv v hb; exact ⟨this.1, by omega⟩
                · have := decSuback_inv v hb; exact ⟨this.1, by omega⟩
                · have := decEvent_inv v hb; exact ⟨this.1, by omega⟩

/-- non-vacuity: a DISCONNECT with trailing garbage inside its body and a non-canonical
    two-byte length decodes, and the decoded frame re-encodes to the canonical 5 bytes -/
example : decodeFrame 6 [0x93, 0x86, 0x00, 7, 0, 1, 0x41, 0xEE, 0xFF] =
    .ok (.disconnect { noPersist := true, redDot := true } { reasonCode := 7, reason := [0x41] }) 9 ∧
    encodeFrame 6 (.disconnect { noPersist := true, redDot := true } { reasonCode := 7, reason := [0x41] }) =
    .ok [0x93, 4, 7, 0, 1, 0x41] := by decide

end WK.C22

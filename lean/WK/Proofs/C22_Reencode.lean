import WK.Theorems.C22
/-
  C22 — what the decoder can return: inversion lemmas for the body decoders (every
  decoded field is within its limit, the decoded fields account for at most the bytes of
  the body) and the re-encode theorem for decoded frames.
-/
namespace WK.C22

theorem getU8_spec {b r : Bytes} {x : Nat} (h : getU8 b = some (x, r)) : x < 256 ∧ b.length = r.length + 1 := by
  cases b with
  | nil => simp [getU8] at h
  | cons a t =>
    simp only [getU8, Option.some.injEq, Prod.mk.injEq] at h
    obtain ⟨rfl, rfl⟩ := h
    exact ⟨a.toNat_lt, rfl⟩

theorem getU16_spec {b r : Bytes} {x : Nat} (h : getU16 b = some (x, r)) : x < 65536 ∧ b.length = r.length + 2 := by
  match b, h with
  | a :: c :: t, h =>
    simp only [getU16, Option.some.injEq, Prod.mk.injEq] at h
    obtain ⟨rfl, rfl⟩ := h
    have := a.toNat_lt; have := c.toNat_lt
    exact ⟨by omega, rfl⟩

theorem getU32_spec {b r : Bytes} {x : Nat} (h : getU32 b = some (x, r)) :
    x < 4294967296 ∧ b.length = r.length + 4 := by
  match b, h with
  | a :: c :: d :: e :: t, h =>
    simp only [getU32, Option.some.injEq, Prod.mk.injEq] at h
    obtain ⟨rfl, rfl⟩ := h
    have := a.toNat_lt; have := c.toNat_lt; have := d.toNat_lt; have := e.toNat_lt
    exact ⟨by omega, rfl⟩

theorem getU64_spec {b r : Bytes} {x : Nat} (h : getU64 b = some (x, r)) :
    x < 18446744073709551616 ∧ b.length = r.length + 8 := by
  match b, h with
  | a :: c :: d :: e :: f :: g :: i :: j :: t, h =>
    simp only [getU64, Option.some.injEq, Prod.mk.injEq] at h
    obtain ⟨rfl, rfl⟩ := h
    have := a.toNat_lt; have := c.toNat_lt; have := d.toNat_lt; have := e.toNat_lt
    have := f.toNat_lt; have := g.toNat_lt; have := i.toNat_lt; have := j.toNat_lt
    exact ⟨by omega, rfl⟩

theorem getStr_spec {b r s : Bytes} (h : getStr b = some (s, r)) :
    s.length ≤ 32767 ∧ b.length = r.length + s.length + 2 := by
  unfold getStr at h
  cases h16 : getU16 b with
  | none => simp [h16] at h
  | some pr =>
    obtain ⟨n, t⟩ := pr
    have hs := getU16_spec h16
    simp only [h16, maxInt16] at h
    by_cases h1 : n > 32767
    · simp [h1] at h
    · by_cases h2 : t.length < n
      · simp [h1, h2] at h
      · simp only [h1, h2, if_false, Option.some.injEq, Prod.mk.injEq] at h
        obtain ⟨rfl, rfl⟩ := h
        simp only [List.length_take, List.length_drop]
        omega

theorem getSeq_spec {v : Nat} {b r : Bytes} {x : Nat} (h : getSeq v b = some (x, r)) :
    seqOk v x ∧ b.length = r.length + seqSize v := by
  unfold getSeq at h
  unfold seqOk seqSize
  by_cases hv : v ≤ legacyMessageSeqVersion
  · simp only [hv, if_true] at h ⊢
    exact getU32_spec h
  · simp only [hv, if_false] at h ⊢
    exact getU64_spec h


/-! conditional reads -/

theorem getStr_if_spec {c : Prop} [Decidable c] {b r s : Bytes}
    (h : (if c then getStr b else some ([], b)) = some (s, r)) :
    s.length ≤ 32767 ∧ (c → b.length = r.length + s.length + 2) ∧ (¬ c → b.length = r.length ∧ s = []) := by
  by_cases hc : c
  · simp only [hc, if_true] at h
    have := getStr_spec h
    exact ⟨this.1, fun _ => this.2, fun hn => absurd hc hn⟩
  · simp only [hc, if_false, Option.some.injEq, Prod.mk.injEq] at h
    obtain ⟨rfl, rfl⟩ := h
    exact ⟨by simp, fun hn => absurd hn hc, fun _ => ⟨rfl, rfl⟩⟩

theorem getU8_if_spec {c : Prop} [Decidable c] {b r : Bytes} {x : Nat}
    (h : (if c then getU8 b else some (0, b)) = some (x, r)) :
    x < 256 ∧ (c → b.length = r.length + 1) ∧ (¬ c → b.length = r.length ∧ x = 0) := by
  by_cases hc : c
  · simp only [hc, if_true] at h
    have := getU8_spec h
    exact ⟨this.1, fun _ => this.2, fun hn => absurd hc hn⟩
  · simp only [hc, if_false, Option.some.injEq, Prod.mk.injEq] at h
    obtain ⟨rfl, rfl⟩ := h
    exact ⟨by omega, fun hn => absurd hn hc, fun _ => ⟨rfl, rfl⟩⟩

theorem getU32_if_spec {c : Prop} [Decidable c] {b r : Bytes} {x : Nat}
    (h : (if c then getU32 b else some (0, b)) = some (x, r)) :
    x < 4294967296 ∧ (c → b.length = r.length + 4) ∧ (¬ c → b.length = r.length ∧ x = 0) := by
  by_cases hc : c
  · simp only [hc, if_true] at h
    have := getU32_spec h
    exact ⟨this.1, fun _ => this.2, fun hn => absurd hc hn⟩
  · simp only [hc, if_false, Option.some.injEq, Prod.mk.injEq] at h
    obtain ⟨rfl, rfl⟩ := h
    exact ⟨by omega, fun hn => absurd hn hc, fun _ => ⟨rfl, rfl⟩⟩

theorem getU64_if_spec {c : Prop} [Decidable c] {b r : Bytes} {x : Nat}
    (h : (if c then getU64 b else some (0, b)) = some (x, r)) :
    x < 18446744073709551616 ∧ (c → b.length = r.length + 8) ∧ (¬ c → b.length = r.length ∧ x = 0) := by
  by_cases hc : c
  · simp only [hc, if_true] at h
    have := getU64_spec h
    exact ⟨this.1, fun _ => this.2, fun hn => absurd hc hn⟩
  · simp only [hc, if_false, Option.some.injEq, Prod.mk.injEq] at h
    obtain ⟨rfl, rfl⟩ := h
    exact ⟨by omega, fun hn => absurd hn hc, fun _ => ⟨rfl, rfl⟩⟩

macro "inv_start" d:ident : tactic => `(tactic|
  simp only [$d:ident, bind, Option.bind_eq_some_iff, pure, Option.some.injEq, Prod.exists, Prod.mk.injEq] at *)

theorem decConnect_inv (v : Nat) {h : Flags} {b : Bytes} {f : Frame} (hd : decConnect h b = some f) :
    FieldsOk v f ∧ bodySize v f ≤ b.length := by
  inv_start decConnect
  obtain ⟨x1, r1, h1, x2, r2, h2, x3, r3, h3, x4, r4, h4, x5, r5, h5, x6, r6, h6, x7, r7, h7, rfl⟩ := hd
  have := getU8_spec h1; have := getU8_spec h2; have := getStr_spec h3; have := getStr_spec h4
  have := getStr_spec h5; have := getU64_spec h6; have := getStr_spec h7
  simp [FieldsOk, bodySize, sizeConnect, u8, u64, strOk, maxInt16]
  omega

theorem decDisconnect_inv (v : Nat) {h : Flags} {b : Bytes} {f : Frame} (hd : decDisconnect h b = some f) :
    FieldsOk v f ∧ bodySize v f ≤ b.length := by
  inv_start decDisconnect
  obtain ⟨x1, r1, h1, x2, r2, h2, rfl⟩ := hd
  have := getU8_spec h1; have := getStr_spec h2
  simp [FieldsOk, bodySize, sizeDisconnect, u8, strOk, maxInt16]
  omega

theorem decSub_inv (v : Nat) {h : Flags} {b : Bytes} {f : Frame} (hd : decSub h b = some f) :
    FieldsOk v f ∧ bodySize v f ≤ b.length := by
  inv_start decSub
  obtain ⟨x1, r1, h1, x2, r2, h2, x3, r3, h3, x4, r4, h4, x5, r5, h5, x6, r6, h6, rfl⟩ := hd
  have := getU8_spec h1; have := getStr_spec h2; have := getStr_spec h3; have := getU8_spec h4
  have := getU8_spec h5; have := getStr_spec h6
  simp [FieldsOk, bodySize, sizeSub, u8, strOk, maxInt16]
  omega

theorem decSuback_inv (v : Nat) {h : Flags} {b : Bytes} {f : Frame} (hd : decSuback h b = some f) :
    FieldsOk v f ∧ bodySize v f ≤ b.length := by
  inv_start decSuback
  obtain ⟨x1, r1, h1, x2, r2, h2, x3, r3, h3, x4, r4, h4, x5, r5, h5, rfl⟩ := hd
  have := getStr_spec h1; have := getStr_spec h2; have := getU8_spec h3; have := getU8_spec h4
  have := getU8_spec h5
  simp [FieldsOk, bodySize, sizeSuback, u8, strOk, maxInt16]
  omega

theorem decEvent_inv (v : Nat) {h : Flags} {b : Bytes} {f : Frame} (hd : decEvent h b = some f) :
    FieldsOk v f ∧ bodySize v f ≤ b.length := by
  inv_start decEvent
  obtain ⟨x1, r1, h1, x2, r2, h2, x3, r3, h3, rfl⟩ := hd
  have := getStr_spec h1; have := getStr_spec h2; have := getU64_spec h3
  simp [FieldsOk, bodySize, sizeEvent, u64, strOk, maxInt16]
  omega

theorem decRecvack_inv {v : Nat} {h : Flags} {b : Bytes} {f : Frame} (hd : decRecvack v h b = some f) :
    FieldsOk v f ∧ bodySize v f ≤ b.length := by
  inv_start decRecvack
  obtain ⟨x1, r1, h1, x2, r2, h2, rfl⟩ := hd
  have s1 := getU64_spec h1; have s2 := getSeq_spec h2
  refine ⟨⟨s1.1, s2.1⟩, ?_⟩
  simp only [bodySize, sizeRecvack]
  omega

/-- **Decoded frames re-encode** (`_partial`: proved for inputs whose header announces one
    of the eight frame types without optional wire fields — CONNECT 1, RECVACK 6, PING 7,
    PONG 8, DISCONNECT 9, SUB 10, SUBACK 11, EVENT 12; for CONNACK, SEND, SENDACK, RECV the
    same statement is judged on every decoded frame of the differential run, not proved).
    Whatever bytes the decoder accepted, the frame it returned is within the protocol
    limits, re-encodes, and decodes again to its normal form, consuming exactly the
    re-encoding. -/
theorem c22_decode_reencode_partial (v : Nat) (b0 : UInt8) (tl rest : Bytes) (f : Frame) (n : Nat)
    (hd : decodeFrame v (b0 :: tl) = .ok f n)
    (ht : typeOfByte b0 ≠ 2 ∧ typeOfByte b0 ≠ 3 ∧ typeOfByte b0 ≠ 4 ∧ typeOfByte b0 ≠ 5) :
    ∃ bs, encodeFrame v f = .ok bs ∧ decodeFrame v (bs ++ rest) = .ok (norm v f) bs.length := by
  apply c22_roundtrip
  simp only [decodeFrame] at hd
  split at hd
  · cases hd
  · rename_i ft hh rl rll hhdr
    have hft : ft = typeOfByte b0 := by
      simp only [decodeHeader] at hhdr
      split at hhdr
      · split at hhdr
        · cases hhdr
        · simp only [Option.some.injEq, Prod.mk.injEq] at hhdr; exact hhdr.1.symm
      · simp only [Option.some.injEq, Prod.mk.injEq] at hhdr; exact hhdr.1.symm
    split at hd
    · cases hd
    · split at hd
      · simp only [DecRes.ok.injEq] at hd; rw [← hd.1]; exact ⟨trivial, by simp [bodySize, maxRemainingLength]⟩
      · split at hd
        · simp only [DecRes.ok.injEq] at hd; rw [← hd.1]; exact ⟨trivial, by simp [bodySize, maxRemainingLength]⟩
        · split at hd
          · cases hd
          · rename_i hmax
            split at hd
            · cases hd
            · rename_i hlen
              have hbl : ((List.drop (1 + rll) (b0 :: tl)).take rl).length ≤ maxRemainingLength := by
                simp only [List.length_take]; omega
              generalize (List.drop (1 + rll) (b0 :: tl)).take rl = body at hd hbl
              split at hd
              · cases hd
              · cases hd
              · rename_i f' hb
                simp only [DecRes.ok.injEq] at hd
                obtain ⟨rfl, _⟩ := hd
                rw [hft] at hb
                unfold decodeBody at hb
                split at hb <;> simp only [Option.some.injEq, reduceCtorEq] at hb
                · have := decConnect_inv v hb; exact ⟨this.1, by omega⟩
                · rename_i e; exact absurd e ht.1
                · rename_i e; exact absurd e ht.2.1
                · rename_i e; exact absurd e ht.2.2.1
                · rename_i e; exact absurd e ht.2.2.2
                · have := decRecvack_inv hb; exact ⟨this.1, by omega⟩
                · have := decDisconnect_inv v hb; exact ⟨this.1, by omega⟩
                · have := decSub_inv v hb; exact ⟨this.1, by omega⟩
                · have := decSuback_inv v hb; exact ⟨this.1, by omega⟩
                · have := decEvent_inv v hb; exact ⟨this.1, by omega⟩

/-- non-vacuity: a DISCONNECT with trailing garbage inside its body and a non-canonical
    two-byte length decodes, and the decoded frame re-encodes to the canonical 5 bytes -/
example : decodeFrame 6 [0x93, 0x86, 0x00, 7, 0, 1, 0x41, 0xEE, 0xFF] =
    .ok (.disconnect { noPersist := true, redDot := true } { reasonCode := 7, reason := [0x41] }) 9 ∧
    encodeFrame 6 (.disconnect { noPersist := true, redDot := true } { reasonCode := 7, reason := [0x41] }) =
    .ok [0x93, 4, 7, 0, 1, 0x41] := by decide

/-! ## the four frame types with optional wire fields -/

/-- `decConnack` with the optional reads as explicit conditional parsers -/
def decConnack' (v : Nat) (h : Flags) (b : Bytes) : Option Frame :=
  (if h.hsv = true then getU8 b else some (0, b)).bind fun (serverVersion, b) =>
  (getU64 b).bind fun (timeDiff, b) =>
  (getU8 b).bind fun (reasonCode, b) =>
  (getStr b).bind fun (serverKey, b) =>
  (getStr b).bind fun (salt, b) =>
  (if v ≥ 4 then getU64 b else some (0, b)).bind fun (nodeId, _) =>
  some (.connack h { serverVersion, timeDiff, reasonCode, serverKey, salt, nodeId })

theorem decConnack_eq (v : Nat) (h : Flags) (b : Bytes) : decConnack v h b = decConnack' v h b := by
  unfold decConnack decConnack'
  by_cases c1 : h.hsv = true <;> by_cases c6 : v ≥ 4 <;> simp [c1, c6, bind, pure]

theorem decConnack_inv {v : Nat} {h : Flags} {b : Bytes} {f : Frame} (hd : decConnack v h b = some f) :
    FieldsOk v f ∧ bodySize v f ≤ b.length := by
  rw [decConnack_eq] at hd
  simp only [decConnack', Option.bind_eq_some_iff, Option.some.injEq, Prod.exists] at hd
  obtain ⟨x1, r1, h1, x2, r2, h2, x3, r3, h3, x4, r4, h4, x5, r5, h5, x6, r6, h6, rfl⟩ := hd
  have a1 := getU8_if_spec h1; have := getU64_spec h2; have := getU8_spec h3; have := getStr_spec h4
  have := getStr_spec h5; have a6 := getU64_if_spec h6
  simp only [FieldsOk, bodySize, sizeConnack, u8, u64, strOk, maxInt16]
  by_cases c1 : h.hsv = true <;> by_cases c6 : v ≥ 4 <;> simp [c1, c6] at a1 a6 ⊢ <;> omega


/-! ### SEND -/

def decSend' (v : Nat) (h : Flags) (b : Bytes) : Option Frame :=
  (getU8 b).bind fun (setting, b) =>
  (getU32 b).bind fun (clientSeq, b) =>
  (getStr b).bind fun (clientMsgNo, b) =>
  (if streamOn v setting = true then getStr b else some ([], b)).bind fun (streamNo, b) =>
  (getStr b).bind fun (channelID, b) =>
  (getU8 b).bind fun (channelType, b) =>
  (if v ≥ 3 then getU32 b else some (0, b)).bind fun (expire, b) =>
  (getStr b).bind fun (msgKey, b) =>
  (if topicOn setting = true then getStr b else some ([], b)).bind fun (topic, b) =>
  some (.send h { setting, clientSeq, clientMsgNo, streamNo, channelID, channelType, expire, msgKey, topic,
                  payload := b })

theorem decSend_eq (v : Nat) (h : Flags) (b : Bytes) : decSend v h b = decSend' v h b := by
  unfold decSend decSend'
  cases h1 : getU8 b with
  | none => simp [bind]
  | some pr =>
    obtain ⟨setting, r⟩ := pr
    by_cases c4 : streamOn v setting = true <;> by_cases c7 : v ≥ 3 <;> by_cases c9 : topicOn setting = true <;>
      simp [c4, c7, c9, bind, pure]

/-- a decoded SEND is within the field limits as soon as its payload is (the decoder itself
    bounds the payload only by the frame size) -/
theorem decSend_inv {v : Nat} {h : Flags} {b : Bytes} {f : Frame} (hd : decSend v h b = some f)
    (hp : sendTooLarge f = false) : FieldsOk v f ∧ bodySize v f ≤ b.length := by
  rw [decSend_eq] at hd
  simp only [decSend', Option.bind_eq_some_iff, Option.some.injEq, Prod.exists] at hd
  obtain ⟨x1, r1, h1, x2, r2, h2, x3, r3, h3, x4, r4, h4, x5, r5, h5, x6, r6, h6, x7, r7, h7, x8, r8, h8,
    x9, r9, h9, rfl⟩ := hd
  have := getU8_spec h1; have := getU32_spec h2; have := getStr_spec h3; have a4 := getStr_if_spec h4
  have := getStr_spec h5; have := getU8_spec h6; have a7 := getU32_if_spec h7; have := getStr_spec h8
  have a9 := getStr_if_spec h9
  simp [sendTooLarge, payloadMaxSize] at hp
  simp only [FieldsOk, bodySize, sizeSend, u8, u32, strOk, maxInt16, payloadMaxSize]
  by_cases c4 : streamOn v x1 = true <;> by_cases c7 : v ≥ 3 <;> by_cases c9 : topicOn x1 = true <;>
    simp [c4, c7, c9] at a4 a7 a9 ⊢ <;> omega


/-! ### RECV -/

def streamBlock (b : Bytes) : Option ((Nat × Bytes × Nat) × Bytes) :=
  (getU8 b).bind fun (sf, b) => (getStr b).bind fun (sn, b) => (getU64 b).bind fun (si, b) => some ((sf, sn, si), b)

theorem streamBlock_if_spec {c : Prop} [Decidable c] {b r : Bytes} {sf si : Nat} {sn : Bytes}
    (h : (if c then streamBlock b else some ((0, [], 0), b)) = some ((sf, sn, si), r)) :
    sf < 256 ∧ sn.length ≤ 32767 ∧ si < 18446744073709551616 ∧
    (c → b.length = r.length + 1 + (sn.length + 2) + 8) ∧ (¬ c → b.length = r.length ∧ sf = 0 ∧ sn = [] ∧ si = 0) := by
  by_cases hc : c
  · simp only [hc, if_true, streamBlock, Option.bind_eq_some_iff, Option.some.injEq, Prod.exists, Prod.mk.injEq] at h
    obtain ⟨x1, r1, h1, x2, r2, h2, x3, r3, h3, ⟨rfl, rfl, rfl⟩, rfl⟩ := h
    have := getU8_spec h1; have := getStr_spec h2; have := getU64_spec h3
    exact ⟨by omega, by omega, by omega, fun _ => by omega, fun hn => absurd hc hn⟩
  · simp only [hc, if_false, Option.some.injEq, Prod.mk.injEq] at h
    obtain ⟨⟨rfl, rfl, rfl⟩, rfl⟩ := h
    exact ⟨by omega, by simp, by omega, fun hn => absurd hn hc, fun _ => ⟨rfl, rfl, rfl, rfl⟩⟩

def decRecv' (v : Nat) (h : Flags) (b : Bytes) : Option Frame :=
  (getU8 b).bind fun (setting, b) =>
  (getStr b).bind fun (msgKey, b) =>
  (getStr b).bind fun (fromUID, b) =>
  (getStr b).bind fun (channelID, b) =>
  (getU8 b).bind fun (channelType, b) =>
  (if v ≥ 3 then getU32 b else some (0, b)).bind fun (expire, b) =>
  (getStr b).bind fun (clientMsgNo, b) =>
  (if streamOn v setting = true then streamBlock b else some ((0, [], 0), b)).bind fun ((streamFlag, streamNo, streamId), b) =>
  (getU64 b).bind fun (messageID, b) =>
  (getSeq v b).bind fun (messageSeq, b) =>
  (getU32 b).bind fun (timestamp, b) =>
  (if topicOn setting = true then getStr b else some ([], b)).bind fun (topic, b) =>
  some (.recv h { setting, msgKey, fromUID, channelID, channelType, expire, clientMsgNo, streamFlag, streamNo,
                  streamId, messageID, messageSeq, timestamp, topic, payload := b })

theorem decRecv_eq (v : Nat) (h : Flags) (b : Bytes) : decRecv v h b = decRecv' v h b := by
  unfold decRecv decRecv'
  cases h1 : getU8 b with
  | none => simp [bind]
  | some pr =>
    obtain ⟨setting, r⟩ := pr
    by_cases c4 : streamOn v setting = true <;> by_cases c7 : v ≥ 3 <;> by_cases c9 : topicOn setting = true <;>
      simp [c4, c7, c9, bind, pure, streamBlock, Option.bind_assoc]

theorem decRecv_inv {v : Nat} {h : Flags} {b : Bytes} {f : Frame} (hd : decRecv v h b = some f) :
    FieldsOk v f ∧ bodySize v f ≤ b.length := by
  rw [decRecv_eq] at hd
  simp only [decRecv', Option.bind_eq_some_iff, Option.some.injEq, Prod.exists] at hd
  obtain ⟨x1, r1, h1, x2, r2, h2, x3, r3, h3, x4, r4, h4, x5, r5, h5, x6, r6, h6, x7, r7, h7,
    sf, sn, si, r8, h8, x9, r9, h9, x10, r10, h10, x11, r11, h11, x12, r12, h12, rfl⟩ := hd
  have := getU8_spec h1; have := getStr_spec h2; have := getStr_spec h3; have := getStr_spec h4
  have := getU8_spec h5; have a6 := getU32_if_spec h6; have := getStr_spec h7
  have a8 := streamBlock_if_spec h8
  have := getU64_spec h9; have s10 := getSeq_spec h10; have := getU32_spec h11
  have a12 := getStr_if_spec h12
  simp only [FieldsOk, bodySize, sizeRecv, u8, u32, u64, strOk, maxInt16]
  refine ⟨⟨by omega, by omega, by omega, by omega, by omega, by omega, by omega, by omega, by omega, by omega,
    by omega, s10.1, by omega, by omega⟩, ?_⟩
  by_cases c4 : streamOn v x1 = true <;> by_cases c7 : v ≥ 3 <;> by_cases c9 : topicOn x1 = true <;>
    simp [c4, c7, c9] at a6 a8 a12 ⊢ <;> omega


/-! ### SENDACK -/

def sendackCoreFirst' (v : Nat) (b : Bytes) : Option (Bytes × Nat × Nat) :=
  (getSeq v b).bind fun (seq, b) =>
  (getU8 b).bind fun (rc, b) =>
  (if b.length > 0 then getStr b else some ([], b)).bind fun (no, b) =>
  if b.length ≠ 0 then none else some (no, seq, rc)

theorem sendackCoreFirst_eq (v : Nat) (b : Bytes) : sendackCoreFirst v b = sendackCoreFirst' v b := by
  unfold sendackCoreFirst sendackCoreFirst'
  cases h1 : getSeq v b with
  | none => simp [bind]
  | some pr =>
    obtain ⟨seq, r⟩ := pr
    cases h2 : getU8 r with
    | none => simp [h2, bind]
    | some pr2 =>
      obtain ⟨rc, r2⟩ := pr2
      by_cases c : r2.length > 0 <;> simp [h2, c, bind, pure]

theorem sendackBody_spec {v : Nat} {b no : Bytes} {seq rc : Nat} (h : sendackBody v b = some (no, seq, rc)) :
    no.length ≤ 32767 ∧ seqOk v seq ∧ rc < 256 ∧
    seqSize v + 1 + (if no.isEmpty then 0 else no.length + 2) ≤ b.length := by
  unfold sendackBody at h
  cases hc : sendackCoreFirst v b with
  | some r =>
    simp only [hc, Option.some.injEq] at h
    subst h
    rw [sendackCoreFirst_eq] at hc
    simp only [sendackCoreFirst', Option.bind_eq_some_iff, Prod.exists] at hc
    obtain ⟨x1, r1, h1, x2, r2, h2, x3, r3, h3, h4⟩ := hc
    have s1 := getSeq_spec h1; have := getU8_spec h2; have a3 := getStr_if_spec h3
    by_cases c0 : r3.length ≠ 0
    · simp [c0] at h4
    · simp only [c0, if_false, Option.some.injEq, Prod.mk.injEq] at h4
      obtain ⟨rfl, rfl, rfl⟩ := h4
      refine ⟨a3.1, s1.1, by omega, ?_⟩
      by_cases c : r2.length > 0
      · have := a3.2.1 c
        split <;> omega
      · have := a3.2.2 c
        simp [this.2]; omega
  | none =>
    simp only [hc] at h
    simp only [sendackNoFirst, bind, Option.bind_eq_some_iff, pure, Prod.exists] at h
    obtain ⟨x1, r1, h1, x2, r2, h2, x3, r3, h3, h4⟩ := h
    have := getStr_spec h1; have s2 := getSeq_spec h2; have := getU8_spec h3
    by_cases c0 : r3.length ≠ 0
    · simp [c0] at h4
    · simp only [c0, if_false, Option.some.injEq, Prod.mk.injEq] at h4
      obtain ⟨rfl, rfl, rfl⟩ := h4
      refine ⟨by omega, s2.1, by omega, ?_⟩
      split <;> omega

theorem decSendack_inv {v : Nat} {h : Flags} {b : Bytes} {f : Frame} (hd : decSendack v h b = some f) :
    FieldsOk v f ∧ bodySize v f ≤ b.length := by
  simp only [decSendack, bind, Option.bind_eq_some_iff, pure, Option.some.injEq, Prod.exists] at hd
  obtain ⟨x1, r1, h1, x2, r2, h2, no, seq, rc, h3, rfl⟩ := hd
  have := getU64_spec h1; have := getU32_spec h2; have s3 := sendackBody_spec h3
  simp only [FieldsOk, bodySize, sizeSendack, u8, u32, u64, strOk, maxInt16]
  refine ⟨⟨by omega, by omega, s3.2.1, s3.2.2.1, s3.1⟩, ?_⟩
  have := s3.2.2.2
  split at this <;> simp_all <;> omega


/-! ### re-encode theorems -/

/-- CONNACK: whatever body the decoder accepted, the decoded frame re-encodes and round-trips. -/
theorem c22_reencode_connack (v : Nat) (h : Flags) (b rest : Bytes) (f : Frame)
    (hd : decConnack v h b = some f) (hb : b.length ≤ maxRemainingLength) :
    ∃ bs, encodeFrame v f = .ok bs ∧ decodeFrame v (bs ++ rest) = .ok (norm v f) bs.length := by
  have := decConnack_inv hd
  exact c22_roundtrip v f rest ⟨this.1, by omega⟩

/-- SEND: the same, provided the decoded payload is one the encoder accepts (the decoder
    bounds a SEND payload only by the frame size, the encoder by PayloadMaxSize). -/
theorem c22_reencode_send (v : Nat) (h : Flags) (b rest : Bytes) (f : Frame)
    (hd : decSend v h b = some f) (hp : sendTooLarge f = false) (hb : b.length ≤ maxRemainingLength) :
    ∃ bs, encodeFrame v f = .ok bs ∧ decodeFrame v (bs ++ rest) = .ok (norm v f) bs.length := by
  have := decSend_inv hd hp
  exact c22_roundtrip v f rest ⟨this.1, by omega⟩

/-- SENDACK, for both accepted body layouts (core-first and client-msg-no-first). -/
theorem c22_reencode_sendack (v : Nat) (h : Flags) (b rest : Bytes) (f : Frame)
    (hd : decSendack v h b = some f) (hb : b.length ≤ maxRemainingLength) :
    ∃ bs, encodeFrame v f = .ok bs ∧ decodeFrame v (bs ++ rest) = .ok (norm v f) bs.length := by
  have := decSendack_inv hd
  exact c22_roundtrip v f rest ⟨this.1, by omega⟩

/-- RECV. -/
theorem c22_reencode_recv (v : Nat) (h : Flags) (b rest : Bytes) (f : Frame)
    (hd : decRecv v h b = some f) (hb : b.length ≤ maxRemainingLength) :
    ∃ bs, encodeFrame v f = .ok bs ∧ decodeFrame v (bs ++ rest) = .ok (norm v f) bs.length := by
  have := decRecv_inv hd
  exact c22_roundtrip v f rest ⟨this.1, by omega⟩

/-- **Decoded frames re-encode** — all 12 frame types, all versions, ARBITRARY input bytes:
    if `DecodeFrame` returns a frame (and, for a SEND, its payload is one the encoder
    accepts), that frame is within the protocol limits, `EncodeFrame` succeeds on it, and
    decoding the re-encoding (followed by any bytes) yields its normal form and consumes
    exactly the re-encoding. -/
theorem c22_decode_reencode (v : Nat) (data rest : Bytes) (f : Frame) (n : Nat)
    (hd : decodeFrame v data = .ok f n) (hp : sendTooLarge f = false) :
    ∃ bs, encodeFrame v f = .ok bs ∧ decodeFrame v (bs ++ rest) = .ok (norm v f) bs.length := by
  cases data with
  | nil => simp [decodeFrame] at hd
  | cons b0 tl =>
  apply c22_roundtrip
  simp only [decodeFrame] at hd
  split at hd
  · cases hd
  · rename_i ft hh rl rll hhdr
    split at hd
    · cases hd
    · split at hd
      · simp only [DecRes.ok.injEq] at hd; rw [← hd.1]; exact ⟨trivial, by simp [bodySize, maxRemainingLength]⟩
      · split at hd
        · simp only [DecRes.ok.injEq] at hd; rw [← hd.1]; exact ⟨trivial, by simp [bodySize, maxRemainingLength]⟩
        · split at hd
          · cases hd
          · rename_i hmax
            split at hd
            · cases hd
            · rename_i hlen
              have hbl : ((List.drop (1 + rll) (b0 :: tl)).take rl).length ≤ maxRemainingLength := by
                simp only [List.length_take]; omega
              generalize (List.drop (1 + rll) (b0 :: tl)).take rl = body at hd hbl
              split at hd
              · cases hd
              · cases hd
              · rename_i f' hb
                simp only [DecRes.ok.injEq] at hd
                obtain ⟨rfl, _⟩ := hd
                unfold decodeBody at hb
                split at hb <;> simp only [Option.some.injEq, reduceCtorEq] at hb
                · have := decConnect_inv v hb; exact ⟨this.1, by omega⟩
                · have := decConnack_inv hb; exact ⟨this.1, by omega⟩
                · have := decSend_inv hb hp; exact ⟨this.1, by omega⟩
                · have := decSendack_inv hb; exact ⟨this.1, by omega⟩
                · have := decRecv_inv hb; exact ⟨this.1, by omega⟩
                · have := decRecvack_inv hb; exact ⟨this.1, by omega⟩
                · have := decDisconnect_inv v hb; exact ⟨this.1, by omega⟩
                · have := decSub_inv v hb; exact ⟨this.1, by omega⟩
                · have := decSuback_inv v hb; exact ⟨this.1, by omega⟩
                · have := decEvent_inv v hb; exact ⟨this.1, by omega⟩

/-- non-vacuity: a SENDACK in the transitional client-msg-no-first layout (version 6) is
    accepted, and the decoded frame re-encodes to the core-first layout -/
example : decodeFrame 6 ([0x40, 25] ++ [0,0,0,0,0,0,0,9] ++ [0,0,0,1] ++ [0, 2, 0x61, 0x62] ++ [0,0,0,0,0,0,0,7] ++ [1]) =
      .ok (.sendack {} { messageID := 9, clientSeq := 1, messageSeq := 7, reasonCode := 1, clientMsgNo := [0x61, 0x62] }) 27 ∧
    encodeFrame 6 (.sendack {} { messageID := 9, clientSeq := 1, messageSeq := 7, reasonCode := 1, clientMsgNo := [0x61, 0x62] }) =
      .ok ([0x40, 25] ++ [0,0,0,0,0,0,0,9] ++ [0,0,0,1] ++ [0,0,0,0,0,0,0,7] ++ [1] ++ [0, 2, 0x61, 0x62]) := by decide

/-- non-vacuity for the SEND side condition: the decoder accepts a 40000-byte payload that
    the encoder refuses -/
example : sendTooLarge (.send {} ⟨0, 0, [], [], [], 0, 0, [], [], List.replicate 40000 0⟩) = true := by
  simp only [sendTooLarge, List.length_replicate, payloadMaxSize]
  decide

end WK.C22

import WK.Proofs.C07_Inv8
import WK.Spec.C07
/-
  C07 — refinement of the model by the reference sequential log: abstraction,
  the per-row hash invariant, and "model validation = reference validation".
-/
namespace WK.C07

/-- the reference-log view of one channel: rows, the (recovered) log end, retention, checkpoint -/
def absChan (ch : Chan) : SChan := { rows := ch.rows, leo := recoverLEO ch, ret := ch.ret, ck := ch.ck }
def abs (st : Store) : SStore := { chans := st.chans.map absChan }

theorem abs_chan (st : Store) (c : Nat) : (abs st).chan c = absChan (st.chan c) := by
  unfold abs SStore.chan Store.chan
  simp only [List.getD_eq_getElem?_getD, List.getElem?_map]
  cases st.chans[c]? <;> rfl

/-- every stored row passes `validateMaterializedMessageRow` (its hash is the hash of its payload) -/
def Chk (st : Store) : Prop := ∀ c, ∀ r ∈ (st.chan c).rows, rowCheck r = .ok ()

theorem rowCheck_mkRow (s : Nat) (rc : Rec) (h : rc.id ≠ 0) : rowCheck (mkRow s rc) = .ok () := by
  unfold rowCheck; simp [mkRow, h]

theorem specRow_eq (s : Nat) (rc : Rec) : specRow s rc = mkRow s rc := rfl

def rowsOfP (seq : Nat) : List Rec → List Row
  | [] => []
  | r :: rest => mkRow seq r :: rowsOfP (seq + 1) rest

theorem specRows_eq (s : Nat) (recs : List Rec) : specRows s recs = rowsOfP s recs := by
  induction recs generalizing s with
  | nil => rfl
  | cons a t ih => simp [specRows, rowsOfP, ih, specRow_eq]

theorem rowsOfP_len (s : Nat) (recs : List Rec) : (rowsOfP s recs).length = recs.length := by
  induction recs generalizing s with
  | nil => rfl
  | cons a t ih => simp [rowsOfP, ih]

/-- a live row anywhere on the node ⇒ the global index has an entry (and conversely) -/
theorem idLive_iff (st : Store) (hi : Inv st) (id : Nat) :
    idLive (abs st) id = true ↔ ∃ v, alookup id st.gidx = some v := by
  unfold idLive abs
  simp only [List.any_eq_true, List.mem_map, decide_eq_true_eq]
  constructor
  · rintro ⟨sch, ⟨ch, hch, e⟩, r, hr, hid⟩
    subst e
    obtain ⟨i, hi', hget⟩ := List.mem_iff_getElem.mp hch
    have hc : st.chan i = ch := by unfold Store.chan; simp [List.getD_eq_getElem?_getD, hi', hget]
    exact ⟨(i, r.seq), (hi.gidx id i r.seq).mpr ⟨r, hc ▸ hr, hid, rfl⟩⟩
  · rintro ⟨⟨c', s⟩, e⟩
    obtain ⟨r, hr, hid, _⟩ := (hi.gidx id c' s).mp e
    have hlt : c' < st.chans.length := by
      apply Nat.lt_of_not_le; intro hge
      have : st.chan c' = {} := by unfold Store.chan; simp [List.getD_eq_getElem?_getD, List.getElem?_eq_none hge]
      rw [this] at hr; cases hr
    refine ⟨absChan (st.chan c'), ⟨st.chan c', ?_, rfl⟩, r, hr, hid⟩
    unfold Store.chan; simp [List.getD_eq_getElem?_getD, hlt]

theorem keyLive_iff (ch : Chan) (hi : ChanInv ch) (frm cmn : B) (h1 : frm ≠ []) (h2 : cmn ≠ []) :
    keyLive (absChan ch) frm cmn = true ↔ ∃ v, alookup (cmn, frm) ch.iidx = some v := by
  unfold keyLive absChan
  simp only [List.any_eq_true, decide_eq_true_eq]
  constructor
  · rintro ⟨r, hr, e1, e2⟩
    exact ⟨_, (hi.iidx cmn frm (r.seq, r.id, r.hash)).mpr ⟨r, hr, e2, e1, h1, h2, rfl⟩⟩
  · rintro ⟨v, e⟩
    obtain ⟨r, hr, e1, e2, _⟩ := (hi.iidx cmn frm v).mp e
    exact ⟨r, hr, e2, e1⟩

/-- under the invariants the point read of `validateAppendRow` is exactly "is the key live" -/
theorem lookupIdem_eq (ch : Chan) (hi : ChanInv ch) (hk : ∀ r ∈ ch.rows, rowCheck r = .ok ()) (frm cmn : B)
    (h1 : frm ≠ []) (h2 : cmn ≠ []) :
    (alookup (cmn, frm) ch.iidx = none ∧ lookupIdem ch frm cmn = .ok none) ∨
    (∃ r ∈ ch.rows, lookupIdem ch frm cmn = .ok (some (r.seq, r.id, r.hash)) ∧ alookup (cmn, frm) ch.iidx = some (r.seq, r.id, r.hash)) := by
  cases hl : alookup (cmn, frm) ch.iidx with
  | none => left; exact ⟨rfl, by unfold lookupIdem; rw [hl]⟩
  | some v =>
    right
    obtain ⟨r, hr, e1, e2, _, _, ev⟩ := (hi.iidx cmn frm v).mp hl
    subst ev
    refine ⟨r, hr, ?_, rfl⟩
    have hnz := hi.nz r hr
    have hf : ch.rows.find? (fun x => x.seq = r.seq) = some r := by
      cases hfind : ch.rows.find? (fun x => x.seq = r.seq) with
      | none => have := List.find?_eq_none.mp hfind r hr; simp at this
      | some x =>
        have hx := List.mem_of_find?_eq_some hfind
        have hs := List.find?_some hfind
        simp only [decide_eq_true_eq] at hs
        rw [hi.uniq x hx r hr hs]
    unfold lookupIdem
    rw [hl]
    dsimp only
    unfold getRow
    rw [if_neg hnz.2, hf]
    simp [hk r hr, e1, e2]

/-- **model validation = reference validation** for a row placed above the log end -/
theorem validate_eq (st : Store) (hi : Inv st) (hk : Chk st) (c mode : Nat) (seen : Seen) (seq : Nat) (rc : Rec)
    (hseq : ∀ c', ∀ r ∈ (st.chan c').rows, c' = c → r.seq < seq) :
    validateRow st c mode seen (mkRow seq rc) = specValidate (abs st) c mode seen rc := by
  unfold validateRow specValidate
  have e1 : (mkRow seq rc).id = rc.id := rfl
  have e2 : (mkRow seq rc).frm = rc.frm := rfl
  have e3 : (mkRow seq rc).cmn = rc.cmn := rfl
  have e4 : (mkRow seq rc).seq = seq := rfl
  rw [e1, e2, e3, e4]
  by_cases h1 : rc.id = 0
  · simp [h1]
  rw [if_neg h1, if_neg h1]
  by_cases h2 : seen.ids.contains rc.id = true
  · rw [if_pos h2, if_pos h2]
  rw [if_neg h2, if_neg h2]
  dsimp only
  -- the strict check
  generalize hso : (if mode = 0 then
        match alookup rc.id st.gidx with
        | some (c', s') => !decide (c' ≠ c ∨ s' ≠ seq)
        | none => true
      else true) = sOk
  have hstrict : sOk = !(decide (mode = 0 ∧ idLive (abs st) rc.id = true)) := by
    rw [← hso]
    by_cases hm : mode = 0
    · rw [if_pos hm]
      cases hl : alookup rc.id st.gidx with
      | none =>
        have : idLive (abs st) rc.id = false := by
          cases hv : idLive (abs st) rc.id with
          | false => rfl
          | true => obtain ⟨v, e⟩ := (idLive_iff st hi rc.id).mp hv; rw [hl] at e; cases e
        simp [this]
      | some v =>
        obtain ⟨c', s'⟩ := v
        have hlive : idLive (abs st) rc.id = true := (idLive_iff st hi rc.id).mpr ⟨_, hl⟩
        obtain ⟨r, hr, _, es⟩ := (hi.gidx rc.id c' s').mp hl
        have : c' ≠ c ∨ s' ≠ seq := by
          by_cases hc : c' = c
          · right; have := hseq c' r hr hc; omega
          · left; exact hc
        simp [hm, hlive, this]
    · rw [if_neg hm]; simp [hm]
  rw [hstrict]
  by_cases h3 : mode = 0 ∧ idLive (abs st) rc.id = true
  · simp [h3]
  have h3' : (!(decide (mode = 0 ∧ idLive (abs st) rc.id = true))) = true := by simp [h3]
  rw [h3']
  simp only [Bool.not_true, Bool.false_eq_true, if_false]
  rw [if_neg h3]
  by_cases h4 : rc.frm = [] ∨ rc.cmn = []
  · rw [if_pos h4, if_pos h4]
  rw [if_neg h4, if_neg h4]
  by_cases h5 : seen.keys.contains (rc.frm, rc.cmn) = true
  · rw [if_pos h5, if_pos h5]
  rw [if_neg h5, if_neg h5]
  by_cases h6 : mode = 2
  · rw [if_pos h6, if_pos h6]
  rw [if_neg h6, if_neg h6]
  have n1 : rc.frm ≠ [] := fun e => h4 (Or.inl e)
  have n2 : rc.cmn ≠ [] := fun e => h4 (Or.inr e)
  rw [abs_chan]
  rcases lookupIdem_eq (st.chan c) (hi.chan c) (hk c) rc.frm rc.cmn n1 n2 with ⟨hn, hl⟩ | ⟨r, hr, hl, ha⟩
  · have : keyLive (absChan (st.chan c)) rc.frm rc.cmn = false := by
      cases hv : keyLive (absChan (st.chan c)) rc.frm rc.cmn with
      | false => rfl
      | true => obtain ⟨v, e⟩ := (keyLive_iff _ (hi.chan c) _ _ n1 n2).mp hv; rw [hn] at e; cases e
    rw [hl, this]; simp
  · have : keyLive (absChan (st.chan c)) rc.frm rc.cmn = true := (keyLive_iff _ (hi.chan c) _ _ n1 n2).mpr ⟨_, ha⟩
    rw [hl, this]
    have := hseq c r hr rfl
    have hne : r.seq ≠ seq := by omega
    simp [hne]

end WK.C07

import WK.Proofs.C17_guardfact
/-
  C17 final round — no abort after commit for MULTI-command batches.
-/
namespace WK.C17

/-- closures that can move the protected row `(ch,i)` back into an abortable state -/
def RewOp (ch i : Nat) : Staged → Prop
  | .createRow t => t.chan = ch ∧ t.id = i
  | .guardCreate _ _ => False
  | .taskOnly c => c.g.chan = ch ∧ c.g.id = i
  | .taskMeta c => c.g.chan = ch ∧ c.g.id = i ∧ (c.kind = .resetfence ∨ (c.kind = .clearfence ∧ c.st = 2))
  | .gc _ _ => False

/-- the row `(ch,i)` is not abortable, both in the virtual store and in the view closures read -/
def SafeB (db V : State) (o : Ov) (ch i : Nat) : Prop :=
  (∀ t, V.task? ch i = some t → t.abortable = false) ∧ (∀ t, o.task? db ch i = some t → t.abortable = false)

theorem upsert_lookup_on (db V : State) (nt : Task) (ws : List W) (h : upsertWrites db nt = .ok ws) :
    ∀ c i, (applyWs V ws).task? c i = if nt.chan = c ∧ nt.id = i then some nt else V.task? c i := by
  intro c i
  rcases upsert_shape db nt ws h with ⟨_, hw, _⟩ | ⟨_, hw, _⟩ | ⟨_, hw⟩
  · rw [hw, applyWs_cons, applyWs_cons, applyWs_nil, task?_putTask]; rfl
  · rw [hw, applyWs_cons, applyWs_cons, applyWs_nil, task?_putTask]; rfl
  · rw [hw, applyWs_cons, applyWs_nil, task?_putTask]

theorem safeB_put (db V : State) (o : Ov) (ch i : Nat) (nt : Task) (ws : List W) (s : SafeB db V o ch i)
    (h : upsertWrites db nt = .ok ws) (hnt : nt.chan = ch ∧ nt.id = i → nt.abortable = false) :
    SafeB db (applyWs V ws) (o.putTask nt) ch i := by
  constructor
  · intro t ht
    rw [upsert_lookup_on db V nt ws h] at ht
    split at ht
    · rename_i hk; simp at ht; rw [← ht]; exact hnt hk
    · exact s.1 t ht
  · intro t ht
    by_cases hk : nt.chan = ch ∧ nt.id = i
    · rw [← hk.1, ← hk.2, ov_putTask_same] at ht
      simp at ht; rw [← ht]; exact hnt hk
    · rw [ov_putTask_ne o db nt ch i hk] at ht
      exact s.2 t ht

theorem safeB_step (db V : State) (o o' : Ov) (ch i : Nat) (op : Staged) (ws : List W)
    (s : SafeB db V o ch i) (h : runStaged db o op = .ok (o', ws)) (hr : ¬ RewOp ch i op) :
    SafeB db (applyWs V ws) o' ch i := by
  rcases runStaged_cases db o o' op ws h with ⟨hw, ho⟩ | ⟨t, rfl, hw, ho⟩ | ⟨c, t, nt, rfl, ht, hg, hmut, hw, ho⟩ |
      ⟨c, t, nt, m, nm0, ws', nm, rfl, ht, hg, hmut, hterm, hw, hws, ho⟩ | ⟨bb, l, rfl, hw, ho⟩
  · rw [hw, ho]; exact s
  · rw [ho]
    exact safeB_put db V o ch i t ws s hw (fun hk => absurd hk hr)
  · rw [ho]
    have hk := mutTaskOnly_key c t nt hmut
    have hgk := guard_key c.g t hg
    exact safeB_put db V o ch i nt ws s hw (fun hkey => absurd ⟨by omega, by omega⟩ hr)
  · rw [ho, hws, applyWs_append]
    have hk := mutate_key c t nt m nm0 hmut
    have hgk := guard_key c.g t hg
    have s1 := safeB_put db V o ch i nt ws' s hw (by
      intro hkey
      have hg1 : c.g.chan = ch := by omega
      have hg2 : c.g.id = i := by omega
      have hs0 : t.abortable = false := s.2 t (by rw [← hg1, ← hg2]; exact ht)
      apply mutate_safe c t nt m nm0 hmut hs0 hterm
      · intro hk'; exact hr ⟨hg1, hg2, Or.inl hk'⟩
      · intro hk'; exact hr ⟨hg1, hg2, Or.inr hk'⟩)
    exact ⟨fun t ht => s1.1 t ht, fun t ht => s1.2 t ht⟩
  · rw [hw, ho]
    refine ⟨?_, s.2⟩
    intro t ht
    rcases (dels_lookup V _ (gc_dels db bb l)).2 ch i with h' | h'
    · rw [h'] at ht; exact s.1 t ht
    · rw [h'] at ht; cases ht

theorem safeB_commit (db : State) (ch i : Nat) (ops : List Staged) :
    ∀ (V : State) (o : Ov) (ws : List W), SafeB db V o ch i → commitStaged db o ops = .ok ws →
      (∀ op ∈ ops, ¬ RewOp ch i op) → ∀ t, (applyWs V ws).task? ch i = some t → t.abortable = false := by
  induction ops with
  | nil =>
    intro V o ws s h _
    simp [commitStaged] at h
    rw [h]; exact s.1
  | cons op rest ih =>
    intro V o ws s h hr
    simp only [commitStaged] at h
    split at h
    · simp at h
    · rename_i o1 ws1 hrun
      split at h
      · simp at h
      · rename_i ws2 hc
        simp at h
        rw [← h, applyWs_append]
        exact ih _ o1 ws2 (safeB_step db V o o1 ch i op ws1 s hrun (hr op List.mem_cons_self)) hc
          (fun x hx => hr x (List.mem_cons_of_mem _ hx))


theorem stageCreate_ops (wb wb' : WB) (t : Task) (hs : stageCreate wb t = .ok wb') :
    ∀ op ∈ wb'.staged, op ∈ wb.staged ∨ op = .createRow t := by
  unfold stageCreate at hs
  split at hs
  · simp at hs
  · split at hs
    · split at hs
      · simp at hs; rw [← hs]; exact fun op hop => Or.inl hop
      · simp at hs
    · split at hs
      · simp at hs
      · simp at hs
        rw [← hs]
        intro op hop
        simp at hop
        rcases hop with hop | hop
        · exact Or.inl hop
        · exact Or.inr hop

theorem stageCmd_noRew (ch i : Nat) (wb : WB) (c : Cmd) (hwb : ∀ op ∈ wb.staged, ¬ RewOp ch i op)
    (hc : ¬ Rewinds c ch i) : ∀ op ∈ (stageCmd wb c).1.staged, ¬ RewOp ch i op := by
  have app : ∀ (op : Staged), ¬ RewOp ch i op →
      ∀ x ∈ ({ wb with staged := wb.staged ++ [op] } : WB).staged, ¬ RewOp ch i x := by
    intro op hop x hx
    simp at hx
    rcases hx with hx | hx
    · exact hwb x hx
    · rw [hx]; exact hop
  unfold stageCmd
  cases hk : c.kind
  case create =>
    simp only
    split
    · rename_i wb' hs
      intro op hop
      rcases stageCreate_ops wb wb' c.task hs op hop with h | h
      · exact hwb op h
      · rw [h]; intro hr; exact hc (Or.inl ⟨Or.inl hk, hr.1, hr.2⟩)
    · exact hwb
  case createg =>
    simp only
    split
    · exact hwb
    · have h1 := app (Staged.guardCreate c.task c.rg) (fun h => h)
      split
      · rename_i wb' hs
        intro op hop
        rcases stageCreate_ops _ wb' c.task hs op hop with h | h
        · exact h1 op h
        · rw [h]; intro hr; exact hc (Or.inl ⟨Or.inr hk, hr.1, hr.2⟩)
      · exact h1
  case claim =>
    simp only
    split
    · exact hwb
    · exact app _ (fun hr => hc (Or.inr ⟨hr.1, hr.2, Or.inl hk⟩))
  case advance =>
    simp only
    exact app _ (fun hr => hc (Or.inr ⟨hr.1, hr.2, Or.inr (Or.inl hk)⟩))
  case gc =>
    simp only
    split
    · exact hwb
    · exact app _ (fun h => h)
  all_goals
    simp only
    split
    · exact hwb
    · apply app
      intro hr
      rcases hr.2.2 with h | h
      · first
          | exact hc (Or.inr ⟨hr.1, hr.2.1, Or.inr (Or.inr (Or.inl h))⟩)
          | (rw [hk] at h; cases h)
      · first
          | exact hc (Or.inr ⟨hr.1, hr.2.1, Or.inr (Or.inr (Or.inr h))⟩)
          | (rw [hk] at h; cases h.1)

theorem stageAll_noRew (ch i : Nat) (cs : List Cmd) : ∀ (wb wb' : WB) (rs : List (Option String)),
    (∀ op ∈ wb.staged, ¬ RewOp ch i op) → (∀ c ∈ cs, ¬ Rewinds c ch i) →
    stageAll wb cs = .ok (wb', rs) → ∀ op ∈ wb'.staged, ¬ RewOp ch i op := by
  induction cs with
  | nil => intro wb wb' rs h _ hs; simp [stageAll] at hs; rw [← hs.1]; exact h
  | cons c rest ih =>
    intro wb wb' rs h hnr hs
    have h1 := stageCmd_noRew ch i wb c h (hnr c List.mem_cons_self)
    simp only [stageAll] at hs
    split at hs
    · rename_i wb1 heq
      have e : wb1 = (stageCmd wb c).1 := by rw [heq]
      split at hs
      · simp at hs
      · rename_i wb2 rs2 hr
        simp at hs
        rw [← hs.1]
        exact ih wb1 wb2 rs2 (by rw [e]; exact h1) (fun x hx => hnr x (List.mem_cons_of_mem _ hx)) hr
    · rename_i wb1 e0 heq
      have e : wb1 = (stageCmd wb c).1 := by rw [heq]
      split at hs
      · split at hs
        · simp at hs
        · rename_i wb2 rs2 hr
          simp at hs
          rw [← hs.1]
          exact ih wb1 wb2 rs2 (by rw [e]; exact h1) (fun x hx => hnr x (List.mem_cons_of_mem _ hx)) hr
      · simp at hs


theorem safe_applyIndividually (ch i : Nat) (cs : List Cmd) (db : State) (h : Safe db ch i)
    (hr : ∀ c ∈ cs, ¬ Rewinds c ch i) : Safe (applyIndividually db cs).1 ch i := by
  induction cs generalizing db with
  | nil => exact h
  | cons c rest ih =>
    simp only [applyIndividually]
    have h1 := safe_applySingle db c ch i h (hr c List.mem_cons_self)
    split
    · rename_i db' e heq; rw [heq] at h1; exact h1
    · rename_i db' r heq
      rw [heq] at h1
      have h2 := ih db' h1 (fun x hx => hr x (List.mem_cons_of_mem _ hx))
      split
      · rename_i db'' e heq2; rw [heq2] at h2; exact h2
      · rename_i db'' rs heq2; rw [heq2] at h2; exact h2

/-- ONE ApplyBatch of any size keeps a protected row non-abortable if none of its commands rewinds it -/
theorem safe_applyBatch (db : State) (cs : List Cmd) (ch i : Nat) (h : Safe db ch i)
    (hr : ∀ c ∈ cs, ¬ Rewinds c ch i) : Safe (applyBatch db cs).1 ch i := by
  unfold applyBatch
  split
  · rename_i c
    have h1 := safe_applySingle db c ch i h (hr c List.mem_cons_self)
    split
    · rename_i db' r heq; rw [heq] at h1; exact h1
    · rename_i db' e heq; rw [heq] at h1; exact h1
  · split
    · rename_i db' rs heq
      unfold applyOnce at heq
      split at heq
      · simp at heq
      · rename_i wb rs0 hst
        split at heq
        · simp at heq
        · rename_i ws hc
          simp at heq
          rw [← heq.1]
          have hops := stageAll_noRew ch i cs {} wb rs0 (fun op hop => by cases hop) hr hst
          have s0 : SafeB db db {} ch i := ⟨h, fun t ht => h t (by simpa [Ov.task?] using ht)⟩
          exact safeB_commit db ch i wb.staged db {} ws s0 hc hops
    · split
      · exact safe_applyIndividually ch i cs db h hr
      · exact h

theorem safe_run_batches (ls : List Line) (ch i : Nat) (hr : ∀ l ∈ ls, ¬ LineRewinds l ch i) (s : State) (hs : Safe s ch i) :
    Safe (run s ls) ch i := by
  induction ls generalizing s with
  | nil => exact hs
  | cons l rest ih =>
    simp only [run, List.foldl]
    apply ih (fun l' hl' => hr l' (List.mem_cons_of_mem _ hl'))
    have hl := hr l List.mem_cons_self
    cases l with
    | setmeta c m =>
      intro t ht
      apply hs t
      simp only [stepLine, setMeta] at ht
      split at ht <;> exact ht
    | batch cs =>
      exact safe_applyBatch s cs ch i hs (fun c hc hrw => hl ⟨c, hc, hrw⟩)

/-- **No abort after commit — multi-command batches included (partial: `NoRewind`).**  Once a cutover on
    task `(ch,i)` was accepted, then after EVERY later history of ApplyBatch calls of ANY size (incl.
    the stale-commit fallback) and metadata writes that contains no rewinding command for that task, an
    AbortChannelMigration aimed at the task is refused — as a single call it leaves the store
    unchanged, and inside any further batch its closure writes nothing (`c17_abort_refused_in_batch`). -/
theorem c17_no_abort_after_commit_batches (db : State) (c0 : Cmd) (hk : c0.kind = .commit ∨ c0.kind = .promote)
    (hacc : (applySingle db c0).1 ≠ db)
    (ls : List Line) (NoRewind : ∀ l ∈ ls, ¬ LineRewinds l c0.g.chan c0.g.id)
    (a : Cmd) (ha : a.kind = .abort) (hat : a.g.chan = c0.g.chan ∧ a.g.id = c0.g.id) :
    (applySingle (run (applySingle db c0).1 ls) a).1 = run (applySingle db c0).1 ls := by
  apply abort_refused _ a ha
  rw [hat.1, hat.2]
  exact safe_run_batches ls _ _ NoRewind _ (cutover_establishes_safe db c0 hk hacc)

/-- non-vacuity: after the commit, a two-command batch (fence renewal + GC) and then the abort: refused -/
example :
    let later : List Line := [.batch [{ kind := .gc, before := 5, limit := 1 }, exCreate (exTask 2 1 1 1 1)]]
    (applySingle (run exCommitted later) (exAbort 11 7 2 2 1 1)).1 = run exCommitted later := by
  decide

end WK.C17

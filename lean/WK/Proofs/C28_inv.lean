import WK.Proofs.C28_lists
/-
  C28 — the inductive invariant of the SEND-path LTS and its preservation by
  every transition (any interleaving, any number of sessions and shards).
-/
namespace WK.C28

structure Inv (st : St) : Prop where
  /-- an open session's admitted SENDs = acked ones, then the running batch's, then the queued ones -/
  pendA : ∀ s, (st.sess s).closed = true ∨
      (st.sess s).admitted = (st.sess s).acked ++ (itemsOf s st.inflight ++ itemsOf s st.queue)
  ackPre : ∀ s, (st.sess s).acked <+: (st.sess s).admitted
  /-- the WaitGroup counts exactly the work that is somewhere in the pipeline -/
  wgEq : st.wg = st.pend.length + st.queue.length + st.inflight.length
  admPre : ∀ s, ((st.sess s).admitted ++ itemsOf s st.pend) <+: (st.sess s).sent
  admFull : ∀ s, (st.sess s).closed = true ∨ (st.sess s).admitted ++ itemsOf s st.pend = (st.sess s).sent
  pendOne : ∀ s, (itemsOf s st.pend).length ≤ 1
  sentRange : ∀ s, (st.sess s).sent = List.range (st.sess s).sent.length
  lateOk : ∀ s n, n ∈ (st.sess s).late →
      n < (st.sess s).sent.length ∧ n ∉ (st.sess s).admitted ∧ n ∉ itemsOf s st.pend
  drainedOk : st.drained = true → st.fence = true ∧ st.wg = 0
  pushOrd : ∀ s, (st.sess s).pushed.Pairwise (· < ·) ∧ ∀ k ∈ (st.sess s).pushed, k < (st.sess s).pushNext

theorem inv_init : Inv ({} : St) := by
  constructor <;> intros <;> simp_all

theorem Inv.mem_lt {st : St} (hI : Inv st) {s m : Nat}
    (h : m ∈ (st.sess s).admitted ++ itemsOf s st.pend) : m < (st.sess s).sent.length := by
  have h1 := (hI.admPre s).subset h
  rw [hI.sentRange s] at h1
  exact List.mem_range.mp h1

theorem range_snoc (l : List Nat) (h : l = List.range l.length) :
    l ++ [l.length] = List.range (l ++ [l.length]).length := by
  rw [List.length_append, List.length_singleton, List.range_succ, ← h]

variable {shardOf : Nat → Nat} {st st' : St}

theorem inv_recv {s : Nat} (hI : Inv st) (h : step shardOf st (.recv s) = some st') : Inv st' := by
  simp only [step] at h
  by_cases hp : itemsOf s st.pend = []
  · simp only [hp, ne_eq, not_true_eq_false, if_false] at h
    have hsr := range_snoc _ (hI.sentRange s)
    have hlate : ∀ n, n ∈ (if st.fence = true then (st.sess s).late ++ [(st.sess s).sent.length] else (st.sess s).late) →
        n < (st.sess s).sent.length + 1 ∧ n ∉ (st.sess s).admitted ∧ (n ∈ (st.sess s).late ∨ n = (st.sess s).sent.length) := by
      intro n hn
      have hcase : n ∈ (st.sess s).late ∨ n = (st.sess s).sent.length := by
        split at hn
        · rcases List.mem_append.mp hn with h1 | h1
          · exact Or.inl h1
          · exact Or.inr (by simpa using h1)
        · exact Or.inl hn
      rcases hcase with h1 | h1
      · have := hI.lateOk s n h1
        exact ⟨by omega, this.2.1, Or.inl h1⟩
      · subst h1
        refine ⟨by omega, ?_, Or.inr rfl⟩
        intro hm
        have := hI.mem_lt (List.mem_append_left _ hm)
        omega
    by_cases hc : (st.sess s).closed = true
    · simp only [hc, if_true] at h
      cases h
      constructor
      · intro x; by_cases hx : x = s
        · subst hx; simp [hc]
        · simpa [upd_ne _ _ hx] using hI.pendA x
      · intro x; by_cases hx : x = s
        · subst hx; simpa using hI.ackPre x
        · simpa [upd_ne _ _ hx] using hI.ackPre x
      · simpa using hI.wgEq
      · intro x; by_cases hx : x = s
        · subst hx; simpa using (hI.admPre x).trans (List.prefix_append _ _)
        · simpa [upd_ne _ _ hx] using hI.admPre x
      · intro x; by_cases hx : x = s
        · subst hx; simp [hc]
        · simpa [upd_ne _ _ hx] using hI.admFull x
      · simpa using hI.pendOne
      · intro x; by_cases hx : x = s
        · subst hx; simpa using hsr
        · simpa [upd_ne _ _ hx] using hI.sentRange x
      · intro x n; by_cases hx : x = s
        · subst hx
          simp only [upd_same]
          intro hn
          obtain ⟨a, b, _⟩ := hlate n hn
          exact ⟨by simpa using a, b, by simp [hp]⟩
        · simpa [upd_ne _ _ hx] using hI.lateOk x n
      · simpa using hI.drainedOk
      · intro x; by_cases hx : x = s
        · subst hx; simpa using hI.pushOrd x
        · simpa [upd_ne _ _ hx] using hI.pushOrd x
    · simp only [hc, Bool.false_eq_true, if_false] at h
      by_cases hf : st.fence = true
      · simp only [hf, if_true] at h
        cases h
        constructor
        · intro x; by_cases hx : x = s
          · subst hx; simp
          · simpa [upd_ne _ _ hx] using hI.pendA x
        · intro x; by_cases hx : x = s
          · subst hx; simpa using hI.ackPre x
          · simpa [upd_ne _ _ hx] using hI.ackPre x
        · simpa using hI.wgEq
        · intro x; by_cases hx : x = s
          · subst hx; simpa using (hI.admPre x).trans (List.prefix_append _ _)
          · simpa [upd_ne _ _ hx] using hI.admPre x
        · intro x; by_cases hx : x = s
          · subst hx; simp
          · simpa [upd_ne _ _ hx] using hI.admFull x
        · simpa using hI.pendOne
        · intro x; by_cases hx : x = s
          · subst hx; simpa using hsr
          · simpa [upd_ne _ _ hx] using hI.sentRange x
        · intro x n; by_cases hx : x = s
          · subst hx
            simp only [upd_same]
            intro hn
            have hn' : n ∈ (if st.fence = true then (st.sess x).late ++ [(st.sess x).sent.length] else (st.sess x).late) := by
              simpa [hf] using hn
            obtain ⟨a, b, _⟩ := hlate n hn'
            exact ⟨by simpa using a, b, by simp [hp]⟩
          · simpa [upd_ne _ _ hx] using hI.lateOk x n
        · intro hd; have := hI.drainedOk (by simpa using hd); simp_all
        · intro x; by_cases hx : x = s
          · subst hx; simpa using hI.pushOrd x
          · simpa [upd_ne _ _ hx] using hI.pushOrd x
      · simp only [hf, Bool.false_eq_true, if_false] at h
        cases h
        have hadm : (st.sess s).admitted = (st.sess s).sent := by
          have := hI.admFull s
          simpa [hc, hp] using this
        constructor
        · intro x; by_cases hx : x = s
          · subst hx; have := hI.pendA x; simp_all
          · simpa [upd_ne _ _ hx] using hI.pendA x
        · intro x; by_cases hx : x = s
          · subst hx; simpa using hI.ackPre x
          · simpa [upd_ne _ _ hx] using hI.ackPre x
        · have := hI.wgEq; simp; omega
        · intro x; by_cases hx : x = s
          · subst hx; simp [itemsOf_append, hp, itemsOf_single_same, hadm]
          · have : itemsOf x [(s, (st.sess s).sent.length)] = [] := itemsOf_single_ne _ (Ne.symm hx)
            simpa [upd_ne _ _ hx, itemsOf_append, this] using hI.admPre x
        · intro x; by_cases hx : x = s
          · subst hx; simp [itemsOf_append, hp, itemsOf_single_same, hadm]
          · have : itemsOf x [(s, (st.sess s).sent.length)] = [] := itemsOf_single_ne _ (Ne.symm hx)
            simpa [upd_ne _ _ hx, itemsOf_append, this] using hI.admFull x
        · intro x; by_cases hx : x = s
          · subst hx; simp [itemsOf_append, hp, itemsOf_single_same]
          · have : itemsOf x [(s, (st.sess s).sent.length)] = [] := itemsOf_single_ne _ (Ne.symm hx)
            simpa [itemsOf_append, this] using hI.pendOne x
        · intro x; by_cases hx : x = s
          · subst hx; simpa using hsr
          · simpa [upd_ne _ _ hx] using hI.sentRange x
        · intro x n; by_cases hx : x = s
          · subst hx
            simp only [upd_same]
            intro hn
            have := hI.lateOk x n hn
            refine ⟨by simp; omega, this.2.1, ?_⟩
            simp [itemsOf_append, hp, itemsOf_single_same]
            omega
          · have : itemsOf x [(s, (st.sess s).sent.length)] = [] := itemsOf_single_ne _ (Ne.symm hx)
            simpa [upd_ne _ _ hx, itemsOf_append, this] using hI.lateOk x n
        · intro hd
          have := (hI.drainedOk (by simpa using hd)).1
          exact absurd this hf
        · intro x; by_cases hx : x = s
          · subst hx; simpa using hI.pushOrd x
          · simpa [upd_ne _ _ hx] using hI.pushOrd x
  · simp [hp] at h


theorem inv_enq {s : Nat} {ok : Bool} (hI : Inv st) (h : step shardOf st (.enq s ok) = some st') : Inv st' := by
  simp only [step] at h
  cases hpf : popFirst s st.pend with
  | none => simp [hpf] at h
  | some pr =>
    obtain ⟨n, rest⟩ := pr
    simp only [hpf] at h
    obtain ⟨hs1, hs2, hs3⟩ := popFirst_spec s _ _ _ hpf
    have hrest : itemsOf s rest = [] := by
      have := hI.pendOne s
      rw [hs1] at this
      simpa using this
    have hpend : itemsOf s st.pend = [n] := by rw [hs1, hrest]
    cases ok with
    | true =>
      simp only [if_true] at h
      cases h
      constructor
      · intro x; by_cases hx : x = s
        · subst hx
          rcases hI.pendA x with h1 | h1
          · left; simpa using h1
          · right; simp [itemsOf_append, itemsOf_single_same, h1]
        · have : itemsOf x [(s, n)] = [] := itemsOf_single_ne _ (Ne.symm hx)
          simpa [upd_ne _ _ hx, itemsOf_append, this] using hI.pendA x
      · intro x; by_cases hx : x = s
        · subst hx; simpa using (hI.ackPre x).trans (List.prefix_append _ _)
        · simpa [upd_ne _ _ hx] using hI.ackPre x
      · have := hI.wgEq; simp; omega
      · intro x; by_cases hx : x = s
        · subst hx; have := hI.admPre x; simp_all
        · simpa [upd_ne _ _ hx, hs2 x hx] using hI.admPre x
      · intro x; by_cases hx : x = s
        · subst hx; have := hI.admFull x; simp_all
        · simpa [upd_ne _ _ hx, hs2 x hx] using hI.admFull x
      · intro x; by_cases hx : x = s
        · subst hx; simp [hrest]
        · simpa [hs2 x hx] using hI.pendOne x
      · intro x; by_cases hx : x = s
        · subst hx; simpa using hI.sentRange x
        · simpa [upd_ne _ _ hx] using hI.sentRange x
      · intro x m; by_cases hx : x = s
        · subst hx
          simp only [upd_same]
          intro hm
          have := hI.lateOk x m hm
          refine ⟨this.1, ?_, by simp [hrest]⟩
          simp only [List.mem_append, List.mem_singleton, not_or]
          refine ⟨this.2.1, ?_⟩
          intro hmn
          apply this.2.2
          rw [hpend, hmn]; simp
        · simpa [upd_ne _ _ hx, hs2 x hx] using hI.lateOk x m
      · simpa using hI.drainedOk
      · intro x; by_cases hx : x = s
        · subst hx; simpa using hI.pushOrd x
        · simpa [upd_ne _ _ hx] using hI.pushOrd x
    | false =>
      simp only [Bool.false_eq_true, if_false] at h
      cases h
      constructor
      · intro x; by_cases hx : x = s
        · subst hx; simp
        · simpa [upd_ne _ _ hx] using hI.pendA x
      · intro x; by_cases hx : x = s
        · subst hx; simpa using hI.ackPre x
        · simpa [upd_ne _ _ hx] using hI.ackPre x
      · have := hI.wgEq; simp; omega
      · intro x; by_cases hx : x = s
        · subst hx
          have := hI.admPre x
          rw [hpend] at this
          simpa [hrest] using (List.prefix_append _ _).trans this
        · simpa [upd_ne _ _ hx, hs2 x hx] using hI.admPre x
      · intro x; by_cases hx : x = s
        · subst hx; simp
        · simpa [upd_ne _ _ hx, hs2 x hx] using hI.admFull x
      · intro x; by_cases hx : x = s
        · subst hx; simp [hrest]
        · simpa [hs2 x hx] using hI.pendOne x
      · intro x; by_cases hx : x = s
        · subst hx; simpa using hI.sentRange x
        · simpa [upd_ne _ _ hx] using hI.sentRange x
      · intro x m; by_cases hx : x = s
        · subst hx
          simp only [upd_same]
          intro hm
          have := hI.lateOk x m hm
          exact ⟨this.1, this.2.1, by simp [hrest]⟩
        · simpa [upd_ne _ _ hx, hs2 x hx] using hI.lateOk x m
      · intro hd; have := hI.drainedOk (by simpa using hd); simp_all
      · intro x; by_cases hx : x = s
        · subst hx; simpa using hI.pushOrd x
        · simpa [upd_ne _ _ hx] using hI.pushOrd x

theorem inv_take {sh k : Nat} (hI : Inv st) (h : step shardOf st (.take sh k) = some st') : Inv st' := by
  simp only [step] at h
  split at h
  · cases h
  · cases h
    constructor
    · intro x
      have key : itemsOf x (takeP (fun it => shardOf it.1 == sh) k st.queue).1 ++
          itemsOf x (takeP (fun it => shardOf it.1 == sh) k st.queue).2 = itemsOf x st.queue := by
        by_cases hsx : shardOf x = sh
        · exact (takeP_in _ x (by intro it hit; simp [hit, hsx]) k st.queue).symm
        · obtain ⟨a, b⟩ := takeP_out (fun it => shardOf it.1 == sh) x (by intro it hit; simp [hit, hsx]) k st.queue
          rw [a, b]; simp
      rcases hI.pendA x with h1 | h1
      · exact Or.inl h1
      · right
        simp only [itemsOf_append, List.append_assoc, key]
        exact h1
    · exact hI.ackPre
    · have := hI.wgEq
      have hl := takeP_length (fun it => shardOf it.1 == sh) k st.queue
      simp only [List.length_append]
      omega
    · exact hI.admPre
    · exact hI.admFull
    · exact hI.pendOne
    · exact hI.sentRange
    · exact hI.lateOk
    · exact hI.drainedOk
    · exact hI.pushOrd

theorem inv_ack {s : Nat} (hI : Inv st) (h : step shardOf st (.ack s) = some st') : Inv st' := by
  simp only [step] at h
  by_cases hc : (st.sess s).closed = true
  · simp [hc] at h
  · simp only [hc, Bool.false_eq_true, if_false] at h
    cases hpf : popFirst s st.inflight with
    | none => simp [hpf] at h
    | some pr =>
      obtain ⟨n, rest⟩ := pr
      simp only [hpf] at h
      cases h
      obtain ⟨hs1, hs2, hs3⟩ := popFirst_spec s _ _ _ hpf
      have hadm : (st.sess s).admitted = (st.sess s).acked ++ (n :: itemsOf s rest ++ itemsOf s st.queue) := by
        rcases hI.pendA s with h1 | h1
        · exact absurd h1 hc
        · rw [h1, hs1]
      constructor
      · intro x; by_cases hx : x = s
        · subst hx; right; simp [hadm]
        · simpa [upd_ne _ _ hx, hs2 x hx] using hI.pendA x
      · intro x; by_cases hx : x = s
        · subst hx
          simp only [upd_same]
          exact ⟨itemsOf x rest ++ itemsOf x st.queue, by simp [hadm]⟩
        · simpa [upd_ne _ _ hx] using hI.ackPre x
      · have := hI.wgEq; simp; omega
      · intro x; by_cases hx : x = s
        · subst hx; simpa using hI.admPre x
        · simpa [upd_ne _ _ hx] using hI.admPre x
      · intro x; by_cases hx : x = s
        · subst hx; have := hI.admFull x; simp_all
        · simpa [upd_ne _ _ hx] using hI.admFull x
      · exact hI.pendOne
      · intro x; by_cases hx : x = s
        · subst hx; simpa using hI.sentRange x
        · simpa [upd_ne _ _ hx] using hI.sentRange x
      · intro x m; by_cases hx : x = s
        · subst hx; simpa using hI.lateOk x m
        · simpa [upd_ne _ _ hx] using hI.lateOk x m
      · intro hd; have := hI.drainedOk (by simpa using hd); simp_all
      · intro x; by_cases hx : x = s
        · subst hx; simpa using hI.pushOrd x
        · simpa [upd_ne _ _ hx] using hI.pushOrd x

theorem inv_abort {sh : Nat} (hI : Inv st) (h : step shardOf st (.abort sh) = some st') : Inv st' := by
  simp only [step] at h
  split at h
  · cases h
  · cases h
    constructor
    · intro x
      by_cases hd : (st.inflight.filter (fun it => shardOf it.1 == sh)).any (fun it => it.1 == x) = true
      · left; simp [hd]
      · simp only [hd, Bool.false_eq_true, if_false]
        have hk : itemsOf x (st.inflight.filter (fun it => !(shardOf it.1 == sh))) = itemsOf x st.inflight := by
          apply itemsOf_filter_keep
          intro it hit hx
          by_cases hp : (shardOf it.1 == sh) = true
          · exfalso; apply hd
            rw [List.any_eq_true]
            exact ⟨it, List.mem_filter.mpr ⟨hit, hp⟩, by simp [hx]⟩
          · simp [hp]
        rw [hk]; exact hI.pendA x
    · intro x; have := hI.ackPre x; dsimp only; split <;> simpa using this
    · have := hI.wgEq
      have hl := filter_split_length (fun it => shardOf it.1 == sh) st.inflight
      simp only
      omega
    · intro x; have := hI.admPre x; dsimp only; split <;> simpa using this
    · intro x
      dsimp only
      rcases hI.admFull x with h1 | h1
      · left; split <;> simp [h1]
      · split
        · left; rfl
        · right; exact h1
    · exact hI.pendOne
    · intro x; have := hI.sentRange x; dsimp only; split <;> simpa using this
    · intro x m; have := hI.lateOk x m; dsimp only; split <;> simpa using this
    · intro hd; have := hI.drainedOk (by simpa using hd); simp_all
    · intro x; have := hI.pushOrd x; dsimp only; split <;> simpa using this

theorem inv_close {s : Nat} (hI : Inv st) (h : step shardOf st (.close s) = some st') : Inv st' := by
  simp only [step] at h
  cases h
  constructor
  · intro x; by_cases hx : x = s
    · subst hx; simp
    · simpa [upd_ne _ _ hx] using hI.pendA x
  · intro x; by_cases hx : x = s
    · subst hx; simpa using hI.ackPre x
    · simpa [upd_ne _ _ hx] using hI.ackPre x
  · exact hI.wgEq
  · intro x; by_cases hx : x = s
    · subst hx; simpa using hI.admPre x
    · simpa [upd_ne _ _ hx] using hI.admPre x
  · intro x; by_cases hx : x = s
    · subst hx; simp
    · simpa [upd_ne _ _ hx] using hI.admFull x
  · exact hI.pendOne
  · intro x; by_cases hx : x = s
    · subst hx; simpa using hI.sentRange x
    · simpa [upd_ne _ _ hx] using hI.sentRange x
  · intro x m; by_cases hx : x = s
    · subst hx; simpa using hI.lateOk x m
    · simpa [upd_ne _ _ hx] using hI.lateOk x m
  · exact hI.drainedOk
  · intro x; by_cases hx : x = s
    · subst hx; simpa using hI.pushOrd x
    · simpa [upd_ne _ _ hx] using hI.pushOrd x

theorem inv_push {s : Nat} (hI : Inv st) (h : step shardOf st (.push s) = some st') : Inv st' := by
  simp only [step] at h
  have hpo : ∀ z : Sess, (z.pushed.Pairwise (· < ·) ∧ ∀ k ∈ z.pushed, k < z.pushNext) →
      ((z.pushed ++ [z.pushNext]).Pairwise (· < ·) ∧ ∀ k ∈ z.pushed ++ [z.pushNext], k < z.pushNext + 1) := by
    intro z ⟨h1, h2⟩
    refine ⟨List.pairwise_append.mpr ⟨h1, by simp, ?_⟩, ?_⟩
    · intro a ha b hb
      simp at hb; subst hb; exact h2 a ha
    · intro k hk
      rcases List.mem_append.mp hk with h3 | h3
      · have := h2 k h3; omega
      · simp at h3; omega
  split at h <;> cases h <;> constructor
  all_goals first
    | exact hI.wgEq
    | exact hI.pendOne
    | exact hI.drainedOk
    | skip
  all_goals
    intro x
    by_cases hx : x = s
  all_goals first
    | (subst hx; simp only [upd_same]; first
        | exact hI.pendA x | exact hI.ackPre x | exact hI.admPre x | exact hI.admFull x
        | exact hI.sentRange x | exact hI.lateOk x | exact hpo _ (hI.pushOrd x)
        | (have := hI.pushOrd x; exact ⟨this.1, fun k hk => Nat.lt_succ_of_lt (this.2 k hk)⟩))
    | (simp only [upd_ne _ _ hx]; first
        | exact hI.pendA x | exact hI.ackPre x | exact hI.admPre x | exact hI.admFull x
        | exact hI.sentRange x | exact hI.lateOk x | exact hI.pushOrd x)

theorem inv_drainStart (hI : Inv st) (h : step shardOf st .drainStart = some st') : Inv st' := by
  simp only [step] at h
  cases h
  exact ⟨hI.pendA, hI.ackPre, hI.wgEq, hI.admPre, hI.admFull, hI.pendOne, hI.sentRange, hI.lateOk,
    fun hd => ⟨rfl, (hI.drainedOk hd).2⟩, hI.pushOrd⟩

theorem inv_drainDone (hI : Inv st) (h : step shardOf st .drainDone = some st') : Inv st' := by
  simp only [step] at h
  split at h
  · rename_i hc
    cases h
    exact ⟨hI.pendA, hI.ackPre, hI.wgEq, hI.admPre, hI.admFull, hI.pendOne, hI.sentRange, hI.lateOk,
      fun _ => ⟨hc.1, hc.2.1⟩, hI.pushOrd⟩
  · cases h

theorem inv_step (l : Lbl) (hI : Inv st) (h : step shardOf st l = some st') : Inv st' := by
  cases l with
  | recv s => exact inv_recv hI h
  | enq s ok => exact inv_enq hI h
  | take sh k => exact inv_take hI h
  | ack s => exact inv_ack hI h
  | abort sh => exact inv_abort hI h
  | close s => exact inv_close hI h
  | push s => exact inv_push hI h
  | drainStart => exact inv_drainStart hI h
  | drainDone => exact inv_drainDone hI h

theorem inv_reach {st : St} (h : Reach shardOf st) : Inv st := by
  induction h with
  | init => exact inv_init
  | step l _ hs ih => exact inv_step l ih hs

end WK.C28

import WK.Model.C17
/-
  C17 — list / row-store lemmas: how `putKV`, `putTaskRow` and filters act on the
  lookups `task?`, `meta?`, `activeIdx?`.
-/
namespace WK.C17

theorem find_filter_of_imp {α : Type} (p q : α → Bool) (h : ∀ x, q x = true → p x = true) (l : List α) :
    (l.filter p).find? q = l.find? q := by
  induction l with
  | nil => rfl
  | cons x xs ih =>
    rw [List.filter_cons]
    cases hp : p x with
    | true =>
      simp only [if_true, List.find?_cons]
      cases hq : q x <;> simp [ih]
    | false =>
      have hq : q x = false := by
        cases hq : q x with
        | false => rfl
        | true => have := h x hq; rw [hp] at this; cases this
      simp [hq, ih]

theorem find_filter_none {α : Type} (p q : α → Bool) (h : ∀ x, q x = true → p x = false) (l : List α) :
    (l.filter p).find? q = none := by
  induction l with
  | nil => rfl
  | cons x xs ih =>
    rw [List.filter_cons]
    cases hp : p x with
    | true =>
      have hq : q x = false := by
        cases hq : q x with
        | false => rfl
        | true => have := h x hq; rw [hp] at this; cases this
      simp [hq, ih]
    | false => simp [ih]

theorem find_putKV_same {α : Type} (k : Nat) (v : α) (l : List (Nat × α)) :
    (putKV k v l).find? (fun p => p.1 == k) = some (k, v) := by
  simp [putKV]

theorem find_putKV_ne {α : Type} (k k' : Nat) (h : k' ≠ k) (v : α) (l : List (Nat × α)) :
    (putKV k v l).find? (fun p => p.1 == k') = l.find? (fun p => p.1 == k') := by
  have hk : (k == k') = false := by simp; omega
  unfold putKV
  rw [List.find?_cons]
  simp only [hk]
  apply find_filter_of_imp
  intro x hx
  simp at hx ⊢
  omega

theorem find_delKV_same {α : Type} (k : Nat) (l : List (Nat × α)) :
    (l.filter (fun p => p.1 != k)).find? (fun p => p.1 == k) = none := by
  apply find_filter_none
  intro x hx
  simp at hx ⊢
  exact hx

theorem find_delKV_ne {α : Type} (k k' : Nat) (h : k' ≠ k) (l : List (Nat × α)) :
    (l.filter (fun p => p.1 != k)).find? (fun p => p.1 == k') = l.find? (fun p => p.1 == k') := by
  apply find_filter_of_imp
  intro x hx
  simp at hx ⊢
  omega

/-! task rows -/

theorem sameKey_iff (c i : Nat) (t : Task) : sameKey c i t = true ↔ t.chan = c ∧ t.id = i := by
  simp [sameKey]

theorem find_putTask_same (t : Task) (ts : List Task) :
    (putTaskRow t ts).find? (fun x => x.chan == t.chan && x.id == t.id) = some t := by
  simp [putTaskRow]

theorem find_putTask_ne (t : Task) (c i : Nat) (h : ¬ (t.chan = c ∧ t.id = i)) (ts : List Task) :
    (putTaskRow t ts).find? (fun x => x.chan == c && x.id == i) = ts.find? (fun x => x.chan == c && x.id == i) := by
  have hk : (t.chan == c && t.id == i) = false := by
    cases h1 : (t.chan == c && t.id == i) with
    | false => rfl
    | true => simp at h1; exact absurd h1 h
  unfold putTaskRow
  rw [List.find?_cons]
  simp only [hk]
  apply find_filter_of_imp
  intro x hx
  simp [sameKey] at hx ⊢
  omega

theorem find_delTask_same (c i : Nat) (ts : List Task) :
    (ts.filter (fun t => !sameKey c i t)).find? (fun x => x.chan == c && x.id == i) = none := by
  apply find_filter_none
  intro x hx
  simp [sameKey] at hx ⊢
  exact hx

theorem find_delTask_ne (c i c' i' : Nat) (h : ¬ (c' = c ∧ i' = i)) (ts : List Task) :
    (ts.filter (fun t => !sameKey c i t)).find? (fun x => x.chan == c' && x.id == i') =
      ts.find? (fun x => x.chan == c' && x.id == i') := by
  apply find_filter_of_imp
  intro x hx
  simp [sameKey] at hx ⊢
  omega

end WK.C17

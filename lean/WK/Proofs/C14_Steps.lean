import WK.Proofs.C14_Refine
/-
  C14 — every Raft-valid operation succeeds on the Pebble store and preserves `Refines`.
-/
namespace WK.C14

theorem validEnts_congr (m m' : RaftStore) (hs : m'.snapshot = m.snapshot) (he : m'.entries = m.entries)
    (es : List Entry) : validEnts m' es = validEnts m es := by
  unfold validEnts RaftStore.lastIndex
  rw [hs, he]

def bump (h : Hard) (s : Snap) : Hard := if h.commit < s.index then { h with commit := s.index } else h

theorem save_none_nil (m : RaftStore) (hs : Option Hard) :
    m.save hs none [] = { m with hard := hs.getD m.hard } := by
  cases hs <;> rfl

theorem save_some_nil (m : RaftStore) (hs : Option Hard) (s : Snap) :
    m.save hs (some s) [] =
      { m with hard := bump (hs.getD m.hard) s, snapshot := s, entries := trimAfter m.entries s.index } := by
  cases hs <;> (simp only [RaftStore.save, bump, Option.getD]; split <;> rfl)

theorem setEnts_hard (m : RaftStore) (hd : Hard) (es : List Entry) :
    setEnts { m with hard := hd } es = { setEnts m es with hard := hd } := by
  cases es <;> rfl

theorem setEnts_snapshot (m : RaftStore) (es : List Entry) : (setEnts m es).snapshot = m.snapshot := by
  cases es <;> rfl

theorem setEnts_applied (m : RaftStore) (es : List Entry) : (setEnts m es).applied = m.applied := by
  cases es <;> rfl

theorem setEnts_confApplied (m : RaftStore) (es : List Entry) : (setEnts m es).confApplied = m.confApplied := by
  cases es <;> rfl

/-- result of a successful write: durable + cache both are the canonical images of `m'` -/
theorem refines_of_canon (m' : RaftStore) (conf : Conf) (ak : Nat) (hconf : m'.conf = some conf) :
    Refines { d := durOf m' (some (metaOf m' conf)) ak, cache := some (cacheOf m' (metaOf m' conf)) } m' :=
  ⟨some (metaOf m' conf), ak, rfl, ⟨conf, hconf, rfl⟩, Or.inr rfl⟩

theorem save_refines_none (p : PStore) (m : RaftStore) (hr : Refines p m) (h : RInv m)
    (hs : Option Hard) (es : List Entry) (hv : validSave m hs none es = true) :
    ∃ p', p.save hs none es = .ok p' ∧ Refines p' (m.save hs none es) := by
  obtain ⟨mt, ak, hd, hm, hc⟩ := hr
  obtain ⟨c0, hc0, heff⟩ := effMeta_eq m mt ak hm
  simp only [validSave, Bool.and_eq_true] at hv
  obtain ⟨⟨_, hen⟩, hcf⟩ := hv
  obtain ⟨conf, hconf⟩ := Option.isSome_iff_exists.1 hcf
  have hen' : validEnts m es = true := by
    rw [← hen]; exact (validEnts_congr m _ (save_nil_entries m hs).2 (save_nil_entries m hs).1 es).symm
  have h2 : RInv (setEnts m es) := rinv_set_entries m h es hen'
  have e1 := applyEnts_canon m h (effMeta m mt) (by rw [heff]; rfl) (Or.inl (by rw [heff]; rfl)) mt ak es hen'
  have hsave : m.save hs none es = { setEnts m es with hard := hs.getD m.hard } := by
    rw [save_decomp, save_none_nil, setEnts_hard]
  rw [hsave] at hconf ⊢
  have e2 := applyFinish_canon (setEnts m es) h2 (effMeta m mt)
    (by rw [heff, setEnts_snapshot]; rfl) (by rw [heff, setEnts_applied]; rfl) mt ak (hs.getD m.hard) hs.isSome
    (by intro hp; cases hs with
        | none => cases es <;> rfl
        | some x => cases hp) conf hconf
  refine ⟨_, ?_, refines_of_canon _ conf ak hconf⟩
  unfold PStore.save
  apply flush_canon p m h mt ak hd hm hc
  simp only [saveApply, e1]
  exact e2

/-- the state after the snapshot part of a save -/
def snapped (m : RaftStore) (s : Snap) : RaftStore :=
  { m with snapshot := s, entries := trimAfter m.entries s.index }

theorem save_some_eq (m : RaftStore) (hs : Option Hard) (s : Snap) (es : List Entry) :
    m.save hs (some s) es = { setEnts (snapped m s) es with hard := bump (hs.getD m.hard) s } := by
  rw [save_decomp, save_some_nil, ← setEnts_hard]; rfl

theorem filter_above_id (s : Nat) (m1 : RaftStore) (hsn : m1.snapshot.index = s) (es : List Entry)
    (hen : validEnts m1 es = true) :
    es.filter (fun e => decide (¬ e.index ≤ s)) = es := by
  cases es with
  | nil => rfl
  | cons e r =>
    simp only [validEnts, Bool.and_eq_true, decide_eq_true_eq] at hen
    obtain ⟨⟨⟨⟨hc, _⟩, hlo⟩, _⟩, _⟩ := hen
    apply List.filter_eq_self.2
    intro x hx
    have := consec_ge _ _ hc x hx
    simp; omega

/-- the snapshot-carrying write (`Save` with a snapshot, or `ReplaceSnapshot`) on corresponding states -/
theorem snap_write_refines (p : PStore) (m : RaftStore) (hr : Refines p m) (h : RInv m)
    (hs : Option Hard) (s : Snap) (es : List Entry) (allow : Bool)
    (hchk : ∀ x : Meta, x.applied = m.applied → snapCheck (cacheOf m x) s allow = none)
    (hs0 : s.index ≠ 0) (hmax : s.index < maxU64) (hle : m.snapshot.index ≤ s.index)
    (h1 : RInv (snapped m s)) (hen : validEnts (snapped m s) es = true)
    (conf : Conf) (hconf : (m.save hs (some s) es).conf = some conf) :
    ∃ p', p.flush (fun d c => saveApply d c { hs := hs, snap := some s, ents := es, allowReplace := allow }) = .ok p' ∧
      Refines p' (m.save hs (some s) es) := by
  obtain ⟨mt, ak, hd, hm, hc⟩ := hr
  obtain ⟨c0, hc0, heff⟩ := effMeta_eq m mt ak hm
  have hxa : (effMeta m mt).applied = m.applied := by rw [heff]; rfl
  have hxf : (effMeta m mt).first = m.snapshot.index + 1 := by rw [heff]; rfl
  have hxl : (effMeta m mt).last = m.snapshot.index + m.entries.length := by rw [heff]; rfl
  have eS : applySnap (durOf m mt ak) (cacheOf m (effMeta m mt)) (hs.getD (cacheOf m (effMeta m mt)).hard) s allow
      = .ok (durOf (snapped m s) mt ak, cacheOf (snapped m s) { effMeta m mt with first := s.index + 1 },
             bump (hs.getD m.hard) s) :=
    applySnap_canon m (effMeta m mt) mt ak (hs.getD m.hard) s allow (hchk _ hxa) hs0 hmax
  have hfil := filter_above_id s.index (snapped m s) rfl es hen
  have htrim : (snapped m s).entries = m.entries.drop (s.index - m.snapshot.index) := save_snap_entries m h s
  have eE := applyEnts_canon (snapped m s) h1 { effMeta m mt with first := s.index + 1 } rfl
    (by
      show (effMeta m mt).last = s.index + (snapped m s).entries.length ∨
        ((effMeta m mt).last ≤ s.index ∧ (snapped m s).entries = [])
      rw [htrim, hxl, List.length_drop]
      by_cases hk : s.index - m.snapshot.index ≤ m.entries.length
      · left; omega
      · right; exact ⟨by omega, List.drop_eq_nil_of_le (by omega)⟩)
    mt ak es hen
  have h2 : RInv (setEnts (snapped m s) es) := rinv_set_entries _ h1 es hen
  rw [save_some_eq] at hconf ⊢
  have eF := applyFinish_canon (setEnts (snapped m s) es) h2 { effMeta m mt with first := s.index + 1 }
    (by rw [setEnts_snapshot]; rfl) (by rw [setEnts_applied]; exact hxa) mt ak (bump (hs.getD m.hard) s) true
    (by intro hp; cases hp) conf hconf
  refine ⟨_, ?_, refines_of_canon _ conf ak hconf⟩
  apply flush_canon p m h mt ak hd hm hc
  have hgt : s.index > 0 := by omega
  simp only [saveApply, hgt, if_true, hfil]
  rw [eS]
  simp only [eE]
  exact eF

theorem planSnapshot_ok (m : RaftStore) (h : RInv m) (mt : Option Meta) (ak : Nat) (hm : MetaRel m mt ak)
    (s : Snap) (hv : validSnap m s = true) : planSnapshot (durOf m mt ak) s = .ok () := by
  unfold planSnapshot
  rw [viewErr_false m h mt ak hm]
  simp only [validSnap, Bool.and_eq_true, Bool.or_eq_true, decide_eq_true_eq] at hv
  obtain ⟨⟨⟨hidx, hmax⟩, hterm⟩, hcanon⟩ := hv
  have hs0 : s.index ≠ 0 := by
    rcases hidx with hlt | ⟨hne, _⟩
    · omega
    · simpa using hne
  have ht0 : s.term ≠ 0 := by omega
  by_cases h0 : m.snapshot.index = 0
  · simp [durOf, manOf, h0, hs0, ht0]
  · simp only [durOf, manOf, h0, if_false, Bool.false_eq_true]
    rcases hidx with hlt | ⟨_, heq⟩
    · have h1 : ¬ s.index < m.snapshot.index := by omega
      simp [h1, hlt, hs0, ht0]
    · have := canonical_of_eq heq; subst this
      simp

theorem save_refines (p : PStore) (m : RaftStore) (hr : Refines p m) (h : RInv m)
    (hs : Option Hard) (sn : Option Snap) (es : List Entry) (hv : validSave m hs sn es = true) :
    ∃ p', p.save hs sn es = .ok p' ∧ Refines p' (m.save hs sn es) := by
  cases sn with
  | none => exact save_refines_none p m hr h hs es hv
  | some s =>
    have hv' := hv
    simp only [validSave, Bool.and_eq_true] at hv'
    obtain ⟨⟨hsn, hen⟩, hcf⟩ := hv'
    obtain ⟨conf, hconf⟩ := Option.isSome_iff_exists.1 hcf
    have hen' : validEnts (snapped m s) es = true := by
      rw [← hen]; rw [save_some_nil]; exact (validEnts_congr _ _ rfl rfl es).symm
    have h1 : RInv (snapped m s) := by
      have := rinv_save_snap m h none s hsn
      rw [save_some_nil] at this
      exact ⟨this.consec, this.terms, this.snapNone, this.snapSome, this.bound⟩
    have hle : m.snapshot.index ≤ s.index := by
      simp only [validSnap, Bool.and_eq_true, Bool.or_eq_true, decide_eq_true_eq] at hsn
      rcases hsn.1.1.1 with hlt | ⟨_, heq⟩
      · omega
      · have := canonical_of_eq heq; subst this; omega
    obtain ⟨mt, ak, hd, hm, hc⟩ := hr
    have hplan := planSnapshot_ok m h mt ak hm s hsn
    have hchk := fun x (_ : x.applied = m.applied) => (snapCheck_valid m x s false hsn).1
    have hmisc := snapCheck_valid m (effMeta m mt) s false hsn
    have hfil := filter_above_id s.index (snapped m s) rfl es hen'
    unfold PStore.save
    simp only [hd, hplan, hfil]
    exact snap_write_refines p m ⟨mt, ak, hd, hm, hc⟩ h hs s es false hchk hmisc.2.1 hmisc.2.2 hle h1 hen' conf hconf

theorem repl_refines (p : PStore) (m : RaftStore) (hr : Refines p m) (h : RInv m) (s : Snap)
    (hv : validReplace m s = true) :
    ∃ p', p.replaceSnapshot s = .ok p' ∧ stepM? m (.repl s) = some (m.save none (some s) []) ∧
      Refines p' (m.save none (some s) []) := by
  have hrm : RInv (stepM m (.repl s)) := rinv_step m h (.repl s) hv
  simp only [validReplace, Bool.and_eq_true, decide_eq_true_eq, ne_eq, beq_iff_eq] at hv
  obtain ⟨⟨⟨⟨⟨⟨h0, happ⟩, hle⟩, hmax⟩, hterm⟩, hcanon⟩, hcf⟩ := hv
  obtain ⟨conf, hconf⟩ := Option.isSome_iff_exists.1 hcf
  have hne : ¬ (s.index = 0 ∨ s.index ≠ m.applied) := by
    intro h'; rcases h' with h' | h'
    · exact h0 h'
    · exact h' happ
  have ht : s.term ≠ 0 := by omega
  have hlt : ¬ s.index < m.snapshot.index := by omega
  have hstep : stepM? m (.repl s) = some (m.save none (some s) []) := by
    simp only [stepM?, RaftStore.replaceSnapshot, hne, ht, hlt, if_false]
  have h1 : RInv (snapped m s) := by
    have : stepM m (.repl s) = m.save none (some s) [] := by simp [stepM, hstep]
    rw [this, save_some_nil] at hrm
    exact ⟨hrm.consec, hrm.terms, hrm.snapNone, hrm.snapSome, hrm.bound⟩
  obtain ⟨mt, ak, hd, hm, hc⟩ := hr
  have happlied : (durOf m mt ak).metaApplied = m.applied := by
    cases mt with
    | none => obtain ⟨hm, _⟩ := hm; rw [hm]; rfl
    | some x => obtain ⟨c, _, hx⟩ := hm; subst hx; rfl
  have hchk := fun x (hx : x.applied = m.applied) => snapCheck_replace m x hx s hle happ
  obtain ⟨p', hp', hr'⟩ := snap_write_refines p m ⟨mt, ak, hd, hm, hc⟩ h none s [] true hchk h0 hmax hle h1 rfl conf hconf
  refine ⟨p', ?_, hstep, hr'⟩
  unfold PStore.replaceSnapshot
  rw [hd, viewErr_false m h mt ak hm, happlied]
  simp only [Bool.false_eq_true, if_false, hne, ht]
  exact hp'

theorem conf_applied_irrel (m : RaftStore) (i : Nat) : RaftStore.conf { m with applied := i } = m.conf := rfl

theorem mark_refines (p : PStore) (m : RaftStore) (hr : Refines p m) (h : RInv m) (i : Nat) :
    ∃ p', p.markApplied i = .ok p' ∧ Refines p' (m.markApplied i) := by
  obtain ⟨mt, ak, hd, hm, hc⟩ := hr
  obtain ⟨c0, hc0, heff⟩ := effMeta_eq m mt ak hm
  have hf : (fun (d : Durable) (c : Cache) =>
        (Except.ok ({ d with appliedKey := i, logMeta := some { c.logMeta with applied := i } },
                    { c with logMeta := { c.logMeta with applied := i } }) : Except Err (Durable × Cache)))
      (durOf m mt ak) (cacheOf m (effMeta m mt))
      = .ok (durOf (m.markApplied i) (some (metaOf (m.markApplied i) c0)) i,
             cacheOf (m.markApplied i) (metaOf (m.markApplied i) c0)) := by
    rw [heff]; rfl
  refine ⟨_, flush_canon p m h mt ak hd hm hc _ _ _ hf, ?_⟩
  exact ⟨some (metaOf (m.markApplied i) c0), i, rfl, ⟨c0, hc0, rfl⟩, Or.inr rfl⟩

theorem cmark_refines (p : PStore) (m : RaftStore) (hr : Refines p m) (h : RInv m) (i : Nat) :
    ∃ p', p.markConfApplied i = .ok p' ∧ Refines p' (m.markConfApplied i) := by
  obtain ⟨mt, ak, hd, hm, hc⟩ := hr
  refine ⟨_, flush_canon p m h mt ak hd hm hc _ _ _ rfl, ?_⟩
  refine ⟨mt, ak, rfl, ?_, Or.inr ?_⟩
  · cases mt with
    | none =>
      obtain ⟨hm, hak⟩ := hm
      refine ⟨?_, hak⟩
      rw [hm]; rfl
    | some x =>
      obtain ⟨c, hc, hx⟩ := hm
      exact ⟨c, hc, hx⟩
  · cases mt <;> rfl

theorem reopen_refines (p : PStore) (m : RaftStore) (hr : Refines p m) : Refines p.reopen m := by
  obtain ⟨mt, ak, hd, hm, _⟩ := hr
  exact ⟨mt, ak, hd, hm, Or.inl rfl⟩

theorem ensureMeta_canon (m : RaftStore) (h : RInv m) (mt : Option Meta) (ak : Nat) (hm : MetaRel m mt ak) :
    ensureMeta (durOf m mt ak) = .ok (durOf m (some (effMeta m mt)) ak, effMeta m mt) := by
  unfold ensureMeta
  rw [viewErr_false m h mt ak hm]
  cases mt with
  | none => obtain ⟨hm, hak⟩ := hm; rw [hm, hak]; rfl
  | some x => rfl

theorem dump_refines (p : PStore) (m : RaftStore) (hr : Refines p m) (h : RInv m) :
    Refines p.reads.1 m := by
  obtain ⟨mt, ak, hd, hm, hc⟩ := hr
  obtain ⟨c0, hc0, heff⟩ := effMeta_eq m mt ak hm
  unfold PStore.reads
  rw [hd, ensureMeta_canon m h mt ak hm]
  exact ⟨some (effMeta m mt), ak, rfl, ⟨c0, hc0, heff⟩, by simpa [effMeta] using hc⟩

/-- every Raft-valid operation succeeds on Pebble and the two stores stay in correspondence -/
theorem step_refines (p : PStore) (m : RaftStore) (hr : Refines p m) (h : RInv m) (op : Op)
    (hv : validOp m op = true) :
    (∃ p', stepP? p op = .ok p' ∧ stepP p op = p') ∧ (stepM? m op).isSome ∧ Refines (stepP p op) (stepM m op) := by
  cases op with
  | save hs sn es =>
    obtain ⟨p', hp', hr'⟩ := save_refines p m hr h hs sn es hv
    have : stepP p (.save hs sn es) = p' := by simp [stepP, stepP?, hp']
    exact ⟨⟨p', hp', this⟩, rfl, by rw [this]; exact hr'⟩
  | repl s =>
    obtain ⟨p', hp', hst, hr'⟩ := repl_refines p m hr h s hv
    have : stepP p (.repl s) = p' := by simp [stepP, stepP?, hp']
    exact ⟨⟨p', hp', this⟩, by rw [hst]; rfl, by rw [this]; simp only [stepM, hst, Option.getD_some]; exact hr'⟩
  | mark i =>
    obtain ⟨p', hp', hr'⟩ := mark_refines p m hr h i
    have : stepP p (.mark i) = p' := by simp [stepP, stepP?, hp']
    exact ⟨⟨p', hp', this⟩, rfl, by rw [this]; exact hr'⟩
  | cmark i =>
    obtain ⟨p', hp', hr'⟩ := cmark_refines p m hr h i
    have : stepP p (.cmark i) = p' := by simp [stepP, stepP?, hp']
    exact ⟨⟨p', hp', this⟩, rfl, by rw [this]; exact hr'⟩
  | reopen => exact ⟨⟨_, rfl, rfl⟩, rfl, reopen_refines p m hr⟩
  | dump => exact ⟨⟨_, rfl, rfl⟩, rfl, dump_refines p m hr h⟩

theorem run_refines (p : PStore) (m : RaftStore) (hr : Refines p m) (h : RInv m) (ops : List Op)
    (hv : validRun m ops = true) : Refines (runP p ops) (runM m ops) ∧ RInv (runM m ops) := by
  induction ops generalizing p m with
  | nil => exact ⟨hr, h⟩
  | cons op ops ih =>
    simp only [validRun, Bool.and_eq_true] at hv
    exact ih (stepP p op) (stepM m op) (step_refines p m hr h op hv.1).2.2 (rinv_step m h op hv.1) hv.2

end WK.C14

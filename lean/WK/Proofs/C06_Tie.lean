import WK.Gen.C06
/-
  C06 — T tie, kept in its own module so that a change of the regenerated facts
  breaks exactly this obligation and not the theorems about the model.
-/
namespace WK.C06

/-- T tie: the only calls of ApplyFollowerAck in pkg/channel (outside tests) are the three
    reactor entry points the model mirrors, each dominated by a rejection of its own
    offset against rc.state.LEO (`>` for the two progress paths, `!=` for the stopped ack).
    `WK.Gen.C06.ackSites` is regenerated from the source on every check. -/
theorem c06_ack_call_sites_guarded :
    WK.Gen.C06.ackSites.map (fun a => (a.file, a.fn, a.arg, a.guard)) =
      [("pkg/channel/reactor/leader_replication.go", "applyLeaderProgressAck", "req.MatchOffset", "gt"),
       ("pkg/channel/reactor/leader_replication.go", "applyLeaderPullAckOffset", "req.AckOffset", "gt"),
       ("pkg/channel/reactor/leader_replication.go", "handleLeaderAck", "event.Ack.MatchOffset", "ne")] := by
  decide

end WK.C06

import WK.Proofs.C33_Index
/-
  C33: the heap-driven expiry loop equals the filter specification.
-/
namespace WK.C33

theorem nodup_key_unique {A : List Route} (h : (A.map Route.key).Nodup) {a b : Route}
    (ha : a ∈ A) (hb : b ∈ A) (hk : a.key = b.key) : a = b := by
  induction A with
  | nil => simp at ha
  | cons x xs ih =>
    simp only [List.map_cons, List.nodup_cons, List.mem_map, not_exists, not_and] at h
    rcases List.mem_cons.mp ha with rfl | ha' <;> rcases List.mem_cons.mp hb with rfl | hb'
    · rfl
    · exact absurd hk.symm (h.1 b hb')
    · exact absurd hk (h.1 a ha')
    · exact ih h.2 ha' hb'

theorem length_delA_of_mem {A : List Route} (h : (A.map Route.key).Nodup) {e : Route} (he : e ∈ A) :
    (delA e.key A).length + 1 = A.length := by
  induction A with
  | nil => simp at he
  | cons x xs ih =>
    simp only [List.map_cons, List.nodup_cons, List.mem_map, not_exists, not_and] at h
    rcases List.mem_cons.mp he with rfl | he'
    · have h' : delA e.key xs = xs := delA_eq_self (fun r hr => h.1 r hr)
      have h2 : delA e.key (e :: xs) = delA e.key xs := by simp [delA]
      rw [h2, h']; simp
    · have hx : x.key ≠ e.key := fun hk => h.1 e he' hk.symm
      have := ih h.2 he'
      simp [delA, hx] at this ⊢
      omega

structure Frame (s s' : Slot) : Prop where
  tomb : s'.tomb = s.tomb
  pending : s'.pending = s.pending
  ownerSeq : s'.ownerSeq = s.ownerSeq
  target : s'.target = s.target
  nextID : s'.nextID = s.nextID

theorem Frame.refl (s : Slot) : Frame s s := ⟨rfl, rfl, rfl, rfl, rfl⟩
theorem Frame.trans {a b c : Slot} (h1 : Frame a b) (h2 : Frame b c) : Frame a c :=
  ⟨h2.tomb.trans h1.tomb, h2.pending.trans h1.pending, h2.ownerSeq.trans h1.ownerSeq,
   h2.target.trans h1.target, h2.nextID.trans h1.nextID⟩

theorem expireKeys_spec (t : Int) : ∀ (ks : List Key) (s : Slot) (r : ExpireRes),
    (s.active.map Route.key).Nodup →
    (expireKeys t ks s r).1.active =
        s.active.filter (fun x => !(decide (x.key ∈ ks) && decide (aget x.key s.byKey = some t))) ∧
    (∀ k, aget k (expireKeys t ks s r).1.byKey =
        if k ∈ ks ∧ aget k s.byKey = some t then none else aget k s.byKey) ∧
    (expireKeys t ks s r).1.buckets = s.buckets ∧
    Frame s (expireKeys t ks s r).1 ∧
    (expireKeys t ks s r).2.expired + (expireKeys t ks s r).1.active.length = r.expired + s.active.length ∧
    (expireKeys t ks s r).2.due = r.due := by
  intro ks
  induction ks with
  | nil =>
    intro s r _
    refine ⟨?_, ?_, rfl, Frame.refl s, rfl, rfl⟩
    · simp [expireKeys]
      exact (List.filter_eq_self.mpr (by simp)).symm
    · intro k; simp [expireKeys]
  | cons k ks ih =>
    intro s r hnd
    unfold expireKeys
    simp only
    split
    · rename_i hne
      obtain ⟨h1, h2, h3, h4, h5, h6⟩ := ih s { r with examined := r.examined + 1 } hnd
      refine ⟨?_, ?_, h3, h4, h5, h6⟩
      · rw [h1]
        apply List.filter_congr
        intro x _
        by_cases hx : x.key = k
        · simp [hx, hne]
        · simp [hx]
      · intro k'
        rw [h2]
        by_cases hx : k' = k
        · subst hx; simp [hne]
        · simp [hx]
    · rename_i heq
      simp only [ne_eq, Decidable.not_not] at heq
      split
      · rename_i hfind
        have hnk := findA_none hfind
        obtain ⟨h1, h2, h3, h4, h5, h6⟩ :=
          ih { s with byKey := adel k s.byKey } { r with examined := r.examined + 1 } hnd
        refine ⟨?_, ?_, h3, ⟨h4.tomb, h4.pending, h4.ownerSeq, h4.target, h4.nextID⟩, h5, h6⟩
        · rw [h1]
          apply List.filter_congr
          intro x hx
          have : x.key ≠ k := hnk x hx
          simp [aget_adel, this]
        · intro k'
          rw [h2]
          simp only [aget_adel]
          by_cases hx : k' = k
          · subst hx; simp [heq]
          · simp [hx]
      · rename_i e hfind
        obtain ⟨hemem, hekey⟩ := findA_some hfind
        have hun : ({ s with byKey := adel k s.byKey } : Slot).unschedule k = { s with byKey := adel k s.byKey } :=
          unschedule_noop (by simp [aget_adel])
        have hra : ({ s with byKey := adel k s.byKey } : Slot).removeActive k =
            { s with byKey := adel k s.byKey, active := delA k s.active } := by
          simp [Slot.removeActive, hun]
        rw [hra]
        obtain ⟨h1, h2, h3, h4, h5, h6⟩ :=
          ih { s with byKey := adel k s.byKey, active := delA k s.active }
            { r with examined := r.examined + 1, expired := r.expired + 1 } (nodup_delA k hnd)
        refine ⟨?_, ?_, h3, ⟨h4.tomb, h4.pending, h4.ownerSeq, h4.target, h4.nextID⟩, ?_, h6⟩
        · rw [h1]
          simp only [delA, List.filter_filter]
          apply List.filter_congr
          intro x _
          by_cases hx : x.key = k
          · simp [hx, heq]
          · simp [hx, aget_adel]
        · intro k'
          rw [h2]
          simp only [aget_adel]
          by_cases hx : k' = k
          · subst hx; simp [heq]
          · simp [hx]
        · have hl := length_delA_of_mem hnd hemem
          rw [hekey] at hl
          simp only at h5
          omega

theorem dueSeen_mono {now ttl a b : Int} (hab : a ≤ b) (h : dueSeen now ttl b = true) : dueSeen now ttl a = true := by
  simp only [dueSeen, decide_eq_true_eq] at h ⊢
  omega

/-- With a consistent index whose oldest bucket is not due, no active route is due. -/
theorem none_due_of_head {A : List Route} {K : List (Key × Int)} {B : List (Int × List Key)} {now ttl : Int}
    (h : Sched A K B)
    (hhead : ∀ t ks rest, B = (t, ks) :: rest → dueSeen now ttl t = false) :
    A.filter (fun x => !dueRoute now ttl x) = A := by
  rw [List.filter_eq_self]
  intro x hx
  simp only [Bool.not_eq_eq_eq_not, Bool.not_true]
  unfold dueRoute
  by_cases h0 : routeSeen x = 0
  · simp [h0]
  · have hk : aget x.key K = some (routeSeen x) := (h.byKey_iff _ _).mpr ⟨x, hx, rfl, rfl, h0⟩
    obtain ⟨ks, hks, _⟩ := (h.bucket_iff _ _).mpr hk
    cases hB : B with
    | nil => rw [hB] at hks; simp at hks
    | cons p rest =>
      obtain ⟨t, ks0⟩ := p
      have hnd := hhead t ks0 rest hB
      rw [hB, aget_cons] at hks
      have hle : t ≤ routeSeen x := by
        by_cases htt : t = routeSeen x
        · omega
        · simp only [htt, if_false] at hks
          have := bsorted_head_lt (hB ▸ h.sorted) hks
          omega
      cases hd : dueSeen now ttl (routeSeen x) with
      | false => simp
      | true => rw [dueSeen_mono hle hd] at hnd; cases hnd

theorem expireLoop_spec (now ttl : Int) : ∀ (fuel : Nat) (s : Slot) (r : ExpireRes),
    Sched s.active s.byKey s.buckets → s.buckets.length ≤ fuel →
    (expireLoop now ttl fuel s r).1.active = s.active.filter (fun x => !dueRoute now ttl x) ∧
    SlotIdx (expireLoop now ttl fuel s r).1 ∧
    Frame s (expireLoop now ttl fuel s r).1 ∧
    (expireLoop now ttl fuel s r).2.expired + (expireLoop now ttl fuel s r).1.active.length
      = r.expired + s.active.length := by
  intro fuel
  induction fuel with
  | zero =>
    intro s r h hlen
    have hB : s.buckets = [] := List.eq_nil_of_length_eq_zero (by omega)
    simp only [expireLoop]
    refine ⟨(none_due_of_head h ?_).symm, h, Frame.refl s, trivial⟩
    intro t ks rest hh; rw [hB] at hh; cases hh
  | succ fuel ih =>
    intro s r h hlen
    unfold expireLoop
    split
    · rename_i hB
      refine ⟨(none_due_of_head h ?_).symm, h, Frame.refl s, rfl⟩
      intro t ks rest hh; rw [hB] at hh; cases hh
    · rename_i t ks rest hB
      split
      · rename_i hnd
        refine ⟨(none_due_of_head h ?_).symm, h, Frame.refl s, rfl⟩
        intro t' ks' rest' hh
        rw [hB] at hh; cases hh
        simpa using hnd
      · rename_i hdue
        simp only [Bool.not_eq_true] at hdue
        obtain ⟨hnd, hbk, hbu, hso⟩ := h
        have hso' : BSorted ((t, ks) :: rest) := hB ▸ hso
        -- facts about the popped bucket
        have hks : ∀ k, k ∈ ks ↔ aget k s.byKey = some t := by
          intro k
          rw [← hbu, hB, aget_cons]
          simp
        have hrest_ne : ∀ t' ks', aget t' rest = some ks' → t' ≠ t := by
          intro t' ks' hm
          have := bsorted_head_lt hso' hm
          omega
        obtain ⟨h1, h2, h3, h4, h5, h6⟩ :=
          expireKeys_spec t ks { s with buckets := rest } { r with due := r.due + 1 } hnd
        -- the state after the bucket body
        dsimp only
        generalize hres : expireKeys t ks { s with buckets := rest } { r with due := r.due + 1 } = res at h1 h2 h3 h4 h5 h6 ⊢
        obtain ⟨s2, r2⟩ := res
        simp only at h1 h2 h3 h4 h5 h6
        have hrem : ∀ x ∈ s.active, (decide (x.key ∈ ks) && decide (aget x.key s.byKey = some t)) =
            decide (aget x.key s.byKey = some t) := by
          intro x _
          by_cases hc : aget x.key s.byKey = some t
          · simp [hc, (hks x.key).mpr hc]
          · simp [hc]
        have h1' : s2.active = s.active.filter (fun x => !decide (aget x.key s.byKey = some t)) := by
          rw [h1]
          apply List.filter_congr
          intro x hx
          rw [hrem x hx]
        have h2' : ∀ k, aget k s2.byKey = if aget k s.byKey = some t then none else aget k s.byKey := by
          intro k
          rw [h2]
          by_cases hc : aget k s.byKey = some t
          · simp [hc, (hks k).mpr hc]
          · simp [hc]
        have hsched2 : Sched s2.active s2.byKey s2.buckets := by
          refine ⟨?_, ?_, ?_, ?_⟩
          · rw [h1']
            exact List.Nodup.sublist (List.Sublist.map _ List.filter_sublist) hnd
          · intro k t'
            rw [h2' k, h1']
            constructor
            · intro hh
              by_cases hc : aget k s.byKey = some t
              · simp [hc] at hh
              · simp only [hc, if_false] at hh
                obtain ⟨x, hx, hxk, hxs, hx0⟩ := (hbk k t').mp hh
                refine ⟨x, ?_, hxk, hxs, hx0⟩
                rw [List.mem_filter]
                refine ⟨hx, ?_⟩
                simp [hxk, hc]
            · rintro ⟨x, hx, hxk, hxs, hx0⟩
              rw [List.mem_filter] at hx
              obtain ⟨hx, hnc⟩ := hx
              simp only [Bool.not_eq_eq_eq_not, Bool.not_true, decide_eq_false_iff_not] at hnc
              rw [hxk] at hnc
              simp only [hnc, if_false]
              exact (hbk k t').mpr ⟨x, hx, hxk, hxs, hx0⟩
          · intro t' k
            rw [h3, h2' k]
            constructor
            · rintro ⟨ks', hm, hin⟩
              have hne := hrest_ne t' ks' hm
              have : aget k s.byKey = some t' := by
                rw [← hbu, hB, aget_cons]
                simp only [Ne.symm hne, if_false]
                exact ⟨ks', hm, hin⟩
              rw [this]
              simp [hne]
            · intro hh
              by_cases hc : aget k s.byKey = some t
              · simp [hc] at hh
              · simp only [hc, if_false] at hh
                obtain ⟨ks', hm, hin⟩ := (hbu t' k).mpr hh
                rw [hB, aget_cons] at hm
                by_cases htt : t = t'
                · subst htt; exact absurd hh hc
                · simp only [htt, if_false] at hm
                  exact ⟨ks', hm, hin⟩
          · rw [h3]
            exact (List.pairwise_cons.mp hso').2
        have hlen2 : s2.buckets.length ≤ fuel := by
          rw [h3]; rw [hB] at hlen; simp at hlen; omega
        obtain ⟨g1, g2, g3, g4⟩ := ih s2 r2 hsched2 hlen2
        refine ⟨?_, g2, Frame.trans ⟨h4.tomb, h4.pending, h4.ownerSeq, h4.target, h4.nextID⟩ g3, ?_⟩
        · rw [g1, h1', List.filter_filter]
          apply List.filter_congr
          intro x hx
          by_cases hc : aget x.key s.byKey = some t
          · -- removed with the bucket: it is due
            obtain ⟨y, hy, hyk, hys, hy0⟩ := (hbk _ _).mp hc
            have : y = x := nodup_key_unique hnd hy hx hyk
            subst this
            simp [hc, dueRoute, hys, hy0, hdue]
          · simp [hc]
        · show (expireLoop now ttl fuel s2 r2).2.expired + (expireLoop now ttl fuel s2 r2).1.active.length = _
          omega

/-- `expireLocked` = the filter specification. -/
theorem slot_expire_exact (s : Slot) (h : SlotIdx s) (nz : Bool) (now ttl : Int) :
    (s.expire nz now ttl).1.active = expireSpec nz now ttl s.active ∧
    SlotIdx (s.expire nz now ttl).1 ∧
    Frame s (s.expire nz now ttl).1 ∧
    (s.expire nz now ttl).2.expired + (expireSpec nz now ttl s.active).length = s.active.length := by
  unfold Slot.expire expireSpec
  by_cases hr : expiryRuns nz ttl = true
  · simp only [hr, if_true]
    obtain ⟨g1, g2, g3, g4⟩ := expireLoop_spec now ttl s.buckets.length s {} h (Nat.le_refl _)
    generalize expireLoop now ttl s.buckets.length s {} = res at g1 g2 g3 g4
    obtain ⟨s', r'⟩ := res
    simp only at g1 g2 g3 g4 ⊢
    refine ⟨g1, g2, g3, ?_⟩
    rw [← g1]
    simp at g4
    omega
  · simp only [hr]
    simp only [Bool.false_eq_true, if_false]
    exact ⟨trivial, h, Frame.refl s, by simp⟩

end WK.C33

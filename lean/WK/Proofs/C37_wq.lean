import WK.Proofs.C37_pool
/-
  C37 — invariants of the worker-queue LTS (BoundedWorkerQueue).
-/
set_option linter.unusedSimpArgs false
namespace WK.C37

local macro "wq_simp" : tactic => `(tactic|
  simp only [upd_apply, runs_append, dones_append, cancels_append, accs_append, rejs_append, subs_append,
    enqs_append, fin_append, runs_cons, dones_cons, cancels_cons, accs_cons, rejs_cons, subs_cons, enqs_cons,
    fin_cons, runs_nil, dones_nil, cancels_nil, accs_nil, rejs_nil, subs_nil, enqs_nil, fin_nil,
    List.append_nil, List.mem_append, List.mem_singleton, List.mem_cons, closeOk] at *)

structure WQInv (nw : Nat) (s : WQ) : Prop where
  locNone : ∀ t, (s.pc t = .idle ∨ s.pc t = .ret false) → s.loc t = .none
  locSome : ∀ t, (s.pc t = .enqd ∨ s.pc t = .ret true) → s.loc t ≠ .none
  finIff : ∀ t, t ∈ fin s.log ↔ (s.loc t = .running ∨ s.loc t = .done)
  finNodup : (fin s.log).Nodup
  runIff : ∀ t, t ∈ runs s.log ↔ (s.loc t = .running ∨ s.loc t = .done)
  doneIff : ∀ t, t ∈ dones s.log ↔ s.loc t = .done
  cancelNil : cancels s.log = []
  enqIff : ∀ t, t ∈ enqs s.log ↔ s.loc t ≠ .none
  rejIff : ∀ t, t ∈ rejs s.log ↔ s.pc t = .ret false
  accIff : ∀ t, t ∈ accs s.log ↔ s.pc t = .ret true
  subIff : ∀ t, t ∈ subs s.log ↔ s.pc t ≠ .idle
  wRunning : ∀ i t, (s.w i = .run t ∨ s.w i = .runD t) → s.loc t = .running
  locs : ∀ t, s.loc t = .none ∨ s.loc t = .queued ∨ s.loc t = .running ∨ s.loc t = .done
  holderUnique : ∀ i j t, (s.w i = .run t ∨ s.w i = .runD t) → (s.w j = .run t ∨ s.w j = .runD t) → i = j
  runningW : ∀ t, s.loc t = .running → ∃ i, i < nw ∧ (s.w i = .run t ∨ s.w i = .runD t)
  closedIff : s.closed = true ↔ s.c ≠ .idle
  drainClosed : ∀ i, (s.w i = .drain ∨ (∃ t, s.w i = .runD t) ∨ s.w i = .exit) → s.closed = true
  exitEmpty : ∀ i, s.w i = .exit → ∀ t, s.loc t ≠ .queued
  closeLog : closeOk ∈ s.log ↔ s.c = .ret
  retExit : s.c = .ret → ∀ i, i < nw → s.w i = .exit

theorem WQInv.init (nw : Nat) : WQInv nw WQ.init := by
  constructor <;> simp [WQ.init, closeOk]

theorem WQInv.step_locNone {nw : Nat} {s s' : WQ} (h : WQInv nw s) (st : WQStep nw s s') :
    ∀ t, (s'.pc t = .idle ∨ s'.pc t = .ret false) → s'.loc t = .none := by
  obtain ⟨h1, h2, h3, h4, h5, h6, h7, h8, h9, h10, h11, h12, h13, h14, h15, h16, h17, h18, h19, h20⟩ := h
  cases st <;> wq_simp <;> grind

theorem WQInv.step_locSome {nw : Nat} {s s' : WQ} (h : WQInv nw s) (st : WQStep nw s s') :
    ∀ t, (s'.pc t = .enqd ∨ s'.pc t = .ret true) → s'.loc t ≠ .none := by
  obtain ⟨h1, h2, h3, h4, h5, h6, h7, h8, h9, h10, h11, h12, h13, h14, h15, h16, h17, h18, h19, h20⟩ := h
  cases st <;> wq_simp <;> grind

theorem WQInv.step_finIff {nw : Nat} {s s' : WQ} (h : WQInv nw s) (st : WQStep nw s s') :
    ∀ t, t ∈ fin s'.log ↔ (s'.loc t = .running ∨ s'.loc t = .done) := by
  obtain ⟨h1, h2, h3, h4, h5, h6, h7, h8, h9, h10, h11, h12, h13, h14, h15, h16, h17, h18, h19, h20⟩ := h
  cases st <;> wq_simp <;> grind

theorem WQInv.step_finNodup {nw : Nat} {s s' : WQ} (h : WQInv nw s) (st : WQStep nw s s') :
    (fin s'.log).Nodup := by
  obtain ⟨h1, h2, h3, h4, h5, h6, h7, h8, h9, h10, h11, h12, h13, h14, h15, h16, h17, h18, h19, h20⟩ := h
  cases st <;> wq_simp <;> grind

theorem WQInv.step_runIff {nw : Nat} {s s' : WQ} (h : WQInv nw s) (st : WQStep nw s s') :
    ∀ t, t ∈ runs s'.log ↔ (s'.loc t = .running ∨ s'.loc t = .done) := by
  obtain ⟨h1, h2, h3, h4, h5, h6, h7, h8, h9, h10, h11, h12, h13, h14, h15, h16, h17, h18, h19, h20⟩ := h
  cases st <;> wq_simp <;> grind

theorem WQInv.step_doneIff {nw : Nat} {s s' : WQ} (h : WQInv nw s) (st : WQStep nw s s') :
    ∀ t, t ∈ dones s'.log ↔ s'.loc t = .done := by
  obtain ⟨h1, h2, h3, h4, h5, h6, h7, h8, h9, h10, h11, h12, h13, h14, h15, h16, h17, h18, h19, h20⟩ := h
  cases st <;> wq_simp <;> grind

theorem WQInv.step_cancelNil {nw : Nat} {s s' : WQ} (h : WQInv nw s) (st : WQStep nw s s') :
    cancels s'.log = [] := by
  obtain ⟨h1, h2, h3, h4, h5, h6, h7, h8, h9, h10, h11, h12, h13, h14, h15, h16, h17, h18, h19, h20⟩ := h
  cases st <;> wq_simp <;> grind

theorem WQInv.step_enqIff {nw : Nat} {s s' : WQ} (h : WQInv nw s) (st : WQStep nw s s') :
    ∀ t, t ∈ enqs s'.log ↔ s'.loc t ≠ .none := by
  obtain ⟨h1, h2, h3, h4, h5, h6, h7, h8, h9, h10, h11, h12, h13, h14, h15, h16, h17, h18, h19, h20⟩ := h
  cases st <;> wq_simp <;> grind

theorem WQInv.step_rejIff {nw : Nat} {s s' : WQ} (h : WQInv nw s) (st : WQStep nw s s') :
    ∀ t, t ∈ rejs s'.log ↔ s'.pc t = .ret false := by
  obtain ⟨h1, h2, h3, h4, h5, h6, h7, h8, h9, h10, h11, h12, h13, h14, h15, h16, h17, h18, h19, h20⟩ := h
  cases st <;> wq_simp <;> grind

theorem WQInv.step_accIff {nw : Nat} {s s' : WQ} (h : WQInv nw s) (st : WQStep nw s s') :
    ∀ t, t ∈ accs s'.log ↔ s'.pc t = .ret true := by
  obtain ⟨h1, h2, h3, h4, h5, h6, h7, h8, h9, h10, h11, h12, h13, h14, h15, h16, h17, h18, h19, h20⟩ := h
  cases st <;> wq_simp <;> grind

theorem WQInv.step_subIff {nw : Nat} {s s' : WQ} (h : WQInv nw s) (st : WQStep nw s s') :
    ∀ t, t ∈ subs s'.log ↔ s'.pc t ≠ .idle := by
  obtain ⟨h1, h2, h3, h4, h5, h6, h7, h8, h9, h10, h11, h12, h13, h14, h15, h16, h17, h18, h19, h20⟩ := h
  cases st <;> wq_simp <;> grind

theorem WQInv.step_wRunning {nw : Nat} {s s' : WQ} (h : WQInv nw s) (st : WQStep nw s s') :
    ∀ i t, (s'.w i = .run t ∨ s'.w i = .runD t) → s'.loc t = .running := by
  obtain ⟨h1, h2, h3, h4, h5, h6, h7, h8, h9, h10, h11, h12, h13, h14, h15, h16, h17, h18, h19, h20⟩ := h
  cases st <;> wq_simp <;> grind

theorem WQInv.step_locs {nw : Nat} {s s' : WQ} (h : WQInv nw s) (st : WQStep nw s s') :
    ∀ t, s'.loc t = .none ∨ s'.loc t = .queued ∨ s'.loc t = .running ∨ s'.loc t = .done := by
  obtain ⟨h1, h2, h3, h4, h5, h6, h7, h8, h9, h10, h11, h12, h13, h14, h15, h16, h17, h18, h19, h20⟩ := h
  cases st <;> wq_simp <;> grind

theorem WQInv.step_holderUnique {nw : Nat} {s s' : WQ} (h : WQInv nw s) (st : WQStep nw s s') :
    ∀ i j t, (s'.w i = .run t ∨ s'.w i = .runD t) → (s'.w j = .run t ∨ s'.w j = .runD t) → i = j := by
  obtain ⟨h1, h2, h3, h4, h5, h6, h7, h8, h9, h10, h11, h12, h13, h14, h15, h16, h17, h18, h19, h20⟩ := h
  cases st <;> wq_simp <;> grind

theorem WQInv.step_runningW {nw : Nat} {s s' : WQ} (h : WQInv nw s) (st : WQStep nw s s') :
    ∀ t, s'.loc t = .running → ∃ i, i < nw ∧ (s'.w i = .run t ∨ s'.w i = .runD t) := by
  obtain ⟨h1, h2, h3, h4, h5, h6, h7, h8, h9, h10, h11, h12, h13, h14, h15, h16, h17, h18, h19, h20⟩ := h
  cases st <;> wq_simp <;> grind

theorem WQInv.step_closedIff {nw : Nat} {s s' : WQ} (h : WQInv nw s) (st : WQStep nw s s') :
    s'.closed = true ↔ s'.c ≠ .idle := by
  obtain ⟨h1, h2, h3, h4, h5, h6, h7, h8, h9, h10, h11, h12, h13, h14, h15, h16, h17, h18, h19, h20⟩ := h
  cases st <;> wq_simp <;> grind

theorem WQInv.step_drainClosed {nw : Nat} {s s' : WQ} (h : WQInv nw s) (st : WQStep nw s s') :
    ∀ i, (s'.w i = .drain ∨ (∃ t, s'.w i = .runD t) ∨ s'.w i = .exit) → s'.closed = true := by
  obtain ⟨h1, h2, h3, h4, h5, h6, h7, h8, h9, h10, h11, h12, h13, h14, h15, h16, h17, h18, h19, h20⟩ := h
  cases st <;> wq_simp <;> grind

theorem WQInv.step_exitEmpty {nw : Nat} {s s' : WQ} (h : WQInv nw s) (st : WQStep nw s s') :
    ∀ i, s'.w i = .exit → ∀ t, s'.loc t ≠ .queued := by
  obtain ⟨h1, h2, h3, h4, h5, h6, h7, h8, h9, h10, h11, h12, h13, h14, h15, h16, h17, h18, h19, h20⟩ := h
  cases st <;> wq_simp <;> grind

theorem WQInv.step_closeLog {nw : Nat} {s s' : WQ} (h : WQInv nw s) (st : WQStep nw s s') :
    closeOk ∈ s'.log ↔ s'.c = .ret := by
  obtain ⟨h1, h2, h3, h4, h5, h6, h7, h8, h9, h10, h11, h12, h13, h14, h15, h16, h17, h18, h19, h20⟩ := h
  cases st <;> wq_simp <;> grind

theorem WQInv.step_retExit {nw : Nat} {s s' : WQ} (h : WQInv nw s) (st : WQStep nw s s') :
    s'.c = .ret → ∀ i, i < nw → s'.w i = .exit := by
  obtain ⟨h1, h2, h3, h4, h5, h6, h7, h8, h9, h10, h11, h12, h13, h14, h15, h16, h17, h18, h19, h20⟩ := h
  cases st <;> wq_simp <;> grind

theorem WQInv.step {nw : Nat} {s s' : WQ} (h : WQInv nw s) (st : WQStep nw s s') : WQInv nw s' :=
  ⟨h.step_locNone st, h.step_locSome st, h.step_finIff st, h.step_finNodup st, h.step_runIff st, h.step_doneIff st, h.step_cancelNil st, h.step_enqIff st, h.step_rejIff st, h.step_accIff st, h.step_subIff st, h.step_wRunning st, h.step_locs st, h.step_holderUnique st, h.step_runningW st, h.step_closedIff st, h.step_drainClosed st, h.step_exitEmpty st, h.step_closeLog st, h.step_retExit st⟩

theorem WQReach.inv {nw : Nat} {s : WQ} (r : WQReach nw s) : WQInv nw s := by
  induction r with
  | init => exact WQInv.init nw
  | step _ st ih => exact ih.step st


/-! ### close waits (at least one worker, which `NewBoundedWorkerQueue` enforces) -/

theorem WQStep.log_mono {nw : Nat} {s s' : WQ} (st : WQStep nw s s') : ∃ r, s'.log = s.log ++ r := by
  cases st <;> first | exact ⟨_, rfl⟩ | exact ⟨[], by simp⟩

theorem WQStep.loc_none_stable {nw : Nat} {s s' : WQ} (h : WQInv nw s) (st : WQStep nw s s') (hr : s.c = .ret)
    (t : Nat) : s'.loc t ≠ .none → s.loc t ≠ .none := by
  obtain ⟨h1, h2, h3, h4, h5, h6, h7, h8, h9, h10, h11, h12, h13, h14, h15, h16, h17, h18, h19, h20⟩ := h
  cases st <;> wq_simp <;> grind

theorem WQStep.closeOk_new {nw : Nat} {s s' : WQ} (st : WQStep nw s s') (hn : closeOk ∉ s.log)
    (hin : closeOk ∈ s'.log) : s'.log = s.log ++ [closeOk] ∧ (∀ i, i < nw → s.w i = .exit) ∧ s'.loc = s.loc := by
  cases st <;> simp_all [closeOk]

def WQWaited (s : WQ) : Prop := closeOk ∈ s.log → ∀ t, s.loc t ≠ .none → t ∈ dones (preClose s.log)

theorem WQWaited.step {nw : Nat} {s s' : WQ} (hnw : 0 < nw) (h : WQInv nw s) (hs : WQWaited s)
    (st : WQStep nw s s') : WQWaited s' := by
  intro hin t ht
  by_cases hold : closeOk ∈ s.log
  · obtain ⟨r, hr⟩ := st.log_mono
    rw [hr, preClose_append_of_mem r hold]
    exact hs hold t (st.loc_none_stable h (h.closeLog.mp hold) t ht)
  · obtain ⟨hl, hex, hloc⟩ := st.closeOk_new hold hin
    rw [hl, preClose_of_not_mem hold, h.doneIff]
    rw [hloc] at ht
    have h0 := hex 0 hnw
    have hq := h.exitEmpty 0 h0 t
    have hrun := h.runningW t
    cases hl' : s.loc t with
    | done => rfl
    | none => exact absurd hl' ht
    | queued => exact absurd hl' hq
    | running =>
      obtain ⟨i, hi, hw⟩ := hrun hl'
      have := hex i hi
      rcases hw with hw | hw <;> rw [this] at hw <;> cases hw
    | held => rcases h.locs t with h' | h' | h' | h' <;> rw [hl'] at h' <;> cases h'
    | inflight => rcases h.locs t with h' | h' | h' | h' <;> rw [hl'] at h' <;> cases h'
    | cancelled => rcases h.locs t with h' | h' | h' | h' <;> rw [hl'] at h' <;> cases h'

theorem WQReach.waited {nw : Nat} {s : WQ} (hnw : 0 < nw) (r : WQReach nw s) : WQWaited s := by
  induction r with
  | init => intro h; simp [WQ.init] at h
  | step r st ih => exact ih.step hnw r.inv st

end WK.C37

import WK.Proofs.C07_Ref4
/-
  C07 — refinement of the observation / housekeeping operations.
-/
namespace WK.C07

theorem getRow_live (ch : Chan) (hi : ChanInv ch) (hk : ∀ r ∈ ch.rows, rowCheck r = .ok ()) (r : Row) (hr : r ∈ ch.rows) :
    getRow ch.rows r.seq = .ok (some r) := by
  have hnz := hi.nz r hr
  have hf : ch.rows.find? (fun x => x.seq = r.seq) = some r := by
    cases hfind : ch.rows.find? (fun x => x.seq = r.seq) with
    | none => have := List.find?_eq_none.mp hfind r hr; simp at this
    | some x =>
      have hx := List.mem_of_find?_eq_some hfind
      have hs := List.find?_some hfind
      simp only [decide_eq_true_eq] at hs
      rw [hi.uniq x hx r hr hs]
  unfold getRow
  rw [if_neg hnz.2, hf]
  simp [hk r hr]

theorem abs_rows (st : Store) (c : Nat) : ((abs st).chan c).rows = (st.chan c).rows := by rw [abs_chan]; rfl
theorem abs_leo (st : Store) (c : Nat) : ((abs st).chan c).leo = recoverLEO (st.chan c) := by rw [abs_chan]; rfl
theorem abs_ret (st : Store) (c : Nat) : ((abs st).chan c).ret = (st.chan c).ret := by rw [abs_chan]; rfl
theorem abs_ck (st : Store) (c : Nat) : ((abs st).chan c).ck = (st.chan c).ck := by rw [abs_chan]; rfl

theorem refines_close (st : Store) (c : Nat) (hk : Chk st) : Refines st (.close c) := ⟨rfl, rfl, hk⟩

theorem refines_reopen (st : Store) (hk : Chk st) : Refines st .reopen := by
  refine ⟨?_, rfl, ?_⟩
  · show abs (doReopen st) = abs st
    unfold abs doReopen
    simp only [List.map_map]
    congr 1
  · intro c r hr
    change r ∈ ((doReopen st).chan c).rows at hr
    rw [reopen_chan] at hr
    exact hk c r hr

theorem refines_leo (st : Store) (c : Nat) (hi : Inv st) (hk : Chk st) (hc : c < numChan) : Refines st (.leo c) := by
  obtain ⟨_, _, _, _, _, _, _, v1, _⟩ := loaded_facts st c hi hc
  refine ⟨abs_loaded st c hi hc, ?_, chk_loaded st c hk (by rw [hi.len]; exact hc)⟩
  show Out.num (loadLEO (st.chan c)).1 = Out.num ((abs st).chan c).leo
  rw [v1, abs_leo]

theorem refines_lret (st : Store) (c : Nat) (hk : Chk st) : Refines st (.lret c) := by
  refine ⟨rfl, ?_, hk⟩
  show (match (st.chan c).ret with | some r => Out.ret r | none => Out.none) = (match ((abs st).chan c).ret with | some r => Out.ret r | none => Out.none)
  rw [abs_ret]

theorem refines_lckpt (st : Store) (c : Nat) (hk : Chk st) : Refines st (.lckpt c) := by
  refine ⟨rfl, ?_, hk⟩
  show (match (st.chan c).ck with | some r => Out.ck r | none => Out.none) = (match ((abs st).chan c).ck with | some r => Out.ck r | none => Out.none)
  rw [abs_ck]

theorem refines_read (st : Store) (c f l b : Nat) (hk : Chk st) : Refines st (.read c f l b) := by
  show abs (doRead st c f l b).1 = _ ∧ (doRead st c f l b).2 = _ ∧ Chk (doRead st c f l b).1
  unfold doRead
  dsimp only
  show _ ∧ _ = (match readForward ((abs st).chan c).rows (if f = 0 then 1 else f) 0 l b with
         | .error e => Out.err e | .ok r => Out.msgs r) ∧ _
  rw [abs_rows]
  cases readForward (st.chan c).rows (if f = 0 then 1 else f) 0 l b with
  | error e => exact ⟨rfl, rfl, hk⟩
  | ok r => exact ⟨rfl, rfl, hk⟩

theorem refines_get (st : Store) (c s : Nat) (hk : Chk st) : Refines st (.get c s) := by
  refine ⟨rfl, ?_, hk⟩
  show outOfGet (getRow (st.chan c).rows s) = outOfGet (getRow ((abs st).chan c).rows s)
  rw [abs_rows]

theorem refines_lastvis (st : Store) (c a : Nat) (hi : Inv st) (hk : Chk st) : Refines st (.lastvis c a) := by
  refine ⟨rfl, ?_, hk⟩
  show doLastvis st c a = (match ((abs st).chan c).rows.getLast? with
         | none => Out.none
         | some r => if r.seq ≤ a then Out.none else Out.msg r)
  rw [abs_rows]
  unfold doLastvis
  cases hl : (st.chan c).rows.getLast? with
  | none => rfl
  | some r =>
    dsimp only
    by_cases h : r.seq ≤ a
    · rw [if_pos h, if_pos h]
    · rw [if_neg h, if_neg h]
      have hr : r ∈ (st.chan c).rows := List.mem_of_getLast? hl
      rw [getRow_live _ (hi.chan c) (hk c) r hr]; rfl

theorem refines_rread (st : Store) (c f l b : Nat) (hi : Inv st) (hk : Chk st) (hc : c < numChan) : Refines st (.rread c f l b) := by
  show abs (doRRead st c f l b).1 = abs st ∧
       (doRRead st c f l b).2 = (match readForward ((abs st).chan c).rows 1 (if f = 0 then ((abs st).chan c).leo else f) 0 0 with
         | .error e => Out.err e | .ok all => Out.msgs (revGo l b all.reverse [] 0)) ∧ Chk (doRRead st c f l b).1
  obtain ⟨_, _, _, r1, _, _, _, v1, _⟩ := loaded_facts st c hi hc
  rw [abs_rows, abs_leo]
  by_cases hf : f = 0
  · subst hf
    have hD : doRRead st c 0 l b = (match readForward ((loaded st c).chan c).rows 1 (loadLEO (st.chan c)).1 0 0 with
        | .error e => (loaded st c, Out.err e) | .ok all => (loaded st c, Out.msgs (revGo l b all.reverse [] 0))) := rfl
    rw [hD, r1, v1]
    simp only [if_true]
    cases readForward (st.chan c).rows 1 (recoverLEO (st.chan c)) 0 0 with
    | error e => exact ⟨abs_loaded st c hi hc, rfl, chk_loaded st c hk (by rw [hi.len]; exact hc)⟩
    | ok r => exact ⟨abs_loaded st c hi hc, rfl, chk_loaded st c hk (by rw [hi.len]; exact hc)⟩
  · have hD : doRRead st c f l b = (match readForward (st.chan c).rows 1 f 0 0 with
        | .error e => (st, Out.err e) | .ok all => (st, Out.msgs (revGo l b all.reverse [] 0))) := by
      unfold doRRead; simp only [hf, if_false]; try rfl
    rw [hD]
    simp only [hf, if_false]
    cases readForward (st.chan c).rows 1 f 0 0 with
    | error e => exact ⟨rfl, rfl, hk⟩
    | ok r => exact ⟨rfl, rfl, hk⟩

end WK.C07

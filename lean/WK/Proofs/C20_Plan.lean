import WK.Proofs.C20_Loop
/-
  C20 — the three planners: selection functions, ideal counts, initial
  invariant, and what a finished plan guarantees.
-/
namespace WK.C20

theorem nodup_reverse' {l : List Nat} (h : l.Nodup) : l.reverse.Nodup :=
  List.pairwise_reverse.mpr (List.Pairwise.imp Ne.symm h)

/-! ### selectLargestSurplusSlot / selectSmallestDeficitSlot -/

theorem selLStep_cases (cur tgt : Cnt) (b : Best) (s : Nat) :
    (cget cur s ≤ cget tgt s ∧ selLStep cur tgt b s = b) ∨
    (cget tgt s < cget cur s ∧ (selLStep cur tgt b s).chosen = s) ∨
    (cget tgt s < cget cur s ∧ b.chosen ≠ 0 ∧ selLStep cur tgt b s = b) := by
  unfold selLStep
  by_cases h : cget cur s ≤ cget tgt s
  · left
    refine ⟨h, ?_⟩
    have : ((cget cur s : Int) - (cget tgt s : Int)) ≤ 0 := by omega
    simp [this]
  · right
    have h' : cget tgt s < cget cur s := by omega
    have : ¬ ((cget cur s : Int) - (cget tgt s : Int)) ≤ 0 := by omega
    simp only [this, ↓reduceIte]
    split
    · left; exact ⟨h', rfl⟩
    · rename_i hc
      right
      refine ⟨h', ?_, rfl⟩
      intro h0; exact hc (Or.inl h0)

theorem selL_foldl (cur tgt : Cnt) : ∀ (l : List Nat) (b : Best), (∀ s ∈ l, s ≠ 0) →
    ((l.foldl (selLStep cur tgt) b).chosen = 0 → b.chosen = 0 ∧ ∀ s ∈ l, cget cur s ≤ cget tgt s) ∧
    ((l.foldl (selLStep cur tgt) b).chosen ≠ 0 →
      (l.foldl (selLStep cur tgt) b).chosen = b.chosen ∨
      ((l.foldl (selLStep cur tgt) b).chosen ∈ l ∧
        cget tgt (l.foldl (selLStep cur tgt) b).chosen < cget cur (l.foldl (selLStep cur tgt) b).chosen)) := by
  intro l
  induction l with
  | nil => intro b _; simp
  | cons s rest ih =>
    intro b hnz
    have hs0 : s ≠ 0 := hnz s (by simp)
    have ih' := ih (selLStep cur tgt b s) (fun x hx => hnz x (List.mem_cons_of_mem _ hx))
    simp only [List.foldl_cons]
    rcases selLStep_cases cur tgt b s with ⟨h1, h2⟩ | ⟨h1, h2⟩ | ⟨h1, h2, h3⟩
    · rw [h2] at ih' ⊢
      constructor
      · intro h
        obtain ⟨a1, a2⟩ := ih'.1 h
        refine ⟨a1, ?_⟩
        intro x hx
        rcases List.mem_cons.mp hx with hx | hx
        · subst hx; exact h1
        · exact a2 x hx
      · intro h
        rcases ih'.2 h with a | ⟨a1, a2⟩
        · exact Or.inl a
        · exact Or.inr ⟨List.mem_cons_of_mem _ a1, a2⟩
    · constructor
      · intro h
        obtain ⟨a1, _⟩ := ih'.1 h
        rw [h2] at a1; exact absurd a1 hs0
      · intro h
        rcases ih'.2 h with a | ⟨a1, a2⟩
        · right
          rw [a, h2]
          exact ⟨by simp, h1⟩
        · exact Or.inr ⟨List.mem_cons_of_mem _ a1, a2⟩
    · rw [h3] at ih' ⊢
      constructor
      · intro h
        obtain ⟨a1, _⟩ := ih'.1 h
        exact absurd a1 h2
      · intro h
        rcases ih'.2 h with a | ⟨a1, a2⟩
        · exact Or.inl a
        · exact Or.inr ⟨List.mem_cons_of_mem _ a1, a2⟩

theorem selL_spec (cur tgt : Cnt) (cands : List Nat) (hnz : ∀ s ∈ cands, s ≠ 0) :
    (selL cur tgt cands = 0 → ∀ s ∈ cands, cget cur s ≤ cget tgt s) ∧
    (selL cur tgt cands ≠ 0 → selL cur tgt cands ∈ cands ∧
      cget tgt (selL cur tgt cands) < cget cur (selL cur tgt cands)) := by
  have := selL_foldl cur tgt cands ⟨0, 0, 0⟩ hnz
  unfold selL
  constructor
  · intro h; exact (this.1 h).2
  · intro h
    rcases this.2 h with a | a
    · exact absurd a h
    · exact a

theorem selSStep_cases (cur tgt : Cnt) (b : Best) (s : Nat) :
    (cget tgt s ≤ cget cur s ∧ selSStep cur tgt b s = b) ∨
    (cget cur s < cget tgt s ∧ (selSStep cur tgt b s).chosen = s) ∨
    (cget cur s < cget tgt s ∧ b.chosen ≠ 0 ∧ selSStep cur tgt b s = b) := by
  unfold selSStep
  by_cases h : cget tgt s ≤ cget cur s
  · left
    refine ⟨h, ?_⟩
    have : ((cget tgt s : Int) - (cget cur s : Int)) ≤ 0 := by omega
    simp [this]
  · right
    have h' : cget cur s < cget tgt s := by omega
    have : ¬ ((cget tgt s : Int) - (cget cur s : Int)) ≤ 0 := by omega
    simp only [this, ↓reduceIte]
    split
    · left; exact ⟨h', rfl⟩
    · rename_i hc
      right
      refine ⟨h', ?_, rfl⟩
      intro h0; exact hc (Or.inl h0)

theorem selS_foldl (cur tgt : Cnt) : ∀ (l : List Nat) (b : Best), (∀ s ∈ l, s ≠ 0) →
    ((l.foldl (selSStep cur tgt) b).chosen = 0 → b.chosen = 0 ∧ ∀ s ∈ l, cget tgt s ≤ cget cur s) ∧
    ((l.foldl (selSStep cur tgt) b).chosen ≠ 0 →
      (l.foldl (selSStep cur tgt) b).chosen = b.chosen ∨
      ((l.foldl (selSStep cur tgt) b).chosen ∈ l ∧
        cget cur (l.foldl (selSStep cur tgt) b).chosen < cget tgt (l.foldl (selSStep cur tgt) b).chosen)) := by
  intro l
  induction l with
  | nil => intro b _; simp
  | cons s rest ih =>
    intro b hnz
    have hs0 : s ≠ 0 := hnz s (by simp)
    have ih' := ih (selSStep cur tgt b s) (fun x hx => hnz x (List.mem_cons_of_mem _ hx))
    simp only [List.foldl_cons]
    rcases selSStep_cases cur tgt b s with ⟨h1, h2⟩ | ⟨h1, h2⟩ | ⟨h1, h2, h3⟩
    · rw [h2] at ih' ⊢
      constructor
      · intro h
        obtain ⟨a1, a2⟩ := ih'.1 h
        refine ⟨a1, ?_⟩
        intro x hx
        rcases List.mem_cons.mp hx with hx | hx
        · subst hx; exact h1
        · exact a2 x hx
      · intro h
        rcases ih'.2 h with a | ⟨a1, a2⟩
        · exact Or.inl a
        · exact Or.inr ⟨List.mem_cons_of_mem _ a1, a2⟩
    · constructor
      · intro h
        obtain ⟨a1, _⟩ := ih'.1 h
        rw [h2] at a1; exact absurd a1 hs0
      · intro h
        rcases ih'.2 h with a | ⟨a1, a2⟩
        · right
          rw [a, h2]
          exact ⟨by simp, h1⟩
        · exact Or.inr ⟨List.mem_cons_of_mem _ a1, a2⟩
    · rw [h3] at ih' ⊢
      constructor
      · intro h
        obtain ⟨a1, _⟩ := ih'.1 h
        exact absurd a1 h2
      · intro h
        rcases ih'.2 h with a | ⟨a1, a2⟩
        · exact Or.inl a
        · exact Or.inr ⟨List.mem_cons_of_mem _ a1, a2⟩

theorem selS_spec (cur tgt : Cnt) (cands : List Nat) (hnz : ∀ s ∈ cands, s ≠ 0) :
    (selS cur tgt cands = 0 → ∀ s ∈ cands, cget tgt s ≤ cget cur s) ∧
    (selS cur tgt cands ≠ 0 → selS cur tgt cands ∈ cands ∧
      cget cur (selS cur tgt cands) < cget tgt (selS cur tgt cands)) := by
  have := selS_foldl cur tgt cands ⟨0, 0, 0⟩ hnz
  unfold selS
  constructor
  · intro h; exact (this.1 h).2
  · intro h
    rcases this.2 h with a | a
    · exact absurd a h
    · exact a

/-! ### idealSlotCounts -/

theorem idealGo_spec (base : Nat) : ∀ (l : List Nat) (rem : Nat) (m : Cnt), l.Nodup →
    (∀ s, s ∉ l → cget (idealGo base rem l m) s = cget m s) ∧
    (∀ s ∈ l, base ≤ cget (idealGo base rem l m) s ∧
      cget (idealGo base rem l m) s ≤ base + (if 0 < rem then 1 else 0)) ∧
    (l.map (cget (idealGo base rem l m))).sum = l.length * base + min rem l.length := by
  intro l
  induction l with
  | nil => intro rem m _; simp [idealGo]
  | cons s rest ih =>
    intro rem m hnd
    have hnd' := List.nodup_cons.mp hnd
    obtain ⟨i1, i2, i3⟩ := ih (rem - 1) (cset m s (base + (if 0 < rem then 1 else 0))) hnd'.2
    have hs : cget (idealGo base (rem - 1) rest (cset m s (base + (if 0 < rem then 1 else 0)))) s
        = base + (if 0 < rem then 1 else 0) := by
      rw [i1 s hnd'.1, cget_cset_eq]
    simp only [idealGo]
    refine ⟨?_, ?_, ?_⟩
    · intro x hx
      have hxs : x ≠ s := fun h => hx (by simp [h])
      have hxr : x ∉ rest := fun h => hx (List.mem_cons_of_mem _ h)
      rw [i1 x hxr, cget_cset_ne _ _ _ _ (Ne.symm hxs)]
    · intro x hx
      rcases List.mem_cons.mp hx with h | h
      · subst h; rw [hs]; omega
      · have := i2 x h
        have hmono : (if 0 < rem - 1 then 1 else 0 : Nat) ≤ (if 0 < rem then 1 else 0) := by
          by_cases hr : 0 < rem - 1
          · have : 0 < rem := by omega
            simp [hr, this]
          · simp [hr]
        exact ⟨this.1, Nat.le_trans this.2 (Nat.add_le_add_left hmono _)⟩
    · simp only [List.map_cons, List.sum_cons, hs, i3, List.length_cons, Nat.succ_mul]
      by_cases hr : 0 < rem
      · simp [hr]; omega
      · have : rem = 0 := by omega
        subst this; simp; omega

theorem idealCounts_spec (H : Nat) (slots : List Nat) (hnd : slots.Nodup) (hne : slots.length ≠ 0) :
    (∀ s, s ∉ slots → cget (idealCounts H slots) s = 0) ∧
    (∀ s ∈ slots, H / slots.length ≤ cget (idealCounts H slots) s ∧
      cget (idealCounts H slots) s ≤ H / slots.length + (if 0 < H % slots.length then 1 else 0)) ∧
    (slots.map (cget (idealCounts H slots))).sum = H := by
  have hsd := nodup_sortIds slots hnd
  obtain ⟨i1, i2, i3⟩ := idealGo_spec (H / (sortIds slots).length) (sortIds slots)
    (H % (sortIds slots).length) [] hsd
  have hic : idealCounts H slots
      = idealGo (H / (sortIds slots).length) (H % (sortIds slots).length) (sortIds slots) [] := by
    simp [idealCounts, hne]
  rw [hic]
  rw [length_sortIds] at i1 i2 i3 ⊢
  refine ⟨?_, ?_, ?_⟩
  · intro s hs
    rw [i1 s (by rw [mem_sortIds]; exact hs)]; rfl
  · intro s hs
    exact i2 s (by rw [mem_sortIds]; exact hs)
  · rw [← sum_map_sortIds, i3]
    have hpos : 0 < slots.length := by omega
    have h1 := Nat.mod_lt H hpos
    have h2 := Nat.div_add_mod H slots.length
    have h3 : min (H % slots.length) slots.length = H % slots.length := by omega
    rw [h3]; exact h2

/-! ### the initial state of a planner satisfies the invariant -/

theorem inv_init (t : Table) (tgt : Cnt) (ks ds : List Nat) (hds : ∀ s ∈ ds, s ∈ ks) :
    Inv tgt ks ds t.asg ⟨slotCounts t ks, slotHashSlots t ds⟩ := by
  constructor
  · intro s x hx
    simp only [oget_slotHashSlots] at hx
    split at hx
    · rw [← mem_hashSlotsOf]; simpa using hx
    · cases hx
  · intro s
    simp only [oget_slotHashSlots]
    split
    · exact nodup_reverse' (nodup_idxOf _ _ _)
    · simp
  · intro s hs
    simp [cget_slotCounts, hs]
  · intro s hs _
    simp [oget_slotHashSlots, hs, cget_slotCounts, hds s hs, length_hashSlotsOf]

theorem ownedTotal_lt_succ (o : Owned) : ownedTotal o < ownedTotal o + 1 := Nat.lt_succ_self _

/-- what every finished planner run guarantees -/
theorem runPlan_spec (t : Table) {pick : Cnt → Option (Nat × Nat)} {tgt : Cnt} {ks ds : List Nat}
    (hp : PickOK pick tgt ks ds) (hds : ∀ s ∈ ds, s ∈ ks) :
    ∃ curF : Cnt,
      pick curF = none ∧
      (∀ s ∈ ks, cget curF s = (specApply t.asg (runPlan pick (slotCounts t ks) (slotHashSlots t ds))).count s) ∧
      Toward tgt (slotCounts t ks) curF ∧
      PlanOK ks (slotHashSlots t ds) (runPlan pick (slotCounts t ks) (slotHashSlots t ds)) := by
  obtain ⟨i1, i2, i3, i4⟩ := planLoop_spec hp (ownedTotal (slotHashSlots t ds) + 1) t.asg
    ⟨slotCounts t ks, slotHashSlots t ds⟩ (inv_init t tgt ks ds hds) (ownedTotal_lt_succ _)
  exact ⟨_, i2, i1.cnt, i4, i3⟩

/-! ### plan validity -/

theorem planOK_valid (t : Table) (ks ds : List Nat) (p : List Move)
    (h : PlanOK ks (slotHashSlots t ds) p) : planValid t.asg p = true := by
  obtain ⟨h1, h2⟩ := h
  simp only [planValid, decide_eq_true_eq]
  refine ⟨h1, ?_⟩
  rw [List.all_eq_true]
  intro m hm
  obtain ⟨a1, a2, _⟩ := h2 m hm
  simp only [oget_slotHashSlots] at a1
  split at a1
  · have hx : t.asg[m.hs]? = some m.src := by rw [← mem_hashSlotsOf]; simpa using a1
    have hlt : m.hs < t.asg.length := by
      rcases Nat.lt_or_ge m.hs t.asg.length with h | h
      · exact h
      · rw [List.getElem?_eq_none h] at hx; cases hx
    have hget : t.asg[m.hs] = m.src := by
      rw [List.getElem?_eq_getElem hlt] at hx; exact Option.some.inj hx
    simp [hlt, hget, a2]
  · cases a1

theorem mem_specApply (a : List Nat) (p : List Move) (x : Nat) (h : x ∈ specApply a p) :
    x ∈ a ∨ ∃ m ∈ p, x = m.dst := by
  induction p generalizing a with
  | nil => exact Or.inl h
  | cons m p ih =>
    rw [specApply_cons] at h
    rcases ih _ h with h1 | ⟨m', hm', hx⟩
    · rcases List.mem_or_eq_of_mem_set h1 with h2 | h2
      · exact Or.inl h2
      · exact Or.inr ⟨m, by simp, h2⟩
    · exact Or.inr ⟨m', List.mem_cons_of_mem _ hm', hx⟩

end WK.C20

import WK.Proofs.C09_Strict
/-
  C09 — retention floor against rows (`RetFloor`): ordered retention state and no stored row at or below the
  physical floor; preserved by every append-shaped batch and by checkpoint writes.
-/
namespace WK.C09

/-- retention floor against rows: the state is ordered and no stored row is at or below the physical floor -/
def RetFloor (s : Store) : Prop :=
  ∀ ch l p m, get s (.ret ch) = some (.ret l p m) →
    (p ≤ l ∧ l ≤ m ∧ 0 < l) ∧ ∀ q v, get s (.row ch q) = some v → p < q

def touches (k : Key) : W → Bool
  | .put k' _ => k' == k
  | .del k' => k' == k
  | .delEntFrom c f => isEntFrom c f k

theorem get_untouched (b : List W) (k : Key) : ∀ (s : Store), (∀ w ∈ b, touches k w = false) →
    get (applyBatch s b) k = get s k := by
  induction b with
  | nil => intro s _; rfl
  | cons w rest ih =>
    intro s h
    rw [applyBatch_cons, ih _ (fun x hx => h x (List.mem_cons_of_mem _ hx))]
    have hw := h w List.mem_cons_self
    cases w with
    | put k' v => rw [get_applyW_put]; simp [touches] at hw; rw [if_neg (fun e => hw e.symm)]
    | del k' => rw [get_applyW_del]; simp [touches] at hw; rw [if_neg (fun e => hw e.symm)]
    | delEntFrom c f => rw [get_delEnt]; simp [touches] at hw; simp [hw]

theorem idxOnly_rowWrites (ch q : Nat) (r : Rec) : ∀ w ∈ rowWrites ch q r, ∃ k v, w = .put k v ∧ isIdx k = true := by
  intro w hw
  unfold rowWrites at hw
  simp only [List.mem_append, List.mem_cons, List.mem_nil_iff, or_false] at hw
  rcases hw with (((h | h) | h) | h) | h
  · exact ⟨_, _, h, rfl⟩
  · exact ⟨_, _, h, rfl⟩
  · split at h <;> simp at h; exact ⟨_, _, h, rfl⟩
  · split at h <;> simp at h; exact ⟨_, _, h, rfl⟩
  · split at h <;> simp at h; exact ⟨_, _, h, rfl⟩

theorem idxOnly_rowsWrites (ch base : Nat) (recs : List Rec) :
    ∀ w ∈ rowsWrites ch base recs, ∃ k v, w = .put k v ∧ isIdx k = true := by
  intro w hw
  unfold rowsWrites at hw
  simp only [List.mem_flatten, List.mem_map] at hw
  obtain ⟨l, ⟨⟨r, i⟩, _, rfl⟩, hm⟩ := hw
  exact idxOnly_rowWrites _ _ _ w hm

/-- rows after staging records after `base`: new ones are above `base`, the others were there -/
theorem row_after_rowsFrom (ch base : Nat) : ∀ (recs : List Rec) (k : Nat) (s : Store) (ch' q : Nat) (v : Val),
    get (applyBatch s (rowsFrom ch base k recs)) (.row ch' q) = some v →
      (ch' = ch ∧ base + k < q) ∨ get s (.row ch' q) = some v
  | [], _, s, _, _, _, h => by right; simpa [rowsFrom, applyBatch] using h
  | r :: rest, k, s, ch', q, v, h => by
    rw [rowsFrom_cons, applyBatch_append] at h
    rcases row_after_rowsFrom ch base rest (k + 1) _ ch' q v h with h1 | h1
    · left; exact ⟨h1.1, by omega⟩
    · rw [get_rw_row] at h1
      split at h1
      · next hc => left; exact ⟨hc.1, by omega⟩
      · right; exact h1

/-- deletes only remove: a key no write of the batch PUTS keeps at most its old value -/
theorem get_sub_of_noPut (b : List W) (k : Key) : ∀ (s : Store) (v : Val), (∀ w ∈ b, ∀ v', w ≠ .put k v') →
    get (applyBatch s b) k = some v → get s k = some v := by
  induction b with
  | nil => intro s v _ h; exact h
  | cons w rest ih =>
    intro s v hb h
    rw [applyBatch_cons] at h
    have h1 := ih _ v (fun x hx => hb x (List.mem_cons_of_mem _ hx)) h
    have hw := hb w List.mem_cons_self
    cases w with
    | put k' v' =>
      rw [get_applyW_put] at h1
      split at h1
      · next he => subst he; exact absurd rfl (hw v')
      · exact h1
    | del k' => rw [get_applyW_del] at h1; split at h1; · cases h1
                exact h1
    | delEntFrom c f => rw [get_delEnt] at h1; split at h1; · cases h1
                        exact h1

theorem retMax_le_leo (s : Store) (ch : Nat) : retMax s ch ≤ leo s ch := Nat.le_max_right _ _

/-- transfer: same retention entries, rows either old or above the old log end -/
theorem retFloor_of_rows (s s' : Store) (h : RetFloor s)
    (hret : ∀ ch, get s' (.ret ch) = get s (.ret ch))
    (hrow : ∀ ch q v, get s' (.row ch q) = some v → leo s ch < q ∨ get s (.row ch q) = some v) : RetFloor s' := by
  intro ch l p m hg
  rw [hret] at hg
  obtain ⟨ho, hr⟩ := h ch l p m hg
  refine ⟨ho, ?_⟩
  intro q v hv
  rcases hrow ch q v hv with h1 | h1
  · have : retMax s ch = m := by unfold retMax; rw [hg]
    have := retMax_le_leo s ch
    omega
  · exact hr q v h1

/-- writes that put neither a retention entry nor a row -/
def sysW : W → Bool
  | .put (.ret _) _ => false
  | .put (.row _ _) _ => false
  | .del (.ret _) => false
  | _ => true

theorem untouched_ret_of_sysW (ch : Nat) (w : W) (h : sysW w = true) : touches (.ret ch) w = false := by
  cases w with
  | put k v => cases k <;> simp [sysW, touches] at h ⊢
  | del k => cases k <;> simp [sysW, touches] at h ⊢
  | delEntFrom c f => simp [touches, isEntFrom]

theorem noRowPut_of_sysW (ch q : Nat) (w : W) (h : sysW w = true) : ∀ v, w ≠ .put (.row ch q) v := by
  intro v he; subst he; simp [sysW] at h

theorem sysW_of_idxPut (w : W) (h : ∃ k v, w = .put k v ∧ isIdx k = true) (hnr : ∀ c q v, w ≠ .put (.row c q) v) : sysW w = true := by
  obtain ⟨k, v, rfl, hk⟩ := h
  cases k <;> simp [isIdx] at hk <;> simp [sysW]
  exact absurd rfl (hnr _ _ v)

/-- an append-shaped batch (rows after the log end, then system puts) keeps the retention floor -/
theorem retFloor_append (s : Store) (ch : Nat) (recs : List Rec) (z : List W) (h : RetFloor s)
    (hz : ∀ w ∈ z, sysW w = true) : RetFloor (applyBatch s (rowsWrites ch (leo s ch) recs ++ z)) := by
  apply retFloor_of_rows s _ h
  · intro ch'
    apply get_untouched
    intro w hw
    rcases List.mem_append.1 hw with hw | hw
    · obtain ⟨k, v, rfl, hk⟩ := idxOnly_rowsWrites _ _ _ w hw
      cases k <;> simp [isIdx] at hk <;> simp [touches]
    · exact untouched_ret_of_sysW ch' w (hz w hw)
  · intro ch' q v hv
    rw [applyBatch_append] at hv
    have hv' := get_sub_of_noPut z (.row ch' q) _ v (fun w hw => noRowPut_of_sysW ch' q w (hz w hw)) hv
    rw [rowsWrites_eq] at hv'
    rcases row_after_rowsFrom ch (leo s ch) recs 0 s ch' q v hv' with h1 | h1
    · left; obtain ⟨rfl, h2⟩ := h1; omega
    · right; exact h1

theorem sysW_catalogW (ch base : Nat) : ∀ w ∈ catalogW ch base, sysW w = true := by
  intro w hw; unfold catalogW at hw; split at hw <;> simp at hw; subst hw; rfl
theorem sysW_ckptAdvance (s : Store) (ch h : Nat) : ∀ w ∈ ckptAdvance s ch h, sysW w = true := by
  intro w hw; unfold ckptAdvance at hw; split at hw <;> simp at hw; subst hw; rfl
theorem sysW_entryWrites (ch base cmd term pterm n : Nat) : ∀ w ∈ entryWrites ch base cmd term pterm n, sysW w = true := by
  intro w hw; unfold entryWrites at hw; simp only [List.mem_map] at hw; obtain ⟨i, _, rfl⟩ := hw; rfl
theorem sysW_append {a b : List W} (ha : ∀ w ∈ a, sysW w = true) (hb : ∀ w ∈ b, sysW w = true) :
    ∀ w ∈ a ++ b, sysW w = true := by
  intro w hw; rcases List.mem_append.1 hw with h | h
  · exact ha w h
  · exact hb w h

/-- a batch that only DELETES rows and does not touch retention entries keeps the floor -/
theorem retFloor_of_sub (s s' : Store) (h : RetFloor s) (hret : ∀ ch, get s' (.ret ch) = get s (.ret ch))
    (hrow : ∀ ch q v, get s' (.row ch q) = some v → get s (.row ch q) = some v) : RetFloor s' :=
  retFloor_of_rows s s' h hret (fun ch q v hv => Or.inr (hrow ch q v hv))

theorem retFloor_plan_appends (s : Store) (op : Op) (h : RetFloor s)
    (hop : match op with | .app .. => True | .fetch .. => True | .xapp .. => True | .ckpt .. => True | _ => False) :
    RetFloor (applyBatch s (plan s op).2) := by
  cases op with
  | app ch mode recs =>
    unfold plan; simp only
    repeat' split
    all_goals first
      | exact h
      | exact retFloor_append s ch recs _ h (sysW_catalogW _ _)
  | fetch ch hw recs =>
    unfold plan; simp only
    repeat' split
    all_goals first
      | exact h
      | (rw [List.append_assoc]
         refine retFloor_append s ch recs _ h (sysW_append ?_ ?_)
         · first | exact sysW_ckptAdvance _ _ _ | (intro w hw; cases hw)
         · first | exact sysW_catalogW _ _ | (intro w hw; simp at hw; subst hw; rfl))
  | xapp ch cmd term committed mode recs =>
    unfold plan; simp only
    repeat' split
    all_goals first
      | exact h
      | (rw [List.append_assoc, List.append_assoc, List.append_assoc]
         refine retFloor_append s ch recs _ h ?_
         refine sysW_append (sysW_ckptAdvance _ _ _) (sysW_append ?_ (sysW_append (sysW_entryWrites _ _ _ _ _ _) (sysW_catalogW _ _)))
         intro w hw; simp at hw; rcases hw with rfl | rfl <;> rfl)
  | ckpt ch hw =>
    unfold plan; simp only
    repeat' split
    all_goals first
      | exact h
      | (apply retFloor_of_sub s _ h
         · intro ch'; apply get_untouched; intro w hw; simp at hw; rcases hw with rfl | rfl <;> simp [touches]
         · intro ch' q v hv
           exact get_sub_of_noPut _ _ _ v (by intro w hw v'; simp at hw; rcases hw with rfl | rfl <;> simp) hv)
  | trunc ch to => exact absurd hop (by simp)
  | adopt ch th => exact absurd hop (by simp)
  | trim ch th mx => exact absurd hop (by simp)

end WK.C09
